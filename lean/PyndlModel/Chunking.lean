/-
  PyndlModel.Chunking — `create_binary_event_files` (preprocess.py:759-884):
  conversion jobs over windows of `events_per_file` events, chunk file names,
  the numeric sort key used by the learners (ndl.py:220), and the submit loop
  with its completion callbacks.
-/
import PyndlModel.Bytes

namespace Pyndl

/-- window of conversion job `j`: events `[j*per, (j+1)*per)` -/
def chunkOf {α : Type} (per : Nat) (es : List α) (j : Nat) : List α :=
  (es.drop (j * per)).take per

/-- `"events_0_%i.dat" % ii` -/
def chunkName (i : Nat) : List Char :=
  "events_0_".toList ++ Nat.toDigits 10 i ++ ".dat".toList

/-- `int(os.path.basename(filename)[9:-4])` -/
def chunkKey (name : List Char) : Nat :=
  Nat.ofDigitChars 10 ((name.drop 9).take (name.length - 9 - 4)) 0

/-- what the callback of job `j` sees (`write_events` result):
    number of events written and whether this result ends the stream. -/
structure JobResult where
  count : Nat
  closes : Bool
deriving Repr, BEq, DecidableEq

/-- result of job `j` for `n` events and `per` events per file, current rule:
    a partly filled file raises StopIteration (closes), a job that wrote no
    event starts at or behind the end of the events (closes as well). -/
def jobResult (n per j : Nat) : JobResult :=
  let c := min per (n - j * per)
  ⟨c, decide (c < per)⟩

/-- the pinned tree's rule before the repair (F1): only a partly filled,
    non-empty file closes the pool -/
def jobResultOld (n per j : Nat) : JobResult :=
  let c := min per (n - j * per)
  ⟨c, decide (0 < c ∧ c < per)⟩

/-- index of the first job whose result closes the pool -/
def firstClosing (n per : Nat) : Nat := n / per

/-! ### the submit loop against a completion oracle

`delay j` = number of ticks job `j` needs after its submission (arbitrary: every
completion order and every overtaking pattern is some oracle; "each submitted
job eventually completes" is the finiteness of `delay j`). The main thread
submits one job per tick and, after every `throttle * n_jobs` submissions,
waits until the job submitted last is done. -/

def tSubmit (delay : Nat → Nat) (burst : Nat) : Nat → Nat
  | 0 => 0
  | j + 1 =>
    let t := tSubmit delay burst j
    if (j + 1) % burst = 0 then max (t + 1) (t + delay j) else t + 1

def tDone (delay : Nat → Nat) (burst : Nat) (j : Nat) : Nat := tSubmit delay burst j + delay j

/-- the time at which the pool gets closed: the earliest completion of a job
    whose result closes the pool (job `n / per` is the first such job, every
    later one closes as well). `horizon` bounds the jobs looked at. -/
def closeTime (n per burst : Nat) (delay : Nat → Nat) (horizon : Nat) : Nat :=
  ((List.range (horizon + 1)).filter (fun j => (jobResult n per j).closes)).foldl
    (fun m j => min m (tDone delay burst j)) (tDone delay burst (n / per))

/-- executable simulation: closing time, number of jobs submitted up to then
    (a submission at the closing tick still goes through — the worst case), and
    the count accumulated from the callbacks of all submitted jobs (the caller
    joins the pool, so all of them complete). -/
def simulate (n per burst : Nat) (delay : Nat → Nat) (horizon : Nat) : Nat × Nat × Nat :=
  let c := closeTime n per burst delay horizon
  let submitted := (List.range (horizon + 1)).filter (fun j => decide (tSubmit delay burst j ≤ c))
  (c, submitted.length, (submitted.map (fun j => (jobResult n per j).count)).sum)

end Pyndl

namespace Pyndl

/-! ### conversion jobs that fail (repeated cue under the default policy, a
write beyond the storage budget, …): the error callback records the error and
closes the pool; the caller re-raises after joining (preprocess.py, after the
repair of F2). -/

def closesF (n per : Nat) (failing : Nat → Bool) (j : Nat) : Bool :=
  (jobResult n per j).closes || failing j

/-- `(close time, raises?, count of the jobs that did not fail)`; `f0` is the
    first job whose completion closes the pool. -/
def simulateF (n per burst : Nat) (delay : Nat → Nat) (failing : Nat → Bool) (f0 horizon : Nat) :
    Nat × Bool × Nat :=
  let c := ((List.range (horizon + 1)).filter (closesF n per failing)).foldl
    (fun m j => min m (tDone delay burst j)) (tDone delay burst f0)
  let submitted := (List.range (horizon + 1)).filter (fun j => decide (tSubmit delay burst j ≤ c))
  (c, submitted.any failing,
    ((submitted.filter (fun j => !failing j)).map (fun j => (jobResult n per j).count)).sum)

end Pyndl

namespace Pyndl

/-! ### the submit loop as a STEP semantics (preprocess.py:843-878)

One `LoopState` per pass through `while True`: the tick `now`, the index `ii`
of the job submitted next and the jobs submitted so far with the tick at which
each completes (`delay`, the completion oracle).  `loopStep` is one pass:
`pool.apply_async` raises `ValueError('Pool not running')` — the `break` — iff
the callback of a submitted job whose result closes the pool ran strictly
before this tick (a submission AT the closing tick still goes through, the
worst case `simulate` counts too); otherwise job `ii` is submitted and, after
every `burst = 4 · n_jobs` submissions, the thread polls `result.ready()` of
the job submitted last (at least one tick).  `runLoop` iterates it with fuel;
`none` = fuel exhausted (the loop did not end within `fuel` passes).
`PyndlProofs/SubmitLoop.lean` proves that `runLoop` ends for EVERY oracle with
exactly the jobs / counts of the closed form `simulate`. -/

structure LoopState where
  now : Nat
  ii : Nat
  /-- `(job, completion tick)`, most recent first -/
  subs : List (Nat × Nat)
deriving Repr, DecidableEq

def poolClosed (n per : Nat) (s : LoopState) : Bool :=
  s.subs.any (fun p => (jobResult n per p.1).closes && decide (p.2 < s.now))

def loopStep (n per burst : Nat) (delay : Nat → Nat) (s : LoopState) : Option LoopState :=
  if poolClosed n per s then none
  else
    some { now := if (s.ii + 1) % burst = 0 then max (s.now + 1) (s.now + delay s.ii) else s.now + 1,
           ii := s.ii + 1,
           subs := (s.ii, s.now + delay s.ii) :: s.subs }

def runLoop (n per burst : Nat) (delay : Nat → Nat) : Nat → LoopState → Option LoopState
  | 0, _ => none
  | fuel + 1, s =>
    match loopStep n per burst delay s with
    | none => some s
    | some s' => runLoop n per burst delay fuel s'

def loopInit : LoopState := ⟨0, 0, []⟩

/-- `number_events` after the join: every submitted job completes and its
    callback adds its count -/
def loopCount (n per : Nat) (s : LoopState) : Nat :=
  (s.subs.map (fun p => (jobResult n per p.1).count)).sum

end Pyndl
