/-
  PyndlModel.Corpus — executable model of `pyndl/corpus.py` (and of
  `pyndl/io.py:safe_write_path` as `create_corpus_from_gz` uses it).

  A Python `str` is modelled as its sequence of code points, `Str := List Char`.
  A gzipped subtitle XML file is modelled by what `xml.etree` hands to the code:
  per `<s>` element the texts of its `<w>` children (`none` = empty element) and
  the `(id, value)` attributes of its `<time>` children (gzip, the utf-8-sig
  codec and `xml.etree` are trusted; the harness writes real `.gz` files).

  Mathlib-free; times are exact rationals (`Rat` of core Lean).
-/
import PyndlModel.Ndl

namespace Pyndl
namespace Corpus

abbrev Str := List Char

/-! ## constants of `pyndl/corpus.py` (the values the property is stated for;
    `PyndlProps/C19.lean` checks them against `Generated.lean`) -/

/-- corpus.py:20 `FRAMES_PER_SECOND = 30` -/
def specFps : Nat := 30
/-- corpus.py:170 `JobParseGz(break_duration=5.0)` -/
def specBreak : Rat := 5
/-- corpus.py:128 -/
def specMarker : Str := "\n---END.OF.DOCUMENT---\n\n".toList
/-- corpus.py:21 `PUNCTUATION = tuple(".,:;?!()[]'")` -/
def punctuation : List Char := ".,:;?!()[]'".toList

structure Cfg where
  fps : Nat
  brk : Rat
  marker : Str

def specCfg : Cfg := ⟨specFps, specBreak, specMarker⟩

/-! ## the document as `xml.etree` presents it -/

/-- a `<time id=… value=… />` element -/
structure TimeTag where
  id : Str
  value : Str
deriving Repr, DecidableEq

/-- an `<s>` element: `findall('w')` texts and `findall('time')` attributes,
    each in document order (corpus.py:69, 84) -/
structure Sentence where
  words : List (Option Str)
  times : List TimeTag
deriving Repr, DecidableEq

abbrev Document := List Sentence

/-! ## `_parse_time_string` (corpus.py:24-34) -/

/-- `str.split(sep)` for a one-character separator: always ≥ 1 field. -/
def splitOnChar (sep : Char) : Str → List Str
  | [] => [[]]
  | c :: cs =>
    if c = sep then [] :: splitOnChar sep cs
    else match splitOnChar sep cs with
      | [] => [[c]]
      | f :: fs => (c :: f) :: fs

def digitVal (c : Char) : Option Nat :=
  if 48 ≤ c.toNat ∧ c.toNat ≤ 57 then some (c.toNat - 48) else none

/-- `float(field)` restricted to non-empty ASCII digit strings (the only
    fields generated; anything else is predicted `ValueError`, which is what
    `float('')`, `float('x')` give — signs, exponents, blanks, '_' and
    non-ASCII digits, which `float` also accepts, are out of scope). -/
def parseNat : Str → Option Nat
  | [] => none
  | cs => cs.foldlM (fun acc c => (digitVal c).map (fun d => acc * 10 + d)) 0

/-- corpus.py:30-34: `replace(',', ':').split(':')` must give exactly four
    fields (else the tuple unpacking raises `ValueError`). -/
def parseTime (fps : Nat) (s : Str) : Except Err Rat :=
  match splitOnChar ':' (s.map (fun c => if c = ',' then ':' else c)) with
  | [h, m, sec, f] =>
    match parseNat h, parseNat m, parseNat sec, parseNat f with
    | some h, some m, some sec, some f =>
      .ok ((h : Rat) * 60 * 60 + (m : Rat) * 60 + (sec : Rat) + (f : Rat) / (fps : Rat))
    | _, _, _, _ => .error .value
  | _ => .error .value

/-! ## sentence cleaning (corpus.py:63-103) -/

/-- `text in PUNCTUATION` for a tuple of one-character strings -/
def isPunct (t : Str) : Bool :=
  match t with
  | [c] => punctuation.contains c
  | _ => false

/-- corpus.py:68-77: punctuation is appended as is, any other text as
    `' ', text`; a `<w>` without text raises `ValueError`. -/
def joinWords : List (Option Str) → Except Err Str
  | [] => .ok []
  | none :: _ => .error .value
  | some t :: ws =>
    match joinWords ws with
    | .error e => .error e
    | .ok r => .ok ((if isPunct t then t else ' ' :: t) ++ r)

/-- code points for which `str.isspace()` holds (what `str.strip()` removes) -/
def pySpaces : List Nat :=
  [9, 10, 11, 12, 13, 28, 29, 30, 31, 32, 133, 160, 5760, 8192, 8193, 8194, 8195, 8196,
   8197, 8198, 8199, 8200, 8201, 8202, 8232, 8233, 8239, 8287, 12288]

def isPySpace (c : Char) : Bool := pySpaces.contains c.toNat

/-- `str.strip()` -/
def strip (s : Str) : Str :=
  ((s.dropWhile isPySpace).reverse.dropWhile isPySpace).reverse

/-- one `<time>` tag (corpus.py:84-101); state = (result so far, last_time).
    The value is parsed before the tag type is looked at. -/
def timeStep (cfg : Cfg) (st : Str × Rat) (tag : TimeTag) : Except Err (Str × Rat) :=
  match parseTime cfg.fps tag.value with
  | .error e => .error e
  | .ok cur =>
    let ty := tag.id.getLast?          -- `id[-1:]` ('' for an empty id)
    if ty = some 'S' ∧ cur - st.2 > cfg.brk then .ok ('\n' :: st.1, st.2)
    else if ty = some 'E' then .ok (st.1, cur)
    else if ty = some 'S' then .ok st
    else .error .value

def timeSteps (cfg : Cfg) : Str × Rat → List TimeTag → Except Err (Str × Rat)
  | st, [] => .ok st
  | st, t :: ts =>
    match timeStep cfg st t with
    | .error e => .error e
    | .ok st' => timeSteps cfg st' ts

/-- one `<s>` element: `none` = nothing yielded (`if not result: continue`
    skips the time tags as well, corpus.py:80-81). -/
def sentenceLine (cfg : Cfg) (last : Rat) (s : Sentence) : Except Err (Option Str × Rat) :=
  match joinWords s.words with
  | .error e => .error e
  | .ok joined =>
    let result := strip joined
    if result = [] then .ok (none, last)
    else match timeSteps cfg (result, last) s.times with
      | .error e => .error e
      | .ok (r, last') => .ok (some (r ++ ['\n']), last')

def readCleanFrom (cfg : Cfg) : Rat → Document → Except Err (List Str)
  | _, [] => .ok []
  | last, s :: rest =>
    match sentenceLine cfg last s with
    | .error e => .error e
    | .ok (line, last') =>
      match readCleanFrom cfg last' rest with
      | .error e => .error e
      | .ok more => .ok (match line with | some l => l :: more | none => more)

/-- `list(read_clean_gzfile(path, break_duration=brk))` (corpus.py:37-103,
    `last_time = 0.0` initially). An exception anywhere discards the lines of
    the whole file (the job builds the complete list first). -/
def readClean (cfg : Cfg) (d : Document) : Except Err (List Str) := readCleanFrom cfg 0 d

/-! ## the per-file job (corpus.py:106-131) -/

/-- what a path of the walked tree is -/
inductive Entry where
  | doc (d : Document)   -- readable gzip XML file (or a link to one)
  | dangling             -- symlink whose target is missing: FileNotFoundError
  | notGzip              -- regular file that is not gzip data: gzip.BadGzipFile (an OSError)
  | dir                  -- directory (listed by os.walk under `dirs`, never under `files`)
deriving Repr, DecidableEq

inductive JobResult where
  | lines (ls : List Str)
  | notFound (line : Str)
deriving Repr, DecidableEq

/-- `JobParseGz.run(filename)` -/
def runJob (cfg : Cfg) (path : Str) : Entry → Except Err JobResult
  | .doc d =>
    match readClean cfg d with
    | .error e => .error e
    | .ok ls => .ok (.lines (ls ++ [cfg.marker]))
  | .dangling => .ok (.notFound (path ++ ['\n']))
  | .notGzip => .error .io
  | .dir => .error .io

/-! ## path order and sorting (corpus.py:157-161) -/

/-- Python's `str` order: lexicographic by code point -/
def lexLt : Str → Str → Bool
  | [], [] => false
  | [], _ :: _ => true
  | _ :: _, [] => false
  | a :: as, b :: bs =>
    if a.toNat < b.toNat then true
    else if b.toNat < a.toNat then false
    else lexLt as bs

def insertBy {α : Type} (key : α → Str) (x : α) : List α → List α
  | [] => [x]
  | y :: ys => if lexLt (key y) (key x) then y :: insertBy key x ys else x :: y :: ys

/-- `list.sort()` on distinct strings (any correct sort gives this list, see
    `C19.sort_total`) -/
def sortBy {α : Type} (key : α → Str) : List α → List α
  | [] => []
  | x :: xs => insertBy key x (sortBy key xs)

def endsWith (suffix s : Str) : Bool := suffix.reverse.isPrefixOf s.reverse

/-- `os.path.join(a, b)` for a relative `b` -/
def pyJoin (a b : Str) : Str :=
  if a = [] then b else if a.getLast? = some '/' then a ++ b else a ++ '/' :: b

def isDir : Entry → Bool
  | .dir => true
  | _ => false

/-- corpus.py:157-161. `tree` lists every path below `directory` (relative,
    '/'-separated, in whatever order `os.walk` produces them; entries reached
    through a symlinked directory are listed under the link's name because of
    `followlinks=True`). `name.endswith('.gz')` on the last component equals
    `endswith` on the whole path since the suffix contains no '/'. -/
def gzFiles (directory : Str) (tree : List (Str × Entry)) : List (Str × Entry) :=
  sortBy (·.1) ((tree.filter (fun e => !isDir e.2 && endsWith ".gz".toList e.1)).map
    (fun e => (pyJoin directory e.1, e.2)))

/-! ## `multiprocessing.Pool(n).imap` (corpus.py:166-171) -/

/-- the result iterator: hand out results by job index, whatever order they
    arrived in -/
def collect {β : Type} (n : Nat) (arrivals : List (Nat × β)) : List β :=
  (List.range n).filterMap (fun i => arrivals.lookup i)

/-- one concrete arrival order for `n` workers: worker `w` handles the jobs
    with index ≡ w (mod n) and all of worker 0's results arrive first, …
    (`C19.threads_independent` shows every arrival order gives the same list) -/
def arrivals {α β : Type} (n : Nat) (f : α → β) (xs : List α) : List (Nat × β) :=
  (List.range n).flatMap (fun w =>
    (xs.zipIdx.filter (fun p => p.2 % n = w)).map (fun p => (p.2, f p.1)))

def imap {α β : Type} (n : Nat) (f : α → β) (xs : List α) : List β :=
  collect xs.length (arrivals n f xs)

/-! ## the consumer loop (corpus.py:171-182) -/

/-- (pieces written to the corpus, not-found lines, exception that ended the loop) -/
def consume : List (Except Err JobResult) → List Str × List Str × Option Err
  | [] => ([], [], none)
  | .error e :: _ => ([], [], some e)
  | .ok (.lines ls) :: rest =>
    let (w, nf, err) := consume rest
    (ls ++ w, nf, err)
  | .ok (.notFound l) :: rest =>
    let (w, nf, err) := consume rest
    (w, l :: nf, err)

/-! ## `io.safe_write_path(path, template='{path}-{counter}')` (io.py:180-213) -/

def natStr (n : Nat) : Str := (toString n).toList

def candidate (path : Str) (counter : Nat) : Str :=
  if counter = 0 then path else path ++ '-' :: natStr counter

/-- first of `path, path-1, path-2, …` that does not exist. `existing` is the
    finite set of existing paths, so one of the first `existing.length + 1`
    candidates is free (`PyndlProofs.Corpus.safeWritePath_fresh`); the
    fall-back value is never returned. -/
def safeWritePath (existing : List Str) (path : Str) : Str :=
  match (List.range (existing.length + 1)).find? (fun k => !existing.contains (candidate path k)) with
  | some k => candidate path k
  | none => candidate path (existing.length + 1)

/-! ## `create_corpus_from_gz` (corpus.py:134-194) -/

/-- corpus.py:191 `outfile + ".not_found"` -/
def notFoundSuffix : Str := ".not_found".toList

/-- the part of the file system the function looks at before writing -/
structure World where
  dirExists : Bool        -- os.path.isdir(directory)
  files : List Str        -- existing paths (outfile / .not_found candidates are looked up here)

/-- everything observable afterwards -/
structure Outcome where
  raised : Option Err
  /-- pieces written to `outfile` in order (`none`: the file was not opened) -/
  corpus : Option (List Str)
  /-- name and lines of the `.not_found` file (`none`: not created) -/
  notFound : Option (Str × List Str)
deriving Repr, DecidableEq

def createCorpus (cfg : Cfg) (nThreads : Nat) (directory outfile : Str) (w : World)
    (tree : List (Str × Entry)) : Outcome :=
  if !w.dirExists then ⟨some .io, none, none⟩                   -- corpus.py:149-150
  else if w.files.contains outfile then ⟨some .io, none, none⟩   -- corpus.py:151-153
  else if nThreads = 0 then ⟨some .value, none, none⟩            -- Pool(0), before open(outfile)
  else
    let results := imap nThreads (fun p => runJob cfg p.1 p.2) (gzFiles directory tree)
    match consume results with
    | (written, _, some e) => ⟨some e, some written, none⟩
    | (written, nf, none) =>
      ⟨none, some written,
        if nf = [] then none
        else some (safeWritePath w.files (outfile ++ notFoundSuffix), nf)⟩

end Corpus
end Pyndl
