/-
  PyndlModel.Corpus — executable model of `pyndl/corpus.py` (and of
  `pyndl/io.py:safe_write_path` as `create_corpus_from_gz` uses it).

  A Python `str` is modelled as its sequence of code points, `Str := List Char`.
  A gzipped subtitle XML file is modelled by what `xml.etree` hands to the code:
  per `<s>` element the texts of its `<w>` children (`none` = empty element) and
  the `(id, value)` attributes of its `<time>` children (gzip, the utf-8-sig
  codec and `xml.etree` are trusted; the harness writes real `.gz` files).

  Mathlib-free.  The ARITHMETIC the times are computed and compared in is a
  parameter (`Arith τ`): the code uses IEEE doubles (`floatArith`, Lean's
  `Float`, which the driver executes and the kernel evaluates on closed terms);
  the specification of "the pause exceeds the break duration" is stated over
  exact rationals (`ratArith`, `Rat` of core Lean).  Every C19 theorem that does
  not look inside the comparison holds for every arithmetic; the two are linked
  by the decidable per-document predicate `CompareAgrees` (`CodeCompareAgrees`
  for the code's doubles against exact rationals).  `TimesExact` is a decidable
  class of documents for which `CodeCompareAgrees` is EXPECTED to hold; that
  implication (`TimesExactSuffices`) is an OPEN statement, not proved here and
  not used by any theorem except the clearly marked corollaries of
  `PyndlProps/C19.lean` (end of the time section).
-/
import PyndlModel.Ndl

namespace Pyndl
namespace Corpus

abbrev Str := List Char

/-! ## constants of `pyndl/corpus.py` (the values the property is stated for;
    `PyndlProps/C19.lean` checks them against `Generated.lean`) -/

/-- corpus.py:20 `FRAMES_PER_SECOND = 30` -/
def specFps : Nat := 30
/-- corpus.py:170 `JobParseGz(break_duration=5.0)` -/
def specBreak : Rat := 5
/-- corpus.py:128 -/
def specMarker : Str := "\n---END.OF.DOCUMENT---\n\n".toList
/-- corpus.py:21 `PUNCTUATION = tuple(".,:;?!()[]'")` -/
def punctuation : List Char := ".,:;?!()[]'".toList

/-- The arithmetic of `_parse_time_string` and of the paragraph test
    (corpus.py:31-34, 62, 91-92), abstracted: `τ` is the type of a time value. -/
structure Arith (τ : Type) where
  /-- `last_time = 0.0` (corpus.py:62) -/
  zero : τ
  /-- `float(field)` on one of the four fields; `none` = `ValueError` -/
  lit : Str → Option τ
  /-- `h * 60 * 60 + m * 60 + s + f / FRAMES_PER_SECOND` (left to right) -/
  time : τ → τ → τ → τ → τ
  /-- `current_time - last_time > break_duration` -/
  exceeds : (cur last : τ) → Bool

structure Cfg (τ : Type) where
  arith : Arith τ
  marker : Str

/-! ## the document as `xml.etree` presents it -/

/-- a `<time id=… value=… />` element -/
structure TimeTag where
  id : Str
  value : Str
deriving Repr, DecidableEq

/-- an `<s>` element: `findall('w')` texts and `findall('time')` attributes,
    each in document order (corpus.py:69, 84) -/
structure Sentence where
  words : List (Option Str)
  times : List TimeTag
deriving Repr, DecidableEq

abbrev Document := List Sentence

/-! ## `_parse_time_string` (corpus.py:24-34) -/

/-- `str.split(sep)` for a one-character separator: always ≥ 1 field. -/
def splitOnChar (sep : Char) : Str → List Str
  | [] => [[]]
  | c :: cs =>
    if c = sep then [] :: splitOnChar sep cs
    else match splitOnChar sep cs with
      | [] => [[c]]
      | f :: fs => (c :: f) :: fs

def digitVal (c : Char) : Option Nat :=
  if 48 ≤ c.toNat ∧ c.toNat ≤ 57 then some (c.toNat - 48) else none

/-- A non-empty string of ASCII digits read as a number.  This is the literal
    reader of the two executable arithmetics below: on such a field
    `float(field)` is that integer (exactly, below 2^53).  `float` accepts more
    spellings (`'1.5'`, `'+1'`, `' 1 '`, `'1_0'`, `'1e3'`, `'inf'`, `'nan'`, non-ASCII
    digits); they are OUTSIDE this reader's domain — see `floatAccepts` /
    `LitDomain` below, which make the domain a decidable predicate. -/
def parseNat : Str → Option Nat
  | [] => none
  | cs => cs.foldlM (fun acc c => (digitVal c).map (fun d => acc * 10 + d)) 0

/-- corpus.py:30-34: `replace(',', ':').split(':')` must give exactly four
    fields (else the tuple unpacking raises `ValueError`); then `float()` is
    applied to each of the four (every failure is a `ValueError`, so the order
    in which the fields are converted is not observable). -/
def parseTime {τ : Type} (A : Arith τ) (s : Str) : Except Err τ :=
  match splitOnChar ':' (s.map (fun c => if c = ',' then ':' else c)) with
  | [h, m, sec, f] =>
    match A.lit h, A.lit m, A.lit sec, A.lit f with
    | some h, some m, some sec, some f => .ok (A.time h m sec f)
    | _, _, _, _ => .error .value
  | _ => .error .value

/-! ### the two arithmetics -/

/-- exact rationals: the arithmetic the SPECIFICATION is stated in -/
def ratArith (fps : Nat) (brk : Rat) : Arith Rat where
  zero := 0
  lit f := (parseNat f).map (fun n => (n : Rat))
  time h m s f := h * 60 * 60 + m * 60 + s + f / (fps : Rat)
  exceeds cur last := decide (cur - last > brk)

/-- IEEE doubles: the arithmetic the CODE uses (`float(...)`, `*`, `+`, `/`, `-`,
    `>` of CPython are the C double operations, as are Lean's on `Float`).
    `brk` is the double the caller passes (`5.0` in `create_corpus_from_gz`). -/
def floatArith (fps : Nat) (brk : Float) : Arith Float where
  zero := 0.0
  lit f := (parseNat f).map Float.ofNat
  time h m s f := h * 60 * 60 + m * 60 + s + f / Float.ofNat fps
  exceeds cur last := decide (cur - last > brk)

/-- the double nearest to a rational with numerator and denominator below 2^53
    (one correctly rounded division; what `float(Fraction(q))` gives) -/
def floatOfRat (q : Rat) : Float := Float.ofInt q.num / Float.ofNat q.den

/-- a configuration over doubles (what the code computes) … -/
def cfgF (fps : Nat) (brk : Rat) (marker : Str) : Cfg Float := ⟨floatArith fps (floatOfRat brk), marker⟩
/-- … and the same over exact rationals (what the specification says) -/
def cfgQ (fps : Nat) (brk : Rat) (marker : Str) : Cfg Rat := ⟨ratArith fps brk, marker⟩

/-- the configuration of `create_corpus_from_gz`: doubles, 30 fps, 5.0 s -/
def specCfgF : Cfg Float := cfgF specFps specBreak specMarker
/-- the same constants over exact rationals (the specification) -/
def specCfg : Cfg Rat := cfgQ specFps specBreak specMarker

/-! ### the literal domain of `parseNat`, as a decidable predicate

`floatAccepts` decides, for an ASCII string, whether CPython's `float(str)`
returns (rather than raising `ValueError`): `PyFloat_FromString` →
`_Py_string_to_number_with_underscores` (underscores only between two digits) →
`float_from_string_inner` (strip `Py_ISSPACE`: 9–13 and 32) →
`PyOS_string_to_double` (optional sign, then `inf` / `infinity` / `nan` in any
case, or digits with an optional `.` and at least one digit, optional exponent
`e[+-]digits`; the whole string must be consumed).  It is compared with the
real `float` in the differential run; no theorem depends on it except through
`LitDomain`. -/

def isAsciiDigit (c : Char) : Bool := 48 ≤ c.toNat && c.toNat ≤ 57

def isFloatSpace (c : Char) : Bool := (9 ≤ c.toNat && c.toNat ≤ 13) || c.toNat = 32

/-- `_Py_string_to_number_with_underscores`: the string without its
    underscores, `none` when one is not between two digits -/
def dropUnderscores : Char → Str → Option Str
  | prev, [] => if prev = '_' then none else some []
  | prev, c :: cs =>
    if c = '_' then (if isAsciiDigit prev then dropUnderscores '_' cs else none)
    else if prev = '_' && !isAsciiDigit c then none
    else (dropUnderscores c cs).map (c :: ·)

def lowerAscii (c : Char) : Char :=
  if 65 ≤ c.toNat ∧ c.toNat ≤ 90 then Char.ofNat (c.toNat + 32) else c

def dropSign : Str → Str
  | '+' :: r => r
  | '-' :: r => r
  | s => s

/-- `PyOS_string_to_double` consumes the whole (stripped, underscore-free) string -/
def floatBody (s : Str) : Bool :=
  let s := dropSign s
  let low := s.map lowerAscii
  if low = "inf".toList ∨ low = "infinity".toList ∨ low = "nan".toList then true
  else
    let d1 := s.takeWhile isAsciiDigit
    let r1 := s.dropWhile isAsciiDigit
    let (d2, r2) := match r1 with
      | '.' :: r => (r.takeWhile isAsciiDigit, r.dropWhile isAsciiDigit)
      | _ => ([], r1)
    if d1.isEmpty && d2.isEmpty then false
    else match r2 with
      | [] => true
      | e :: r3 =>
        (e = 'e' || e = 'E') && !(dropSign r3).isEmpty && (dropSign r3).all isAsciiDigit

/-- `float(s)` returns (for an ASCII `s`) -/
def floatAccepts (s : Str) : Bool :=
  match (if s.contains '_' then dropUnderscores (Char.ofNat 0) s else some s) with
  | none => false
  | some t => floatBody ((t.dropWhile isFloatSpace).reverse.dropWhile isFloatSpace).reverse

/-- `float(s)` raises `ValueError` for certain: `s` is ASCII and not a float literal -/
def floatRejects (s : Str) : Bool := s.all (fun c => c.toNat < 128) && !floatAccepts s

/-- bound on a time field under which all the double arithmetic on whole numbers
    is exact and the rounding argument of `TimesExactSuffices` applies -/
def fieldBound : Nat := 16777216   -- 2^24

/-- **the literal domain.** A time value on which the executable arithmetics say
    what the code does: it does not split into four fields (`ValueError` whatever
    the fields are), or one of the four is certainly rejected by `float`
    (`ValueError`), or all four are digit strings below 2^24.  Outside (e.g.
    `'00:00:1.5,00'`, `'00:00:+1,00'`) the code succeeds with a time these
    arithmetics do not compute and the model's `ValueError` is NOT a prediction. -/
def LitDomain (v : Str) : Bool :=
  match splitOnChar ':' (v.map (fun c => if c = ',' then ':' else c)) with
  | [h, m, s, f] =>
    [h, m, s, f].any floatRejects ||
      [h, m, s, f].all (fun x => match parseNat x with | some n => n < fieldBound | none => false)
  | _ => true

/-! ## sentence cleaning (corpus.py:63-103) -/

/-- `text in PUNCTUATION` for a tuple of one-character strings -/
def isPunct (t : Str) : Bool :=
  match t with
  | [c] => punctuation.contains c
  | _ => false

/-- corpus.py:68-77: punctuation is appended as is, any other text as
    `' ', text`; a `<w>` without text raises `ValueError`. -/
def joinWords : List (Option Str) → Except Err Str
  | [] => .ok []
  | none :: _ => .error .value
  | some t :: ws =>
    match joinWords ws with
    | .error e => .error e
    | .ok r => .ok ((if isPunct t then t else ' ' :: t) ++ r)

/-- code points for which `str.isspace()` holds (what `str.strip()` removes) -/
def pySpaces : List Nat :=
  [9, 10, 11, 12, 13, 28, 29, 30, 31, 32, 133, 160, 5760, 8192, 8193, 8194, 8195, 8196,
   8197, 8198, 8199, 8200, 8201, 8202, 8232, 8233, 8239, 8287, 12288]

def isPySpace (c : Char) : Bool := pySpaces.contains c.toNat

/-- `str.strip()` -/
def strip (s : Str) : Str :=
  ((s.dropWhile isPySpace).reverse.dropWhile isPySpace).reverse

/-- `id[-1:] == 'E'` / `== 'S'` -/
def isE (tag : TimeTag) : Bool := tag.id.getLast? = some 'E'
def isS (tag : TimeTag) : Bool := tag.id.getLast? = some 'S'

section Generic
variable {τ : Type}

/-- one `<time>` tag (corpus.py:84-101); state = (result so far, last_time).
    The value is parsed before the tag type is looked at. -/
def timeStep (cfg : Cfg τ) (st : Str × τ) (tag : TimeTag) : Except Err (Str × τ) :=
  match parseTime cfg.arith tag.value with
  | .error e => .error e
  | .ok cur =>
    if isS tag = true ∧ cfg.arith.exceeds cur st.2 = true then .ok ('\n' :: st.1, st.2)
    else if isE tag = true then .ok (st.1, cur)
    else if isS tag = true then .ok st
    else .error .value

def timeSteps (cfg : Cfg τ) : Str × τ → List TimeTag → Except Err (Str × τ)
  | st, [] => .ok st
  | st, t :: ts =>
    match timeStep cfg st t with
    | .error e => .error e
    | .ok st' => timeSteps cfg st' ts

/-- one `<s>` element: `none` = nothing yielded (`if not result: continue`
    skips the time tags as well, corpus.py:80-81). -/
def sentenceLine (cfg : Cfg τ) (last : τ) (s : Sentence) : Except Err (Option Str × τ) :=
  match joinWords s.words with
  | .error e => .error e
  | .ok joined =>
    let result := strip joined
    if result = [] then .ok (none, last)
    else match timeSteps cfg (result, last) s.times with
      | .error e => .error e
      | .ok (r, last') => .ok (some (r ++ ['\n']), last')

def readCleanFrom (cfg : Cfg τ) : τ → Document → Except Err (List Str)
  | _, [] => .ok []
  | last, s :: rest =>
    match sentenceLine cfg last s with
    | .error e => .error e
    | .ok (line, last') =>
      match readCleanFrom cfg last' rest with
      | .error e => .error e
      | .ok more => .ok (match line with | some l => l :: more | none => more)

/-- `list(read_clean_gzfile(path, break_duration=brk))` (corpus.py:37-103,
    `last_time = 0.0` initially). An exception anywhere discards the lines of
    the whole file (the job builds the complete list first). -/
def readClean (cfg : Cfg τ) (d : Document) : Except Err (List Str) :=
  readCleanFrom cfg cfg.arith.zero d

end Generic

/-! ## where the double and the rational comparison agree

`CompareAgrees A B d` is the decidable statement "on document `d` the
arithmetics `A` and `B` accept the same time values and order every pair of
times the reader can compare the same way".  The driver evaluates it (for the
code's doubles against exact rationals) on EVERY document of every C19 test and
returns it as `compare_agrees`, next to `times_exact` (= `TimesExact`), so for
every generated document it is a recorded fact whether the exact-time theorems
of `PyndlProps/C19.lean` apply to it.  `harness/run_C19.py` does NOT filter its
documents any more: documents outside `TimesExact` and outside `CompareAgrees`
(a pause within one frame of the break duration) are generated and compared
with the model over doubles as well. -/

/-- every `<time>` tag of the document, in document order (also those of
    sentences that are skipped: the harness does not look at the words) -/
def allTags (d : Document) : List TimeTag := d.flatMap (·.times)

section Agree
variable {τ σ : Type}

/-- the time values of the tags selected by `sel` that parse in both arithmetics, paired -/
def pairedTimes (A : Arith τ) (B : Arith σ) (sel : TimeTag → Bool) (d : Document) : List (τ × σ) :=
  (allTags d).filterMap (fun t =>
    if sel t then
      match parseTime A t.value, parseTime B t.value with
      | .ok x, .ok y => some (x, y)
      | _, _ => none
    else none)

/-- **CompareAgrees.** On this document the two arithmetics (a) accept the same
    time values and (b) give the same answer to every paragraph test that can
    come up: `cur` the time of a tag that is not an `E` tag, `last` the time of
    an `E` tag or the initial `0.0`.  Decidable; for closed documents the kernel
    evaluates it (`decide +kernel`), also for `A = floatArith …`; the driver
    evaluates it on every request.

    For `A = floatArith …`, `B = ratArith …` clause (a) holds for EVERY document
    (both read the fields with `parseNat`:
    `PyndlProofs.Corpus.parseTime_float_rat_toBool`), so there `CompareAgrees`
    is exactly clause (b): "the doubles and the rationals order every pair of
    times the reader can compare the same way"
    (`PyndlProofs.Corpus.codeCompareAgrees_iff`).  It is what is NEEDED for the
    two runs to coincide, stated on the comparison itself — not a consequence of
    something simpler that is proved here. -/
def CompareAgrees (A : Arith τ) (B : Arith σ) (d : Document) : Prop :=
  (∀ t ∈ allTags d, (parseTime A t.value).toBool = (parseTime B t.value).toBool) ∧
  ∀ a ∈ pairedTimes A B (fun t => !isE t) d,
    ∀ e ∈ (A.zero, B.zero) :: pairedTimes A B isE d,
      A.exceeds a.1 e.1 = B.exceeds a.2 e.2

instance (A : Arith τ) (B : Arith σ) (d : Document) : Decidable (CompareAgrees A B d) := by
  unfold CompareAgrees; infer_instance

end Agree

/-- `margin_ok(a, e, brk)` of the harness: the pause `a - e` is at least one
    frame away from the break duration, or both times are whole seconds -/
def marginOk (fps : Nat) (brk a e : Rat) : Bool :=
  decide (1 / (fps : Rat) ≤ a - e - brk) || decide (a - e - brk ≤ -(1 / (fps : Rat))) ||
    (a.den = 1 && e.den = 1)

/-- the exact times of the tags selected by `sel` whose value parses -/
def ratTimes (fps : Nat) (sel : TimeTag → Bool) (d : Document) : List Rat :=
  (allTags d).filterMap (fun t =>
    if sel t then
      match parseTime (ratArith fps 0) t.value with
      | .ok x => some x
      | .error _ => none
    else none)

/-- the parameters are in the range for which the rounding argument of
    `TimesExactSuffices` is made: `1 ≤ fps ≤ 1024`, `0 ≤ brk < 2^24` with a
    denominator below 2^24 (so `floatOfRat brk` is one correctly rounded
    division and `brk`, unless an integer, is at least 2^-24 away from every
    integer).  The code has `fps = 30`, `brk = 5`; the harness also uses the
    break durations 2, 0 and 7/2. -/
def paramsOk (fps : Nat) (brk : Rat) : Bool :=
  decide (1 ≤ fps) && decide (fps ≤ 1024) && decide (0 ≤ brk) && decide (brk < (fieldBound : Rat)) &&
    decide (brk.den < fieldBound)

/-- **TimesExact** (`times_ok` of `harness/run_C19.py`, plus the literal domain
    and a parameter range): the parameters satisfy `paramsOk`, every time value
    is in `LitDomain`, and every non-`E` time `a` and every `E` time or `0` `e`
    of the document satisfy `marginOk`.  Decidable.  NOT every generated document
    satisfies it (the generator does not filter); the driver reports it per
    document as `times_exact`.  No theorem has it as its only link between the
    doubles and the rationals: see `TimesExactSuffices`. -/
def TimesExact (fps : Nat) (brk : Rat) (d : Document) : Prop :=
  paramsOk fps brk = true ∧
  (∀ t ∈ allTags d, LitDomain t.value = true) ∧
  ∀ a ∈ ratTimes fps (fun t => !isE t) d, ∀ e ∈ 0 :: ratTimes fps isE d, marginOk fps brk a e = true

instance (fps : Nat) (brk : Rat) (d : Document) : Decidable (TimesExact fps brk d) := by
  unfold TimesExact; infer_instance

/-- **CodeCompareAgrees**: `CompareAgrees` for the arithmetic of the code (IEEE
    doubles, break duration `floatOfRat brk`) against the arithmetic of the
    specification (exact rationals).  THE hypothesis of the exact-time theorems
    of C19 (`corpus_eq`, `not_found_listed`, `corpus_error_prefix`,
    `clean_document_code`): a decidable property of the document, evaluated by
    the kernel in the examples and by the driver on every generated document
    (`compare_agrees`). -/
abbrev CodeCompareAgrees (fps : Nat) (brk : Rat) (d : Document) : Prop :=
  CompareAgrees (floatArith fps (floatOfRat brk)) (ratArith fps brk) d

/-- **TimesExactSuffices — OPEN STATEMENT about IEEE-754 arithmetic (NOT proved;
    a hypothesis of the corollaries `*_of_times_exact` in `PyndlProps/C19.lean`
    only).**  Every document satisfying `TimesExact` satisfies
    `CodeCompareAgrees`.

    (Before the second review this implication was folded into a per-document
    "named assumption" `FloatCompareAgrees d := TimesExact d → CompareAgrees d`
    that was a hypothesis of the main theorems next to `TimesExact d`; the two
    together are just `CompareAgrees d`, so `TimesExact` did no formal work
    there.  The main theorems now take `CodeCompareAgrees` itself.)

    Status.  Lean 4.33's `Float` is NOT opaque: `Float.add a b =
    ⟨a.toModel + b.toModel⟩` over the bit-level `Float.Model` (pack / unpack of
    `UInt64`, `UnpackedFloat.round`, …, `Init/Data/Float/Model`), which the
    kernel evaluates on closed terms (this is how the instances in
    `PyndlProps/C19.lean` are proved) and about which statements for ALL inputs
    can in principle be proved.  The model ships with three lemmas
    (`unpackMantissa_packComponents`, `unpackExponent_packComponents`,
    `valid_pack`) and the explicit note that there will be no others; a proof of
    this statement — even of its whole-second case — needs a theory of
    `pack`/`unpack` round trips, `Nat.log2`, `shiftToExponent` and `round` on
    exactly representable values, for `+`, `-`, `*`, `/` and `<`, which is not
    developed here (see `PyndlProofs/Corpus.lean`, section "what is proved
    about `CodeCompareAgrees`", for the parts that ARE proved).

    Why it is expected to hold (`brkF = floatOfRat brk` is the double nearest
    to `brk`; by `paramsOk`, `|brkF − brk| ≤ 2^-29`):
    * all four fields are `< 2^24` (`LitDomain`), so `h*60*60`, `m*60` and
      their sum with `s` are integers `< 2^36`, computed exactly; only `f/fps`
      and the last `+` can round, each with relative error `≤ 2^-53`: a
      computed time is within `2^-16` of the exact one, and the computed
      `cur − last` (one more rounding) within `2^-14` of the exact difference;
    * whole-second case (`a.den = 1 ∧ e.den = 1`): then `f/fps` is an integer,
      every intermediate double and `cur − last` are exact integers, and an
      integer `n` satisfies `n > brkF ↔ n > brk` because no integer lies between
      `brk` and `brkF` (`brk` is an integer, then `brkF = brk`, or is `≥ 2^-24`
      away from every integer);
    * margin case: the exact difference is at least `1/fps ≥ 2^-10` away from
      `brk`, the computed one within `2^-14` of it and `brkF` within `2^-29` of
      `brk`: the two comparisons cannot come out differently.
    Evidence only: the driver reports `times_exact` and `compare_agrees` for
    every generated document, so a document with `times_exact ∧ ¬compare_agrees`
    (a counterexample to this statement) would be seen by the harness; the
    second review's sweep of 6000 two-sentence documents inside `TimesExact`
    found none.  The documents of the 152 pairs found by the first review (e.g.
    `E 00:00:03,08`, `S 00:00:08,08`) violate `TimesExact` (pause exactly 5 s,
    fractional times) and `CompareAgrees` (see `C19.boundary_pair`). -/
def TimesExactSuffices (fps : Nat) (brk : Rat) : Prop :=
  ∀ d : Document, TimesExact fps brk d → CodeCompareAgrees fps brk d

/-! ## the per-file job (corpus.py:106-131) -/

/-- what a path of the walked tree is -/
inductive Entry where
  | doc (d : Document)   -- readable gzip XML file (or a link to one)
  | dangling             -- symlink whose target is missing: FileNotFoundError
  | notGzip              -- regular file that is not gzip data: gzip.BadGzipFile (an OSError)
  | dir                  -- directory (listed by os.walk under `dirs`, never under `files`)
deriving Repr, DecidableEq

inductive JobResult where
  | lines (ls : List Str)
  | notFound (line : Str)
deriving Repr, DecidableEq

/-- `JobParseGz.run(filename)` -/
def runJob {τ : Type} (cfg : Cfg τ) (path : Str) : Entry → Except Err JobResult
  | .doc d =>
    match readClean cfg d with
    | .error e => .error e
    | .ok ls => .ok (.lines (ls ++ [cfg.marker]))
  | .dangling => .ok (.notFound (path ++ ['\n']))
  | .notGzip => .error .io
  | .dir => .error .io

/-! ## path order and sorting (corpus.py:157-161) -/

/-- Python's `str` order: lexicographic by code point -/
def lexLt : Str → Str → Bool
  | [], [] => false
  | [], _ :: _ => true
  | _ :: _, [] => false
  | a :: as, b :: bs =>
    if a.toNat < b.toNat then true
    else if b.toNat < a.toNat then false
    else lexLt as bs

def insertBy {α : Type} (key : α → Str) (x : α) : List α → List α
  | [] => [x]
  | y :: ys => if lexLt (key y) (key x) then y :: insertBy key x ys else x :: y :: ys

/-- `list.sort()` on distinct strings (any correct sort gives this list, see
    `C19.sort_total`) -/
def sortBy {α : Type} (key : α → Str) : List α → List α
  | [] => []
  | x :: xs => insertBy key x (sortBy key xs)

def endsWith (suffix s : Str) : Bool := suffix.reverse.isPrefixOf s.reverse

/-- `os.path.join(a, b)` for a relative `b` -/
def pyJoin (a b : Str) : Str :=
  if a = [] then b else if a.getLast? = some '/' then a ++ b else a ++ '/' :: b

def isDir : Entry → Bool
  | .dir => true
  | _ => false

/-- corpus.py:157-161. `tree` lists every path below `directory` (relative,
    '/'-separated, in whatever order `os.walk` produces them; entries reached
    through a symlinked directory are listed under the link's name because of
    `followlinks=True`). `name.endswith('.gz')` on the last component equals
    `endswith` on the whole path since the suffix contains no '/'. -/
def gzFiles (directory : Str) (tree : List (Str × Entry)) : List (Str × Entry) :=
  sortBy (·.1) ((tree.filter (fun e => !isDir e.2 && endsWith ".gz".toList e.1)).map
    (fun e => (pyJoin directory e.1, e.2)))

/-! ## `multiprocessing.Pool(n).imap` (corpus.py:166-171) -/

/-- the result iterator: hand out results by job index, whatever order they
    arrived in -/
def collect {β : Type} (n : Nat) (arrivals : List (Nat × β)) : List β :=
  (List.range n).filterMap (fun i => arrivals.lookup i)

/-- one concrete arrival order for `n` workers: worker `w` handles the jobs
    with index ≡ w (mod n) and all of worker 0's results arrive first, …
    (`C19.threads_independent` shows every arrival order gives the same list) -/
def arrivals {α β : Type} (n : Nat) (f : α → β) (xs : List α) : List (Nat × β) :=
  (List.range n).flatMap (fun w =>
    (xs.zipIdx.filter (fun p => p.2 % n = w)).map (fun p => (p.2, f p.1)))

def imap {α β : Type} (n : Nat) (f : α → β) (xs : List α) : List β :=
  collect xs.length (arrivals n f xs)

/-! ## the consumer loop (corpus.py:171-182) -/

/-- (pieces written to the corpus, not-found lines, exception that ended the loop) -/
def consume : List (Except Err JobResult) → List Str × List Str × Option Err
  | [] => ([], [], none)
  | .error e :: _ => ([], [], some e)
  | .ok (.lines ls) :: rest =>
    let (w, nf, err) := consume rest
    (ls ++ w, nf, err)
  | .ok (.notFound l) :: rest =>
    let (w, nf, err) := consume rest
    (w, l :: nf, err)

/-! ## `io.safe_write_path(path, template='{path}-{counter}')` (io.py:180-213) -/

def natStr (n : Nat) : Str := (toString n).toList

def candidate (path : Str) (counter : Nat) : Str :=
  if counter = 0 then path else path ++ '-' :: natStr counter

/-- first of `path, path-1, path-2, …` that does not exist. `existing` is the
    finite set of existing paths, so one of the first `existing.length + 1`
    candidates is free (`PyndlProofs.Corpus.safeWritePath_fresh`); the
    fall-back value is never returned. -/
def safeWritePath (existing : List Str) (path : Str) : Str :=
  match (List.range (existing.length + 1)).find? (fun k => !existing.contains (candidate path k)) with
  | some k => candidate path k
  | none => candidate path (existing.length + 1)

/-! ## `create_corpus_from_gz` (corpus.py:134-194) -/

/-- corpus.py:191 `outfile + ".not_found"` -/
def notFoundSuffix : Str := ".not_found".toList

/-- the part of the file system the function looks at before writing -/
structure World where
  dirExists : Bool        -- os.path.isdir(directory)
  files : List Str        -- existing paths (outfile / .not_found candidates are looked up here)

/-- everything observable afterwards -/
structure Outcome where
  raised : Option Err
  /-- pieces written to `outfile` in order (`none`: the file was not opened) -/
  corpus : Option (List Str)
  /-- name and lines of the `.not_found` file (`none`: not created) -/
  notFound : Option (Str × List Str)
deriving Repr, DecidableEq

def createCorpus {τ : Type} (cfg : Cfg τ) (nThreads : Nat) (directory outfile : Str) (w : World)
    (tree : List (Str × Entry)) : Outcome :=
  if !w.dirExists then ⟨some .io, none, none⟩                   -- corpus.py:149-150
  else if w.files.contains outfile then ⟨some .io, none, none⟩   -- corpus.py:151-153
  else if nThreads = 0 then ⟨some .value, none, none⟩            -- Pool(0), before open(outfile)
  else
    let results := imap nThreads (fun p => runJob cfg p.1 p.2) (gzFiles directory tree)
    match consume results with
    | (written, _, some e) => ⟨some e, some written, none⟩
    | (written, nf, none) =>
      ⟨none, some written,
        if nf = [] then none
        else some (safeWritePath w.files (outfile ++ notFoundSuffix), nf)⟩

end Corpus
end Pyndl
