/-
  PyndlModel.Text — the text event-file format (pyndl/io.py) and the strided
  counters (pyndl/count.py), over `List Char`.

  Mathlib-free, total, structurally recursive.  `none` of an `Option` result
  always stands for "the real code raises `ValueError`".

  Python's `int(frequency)` (io.py:61) is a PARAMETER `intOf : Str → Option Int`
  of the reader and the counters (`parseLineWith`, `parseFileWith`,
  `cuesOutcomesWith`); the functions without `With` are the instance `pyInt`
  (signs, surrounding white space, single underscores between digits, ASCII
  digits, the 4300-digit limit of CPython ≥ 3.11) which the driver runs.
  `step = 0` (`itertools.islice`) and `n_jobs = 0` (`multiprocessing.Pool`)
  raise `ValueError`: explicit `none`.

  What is *not* modelled (trusted base): gzip and the UTF-8 codec (identity),
  `str.split()` without argument, `str.strip()` without argument and
  `str.lower()` (handed to the model as explicit per-input tables).
  What *is* modelled of Python's text layer: universal-newline translation on
  reading (`\r\n` and a lone `\r` become `\n`) and file iteration (a line ends
  after every `\n`; no other character — U+2028, U+0085, VT, FF, … — ends one).
-/
import PyndlModel.RW

namespace Pyndl.Text

abbrev Str := List Char

def LF : Char := '\n'
def CR : Char := '\r'
def TAB : Char := '\t'
def US : Char := '_'

/-! ## `str.split(sep)` / `sep.join(xs)` for a one-character separator -/

/-- `s.split(sep)` for a single character `sep`: never returns `[]`;
    `"".split(sep) == [""]`. -/
def splitOn (sep : Char) : Str → List Str
  | [] => [[]]
  | c :: cs =>
    if c = sep then [] :: splitOn sep cs
    else
      match splitOn sep cs with
      | [] => [[c]]
      | h :: t => (c :: h) :: t

/-- `sep.join(xs)`. -/
def joinWith (sep : Char) : List Str → Str
  | [] => []
  | [x] => x
  | x :: y :: r => x ++ sep :: joinWith sep (y :: r)

/-! ## `str.strip(chars)` -/

/-- `s.lstrip(chars)` with `chars` given as a predicate. -/
def lstrip (p : Char → Bool) (s : Str) : Str := s.dropWhile p

/-- `s.rstrip(chars)`. -/
def rstrip (p : Char → Bool) (s : Str) : Str := (s.reverse.dropWhile p).reverse

/-- `s.strip(chars)`: both ends. -/
def strip (p : Char → Bool) (s : Str) : Str := rstrip p (lstrip p s)

/-- `line.strip('\n')` (io.py:53). -/
def stripLF (s : Str) : Str := strip (fun c => c == LF) s

/-! ## Python's text layer on reading -/

/-- universal-newline translation of `open(path, 'rt')` / `gzip.open(path, 'rt')`
    (`newline=None`): `\r\n` → `\n`, lone `\r` → `\n`. -/
def universalNewlines : Str → Str
  | [] => []
  | [c] => if c = CR then [LF] else [c]
  | c :: d :: r =>
    if c = CR then
      if d = LF then LF :: universalNewlines r else LF :: universalNewlines (d :: r)
    else c :: universalNewlines (d :: r)

/-- iteration over a text file: every line keeps its terminating `\n`; a last
    line without `\n` is yielded as it is; an empty rest yields nothing. -/
def linesKeepEnds : Str → List Str
  | [] => []
  | c :: cs =>
    if c = LF then [LF] :: linesKeepEnds cs
    else
      match linesKeepEnds cs with
      | [] => [[c]]
      | h :: t => (c :: h) :: t

/-- the lines a reader sees. -/
def fileLines (content : Str) : List Str := linesKeepEnds (universalNewlines content)

/-! ## `itertools.islice(xs, start, None, step)` -/

/-- `everyNth step k xs`: skip `k` elements, take one, then skip `step - 1`, … -/
def everyNth {α : Type} (step : Nat) : Nat → List α → List α
  | _, [] => []
  | 0, x :: xs => x :: everyNth step (step - 1) xs
  | k + 1, _ :: xs => everyNth step k xs

/-- `itertools.islice(xs, start, None, step)` for `step ≥ 1`.  For `step = 0`
    Python raises `ValueError` ("Step for islice() must be a positive integer or
    None"): that error is in the readers (`parseFileWith` tests `step = 0`
    first); `stride _ 0` itself is a junk value that no theorem relies on
    (every theorem about `stride` carries `1 ≤ step`; the word counter
    `wordsSymbolsE` tests `n = 0` first). -/
def stride {α : Type} (start step : Nat) (xs : List α) : List α := everyNth step start xs

/-! ## Writer: `events_to_file` (io.py:67-127) -/

abbrev TEvent := Event Str Str

/-- one line of the body (io.py:113-124) without its `\n`:
    `"_".join(cues) \t "_".join(outcomes)` and, with `compatible`, `\t1`. -/
def renderEvent (compatible : Bool) (e : TEvent) : Str :=
  joinWith US e.cues ++ TAB :: joinWith US e.outcomes ++ (if compatible then [TAB, '1'] else [])

/-- the header line (io.py:105-110): `columns` joined by the delimiter; with
    `compatible` the legacy names `Cues Outcomes Frequency`. -/
def renderHeader (compatible : Bool) : Str :=
  if compatible then "Cues\tOutcomes\tFrequency".toList else "cues\toutcomes".toList

/-- the lines of the file, each written with a trailing `\n`. -/
def renderLines (compatible : Bool) (es : List TEvent) : List Str :=
  renderHeader compatible :: es.map (renderEvent compatible)

def unlines : List Str → Str
  | [] => []
  | l :: ls => l ++ LF :: unlines ls

/-- the character content of the written file (gzip / UTF-8: identity). -/
def renderFile (compatible : Bool) (es : List TEvent) : Str := unlines (renderLines compatible es)

/-! ### The writer with `delimiter=` and `columns=` given (io.py:67-127)

`renderFile` above is the writer at its default `delimiter="\t"`,
`columns=("cues", "outcomes")`; the definitions below take both parameters.
`renderFileWith_default` / `renderFileWith_legacy_explicit` (PyndlProps/C07)
state that they agree with `renderFile` at the defaults and for the legacy
triple given explicitly together with `compatible=True` (the branch of
io.py:106 that does not warn). -/

/-- `delimiter.join(xs)` for a delimiter *string*. -/
def joinStr (sep : Str) : List Str → Str
  | [] => []
  | [x] => x
  | x :: y :: r => x ++ sep ++ joinStr sep (y :: r)

/-- `columns=("cues", "outcomes")`, the default of `events_to_file`. -/
def defaultColumns : List Str := ["cues".toList, "outcomes".toList]

/-- `legacy_columns = ('Cues', 'Outcomes', 'Frequency')` (io.py:105). -/
def legacyColumns : List Str := ["Cues".toList, "Outcomes".toList, "Frequency".toList]

/-- the header line (io.py:105-110): with `compatible` and `columns` different
    from the legacy triple the columns are replaced by the legacy triple (and a
    warning is issued, not modelled); then `delimiter.join(columns)`. -/
def renderHeaderWith (delim : Str) (columns : List Str) (compatible : Bool) : Str :=
  joinStr delim (if compatible && columns != legacyColumns then legacyColumns else columns)

/-- one body line (io.py:113-124) without its `\n` for a given delimiter. -/
def renderEventWith (delim : Str) (compatible : Bool) (e : TEvent) : Str :=
  joinWith US e.cues ++ delim ++ joinWith US e.outcomes ++ (if compatible then delim ++ ['1'] else [])

/-- the character content of the file written by
    `events_to_file(events, path, delimiter=delim, columns=columns, compatible=compatible)`. -/
def renderFileWith (delim : Str) (columns : List Str) (compatible : Bool) (es : List TEvent) : Str :=
  unlines (renderHeaderWith delim columns compatible :: es.map (renderEventWith delim compatible))

/-- `events_from_list` (io.py:156-178) followed by the join of
    `events_to_file`: an event given as two joined strings is split on `_`. -/
def eventOfStrings (cues outcomes : Str) : TEvent := ⟨splitOn US cues, splitOn US outcomes⟩

/-! ## Reader: `events_from_file` (io.py:20-64) -/

def digitVal (c : Char) : Option Nat :=
  if '0' ≤ c ∧ c ≤ '9' then some (c.toNat - '0'.toNat) else none

/-- the canonical non-negative decimal literals: ASCII digits only, non-empty
    (`none` otherwise).  A building block of `pyInt`; on its own it is `int()`
    only on `[0-9]+` of at most 4300 digits. -/
def parseNat? (s : Str) : Option Nat :=
  match s with
  | [] => none
  | _ => s.foldl (fun acc c => match acc, digitVal c with
                    | some a, some d => some (a * 10 + d)
                    | _, _ => none) (some 0)

/-- what `int()` strips at both ends: the characters with `c.isspace()` except
    U+001C..U+001F (enumerated over all code points of CPython 3.12: exactly the
    `c` with `int(c + '5') == 5` that are neither digits nor signs) -/
def pyIsSpace (c : Char) : Bool :=
  let n := c.toNat
  (9 ≤ n && n ≤ 13) || n == 32 || n == 0x85 || n == 0xA0 || n == 0x1680 ||
  (0x2000 ≤ n && n ≤ 0x200A) || n == 0x2028 || n == 0x2029 || n == 0x202F || n == 0x205F || n == 0x3000

/-- remove the underscores of `1_000`; `none` when one is at the end or
    follows another (`int('1_')`, `int('1__0')`: `ValueError`) -/
def dropUS : Str → Option Str
  | [] => some []
  | c :: r =>
    if c = '_' then
      match r with
      | [] => none
      | d :: _ => if d = '_' then none else dropUS r
    else (dropUS r).map (c :: ·)

/-- CPython's default `sys.get_int_max_str_digits()` (3.11+): `int()` of more
    digit characters raises `ValueError` -/
def intMaxStrDigits : Nat := 4300

/-- an optional sign: `(negative?, rest)` -/
def splitSign : Str → Bool × Str
  | '-' :: r => (true, r)
  | '+' :: r => (false, r)
  | s => (false, s)

/-- the digits part: no leading underscore, single underscores between digits,
    at most 4300 digits, ASCII digits only -/
def natOfBody (body : Str) : Option Nat :=
  match body with
  | '_' :: _ => none
  | _ =>
    match dropUS body with
    | none => none
    | some ds => if intMaxStrDigits < ds.length then none else parseNat? ds

/-- **the instance of `int(s)` the driver runs**: optional white space at both
    ends, an optional sign, ASCII digits with single underscores between them,
    at most 4300 digits; `none` = `ValueError`.  It is Python's `int` on every
    string without non-ASCII decimal digits (Python also accepts every Unicode
    `Nd` digit, e.g. full-width `２`; for those the driver takes a
    Python-supplied table, `intOfTable`).  All theorems are stated for an
    arbitrary `intOf`. -/
def pyInt (s : Str) : Option Int :=
  let p := splitSign (strip pyIsSpace s)
  (natOfBody p.2).map fun n => if p.1 then -(n : Int) else (n : Int)

/-- `int` given by a Python-supplied table first (`[(s, int(s) or ValueError)]`),
    `pyInt` for strings the table lacks. -/
def intOfTable (tbl : List (Str × Option Int)) (s : Str) : Option Int :=
  match tbl.find? (fun p => p.1 == s) with
  | some p => p.2
  | none => pyInt s

/-- one line (io.py:53-62): 2 or 3 tab-separated entries, the third is the
    repetition count `int(frequency)`; `for i in range(int(frequency))` yields
    the event `max(int(frequency), 0)` times — a NEGATIVE frequency gives no
    event and no error.  `none` = `ValueError` (unpacking or `int`). -/
def parseLineWith (intOf : Str → Option Int) (line : Str) : Option (List TEvent) :=
  match splitOn TAB (stripLF line) with
  | [c, o] => some [⟨splitOn US c, splitOn US o⟩]
  | [c, o, f] =>
    match intOf f with
    | some v => some (List.replicate v.toNat ⟨splitOn US c, splitOn US o⟩)
    | none => none
  | _ => none

def parseLine (line : Str) : Option (List TEvent) := parseLineWith pyInt line

/-- run `f` on every element, concatenate the results; the first failure makes
    the whole thing fail (a generator consumed completely by `list(...)` or by
    a counting job). -/
def collectAll {α β : Type} (f : α → Option (List β)) : List α → Option (List β)
  | [] => some []
  | x :: xs =>
    match f x, collectAll f xs with
    | some a, some b => some (a ++ b)
    | _, _ => none

/-- all lines or `ValueError`. -/
def parseLinesWith (intOf : Str → Option Int) (ls : List Str) : Option (List TEvent) :=
  collectAll (parseLineWith intOf) ls

def parseLines (ls : List Str) : Option (List TEvent) := parseLinesWith pyInt ls

/-- body lines: `event_file.readline()` skips the header (io.py:51). -/
def bodyLines (content : Str) : List Str := (fileLines content).drop 1

/-- `list(events_from_file(path, start=start, step=step))`.  `step = 0`:
    `islice` raises `ValueError` (at the first `next`, whatever the file is).
    Lines outside the slice are never looked at (they cannot raise). -/
def parseFileWith (intOf : Str → Option Int) (start step : Nat) (content : Str) : Option (List TEvent) :=
  if step = 0 then none
  else parseLinesWith intOf (stride start step (bodyLines content))

def parseFile (start step : Nat) (content : Str) : Option (List TEvent) :=
  parseFileWith pyInt start step content

/-- what the file format does to a token list: an empty list is written as an
    empty field, which is read back as the one token `""`. -/
def normList (xs : List Str) : List Str := if xs = [] then [[]] else xs

/-- what the file format does to an event with at least one cue: an empty
    outcome list is read back as the outcome named `""`. -/
def normalise (e : TEvent) : TEvent := ⟨e.cues, normList e.outcomes⟩

/-- the same without the assumption on the cues. -/
def normaliseAll (e : TEvent) : TEvent := ⟨normList e.cues, normList e.outcomes⟩

/-! ## Counters (collections.Counter with positive counts) -/

abbrev Counter := List (Str × Nat)

/-- `c[a]` (0 when absent); summed over all entries with key `a` — the
    counters built here have unique keys (`cAdd_keys_nodup`). -/
def cGet : Counter → Str → Nat
  | [], _ => 0
  | (k, n) :: c, a => (if k = a then n else 0) + cGet c a

/-- `c[a] += n` -/
def cAdd : Counter → Str → Nat → Counter
  | [], a, n => [(a, n)]
  | (k, m) :: c, a, n => if k = a then (k, m + n) :: c else (k, m) :: cAdd c a n

/-- `for x in xs: c[x] += 1` -/
def cCountList (c : Counter) (xs : List Str) : Counter := xs.foldl (fun c x => cAdd c x 1) c

/-- `a += b` (`Counter.__iadd__`; all counts are positive, so nothing is dropped). -/
def cMerge (a b : Counter) : Counter := b.foldl (fun acc kn => cAdd acc kn.1 kn.2) a

/-! ## `count.cues_outcomes` (count.py:27-87) -/

/-- the last value of `nn` in `for nn, _ in enumerate(events)` with the initial
    `nn = -1` (count.py:38-40). -/
def lastIndex {α : Type} (xs : List α) : Int :=
  (xs.foldl (fun (st : Int × Nat) _ => ((st.2 : Int), st.2 + 1)) (-1, 0)).1

structure CO where
  n : Int
  cues : Counter
  outcomes : Counter

/-- `_job_cues_outcomes` on the events of its slice: `(nn + 1, cues, outcomes)`. -/
def jobCuesOutcomes (es : List TEvent) : CO :=
  let st := es.foldl (fun (st : Counter × Counter) e =>
    (cCountList st.1 e.cues, cCountList st.2 e.outcomes)) ([], [])
  ⟨lastIndex es + 1, st.1, st.2⟩

/-- the merge loop of `cues_outcomes` (count.py:74-81). -/
def mergeCO (acc r : CO) : CO := ⟨acc.n + r.n, cMerge acc.cues r.cues, cMerge acc.outcomes r.outcomes⟩

/-- one round of the merge loop: the result of job `k`, or the error. -/
def coStepWith (intOf : Str → Option Int) (n : Nat) (content : Str) (acc : Option CO) (k : Nat) : Option CO :=
  match acc, parseFileWith intOf k n content with
  | some a, some es => some (mergeCO a (jobCuesOutcomes es))
  | _, _ => none

/-- `cues_outcomes(path, n_jobs=n)`: job `k` reads
    `events_from_file(path, start=k, step=n)`; any job raising makes
    `starmap` raise.  `n_jobs = 0`: `multiprocessing.Pool(0)` raises
    `ValueError` ("Number of processes must be at least 1"). -/
def cuesOutcomesWith (intOf : Str → Option Int) (n : Nat) (content : Str) : Option CO :=
  if n = 0 then none
  else (List.range n).foldl (coStepWith intOf n content) (some ⟨0, [], []⟩)

def cuesOutcomes (n : Nat) (content : Str) : Option CO := cuesOutcomesWith pyInt n content

/-- the direct count of a file: one pass over all events. -/
def directCuesOutcomesWith (intOf : Str → Option Int) (content : Str) : Option CO :=
  match parseFileWith intOf 0 1 content with
  | some es => some (jobCuesOutcomes es)
  | none => none

def directCuesOutcomes (content : Str) : Option CO := directCuesOutcomesWith pyInt content

/-! ## `count.words_symbols` (count.py:90-162) -/

/-- the characters of `word.strip('!?,.:;/"\'()^@*~')` (count.py:115). -/
def punct : Str := "!?,.:;/\"'()^@*~".toList

/-- lookup in the Python-supplied `str.lower` table; `none` = the table lacks
    the word (reported, never guessed). -/
def lookup : List (Str × Str) → Str → Option Str
  | [], _ => none
  | (k, v) :: t, a => if k = a then some v else lookup t a

/-- the per-word pipeline of count.py:113-119 after `word.strip()` (supplied):
    strip punctuation, optional lower, drop empty words. `none` = table miss. -/
def cleanWord (lower : Option (List (Str × Str))) (w : Str) : Option (Option Str) :=
  let w1 := strip (fun c => punct.contains c) w
  match lower with
  | none => some (if w1 = [] then none else some w1)
  | some tbl =>
    match lookup tbl w1 with
    | none => none
    | some w2 => some (if w2 = [] then none else some w2)

structure WS where
  words : Counter
  symbols : Counter

/-- the words that are counted in one line (given `line.split()` and per word
    `word.strip()`). -/
def lineWords (lower : Option (List (Str × Str))) : List Str → Option (List Str)
  | [] => some []
  | w :: ws =>
    match cleanWord lower w, lineWords lower ws with
    | some none, some r => some r
    | some (some x), some r => some (x :: r)
    | _, _ => none

/-- `words[word] += 1; symbols += Counter(word)` for the words of a slice. -/
def countWords (ws : List Str) : WS :=
  ws.foldl (fun (st : WS) w =>
    ⟨cAdd st.words w 1, cMerge st.symbols (cCountList [] (w.map (fun c => [c])))⟩) ⟨[], []⟩

/-- the counted words of a slice of lines, in order. -/
def linesWords (lower : Option (List (Str × Str))) (ls : List (List Str)) : Option (List Str) :=
  collectAll (lineWords lower) ls

/-- `_job_words_symbols` on its slice of lines (each line given as the table
    `[word.strip() for word in line.split()]`). -/
def jobWordsSymbols (lower : Option (List (Str × Str))) (lines : List (List Str)) : Option WS :=
  match linesWords lower lines with
  | some ws => some (countWords ws)
  | none => none

def mergeWS (a b : WS) : WS := ⟨cMerge a.words b.words, cMerge a.symbols b.symbols⟩

def wsStep (lower : Option (List (Str × Str))) (n : Nat) (lines : List (List Str))
    (acc : Option WS) (k : Nat) : Option WS :=
  match acc, jobWordsSymbols lower (stride k n lines) with
  | some a, some r => some (mergeWS a r)
  | _, _ => none

/-- `words_symbols(path, n_jobs=n, lower_case=…)`: job `k` reads
    `islice(file, k, None, n)`. -/
def wordsSymbols (lower : Option (List (Str × Str))) (n : Nat) (lines : List (List Str)) : Option WS :=
  (List.range n).foldl (wsStep lower n lines) (some ⟨[], []⟩)

def directWordsSymbols (lower : Option (List (Str × Str))) (lines : List (List Str)) : Option WS :=
  jobWordsSymbols lower lines

/-- the two ways `words_symbols` fails in the model: `ValueError` of
    `multiprocessing.Pool(0)`, and a word the Python-supplied `lower` table
    lacks (a harness matter, not a behaviour of pyndl) -/
inductive WSErr where
  | value
  | missingLower
deriving Repr, BEq, DecidableEq

/-- `words_symbols` with its error at `n_jobs = 0` (where `wordsSymbols`, a fold
    over the empty range, would return two empty counters) -/
def wordsSymbolsE (lower : Option (List (Str × Str))) (n : Nat) (lines : List (List Str)) :
    Except WSErr WS :=
  if n = 0 then .error .value
  else match wordsSymbols lower n lines with
    | some r => .ok r
    | none => .error .missingLower

end Pyndl.Text
