/-
  PyndlModel.Create — model of `pyndl.preprocess.create_event_file`
  (pyndl/preprocess.py:145-415) with `ngrams_to_word` (79-108) and
  `process_occurrences` (111-142).

  Two levels.

  * TOKEN level (generic in the word type `ω`): `genOccurrences`
    (preprocess.py:292-336), `processOccurrences` (111-142, 79-108) and the
    streaming state machine of the main loop (367-415).  Python represents a
    list of words by the string `"_".join(words)` and recovers it with
    `.split("_")`; words are non-empty and contain no `_` (theorem
    `tokens_clean`), so the string is modelled by the list itself
    (`""` ↔ `[]`, which is also how the harness reads the produced file).
  * CHARACTER level over `List Char`: `strip`, special characters, symbol
    filter, `split(" ")`, the document-marker matcher with `re.split`'s
    capturing-group output, lower-casing.  `str.lower` and `str.isspace` are
    PARAMETERS: in general a `TextOps` (an arbitrary string→string lowering
    function, an arbitrary whitespace predicate — the functions with suffix
    `G`), for the driver the per-character `Tables` supplied per input by
    Python (`Tables.ops`; the functions without suffix).
  * EFFECT level: `createEventFileX` on an abstract file system — the order
    of the checks, and what a failing call leaves behind (the event file is
    opened, and the header written, before the first corpus line is read).

  Where the code raises, the model returns an explicit error:
  `CreateErr.badPattern` (`re.error` for a set expression that does not
  compile), `.eventFileExists`, `.corpusMissing`, `.corpusNotText`
  (`UnicodeDecodeError`), `.callableRaised`.

  Mathlib-free; everything is total and structurally recursive.
-/
namespace Pyndl.Create

/-! ## Token level -/

section Token
variable {ω : Type}

/-- Python slice `l[s:e]` for `0 ≤ s`, `0 ≤ e` (an empty list when `e ≤ s`). -/
def pySlice (l : List ω) (s e : Int) : List ω :=
  (l.drop s.toNat).take (e.toNat - s.toNat)

/-- `range(a, b)` over the integers. -/
def intRange (a b : Int) : List Int :=
  (List.range (b - a).toNat).map (fun (k : Nat) => a + (k : Int))

/-- `event_structure` with its `event_options` (preprocess.py:287-290).
    `number_of_words` is an arbitrary Python int. -/
inductive EventStructure where
  | consecutiveWords (numberOfWords : Int)
  | wordToWord (before after : Nat)
  | line
deriving Repr

/-- `cue_structure`: `bigrams_to_word` = `ngrams 2`, `trigrams_to_word` =
    `ngrams 3`, `word_to_word`. -/
inductive CueStructure where
  | ngrams (n : Nat)
  | wordToWord
deriving Repr

/-- an occurrence `(cues, outcomes)`: both are `_`-joined word strings in the
    code, word lists here. -/
abbrev Occurrence (ω : Type) := List ω × List ω

/-- preprocess.py:303-315, `event_structure == 'consecutive_words'`:
    ```
    length = min(number_of_words, len(words))
    for ii in range(1 - length, len(words)):
        start = max(ii, 0)
        end = min(ii + length, len(words))
        occurrences.append(("_".join(words[start:end]), ""))
    ``` -/
def genConsecutive (numberOfWords : Int) (words : List ω) : List (Occurrence ω) :=
  let length : Int := min numberOfWords (words.length : Int)
  (intRange (1 - length) (words.length : Int)).map fun ii =>
    let start := max ii 0
    let stop := min (ii + length) (words.length : Int)
    (pySlice words start stop, [])

/-- one iteration of preprocess.py:320-326 (`word_to_word`):
    ```
    cues = words[max(0, ii - before):ii]
    cues.extend(words[(ii + 1):min(len(words), ii + 1 + after)])
    occurrences.append(("_".join(cues), word))
    ``` -/
def w2wAt (before after : Nat) (words : List ω) (ii : Nat) (word : ω) : Occurrence ω :=
  (pySlice words (max 0 ((ii : Int) - (before : Int))) (ii : Int)
     ++ pySlice words ((ii : Int) + 1) (min (words.length : Int) ((ii : Int) + 1 + (after : Int))),
   [word])

/-- `enumerate(words)` -/
def enumFrom (k : Nat) : List ω → List (Nat × ω)
  | [] => []
  | w :: ws => (k, w) :: enumFrom (k + 1) ws

/-- preprocess.py:318-327 -/
def genWordToWord (before after : Nat) (words : List ω) : List (Occurrence ω) :=
  (enumFrom 0 words).map fun p => w2wAt before after words p.1 p.2

/-- preprocess.py:292-336 `gen_occurrences`.  The `'line'` branch (328-334)
    looks at the cue structure: n-gram cues get empty outcomes, word cues get
    the words on both sides. -/
def genOccurrences (es : EventStructure) (cs : CueStructure) (words : List ω) :
    List (Occurrence ω) :=
  match es with
  | .consecutiveWords n => genConsecutive n words
  | .wordToWord b a => genWordToWord b a words
  | .line =>
    match cs with
    | .ngrams _ => [(words, [])]
    | .wordToWord => [(words, words)]

/-- `set(...)` of a list: first occurrences, in order (the harness sorts both
    sides; the order of a Python set is not observable). -/
def dedup [BEq ω] (l : List ω) : List ω := l.eraseDups

/-- an event as written to the file: `"_".join(cues) + "\t" + "_".join(outcomes)` -/
structure Ev (ω : Type) where
  cues : List ω
  outcomes : List ω
deriving Repr, BEq, DecidableEq

end Token

/-! ### n-grams (words are character lists from here on) -/

abbrev Word := List Char

/-- `"#" + re.sub("_", "#", occurrence) + "#"` (preprocess.py:100) for the
    occurrence string `"_".join(tokens)`. -/
def joinHash : List Word → List Char
  | [] => []
  | [w] => w
  | w :: ws => w ++ '#' :: joinHash ws

def phraseString (tokens : List Word) : List Char :=
  '#' :: (joinHash tokens ++ ['#'])

/-- preprocess.py:101-102
    `(phrase_string[i:(i + n_chars)] for i in range(len(phrase_string) - n_chars + 1))`
    (`range` of a non-positive number is empty: integer arithmetic). -/
def ngrams (n : Nat) (phrase : List Char) : List (List Char) :=
  (intRange 0 ((phrase.length : Int) - (n : Int) + 1)).map fun i =>
    (phrase.drop i.toNat).take n

/-- preprocess.py:95-108 `ngrams_to_word`, one occurrence.
    `occurrence = cues + '_' + outcomes` if both are non-empty, else
    `cues + outcomes`: the token list `cues ++ outcomes`.  `not ngrams` is
    never true (a generator object is truthy); `not occurrence` ⇔ no token. -/
def ngramsToWord1 (n : Nat) (removeDuplicates : Bool) (o : Occurrence Word) : Option (Ev Word) :=
  let occurrence := o.1 ++ o.2
  let grams := ngrams n (phraseString occurrence)
  if occurrence.isEmpty then none
  else if removeDuplicates then some ⟨dedup grams, dedup occurrence⟩
  else some ⟨grams, occurrence⟩

/-- preprocess.py:134-140, `cue_structure == "word_to_word"`, one occurrence:
    `if not cues: continue`. -/
def wordCues1 {ω : Type} [BEq ω] (removeDuplicates : Bool) (o : Occurrence ω) : Option (Ev ω) :=
  if o.1.isEmpty then none
  else if removeDuplicates then some ⟨dedup o.1, dedup o.2⟩
  else some ⟨o.1, o.2⟩

/-- preprocess.py:111-142 `process_occurrences` (what is written to `outfile`). -/
def processOccurrences (cs : CueStructure) (removeDuplicates : Bool)
    (occs : List (Occurrence Word)) : List (Ev Word) :=
  match cs with
  | .ngrams n => occs.filterMap (ngramsToWord1 n removeDuplicates)
  | .wordToWord => occs.filterMap (wordCues1 removeDuplicates)

/-! ### The streaming state machine (preprocess.py:367-415), token level

A line of the corpus is seen as the list `context1, *contexts` of
`context_pattern.split(line)`, each element already reduced to
`none` (its `.strip()` is empty — in particular every marker element, which
`process_context` turns into `""`) or `some words`
(`gen_words(process_line(context1.strip()))`). -/

section Stream
variable {ω : Type}

/-- the `while len(contexts) > 1:` loop (394-401): state = (`words`, emitted) -/
def betweenLoop (pw : List ω → List (Ev ω)) :
    List (Option (List ω)) → List ω → List (Ev ω) → List ω × List (Ev ω) × Option (Option (List ω))
  | [], words, out => (words, out, none)          -- `contexts[0]` would raise; unreachable (|contexts| ≥ 2 initially)
  | [last], words, out => (words, out, some last)
  | c :: c2 :: rest, _, out =>
    -- words = []; context1, *contexts = contexts
    match c with
    | none => betweenLoop pw (c2 :: rest) [] out
    | some ws => betweenLoop pw (c2 :: rest) ([] ++ ws) (out ++ pw ([] ++ ws))

/-- one iteration of `for ii, line in enumerate(corpus)` in the `'document'`
    branch (383-410).  `elems = [e]` ⇔ `context_pattern.search(line) is None`. -/
def docStep (pw : List ω → List (Ev ω)) (st : List ω × List (Ev ω))
    (elems : List (Option (List ω))) : List ω × List (Ev ω) :=
  match elems with
  | [] => st
  | [e] => (st.1 ++ e.getD [], st.2)                      -- 409-410 (gen_words of an empty line is [])
  | e0 :: contexts =>
    let words := st.1 ++ e0.getD []                        -- 389-391
    let out := st.2 ++ pw words                            -- 392 (unconditional)
    match betweenLoop pw contexts words out with
    | (words', out', some last) => (words' ++ last.getD [], out')   -- 403-407
    | (words', out', none) => (words', out')

/-- the whole `'document'` run incl. the final flush (414-415) -/
def runDocument (pw : List ω → List (Ev ω)) (lines : List (List (Option (List ω)))) : List (Ev ω) :=
  let st := lines.foldl (docStep pw) ([], [])
  st.2 ++ pw st.1

/-- the `'line'` branch (379-382): every line is its own context; the final
    flush is skipped (414). -/
def runLine (pw : List ω → List (Ev ω)) (lines : List (List ω)) : List (Ev ω) :=
  lines.foldl (fun out words => out ++ pw words) []

/-! Declarative grouping used by `stream_eq_contexts`. -/

/-- what a line contributes to the document stream -/
inductive Item (ω : Type) where
  | chunk (ws : List ω)
  | boundary

/-- `[e0, e1, …, em]` ↦ `chunk e0, boundary, chunk e1, boundary, …, chunk em` -/
def lineItems : List (Option (List ω)) → List (Item ω)
  | [] => []
  | [e] => [.chunk (e.getD [])]
  | e :: rest => .chunk (e.getD []) :: .boundary :: lineItems rest

/-- contexts = concatenate chunks up to each boundary (the last context is
    closed by the end of the corpus). -/
def groupContexts : List (Item ω) → List ω → List (List ω)
  | [], cur => [cur]
  | .chunk ws :: rest, cur => groupContexts rest (cur ++ ws)
  | .boundary :: rest, cur => cur :: groupContexts rest []

end Stream

/-! ## Character level -/

/-- The two pieces of Python's text layer the model takes as PARAMETERS.

    `lower` is an ARBITRARY function on strings: Python's `str.lower` is not a
    per-character map (a capital sigma is lowered to `ς` at the end of a word
    and to `σ` elsewhere: `'ΑΣ'.lower() == 'ας'`), so every theorem about the
    character level is stated for every `TextOps`.  The driver runs the model
    with the per-character instance `Tables.ops` (Python-supplied table
    `c ↦ c.lower()`), which is `str.lower` on every string without U+03A3. -/
structure TextOps where
  /-- `str.lower` -/
  lower : List Char → List Char
  /-- `c.isspace()` — what `str.strip()` removes -/
  isWs : Char → Bool

/-- Python-supplied tables for one input. -/
structure Tables where
  /-- characters `c` (of those that can occur) with `c.isspace()` — what `str.strip()` removes -/
  ws : List Char
  /-- `c ↦ c.lower()` where it differs from `c` -/
  lower : List (Char × List Char)

def Tables.isWs (t : Tables) (c : Char) : Bool := t.ws.contains c

/-- `str.strip()` -/
def strip (isWs : Char → Bool) (s : List Char) : List Char :=
  ((s.dropWhile isWs).reverse.dropWhile isWs).reverse

/-- the per-character instance of `str.lower()` (no final-sigma context: equal
    to `str.lower` exactly on the strings without `Σ`, U+03A3). -/
def lowerStr (t : Tables) (s : List Char) : List Char :=
  s.flatMap fun c => match t.lower.find? (fun p => p.1 == c) with
    | some p => p.2
    | none => [c]

/-- the instance the driver runs -/
def Tables.ops (t : Tables) : TextOps := ⟨lowerStr t, t.isWs⟩

/-- `special_chars = re.compile("[#_\t]")`, `special_chars.sub(' ', line)`
    (preprocess.py:245-257) -/
def isSpecial (c : Char) : Bool := c == '#' || c == '_' || c == '\t'

def removeSpecial (s : List Char) : List Char :=
  s.map fun c => if isSpecial c then ' ' else c

/-- `allowed_symbols` (preprocess.py:261-274): `'all'`, a character-set
    expression `e` used as `[^e]`, or a callable given as its table of ranges. -/
inductive Allowed where
  | all
  | expr (e : List Char)
  | table (ranges : List (Char × Char))
deriving Repr

/-- the subset of `re` character-set syntax that is generated: literals and
    ranges `a-z` (a `-` that is not between two characters is a literal).
    TOTAL: the ranges `re` would build if the expression compiles — whether it
    compiles is `parseSetExpr?`. -/
def parseSetExpr : List Char → List (Char × Char)
  | [] => []
  | [a] => [(a, a)]
  | [a, b] => [(a, a), (b, b)]
  | a :: b :: c :: rest =>
    if b == '-' then (a, c) :: parseSetExpr rest
    else (a, a) :: parseSetExpr (b :: c :: rest)

/-- the domain of `parseSetExpr`: no `]`, `[`, `\` (which close the set, open a
    nested set / class, escape).  A decidable predicate; the harness only
    generates such expressions.  OUTSIDE this domain the total functions
    `parseSetExpr`/`parseSetExpr?` are NOT what `re` does (confirmed on /repo,
    Python 3.12: `"\\"`, `"a\\"` → `re.error`, the model compiles; `"\\d"` keeps the
    digits, the model keeps `\` and `d`; `"a]b"` is the pattern `[^a]b]` — a class
    followed by two literals —, the model reads three literals).  Every theorem
    about a set expression therefore carries `SetExprPlain e`
    (`Allowed.Supported`) as a hypothesis.  (`[` and a leading `]` are literals
    for `re`, too; they are excluded to keep the domain simple.) -/
def SetExprPlain (e : List Char) : Prop := ∀ c ∈ e, c ≠ ']' ∧ c ≠ '[' ∧ c ≠ '\\'

instance (e : List Char) : Decidable (SetExprPlain e) :=
  inferInstanceAs (Decidable (∀ c ∈ e, c ≠ ']' ∧ c ≠ '[' ∧ c ≠ '\\'))

/-- `re.compile(f"[^{e}]")` (preprocess.py:272) for a plain expression:
    `none` = `re.error` — the empty expression (`[^]`: "unterminated character
    set") and a range with `lo > hi` (`z-a`: "bad character range"). -/
def parseSetExpr? (e : List Char) : Option (List (Char × Char)) :=
  if e.isEmpty then none
  else if (parseSetExpr e).all (fun r => decide (r.1.toNat ≤ r.2.toNat)) then some (parseSetExpr e)
  else none

/-- membership in a list of literals / ranges (code points) -/
def inRanges (rs : List (Char × Char)) (c : Char) : Bool :=
  rs.any fun r => r.1.toNat ≤ c.toNat && c.toNat ≤ r.2.toNat

/-- the SET OF CHARACTERS an `allowed_symbols` value lets through (its
    denotation; how the two non-trivial forms are APPLIED to a line is
    `filterSymbols` — two different code paths, proved to agree with this
    denotation in `filterSymbols_eq_map`). -/
def Allowed.ok : Allowed → Char → Bool
  | .all, _ => true
  | .expr e, c => inRanges (parseSetExpr e) c
  | .table rs, c => inRanges rs c

/-- the inputs on which the model claims to be the code: a set expression must
    be plain (`SetExprPlain`).  Decidable. -/
def Allowed.Supported : Allowed → Prop
  | .expr e => SetExprPlain e
  | _ => True

instance : DecidablePred Allowed.Supported := fun a =>
  match a with
  | .all => isTrue trivial
  | .expr e => inferInstanceAs (Decidable (SetExprPlain e))
  | .table _ => isTrue trivial

/-- does `create_event_file` raise `re.error` at :272, before anything else? -/
def Allowed.badPattern : Allowed → Bool
  | .expr e => (parseSetExpr? e).isNone
  | _ => false

/-- is `allowed_symbols` a callable (the only form that can raise per character)? -/
def Allowed.isCallable : Allowed → Bool
  | .table _ => true
  | _ => false

/-! `filter_symbols(line, replace=' ')` (preprocess.py:262-274) is defined in one
    of three ways, depending on the form of `allowed_symbols`.  The two
    non-trivial ones are DIFFERENT code paths and are modelled separately. -/

/-- the one-character pattern `[^items]` (sre: `IN [NEGATE, LITERAL…, RANGE…]`,
    no flags) matches the character `c` iff NO item of the set matches it
    (a negated set also matches a newline). -/
def negClassMatches (items : List (Char × Char)) (c : Char) : Bool :=
  !(items.any fun r => r.1.toNat ≤ c.toNat && c.toNat ≤ r.2.toNat)

/-- `pattern.sub(repl, s)` for a pattern that matches exactly one character
    (never the empty string): scan from the left; where the pattern matches,
    emit `repl` and continue behind the match; elsewhere copy the character. -/
def subChar (pat : Char → Bool) (repl : Char) : List Char → List Char
  | [] => []
  | c :: cs => if pat c then repl :: subChar pat repl cs else c :: subChar pat repl cs

/-- the regex branch (272-274):
    ```
    not_in_symbols = re.compile(f"[^{allowed_symbols:s}]")
    def filter_symbols(line, replace):
        return not_in_symbols.sub(replace, line)
    ``` -/
def filterRegex (items : List (Char × Char)) (replace : Char) (line : List Char) : List Char :=
  subChar (negClassMatches items) replace line

/-- the callable branch (263-269): an index loop that writes into a copy.
    ```
    line_copy = list(line)
    for ii in range(len(line)):
        if not allowed_symbols(line[ii]):
            line_copy[ii] = replace
    return ''.join(line_copy)
    ``` -/
def filterCallableStep (allowed : Char → Bool) (replace : Char) (line : List Char)
    (lineCopy : List Char) (ii : Nat) : List Char :=
  match line[ii]? with
  | some c => if allowed c then lineCopy else lineCopy.set ii replace
  | none => lineCopy

/-- … the loop over `range(len(line))`, starting from the copy -/
def filterCallable (allowed : Char → Bool) (replace : Char) (line : List Char) : List Char :=
  (List.range line.length).foldl (filterCallableStep allowed replace line) line

/-- `filter_symbols(line, replace=' ')` (262-274): `'all'` returns the line; a
    set expression goes through `re.sub` with the negated set; a callable
    (given by the table of the characters it accepts) through the index loop. -/
def filterSymbols (a : Allowed) (s : List Char) : List Char :=
  match a with
  | .all => s
  | .expr e => filterRegex (parseSetExpr e) ' ' s
  | .table rs => filterCallable (inRanges rs) ' ' s

/-- `line.lower()` if `lower_case` -/
def lowered (ops : TextOps) (lowerCase : Bool) (line : List Char) : List Char :=
  if lowerCase then ops.lower line else line

/-- `process_line` (338-347): lower, special chars, symbol filter — in this order. -/
def processLineG (ops : TextOps) (lowerCase : Bool) (a : Allowed) (line : List Char) : List Char :=
  filterSymbols a (removeSpecial (lowered ops lowerCase line))

/-- `line.split(" ")` -/
def splitSpace : List Char → List (List Char)
  | [] => [[]]
  | c :: cs =>
    if c = ' ' then [] :: splitSpace cs
    else match splitSpace cs with
      | [] => [[c]]
      | w :: ws => (c :: w) :: ws

/-- `gen_words` (349-351): `[word.strip() for word in line.split(" ") if word.strip()]` -/
def genWordsG (isWs : Char → Bool) (line : List Char) : List Word :=
  (splitSpace line).filterMap fun w =>
    let s := strip isWs w
    if s.isEmpty then none else some s

/-! ### `context_pattern = re.compile("(---end.of.document---|---END.OF.DOCUMENT---)")` -/

/-- match a pattern in which `none` is `.` (any character; a line contains no
    newline) at the head of `s` -/
def matchPat : List (Option Char) → List Char → Bool
  | [], _ => true
  | _ :: _, [] => false
  | none :: p, _ :: s => matchPat p s
  | some a :: p, c :: s => a == c && matchPat p s

def dotPat (s : String) : List (Option Char) :=
  s.toList.map fun c => if c == '.' then none else some c

def markerLower : List (Option Char) := dotPat "---end.of.document---"
def markerUpper : List (Option Char) := dotPat "---END.OF.DOCUMENT---"
def markerLen : Nat := 21

/-- does the alternation match at the head of `s`?  Both alternatives have
    length 21, so the match is `s.take 21`. -/
def isMarkerAt (s : List Char) : Bool := matchPat markerLower s || matchPat markerUpper s

/-- `context_pattern.split(line)`: leftmost non-overlapping matches; because of
    the capturing group the separators are part of the result:
    `[t0, m1, t1, …, mk, tk]`.  `fuel` bounds the number of steps; every step
    consumes at least one character, so `cs.length + 1` is enough
    (`splitAux_fuel`: the result does not depend on the fuel beyond that;
    `contextSplit_flatten`: nothing is dropped). -/
def splitAux : Nat → List Char → List Char → List (List Char)
  | 0, _, cur => [cur.reverse]
  | fuel + 1, cs, cur =>
    match cs with
    | [] => [cur.reverse]
    | c :: rest =>
      if isMarkerAt cs then cur.reverse :: cs.take markerLen :: splitAux fuel (cs.drop markerLen) []
      else splitAux fuel rest (c :: cur)

def contextSplit (line : List Char) : List (List Char) := splitAux (line.length + 1) line []

/-- elements at even positions -/
def evens {α : Type} : List α → List α
  | [] => []
  | [a] => [a]
  | a :: _ :: rest => a :: evens rest

/-- `context_pattern.sub("", s)` -/
def removeMarkers (s : List Char) : List Char := (evens (contextSplit s)).flatten

/-- one element of `context1, *contexts` (386-391 / 396-400 / 403-407):
    ```
    context1 = process_context(context1)            # marker removed
    if context1.strip():
        context1 = process_line(context1.strip())
        words.extend(gen_words(context1))
    ``` -/
def elemWordsG (ops : TextOps) (lowerCase : Bool) (a : Allowed) (piece : List Char) : Option (List Word) :=
  let c := strip ops.isWs (removeMarkers piece)
  if c.isEmpty then none else some (genWordsG ops.isWs (processLineG ops lowerCase a c))

/-- the elements of one line in the `'document'` branch; `[e]` iff
    `context_pattern.search(line) is None` (then 409-410:
    `words.extend(gen_words(process_line(line)))`). -/
def docLineElemsG (ops : TextOps) (lowerCase : Bool) (a : Allowed) (rawLine : List Char) :
    List (Option (List Word)) :=
  let line := strip ops.isWs rawLine                      -- 377
  match contextSplit line with
  | [_] => [some (genWordsG ops.isWs (processLineG ops lowerCase a line))]
  | pieces => pieces.map (elemWordsG ops lowerCase a)

/-- the words of one line in the `'line'` branch (377, 380-381) -/
def lineWordsG (ops : TextOps) (lowerCase : Bool) (a : Allowed) (rawLine : List Char) : List Word :=
  genWordsG ops.isWs (processLineG ops lowerCase a (strip ops.isWs rawLine))

/-! the same with the Python-supplied `Tables` (the instance `Tables.ops`);
    definitional unfoldings of the general functions -/

def processLine (t : Tables) (lowerCase : Bool) (a : Allowed) (line : List Char) : List Char :=
  processLineG t.ops lowerCase a line

def genWords (t : Tables) (line : List Char) : List Word := genWordsG t.isWs line

def elemWords (t : Tables) (lowerCase : Bool) (a : Allowed) (piece : List Char) : Option (List Word) :=
  elemWordsG t.ops lowerCase a piece

def docLineElems (t : Tables) (lowerCase : Bool) (a : Allowed) (rawLine : List Char) :
    List (Option (List Word)) :=
  docLineElemsG t.ops lowerCase a rawLine

def lineWords (t : Tables) (lowerCase : Bool) (a : Allowed) (rawLine : List Char) : List Word :=
  lineWordsG t.ops lowerCase a rawLine

inductive ContextStructure where
  | document | line
deriving Repr, BEq, DecidableEq

structure Options where
  allowed : Allowed
  context : ContextStructure
  event : EventStructure
  cue : CueStructure
  lowerCase : Bool
  removeDuplicates : Bool

/-- `process_words` (353-358) -/
def processWords (o : Options) (words : List Word) : List (Ev Word) :=
  processOccurrences o.cue o.removeDuplicates (genOccurrences o.event o.cue words)

/-- the data lines of the produced file, in order (the header line
    `cues\toutcomes` is written first, 369), for arbitrary `TextOps`. -/
def createEventsG (ops : TextOps) (o : Options) (rawLines : List (List Char)) : List (Ev Word) :=
  match o.context with
  | .line => runLine (processWords o) (rawLines.map (lineWordsG ops o.lowerCase o.allowed))
  | .document => runDocument (processWords o) (rawLines.map (docLineElemsG ops o.lowerCase o.allowed))

/-- … with the Python-supplied tables (= `createEventsG t.ops`, `createEvents_eq_G`). -/
def createEvents (t : Tables) (o : Options) (rawLines : List (List Char)) : List (Ev Word) :=
  match o.context with
  | .line => runLine (processWords o) (rawLines.map (lineWords t o.lowerCase o.allowed))
  | .document => runDocument (processWords o) (rawLines.map (docLineElems t o.lowerCase o.allowed))

/-! ## What is in the event file when the call fails late

`create_event_file` opens the event file and writes the header
(preprocess.py:367-369) BEFORE the first corpus line is read.  An exception
after that point — a corpus that is not valid UTF-8 (`UnicodeDecodeError` from
the line iterator), an `allowed_symbols` callable that raises — propagates
through `with gzip.open(...) as outfile`, which closes (and flushes) the file:
the header and every event written so far stay behind. -/

/-- the events written by the `'document'` machine before the final flush -/
def partialDocument {ω : Type} (pw : List ω → List (Ev ω)) (lines : List (List (Option (List ω)))) :
    List (Ev ω) :=
  (lines.foldl (docStep pw) ([], [])).2

/-- The events already written when an exception strikes while raw line `k`
    (0-based) is processed, in the element at position `i` of its
    `context_pattern.split` (`i = 0` for `'line'` contexts, for a line without
    marker, and for an exception of the line iterator itself).

    `'line'`: the events of the lines before `k`.  `'document'`: the machine
    has consumed the lines before `k` and, of line `k`, the elements before
    position `i` — every `process_words` call of line `k` that precedes element
    `i` has happened, the carry-over buffer is lost: exactly what the machine
    emits on the truncated line `elems.take i ++ [none]` (an empty last element
    triggers no further call). -/
def writtenBeforeG (ops : TextOps) (o : Options) (rawLines : List (List Char)) (k i : Nat) :
    List (Ev Word) :=
  match o.context with
  | .line => runLine (processWords o) ((rawLines.take k).map (lineWordsG ops o.lowerCase o.allowed))
  | .document =>
    partialDocument (processWords o)
      ((rawLines.take k).map (docLineElemsG ops o.lowerCase o.allowed)
        ++ [(docLineElemsG ops o.lowerCase o.allowed (rawLines.getD k [])).take i ++ [none]])

/-- the strings handed to `filter_symbols` (i.e. to the callable, character by
    character, in order) for one raw line, by position in the split; `[]` where
    `process_line` is not called (marker elements, blank pieces). -/
def seenG (ops : TextOps) (lowerCase : Bool) (ctx : ContextStructure) (rawLine : List Char) :
    List (List Char) :=
  let line := strip ops.isWs rawLine
  match ctx with
  | .line => [removeSpecial (lowered ops lowerCase line)]
  | .document =>
    match contextSplit line with
    | [_] => [removeSpecial (lowered ops lowerCase line)]
    | pieces => pieces.map fun piece =>
        let c := strip ops.isWs (removeMarkers piece)
        if c.isEmpty then [] else removeSpecial (lowered ops lowerCase c)

/-- the first `(line, element)` at which a callable that raises on the
    characters `raises` is handed such a character.

    MODELLING LIMIT: `raises : Char → Bool` describes a callable whose failure
    depends only on the character it is handed.  A callable that raises on its
    n-th call, after some time, or depending on any other state cannot be
    expressed; the model (and every theorem about `.callableRaised`) says
    nothing about such a callable. -/
def firstFault (raises : Char → Bool) (ops : TextOps) (lowerCase : Bool) (ctx : ContextStructure) :
    Nat → List (List Char) → Option (Nat × Nat)
  | _, [] => none
  | k, raw :: rest =>
    match (seenG ops lowerCase ctx raw).findIdx? (fun s => s.any raises) with
    | some i => some (k, i)
    | none => firstFault raises ops lowerCase ctx (k + 1) rest

/-! ## Effect model: refusal to overwrite, and what a failing call leaves behind
    (preprocess.py:272, 282-283, 367-369) -/

inductive FileContent where
  /-- a UTF-8 text file with these lines -/
  | corpus (lines : List (List Char))
  /-- an event file: the header line followed by these data lines.
      `events []` is a header-only file. -/
  | events (es : List (Ev Word))
  /-- any other regular file; as a corpus: not decodable from its first chunk -/
  | other (tag : Nat)
  /-- a file that is not valid UTF-8: the line iterator yields the lines
      `readable` and then raises `UnicodeDecodeError` (how many lines precede
      the error is decided by `TextIOWrapper`'s chunked decoder: whole chunks of
      8192 bytes; supplied, not modelled) -/
  | badText (readable : List (List Char))
deriving DecidableEq

abbrev FS := String → Option FileContent

inductive CreateErr where
  | eventFileExists      -- OSError (283)
  | corpusMissing        -- FileNotFoundError ⊆ OSError (367), raised before the event file is opened
  | corpusNotText        -- UnicodeDecodeError ⊆ ValueError, raised by `for … in enumerate(corpus)` (372), AFTER the header was written
  | badPattern           -- re.error (272), raised before anything else is looked at
  | callableRaised       -- whatever the `allowed_symbols` callable raised (265), AFTER the header was written
deriving Repr, BEq, DecidableEq

/-- the failures that happen before `gzip.open(event_file, "wt")` -/
def CreateErr.early : CreateErr → Bool
  | .eventFileExists | .corpusMissing | .badPattern => true
  | .corpusNotText | .callableRaised => false

instance : DecidableEq (Except CreateErr Unit) := fun a b =>
  match a, b with
  | .ok (), .ok () => isTrue rfl
  | .error e, .error e' => if h : e = e' then isTrue (by rw [h]) else isFalse (fun hh => h (by cases hh; rfl))
  | .ok (), .error _ => isFalse (fun h => by cases h)
  | .error _, .ok () => isFalse (fun h => by cases h)

/-- the exception class of a result (`none` = the call returned) -/
def errOf : Except CreateErr Unit → Option CreateErr
  | .ok _ => none
  | .error e => some e

def fsSet (fs : FS) (p : String) (c : FileContent) : FS := fun q => if q = p then some c else fs q

/-- the lines the iterator yields, and whether it then raises -/
def FileContent.readable : FileContent → List (List Char) × Bool
  | .corpus lines => (lines, false)
  | .badText lines => (lines, true)
  | .events _ => ([], true)        -- a gzip file is not UTF-8 (0x8b in its magic)
  | .other _ => ([], true)

/-- `create_event_file(corpus_file, event_file, …)` as a function of the file
    system, for arbitrary `TextOps` and a callable that raises exactly when it
    is handed a character of `raises` (ignored unless `allowed_symbols` is a
    callable; a callable whose failure depends on anything but the character —
    e.g. on the number of calls — is outside the model, see `firstFault`).  Order of the checks as in
    the code: pattern (272), existing event file (282), corpus (367), then the
    event file is created. -/
def createEventFileX (raises : Char → Bool) (ops : TextOps) (o : Options)
    (corpusFile eventFile : String) (fs : FS) : Except CreateErr Unit × FS :=
  if o.allowed.badPattern then (.error .badPattern, fs)
  else if (fs eventFile).isSome then (.error .eventFileExists, fs)
  else match fs corpusFile with
    | none => (.error .corpusMissing, fs)
    | some content =>
      let lines := content.readable.1
      match (if o.allowed.isCallable then firstFault raises ops o.lowerCase o.context 0 lines else none) with
      | some (k, i) =>
        (.error .callableRaised, fsSet fs eventFile (.events (writtenBeforeG ops o lines k i)))
      | none =>
        if content.readable.2 then
          (.error .corpusNotText, fsSet fs eventFile (.events (writtenBeforeG ops o lines lines.length 0)))
        else (.ok (), fsSet fs eventFile (.events (createEventsG ops o lines)))

/-- … with the Python-supplied tables and a callable that never raises -/
def createEventFile (t : Tables) (o : Options) (corpusFile eventFile : String) (fs : FS) :
    Except CreateErr Unit × FS :=
  createEventFileX (fun _ => false) t.ops o corpusFile eventFile fs

end Pyndl.Create
