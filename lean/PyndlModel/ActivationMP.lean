/-
  PyndlModel.ActivationMP — the multi-process path of `pyndl.activation`
  (`_activation_matrix`, activation.py:143-181, branch `n_jobs >= 2`).

  What the code does (read against the source):
  * the parent materialises `list(event_cue_indices_list)` — the duplicate
    policy and the cue lookup of EVERY event run in the parent, in event order,
    before any worker exists (activation.py:96-97), so the errors are those of
    the single-process path;
  * `shared_activations = mp.RawArray(c_double, n_outcomes * n_events)` — ONE
    flat buffer (zero-initialised by `RawArray`; the theorems hold for every
    initial content), seen by the workers as an array of shape
    `(n_outcomes, n_events)`, C order: cell `(i, k)` is flat cell
    `i * n_events + k` (`_init_mp_activation_matrix`);
  * `pool.starmap(_run_mp_activation_matrix, enumerate(indices_list))` — one
    task `(k, indices_list[k])` per event; a task executes
    `activations[:, k] = weights[:, cue_indices].sum(axis=1)`, i.e. writes, for
    every outcome row `i`, the cell `i * n_events + k`
    (`_run_mp_activation_matrix`);
  * the buffer is returned with shape `(n_outcomes, n_events)`.

  TRUSTED (DESIGN §2): `Pool.starmap` runs every task of the iterable exactly
  once and returns after all of them have finished; tasks run on any worker in
  any completion order — modelled by `order`, an arbitrary permutation of the
  event indices — and a task's column write is not torn by another task's write
  to OTHER cells (distinct tasks write disjoint cells: theorem
  `mp_cells_written_once`).

  Out-of-range writes are not silently dropped: `MPBuf.write` returns `none`
  (numpy: `IndexError`; a raw buffer: memory corruption) — the theorems show
  that this never happens for a permutation of the event indices, and that a
  task index that is no event index (`n_events ≤ k`) IS reported
  (`mpTask_event_index_out_of_range`, `C12.mp_bad_order_reported`).

  NOT MODELLED — the float64 cast (finding F15).  The code converts the weights
  with `np.float64(weights)` ONLY in this multi-process path (activation.py:172);
  the single-process path, as shipped, summed in the weights' own dtype.  The
  model has ONE scalar type `R` for both paths, so `activation_mp_eq_single`
  (`activationMatrixMP … = activationMatrix …`) is a statement about exact
  arithmetic, equivalently about the code on float64 weights, where the cast is
  the identity.  On non-float64 weights (e.g. float32) the two real paths
  differed in rounding; this is a discrepancy of the code, recorded as F15 and
  repaired in /repo by summing with `dtype=np.float64` in the single-process
  path (activation.py:167) — after that repair both paths add float64 numbers.
-/
import PyndlModel.Activation

namespace Pyndl

/-- the shared flat buffer together with the TRACE of the flat cells written
    so far (oldest first) — the trace exists only to state "every cell is
    written exactly once" -/
structure MPBuf (R : Type) where
  cells : Array R
  written : List Nat
deriving Repr, DecidableEq

/-- one store into the flat buffer; `none` = the cell does not exist -/
def MPBuf.write {R : Type} (b : MPBuf R) (c : Nat) (v : R) : Option (MPBuf R) :=
  if c < b.cells.size then some ⟨b.cells.setIfInBounds c v, b.written ++ [c]⟩ else none

section
variable {R : Type} [Add R] [Zero R]

/-- the per-event index tuples the parent hands to `_activation_matrix`
    (`list(event_cue_indices_list)`), or the error of the first rejected event -/
def actIndexLists (p : DupPolicy) (ignoreMissing : Bool) (labels : List String) :
    List (List String) → Except Err (List (List Nat))
  | [] => .ok []
  | cues :: rest =>
    match actCues p cues with
    | .error e => .error e
    | .ok cs =>
      match cueIndices ignoreMissing labels cs with
      | .error e => .error e
      | .ok idx =>
        match actIndexLists p ignoreMissing labels rest with
        | .error e => .error e
        | .ok r => .ok (idx :: r)

/-- the flat cell of outcome row `i`, event column `k` in a C-ordered
    `(n_outcomes, nEv)` array -/
def mpCell (nEv i k : Nat) : Nat := i * nEv + k

/-- the stores of one column, rows in the order `rows` -/
def mpWriteColumn (nEv k : Nat) (col : List R) : List Nat → MPBuf R → Option (MPBuf R)
  | [], b => some b
  | i :: is, b =>
    match b.write (mpCell nEv i k) (col.getD i 0) with
    | none => none
    | some b' => mpWriteColumn nEv k col is b'

/-- `_run_mp_activation_matrix(k, idx)`:
    `activations[:, k] = weights[:, idx].sum(axis=1)` on the flat buffer -/
def mpTask (w : LW R) (nEv : Nat) (b : MPBuf R) (k : Nat) (idx : List Nat) : Option (MPBuf R) :=
  mpWriteColumn nEv k (actColumn w idx) (List.range w.outcomes.length) b

/-- the pool: the tasks `enumerate(tasks)` executed one after the other in the
    order `order` (task `k` = `(k, tasks[k])`) -/
def mpRun (w : LW R) (tasks : List (List Nat)) : List Nat → MPBuf R → Option (MPBuf R)
  | [], b => some b
  | k :: ks, b =>
    match mpTask w tasks.length b k (tasks.getD k []) with
    | none => none
    | some b' => mpRun w tasks ks b'

/-- the buffer viewed with shape `(nOut, nEv)` — what the code returns
    (rows = outcomes, columns = events) -/
def mpByOutcome (nOut nEv : Nat) (cells : Array R) : List (List R) :=
  (List.range nOut).map (fun i => (List.range nEv).map (fun k => cells.getD (mpCell nEv i k) 0))

/-- its transpose (rows = events, columns = outcomes) — the orientation in
    which `activationMatrix` stores the result -/
def mpByEvent (nOut nEv : Nat) (cells : Array R) : List (List R) :=
  (List.range nEv).map (fun k => (List.range nOut).map (fun i => cells.getD (mpCell nEv i k) 0))

/-- **the multi-process matrix path of `activation()`**: policy and cue lookup
    of all events in the parent, then the tasks in the completion order `order`
    on a buffer with initial content `init`, then the reshape.  `.error .other`
    = a store outside the buffer (never happens for a permutation `order`:
    `activation_mp_eq_single`; happens for an `order` with an entry that is no
    event index and at least one outcome row: `C12.mp_bad_order_reported`).
    Result in the orientation of `activationMatrix` (rows = events). -/
def activationMatrixMP (p : DupPolicy) (ignoreMissing : Bool) (w : LW R) (evs : List (List String))
    (order : List Nat) (init : Array R) : Except Err (List (List R)) :=
  match actIndexLists p ignoreMissing w.cues evs with
  | .error e => .error e
  | .ok tasks =>
    match mpRun w tasks order ⟨init, []⟩ with
    | none => .error .other
    | some b => .ok (mpByEvent w.outcomes.length tasks.length b.cells)

/-- the zero-initialised `RawArray` of the code -/
def mpZeros (nOut nEv : Nat) : Array R := (List.replicate (nOut * nEv) (0 : R)).toArray

/-- a WRONG schedule (seeded change C12_b and its generalisation): the events
    are cut into `nJobs` blocks of `len / nJobs` events and the remaining
    `len % nJobs` events are never scheduled (for `len < nJobs`: no task at all,
    which is what `starmap(..., chunksize=0)` does) -/
def mpOrderDroppingTail (len nJobs : Nat) : List Nat := List.range (len / nJobs * nJobs)

end

end Pyndl
