/-
  C03 — Continuing from earlier weights equals learning everything in one pass;
  weights handed to a learner are never modified.

  What is proved
  * about the SPECIFICATION `rwLearn`: `learn_append`, `chain_eq_single` (any
    k-way split at any positions);
  * about the MODELS of the real code, one call: `dict_continue` (`dict_ndl`
    from any dict), `ndl_continue` (`ndl.ndl` from any labelled matrix, new
    labels appended, within the 32-bit limits), the hand-over conversions
    `dict_from_data_array`, `data_array_from_dict`, `dict_roundtrip`,
    `abs_extend`; two calls: `dict_chain_two`, `ndl_chain_two`;
  * about the MODELS, chains of ARBITRARY length with a DIFFERENT learner per
    part (PyndlProofs/Chain.lean; induction over the list of parts):
      - `chainRun` models harness/impl.py `op_chain`: the state between calls
        is `None`, a weight dict or a labelled matrix; a part is run by
        `dict_ndl` (dict result or `make_data_array=True`) or by `ndl.ndl`
        (threading/openmp, any chunk sizes); a matrix handed to `dict_ndl` is
        copied cell by cell into a dict (`dictFromLW`, ndl.py:421-428), a dict
        handed to `ndl.ndl` goes through `ndl.data_array` (`lwFromDict`, as
        the harness does; `ndl.ndl` itself only accepts a DataArray);
      - `chain_any_length`: every part accepted by its learner's duplicate
        policy, legal chunk sizes for the `ndl.ndl` parts, and ONE a-priori
        size condition on the inputs — the whole file fits the 32-bit limits
        (`Fits32 (allEvents parts)`: number of events, of distinct cue names, of
        distinct outcome names, cues/outcomes per event, all < 2^32) — imply
        that the chain succeeds and its final state denotes
        `rwLearn` from all-zero weights over the policy-processed
        concatenation, at EVERY pair of names.  The conditions `Fits32With w es`
        needed by `ndl_continue` for each intermediate matrix `w` are derived
        from an invariant (`StateOK`: labels / dict keys of the state are
        duplicate-free names occurring in the events of the chain), for which
        it is proved that `ndl.ndl` returns old labels ++ new names
        (`ndlModel_labels`) and `dict_ndl` creates no keys but names of its
        events (`dictNdl_keys`);
      - `chain_any_length_from`: the same from any given initial weights
        (state satisfying the invariant), size conditions per part;
      - `chain_eq_single_call`: the chain = ONE `ndl.ndl` call = ONE `dict_ndl`
        call over the whole file (same duplicate policy everywhere; that the
        whole file is accepted follows from the parts being accepted:
        `policy_distributes`, `chain_policy_uniform`);
      - `chain_split_irrelevant`: two splits / learner assignments of the same
        file end in the same weight function.
  What is partial
  * partial: "inputs are not modified" — `input_preserved_partial` is trivial
    in a functional model; aliasing inside numpy/xarray/deepcopy is decided
    only by the differential run (snapshots before/after every call).
  * partial: alpha is one constant for all parts and all cues (as `ndl.ndl`
    requires; `dict_ndl` alone also takes a per-cue dict: `dict_continue`).
  * partial: Widrow-Hoff chains (`wh.wh`) are not part of `chainRun`
    (treated in C08).
  * partial: the label ORDER `ndl.ndl` produces for new names (a Python `set`
    difference, hash order) is modelled as first occurrence; the theorems
    read results through their labels, so they do not depend on it
    (`abs_extend` holds for any order).
-/
import PyndlProofs.Continue
import PyndlProofs.Dict
import PyndlProofs.NdlContinue
import PyndlProofs.DictArray
import PyndlProofs.Chain
import PyndlProofs.NdlCall
import PyndlModel.Generated

namespace Pyndl.C03
open Pyndl List

variable {R : Type} [CommRing R]
variable {ι κ : Type} [DecidableEq ι] [DecidableEq κ]

/-- learning `xs ++ ys` = learning `xs`, then continuing with `ys` from the result -/
theorem learn_append (α : ι → R) (β₁ β₂ lam : R) (W : κ → ι → R) (xs ys : List (Event ι κ)) :
    rwLearn α β₁ β₂ lam W (xs ++ ys) = rwLearn α β₁ β₂ lam (rwLearn α β₁ β₂ lam W xs) ys :=
  rwLearn_append α β₁ β₂ lam W xs ys

/-- **any k-way split at any positions**: chaining the specification through
    the weights equals the single pass over the concatenation -/
theorem chain_eq_single (α : ι → R) (β₁ β₂ lam : R) (W : κ → ι → R) (pieces : List (List (Event ι κ))) :
    pieces.foldl (rwLearn α β₁ β₂ lam) W = rwLearn α β₁ β₂ lam W pieces.flatten :=
  chain_rwLearn α β₁ β₂ lam W pieces

/-- `dict_ndl` continued from ANY weight dict is the specification continued
    from the function that dict denotes (so a chain of `dict_ndl` calls through
    `weights=` is a chain of the specification) -/
theorem dict_continue (p : DupPolicy) (α : ι → R) (β₁ β₂ lam : R) (W₀ : WDict ι κ R)
    (es es' : List (Event ι κ)) (hp : applyPolicyAll p es = some es') :
    ∃ W, dictNdl p α β₁ β₂ lam W₀ es = some W ∧ wdAbs W = rwLearn α β₁ β₂ lam (wdAbs W₀) es' :=
  Pyndl.dictNdl_eq_spec p α β₁ β₂ lam W₀ es es' hp

/-- two `dict_ndl` calls chained through the returned dict = one call -/
theorem dict_chain_two (p : DupPolicy) (α : ι → R) (β₁ β₂ lam : R) (W₀ : WDict ι κ R)
    (xs ys xs' ys' : List (Event ι κ))
    (hx : applyPolicyAll p xs = some xs') (hy : applyPolicyAll p ys = some ys') :
    ∃ W₁ W₂, dictNdl p α β₁ β₂ lam W₀ xs = some W₁ ∧ dictNdl p α β₁ β₂ lam W₁ ys = some W₂ ∧
      wdAbs W₂ = rwLearn α β₁ β₂ lam (wdAbs W₀) (xs' ++ ys') := by
  obtain ⟨W₁, h1, a1⟩ := Pyndl.dictNdl_eq_spec p α β₁ β₂ lam W₀ xs xs' hx
  obtain ⟨W₂, h2, a2⟩ := Pyndl.dictNdl_eq_spec p α β₁ β₂ lam W₁ ys ys' hy
  exact ⟨W₁, W₂, h1, h2, by rw [a2, a1, rwLearn_append]⟩

/-- DataArray hand-over into `dict_ndl`: the dict built from the labelled
    matrix denotes the same weights -/
theorem dict_from_data_array (w : LW R) (o c : String) : wdAbs (dictFromLW w) o c = w.get o c :=
  dictFromLW_abs w o c

/-- dict hand-over into `ndl.ndl` (through `ndl.data_array`): the labelled matrix
    built from a weight dict denotes the same weights, zeros filled in -/
theorem data_array_from_dict (W : WDict String String R) (o c : String) :
    (lwFromDict W).get o c = wdAbs W o c :=
  lwFromDict_get W o c

/-- both hand-over conversions composed are the identity on the denoted weights -/
theorem dict_roundtrip (w : LW R) (o c : String) :
    (lwFromDict (dictFromLW w)).get o c = w.get o c := by
  rw [lwFromDict_get, dictFromLW_abs]

/-- **new cues/outcomes in later parts**: `ndl.ndl` extends the given matrix by
    zero rows/columns for the new labels — in any order — without changing the
    weight function it denotes -/
theorem abs_extend (w : LW R) (cuesNew outsNew : List String) (o c : String) :
    (extendLW w cuesNew outsNew).get o c = w.get o c :=
  extendLW_get w cuesNew outsNew o c

/-- **`ndl.ndl` continued from given weights = the specification continued from
    the weight function they denote** — whole model (count, merged id maps with
    new labels appended, zero extension, chunks, kernels per part, labels), every
    method, chunk sizes, policy-accepted events, within the 32-bit limits. -/
theorem ndl_continue (cfg : NdlCfg) (hper : 2 ≤ cfg.perFile) (hjob : 1 ≤ cfg.perJob) (alpha β₁ β₂ lam : R)
    (w : LW R) (es es' : List (Event String String))
    (hp : applyPolicyAll cfg.policy es = some es') (hfit : Fits32With w es) :
    ∃ r, ndlModel Generated.pyMagic Generated.pyVersion cfg alpha β₁ β₂ lam (some w) es = .ok (r, es.length) ∧
      ∀ o c, r.get o c = rwLearn (fun _ => alpha) β₁ β₂ lam (fun o c => w.get o c) es' o c :=
  ndlModel_continue_eq_spec _ _ (by decide) (by decide) cfg hper hjob alpha β₁ β₂ lam w es es' hp hfit

/-- the same for the CALL (`ndlCall` = `ndlModel` plus the behaviour on zero
    events, the function the correspondence run evaluates): every NON-EMPTY part -/
theorem ndl_call_continue (cfg : NdlCfg) (hper : 2 ≤ cfg.perFile) (hjob : 1 ≤ cfg.perJob) (alpha β₁ β₂ lam : R)
    (w : LW R) (es es' : List (Event String String)) (hne : es ≠ [])
    (hp : applyPolicyAll cfg.policy es = some es') (hfit : Fits32With w es) :
    ∃ r, ndlCall Generated.pyMagic Generated.pyVersion cfg alpha β₁ β₂ lam (some w) es = .ok (r, es.length) ∧
      ∀ o c, r.get o c = rwLearn (fun _ => alpha) β₁ β₂ lam (fun o c => w.get o c) es' o c := by
  rw [ndlCall_nonempty _ _ _ _ _ _ _ _ _ hne]
  exact ndl_continue cfg hper hjob alpha β₁ β₂ lam w es es' hp hfit

/-- **an EMPTY part is not a no-op for `ndl.ndl`** (outside the property's splits,
    which have non-empty parts; recorded because `dict_ndl` does return its input
    there): continuing from weights with at least one outcome on an event file
    with zero events raises `IOError` with either method. -/
theorem ndl_call_empty_part_raises (cfg : NdlCfg) (hper : 2 ≤ cfg.perFile) (hjob : 1 ≤ cfg.perJob)
    (alpha β₁ β₂ lam : R) (w : LW R) (hw : w.outcomes ≠ []) (hfit : Fits32With w []) :
    ndlCall Generated.pyMagic Generated.pyVersion cfg alpha β₁ β₂ lam (some w) [] = .error .io := by
  obtain ⟨r, hr, _⟩ := ndl_continue cfg hper hjob alpha β₁ β₂ lam w [] [] (by cases cfg.policy <;> rfl) hfit
  have hout : r.outcomes = w.outcomes := by
    have := ndlModel_labels Generated.pyMagic Generated.pyVersion cfg alpha β₁ β₂ lam (some w) [] r 0 hr
    have h2 := this.2
    simp only [countNames] at h2
    rw [h2]
    show w.outcomes ++ List.filter _ (dedupKeepFirst []) = w.outcomes
    simp [dedupKeepFirst]
  cases hm : cfg.method with
  | openmp => exact ndlCall_empty_openmp _ _ cfg hm alpha β₁ β₂ lam (some w) _ hr
  | threading =>
    rw [ndlCall_empty_threading _ _ cfg hm alpha β₁ β₂ lam (some w) r _ hr]
    have : r.outcomes.isEmpty = false := by
      rw [hout]; cases h : w.outcomes with
      | nil => exact absurd h hw
      | cons _ _ => rfl
    simp [this]

/-- **two chained `ndl.ndl` calls = one call over the concatenation** (possibly
    different methods, thread counts and chunk sizes in the two calls, later
    part with new cues/outcomes) -/
theorem ndl_chain_two (cfg₁ cfg₂ : NdlCfg) (h1 : 2 ≤ cfg₁.perFile) (j1 : 1 ≤ cfg₁.perJob)
    (h2 : 2 ≤ cfg₂.perFile) (j2 : 1 ≤ cfg₂.perJob) (alpha β₁ β₂ lam : R)
    (xs xs' ys ys' : List (Event String String))
    (hx : applyPolicyAll cfg₁.policy xs = some xs') (hy : applyPolicyAll cfg₂.policy ys = some ys')
    (fx : Fits32 xs)
    (fy : ∀ w : LW R, Fits32With w ys) :
    ∃ w₁ w₂, ndlModel Generated.pyMagic Generated.pyVersion cfg₁ alpha β₁ β₂ lam none xs = .ok (w₁, xs.length) ∧
      ndlModel Generated.pyMagic Generated.pyVersion cfg₂ alpha β₁ β₂ lam (some w₁) ys = .ok (w₂, ys.length) ∧
      ∀ o c, w₂.get o c = rwLearn (fun _ => alpha) β₁ β₂ lam (fun _ _ => (0 : R)) (xs' ++ ys') o c := by
  obtain ⟨w₁, e1, a1⟩ := ndlModel_eq_spec Generated.pyMagic Generated.pyVersion (by decide) (by decide)
    cfg₁ h1 j1 alpha β₁ β₂ lam xs xs' hx fx
  obtain ⟨w₂, e2, a2⟩ := ndlModel_continue_eq_spec Generated.pyMagic Generated.pyVersion (by decide) (by decide)
    cfg₂ h2 j2 alpha β₁ β₂ lam w₁ ys ys' hy (fy w₁)
  refine ⟨w₁, w₂, e1, e2, ?_⟩
  intro o c
  rw [a2, rwLearn_append]
  congr 1
  funext o c
  exact a1 o c

/-- **inputs are not modified** — in the model every learner is a pure function
    of its `weights` argument, so the statement is the trivial one below. The
    real content of the clause (no aliasing inside numpy/xarray/deepcopy) cannot
    be expressed by a functional model and is decided only by the differential
    run (snapshot of values, coords and attrs of every object handed in, before
    and after each call and at the end of the chain).  partial: see DESIGN §6 C03. -/
theorem input_preserved_partial (p : DupPolicy) (α : ι → R) (β₁ β₂ lam : R) (W₀ : WDict ι κ R)
    (es : List (Event ι κ)) : (fun _ : Option (WDict ι κ R) => W₀) (dictNdl p α β₁ β₂ lam W₀ es) = W₀ := rfl

/-! non-vacuity: a 3-way split in ℤ where the later pieces introduce a new cue
and a new outcome -/
example :
    let p1 : List (Event Nat Nat) := [⟨[0, 1], [10]⟩]
    let p2 : List (Event Nat Nat) := [⟨[2], [10, 11]⟩]
    let p3 : List (Event Nat Nat) := [⟨[0, 2], [11]⟩]
    let W : Nat → Nat → ℤ := fun _ _ => 0
    [p1, p2, p3].foldl (rwLearn (fun _ => (1:ℤ)) 2 3 5) W 11 0
      = rwLearn (fun _ => (1:ℤ)) 2 3 5 W (p1 ++ p2 ++ p3) 11 0
    ∧ rwLearn (fun _ => (1:ℤ)) 2 3 5 W (p1 ++ p2 ++ p3) 11 0 ≠ 0 := by
  decide +kernel

/-! ## chains of arbitrary length, a different learner per part -/

/-- the duplicate policy distributes over concatenation: pieces accepted one by
    one ⇒ the concatenation is accepted, with the concatenated result -/
theorem policy_distributes (p : DupPolicy) (pieces pieces' : List (List (Event ι κ)))
    (h : List.Forall₂ (fun es es' => applyPolicyAll p es = some es') pieces pieces') :
    applyPolicyAll p pieces.flatten = some pieces'.flatten :=
  applyPolicyAll_flatten p pieces pieces' h

/-- with one duplicate policy `p` for all parts: the parts are accepted one by
    one exactly when the whole file is, and the processed events are the same -/
theorem chain_policy_uniform (p : DupPolicy) (parts : List Part) (h : ∀ pt ∈ parts, pt.1.policy = p) :
    chainPolicy parts = applyPolicyAll p (allEvents parts) :=
  chainPolicy_uniform p parts h

/-- **chains of ANY length, ANY learner per part.**  `parts` is the list of
    (learner, events) as the harness runs them (`chainRun`: first call without
    weights, every later call with what the previous call returned, converted
    as the learner needs it).  Preconditions — all on the INPUTS:
    * `hp`: every part is accepted by the duplicate policy of its learner
      (otherwise the real call raises `ValueError`); `es'` is the concatenation
      of the policy-processed parts;
    * `hl`: every `ndl.ndl` part has `events_per_temporary_file ≥ 2` and
      `n_outcomes_per_job ≥ 1` (otherwise `ValueError`);
    * `hfit`: the whole file fits the 32-bit chunk format (events, distinct
      cues, distinct outcomes, cues/outcomes per event < 2^32).
    Conclusion: the chain succeeds, and the weight function its final state
    denotes (dict or matrix, 0 off the labels) is the Rescorla–Wagner
    specification from all-zero weights over `es'`, at every pair of names. -/
theorem chain_any_length (alpha β₁ β₂ lam : R) (parts : List Part) (es' : List (Event String String))
    (hp : chainPolicy parts = some es') (hl : ∀ pt ∈ parts, pt.1.ChunksOK)
    (hfit : Fits32 (allEvents parts)) :
    ∃ s, chainRun Generated.pyMagic Generated.pyVersion alpha β₁ β₂ lam none parts = .ok s ∧
      ∀ o c, stateGet s o c = rwLearn (fun _ => alpha) β₁ β₂ lam (fun _ _ => (0 : R)) es' o c :=
  Pyndl.chain_any_length _ _ (by decide) (by decide) alpha β₁ β₂ lam parts es' hp hl hfit

/-- the same from GIVEN initial weights `s` (nothing, a dict or a matrix) whose
    labels / keys are duplicate free (matrix) names from the lists `C`, `O`;
    the size conditions are then: `C`, `O` have < 2^32 distinct names, and
    every part has names from `C`, `O` and 32-bit counts (`PartFits`). -/
theorem chain_any_length_from (C O : List String) (hC : (dedupKeepFirst C).length < 4294967296)
    (hO : (dedupKeepFirst O).length < 4294967296) (alpha β₁ β₂ lam : R)
    (parts : List Part) (s : Option (ChainState R)) (hs : StateOK C O s)
    (es' : List (Event String String)) (hp : chainPolicy parts = some es')
    (hl : ∀ pt ∈ parts, pt.1.ChunksOK) (hfit : ∀ pt ∈ parts, PartFits C O pt.2) :
    ∃ s', chainRun Generated.pyMagic Generated.pyVersion alpha β₁ β₂ lam s parts = .ok s' ∧
      ∀ o c, stateGet s' o c = rwLearn (fun _ => alpha) β₁ β₂ lam (stateGet s) es' o c :=
  Pyndl.chain_any_length_stepwise _ _ (by decide) (by decide) C O hC hO alpha β₁ β₂ lam parts s hs es' hp hl hfit

/-- **the chain equals ONE call over the whole file** — of `ndl.ndl` (any
    configuration `cfg` with legal chunk sizes) and of `dict_ndl` — when all
    parts and the single call use the duplicate policy `p`.  Preconditions as
    in `chain_any_length`; that the single call accepts the whole file follows
    from the parts being accepted (`chain_policy_uniform`). -/
theorem chain_eq_single_call (alpha β₁ β₂ lam : R) (parts : List Part) (p : DupPolicy)
    (hpol : ∀ pt ∈ parts, pt.1.policy = p)
    (es' : List (Event String String)) (hp : chainPolicy parts = some es')
    (hl : ∀ pt ∈ parts, pt.1.ChunksOK) (hfit : Fits32 (allEvents parts))
    (cfg : NdlCfg) (hcp : cfg.policy = p) (hper : 2 ≤ cfg.perFile) (hjob : 1 ≤ cfg.perJob) :
    ∃ s w W, chainRun Generated.pyMagic Generated.pyVersion alpha β₁ β₂ lam none parts = .ok s ∧
      ndlModel Generated.pyMagic Generated.pyVersion cfg alpha β₁ β₂ lam none (allEvents parts)
        = .ok (w, (allEvents parts).length) ∧
      dictNdl p (fun _ => alpha) β₁ β₂ lam [] (allEvents parts) = some W ∧
      ∀ o c, stateGet s o c = w.get o c ∧ stateGet s o c = wdAbs W o c :=
  Pyndl.chain_eq_single_call _ _ (by decide) (by decide) alpha β₁ β₂ lam parts p hpol es' hp hl hfit cfg hcp hper hjob

/-- **the split does not matter**: two splits of the same file — different
    numbers of parts, cut positions and learners per part —, all with the
    duplicate policy `p` which accepts the file, end in the same weight function -/
theorem chain_split_irrelevant (alpha β₁ β₂ lam : R) (parts₁ parts₂ : List Part) (p : DupPolicy)
    (hpol₁ : ∀ pt ∈ parts₁, pt.1.policy = p) (hpol₂ : ∀ pt ∈ parts₂, pt.1.policy = p)
    (hsame : allEvents parts₁ = allEvents parts₂)
    (es' : List (Event String String)) (hacc : applyPolicyAll p (allEvents parts₁) = some es')
    (hl₁ : ∀ pt ∈ parts₁, pt.1.ChunksOK) (hl₂ : ∀ pt ∈ parts₂, pt.1.ChunksOK)
    (hfit : Fits32 (allEvents parts₁)) :
    ∃ s₁ s₂, chainRun Generated.pyMagic Generated.pyVersion alpha β₁ β₂ lam none parts₁ = .ok s₁ ∧
      chainRun Generated.pyMagic Generated.pyVersion alpha β₁ β₂ lam none parts₂ = .ok s₂ ∧
      ∀ o c, (stateGet s₁ o c : R) = stateGet s₂ o c :=
  Pyndl.chain_split_irrelevant _ _ (by decide) (by decide) alpha β₁ β₂ lam parts₁ parts₂ p hpol₁ hpol₂ hsame
    es' hacc hl₁ hl₂ hfit

/-! non-vacuity: a chain of FOUR parts over ℤ with four different learners —
`dict_ndl` returning a dict, `ndl.ndl` openmp (dict → matrix hand-over, new
outcome `y`), `dict_ndl` with a DataArray in and out (matrix → dict hand-over,
new cue `c`), `ndl.ndl` threading with two chunk files (new cue `d`, new
outcome `z`) -/

def exParts : List Part :=
  [ (.dict .error false, [⟨["a", "b"], ["x"]⟩]),
    (.ndl ⟨.error, .openmp, 1, 2⟩, [⟨["b"], ["x", "y"]⟩]),
    (.dict .error true, [⟨["a", "c"], ["y"]⟩]),
    (.ndl ⟨.error, .threading, 2, 2⟩, [⟨["c", "b"], ["x"]⟩, ⟨["a"], ["y"]⟩, ⟨["d"], ["y", "z"]⟩]) ]

/-- a different split of the same file: two parts, other learners -/
def exParts' : List Part :=
  [ (.ndl ⟨.error, .threading, 1, 3⟩, [⟨["a", "b"], ["x"]⟩, ⟨["b"], ["x", "y"]⟩, ⟨["a", "c"], ["y"]⟩, ⟨["c", "b"], ["x"]⟩]),
    (.dict .error false, [⟨["a"], ["y"]⟩, ⟨["d"], ["y", "z"]⟩]) ]

def showState : Option (ChainState ℤ) → Option (Bool × List String × List String × Array ℤ)
  | some (.matrix w) => some (true, w.outcomes, w.cues, w.vals)
  | _ => none

/-- the model runs: the states after 1, 2, 3 and all 4 calls -/
example :
    (match chainRun Generated.pyMagic Generated.pyVersion (1 : ℤ) 2 3 5 none (exParts.take 1) with
     | .ok (some (.dict W)) => some W | _ => none) = some [("x", [("a", 10), ("b", 10)])] ∧
    (match chainRun Generated.pyMagic Generated.pyVersion (1 : ℤ) 2 3 5 none (exParts.take 2) with
     | .ok s => showState s | .error _ => none) = some (true, ["x", "y"], ["a", "b"], #[10, 0,  0, 10]) ∧
    (match chainRun Generated.pyMagic Generated.pyVersion (1 : ℤ) 2 3 5 none (exParts.take 3) with
     | .ok s => showState s | .error _ => none)
      = some (true, ["x", "y"], ["a", "b", "c"], #[-20, 0, -30,  10, 10, 10]) ∧
    (match chainRun Generated.pyMagic Generated.pyVersion (1 : ℤ) 2 3 5 none exParts with
     | .ok s => showState s | .error _ => none)
      = some (true, ["x", "y", "z"], ["a", "b", "c", "d"], #[40, 70, 40, 0,  0, -50, -50, 10,  0, 0, 0, 10]) :=
  ⟨by decide +kernel, by decide +kernel, by decide +kernel, by decide +kernel⟩

/-- … and these are the numbers of the specification over the whole file -/
example :
    (["x", "y", "z"].map fun o => ["a", "b", "c", "d"].map fun c =>
      rwLearn (fun _ => (1 : ℤ)) 2 3 5 (fun _ _ => 0) (allEvents exParts) o c)
      = [[40, 70, 40, 0], [0, -50, -50, 10], [0, 0, 0, 10]] := by
  decide +kernel

/-- the preconditions of `chain_any_length` / `chain_eq_single_call` are jointly
    satisfiable: the example instantiates them completely -/
example :
    ∃ s w W, chainRun Generated.pyMagic Generated.pyVersion (1 : ℤ) 2 3 5 none exParts = .ok s ∧
      ndlModel Generated.pyMagic Generated.pyVersion ⟨.error, .openmp, 1, 2⟩ (1 : ℤ) 2 3 5 none (allEvents exParts)
        = .ok (w, (allEvents exParts).length) ∧
      dictNdl .error (fun _ => (1 : ℤ)) 2 3 5 [] (allEvents exParts) = some W ∧
      ∀ o c, stateGet s o c = w.get o c ∧ stateGet s o c = wdAbs W o c :=
  chain_eq_single_call 1 2 3 5 exParts .error (by decide) (allEvents exParts) (by decide +kernel) (by decide)
    ⟨by decide +kernel, by decide +kernel, by decide +kernel, by decide +kernel⟩
    ⟨.error, .openmp, 1, 2⟩ rfl (by decide) (by decide)

/-- … and so are those of `chain_split_irrelevant` (4 parts vs 2 parts) -/
example :
    ∃ s₁ s₂, chainRun Generated.pyMagic Generated.pyVersion (1 : ℤ) 2 3 5 none exParts = .ok s₁ ∧
      chainRun Generated.pyMagic Generated.pyVersion (1 : ℤ) 2 3 5 none exParts' = .ok s₂ ∧
      ∀ o c, stateGet s₁ o c = stateGet s₂ o c :=
  chain_split_irrelevant 1 2 3 5 exParts exParts' .error (by decide) (by decide) (by decide +kernel)
    (allEvents exParts) (by decide +kernel) (by decide) (by decide)
    ⟨by decide +kernel, by decide +kernel, by decide +kernel, by decide +kernel⟩

end Pyndl.C03
