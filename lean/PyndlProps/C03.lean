/-
  C03 — Continuing from earlier weights equals learning everything in one pass;
  weights handed to a learner are never modified.
-/
import PyndlProofs.Continue
import PyndlProofs.Dict
import PyndlProofs.NdlContinue
import PyndlProofs.DictArray

namespace Pyndl.C03
open Pyndl List

variable {R : Type} [CommRing R]
variable {ι κ : Type} [DecidableEq ι] [DecidableEq κ]

/-- learning `xs ++ ys` = learning `xs`, then continuing with `ys` from the result -/
theorem learn_append (α : ι → R) (β₁ β₂ lam : R) (W : κ → ι → R) (xs ys : List (Event ι κ)) :
    rwLearn α β₁ β₂ lam W (xs ++ ys) = rwLearn α β₁ β₂ lam (rwLearn α β₁ β₂ lam W xs) ys :=
  rwLearn_append α β₁ β₂ lam W xs ys

/-- **any k-way split at any positions**: chaining the specification through
    the weights equals the single pass over the concatenation -/
theorem chain_eq_single (α : ι → R) (β₁ β₂ lam : R) (W : κ → ι → R) (pieces : List (List (Event ι κ))) :
    pieces.foldl (rwLearn α β₁ β₂ lam) W = rwLearn α β₁ β₂ lam W pieces.flatten :=
  chain_rwLearn α β₁ β₂ lam W pieces

/-- `dict_ndl` continued from ANY weight dict is the specification continued
    from the function that dict denotes (so a chain of `dict_ndl` calls through
    `weights=` is a chain of the specification) -/
theorem dict_continue (p : DupPolicy) (α : ι → R) (β₁ β₂ lam : R) (W₀ : WDict ι κ R)
    (es es' : List (Event ι κ)) (hp : applyPolicyAll p es = some es') :
    ∃ W, dictNdl p α β₁ β₂ lam W₀ es = some W ∧ wdAbs W = rwLearn α β₁ β₂ lam (wdAbs W₀) es' :=
  Pyndl.dictNdl_eq_spec p α β₁ β₂ lam W₀ es es' hp

/-- two `dict_ndl` calls chained through the returned dict = one call -/
theorem dict_chain_two (p : DupPolicy) (α : ι → R) (β₁ β₂ lam : R) (W₀ : WDict ι κ R)
    (xs ys xs' ys' : List (Event ι κ))
    (hx : applyPolicyAll p xs = some xs') (hy : applyPolicyAll p ys = some ys') :
    ∃ W₁ W₂, dictNdl p α β₁ β₂ lam W₀ xs = some W₁ ∧ dictNdl p α β₁ β₂ lam W₁ ys = some W₂ ∧
      wdAbs W₂ = rwLearn α β₁ β₂ lam (wdAbs W₀) (xs' ++ ys') := by
  obtain ⟨W₁, h1, a1⟩ := Pyndl.dictNdl_eq_spec p α β₁ β₂ lam W₀ xs xs' hx
  obtain ⟨W₂, h2, a2⟩ := Pyndl.dictNdl_eq_spec p α β₁ β₂ lam W₁ ys ys' hy
  exact ⟨W₁, W₂, h1, h2, by rw [a2, a1, rwLearn_append]⟩

/-- DataArray hand-over into `dict_ndl`: the dict built from the labelled
    matrix denotes the same weights -/
theorem dict_from_data_array (w : LW R) (o c : String) : wdAbs (dictFromLW w) o c = w.get o c :=
  dictFromLW_abs w o c

/-- dict hand-over into `ndl.ndl` (through `ndl.data_array`): the labelled matrix
    built from a weight dict denotes the same weights, zeros filled in -/
theorem data_array_from_dict (W : WDict String String R) (o c : String) :
    (lwFromDict W).get o c = wdAbs W o c :=
  lwFromDict_get W o c

/-- both hand-over conversions composed are the identity on the denoted weights -/
theorem dict_roundtrip (w : LW R) (o c : String) :
    (lwFromDict (dictFromLW w)).get o c = w.get o c := by
  rw [lwFromDict_get, dictFromLW_abs]

/-- **new cues/outcomes in later parts**: `ndl.ndl` extends the given matrix by
    zero rows/columns for the new labels — in any order — without changing the
    weight function it denotes -/
theorem abs_extend (w : LW R) (cuesNew outsNew : List String) (o c : String) :
    (extendLW w cuesNew outsNew).get o c = w.get o c :=
  extendLW_get w cuesNew outsNew o c

/-- **`ndl.ndl` continued from given weights = the specification continued from
    the weight function they denote** — whole model (count, merged id maps with
    new labels appended, zero extension, chunks, kernels per part, labels), every
    method, chunk sizes, policy-accepted events, within the 32-bit limits. -/
theorem ndl_continue (cfg : NdlCfg) (hper : 2 ≤ cfg.perFile) (hjob : 1 ≤ cfg.perJob) (alpha β₁ β₂ lam : R)
    (w : LW R) (es es' : List (Event String String))
    (hp : applyPolicyAll cfg.policy es = some es') (hfit : Fits32With w es) :
    ∃ r, ndlModel Generated.pyMagic Generated.pyVersion cfg alpha β₁ β₂ lam (some w) es = .ok (r, es.length) ∧
      ∀ o c, r.get o c = rwLearn (fun _ => alpha) β₁ β₂ lam (fun o c => w.get o c) es' o c :=
  ndlModel_continue_eq_spec _ _ (by decide) (by decide) cfg hper hjob alpha β₁ β₂ lam w es es' hp hfit

/-- **two chained `ndl.ndl` calls = one call over the concatenation** (possibly
    different methods, thread counts and chunk sizes in the two calls, later
    part with new cues/outcomes) -/
theorem ndl_chain_two (cfg₁ cfg₂ : NdlCfg) (h1 : 2 ≤ cfg₁.perFile) (j1 : 1 ≤ cfg₁.perJob)
    (h2 : 2 ≤ cfg₂.perFile) (j2 : 1 ≤ cfg₂.perJob) (alpha β₁ β₂ lam : R)
    (xs xs' ys ys' : List (Event String String))
    (hx : applyPolicyAll cfg₁.policy xs = some xs') (hy : applyPolicyAll cfg₂.policy ys = some ys')
    (fx : Fits32 xs)
    (fy : ∀ w : LW R, Fits32With w ys) :
    ∃ w₁ w₂, ndlModel Generated.pyMagic Generated.pyVersion cfg₁ alpha β₁ β₂ lam none xs = .ok (w₁, xs.length) ∧
      ndlModel Generated.pyMagic Generated.pyVersion cfg₂ alpha β₁ β₂ lam (some w₁) ys = .ok (w₂, ys.length) ∧
      ∀ o c, w₂.get o c = rwLearn (fun _ => alpha) β₁ β₂ lam (fun _ _ => (0 : R)) (xs' ++ ys') o c := by
  obtain ⟨w₁, e1, a1⟩ := ndlModel_eq_spec Generated.pyMagic Generated.pyVersion (by decide) (by decide)
    cfg₁ h1 j1 alpha β₁ β₂ lam xs xs' hx fx
  obtain ⟨w₂, e2, a2⟩ := ndlModel_continue_eq_spec Generated.pyMagic Generated.pyVersion (by decide) (by decide)
    cfg₂ h2 j2 alpha β₁ β₂ lam w₁ ys ys' hy (fy w₁)
  refine ⟨w₁, w₂, e1, e2, ?_⟩
  intro o c
  rw [a2, rwLearn_append]
  congr 1
  funext o c
  exact a1 o c

/-- **inputs are not modified** — in the model every learner is a pure function
    of its `weights` argument, so the statement is the trivial one below. The
    real content of the clause (no aliasing inside numpy/xarray/deepcopy) cannot
    be expressed by a functional model and is decided only by the differential
    run (snapshot of values, coords and attrs of every object handed in, before
    and after each call and at the end of the chain).  partial: see DESIGN §6 C03. -/
theorem input_preserved_partial (p : DupPolicy) (α : ι → R) (β₁ β₂ lam : R) (W₀ : WDict ι κ R)
    (es : List (Event ι κ)) : (fun _ : Option (WDict ι κ R) => W₀) (dictNdl p α β₁ β₂ lam W₀ es) = W₀ := rfl

/-! non-vacuity: a 3-way split in ℤ where the later pieces introduce a new cue
and a new outcome -/
example :
    let p1 : List (Event Nat Nat) := [⟨[0, 1], [10]⟩]
    let p2 : List (Event Nat Nat) := [⟨[2], [10, 11]⟩]
    let p3 : List (Event Nat Nat) := [⟨[0, 2], [11]⟩]
    let W : Nat → Nat → ℤ := fun _ _ => 0
    [p1, p2, p3].foldl (rwLearn (fun _ => (1:ℤ)) 2 3 5) W 11 0
      = rwLearn (fun _ => (1:ℤ)) 2 3 5 W (p1 ++ p2 ++ p3) 11 0
    ∧ rwLearn (fun _ => (1:ℤ)) 2 3 5 W (p1 ++ p2 ++ p3) 11 0 ≠ 0 := by
  decide +kernel

end Pyndl.C03
