/-
  C03 — Continuing from earlier weights equals learning everything in one pass;
  weights handed to a learner are never modified.

  What is proved
  * about the SPECIFICATION `rwLearn`: `learn_append`, `chain_eq_single` (any
    k-way split at any positions);
  * about the MODELS of the real code, one call: `dict_continue` (`dict_ndl`
    from any dict), `ndl_continue` (`ndl.ndl` from any labelled matrix, new
    labels appended, within the 32-bit limits), the hand-over conversions
    `dict_from_data_array`, `data_array_from_dict`, `dict_roundtrip`,
    `abs_extend`; two calls: `dict_chain_two`, `ndl_chain_two` (restated: the
    earlier version quantified `∀ w, Fits32With w ys`, which NO `ys` satisfies —
    it was vacuous; now one a-priori condition `Fits32 (xs ++ ys)`);
  * every statement about `ndl.ndl` is about the CALL `ndlCall` (what the driver
    evaluates): an `ndl.ndl` part with ZERO events raises `IOError`
    (`ndl_call_empty_part_raises`, `chain_empty_ndl_part_raises`), so the
    success theorems carry "every `ndl.ndl` part has an event" (`hne`);
  * every statement about `ndl.ndl` carries `FileEvents` for the events of the
    `ndl.ndl` parts (`hfile`: every event has ≥ 1 cue and ≥ 1 outcome — what an
    event file can hold; `ndl.ndl` reads a path or the spool file of a
    generator, where an empty field comes back as the name `""`; C01 header).
    Call forms (harness/impl.py `op_chain`: `form` ∈ path, pathobj, list,
    generator): an `ndl.ndl` part is the call on a path / path object /
    generator; a `dict_ndl` part (`dictNdl` on the list, NO normalisation) is
    the call on an in-memory list or generator for ANY events, and on a path /
    path object when the part's events are `FileEvents` (then the file reads
    back as the list itself).  The theorems that compare with ONE `ndl.ndl`
    call over the whole file (`chain_eq_single_call`, `chain_split_irrelevant`)
    need `FileEvents` of the whole file;
  * chunking arguments: `CfgOK` = `2 ≤ events_per_temporary_file < 2³²`,
    `1 ≤ n_outcomes_per_job`, OpenMP: `n_outcomes_per_job < 2³²` and
    `⌈#outcome labels / n_outcomes_per_job⌉ · n_outcomes_per_job < 2³²` (no
    wrap-around of the part bounds; outside the first three: `ValueError` /
    `OverflowError` / `ZeroDivisionError`, see C01 `ndl_chunk_args_raise`,
    `ndl_continue_chunk_args_raise`);
  * `weights=` with DUPLICATE labels is outside the model (it reads a label at
    its first position, Python's `OrderedDict` at its last): `ndl_continue`
    carries `Nodup` on the given labels; in chains it is an invariant;
  * about the MODELS, chains of ARBITRARY length with a DIFFERENT learner per
    part (PyndlProofs/Chain.lean; induction over the list of parts):
      - `chainRun` models harness/impl.py `op_chain`: the state between calls
        is `None`, a weight dict or a labelled matrix; a part is run by
        `dict_ndl` (dict result or `make_data_array=True`) or by `ndl.ndl`
        (threading/openmp, any chunk sizes); a matrix handed to `dict_ndl` is
        copied cell by cell into a dict (`dictFromLW`, ndl.py:421-428), a dict
        handed to `ndl.ndl` goes through `ndl.data_array` (`lwFromDict`, as
        the harness does; `ndl.ndl` itself only accepts a DataArray);
      - `chain_any_length`: every part accepted by its learner's duplicate
        policy, legal chunk sizes for the `ndl.ndl` parts (and an event in each
        of them), and ONE a-priori
        size condition on the inputs — the whole file fits the 32-bit limits
        (`Fits32 (allEvents parts)`: number of events, of distinct cue names, of
        distinct outcome names, cues/outcomes per event, all < 2^32) — imply
        that the chain succeeds and its final state denotes
        `rwLearn` from all-zero weights over the policy-processed
        concatenation, at EVERY pair of names.  The conditions `Fits32With w es`
        needed by `ndl_continue` for each intermediate matrix `w` are derived
        from an invariant (`StateOK`: labels / dict keys of the state are
        duplicate-free names occurring in the events of the chain), for which
        it is proved that `ndl.ndl` returns old labels ++ new names
        (`ndlModel_labels`) and `dict_ndl` creates no keys but names of its
        events (`dictNdl_keys`);
      - `chain_any_length_from`: the same from any given initial weights
        (state satisfying the invariant), size conditions per part;
      - `chain_eq_single_call`: the chain = ONE `ndl.ndl` call = ONE `dict_ndl`
        call over the whole file (same duplicate policy everywhere; that the
        whole file is accepted follows from the parts being accepted:
        `policy_distributes`, `chain_policy_uniform`);
      - `chain_split_irrelevant`: two splits / learner assignments of the same
        file end in the same weight function.
  What is partial
  * partial: "inputs are not modified" — `input_preserved_partial` is trivial
    in a functional model; aliasing inside numpy/xarray/deepcopy is decided
    only by the differential run (snapshots before/after every call).
  * partial: alpha is one constant for all parts and all cues (as `ndl.ndl`
    requires; `dict_ndl` alone also takes a per-cue dict: `dict_continue`).
  * partial: Widrow-Hoff chains (`wh.wh`) are not part of `chainRun`
    (treated in C08).
  * the label ORDER `ndl.ndl` produces for new names (`list(set(cues) -
    set(old_cues))`, ndl.py:175-178: hash order) is first occurrence in
    `ndlModel (some w)`; that the weights, read through the labels, do not
    depend on it — nor on the order of the ids inside the events — is
    `ndl_continue_label_order_irrelevant` (one continued call, any permutation
    of the appended labels; from scratch: C01 `ndl_label_order_irrelevant`).
    partial: in `chainRun` the order stays fixed from call to call (the chain
    theorems read the final state through its labels; a chain whose
    intermediate matrices carry the appended labels in other orders is not
    modelled as a chain, only call by call through the theorem above).
-/
import PyndlProofs.Continue
import PyndlProofs.Dict
import PyndlProofs.NdlContinue
import PyndlProofs.DictArray
import PyndlProofs.Chain
import PyndlProofs.NdlCall
import PyndlProofs.FileEvents
import PyndlProofs.LabelOrder
import PyndlModel.Generated

set_option linter.unusedVariables false

namespace Pyndl.C03
open Pyndl List

variable {R : Type} [CommRing R]
variable {ι κ : Type} [DecidableEq ι] [DecidableEq κ]

/-- learning `xs ++ ys` = learning `xs`, then continuing with `ys` from the result -/
theorem learn_append (α : ι → R) (β₁ β₂ lam : R) (W : κ → ι → R) (xs ys : List (Event ι κ)) :
    rwLearn α β₁ β₂ lam W (xs ++ ys) = rwLearn α β₁ β₂ lam (rwLearn α β₁ β₂ lam W xs) ys :=
  rwLearn_append α β₁ β₂ lam W xs ys

/-- **any k-way split at any positions**: chaining the specification through
    the weights equals the single pass over the concatenation -/
theorem chain_eq_single (α : ι → R) (β₁ β₂ lam : R) (W : κ → ι → R) (pieces : List (List (Event ι κ))) :
    pieces.foldl (rwLearn α β₁ β₂ lam) W = rwLearn α β₁ β₂ lam W pieces.flatten :=
  chain_rwLearn α β₁ β₂ lam W pieces

/-- (the same statement as C01 `dictNdl_eq_spec`, read as a continuation)
    `dict_ndl` continued from ANY weight dict is the specification continued
    from the function that dict denotes (so a chain of `dict_ndl` calls through
    `weights=` is a chain of the specification) -/
theorem dict_continue (p : DupPolicy) (α : ι → R) (β₁ β₂ lam : R) (W₀ : WDict ι κ R)
    (es es' : List (Event ι κ)) (hp : applyPolicyAll p es = some es') :
    ∃ W, dictNdl p α β₁ β₂ lam W₀ es = some W ∧ wdAbs W = rwLearn α β₁ β₂ lam (wdAbs W₀) es' :=
  Pyndl.dictNdl_eq_spec p α β₁ β₂ lam W₀ es es' hp

/-- two `dict_ndl` calls chained through the returned dict = one call -/
theorem dict_chain_two (p : DupPolicy) (α : ι → R) (β₁ β₂ lam : R) (W₀ : WDict ι κ R)
    (xs ys xs' ys' : List (Event ι κ))
    (hx : applyPolicyAll p xs = some xs') (hy : applyPolicyAll p ys = some ys') :
    ∃ W₁ W₂, dictNdl p α β₁ β₂ lam W₀ xs = some W₁ ∧ dictNdl p α β₁ β₂ lam W₁ ys = some W₂ ∧
      wdAbs W₂ = rwLearn α β₁ β₂ lam (wdAbs W₀) (xs' ++ ys') := by
  obtain ⟨W₁, h1, a1⟩ := Pyndl.dictNdl_eq_spec p α β₁ β₂ lam W₀ xs xs' hx
  obtain ⟨W₂, h2, a2⟩ := Pyndl.dictNdl_eq_spec p α β₁ β₂ lam W₁ ys ys' hy
  exact ⟨W₁, W₂, h1, h2, by rw [a2, a1, rwLearn_append]⟩

/-- DataArray hand-over into `dict_ndl`: the dict built from the labelled
    matrix denotes the same weights -/
theorem dict_from_data_array (w : LW R) (o c : String) : wdAbs (dictFromLW w) o c = w.get o c :=
  dictFromLW_abs w o c

/-- dict hand-over into `ndl.ndl` (through `ndl.data_array`): the labelled matrix
    built from a weight dict denotes the same weights, zeros filled in -/
theorem data_array_from_dict (W : WDict String String R) (o c : String) :
    (lwFromDict W).get o c = wdAbs W o c :=
  lwFromDict_get W o c

/-- both hand-over conversions composed are the identity on the denoted weights -/
theorem dict_roundtrip (w : LW R) (o c : String) :
    (lwFromDict (dictFromLW w)).get o c = w.get o c := by
  rw [lwFromDict_get, dictFromLW_abs]

/-- **new cues/outcomes in later parts**: `ndl.ndl` extends the given matrix by
    zero rows/columns for the new labels — in any order — without changing the
    weight function it denotes -/
theorem abs_extend (w : LW R) (cuesNew outsNew : List String) (o c : String) :
    (extendLW w cuesNew outsNew).get o c = w.get o c :=
  extendLW_get w cuesNew outsNew o c

/-- **`ndl.ndl` continued from given weights = the specification continued from
    the weight function they denote** — whole model (count, merged id maps with
    new labels appended, zero extension, chunks, kernels per part, labels), every
    method, legal chunking arguments (`CfgOK`, w.r.t. the merged outcome labels),
    policy-accepted events, within the 32-bit limits.
    `hndc`, `hndo`: the given labels are duplicate free.  The PROOF does not use
    them (the model reads a label at its first position, consistently); they
    delimit where model = code: `ndl.ndl` builds `OrderedDict((label, ii) …)`
    (ndl.py:183-184), which keeps the LAST position of a repeated label.
    `hfile`: the events are what an event file can hold (likewise unused by the
    proof; without it the code sees `es.map fileNorm`). -/
theorem ndl_continue (cfg : NdlCfg) (alpha β₁ β₂ lam : R)
    (w : LW R) (hndc : w.cues.Nodup) (hndo : w.outcomes.Nodup) (es es' : List (Event String String))
    (hfile : FileEvents es)
    (hcfg : CfgOK cfg (mergedOutcomes w es).length)
    (hp : applyPolicyAll cfg.policy es = some es') (hfit : Fits32With w es) :
    ∃ r, ndlModel Generated.pyMagic Generated.pyVersion cfg alpha β₁ β₂ lam (some w) es = .ok (r, es.length) ∧
      ∀ o c, r.get o c = rwLearn (fun _ => alpha) β₁ β₂ lam (fun o c => w.get o c) es' o c :=
  ndlModel_continue_eq_spec _ _ (by decide) (by decide) cfg alpha β₁ β₂ lam w es es' hcfg hp hfit

/-- the same for the CALL (`ndlCall` = `ndlModel` plus the behaviour on zero
    events, the function the correspondence run evaluates): every NON-EMPTY part -/
theorem ndl_call_continue (cfg : NdlCfg) (alpha β₁ β₂ lam : R)
    (w : LW R) (hndc : w.cues.Nodup) (hndo : w.outcomes.Nodup)
    (es es' : List (Event String String)) (hne : es ≠ []) (hfile : FileEvents es)
    (hcfg : CfgOK cfg (mergedOutcomes w es).length)
    (hp : applyPolicyAll cfg.policy es = some es') (hfit : Fits32With w es) :
    ∃ r, ndlCall Generated.pyMagic Generated.pyVersion cfg alpha β₁ β₂ lam (some w) es = .ok (r, es.length) ∧
      ∀ o c, r.get o c = rwLearn (fun _ => alpha) β₁ β₂ lam (fun o c => w.get o c) es' o c :=
  ndlCall_continue_eq_spec _ _ (by decide) (by decide) cfg alpha β₁ β₂ lam w es es' hne hcfg hp hfit

/-- non-vacuity of `ndl_call_continue`: weights with labels `x` / `a, b`, a part
    that brings the new outcome `y`; OpenMP, one outcome per job, two events per
    file — all hypotheses instantiated, the theorem itself applied -/
example :
    ∃ r, ndlCall Generated.pyMagic Generated.pyVersion ⟨.error, .openmp, 1, 2⟩ (1 : ℤ) 2 3 5
        (some ⟨["x"], ["a", "b"], #[10, 10]⟩) [⟨["b"], ["x", "y"]⟩, ⟨["a", "c"], ["y"]⟩] = .ok (r, 2) ∧
      ∀ o c, r.get o c = rwLearn (fun _ => (1 : ℤ)) 2 3 5
        (fun o c => (⟨["x"], ["a", "b"], #[10, 10]⟩ : LW ℤ).get o c)
        [⟨["b"], ["x", "y"]⟩, ⟨["a", "c"], ["y"]⟩] o c :=
  ndl_call_continue ⟨.error, .openmp, 1, 2⟩ 1 2 3 5 ⟨["x"], ["a", "b"], #[10, 10]⟩ (by decide) (by decide)
    [⟨["b"], ["x", "y"]⟩, ⟨["a", "c"], ["y"]⟩] _ (by decide) (by decide) (by decide +kernel) (by decide +kernel)
    ⟨by decide +kernel, by decide +kernel, by decide +kernel, by decide +kernel⟩

/-- `ndl_continue` (the model without the zero-event rule) applied: threading, two
    outcomes per job, policy `True` removing a repeated cue; the given weights
    have a cue `q` the events never mention (its column comes back unchanged) -/
example :
    ∃ r, ndlModel Generated.pyMagic Generated.pyVersion ⟨.dedup, .threading, 2, 2⟩ (1 : ℤ) 2 3 5
        (some ⟨["x"], ["q", "a"], #[4, 10]⟩) [⟨["a", "a"], ["x", "y"]⟩, ⟨["c"], [""]⟩, ⟨["a"], ["y"]⟩] = .ok (r, 3) ∧
      ∀ o c, r.get o c = rwLearn (fun _ => (1 : ℤ)) 2 3 5
        (fun o c => (⟨["x"], ["q", "a"], #[4, 10]⟩ : LW ℤ).get o c)
        [⟨["a"], ["x", "y"]⟩, ⟨["c"], [""]⟩, ⟨["a"], ["y"]⟩] o c :=
  ndl_continue ⟨.dedup, .threading, 2, 2⟩ 1 2 3 5 ⟨["x"], ["q", "a"], #[4, 10]⟩ (by decide) (by decide)
    [⟨["a", "a"], ["x", "y"]⟩, ⟨["c"], [""]⟩, ⟨["a"], ["y"]⟩] _ (by decide) (by decide +kernel) (by decide +kernel)
    ⟨by decide +kernel, by decide +kernel, by decide +kernel, by decide +kernel⟩

/-- … and the result is not trivial: row `x` moved, row `y` is new -/
example :
    (match ndlCall Generated.pyMagic Generated.pyVersion ⟨.error, .openmp, 1, 2⟩ (1 : ℤ) 2 3 5
        (some ⟨["x"], ["a", "b"], #[10, 10]⟩) [⟨["b"], ["x", "y"]⟩, ⟨["a", "c"], ["y"]⟩] with
     | .ok (w, k) => some (w.outcomes, w.cues, w.vals, k) | .error _ => none)
      = some (["x", "y"], ["a", "b", "c"], #[-20, 0, -30,  10, 10, 10], 2) := by decide +kernel

/-- **with `weights=`, the order in which `ndl.ndl` appends the NEW labels and the
    order of the ids inside the events are irrelevant.**  The code appends
    `list(set(cues) - set(old_cues))` — a `set` difference, i.e. hash order —
    where `ndlModel (some w)` appends the new names in order of first occurrence.
    `ndlModelContWith` takes the appended lists `newCues`, `newOuts` and a
    per-event reordering as parameters (`ndlModel (some w)` is one instance:
    `ndlModelContWith_first_occurrence`).  For ANY permutations of the new names
    and any `reorder`, under the hypotheses of `ndl_continue`, both succeed with
    the same count, the generalised result is labelled `w.cues ++ newCues` /
    `w.outcomes ++ newOuts`, and the two denote the same weight at EVERY pair of
    names. -/
theorem ndl_continue_label_order_irrelevant (reorder : Event Nat Nat → Event Nat Nat)
    (hre : ∀ e, (reorder e).cues ~ e.cues ∧ (reorder e).outcomes ~ e.outcomes)
    (cfg : NdlCfg) (alpha β₁ β₂ lam : R)
    (w : LW R) (hndc : w.cues.Nodup) (hndo : w.outcomes.Nodup) (es es' : List (Event String String))
    (hfile : FileEvents es) (newCues newOuts : List String)
    (hpc : newCues ~ (countNames es).1.filter (fun c => !w.cues.contains c))
    (hpo : newOuts ~ (countNames es).2.filter (fun o => !w.outcomes.contains o))
    (hcfg : CfgOK cfg (mergedOutcomes w es).length)
    (hp : applyPolicyAll cfg.policy es = some es') (hfit : Fits32With w es) :
    ∃ r r₀, ndlModelContWith reorder Generated.pyMagic Generated.pyVersion cfg alpha β₁ β₂ lam w newCues newOuts es
        = .ok (r, es.length) ∧
      ndlModel Generated.pyMagic Generated.pyVersion cfg alpha β₁ β₂ lam (some w) es = .ok (r₀, es.length) ∧
      r.cues = w.cues ++ newCues ∧ r.outcomes = w.outcomes ++ newOuts ∧
      ∀ o c, r.get o c = r₀.get o c :=
  ndlModelContWith_order_irrelevant reorder hre _ _ (by decide) (by decide) cfg alpha β₁ β₂ lam w es es'
    newCues newOuts hpc hpo hcfg hp hfit

/-- `ndl_continue_label_order_irrelevant` ITSELF applied: given labels `x` / `a, b`;
    the events bring the new cues `c, d` and the new outcomes `y, z`; they are
    appended as `d, c` and `z, y`, the ids of every event are reversed -/
example :
    ∃ r r₀, ndlModelContWith (fun e => ⟨e.cues.reverse, e.outcomes.reverse⟩) Generated.pyMagic Generated.pyVersion
        ⟨.error, .openmp, 1, 2⟩ (1 : ℤ) 2 3 5 ⟨["x"], ["a", "b"], #[10, 10]⟩ ["d", "c"] ["z", "y"]
        [⟨["b"], ["x", "y"]⟩, ⟨["a", "c", "d"], ["y", "z"]⟩] = .ok (r, 2) ∧
      ndlModel Generated.pyMagic Generated.pyVersion ⟨.error, .openmp, 1, 2⟩ (1 : ℤ) 2 3 5
        (some ⟨["x"], ["a", "b"], #[10, 10]⟩) [⟨["b"], ["x", "y"]⟩, ⟨["a", "c", "d"], ["y", "z"]⟩] = .ok (r₀, 2) ∧
      r.cues = ["a", "b"] ++ ["d", "c"] ∧ r.outcomes = ["x"] ++ ["z", "y"] ∧ ∀ o c, r.get o c = r₀.get o c :=
  ndl_continue_label_order_irrelevant (fun e => ⟨e.cues.reverse, e.outcomes.reverse⟩)
    (fun e => ⟨List.reverse_perm _, List.reverse_perm _⟩) ⟨.error, .openmp, 1, 2⟩ 1 2 3 5
    ⟨["x"], ["a", "b"], #[10, 10]⟩ (by decide) (by decide) [⟨["b"], ["x", "y"]⟩, ⟨["a", "c", "d"], ["y", "z"]⟩]
    [⟨["b"], ["x", "y"]⟩, ⟨["a", "c", "d"], ["y", "z"]⟩]
    (by decide) ["d", "c"] ["z", "y"] (by decide +kernel) (by decide +kernel) (by decide +kernel)
    (by decide +kernel) ⟨by decide +kernel, by decide +kernel, by decide +kernel, by decide +kernel⟩

/-- … the arrays differ (columns / rows in the other order), the weights do not -/
example :
    (match ndlModelContWith (fun e => ⟨e.cues.reverse, e.outcomes.reverse⟩) Generated.pyMagic Generated.pyVersion
        ⟨.error, .openmp, 1, 2⟩ (1 : ℤ) 2 3 5 ⟨["x"], ["a", "b"], #[10, 10]⟩ ["d", "c"] ["z", "y"]
        [⟨["b"], ["x", "y"]⟩, ⟨["a", "c", "d"], ["y", "z"]⟩] with
      | .ok (w, _) => some (w.outcomes, w.cues, w.get "y" "c", w.get "z" "d", w.get "x" "a") | .error _ => none) =
    (match ndlModel Generated.pyMagic Generated.pyVersion ⟨.error, .openmp, 1, 2⟩ (1 : ℤ) 2 3 5
        (some ⟨["x"], ["a", "b"], #[10, 10]⟩) [⟨["b"], ["x", "y"]⟩, ⟨["a", "c", "d"], ["y", "z"]⟩] with
      | .ok (w, _) => some (["x", "z", "y"], ["a", "b", "d", "c"], w.get "y" "c", w.get "z" "d", w.get "x" "a")
      | .error _ => none) := by decide +kernel

/-- **an EMPTY part is not a no-op for `ndl.ndl`** (outside the property's splits,
    which have non-empty parts; recorded because `dict_ndl` does return its input
    there): continuing from weights with at least one outcome on an event file
    with zero events raises `IOError` with either method (whenever the argument
    checks pass).  (One of three wrappers of `ndlCall_nil_raises`: C01
    `ndl_call_empty_openmp`, C15 `pipeline_ndl_empty_raises`; that the rule is what
    the kernel entry points do: C01 `ndl_zero_events_rule`.) -/
theorem ndl_call_empty_part_raises (cfg : NdlCfg) (hper : 2 ≤ cfg.perFile) (hperU : cfg.perFile < 4294967296)
    (hjt : cfg.method = .threading → 1 ≤ cfg.perJob) (hjo : cfg.method = .openmp → cfg.perJob < 4294967296)
    (alpha β₁ β₂ lam : R) (w : LW R) (hw : w.outcomes ≠ []) :
    ndlCall Generated.pyMagic Generated.pyVersion cfg alpha β₁ β₂ lam (some w) [] = .error .io :=
  ndlCall_nil_raises _ _ cfg alpha β₁ β₂ lam (some w) hper hperU hjt hjo (Or.inr ⟨w, rfl, hw⟩)

/-- **two chained `ndl.ndl` calls = one pass over the concatenation** (possibly
    different methods and chunk sizes in the two calls, later part with new
    cues/outcomes).  Preconditions, all on the INPUTS: both parts non-empty, what
    an event file can hold (`hfx`, `hfy`) and accepted by the policy of their call, legal chunking arguments w.r.t. the
    number of distinct outcomes of `xs ++ ys`, and `Fits32 (xs ++ ys)`.
    (Replaces a VACUOUS earlier version whose hypothesis `∀ w : LW R,
    Fits32With w ys` no `ys` satisfies — take `w` with 2³² labels; the size
    condition for the intermediate matrix is now derived, as in `chain_any_length`.) -/
theorem ndl_chain_two (cfg₁ cfg₂ : NdlCfg) (alpha β₁ β₂ lam : R)
    (xs xs' ys ys' : List (Event String String)) (hxne : xs ≠ []) (hyne : ys ≠ [])
    (hfx : FileEvents xs) (hfy : FileEvents ys)
    (hc₁ : CfgOK cfg₁ (countNames (xs ++ ys)).2.length) (hc₂ : CfgOK cfg₂ (countNames (xs ++ ys)).2.length)
    (hx : applyPolicyAll cfg₁.policy xs = some xs') (hy : applyPolicyAll cfg₂.policy ys = some ys')
    (fxy : Fits32 (xs ++ ys)) :
    ∃ w₁ w₂, ndlCall Generated.pyMagic Generated.pyVersion cfg₁ alpha β₁ β₂ lam none xs = .ok (w₁, xs.length) ∧
      ndlCall Generated.pyMagic Generated.pyVersion cfg₂ alpha β₁ β₂ lam (some w₁) ys = .ok (w₂, ys.length) ∧
      ∀ o c, w₂.get o c = rwLearn (fun _ => alpha) β₁ β₂ lam (fun _ _ => (0 : R)) (xs' ++ ys') o c :=
  ndlCall_chain_two _ _ (by decide) (by decide) cfg₁ cfg₂ alpha β₁ β₂ lam xs xs' ys ys' hxne hyne hc₁ hc₂ hx hy fxy

/-- non-vacuity of `ndl_chain_two`: threading then OpenMP, the first part has an
    event whose outcome field is empty in the file (the outcome `""`), the second
    part brings a new cue and a new outcome; the theorem itself is applied -/
example :
    ∃ w₁ w₂, ndlCall Generated.pyMagic Generated.pyVersion ⟨.error, .threading, 2, 2⟩ (1 : ℤ) 2 3 5 none
        [⟨["a", "b"], ["x"]⟩, ⟨["b"], ["x"]⟩, ⟨["a"], [""]⟩] = .ok (w₁, 3) ∧
      ndlCall Generated.pyMagic Generated.pyVersion ⟨.dedup, .openmp, 1, 3⟩ (1 : ℤ) 2 3 5 (some w₁)
        [⟨["c", "c", "a"], ["y", "x"]⟩] = .ok (w₂, 1) ∧
      ∀ o c, w₂.get o c = rwLearn (fun _ => (1 : ℤ)) 2 3 5 (fun _ _ => 0)
        ([⟨["a", "b"], ["x"]⟩, ⟨["b"], ["x"]⟩, ⟨["a"], [""]⟩] ++ [⟨["c", "a"], ["y", "x"]⟩]) o c :=
  ndl_chain_two ⟨.error, .threading, 2, 2⟩ ⟨.dedup, .openmp, 1, 3⟩ 1 2 3 5
    [⟨["a", "b"], ["x"]⟩, ⟨["b"], ["x"]⟩, ⟨["a"], [""]⟩] _ [⟨["c", "c", "a"], ["y", "x"]⟩] _
    (by decide) (by decide) (by decide) (by decide)
    (by decide +kernel) (by decide +kernel) (by decide +kernel) (by decide +kernel)
    ⟨by decide +kernel, by decide +kernel, by decide +kernel, by decide +kernel⟩

/-- (definitional — NOT a property theorem) **inputs are not modified** — in the model every learner is a pure function
    of its `weights` argument, so the statement is the trivial one below. The
    real content of the clause (no aliasing inside numpy/xarray/deepcopy) cannot
    be expressed by a functional model and is decided only by the differential
    run (snapshot of values, coords and attrs of every object handed in, before
    and after each call and at the end of the chain).  partial: see DESIGN §6 C03. -/
theorem input_preserved_partial (p : DupPolicy) (α : ι → R) (β₁ β₂ lam : R) (W₀ : WDict ι κ R)
    (es : List (Event ι κ)) : (fun _ : Option (WDict ι κ R) => W₀) (dictNdl p α β₁ β₂ lam W₀ es) = W₀ := rfl

/-! non-vacuity: a 3-way split in ℤ where the later pieces introduce a new cue
and a new outcome -/
example :
    let p1 : List (Event Nat Nat) := [⟨[0, 1], [10]⟩]
    let p2 : List (Event Nat Nat) := [⟨[2], [10, 11]⟩]
    let p3 : List (Event Nat Nat) := [⟨[0, 2], [11]⟩]
    let W : Nat → Nat → ℤ := fun _ _ => 0
    [p1, p2, p3].foldl (rwLearn (fun _ => (1:ℤ)) 2 3 5) W 11 0
      = rwLearn (fun _ => (1:ℤ)) 2 3 5 W (p1 ++ p2 ++ p3) 11 0
    ∧ rwLearn (fun _ => (1:ℤ)) 2 3 5 W (p1 ++ p2 ++ p3) 11 0 ≠ 0 := by
  decide +kernel

/-! ## chains of arbitrary length, a different learner per part -/

/-- the duplicate policy distributes over concatenation: pieces accepted one by
    one ⇒ the concatenation is accepted, with the concatenated result -/
theorem policy_distributes (p : DupPolicy) (pieces pieces' : List (List (Event ι κ)))
    (h : List.Forall₂ (fun es es' => applyPolicyAll p es = some es') pieces pieces') :
    applyPolicyAll p pieces.flatten = some pieces'.flatten :=
  applyPolicyAll_flatten p pieces pieces' h

/-- with one duplicate policy `p` for all parts: the parts are accepted one by
    one exactly when the whole file is, and the processed events are the same -/
theorem chain_policy_uniform (p : DupPolicy) (parts : List Part) (h : ∀ pt ∈ parts, pt.1.policy = p) :
    chainPolicy parts = applyPolicyAll p (allEvents parts) :=
  chainPolicy_uniform p parts h

/-- **chains of ANY length, ANY learner per part.**  `parts` is the list of
    (learner, events) as the harness runs them (`chainRun`: first call without
    weights, every later call with what the previous call returned, converted
    as the learner needs it; an `ndl.ndl` part is the CALL `ndlCall`).
    Preconditions — all on the INPUTS:
    * `hp`: every part is accepted by the duplicate policy of its learner
      (otherwise the real call raises `ValueError`); `es'` is the concatenation
      of the policy-processed parts;
    * `hl`: every `ndl.ndl` part has `2 ≤ events_per_temporary_file < 2³²`,
      `1 ≤ n_outcomes_per_job` and, with OpenMP, `n_outcomes_per_job < 2³²` and
      ⌈(number of distinct outcomes of the whole file) / `n_outcomes_per_job`⌉ ·
      `n_outcomes_per_job < 2³²` (`CfgOK`; outside the first three the code
      raises `ValueError` / `OverflowError` / `ZeroDivisionError`);
    * `hne`: every `ndl.ndl` part has at least one event (on an empty part the
      real call raises `IOError`: `chain_empty_ndl_part_raises`);
    * `hfile`: the events of every `ndl.ndl` part are what an event file can hold
      (≥ 1 cue, ≥ 1 outcome each; the `ndl.ndl` parts read a path / generator).
      The `dict_ndl` parts are `dict_ndl` on the in-memory list (any events),
      and also `dict_ndl` on a path when their events are `FileEvents` too;
    * `hfit`: the whole file fits the 32-bit chunk format (events, distinct
      cues, distinct outcomes, cues/outcomes per event < 2^32).
    Conclusion: the chain succeeds, and the weight function its final state
    denotes (dict or matrix, 0 off the labels) is the Rescorla–Wagner
    specification from all-zero weights over `es'`, at every pair of names. -/
theorem chain_any_length (alpha β₁ β₂ lam : R) (parts : List Part) (es' : List (Event String String))
    (hp : chainPolicy parts = some es')
    (hl : ∀ pt ∈ parts, pt.1.ChunksOK (countNames (allEvents parts)).2.length)
    (hne : ∀ pt ∈ parts, pt.1.isNdl = true → pt.2 ≠ [])
    (hfile : ∀ pt ∈ parts, pt.1.isNdl = true → FileEvents pt.2)
    (hfit : Fits32 (allEvents parts)) :
    ∃ s, chainRun Generated.pyMagic Generated.pyVersion alpha β₁ β₂ lam none parts = .ok s ∧
      ∀ o c, stateGet s o c = rwLearn (fun _ => alpha) β₁ β₂ lam (fun _ _ => (0 : R)) es' o c :=
  Pyndl.chain_any_length _ _ (by decide) (by decide) alpha β₁ β₂ lam parts es' hp hl hne hfit

/-- the same from GIVEN initial weights `s` (nothing, a dict or a matrix) whose
    labels / keys are duplicate free (matrix) names from the lists `C`, `O`
    (`StateOK`); the size conditions are then: `C`, `O` have < 2^32 distinct
    names, and every part has names from `C`, `O` and 32-bit counts
    (`PartFits`); `ChunksOK` w.r.t. the number of distinct names in `O`. -/
theorem chain_any_length_from (C O : List String) (hC : (dedupKeepFirst C).length < 4294967296)
    (hO : (dedupKeepFirst O).length < 4294967296) (alpha β₁ β₂ lam : R)
    (parts : List Part) (s : Option (ChainState R)) (hs : StateOK C O s)
    (es' : List (Event String String)) (hp : chainPolicy parts = some es')
    (hl : ∀ pt ∈ parts, pt.1.ChunksOK (dedupKeepFirst O).length)
    (hne : ∀ pt ∈ parts, pt.1.isNdl = true → pt.2 ≠ [])
    (hfile : ∀ pt ∈ parts, pt.1.isNdl = true → FileEvents pt.2)
    (hfit : ∀ pt ∈ parts, PartFits C O pt.2) :
    ∃ s', chainRun Generated.pyMagic Generated.pyVersion alpha β₁ β₂ lam s parts = .ok s' ∧
      ∀ o c, stateGet s' o c = rwLearn (fun _ => alpha) β₁ β₂ lam (stateGet s) es' o c :=
  Pyndl.chain_any_length_stepwise _ _ (by decide) (by decide) C O hC hO alpha β₁ β₂ lam parts s hs es' hp hl hne hfit

/-- **the chain equals ONE call over the whole file** — of `ndl.ndl` (any
    configuration `cfg` with legal chunking arguments; the CALL, so the file
    must have an event: `hall`) and of `dict_ndl` — when all parts and the single
    call use the duplicate policy `p`.  `hfile`: the WHOLE file is what an event
    file can hold — the single `ndl.ndl` call reads a path/generator, the single
    `dict_ndl` call is then the call on the list and on a path alike (without
    `hfile` the two single calls differ in the real code: the outcome `""`).
    Other preconditions as in `chain_any_length`;
    that the single call accepts the whole file follows from the parts being
    accepted (`chain_policy_uniform`). -/
theorem chain_eq_single_call (alpha β₁ β₂ lam : R) (parts : List Part) (p : DupPolicy)
    (hpol : ∀ pt ∈ parts, pt.1.policy = p)
    (es' : List (Event String String)) (hp : chainPolicy parts = some es')
    (hl : ∀ pt ∈ parts, pt.1.ChunksOK (countNames (allEvents parts)).2.length)
    (hne : ∀ pt ∈ parts, pt.1.isNdl = true → pt.2 ≠ [])
    (hfile : FileEvents (allEvents parts))
    (hfit : Fits32 (allEvents parts)) (hall : allEvents parts ≠ [])
    (cfg : NdlCfg) (hcp : cfg.policy = p) (hcfg : CfgOK cfg (countNames (allEvents parts)).2.length) :
    ∃ s w W, chainRun Generated.pyMagic Generated.pyVersion alpha β₁ β₂ lam none parts = .ok s ∧
      ndlCall Generated.pyMagic Generated.pyVersion cfg alpha β₁ β₂ lam none (allEvents parts)
        = .ok (w, (allEvents parts).length) ∧
      dictNdl p (fun _ => alpha) β₁ β₂ lam [] (allEvents parts) = some W ∧
      ∀ o c, stateGet s o c = w.get o c ∧ stateGet s o c = wdAbs W o c :=
  Pyndl.chain_eq_single_call _ _ (by decide) (by decide) alpha β₁ β₂ lam parts p hpol es' hp hl hne hfit hall
    cfg hcp hcfg

/-- **the split does not matter**: two splits of the same file — different
    numbers of parts, cut positions and learners per part —, all with the
    duplicate policy `p` which accepts the file, end in the same weight function.
    `hfile`: the file is what an event file can hold (a part may be run by
    `ndl.ndl` in one split and by `dict_ndl` on the list in the other). -/
theorem chain_split_irrelevant (alpha β₁ β₂ lam : R) (parts₁ parts₂ : List Part) (p : DupPolicy)
    (hpol₁ : ∀ pt ∈ parts₁, pt.1.policy = p) (hpol₂ : ∀ pt ∈ parts₂, pt.1.policy = p)
    (hsame : allEvents parts₁ = allEvents parts₂)
    (es' : List (Event String String)) (hacc : applyPolicyAll p (allEvents parts₁) = some es')
    (hl₁ : ∀ pt ∈ parts₁, pt.1.ChunksOK (countNames (allEvents parts₁)).2.length)
    (hl₂ : ∀ pt ∈ parts₂, pt.1.ChunksOK (countNames (allEvents parts₁)).2.length)
    (hne₁ : ∀ pt ∈ parts₁, pt.1.isNdl = true → pt.2 ≠ [])
    (hne₂ : ∀ pt ∈ parts₂, pt.1.isNdl = true → pt.2 ≠ [])
    (hfile : FileEvents (allEvents parts₁))
    (hfit : Fits32 (allEvents parts₁)) :
    ∃ s₁ s₂, chainRun Generated.pyMagic Generated.pyVersion alpha β₁ β₂ lam none parts₁ = .ok s₁ ∧
      chainRun Generated.pyMagic Generated.pyVersion alpha β₁ β₂ lam none parts₂ = .ok s₂ ∧
      ∀ o c, (stateGet s₁ o c : R) = stateGet s₂ o c :=
  Pyndl.chain_split_irrelevant _ _ (by decide) (by decide) alpha β₁ β₂ lam parts₁ parts₂ p hpol₁ hpol₂ hsame
    es' hacc hl₁ hl₂ hne₁ hne₂ hfit

/-- **error direction: an `ndl.ndl` part with ZERO events makes the chain raise
    `IOError`** — wherever it stands (`pre` ran to the state `s₁`) and whatever
    follows —, with OpenMP always, with threading as soon as the state handed to
    it has an outcome label; the part's other arguments being legal. -/
theorem chain_empty_ndl_part_raises (alpha β₁ β₂ lam : R) (s : Option (ChainState R))
    (pre post : List Part) (s₁ : Option (ChainState R))
    (hpre : chainRun Generated.pyMagic Generated.pyVersion alpha β₁ β₂ lam s pre = .ok s₁)
    (cfg : NdlCfg) (hper : 2 ≤ cfg.perFile) (hperU : cfg.perFile < 4294967296)
    (hjt : cfg.method = .threading → 1 ≤ cfg.perJob) (hjo : cfg.method = .openmp → cfg.perJob < 4294967296)
    (hout : cfg.method = .openmp ∨ ∃ w, toNdlArg s₁ = some w ∧ w.outcomes ≠ []) :
    chainRun Generated.pyMagic Generated.pyVersion alpha β₁ β₂ lam s (pre ++ (.ndl cfg, []) :: post)
      = .error .io :=
  chainRun_empty_ndl_part_raises _ _ alpha β₁ β₂ lam s pre post s₁ hpre cfg hper hperU hjt hjo hout

/-! non-vacuity: a chain of FOUR parts over ℤ with four different learners —
`dict_ndl` returning a dict, `ndl.ndl` openmp (dict → matrix hand-over, new
outcome `y`), `dict_ndl` with a DataArray in and out (matrix → dict hand-over,
new cue `c`), `ndl.ndl` threading with two chunk files (new cue `d`, new
outcome `z`) -/

def exParts : List Part :=
  [ (.dict .error false, [⟨["a", "b"], ["x"]⟩]),
    (.ndl ⟨.error, .openmp, 1, 2⟩, [⟨["b"], ["x", "y"]⟩]),
    (.dict .error true, [⟨["a", "c"], ["y"]⟩]),
    (.ndl ⟨.error, .threading, 2, 2⟩, [⟨["c", "b"], ["x"]⟩, ⟨["a"], ["y"]⟩, ⟨["d"], ["y", "z"]⟩]) ]

/-- a different split of the same file: two parts, other learners -/
def exParts' : List Part :=
  [ (.ndl ⟨.error, .threading, 1, 3⟩, [⟨["a", "b"], ["x"]⟩, ⟨["b"], ["x", "y"]⟩, ⟨["a", "c"], ["y"]⟩, ⟨["c", "b"], ["x"]⟩]),
    (.dict .error false, [⟨["a"], ["y"]⟩, ⟨["d"], ["y", "z"]⟩]) ]

/-- three `ndl.ndl` parts with three different duplicate policies (`True`,
    `None`, `False`), methods and chunk sizes; an event with an empty outcome
    field (`""`), repeated cues and outcomes -/
def exParts3 : List Part :=
  [ (.ndl ⟨.dedup, .openmp, 1, 2⟩, [⟨["a", "b", "a"], ["x"]⟩, ⟨["b"], ["x", "y"]⟩, ⟨["a"], [""]⟩]),
    (.ndl ⟨.error, .threading, 2, 2⟩, [⟨["c", "b"], ["x"]⟩, ⟨["a"], ["z"]⟩, ⟨["d"], ["y", "z"]⟩]),
    (.ndl ⟨.keep, .openmp, 2, 2⟩, [⟨["c", "c"], ["x", "x"]⟩, ⟨["e"], ["z"]⟩, ⟨["d", "a"], ["u"]⟩, ⟨["a"], ["x"]⟩]) ]

/-- `chain_any_length` ITSELF applied (every hypothesis instantiated): the chain
    of `exParts3` is the specification on the parts processed by their OWN
    policies -/
example :
    ∃ s, chainRun Generated.pyMagic Generated.pyVersion (1 : ℤ) 2 3 5 none exParts3 = .ok s ∧
      ∀ o c, stateGet s o c = rwLearn (fun _ => (1 : ℤ)) 2 3 5 (fun _ _ => (0 : ℤ))
        [⟨["a", "b"], ["x"]⟩, ⟨["b"], ["x", "y"]⟩, ⟨["a"], [""]⟩, ⟨["c", "b"], ["x"]⟩, ⟨["a"], ["z"]⟩,
         ⟨["d"], ["y", "z"]⟩, ⟨["c", "c"], ["x", "x"]⟩, ⟨["e"], ["z"]⟩, ⟨["d", "a"], ["u"]⟩, ⟨["a"], ["x"]⟩] o c :=
  chain_any_length 1 2 3 5 exParts3 _ (by decide +kernel) (by decide +kernel) (by decide) (by decide)
    ⟨by decide +kernel, by decide +kernel, by decide +kernel, by decide +kernel⟩

def showState : Option (ChainState ℤ) → Option (Bool × List String × List String × Array ℤ)
  | some (.matrix w) => some (true, w.outcomes, w.cues, w.vals)
  | _ => none

/-- the model runs: the states after 1, 2, 3 and all 4 calls -/
example :
    (match chainRun Generated.pyMagic Generated.pyVersion (1 : ℤ) 2 3 5 none (exParts.take 1) with
     | .ok (some (.dict W)) => some W | _ => none) = some [("x", [("a", 10), ("b", 10)])] ∧
    (match chainRun Generated.pyMagic Generated.pyVersion (1 : ℤ) 2 3 5 none (exParts.take 2) with
     | .ok s => showState s | .error _ => none) = some (true, ["x", "y"], ["a", "b"], #[10, 0,  0, 10]) ∧
    (match chainRun Generated.pyMagic Generated.pyVersion (1 : ℤ) 2 3 5 none (exParts.take 3) with
     | .ok s => showState s | .error _ => none)
      = some (true, ["x", "y"], ["a", "b", "c"], #[-20, 0, -30,  10, 10, 10]) ∧
    (match chainRun Generated.pyMagic Generated.pyVersion (1 : ℤ) 2 3 5 none exParts with
     | .ok s => showState s | .error _ => none)
      = some (true, ["x", "y", "z"], ["a", "b", "c", "d"], #[40, 70, 40, 0,  0, -50, -50, 10,  0, 0, 0, 10]) :=
  ⟨by decide +kernel, by decide +kernel, by decide +kernel, by decide +kernel⟩

/-- … and these are the numbers of the specification over the whole file -/
example :
    (["x", "y", "z"].map fun o => ["a", "b", "c", "d"].map fun c =>
      rwLearn (fun _ => (1 : ℤ)) 2 3 5 (fun _ _ => 0) (allEvents exParts) o c)
      = [[40, 70, 40, 0], [0, -50, -50, 10], [0, 0, 0, 10]] := by
  decide +kernel

/-- the preconditions of `chain_any_length` / `chain_eq_single_call` are jointly
    satisfiable: the example instantiates them completely -/
example :
    ∃ s w W, chainRun Generated.pyMagic Generated.pyVersion (1 : ℤ) 2 3 5 none exParts = .ok s ∧
      ndlCall Generated.pyMagic Generated.pyVersion ⟨.error, .openmp, 1, 2⟩ (1 : ℤ) 2 3 5 none (allEvents exParts)
        = .ok (w, (allEvents exParts).length) ∧
      dictNdl .error (fun _ => (1 : ℤ)) 2 3 5 [] (allEvents exParts) = some W ∧
      ∀ o c, stateGet s o c = w.get o c ∧ stateGet s o c = wdAbs W o c :=
  chain_eq_single_call 1 2 3 5 exParts .error (by decide) (allEvents exParts) (by decide +kernel)
    (by decide +kernel) (by decide) (by decide)
    ⟨by decide +kernel, by decide +kernel, by decide +kernel, by decide +kernel⟩ (by decide)
    ⟨.error, .openmp, 1, 2⟩ rfl (by decide +kernel)

/-- … and so are those of `chain_split_irrelevant` (4 parts vs 2 parts) -/
example :
    ∃ s₁ s₂, chainRun Generated.pyMagic Generated.pyVersion (1 : ℤ) 2 3 5 none exParts = .ok s₁ ∧
      chainRun Generated.pyMagic Generated.pyVersion (1 : ℤ) 2 3 5 none exParts' = .ok s₂ ∧
      ∀ o c, stateGet s₁ o c = stateGet s₂ o c :=
  chain_split_irrelevant 1 2 3 5 exParts exParts' .error (by decide) (by decide) (by decide +kernel)
    (allEvents exParts) (by decide +kernel) (by decide +kernel) (by decide +kernel) (by decide) (by decide)
    (by decide)
    ⟨by decide +kernel, by decide +kernel, by decide +kernel, by decide +kernel⟩

/-- non-vacuity of `chain_any_length_from`: the last three parts of `exParts`
    from GIVEN weights (a matrix with labels `x` / `a, b`, as the first part
    leaves them), `C`, `O` = the names of the file -/
example :
    ∃ s', chainRun Generated.pyMagic Generated.pyVersion (1 : ℤ) 2 3 5
        (some (.matrix ⟨["x"], ["a", "b"], #[10, 10]⟩)) (exParts.drop 1) = .ok s' ∧
      ∀ o c, stateGet s' o c = rwLearn (fun _ => (1 : ℤ)) 2 3 5
        (stateGet (some (.matrix ⟨["x"], ["a", "b"], #[10, 10]⟩))) (allEvents (exParts.drop 1)) o c :=
  chain_any_length_from ["a", "b", "c", "d"] ["x", "y", "z"] (by decide +kernel) (by decide +kernel) 1 2 3 5
    (exParts.drop 1) (some (.matrix ⟨["x"], ["a", "b"], #[10, 10]⟩))
    ⟨by decide, by decide, by decide, by decide⟩ (allEvents (exParts.drop 1)) (by decide +kernel)
    (by decide +kernel) (by decide) (by decide)
    (fun pt hpt => by
      simp only [exParts, List.drop_succ_cons, List.drop_zero, List.mem_cons, List.not_mem_nil, or_false] at hpt
      rcases hpt with rfl | rfl | rfl <;> exact ⟨by decide +kernel, by decide +kernel, by decide +kernel⟩)

/-- non-vacuity of `chain_empty_ndl_part_raises`: after the first part of
    `exParts` (state: a dict with the outcome `x`) an empty threading part —
    the chain raises `IOError`, whatever follows -/
example :
    chainRun Generated.pyMagic Generated.pyVersion (1 : ℤ) 2 3 5 none
      (exParts.take 1 ++ (.ndl ⟨.error, .threading, 1, 2⟩, []) :: exParts.drop 1) = .error .io :=
  chain_empty_ndl_part_raises 1 2 3 5 none (exParts.take 1) (exParts.drop 1)
    (some (.dict [("x", [("a", 10), ("b", 10)])])) (by rfl) ⟨.error, .threading, 1, 2⟩
    (by decide) (by decide) (by decide) (by decide)
    (Or.inr ⟨lwFromDict [("x", [("a", 10), ("b", 10)])], rfl, by decide +kernel⟩)

end Pyndl.C03
