/-
  C02 — Parallel learning is independent of the schedule and always terminates.
-/
import PyndlProofs.SeqSchedule
import PyndlProofs.Queue
import PyndlProofs.Interleave
import PyndlProofs.Bounds32

namespace Pyndl.C02
open Pyndl List

variable {R : Type} [CommRing R]

/-- `slice_list` partitions: concatenating the sublists in order gives the
    input back, for every `len_sublists ≥ 1` (incl. > length, incl. exact
    divisors). -/
theorem sliceList_partition {α : Type} (xs : List α) (n : Nat) (hn : 1 ≤ n) :
    (sliceList xs n).flatten = xs := sliceList_flatten xs n hn

/-- the OpenMP `prange` bounds partition the outcome list, for every chunk ≥ 1 -/
theorem ompParts_partition {α : Type} (xs : List α) (chunk : Nat) (hc : 1 ≤ chunk) :
    (ompParts xs chunk).flatten = xs := ompParts_flatten xs chunk hc

/-- the `unsigned int` arithmetic of the OpenMP bounds does not wrap when
    `n_outcomes + n_outcomes_per_job < 2³²`: the 32-bit bounds are the unbounded ones -/
theorem ompParts_no_wrap (n chunk : UInt32) (hc : 1 ≤ chunk.toNat) (hfit : n.toNat + chunk.toNat < 4294967296) :
    (ompBounds32 n chunk).map (fun p => (p.1.toNat, p.2.toNat)) = ompBounds n.toNat chunk.toNat :=
  ompBounds32_eq n chunk hc hfit

/-- the hypothesis is needed: with 2³²−2 outcomes and a chunk of 2³¹ the second
    part's `start_val + chunksize` wraps to 0, its `end_val` becomes 0 < start and
    the rows from 2³¹ on would never be trained (needs 16 GiB of weights: not
    exercisable here, recorded as the model's explicit hypothesis) -/
example : ompBounds32 4294967294 2147483648 = [(0, 2147483648), (2147483648, 0)] ∧
    ompBounds 4294967294 2147483648 = [(0, 2147483648), (2147483648, 4294967294)] := by
  decide +kernel

/-- a duplicate-free outcome list is split into duplicate-free, pairwise
    disjoint parts by both partitioners -/
theorem parts_disjoint (allOutcomes : List Nat) (h : allOutcomes.Nodup) (n : Nat) (hn : 1 ≤ n) :
    PartsOk (sliceList allOutcomes n) ∧ PartsOk (ompParts allOutcomes n) :=
  ⟨partsOk_of_nodup_flatten _ (by rw [sliceList_flatten _ _ hn]; exact h),
   partsOk_of_nodup_flatten _ (by rw [ompParts_flatten _ _ hn]; exact h)⟩

/-- **data-race freedom**: micro-steps of different weight rows read and write
    disjoint cells of the flat weight array. -/
theorem footprint_disjoint (n o o' c c' : Nat) (hc : c < n) (hc' : c' < n) (hne : o ≠ o') :
    flatIdx n o c ≠ flatIdx n o' c' :=
  fun e => hne (flatIdx_inj hc hc' e).1

/-- **schedule independence, Python threads**: for EVERY interleaving of the
    kernel calls of the parts (every number of worker threads, every order in
    which parts are taken from the queue), every row holds the specification. -/
theorem schedule_independent_threading {parts : List (List Nat)} (hp : PartsOk parts)
    (files : List (List (Event Nat Nat))) (n nOut : Nat) (alpha β₁ β₂ lam : R)
    (hrows : ∀ k, k < parts.length → ∀ o ∈ parts.getD k [], o < nOut)
    (hcues : ∀ e ∈ files.flatten, ∀ c ∈ e.cues, c < n)
    (w : Array R) (hw : w.size = n * nOut)
    (s : List MicroStep) (hv : ValidThreading parts files s)
    (k : Nat) (hk : k < parts.length) (o : Nat) (ho : o ∈ parts.getD k []) :
    rowFn n (execSteps alpha β₁ β₂ lam n w s) o
      = rwLearn (fun _ => alpha) β₁ β₂ lam (fun o => rowFn n w o) files.flatten o :=
  threading_schedule_independent hp files n nOut alpha β₁ β₂ lam hrows hcues w hw s hv k hk o ho

/-- **schedule independence, OpenMP** (barrier after each file, any
    interleaving inside a file, any thread count, any dynamic assignment). -/
theorem schedule_independent_openmp {parts : List (List Nat)} (hp : PartsOk parts)
    (files : List (List (Event Nat Nat))) (n nOut : Nat) (alpha β₁ β₂ lam : R)
    (hrows : ∀ k, k < parts.length → ∀ o ∈ parts.getD k [], o < nOut)
    (hcues : ∀ e ∈ files.flatten, ∀ c ∈ e.cues, c < n)
    (w : Array R) (hw : w.size = n * nOut)
    (s : List MicroStep) (hv : ValidOpenmp parts files s)
    (k : Nat) (hk : k < parts.length) (o : Nat) (ho : o ∈ parts.getD k []) :
    rowFn n (execSteps alpha β₁ β₂ lam n w s) o
      = rwLearn (fun _ => alpha) β₁ β₂ lam (fun o => rowFn n w o) files.flatten o :=
  openmp_schedule_independent hp files n nOut alpha β₁ β₂ lam hrows hcues w hw s hv k hk o ho

/-- `ValidThreading` is not an ad-hoc notion: EVERY operational interleaving of
    the part programs (repeatedly run the next micro-step of any kernel call
    that still has one) is a valid schedule … -/
theorem every_interleaving_is_valid (parts : List (List Nat)) (files : List (List (Event Nat Nat)))
    (s : List MicroStep) (h : Interleave (threadingPrograms parts files) s) :
    ValidThreading parts files s :=
  interleave_is_valid_threading parts files s h

/-- … hence: for every operational interleaving of the kernel calls, every
    owned row holds the specification. -/
theorem threading_any_interleaving {parts : List (List Nat)} (hp : PartsOk parts)
    (files : List (List (Event Nat Nat))) (n nOut : Nat) (alpha β₁ β₂ lam : R)
    (hrows : ∀ k, k < parts.length → ∀ o ∈ parts.getD k [], o < nOut)
    (hcues : ∀ e ∈ files.flatten, ∀ c ∈ e.cues, c < n)
    (w : Array R) (hw : w.size = n * nOut)
    (s : List MicroStep) (h : Interleave (threadingPrograms parts files) s)
    (k : Nat) (hk : k < parts.length) (o : Nat) (ho : o ∈ parts.getD k []) :
    rowFn n (execSteps alpha β₁ β₂ lam n w s) o
      = rwLearn (fun _ => alpha) β₁ β₂ lam (fun o => rowFn n w o) files.flatten o :=
  threading_schedule_independent hp files n nOut alpha β₁ β₂ lam hrows hcues w hw s
    (interleave_is_valid_threading parts files s h) k hk o ho

/-- two valid schedules — e.g. different thread counts or interleavings — give
    the same row, whatever they are -/
theorem any_two_schedules_agree {parts parts' : List (List Nat)} (hp : PartsOk parts) (hp' : PartsOk parts')
    (files : List (List (Event Nat Nat))) (n nOut : Nat) (alpha β₁ β₂ lam : R)
    (hrows : ∀ k, k < parts.length → ∀ o ∈ parts.getD k [], o < nOut)
    (hrows' : ∀ k, k < parts'.length → ∀ o ∈ parts'.getD k [], o < nOut)
    (hcues : ∀ e ∈ files.flatten, ∀ c ∈ e.cues, c < n)
    (w : Array R) (hw : w.size = n * nOut)
    (s s' : List MicroStep) (hv : ValidThreading parts files s) (hv' : ValidOpenmp parts' files s')
    (k k' : Nat) (hk : k < parts.length) (hk' : k' < parts'.length) (o : Nat)
    (ho : o ∈ parts.getD k []) (ho' : o ∈ parts'.getD k' []) :
    rowFn n (execSteps alpha β₁ β₂ lam n w s) o = rowFn n (execSteps alpha β₁ β₂ lam n w s') o := by
  rw [threading_schedule_independent hp files n nOut alpha β₁ β₂ lam hrows hcues w hw s hv k hk o ho,
    openmp_schedule_independent hp' files n nOut alpha β₁ β₂ lam hrows' hcues w hw s' hv' k' hk' o ho']

/-- valid schedules exist (non-vacuity of the two theorems above): the
    sequential reference schedules the driver executes are valid. -/
theorem valid_schedules_exist (files : List (List (Event Nat Nat))) (parts : List (List Nat)) :
    ValidThreading parts files (seqThreadingFrom files 0 parts) ∧
    ValidOpenmp parts files (seqOpenmpFrom parts 0 files) :=
  ⟨seqThreading_valid files parts, seqOpenmp_valid parts 0 files⟩

/-- **exactly once**: in every complete run of the work-queue protocol with at
    least one worker in which no kernel call failed, the parts handed out are
    exactly the parts enqueued, each once, in order — also with more workers
    than parts. (Runs with a failing kernel call end in `raise`: C05.) -/
theorem queue_exactly_once (p t : Nat) (ht : 1 ≤ t) (as : List QAction) (s : QState)
    (hrun : qRun (qInit p t) as = some s) (hfin : qFinal s = true) (hok : qRaises s = false) :
    s.taken = List.range p := by
  obtain ⟨inv, _⟩ := qRun_inv (List.range p) (qInit p t) s as (qInit_inv p t) hrun
  have hlen : s.threads.length = t := by
    have : ∀ (s s' : QState) (as : List QAction), qRun s as = some s' → s'.threads.length = s.threads.length := by
      intro s s' as
      induction as generalizing s with
      | nil => intro h; simp [qRun] at h; subst h; rfl
      | cons a as ih =>
        intro h
        simp only [qRun] at h
        cases hs : qStep s a with
        | none => simp [hs] at h
        | some s₁ =>
          simp only [hs] at h
          rw [ih s₁ h]
          cases a <;> simp only [qStep] at hs <;> split at hs <;> simp at hs <;> subst hs <;> simp
    rw [this _ _ _ hrun]; simp [qInit]
  have h0 : s.threads[0]? = some TState.done := by
    have hlt : 0 < s.threads.length := by omega
    rw [List.getElem?_eq_getElem hlt]
    have h1 := List.all_eq_true.mp hfin (s.threads[0]) (List.getElem_mem hlt)
    have h2 : ¬ (s.threads[0] = TState.failed) := by
      intro e
      have : qRaises s = true := by
        unfold qRaises
        exact List.any_eq_true.mpr ⟨_, List.getElem_mem hlt, by simp [e]⟩
      rw [hok] at this; cases this
    simp only [Bool.or_eq_true, decide_eq_true_eq] at h1
    rcases h1 with h1 | h1
    · rw [h1]
    · exact absurd h1 h2
  have hq := inv.done_empty ⟨0, h0⟩
  have := inv.conserve
  rw [hq, List.append_nil] at this
  exact this

/-- **bounded**: every run of the protocol from the initial state has at most
    `2·parts + threads` transitions — so every fair execution terminates. -/
theorem queue_bounded (p t : Nat) (as : List QAction) (s : QState)
    (hrun : qRun (qInit p t) as = some s) : as.length ≤ 2 * p + t := by
  obtain ⟨_, h⟩ := qRun_inv (List.range p) (qInit p t) s as (qInit_inv p t) hrun
  rw [qInit_measure] at h; omega

/-- **progress**: a state that is not final always has an enabled transition,
    and none of them blocks (`get` is only reached with a non-empty queue). -/
theorem queue_progress (s : QState) (h : qFinal s = false) : ∃ a, (qStep s a).isSome = true := by
  unfold qFinal at h
  have : ∃ x ∈ s.threads, x ≠ TState.done ∧ x ≠ TState.failed := by
    by_contra hc
    have : s.threads.all (fun st => decide (st = TState.done) || decide (st = TState.failed)) = true :=
      List.all_eq_true.mpr (fun x hx => by
        simp only [Bool.or_eq_true, decide_eq_true_eq]
        by_contra hne
        exact hc ⟨x, hx, fun e => hne (Or.inl e), fun e => hne (Or.inr e)⟩)
    rw [this] at h; cases h
  obtain ⟨x, hx, hnd, hnf⟩ := this
  obtain ⟨t, ht, rfl⟩ := List.getElem_of_mem hx
  have hget : s.threads[t]? = some s.threads[t] := List.getElem?_eq_getElem ht
  cases hst : s.threads[t] with
  | atHead =>
    cases hq : s.queue with
    | nil => exact ⟨.exit t, by simp [qStep, hget, hst, hq]⟩
    | cons p rest => exact ⟨.take t, by simp [qStep, hget, hst, hq]⟩
  | running p => exact ⟨.finish t, by simp [qStep, hget, hst]⟩
  | done => exact absurd hst hnd
  | failed => exact absurd hst hnf

/-! non-vacuity of the protocol theorems: a complete run with 2 parts and 3
workers (more workers than parts) exists and ends final. -/
example : ∃ as, (qRun (qInit 2 3) as).map (fun s => (qFinal s, s.taken)) = some (true, [0, 1]) :=
  ⟨[.take 0, .take 2, .exit 1, .finish 2, .finish 0, .exit 0, .exit 2], by decide +kernel⟩

end Pyndl.C02
