/-
  C02 — Parallel learning is independent of the schedule and always terminates.

  How the pieces compose (threading):
    work-queue protocol (`qStep`, what the harness validates real traces against)
      ⊑ refined protocol (`rStep`: each worker holds the remaining program of the
        kernel call it is in; `protocol_refines` / `protocol_lifts`)
      ⇒ every complete non-failing run performs an `Interleave` of the part
        programs, each exactly once (`protocol_run_interleaves`)
      ⇔ `ValidThreading` (`valid_threading_iff_interleave`)
      ⇒ every owned row holds the specification (`schedule_independent_threading`,
        assembled in `threading_protocol_schedule_independent`).
  OpenMP: `ValidOpenmp` ⇔ files in order, inside a file any operational
  interleaving of the per-part programs (`valid_openmp_iff_interleave`).  There
  is no protocol to compose: `prange` hands every iteration to exactly one
  thread and the `parallel` block ends with a barrier (OpenMP semantics,
  trusted); termination of the OpenMP path is by construction of the model.

  MODELLING ASSUMPTIONS — prose, NOT Lean identifiers, NOT hypotheses of any
  theorem.  Every theorem of this file is about the MODEL's transition systems
  (`MicroStep` schedules, `qStep`, `rStep`); none of them is "transported" to
  the real threads inside Lean, because the model has no access-level
  semantics of the kernels and no semantics of CPython threads.  What follows
  is therefore not something a theorem assumes and could be discharged by an
  instance; it is the claim that the model is faithful, and belongs in DESIGN §2
  under "modelling assumptions" (not under "named assumptions inside theorem
  statements"):
    * "MicroStepAtomicity" (a NAME USED IN PROSE only — here and in
      PyndlModel/Kernel.lean; `grep MicroStepAtomicity` finds no definition):
      the unit of interleaving is the micro-step (one weight row processing one
      event).  The real kernels interleave at the level of single loads and
      stores.  Assumed: every sequentially consistent access-level interleaving
      of kernel calls owning pairwise disjoint rows leaves the weights some
      micro-step interleaving leaves.  What it buys: it lifts the model's
      granularity from memory accesses to micro-steps; it does not restate any
      conclusion (schedule independence is proved FROM the micro-step model).
      Proved towards it: `footprint_disjoint` (different rows, disjoint cells),
      `micro_steps_commute`, `schedule_determined_by_row_projections`; steps of
      one row belong to one kernel call (`parts_disjoint`) and are ordered by
      it.  The reduction itself (Lipton-style) needs an access-level semantics
      the model does not have; it is not formalised and not stated as a `Prop`.
    * data-race freedom ⇒ sequential consistency for the C11/OpenMP memory
      model and the GIL-released `nogil` kernels (DESIGN §7; same status).
    * "`rStep` is the meaning of the worker loop": the refined protocol `rStep`
      is the operational meaning of
      "worker = loop { lock; if empty: break; get } ; kernel call".  A modelling
      claim with no Lean counterpart (there is no Python semantics to state it
      against), tied to the code only by the trace validation of the
      differential run (real lock/queue traces are accepted by `qStep`, and
      `protocol_refines` relates `rStep` runs to `qStep` runs).  Same status as
      the first item: DESIGN §2, modelling assumptions.
-/
import PyndlProofs.SeqSchedule
import PyndlProofs.Queue
import PyndlProofs.Interleave
import PyndlProofs.Bounds32
import PyndlProofs.QueueSchedule

namespace Pyndl.C02
open Pyndl List

variable {R : Type} [CommRing R]

/-- `slice_list` partitions: concatenating the sublists in order gives the
    input back, for every `len_sublists ≥ 1` (incl. > length, incl. exact
    divisors). -/
theorem sliceList_partition {α : Type} (xs : List α) (n : Nat) (hn : 1 ≤ n) :
    (sliceList xs n).flatten = xs := sliceList_flatten xs n hn

/-- the OpenMP `prange` bounds partition the outcome list, for every chunk ≥ 1 -/
theorem ompParts_partition {α : Type} (xs : List α) (chunk : Nat) (hc : 1 ≤ chunk) :
    (ompParts xs chunk).flatten = xs := ompParts_flatten xs chunk hc

/-- the `unsigned int` arithmetic of the OpenMP bounds does not wrap when
    `n_outcomes + n_outcomes_per_job < 2³²`: the 32-bit bounds are the unbounded ones -/
theorem ompParts_no_wrap (n chunk : UInt32) (hc : 1 ≤ chunk.toNat) (hfit : n.toNat + chunk.toNat < 4294967296) :
    (ompBounds32 n chunk).map (fun p => (p.1.toNat, p.2.toNat)) = ompBounds n.toNat chunk.toNat :=
  ompBounds32_eq n chunk hc hfit

/-- the hypothesis is needed: with 2³²−2 outcomes and a chunk of 2³¹ the second
    part's `start_val + chunksize` wraps to 0, its `end_val` becomes 0 < start and
    the rows from 2³¹ on would never be trained (needs 16 GiB of weights: not
    exercisable here, recorded as the model's explicit hypothesis) -/
example : ompBounds32 4294967294 2147483648 = [(0, 2147483648), (2147483648, 0)] ∧
    ompBounds 4294967294 2147483648 = [(0, 2147483648), (2147483648, 4294967294)] := by
  decide +kernel

/-- a duplicate-free outcome list is split into duplicate-free, pairwise
    disjoint parts by both partitioners -/
theorem parts_disjoint (allOutcomes : List Nat) (h : allOutcomes.Nodup) (n : Nat) (hn : 1 ≤ n) :
    PartsOk (sliceList allOutcomes n) ∧ PartsOk (ompParts allOutcomes n) :=
  ⟨partsOk_of_nodup_flatten _ (by rw [sliceList_flatten _ _ hn]; exact h),
   partsOk_of_nodup_flatten _ (by rw [ompParts_flatten _ _ hn]; exact h)⟩

/-- **data-race freedom**: micro-steps of different weight rows read and write
    disjoint cells of the flat weight array. -/
theorem footprint_disjoint (n o o' c c' : Nat) (hc : c < n) (hc' : c' < n) (hne : o ≠ o') :
    flatIdx n o c ≠ flatIdx n o' c' :=
  fun e => hne (flatIdx_inj hc hc' e).1

/-- **schedule independence, Python threads**: for EVERY interleaving of the
    kernel calls of the parts (every number of worker threads, every order in
    which parts are taken from the queue), every row holds the specification. -/
theorem schedule_independent_threading {parts : List (List Nat)} (hp : PartsOk parts)
    (files : List (List (Event Nat Nat))) (n nOut : Nat) (alpha β₁ β₂ lam : R)
    (hrows : ∀ k, k < parts.length → ∀ o ∈ parts.getD k [], o < nOut)
    (hcues : ∀ e ∈ files.flatten, ∀ c ∈ e.cues, c < n)
    (w : Array R) (hw : w.size = n * nOut)
    (s : List MicroStep) (hv : ValidThreading parts files s)
    (k : Nat) (hk : k < parts.length) (o : Nat) (ho : o ∈ parts.getD k []) :
    rowFn n (execSteps alpha β₁ β₂ lam n w s) o
      = rwLearn (fun _ => alpha) β₁ β₂ lam (fun o => rowFn n w o) files.flatten o :=
  threading_schedule_independent hp files n nOut alpha β₁ β₂ lam hrows hcues w hw s hv k hk o ho

/-- **schedule independence, OpenMP** (barrier after each file, any
    interleaving inside a file, any thread count, any dynamic assignment). -/
theorem schedule_independent_openmp {parts : List (List Nat)} (hp : PartsOk parts)
    (files : List (List (Event Nat Nat))) (n nOut : Nat) (alpha β₁ β₂ lam : R)
    (hrows : ∀ k, k < parts.length → ∀ o ∈ parts.getD k [], o < nOut)
    (hcues : ∀ e ∈ files.flatten, ∀ c ∈ e.cues, c < n)
    (w : Array R) (hw : w.size = n * nOut)
    (s : List MicroStep) (hv : ValidOpenmp parts files s)
    (k : Nat) (hk : k < parts.length) (o : Nat) (ho : o ∈ parts.getD k []) :
    rowFn n (execSteps alpha β₁ β₂ lam n w s) o
      = rwLearn (fun _ => alpha) β₁ β₂ lam (fun o => rowFn n w o) files.flatten o :=
  openmp_schedule_independent hp files n nOut alpha β₁ β₂ lam hrows hcues w hw s hv k hk o ho

/-- `ValidThreading` is not an ad-hoc notion: EVERY operational interleaving of
    the part programs (repeatedly run the next micro-step of any kernel call
    that still has one) is a valid schedule … -/
theorem every_interleaving_is_valid (parts : List (List Nat)) (files : List (List (Event Nat Nat)))
    (s : List MicroStep) (h : Interleave (threadingPrograms parts files) s) :
    ValidThreading parts files s :=
  interleave_is_valid_threading parts files s h

/-- … hence: for every operational interleaving of the kernel calls, every
    owned row holds the specification. -/
theorem threading_any_interleaving {parts : List (List Nat)} (hp : PartsOk parts)
    (files : List (List (Event Nat Nat))) (n nOut : Nat) (alpha β₁ β₂ lam : R)
    (hrows : ∀ k, k < parts.length → ∀ o ∈ parts.getD k [], o < nOut)
    (hcues : ∀ e ∈ files.flatten, ∀ c ∈ e.cues, c < n)
    (w : Array R) (hw : w.size = n * nOut)
    (s : List MicroStep) (h : Interleave (threadingPrograms parts files) s)
    (k : Nat) (hk : k < parts.length) (o : Nat) (ho : o ∈ parts.getD k []) :
    rowFn n (execSteps alpha β₁ β₂ lam n w s) o
      = rwLearn (fun _ => alpha) β₁ β₂ lam (fun o => rowFn n w o) files.flatten o :=
  threading_schedule_independent hp files n nOut alpha β₁ β₂ lam hrows hcues w hw s
    (interleave_is_valid_threading parts files s h) k hk o ho

/-- two valid schedules — e.g. different thread counts or interleavings — give
    the same row, whatever they are -/
theorem any_two_schedules_agree {parts parts' : List (List Nat)} (hp : PartsOk parts) (hp' : PartsOk parts')
    (files : List (List (Event Nat Nat))) (n nOut : Nat) (alpha β₁ β₂ lam : R)
    (hrows : ∀ k, k < parts.length → ∀ o ∈ parts.getD k [], o < nOut)
    (hrows' : ∀ k, k < parts'.length → ∀ o ∈ parts'.getD k [], o < nOut)
    (hcues : ∀ e ∈ files.flatten, ∀ c ∈ e.cues, c < n)
    (w : Array R) (hw : w.size = n * nOut)
    (s s' : List MicroStep) (hv : ValidThreading parts files s) (hv' : ValidOpenmp parts' files s')
    (k k' : Nat) (hk : k < parts.length) (hk' : k' < parts'.length) (o : Nat)
    (ho : o ∈ parts.getD k []) (ho' : o ∈ parts'.getD k' []) :
    rowFn n (execSteps alpha β₁ β₂ lam n w s) o = rowFn n (execSteps alpha β₁ β₂ lam n w s') o := by
  rw [threading_schedule_independent hp files n nOut alpha β₁ β₂ lam hrows hcues w hw s hv k hk o ho,
    openmp_schedule_independent hp' files n nOut alpha β₁ β₂ lam hrows' hcues w hw s' hv' k' hk' o ho']

/-- valid schedules exist (non-vacuity of the two theorems above): the
    sequential reference schedules the driver executes are valid. -/
theorem valid_schedules_exist (files : List (List (Event Nat Nat))) (parts : List (List Nat)) :
    ValidThreading parts files (seqThreadingFrom files 0 parts) ∧
    ValidOpenmp parts files (seqOpenmpFrom parts 0 files) :=
  ⟨seqThreading_valid files parts, seqOpenmp_valid parts 0 files⟩

/-- `ValidThreading` and the operational `Interleave` are the SAME notion
    (both directions): a sequence of micro-steps is a valid threading schedule
    iff it arises by repeatedly running the next micro-step of some kernel call. -/
theorem valid_threading_iff_interleave (parts : List (List Nat)) (files : List (List (Event Nat Nat)))
    (s : List MicroStep) :
    ValidThreading parts files s ↔ Interleave (threadingPrograms parts files) s :=
  validThreading_iff_interleave parts files s

/-- **OpenMP, operationally.** `ValidOpenmp` is exactly: chunk files in order
    (the barrier at the end of each `parallel` block), and inside a file any
    operational interleaving of the per-part programs of that file — any thread
    count, any assignment of `prange` iterations to threads, any timing. -/
theorem valid_openmp_iff_interleave (parts : List (List Nat)) (files : List (List (Event Nat Nat)))
    (s : List MicroStep) :
    ValidOpenmp parts files s ↔ InterleaveOpenmpFrom parts 0 files s :=
  validOpenmpFrom_iff_interleave parts files 0 s

/-- … hence every such OpenMP execution gives the specification's rows -/
theorem openmp_any_interleaving {parts : List (List Nat)} (hp : PartsOk parts)
    (files : List (List (Event Nat Nat))) (n nOut : Nat) (alpha β₁ β₂ lam : R)
    (hrows : ∀ k, k < parts.length → ∀ o ∈ parts.getD k [], o < nOut)
    (hcues : ∀ e ∈ files.flatten, ∀ c ∈ e.cues, c < n)
    (w : Array R) (hw : w.size = n * nOut)
    (s : List MicroStep) (h : InterleaveOpenmpFrom parts 0 files s)
    (k : Nat) (hk : k < parts.length) (o : Nat) (ho : o ∈ parts.getD k []) :
    rowFn n (execSteps alpha β₁ β₂ lam n w s) o
      = rwLearn (fun _ => alpha) β₁ β₂ lam (fun o => rowFn n w o) files.flatten o :=
  openmp_schedule_independent hp files n nOut alpha β₁ β₂ lam hrows hcues w hw s
    ((validOpenmpFrom_iff_interleave parts files 0 s).mpr h) k hk o ho

/-- **each row sees each event exactly once, in order** (threading): in every
    valid schedule the micro-steps that address an owned row `o`, in the order
    they are performed, carry exactly the events of all chunk files in file
    order — none skipped, none repeated, none reordered. -/
theorem threading_row_exactly_once {parts : List (List Nat)} (hp : PartsOk parts)
    (files : List (List (Event Nat Nat))) (s : List MicroStep) (hv : ValidThreading parts files s)
    (k : Nat) (hk : k < parts.length) (o : Nat) (ho : o ∈ parts.getD k []) :
    (s.filter (fun st => st.row = o)).map (·.ev) = files.flatten :=
  threading_proj hp files s hv k hk o ho

/-- the same for OpenMP schedules -/
theorem openmp_row_exactly_once {parts : List (List Nat)} (hp : PartsOk parts)
    (files : List (List (Event Nat Nat))) (s : List MicroStep) (hv : ValidOpenmp parts files s)
    (k : Nat) (hk : k < parts.length) (o : Nat) (ho : o ∈ parts.getD k []) :
    (s.filter (fun st => st.row = o)).map (·.ev) = files.flatten :=
  openmp_proj hp files 0 s hv k hk o ho

/-- **the result of a schedule depends only on its per-row projections**: two
    sequences of (well-formed) micro-steps in which every row sees the same
    events in the same order leave the same weights in every row — whatever the
    relative order of steps of different rows. -/
theorem schedule_determined_by_row_projections (n nOut : Nat) (alpha β₁ β₂ lam : R)
    (s s' : List MicroStep) (hok : ∀ st ∈ s, StepOk n nOut st) (hok' : ∀ st ∈ s', StepOk n nOut st)
    (w : Array R) (hw : w.size = n * nOut)
    (hproj : ∀ o, (s.filter (fun st => st.row = o)).map (·.ev) = (s'.filter (fun st => st.row = o)).map (·.ev))
    (o : Nat) :
    rowFn n (execSteps alpha β₁ β₂ lam n w s) o = rowFn n (execSteps alpha β₁ β₂ lam n w s') o := by
  rw [(exec_row n nOut alpha β₁ β₂ lam s hok w hw o).2, (exec_row n nOut alpha β₁ β₂ lam s' hok' w hw o).2,
    hproj o]

/-- **micro-steps of different rows commute**: swapping two adjacent micro-steps
    that address different weight rows, anywhere in a schedule, changes no row
    of the result (the semantic content of `footprint_disjoint`). -/
theorem micro_steps_commute (n nOut : Nat) (alpha β₁ β₂ lam : R) (pre post : List MicroStep)
    (a b : MicroStep) (hab : a.row ≠ b.row)
    (hok : ∀ st ∈ pre ++ a :: b :: post, StepOk n nOut st)
    (w : Array R) (hw : w.size = n * nOut) (o : Nat) :
    rowFn n (execSteps alpha β₁ β₂ lam n w (pre ++ a :: b :: post)) o
      = rowFn n (execSteps alpha β₁ β₂ lam n w (pre ++ b :: a :: post)) o := by
  apply schedule_determined_by_row_projections n nOut alpha β₁ β₂ lam _ _ hok _ w hw
  · intro o'
    simp only [List.filter_append, List.filter_cons, List.map_append]
    by_cases ha : a.row = o' <;> by_cases hb : b.row = o'
    · exact absurd (ha.trans hb.symm) hab
    · simp [ha, hb]
    · simp [ha, hb]
    · simp [ha, hb]
  · intro st hst
    apply hok st
    simp only [List.mem_append, List.mem_cons] at hst ⊢
    tauto

/-! ## The protocol composed with the schedules -/

/-- **the refined protocol refines the work-queue protocol**: forgetting the
    kernel program counters and the `micro` actions, every run of `rStep` is a
    run of `qStep` (the transition system real lock/queue traces are validated
    against) … -/
theorem protocol_refines {α : Type} (prog : Nat → List α) (as : List RAction) (s s' : RState α)
    (out : List α) (h : rRun prog s as = some (s', out)) :
    qRun s.erase (as.filterMap RAction.erase) = some s'.erase :=
  rRun_erase prog as s s' out h

/-- … and conversely every run of the work-queue protocol from the initial
    state is the erasure of a run of the refined protocol: the refinement
    excludes no order in which parts are taken, finished or failed. -/
theorem protocol_lifts {α : Type} (prog : Nat → List α) (p t : Nat) (as : List QAction) (q : QState)
    (h : qRun (qInit p t) as = some q) :
    ∃ (as' : List RAction) (s' : RState α) (out : List α),
      rRun prog (rInit p t) as' = some (s', out) ∧ as'.filterMap RAction.erase = as ∧ s'.erase = q := by
  obtain ⟨as', s', out, h1, h2, h3, _⟩ :=
    qRun_lift prog as (rInit p t) q (unstarted_init prog p t) (by rw [rInit_erase]; exact h)
  exact ⟨as', s', out, h1, h2, h3⟩

/-- **protocol ⇒ interleaving** (any per-part programs).  In every complete run
    of the work-queue protocol with `t ≥ 1` workers (also more workers than
    parts) in which no kernel call failed, the steps performed are an
    operational interleaving of the part programs `prog 0, …, prog (p-1)`: each
    part's program is run exactly once, completely, in its own order — and the
    parts handed out are exactly `0 … p-1`, each once. -/
theorem protocol_run_interleaves {α : Type} (prog : Nat → List α) (p t : Nat) (ht : 1 ≤ t)
    (as : List RAction) (s : RState α) (out : List α)
    (hrun : rRun prog (rInit p t) as = some (s, out))
    (hfin : qFinal s.erase = true) (hok : qRaises s.erase = false) :
    Interleave ((List.range p).map prog) out ∧ s.taken = List.range p :=
  Pyndl.protocol_run_interleaves prog p t ht as s out hrun hfin hok

/-- **what the threading protocol can actually produce is schedule
    independent.**  `parts` the row lists `slice_list` produced, `files` the
    chunk files, `t ≥ 1` worker threads: for EVERY complete run of the refined
    work-queue protocol in which no kernel call failed — every order in which
    workers take parts, every interleaving of the micro-steps of the running
    kernel calls — the micro-steps performed form a valid schedule, every row
    sees every event exactly once in order, and every owned row of the weights
    holds the specification's result. -/
theorem threading_protocol_schedule_independent {parts : List (List Nat)} (hp : PartsOk parts)
    (files : List (List (Event Nat Nat))) (n nOut : Nat) (alpha β₁ β₂ lam : R)
    (hrows : ∀ k, k < parts.length → ∀ o ∈ parts.getD k [], o < nOut)
    (hcues : ∀ e ∈ files.flatten, ∀ c ∈ e.cues, c < n)
    (w : Array R) (hw : w.size = n * nOut)
    (t : Nat) (ht : 1 ≤ t) (as : List RAction) (st : RState MicroStep) (s : List MicroStep)
    (hrun : rRun (fun k => partProgram k (parts.getD k []) files) (rInit parts.length t) as = some (st, s))
    (hfin : qFinal st.erase = true) (hok : qRaises st.erase = false) :
    Interleave (threadingPrograms parts files) s ∧ ValidThreading parts files s ∧
    st.taken = List.range parts.length ∧
    ∀ k, k < parts.length → ∀ o ∈ parts.getD k [],
      (s.filter (fun x => x.row = o)).map (·.ev) = files.flatten ∧
      rowFn n (execSteps alpha β₁ β₂ lam n w s) o
        = rwLearn (fun _ => alpha) β₁ β₂ lam (fun o => rowFn n w o) files.flatten o := by
  obtain ⟨hi, htaken⟩ := Pyndl.protocol_run_interleaves
    (fun k => partProgram k (parts.getD k []) files) parts.length t ht as st s hrun hfin hok
  have hi' : Interleave (threadingPrograms parts files) s := hi
  have hv := interleave_is_valid_threading parts files s hi'
  refine ⟨hi', hv, htaken, ?_⟩
  intro k hk o ho
  exact ⟨threading_proj hp files s hv k hk o ho,
    threading_schedule_independent hp files n nOut alpha β₁ β₂ lam hrows hcues w hw s hv k hk o ho⟩

/-- **exactly once**: in every complete run of the work-queue protocol with at
    least one worker in which no kernel call failed, the parts handed out are
    exactly the parts enqueued, each once, in order — also with more workers
    than parts. (Runs with a failing kernel call end in `raise`: C05.) -/
theorem queue_exactly_once (p t : Nat) (ht : 1 ≤ t) (as : List QAction) (s : QState)
    (hrun : qRun (qInit p t) as = some s) (hfin : qFinal s = true) (hok : qRaises s = false) :
    s.taken = List.range p := by
  obtain ⟨inv, _⟩ := qRun_inv (List.range p) (qInit p t) s as (qInit_inv p t) hrun
  have hlen : s.threads.length = t := by
    have : ∀ (s s' : QState) (as : List QAction), qRun s as = some s' → s'.threads.length = s.threads.length := by
      intro s s' as
      induction as generalizing s with
      | nil => intro h; simp [qRun] at h; subst h; rfl
      | cons a as ih =>
        intro h
        simp only [qRun] at h
        cases hs : qStep s a with
        | none => simp [hs] at h
        | some s₁ =>
          simp only [hs] at h
          rw [ih s₁ h]
          cases a <;> simp only [qStep] at hs <;> split at hs <;> simp at hs <;> subst hs <;> simp
    rw [this _ _ _ hrun]; simp [qInit]
  have h0 : s.threads[0]? = some TState.done := by
    have hlt : 0 < s.threads.length := by omega
    rw [List.getElem?_eq_getElem hlt]
    have h1 := List.all_eq_true.mp hfin (s.threads[0]) (List.getElem_mem hlt)
    have h2 : ¬ (s.threads[0] = TState.failed) := by
      intro e
      have : qRaises s = true := by
        unfold qRaises
        exact List.any_eq_true.mpr ⟨_, List.getElem_mem hlt, by simp [e]⟩
      rw [hok] at this; cases this
    simp only [Bool.or_eq_true, decide_eq_true_eq] at h1
    rcases h1 with h1 | h1
    · rw [h1]
    · exact absurd h1 h2
  have hq := inv.done_empty ⟨0, h0⟩
  have := inv.conserve
  rw [hq, List.append_nil] at this
  exact this

/-- **bounded**: every run of the protocol from the initial state has at most
    `2·parts + threads` transitions — so every fair execution terminates. -/
theorem queue_bounded (p t : Nat) (as : List QAction) (s : QState)
    (hrun : qRun (qInit p t) as = some s) : as.length ≤ 2 * p + t := by
  obtain ⟨_, h⟩ := qRun_inv (List.range p) (qInit p t) s as (qInit_inv p t) hrun
  rw [qInit_measure] at h; omega

/-- **progress**: a state that is not final always has an enabled transition,
    and none of them blocks (`get` is only reached with a non-empty queue). -/
theorem queue_progress (s : QState) (h : qFinal s = false) : ∃ a, (qStep s a).isSome = true := by
  unfold qFinal at h
  have : ∃ x ∈ s.threads, x ≠ TState.done ∧ x ≠ TState.failed := by
    by_contra hc
    have : s.threads.all (fun st => decide (st = TState.done) || decide (st = TState.failed)) = true :=
      List.all_eq_true.mpr (fun x hx => by
        simp only [Bool.or_eq_true, decide_eq_true_eq]
        by_contra hne
        exact hc ⟨x, hx, fun e => hne (Or.inl e), fun e => hne (Or.inr e)⟩)
    rw [this] at h; cases h
  obtain ⟨x, hx, hnd, hnf⟩ := this
  obtain ⟨t, ht, rfl⟩ := List.getElem_of_mem hx
  have hget : s.threads[t]? = some s.threads[t] := List.getElem?_eq_getElem ht
  cases hst : s.threads[t] with
  | atHead =>
    cases hq : s.queue with
    | nil => exact ⟨.exit t, by simp [qStep, hget, hst, hq]⟩
    | cons p rest => exact ⟨.take t, by simp [qStep, hget, hst, hq]⟩
  | running p => exact ⟨.finish t, by simp [qStep, hget, hst]⟩
  | done => exact absurd hst hnd
  | failed => exact absurd hst hnf

/-! non-vacuity of the protocol theorems: a complete run with 2 parts and 3
workers (more workers than parts) exists and ends final. -/
example : ∃ as, (qRun (qInit 2 3) as).map (fun s => (qFinal s, s.taken)) = some (true, [0, 1]) :=
  ⟨[.take 0, .take 2, .exit 1, .finish 2, .finish 0, .exit 0, .exit 2], by decide +kernel⟩

/-! non-vacuity of `protocol_run_interleaves` and
`threading_protocol_schedule_independent`: two parts (rows `[0]` and `[1]`), two
chunk files (two events, one event), two workers.  Worker 1 takes part 0,
worker 0 takes part 1, their micro-steps alternate.  Every hypothesis is
discharged; the run is complete and not raising; the micro-steps performed
belong to parts 0,1,1,0,1,0. -/

def exParts : List (List Nat) := [[0], [1]]
def exFiles : List (List (Event Nat Nat)) := [[⟨[0, 1], [0]⟩, ⟨[1], [1]⟩], [⟨[0], [0, 1]⟩]]
def exProg : Nat → List MicroStep := fun k => partProgram k (exParts.getD k []) exFiles
def exActions : List RAction :=
  [.take 1, .take 0, .micro 1, .micro 0, .micro 0, .micro 1, .micro 0, .finish 0, .micro 1,
   .finish 1, .exit 1, .exit 0]

example :
    (rRun exProg (rInit 2 2) exActions).map
        (fun r => (qFinal r.1.erase, qRaises r.1.erase, r.1.taken, r.2.map (·.part), r.2.map (·.row)))
      = some (true, false, [0, 1], [0, 1, 1, 0, 1, 0], [0, 1, 1, 0, 1, 0]) := by
  decide +kernel

example :
    ∃ st s, rRun exProg (rInit 2 2) exActions = some (st, s) ∧
      Interleave (threadingPrograms exParts exFiles) s ∧ ValidThreading exParts exFiles s ∧
      st.taken = [0, 1] ∧
      ∀ k, k < 2 → ∀ o ∈ exParts.getD k [],
        (s.filter (fun x => x.row = o)).map (·.ev) = exFiles.flatten ∧
        rowFn 2 (execSteps (1 : ℤ) 1 1 1 2 #[0, 0, 0, 0] s) o
          = rwLearn (fun _ => (1 : ℤ)) 1 1 1 (fun o => rowFn 2 (#[0, 0, 0, 0] : Array ℤ) o) exFiles.flatten o := by
  match h : rRun exProg (rInit 2 2) exActions with
  | none => exact absurd h (by decide +kernel)
  | some (st, s) =>
    have hfin : qFinal st.erase = true := by
      have : (rRun exProg (rInit 2 2) exActions).map (fun r => qFinal r.1.erase) = some true := by
        decide +kernel
      rw [h] at this; simpa using this
    have hok : qRaises st.erase = false := by
      have : (rRun exProg (rInit 2 2) exActions).map (fun r => qRaises r.1.erase) = some false := by
        decide +kernel
      rw [h] at this; simpa using this
    exact ⟨st, s, rfl,
      threading_protocol_schedule_independent (R := ℤ) (parts := exParts)
        (partsOk_of_nodup_flatten _ (by decide)) exFiles 2 2 1 1 1 1 (by decide) (by decide)
        #[0, 0, 0, 0] (by decide) 2 (by decide) exActions st s h hfin hok⟩

/-! non-vacuity of `valid_openmp_iff_interleave` / `openmp_any_interleaving`: the
sequential OpenMP reference schedule is such an interleaving; and of
`protocol_lifts`: the protocol run of the example further up (2 parts, 3
workers) is the erasure of a refined run. -/
example : InterleaveOpenmpFrom exParts 0 exFiles (seqOpenmpFrom exParts 0 exFiles) :=
  (valid_openmp_iff_interleave exParts exFiles _).mp (valid_schedules_exist exFiles exParts).2

example : ∃ (as' : List RAction) (s' : RState MicroStep) (out : List MicroStep),
    rRun exProg (rInit 2 3) as' = some (s', out) ∧
    as'.filterMap RAction.erase = [.take 0, .take 2, .exit 1, .finish 2, .finish 0, .exit 0, .exit 2] :=
  match h : qRun (qInit 2 3) [.take 0, .take 2, .exit 1, .finish 2, .finish 0, .exit 0, .exit 2] with
  | none => absurd h (by decide +kernel)
  | some q =>
    let ⟨as', s', out, h1, h2, _⟩ := protocol_lifts exProg 2 3 _ q h
    ⟨as', s', out, h1, h2⟩

end Pyndl.C02


