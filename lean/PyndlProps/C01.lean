/-
  C01 — Learned weights follow the Rescorla–Wagner rule for every event sequence.

  Property theorems only (helper lemmas live in PyndlProofs).  Every theorem is
  for an arbitrary commutative ring `R` of scalars ("up to floating-point
  rounding" = exactly, over ℚ/ℝ), every event list, every parameter value.

  `ndl.ndl`: `ndl_call_eq_spec` (the CALL, success), `ndl_call_labels` (the
  labels are exactly the names that occur), `ndl_label_order_irrelevant` /
  `ndl_any_labels_eq_spec` (any label order, any id order inside an event),
  `ndl_dup_raises`, `ndl_chunk_args_raise`, `ndl_call_empty_openmp` (where it
  RAISES: the hypotheses of the success theorem are sharp).
  Not modelled: `dict_ndl` with an alpha DICT that lacks a cue (`KeyError`; the
  model takes a total function `α`), `n_jobs` (absent from `NdlCfg`).
-/
import PyndlProofs.Dict
import PyndlProofs.Schedule
import PyndlProofs.NdlSpec
import PyndlProofs.NdlCall
import PyndlProofs.Chain
import PyndlProofs.LabelOrder

namespace Pyndl.C01
open Pyndl List

variable {R : Type} [CommRing R]
variable {ι κ : Type} [DecidableEq ι] [DecidableEq κ]

/-- **dict_ndl = specification.** For every initial weight dict, duplicate
    policy and event list the policy accepts, the pure-Python learner returns
    a dict denoting exactly `rwLearn` of the policy-processed events — on every
    (outcome, cue), including names first seen late and outcome-less events. -/
theorem dictNdl_eq_spec (p : DupPolicy) (α : ι → R) (β₁ β₂ lam : R) (W₀ : WDict ι κ R)
    (es es' : List (Event ι κ)) (hp : applyPolicyAll p es = some es') :
    ∃ W, dictNdl p α β₁ β₂ lam W₀ es = some W ∧
      wdAbs W = rwLearn α β₁ β₂ lam (wdAbs W₀) es' :=
  Pyndl.dictNdl_eq_spec p α β₁ β₂ lam W₀ es es' hp

/-- `remove_duplicates=None`: a repeated cue or outcome anywhere ⇒ `ValueError`,
    nothing is returned. -/
theorem policy_error (α : ι → R) (β₁ β₂ lam : R) (W₀ : WDict ι κ R) (es : List (Event ι κ))
    (h : applyPolicyAll .error es = none) : dictNdl .error α β₁ β₂ lam W₀ es = none :=
  Pyndl.dictNdl_raises .error α β₁ β₂ lam W₀ es h

/-- (unfolds `rwRow`; the same fact as C12 `step_delta`) `remove_duplicates=False` counts every repetition: a cue occurring `m` times
    receives `m · α · β · (target − Σ_occurrences w)`. -/
theorem policy_keep (α : ι → R) (β₁ β₂ lam : R) (w : ι → R) (cs : List ι) (present : Bool) (c : ι) :
    rwRow α β₁ β₂ lam w cs present c
      = w c + (cs.count c : R) * (α c *
          (if present then β₁ * (lam - (cs.map w).sum) else β₂ * (0 - (cs.map w).sum))) := by
  rw [rwRow_apply]; rfl

/-- the step depends on the cue list only through its multiset: the iteration
    order of Python's `set` (i.e. `PYTHONHASHSEED`) is irrelevant. -/
theorem dedup_perm_invariant (α : ι → R) (β₁ β₂ lam : R) (W : κ → ι → R)
    (cs cs' : List ι) (os : List κ) (h : cs ~ cs') :
    rwStep α β₁ β₂ lam W ⟨cs, os⟩ = rwStep α β₁ β₂ lam W ⟨cs', os⟩ := by
  funext o
  simp only [rwStep]
  exact rwRow_perm α β₁ β₂ lam (W o) h _

/-- **kernel = specification, row by row, for every schedule (threading).**
    (The same statement as C02 `schedule_independent_threading`, listed here
    because it is the kernel-level half of `ndl_eq_spec`.) -/
theorem kernel_threading_eq_spec {parts : List (List Nat)} (hp : PartsOk parts)
    (files : List (List (Event Nat Nat))) (n nOut : Nat) (alpha β₁ β₂ lam : R)
    (hrows : ∀ k, k < parts.length → ∀ o ∈ parts.getD k [], o < nOut)
    (hcues : ∀ e ∈ files.flatten, ∀ c ∈ e.cues, c < n)
    (w : Array R) (hw : w.size = n * nOut)
    (s : List MicroStep) (hv : ValidThreading parts files s)
    (k : Nat) (hk : k < parts.length) (o : Nat) (ho : o ∈ parts.getD k []) :
    rowFn n (execSteps alpha β₁ β₂ lam n w s) o
      = rwLearn (fun _ => alpha) β₁ β₂ lam (fun o => rowFn n w o) files.flatten o :=
  threading_schedule_independent hp files n nOut alpha β₁ β₂ lam hrows hcues w hw s hv k hk o ho

/-- **kernel = specification, row by row, for every schedule (OpenMP).**
    (The same statement as C02 `schedule_independent_openmp`.) -/
theorem kernel_openmp_eq_spec {parts : List (List Nat)} (hp : PartsOk parts)
    (files : List (List (Event Nat Nat))) (n nOut : Nat) (alpha β₁ β₂ lam : R)
    (hrows : ∀ k, k < parts.length → ∀ o ∈ parts.getD k [], o < nOut)
    (hcues : ∀ e ∈ files.flatten, ∀ c ∈ e.cues, c < n)
    (w : Array R) (hw : w.size = n * nOut)
    (s : List MicroStep) (hv : ValidOpenmp parts files s)
    (k : Nat) (hk : k < parts.length) (o : Nat) (ho : o ∈ parts.getD k []) :
    rowFn n (execSteps alpha β₁ β₂ lam n w s) o
      = rwLearn (fun _ => alpha) β₁ β₂ lam (fun o => rowFn n w o) files.flatten o :=
  openmp_schedule_independent hp files n nOut alpha β₁ β₂ lam hrows hcues w hw s hv k hk o ho

/-- **`ndl.ndl` = specification, end to end.** For every event list the duplicate
    policy accepts (`None` without repeats, `True` de-duplicated, `False` with
    every repetition), both methods, chunking arguments
    `hcfg : CfgOK cfg (number of distinct outcomes)` =
      `2 ≤ events_per_temporary_file < 2³²`, `1 ≤ n_outcomes_per_job`, and for
      OpenMP `n_outcomes + n_outcomes_per_job < 2³²`
    (outside the code RAISES: `ndl_chunk_args_raise`), within the 32-bit limits
    the code itself enforces (`Fits32`): the model of the whole function —
    counting, id maps, duplicate policy on ids, binary chunk files with the
    header constants of preprocess.py read by the kernel reader with the
    constants of ndl_parallel.pyx, kernels per part (OpenMP: part bounds in
    `unsigned int` arithmetic), labelling — returns a matrix whose value at EVERY
    (outcome name, cue name) is the specification on the policy-processed
    events, and reports the number of events.  The labels: `ndl_call_labels`.
    Not in the model, hence independence BY CONSTRUCTION: `n_jobs` (of the
    counting stage, the conversion pool and the learner threads; schedules are
    C02, the pool is C04).  Independence of the label ORDER the counting stage
    produces and of the id order inside an event: `ndl_label_order_irrelevant`. -/
theorem ndl_eq_spec (cfg : NdlCfg) (alpha β₁ β₂ lam : R)
    (es es' : List (Event String String)) (hcfg : CfgOK cfg (countNames es).2.length)
    (hp : applyPolicyAll cfg.policy es = some es') (hfit : Fits32 es) :
    ∃ w, ndlModel Generated.pyMagic Generated.pyVersion cfg alpha β₁ β₂ lam none es = .ok (w, es.length) ∧
      ∀ o c, w.get o c = rwLearn (fun _ => alpha) β₁ β₂ lam (fun _ _ => (0 : R)) es' o c :=
  ndlModel_eq_spec Generated.pyMagic Generated.pyVersion (by decide) (by decide) cfg alpha β₁ β₂ lam
    es es' hcfg hp hfit

/-- **the call itself** (`ndlCall`: `ndlModel` plus what `ndl.ndl` does on an event
    file with zero events): for every NON-EMPTY event list — the property's
    quantifier starts at one event — the call is `ndlModel`, hence the
    specification.  This is the statement the correspondence run exercises (the
    driver evaluates `ndlCall`). -/
theorem ndl_call_eq_spec (cfg : NdlCfg) (alpha β₁ β₂ lam : R)
    (es es' : List (Event String String)) (hne : es ≠ []) (hcfg : CfgOK cfg (countNames es).2.length)
    (hp : applyPolicyAll cfg.policy es = some es') (hfit : Fits32 es) :
    ∃ w, ndlCall Generated.pyMagic Generated.pyVersion cfg alpha β₁ β₂ lam none es = .ok (w, es.length) ∧
      ∀ o c, w.get o c = rwLearn (fun _ => alpha) β₁ β₂ lam (fun _ _ => (0 : R)) es' o c :=
  ndlCall_eq_spec _ _ (by decide) (by decide) cfg alpha β₁ β₂ lam es es' hne hcfg hp hfit

/-- **the labels of the result are EXACTLY the names that occur**, each once, in
    the order the counting stage produced them: whatever the call returns is
    labelled with `countNames es`; a cue (outcome) is a label iff some event
    mentions it.  (`ndl_call_eq_spec` reads the matrix through its labels and
    returns 0 off them; together with this theorem a result that dropped, say,
    an all-zero row or added a row does NOT satisfy the statement.) -/
theorem ndl_call_labels (cfg : NdlCfg) (alpha β₁ β₂ lam : R) (es : List (Event String String))
    (w : LW R) (n : Nat)
    (h : ndlCall Generated.pyMagic Generated.pyVersion cfg alpha β₁ β₂ lam none es = .ok (w, n)) :
    w.cues = (countNames es).1 ∧ w.outcomes = (countNames es).2 ∧ w.cues.Nodup ∧ w.outcomes.Nodup ∧
    (∀ c, c ∈ w.cues ↔ ∃ e ∈ es, c ∈ e.cues) ∧ (∀ o, o ∈ w.outcomes ↔ ∃ e ∈ es, o ∈ e.outcomes) := by
  obtain ⟨lc, lo⟩ := ndlModel_labels _ _ cfg alpha β₁ β₂ lam none es w n (ndlCall_ok _ _ _ _ _ _ _ _ _ _ h)
  simp only at lc lo
  refine ⟨lc, lo, by rw [lc]; exact (countNames_nodup es).1, by rw [lo]; exact (countNames_nodup es).2, ?_, ?_⟩
  · intro c
    rw [lc]
    unfold countNames
    rw [mem_dedupKeepFirst, List.mem_flatMap]
  · intro o
    rw [lo]
    unfold countNames
    rw [mem_dedupKeepFirst, List.mem_flatMap]

/-- **the result does not depend on the label order nor on the order of the ids
    inside an event** (= on `n_jobs` of the counting stage, whose merged
    `Counter` fixes the id maps, and on the hash seed, which fixes the iteration
    order of `set(ids)` under `remove_duplicates=True`).  `ndlModelWith` is
    `ndl.ndl` with the label lists `cues`, `outs` and the per-event reordering as
    PARAMETERS (`ndlModel` = first-occurrence order, ids as written:
    `ndlModelWith_countNames`).  For every permutation of the labels and every
    per-event permutation of the ids it succeeds, is labelled as given, and
    denotes the same weight function as `ndlModel` — at every pair of names. -/
theorem ndl_label_order_irrelevant (reorder : Event Nat Nat → Event Nat Nat)
    (hre : ∀ e, (reorder e).cues ~ e.cues ∧ (reorder e).outcomes ~ e.outcomes)
    (cfg : NdlCfg) (alpha β₁ β₂ lam : R) (es es' : List (Event String String))
    (cues outs : List String) (hpc : cues ~ (countNames es).1) (hpo : outs ~ (countNames es).2)
    (hcfg : CfgOK cfg (countNames es).2.length)
    (hp : applyPolicyAll cfg.policy es = some es') (hfit : Fits32 es) :
    ∃ w w₀, ndlModelWith reorder Generated.pyMagic Generated.pyVersion cfg alpha β₁ β₂ lam cues outs es
        = .ok (w, es.length) ∧
      ndlModel Generated.pyMagic Generated.pyVersion cfg alpha β₁ β₂ lam none es = .ok (w₀, es.length) ∧
      w.cues = cues ∧ w.outcomes = outs ∧
      ∀ o c, w.get o c = w₀.get o c :=
  ndlModelWith_order_irrelevant reorder hre _ _ (by decide) (by decide) cfg alpha β₁ β₂ lam es es' cues outs
    hpc hpo hcfg hp hfit

/-- the stronger form: ANY label lists that contain the names (no permutation, no
    `Nodup` needed) give the specification, read through the labels -/
theorem ndl_any_labels_eq_spec (reorder : Event Nat Nat → Event Nat Nat)
    (hre : ∀ e, (reorder e).cues ~ e.cues ∧ (reorder e).outcomes ~ e.outcomes)
    (cfg : NdlCfg) (alpha β₁ β₂ lam : R) (cues outs : List String) (hcfg : CfgOK cfg outs.length)
    (hnc : cues.length < 4294967296) (hno : outs.length < 4294967296)
    (es es' : List (Event String String)) (hp : applyPolicyAll cfg.policy es = some es')
    (hmemc : ∀ e ∈ es, ∀ c ∈ e.cues, c ∈ cues) (hmemo : ∀ e ∈ es, ∀ o ∈ e.outcomes, o ∈ outs)
    (hn : es.length < 4294967296)
    (hpe : ∀ e ∈ es, e.cues.length < 4294967296 ∧ e.outcomes.length < 4294967296) :
    ∃ w, ndlModelWith reorder Generated.pyMagic Generated.pyVersion cfg alpha β₁ β₂ lam cues outs es
        = .ok (w, es.length) ∧ w.cues = cues ∧ w.outcomes = outs ∧
      ∀ o c, w.get o c = rwLearn (fun _ => alpha) β₁ β₂ lam (fun _ _ => (0 : R)) es' o c :=
  ndlModelWith_eq_spec reorder hre _ _ (by decide) (by decide) cfg alpha β₁ β₂ lam cues outs hcfg hnc hno
    es es' hp hmemc hmemo hn hpe

/-- **`remove_duplicates=None` raises** (and any policy on the events it rejects):
    a repeated cue or outcome ANYWHERE in the file ⇒ `ValueError` — every method,
    every `n_outcomes_per_job`, every legal `events_per_temporary_file`, with or
    without initial weights.  Nothing is returned. -/
theorem ndl_dup_raises (cfg : NdlCfg) (hper : 2 ≤ cfg.perFile) (hperU : cfg.perFile < 4294967296)
    (alpha β₁ β₂ lam : R) (W0 : Option (LW R)) (es : List (Event String String))
    (h : applyPolicyAll cfg.policy es = none) :
    ndlCall Generated.pyMagic Generated.pyVersion cfg alpha β₁ β₂ lam W0 es = .error .value :=
  ndlCall_dup_raises _ _ cfg alpha β₁ β₂ lam W0 es hper hperU h

/-- **outside `CfgOK` the call RAISES** (the bounds of `ndl_eq_spec` are sharp;
    `.other` is what the harness calls every exception that is none of
    Value/IO/Key/TypeError — here `OverflowError` and `ZeroDivisionError`):
    * `events_per_temporary_file < 2`: `ValueError`; `≥ 2³²`: `OverflowError`
      (`to_bytes(stop - start)` in every conversion job) — for every event file,
      also an empty one, and every policy;
    and, when the conversion goes through (`hp`, `hfit`, legal chunk size),
    * threading, `n_outcomes_per_job = 0`: `ValueError` (`slice_list`);
    * OpenMP, `n_outcomes_per_job ≥ 2³²`: `OverflowError` (`unsigned int chunksize`);
    * OpenMP, `n_outcomes_per_job = 0`, at least one event: `ZeroDivisionError`. -/
theorem ndl_chunk_args_raise (cfg : NdlCfg) (alpha β₁ β₂ lam : R) (W0 : Option (LW R))
    (es es' : List (Event String String)) :
    (cfg.perFile < 2 →
      ndlCall Generated.pyMagic Generated.pyVersion cfg alpha β₁ β₂ lam W0 es = .error .value) ∧
    (4294967296 ≤ cfg.perFile →
      ndlCall Generated.pyMagic Generated.pyVersion cfg alpha β₁ β₂ lam W0 es = .error .other) ∧
    (2 ≤ cfg.perFile → cfg.perFile < 4294967296 → applyPolicyAll cfg.policy es = some es' → Fits32 es →
      (cfg.method = .threading → cfg.perJob < 1 →
        ndlCall Generated.pyMagic Generated.pyVersion cfg alpha β₁ β₂ lam none es = .error .value) ∧
      (cfg.method = .openmp → 4294967296 ≤ cfg.perJob →
        ndlCall Generated.pyMagic Generated.pyVersion cfg alpha β₁ β₂ lam none es = .error .other) ∧
      (cfg.method = .openmp → cfg.perJob < 1 → es ≠ [] →
        ndlCall Generated.pyMagic Generated.pyVersion cfg alpha β₁ β₂ lam none es = .error .other)) := by
  refine ⟨fun h => ndlCall_error _ _ _ _ _ _ _ _ _ _ ?_,
    fun h => ndlCall_perFile_overflow _ _ cfg alpha β₁ β₂ lam W0 es h, ?_⟩
  · cases W0 with
    | none => rw [ndlModel_none]; exact ndlCore_perFile_small _ _ _ _ _ _ _ _ _ _ _ h
    | some w => rw [ndlModel_some]; exact ndlCore_perFile_small _ _ _ _ _ _ _ _ _ _ _ h
  · intro hper hperU hp hfit
    obtain ⟨a, b, c⟩ := ndlModel_perJob_errors Generated.pyMagic Generated.pyVersion (by decide) (by decide)
      cfg alpha β₁ β₂ lam hper hperU es es' hp hfit
    exact ⟨fun h1 h2 => ndlCall_error _ _ _ _ _ _ _ _ _ _ (a h1 h2),
      fun h1 h2 => ndlCall_error _ _ _ _ _ _ _ _ _ _ (b h1 h2),
      fun h1 h2 h3 => ndlCall_error _ _ _ _ _ _ _ _ _ _ (c h1 h2 h3)⟩

/-- **outside the quantifier, recorded because the learners differ there**: on an
    event file with ZERO events the OpenMP method raises `IOError` (no chunk file
    is written, the kernel entry point reports its initial error code:
    `C06.empty_file_list_raises`), whereas `dict_ndl` returns the weights it was
    given and the threading method returns the empty matrix when called without
    `weights=` (`ndlCall_empty_threading`). -/
theorem ndl_call_empty_openmp (cfg : NdlCfg) (hm : cfg.method = .openmp) (hper : 2 ≤ cfg.perFile)
    (hperU : cfg.perFile < 4294967296) (hjob : cfg.perJob < 4294967296) (alpha β₁ β₂ lam : R)
    (W0 : Option (LW R)) :
    ndlCall Generated.pyMagic Generated.pyVersion cfg alpha β₁ β₂ lam W0 [] = .error .io :=
  ndlCall_nil_raises _ _ cfg alpha β₁ β₂ lam W0 hper hperU (fun h => by rw [hm] at h; cases h)
    (fun _ => hjob) (Or.inl hm)

/-! Non-vacuity: a concrete 3-event sequence with a repeated cue, an outcome
first seen late, an outcome-less event, β₁ ≠ β₂ and λ ≠ 1, evaluated in ℤ
(cues 0,1; outcomes 10,11): the hypotheses of `dictNdl_eq_spec` are met and the
result is not trivial. -/
example :
    let es : List (Event Nat Nat) := [⟨[0, 1], [10]⟩, ⟨[0, 0], []⟩, ⟨[1], [11, 10]⟩]
    applyPolicyAll .keep es = some es ∧
    (dictNdl .keep (fun _ => (1 : ℤ)) 2 3 5 [] es).map
        (fun W => (wdAbs W 10 0, wdAbs W 10 1, wdAbs W 11 1, wdAbs W 11 0))
      = some (-110, 0, 10, 0) := by
  decide +kernel


/-! Non-vacuity of `ndl_call_eq_spec`, fully instantiated: three events with a
cue repeated inside an event (policy `True` removes it), an outcome first seen
late, an event without outcomes; OpenMP with one outcome per job, two events
per file (two chunk files); α = 1, β₁ = 2, β₂ = 3, λ = 5 over ℤ.  The theorem
itself is applied. -/
def exEvents : List (Event String String) :=
  [⟨["a", "b"], ["x"]⟩, ⟨["a", "a"], []⟩, ⟨["b"], ["y", "x"]⟩]

example :
    ∃ w, ndlCall Generated.pyMagic Generated.pyVersion ⟨.dedup, .openmp, 1, 2⟩ (1 : ℤ) 2 3 5 none exEvents
        = .ok (w, 3) ∧
      ∀ o c, w.get o c = rwLearn (fun _ => (1 : ℤ)) 2 3 5 (fun _ _ => 0)
        [⟨["a", "b"], ["x"]⟩, ⟨["a"], []⟩, ⟨["b"], ["y", "x"]⟩] o c :=
  ndl_call_eq_spec ⟨.dedup, .openmp, 1, 2⟩ 1 2 3 5 exEvents _ (by decide) (by decide +kernel)
    (by decide +kernel) ⟨by decide +kernel, by decide +kernel, by decide +kernel, by decide +kernel⟩

/-- … the values are not trivial, and the labels are the names in order of first
    occurrence -/
example :
    (match ndlCall Generated.pyMagic Generated.pyVersion ⟨.dedup, .openmp, 1, 2⟩ (1 : ℤ) 2 3 5 none exEvents with
     | .ok (w, k) => some (w.outcomes, w.cues, w.vals, k) | .error _ => none)
      = some (["x", "y"], ["a", "b"], #[-20, 0,  0, 10], 3) := by decide +kernel

/-- … under `remove_duplicates=None` the same file raises `ValueError`
    (`ndl_dup_raises` applied), and `events_per_temporary_file = 2³²` raises
    `OverflowError` (`ndl_chunk_args_raise` applied) -/
example :
    ndlCall Generated.pyMagic Generated.pyVersion ⟨.error, .openmp, 1, 2⟩ (1 : ℤ) 2 3 5 none exEvents
      = .error .value ∧
    ndlCall Generated.pyMagic Generated.pyVersion ⟨.dedup, .threading, 1, 4294967296⟩ (1 : ℤ) 2 3 5 none exEvents
      = .error .other :=
  ⟨ndl_dup_raises ⟨.error, .openmp, 1, 2⟩ (by decide) (by decide) 1 2 3 5 none exEvents (by decide +kernel),
   (ndl_chunk_args_raise ⟨.dedup, .threading, 1, 4294967296⟩ 1 2 3 5 none exEvents []).2.1 (by decide)⟩

/-- non-vacuity of `ndl_label_order_irrelevant`: the labels of `exEvents` in
    REVERSED order and every event's ids reversed — the theorem applied; the
    array differs (rows / columns permuted), the denoted weights do not -/
example :
    ∃ w w₀, ndlModelWith (fun e => ⟨e.cues.reverse, e.outcomes.reverse⟩) Generated.pyMagic Generated.pyVersion
        ⟨.dedup, .openmp, 1, 2⟩ (1 : ℤ) 2 3 5 ["b", "a"] ["y", "x"] exEvents = .ok (w, 3) ∧
      ndlModel Generated.pyMagic Generated.pyVersion ⟨.dedup, .openmp, 1, 2⟩ (1 : ℤ) 2 3 5 none exEvents
        = .ok (w₀, 3) ∧
      w.cues = ["b", "a"] ∧ w.outcomes = ["y", "x"] ∧ ∀ o c, w.get o c = w₀.get o c :=
  ndl_label_order_irrelevant (fun e => ⟨e.cues.reverse, e.outcomes.reverse⟩)
    (fun e => ⟨List.reverse_perm _, List.reverse_perm _⟩) ⟨.dedup, .openmp, 1, 2⟩ 1 2 3 5 exEvents
    [⟨["a", "b"], ["x"]⟩, ⟨["a"], []⟩, ⟨["b"], ["y", "x"]⟩] ["b", "a"] ["y", "x"] (by decide +kernel) (by decide +kernel) (by decide +kernel) (by decide +kernel)
    ⟨by decide +kernel, by decide +kernel, by decide +kernel, by decide +kernel⟩

example :
    (match ndlModelWith (fun e => ⟨e.cues.reverse, e.outcomes.reverse⟩) Generated.pyMagic Generated.pyVersion
        ⟨.dedup, .openmp, 1, 2⟩ (1 : ℤ) 2 3 5 ["b", "a"] ["y", "x"] exEvents with
     | .ok (w, k) => some (w.outcomes, w.cues, w.vals, k) | .error _ => none)
      = some (["y", "x"], ["b", "a"], #[10, 0,  0, -20], 3) := by decide +kernel

end Pyndl.C01
