/-
  C01 — Learned weights follow the Rescorla–Wagner rule for every event sequence.

  Property theorems only (helper lemmas live in PyndlProofs).  Every theorem is
  for an arbitrary commutative ring `R` of scalars ("up to floating-point
  rounding" = exactly, over ℚ/ℝ), every event list, every parameter value.
-/
import PyndlProofs.Dict
import PyndlProofs.Schedule
import PyndlProofs.NdlSpec
import PyndlProofs.NdlCall

namespace Pyndl.C01
open Pyndl List

variable {R : Type} [CommRing R]
variable {ι κ : Type} [DecidableEq ι] [DecidableEq κ]

/-- **dict_ndl = specification.** For every initial weight dict, duplicate
    policy and event list the policy accepts, the pure-Python learner returns
    a dict denoting exactly `rwLearn` of the policy-processed events — on every
    (outcome, cue), including names first seen late and outcome-less events. -/
theorem dictNdl_eq_spec (p : DupPolicy) (α : ι → R) (β₁ β₂ lam : R) (W₀ : WDict ι κ R)
    (es es' : List (Event ι κ)) (hp : applyPolicyAll p es = some es') :
    ∃ W, dictNdl p α β₁ β₂ lam W₀ es = some W ∧
      wdAbs W = rwLearn α β₁ β₂ lam (wdAbs W₀) es' :=
  Pyndl.dictNdl_eq_spec p α β₁ β₂ lam W₀ es es' hp

/-- `remove_duplicates=None`: a repeated cue or outcome anywhere ⇒ `ValueError`,
    nothing is returned. -/
theorem policy_error (α : ι → R) (β₁ β₂ lam : R) (W₀ : WDict ι κ R) (es : List (Event ι κ))
    (h : applyPolicyAll .error es = none) : dictNdl .error α β₁ β₂ lam W₀ es = none :=
  Pyndl.dictNdl_raises .error α β₁ β₂ lam W₀ es h

/-- `remove_duplicates=False` counts every repetition: a cue occurring `m` times
    receives `m · α · β · (target − Σ_occurrences w)`. -/
theorem policy_keep (α : ι → R) (β₁ β₂ lam : R) (w : ι → R) (cs : List ι) (present : Bool) (c : ι) :
    rwRow α β₁ β₂ lam w cs present c
      = w c + (cs.count c : R) * (α c *
          (if present then β₁ * (lam - (cs.map w).sum) else β₂ * (0 - (cs.map w).sum))) := by
  rw [rwRow_apply]; rfl

/-- the step depends on the cue list only through its multiset: the iteration
    order of Python's `set` (i.e. `PYTHONHASHSEED`) is irrelevant. -/
theorem dedup_perm_invariant (α : ι → R) (β₁ β₂ lam : R) (W : κ → ι → R)
    (cs cs' : List ι) (os : List κ) (h : cs ~ cs') :
    rwStep α β₁ β₂ lam W ⟨cs, os⟩ = rwStep α β₁ β₂ lam W ⟨cs', os⟩ := by
  funext o
  simp only [rwStep]
  exact rwRow_perm α β₁ β₂ lam (W o) h _

/-- **kernel = specification, row by row, for every schedule (threading).** -/
theorem kernel_threading_eq_spec {parts : List (List Nat)} (hp : PartsOk parts)
    (files : List (List (Event Nat Nat))) (n nOut : Nat) (alpha β₁ β₂ lam : R)
    (hrows : ∀ k, k < parts.length → ∀ o ∈ parts.getD k [], o < nOut)
    (hcues : ∀ e ∈ files.flatten, ∀ c ∈ e.cues, c < n)
    (w : Array R) (hw : w.size = n * nOut)
    (s : List MicroStep) (hv : ValidThreading parts files s)
    (k : Nat) (hk : k < parts.length) (o : Nat) (ho : o ∈ parts.getD k []) :
    rowFn n (execSteps alpha β₁ β₂ lam n w s) o
      = rwLearn (fun _ => alpha) β₁ β₂ lam (fun o => rowFn n w o) files.flatten o :=
  threading_schedule_independent hp files n nOut alpha β₁ β₂ lam hrows hcues w hw s hv k hk o ho

/-- **kernel = specification, row by row, for every schedule (OpenMP).** -/
theorem kernel_openmp_eq_spec {parts : List (List Nat)} (hp : PartsOk parts)
    (files : List (List (Event Nat Nat))) (n nOut : Nat) (alpha β₁ β₂ lam : R)
    (hrows : ∀ k, k < parts.length → ∀ o ∈ parts.getD k [], o < nOut)
    (hcues : ∀ e ∈ files.flatten, ∀ c ∈ e.cues, c < n)
    (w : Array R) (hw : w.size = n * nOut)
    (s : List MicroStep) (hv : ValidOpenmp parts files s)
    (k : Nat) (hk : k < parts.length) (o : Nat) (ho : o ∈ parts.getD k []) :
    rowFn n (execSteps alpha β₁ β₂ lam n w s) o
      = rwLearn (fun _ => alpha) β₁ β₂ lam (fun o => rowFn n w o) files.flatten o :=
  openmp_schedule_independent hp files n nOut alpha β₁ β₂ lam hrows hcues w hw s hv k hk o ho

/-- **`ndl.ndl` = specification, end to end, with the right labels.** For every
    event list the duplicate policy accepts (`None` without repeats, `True`
    de-duplicated, `False` with every repetition), both methods, every
    `n_outcomes_per_job ≥ 1` and `events_per_temporary_file ≥ 2`, within the
    32-bit limits the code itself enforces: the model of the whole function —
    counting, id maps, duplicate policy on ids, binary chunk files with the
    header constants of preprocess.py read by the kernel reader with the
    constants of ndl_parallel.pyx, kernels per part, labelling — returns a
    matrix whose value at EVERY (outcome name, cue name) is the specification
    on the policy-processed events, and reports the number of events. -/
theorem ndl_eq_spec (cfg : NdlCfg) (hper : 2 ≤ cfg.perFile) (hjob : 1 ≤ cfg.perJob) (alpha β₁ β₂ lam : R)
    (es es' : List (Event String String)) (hp : applyPolicyAll cfg.policy es = some es') (hfit : Fits32 es) :
    ∃ w, ndlModel Generated.pyMagic Generated.pyVersion cfg alpha β₁ β₂ lam none es = .ok (w, es.length) ∧
      ∀ o c, w.get o c = rwLearn (fun _ => alpha) β₁ β₂ lam (fun _ _ => (0 : R)) es' o c :=
  ndlModel_eq_spec Generated.pyMagic Generated.pyVersion (by decide) (by decide) cfg hper hjob alpha β₁ β₂ lam
    es es' hp hfit

/-- **the call itself** (`ndlCall`: `ndlModel` plus what `ndl.ndl` does on an event
    file with zero events): for every NON-EMPTY event list — the property's
    quantifier starts at one event — the call is `ndlModel`, hence the
    specification.  This is the statement the correspondence run exercises (the
    driver evaluates `ndlCall`). -/
theorem ndl_call_eq_spec (cfg : NdlCfg) (hper : 2 ≤ cfg.perFile) (hjob : 1 ≤ cfg.perJob) (alpha β₁ β₂ lam : R)
    (es es' : List (Event String String)) (hne : es ≠ [])
    (hp : applyPolicyAll cfg.policy es = some es') (hfit : Fits32 es) :
    ∃ w, ndlCall Generated.pyMagic Generated.pyVersion cfg alpha β₁ β₂ lam none es = .ok (w, es.length) ∧
      ∀ o c, w.get o c = rwLearn (fun _ => alpha) β₁ β₂ lam (fun _ _ => (0 : R)) es' o c := by
  rw [ndlCall_nonempty _ _ _ _ _ _ _ _ _ hne]
  exact ndl_eq_spec cfg hper hjob alpha β₁ β₂ lam es es' hp hfit

/-- **outside the quantifier, recorded because the learners differ there**: on an
    event file with ZERO events the OpenMP method raises `IOError` (no chunk file
    is written, the kernel entry point reports its initial error code), whereas
    `dict_ndl` returns the weights it was given and the threading method returns
    the empty matrix when called without `weights=` (`ndlCall_empty_threading`). -/
theorem ndl_call_empty_openmp (cfg : NdlCfg) (hm : cfg.method = .openmp) (hper : 2 ≤ cfg.perFile)
    (hjob : 1 ≤ cfg.perJob) (alpha β₁ β₂ lam : R) :
    ndlCall Generated.pyMagic Generated.pyVersion cfg alpha β₁ β₂ lam none [] = .error .io := by
  obtain ⟨w, hw, _⟩ := ndl_eq_spec cfg hper hjob alpha β₁ β₂ lam [] [] (by cases cfg.policy <;> rfl)
    ⟨by decide, by decide, by decide, by intro e he; cases he⟩
  exact ndlCall_empty_openmp _ _ cfg hm alpha β₁ β₂ lam none _ hw

/-! Non-vacuity: a concrete 3-event sequence with a repeated cue, an outcome
first seen late, an outcome-less event, β₁ ≠ β₂ and λ ≠ 1, evaluated in ℤ
(cues 0,1; outcomes 10,11): the hypotheses of `dictNdl_eq_spec` are met and the
result is not trivial. -/
example :
    let es : List (Event Nat Nat) := [⟨[0, 1], [10]⟩, ⟨[0, 0], []⟩, ⟨[1], [11, 10]⟩]
    applyPolicyAll .keep es = some es ∧
    (dictNdl .keep (fun _ => (1 : ℤ)) 2 3 5 [] es).map
        (fun W => (wdAbs W 10 0, wdAbs W 10 1, wdAbs W 11 1, wdAbs W 11 0))
      = some (-110, 0, 10, 0) := by
  decide +kernel

end Pyndl.C01
