/-
  C01 — Learned weights follow the Rescorla–Wagner rule for every event sequence.

  Property theorems only (helper lemmas live in PyndlProofs).  Every theorem is
  for an arbitrary commutative ring `R` of scalars ("up to floating-point
  rounding" = exactly, over ℚ/ℝ), every event list, every parameter value.

  `ndl.ndl` reads its events from a text event FILE (a path, or the spool file
  of a generator): an event without outcomes (or cues) reaches it with the one
  name `""` on that side.  Two equivalent ways to say so, both here:
  * `ndl_file_eq_spec`, `ndl_file_labels` — about `ndlCallFile … es =
    ndlCall … (es.map fileNorm)`, for EVERY event list `es` (what the driver
    should evaluate);
  * `ndl_call_eq_spec`, `ndl_call_labels`, `ndl_eq_spec`,
    `ndl_label_order_irrelevant`, `ndl_any_labels_eq_spec` — about `ndlCall` /
    `ndlModel` applied to the list directly, under `hfile : FileEvents es`
    (every event has ≥ 1 cue and ≥ 1 outcome; decidable).  The PROOFS do not use
    `hfile`; it delimits where model = code (without it `ndl_call_labels` is
    false about the code: `[⟨["a"], []⟩]` is labelled `[""]` by `ndl.ndl`).
    (The earlier versions lacked it, and the example list `exEvents` had an
    event with `outcomes = []`.)
  `dict_ndl` on an in-memory list does NOT normalise (`dictNdl_eq_spec` is for
  every list); on a path it reads the same file, i.e. `es.map fileNorm`.

  Where `ndl.ndl` RAISES: `ndl_dup_raises`, `ndl_chunk_args_raise`,
  `ndl_continue_chunk_args_raise`, `ndl_call_empty_openmp`,
  `ndl_zero_events_rule`.  Together with the success theorems they cover every
  argument combination EXCEPT one: OpenMP with
  `⌈n_outcomes / n_outcomes_per_job⌉ · n_outcomes_per_job ≥ 2³²` (`CfgOK.omp32`
  fails, no exception is raised; the code silently skips the rows of the last
  part — `ompBounds32_wraps_example`; needs > 2³¹ outcomes).  (An earlier
  header called the bounds of `CfgOK` "sharp"; with the earlier clause
  `n_outcomes + n_outcomes_per_job < 2³²` that was untrue: for
  `n_outcomes_per_job ∈ [2³² − n_outcomes, 2³²)` the call succeeds.  `CfgOK` now
  carries the exact no-wrap condition.)
  Not modelled: `dict_ndl` with an alpha DICT that lacks a cue (`KeyError`; the
  model takes a total function `α`), `n_jobs` (absent from `NdlCfg`);
  `Err.other` merges `OverflowError` and `ZeroDivisionError` (as the harness'
  `classify` does).
-/
import PyndlProofs.Dict
import PyndlProofs.Schedule
import PyndlProofs.NdlSpec
import PyndlProofs.NdlCall
import PyndlProofs.Chain
import PyndlProofs.LabelOrder
import PyndlProofs.FileEvents
import PyndlProofs.NdlEntry

set_option linter.unusedVariables false

namespace Pyndl.C01
open Pyndl List

variable {R : Type} [CommRing R]
variable {ι κ : Type} [DecidableEq ι] [DecidableEq κ]

/-- **dict_ndl = specification.** For every initial weight dict, duplicate
    policy and event list the policy accepts, the pure-Python learner returns
    a dict denoting exactly `rwLearn` of the policy-processed events — on every
    (outcome, cue), including names first seen late and outcome-less events. -/
theorem dictNdl_eq_spec (p : DupPolicy) (α : ι → R) (β₁ β₂ lam : R) (W₀ : WDict ι κ R)
    (es es' : List (Event ι κ)) (hp : applyPolicyAll p es = some es') :
    ∃ W, dictNdl p α β₁ β₂ lam W₀ es = some W ∧
      wdAbs W = rwLearn α β₁ β₂ lam (wdAbs W₀) es' :=
  Pyndl.dictNdl_eq_spec p α β₁ β₂ lam W₀ es es' hp

/-- `remove_duplicates=None`: a repeated cue or outcome anywhere ⇒ `ValueError`,
    nothing is returned. -/
theorem policy_error (α : ι → R) (β₁ β₂ lam : R) (W₀ : WDict ι κ R) (es : List (Event ι κ))
    (h : applyPolicyAll .error es = none) : dictNdl .error α β₁ β₂ lam W₀ es = none :=
  Pyndl.dictNdl_raises .error α β₁ β₂ lam W₀ es h

/-- (unfolds `rwRow`; the same fact as C12 `step_delta`) `remove_duplicates=False` counts every repetition: a cue occurring `m` times
    receives `m · α · β · (target − Σ_occurrences w)`. -/
theorem policy_keep (α : ι → R) (β₁ β₂ lam : R) (w : ι → R) (cs : List ι) (present : Bool) (c : ι) :
    rwRow α β₁ β₂ lam w cs present c
      = w c + (cs.count c : R) * (α c *
          (if present then β₁ * (lam - (cs.map w).sum) else β₂ * (0 - (cs.map w).sum))) := by
  rw [rwRow_apply]; rfl

/-- the step depends on the cue list only through its multiset: the iteration
    order of Python's `set` (i.e. `PYTHONHASHSEED`) is irrelevant. -/
theorem dedup_perm_invariant (α : ι → R) (β₁ β₂ lam : R) (W : κ → ι → R)
    (cs cs' : List ι) (os : List κ) (h : cs ~ cs') :
    rwStep α β₁ β₂ lam W ⟨cs, os⟩ = rwStep α β₁ β₂ lam W ⟨cs', os⟩ := by
  funext o
  simp only [rwStep]
  exact rwRow_perm α β₁ β₂ lam (W o) h _

/-- **kernel = specification, row by row, for every schedule (threading).**
    (The same statement as C02 `schedule_independent_threading`, listed here
    because it is the kernel-level half of `ndl_eq_spec`.) -/
theorem kernel_threading_eq_spec {parts : List (List Nat)} (hp : PartsOk parts)
    (files : List (List (Event Nat Nat))) (n nOut : Nat) (alpha β₁ β₂ lam : R)
    (hrows : ∀ k, k < parts.length → ∀ o ∈ parts.getD k [], o < nOut)
    (hcues : ∀ e ∈ files.flatten, ∀ c ∈ e.cues, c < n)
    (w : Array R) (hw : w.size = n * nOut)
    (s : List MicroStep) (hv : ValidThreading parts files s)
    (k : Nat) (hk : k < parts.length) (o : Nat) (ho : o ∈ parts.getD k []) :
    rowFn n (execSteps alpha β₁ β₂ lam n w s) o
      = rwLearn (fun _ => alpha) β₁ β₂ lam (fun o => rowFn n w o) files.flatten o :=
  threading_schedule_independent hp files n nOut alpha β₁ β₂ lam hrows hcues w hw s hv k hk o ho

/-- **kernel = specification, row by row, for every schedule (OpenMP).**
    (The same statement as C02 `schedule_independent_openmp`.) -/
theorem kernel_openmp_eq_spec {parts : List (List Nat)} (hp : PartsOk parts)
    (files : List (List (Event Nat Nat))) (n nOut : Nat) (alpha β₁ β₂ lam : R)
    (hrows : ∀ k, k < parts.length → ∀ o ∈ parts.getD k [], o < nOut)
    (hcues : ∀ e ∈ files.flatten, ∀ c ∈ e.cues, c < n)
    (w : Array R) (hw : w.size = n * nOut)
    (s : List MicroStep) (hv : ValidOpenmp parts files s)
    (k : Nat) (hk : k < parts.length) (o : Nat) (ho : o ∈ parts.getD k []) :
    rowFn n (execSteps alpha β₁ β₂ lam n w s) o
      = rwLearn (fun _ => alpha) β₁ β₂ lam (fun o => rowFn n w o) files.flatten o :=
  openmp_schedule_independent hp files n nOut alpha β₁ β₂ lam hrows hcues w hw s hv k hk o ho

/-- **`ndl.ndl` = specification, end to end.** For every event list the duplicate
    policy accepts (`None` without repeats, `True` de-duplicated, `False` with
    every repetition), both methods, chunking arguments
    `hcfg : CfgOK cfg (number of distinct outcomes)` =
      `2 ≤ events_per_temporary_file < 2³²`, `1 ≤ n_outcomes_per_job`, and for
      OpenMP `n_outcomes_per_job < 2³²` and no wrap-around of the part bounds,
      `⌈n_outcomes / n_outcomes_per_job⌉ · n_outcomes_per_job < 2³²`
    (outside the first three the code RAISES: `ndl_chunk_args_raise`; for the
    last see the header), `hfile`: the events are what an event file can hold
    (≥ 1 cue and ≥ 1 outcome per event), within the 32-bit limits
    the code itself enforces (`Fits32`): the model of the whole function —
    counting, id maps, duplicate policy on ids, binary chunk files with the
    header constants of preprocess.py read by the kernel reader with the
    constants of ndl_parallel.pyx, kernels per part (OpenMP: part bounds in
    `unsigned int` arithmetic), labelling — returns a matrix whose value at EVERY
    (outcome name, cue name) is the specification on the policy-processed
    events, and reports the number of events.  The labels: `ndl_call_labels`.
    Not in the model, hence independence BY CONSTRUCTION: `n_jobs` (of the
    counting stage, the conversion pool and the learner threads; schedules are
    C02, the pool is C04).  Independence of the label ORDER the counting stage
    produces and of the id order inside an event: `ndl_label_order_irrelevant`. -/
theorem ndl_eq_spec (cfg : NdlCfg) (alpha β₁ β₂ lam : R)
    (es es' : List (Event String String)) (hfile : FileEvents es)
    (hcfg : CfgOK cfg (countNames es).2.length)
    (hp : applyPolicyAll cfg.policy es = some es') (hfit : Fits32 es) :
    ∃ w, ndlModel Generated.pyMagic Generated.pyVersion cfg alpha β₁ β₂ lam none es = .ok (w, es.length) ∧
      ∀ o c, w.get o c = rwLearn (fun _ => alpha) β₁ β₂ lam (fun _ _ => (0 : R)) es' o c :=
  ndlModel_eq_spec Generated.pyMagic Generated.pyVersion (by decide) (by decide) cfg alpha β₁ β₂ lam
    es es' hcfg hp hfit

/-- **the call itself** (`ndlCall`: `ndlModel` plus what `ndl.ndl` does on an event
    file with zero events): for every NON-EMPTY event list — the property's
    quantifier starts at one event — the call is `ndlModel`, hence the
    specification.  `hfile`: the list is one an event file can hold (the harness
    sends `file_norm(es)`; for arbitrary lists: `ndl_file_eq_spec`). -/
theorem ndl_call_eq_spec (cfg : NdlCfg) (alpha β₁ β₂ lam : R)
    (es es' : List (Event String String)) (hne : es ≠ []) (hfile : FileEvents es)
    (hcfg : CfgOK cfg (countNames es).2.length)
    (hp : applyPolicyAll cfg.policy es = some es') (hfit : Fits32 es) :
    ∃ w, ndlCall Generated.pyMagic Generated.pyVersion cfg alpha β₁ β₂ lam none es = .ok (w, es.length) ∧
      ∀ o c, w.get o c = rwLearn (fun _ => alpha) β₁ β₂ lam (fun _ _ => (0 : R)) es' o c :=
  ndlCall_eq_spec _ _ (by decide) (by decide) cfg alpha β₁ β₂ lam es es' hne hcfg hp hfit

/-- **the labels of the result are EXACTLY the names that occur**, each once, in
    the order the counting stage produced them: whatever the call returns is
    labelled with `countNames es`; a cue (outcome) is a label iff some event
    mentions it.  (`ndl_call_eq_spec` reads the matrix through its labels and
    returns 0 off them; together with this theorem a result that dropped, say,
    an all-zero row or added a row does NOT satisfy the statement.)  `hfile` is
    essential for model = code here: for `[⟨["a"], []⟩]` the real call has the
    outcome label `""` (`ndl_file_labels` says so), `countNames` has none. -/
theorem ndl_call_labels (cfg : NdlCfg) (alpha β₁ β₂ lam : R) (es : List (Event String String))
    (hfile : FileEvents es) (w : LW R) (n : Nat)
    (h : ndlCall Generated.pyMagic Generated.pyVersion cfg alpha β₁ β₂ lam none es = .ok (w, n)) :
    w.cues = (countNames es).1 ∧ w.outcomes = (countNames es).2 ∧ w.cues.Nodup ∧ w.outcomes.Nodup ∧
    (∀ c, c ∈ w.cues ↔ ∃ e ∈ es, c ∈ e.cues) ∧ (∀ o, o ∈ w.outcomes ↔ ∃ e ∈ es, o ∈ e.outcomes) := by
  obtain ⟨lc, lo⟩ := ndlModel_labels _ _ cfg alpha β₁ β₂ lam none es w n (ndlCall_ok _ _ _ _ _ _ _ _ _ _ h)
  simp only at lc lo
  refine ⟨lc, lo, by rw [lc]; exact (countNames_nodup es).1, by rw [lo]; exact (countNames_nodup es).2, ?_, ?_⟩
  · intro c
    rw [lc]
    unfold countNames
    rw [mem_dedupKeepFirst, List.mem_flatMap]
  · intro o
    rw [lo]
    unfold countNames
    rw [mem_dedupKeepFirst, List.mem_flatMap]

/-- **`ndl.ndl` on a path or a generator, for EVERY event list** (`ndlCallFile`
    = `ndlCall` on what the event file presents, `es.map fileNorm`: an empty cue
    or outcome field reads back as the one name `""`).  With at least one event,
    legal chunking arguments, policy-accepted events and the 32-bit limits — all
    w.r.t. the NORMALISED list — the call succeeds, reports `es.length` events,
    and its matrix is at every pair of names `rwLearn` on the policy-processed
    normalised events.  No `FileEvents` hypothesis: this is the statement about
    arbitrary generator contents, and the one the driver op `ndl` should
    evaluate (then the harness need not normalise in Python). -/
theorem ndl_file_eq_spec (cfg : NdlCfg) (alpha β₁ β₂ lam : R)
    (es es' : List (Event String String)) (hne : es ≠ [])
    (hcfg : CfgOK cfg (countNames (es.map fileNorm)).2.length)
    (hp : applyPolicyAll cfg.policy (es.map fileNorm) = some es') (hfit : Fits32 (es.map fileNorm)) :
    ∃ w, ndlCallFile Generated.pyMagic Generated.pyVersion cfg alpha β₁ β₂ lam none es = .ok (w, es.length) ∧
      ∀ o c, w.get o c = rwLearn (fun _ => alpha) β₁ β₂ lam (fun _ _ => (0 : R)) es' o c :=
  ndlCallFile_eq_spec _ _ (by decide) (by decide) cfg alpha β₁ β₂ lam es es' hne hcfg hp hfit

/-- **labels of `ndl.ndl` on a path or a generator, for EVERY event list**: the
    names of the normalised events, each once, first occurrence order; a name is
    a cue (outcome) label iff an event mentions it, or it is `""` and some event
    has no cue (outcome). -/
theorem ndl_file_labels (cfg : NdlCfg) (alpha β₁ β₂ lam : R) (es : List (Event String String))
    (w : LW R) (n : Nat)
    (h : ndlCallFile Generated.pyMagic Generated.pyVersion cfg alpha β₁ β₂ lam none es = .ok (w, n)) :
    w.cues = (countNames (es.map fileNorm)).1 ∧ w.outcomes = (countNames (es.map fileNorm)).2 ∧
    w.cues.Nodup ∧ w.outcomes.Nodup ∧
    (∀ c, c ∈ w.cues ↔ ∃ e ∈ es, c ∈ e.cues ∨ (e.cues = [] ∧ c = "")) ∧
    (∀ o, o ∈ w.outcomes ↔ ∃ e ∈ es, o ∈ e.outcomes ∨ (e.outcomes = [] ∧ o = "")) :=
  ndlCallFile_labels _ _ cfg alpha β₁ β₂ lam es w n h

/-- the two forms agree: on `FileEvents` (what the harness sends) the call on a
    path/generator is `ndlCall` on the list; `fileNorm` is idempotent and its
    image is `FileEvents` -/
theorem ndl_file_forms (cfg : NdlCfg) (alpha β₁ β₂ lam : R) (W0 : Option (LW R))
    (es : List (Event String String)) :
    (FileEvents es → ndlCallFile Generated.pyMagic Generated.pyVersion cfg alpha β₁ β₂ lam W0 es
      = ndlCall Generated.pyMagic Generated.pyVersion cfg alpha β₁ β₂ lam W0 es) ∧
    FileEvents (es.map fileNorm) ∧ (es.map fileNorm).map fileNorm = es.map fileNorm :=
  ⟨ndlCallFile_of_fileEvents _ _ _ _ _ _ _ _ _, fileEvents_map_fileNorm es,
    map_fileNorm_of_fileEvents _ (fileEvents_map_fileNorm es)⟩

/-- **the result does not depend on the label order nor on the order of the ids
    inside an event** (= on `n_jobs` of the counting stage, whose merged
    `Counter` fixes the id maps, and on the hash seed, which fixes the iteration
    order of `set(ids)` under `remove_duplicates=True`).  `ndlModelWith` is
    `ndl.ndl` with the label lists `cues`, `outs` and the per-event reordering as
    PARAMETERS (`ndlModel` = first-occurrence order, ids as written:
    `ndlModelWith_countNames`).  For every permutation of the labels and every
    per-event permutation of the ids it succeeds, is labelled as given, and
    denotes the same weight function as `ndlModel` — at every pair of names. -/
theorem ndl_label_order_irrelevant (reorder : Event Nat Nat → Event Nat Nat)
    (hre : ∀ e, (reorder e).cues ~ e.cues ∧ (reorder e).outcomes ~ e.outcomes)
    (cfg : NdlCfg) (alpha β₁ β₂ lam : R) (es es' : List (Event String String)) (hfile : FileEvents es)
    (cues outs : List String) (hpc : cues ~ (countNames es).1) (hpo : outs ~ (countNames es).2)
    (hcfg : CfgOK cfg (countNames es).2.length)
    (hp : applyPolicyAll cfg.policy es = some es') (hfit : Fits32 es) :
    ∃ w w₀, ndlModelWith reorder Generated.pyMagic Generated.pyVersion cfg alpha β₁ β₂ lam cues outs es
        = .ok (w, es.length) ∧
      ndlModel Generated.pyMagic Generated.pyVersion cfg alpha β₁ β₂ lam none es = .ok (w₀, es.length) ∧
      w.cues = cues ∧ w.outcomes = outs ∧
      ∀ o c, w.get o c = w₀.get o c :=
  ndlModelWith_order_irrelevant reorder hre _ _ (by decide) (by decide) cfg alpha β₁ β₂ lam es es' cues outs
    hpc hpo hcfg hp hfit

/-- **… nor on the order of the cues / outcomes inside the events of the FILE**
    (`create_event_file(remove_duplicates=True)` writes `"_".join(set(cues))`:
    the real file agrees with the model's only up to that order): `es₁` the
    events as the models write them, `es₂` any list that agrees with it event by
    event up to the order inside the events (`EventsPerm`); label lists any
    permutations of the names, any `reorder`.  All hypotheses on `es₁`.  The
    generalised model on `es₂` succeeds, is labelled as given, and is the
    specification on the policy-processed `es₁` at every pair of names.  (On the
    call itself: C13 `ndl_events_perm`; behind the pipeline: C15
    `pipeline_ndl_order_irrelevant`.) -/
theorem ndl_event_order_irrelevant (reorder : Event Nat Nat → Event Nat Nat)
    (hre : ∀ e, (reorder e).cues ~ e.cues ∧ (reorder e).outcomes ~ e.outcomes)
    (cfg : NdlCfg) (alpha β₁ β₂ lam : R) (es₁ es₁' es₂ : List (Event String String)) (hfile : FileEvents es₁)
    (h : EventsPerm es₁ es₂)
    (cues outs : List String) (hpc : cues ~ (countNames es₁).1) (hpo : outs ~ (countNames es₁).2)
    (hcfg : CfgOK cfg (countNames es₁).2.length)
    (hp : applyPolicyAll cfg.policy es₁ = some es₁') (hfit : Fits32 es₁) :
    ∃ w, ndlModelWith reorder Generated.pyMagic Generated.pyVersion cfg alpha β₁ β₂ lam cues outs es₂
        = .ok (w, es₂.length) ∧
      w.cues = cues ∧ w.outcomes = outs ∧ FileEvents es₂ ∧
      ∀ o c, w.get o c = rwLearn (fun _ => alpha) β₁ β₂ lam (fun _ _ => (0 : R)) es₁' o c := by
  obtain ⟨w, hw, lc, lo, g⟩ := ndlModelWith_events_perm reorder hre Generated.pyMagic Generated.pyVersion (by decide) (by decide) cfg alpha β₁ β₂ lam
    es₁ es₁' es₂ h cues outs hpc hpo hcfg hp hfit
  exact ⟨w, hw, lc, lo, fileEvents_perm h hfile, g⟩

/-- the stronger form: ANY label lists that contain the names (no permutation, no
    `Nodup` needed) give the specification, read through the labels -/
theorem ndl_any_labels_eq_spec (reorder : Event Nat Nat → Event Nat Nat)
    (hre : ∀ e, (reorder e).cues ~ e.cues ∧ (reorder e).outcomes ~ e.outcomes)
    (cfg : NdlCfg) (alpha β₁ β₂ lam : R) (cues outs : List String) (hcfg : CfgOK cfg outs.length)
    (hnc : cues.length < 4294967296) (hno : outs.length < 4294967296)
    (es es' : List (Event String String)) (hfile : FileEvents es)
    (hp : applyPolicyAll cfg.policy es = some es')
    (hmemc : ∀ e ∈ es, ∀ c ∈ e.cues, c ∈ cues) (hmemo : ∀ e ∈ es, ∀ o ∈ e.outcomes, o ∈ outs)
    (hn : es.length < 4294967296)
    (hpe : ∀ e ∈ es, e.cues.length < 4294967296 ∧ e.outcomes.length < 4294967296) :
    ∃ w, ndlModelWith reorder Generated.pyMagic Generated.pyVersion cfg alpha β₁ β₂ lam cues outs es
        = .ok (w, es.length) ∧ w.cues = cues ∧ w.outcomes = outs ∧
      ∀ o c, w.get o c = rwLearn (fun _ => alpha) β₁ β₂ lam (fun _ _ => (0 : R)) es' o c :=
  ndlModelWith_eq_spec reorder hre _ _ (by decide) (by decide) cfg alpha β₁ β₂ lam cues outs hcfg hnc hno
    es es' hp hmemc hmemo hn hpe

/-- **`remove_duplicates=None` raises** (and any policy on the events it rejects):
    a repeated cue or outcome ANYWHERE in the file ⇒ `ValueError` — every method,
    every `n_outcomes_per_job`, every legal `events_per_temporary_file`, with or
    without initial weights.  Nothing is returned. -/
theorem ndl_dup_raises (cfg : NdlCfg) (hper : 2 ≤ cfg.perFile) (hperU : cfg.perFile < 4294967296)
    (alpha β₁ β₂ lam : R) (W0 : Option (LW R)) (es : List (Event String String))
    (h : applyPolicyAll cfg.policy es = none) :
    ndlCall Generated.pyMagic Generated.pyVersion cfg alpha β₁ β₂ lam W0 es = .error .value :=
  ndlCall_dup_raises _ _ cfg alpha β₁ β₂ lam W0 es hper hperU h

/-- **outside `CfgOK` the call RAISES** (`.other` is what the harness calls every
    exception that is none of Value/IO/Key/TypeError — here `OverflowError` and
    `ZeroDivisionError`):
    * `events_per_temporary_file < 2`: `ValueError`; `≥ 2³²`: `OverflowError`
      (`to_bytes(stop - start)` in every conversion job) — for every event file,
      also an empty one, and every policy;
    and, when the conversion goes through (`hp`, `hfit`, legal chunk size),
    * threading, `n_outcomes_per_job = 0`: `ValueError` (`slice_list`);
    * OpenMP, `n_outcomes_per_job ≥ 2³²`: `OverflowError` (`unsigned int chunksize`);
    * OpenMP, `n_outcomes_per_job = 0`, at least one event: `ZeroDivisionError`.
    These are all the clauses of `CfgOK` except the OpenMP no-wrap clause, outside
    which the code does not raise (see the header).  Continued calls:
    `ndl_continue_chunk_args_raise`. -/
theorem ndl_chunk_args_raise (cfg : NdlCfg) (alpha β₁ β₂ lam : R) (W0 : Option (LW R))
    (es es' : List (Event String String)) :
    (cfg.perFile < 2 →
      ndlCall Generated.pyMagic Generated.pyVersion cfg alpha β₁ β₂ lam W0 es = .error .value) ∧
    (4294967296 ≤ cfg.perFile →
      ndlCall Generated.pyMagic Generated.pyVersion cfg alpha β₁ β₂ lam W0 es = .error .other) ∧
    (2 ≤ cfg.perFile → cfg.perFile < 4294967296 → FileEvents es →
      applyPolicyAll cfg.policy es = some es' → Fits32 es →
      (cfg.method = .threading → cfg.perJob < 1 →
        ndlCall Generated.pyMagic Generated.pyVersion cfg alpha β₁ β₂ lam none es = .error .value) ∧
      (cfg.method = .openmp → 4294967296 ≤ cfg.perJob →
        ndlCall Generated.pyMagic Generated.pyVersion cfg alpha β₁ β₂ lam none es = .error .other) ∧
      (cfg.method = .openmp → cfg.perJob < 1 → es ≠ [] →
        ndlCall Generated.pyMagic Generated.pyVersion cfg alpha β₁ β₂ lam none es = .error .other)) := by
  refine ⟨fun h => ndlCall_error _ _ _ _ _ _ _ _ _ _ ?_,
    fun h => ndlCall_perFile_overflow _ _ cfg alpha β₁ β₂ lam W0 es h, ?_⟩
  · cases W0 with
    | none => rw [ndlModel_none]; exact ndlCore_perFile_small _ _ _ _ _ _ _ _ _ _ _ h
    | some w => rw [ndlModel_some]; exact ndlCore_perFile_small _ _ _ _ _ _ _ _ _ _ _ h
  · intro hper hperU _ hp hfit
    obtain ⟨a, b, c⟩ := ndlModel_perJob_errors Generated.pyMagic Generated.pyVersion (by decide) (by decide)
      cfg alpha β₁ β₂ lam hper hperU es es' hp hfit
    exact ⟨fun h1 h2 => ndlCall_error _ _ _ _ _ _ _ _ _ _ (a h1 h2),
      fun h1 h2 => ndlCall_error _ _ _ _ _ _ _ _ _ _ (b h1 h2),
      fun h1 h2 h3 => ndlCall_error _ _ _ _ _ _ _ _ _ _ (c h1 h2 h3)⟩

/-- **the `n_outcomes_per_job` clauses for a CONTINUED call** (`weights=w`; exported
    from `ndlModel_continue_perJob_errors`, which no Props file stated): after a
    conversion that goes through, threading with `n_outcomes_per_job = 0` raises
    `ValueError`, OpenMP with `≥ 2³²` `OverflowError`, OpenMP with `0` and at least
    one event `ZeroDivisionError`. -/
theorem ndl_continue_chunk_args_raise (cfg : NdlCfg) (alpha β₁ β₂ lam : R) (w : LW R)
    (hndc : w.cues.Nodup) (hndo : w.outcomes.Nodup)
    (es es' : List (Event String String)) (hfile : FileEvents es)
    (hper : 2 ≤ cfg.perFile) (hperU : cfg.perFile < 4294967296)
    (hp : applyPolicyAll cfg.policy es = some es') (hfit : Fits32With w es) :
    (cfg.method = .threading → cfg.perJob < 1 →
      ndlCall Generated.pyMagic Generated.pyVersion cfg alpha β₁ β₂ lam (some w) es = .error .value) ∧
    (cfg.method = .openmp → 4294967296 ≤ cfg.perJob →
      ndlCall Generated.pyMagic Generated.pyVersion cfg alpha β₁ β₂ lam (some w) es = .error .other) ∧
    (cfg.method = .openmp → cfg.perJob < 1 → es ≠ [] →
      ndlCall Generated.pyMagic Generated.pyVersion cfg alpha β₁ β₂ lam (some w) es = .error .other) := by
  obtain ⟨a, b, c⟩ := ndlModel_continue_perJob_errors Generated.pyMagic Generated.pyVersion (by decide) (by decide)
    cfg alpha β₁ β₂ lam hper hperU w es es' hp hfit
  exact ⟨fun h1 h2 => ndlCall_error _ _ _ _ _ _ _ _ _ _ (a h1 h2),
    fun h1 h2 => ndlCall_error _ _ _ _ _ _ _ _ _ _ (b h1 h2),
    fun h1 h2 h3 => ndlCall_error _ _ _ _ _ _ _ _ _ _ (c h1 h2 h3)⟩

/-- **outside the quantifier, recorded because the learners differ there**: on an
    event file with ZERO events the OpenMP method raises `IOError` (no chunk file
    is written, the kernel entry point reports its initial error code:
    `ndl_zero_events_rule`), whereas `dict_ndl` returns the weights it was
    given and the threading method returns the empty matrix when called without
    `weights=` (`ndlCall_empty_threading`).
    (One of three wrappers of `ndlCall_nil_raises`: C03 `ndl_call_empty_part_raises`,
    C15 `pipeline_ndl_empty_raises`.) -/
theorem ndl_call_empty_openmp (cfg : NdlCfg) (hm : cfg.method = .openmp) (hper : 2 ≤ cfg.perFile)
    (hperU : cfg.perFile < 4294967296) (hjob : cfg.perJob < 4294967296) (alpha β₁ β₂ lam : R)
    (W0 : Option (LW R)) :
    ndlCall Generated.pyMagic Generated.pyVersion cfg alpha β₁ β₂ lam W0 [] = .error .io :=
  ndlCall_nil_raises _ _ cfg alpha β₁ β₂ lam W0 hper hperU (fun h => by rw [hm] at h; cases h)
    (fun _ => hjob) (Or.inl hm)

/-- **why `ndl.ndl` raises on zero events — as a theorem.**  `ndlCallEntry` is
    `ndl.ndl` assembled from the kernel entry points as they are called
    (PyndlProofs/NdlEntry.lean: one `learnChunksB2B` call per part of
    `slice_list(…)` for threading, one for OpenMP; an entry point called with an
    empty file list reports `noFile`, C06 `empty_file_list_raises`); it has NO
    separate rule for zero events.  (1) On zero events it equals `ndlCall` for
    every configuration and `weights=` — so `ndlCall`'s hand-written rule
    (PyndlModel/Ndl.lean) is what the entry points give.  (2) On at least one
    event, under the hypotheses of `ndl_call_eq_spec` (any `n_outcomes_per_job`),
    it equals `ndlCall` as well: decoding once and folding the kernels
    (`ndlCore`) is the same as running the entry points on the chunk files. -/
theorem ndl_zero_events_rule (cfg : NdlCfg) (alpha β₁ β₂ lam : R) (W0 : Option (LW R)) :
    ndlCallEntry Generated.pyMagic Generated.pyVersion cfg alpha β₁ β₂ lam W0 []
      = ndlCall Generated.pyMagic Generated.pyVersion cfg alpha β₁ β₂ lam W0 [] ∧
    (∀ es es' : List (Event String String), es ≠ [] → 2 ≤ cfg.perFile → cfg.perFile < 4294967296 →
      applyPolicyAll cfg.policy es = some es' → Fits32 es →
      ndlCallEntry Generated.pyMagic Generated.pyVersion cfg alpha β₁ β₂ lam none es
        = ndlCall Generated.pyMagic Generated.pyVersion cfg alpha β₁ β₂ lam none es) :=
  ⟨ndlCallEntry_nil _ _ cfg alpha β₁ β₂ lam W0,
    fun es es' hne hper hperU hp hfit =>
      ndlCallEntry_eq_ndlCall _ _ (by decide) (by decide) cfg alpha β₁ β₂ lam hper hperU es es' hne hp hfit⟩

/-! Non-vacuity: a concrete 3-event sequence with a repeated cue, an outcome
first seen late, an outcome-less event, β₁ ≠ β₂ and λ ≠ 1, evaluated in ℤ
(cues 0,1; outcomes 10,11): the hypotheses of `dictNdl_eq_spec` are met and the
result is not trivial. -/
example :
    let es : List (Event Nat Nat) := [⟨[0, 1], [10]⟩, ⟨[0, 0], []⟩, ⟨[1], [11, 10]⟩]
    applyPolicyAll .keep es = some es ∧
    (dictNdl .keep (fun _ => (1 : ℤ)) 2 3 5 [] es).map
        (fun W => (wdAbs W 10 0, wdAbs W 10 1, wdAbs W 11 1, wdAbs W 11 0))
      = some (-110, 0, 10, 0) := by
  decide +kernel


/-! Non-vacuity of `ndl_call_eq_spec`, fully instantiated: three events with a
cue repeated inside an event (policy `True` removes it), an outcome first seen
late, an event whose outcome field was EMPTY in the file (it reads back as the
outcome `""`); OpenMP with one outcome per job, two events per file (two chunk
files); α = 1, β₁ = 2, β₂ = 3, λ = 5 over ℤ.  The theorem itself is applied.
(`exEvents` used to contain `⟨["a", "a"], []⟩` — a list `ndl.ndl` cannot receive;
`exGen` below is that list, for `ndl_file_eq_spec`.) -/
def exEvents : List (Event String String) :=
  [⟨["a", "b"], ["x"]⟩, ⟨["a", "a"], [""]⟩, ⟨["b"], ["y", "x"]⟩]

/-- the policy-processed events of `exEvents` under `remove_duplicates=True` -/
def exEvents' : List (Event String String) :=
  [⟨["a", "b"], ["x"]⟩, ⟨["a"], [""]⟩, ⟨["b"], ["y", "x"]⟩]

/-- a generator content with an outcome-less event: what the file presents is `exEvents` -/
def exGen : List (Event String String) :=
  [⟨["a", "b"], ["x"]⟩, ⟨["a", "a"], []⟩, ⟨["b"], ["y", "x"]⟩]

/-- (definitional — example data, not a property theorem) -/
theorem exEvents_file : FileEvents exEvents := by decide
/-- (definitional — example data, not a property theorem) -/
theorem exGen_norm : exGen.map fileNorm = exEvents := by decide
/-- (definitional — example data, not a property theorem) -/
theorem exEvents_fits : Fits32 exEvents :=
  ⟨by decide +kernel, by decide +kernel, by decide +kernel, by decide +kernel⟩

example :
    ∃ w, ndlCall Generated.pyMagic Generated.pyVersion ⟨.dedup, .openmp, 1, 2⟩ (1 : ℤ) 2 3 5 none exEvents
        = .ok (w, 3) ∧
      ∀ o c, w.get o c = rwLearn (fun _ => (1 : ℤ)) 2 3 5 (fun _ _ => 0) exEvents' o c :=
  ndl_call_eq_spec ⟨.dedup, .openmp, 1, 2⟩ 1 2 3 5 exEvents _ (by decide) exEvents_file (by decide +kernel)
    (by decide +kernel) exEvents_fits

/-- … the values are not trivial, and the labels are the names in order of first
    occurrence — `""` among the outcomes (this is what the real `ndl.ndl` returns
    for the generator `exGen`: outcomes `['x', '', 'y']`, rows `[-20, 0]`,
    `[10, 0]`, `[0, 10]`) -/
example :
    (match ndlCall Generated.pyMagic Generated.pyVersion ⟨.dedup, .openmp, 1, 2⟩ (1 : ℤ) 2 3 5 none exEvents with
     | .ok (w, k) => some (w.outcomes, w.cues, w.vals, k) | .error _ => none)
      = some (["x", "", "y"], ["a", "b"], #[-20, 0,  10, 0,  0, 10], 3) := by decide +kernel

/-- `ndl_file_eq_spec` applied to the generator content `exGen` (an event WITHOUT
    outcomes; no `FileEvents` hypothesis): the same result -/
example :
    ∃ w, ndlCallFile Generated.pyMagic Generated.pyVersion ⟨.dedup, .openmp, 1, 2⟩ (1 : ℤ) 2 3 5 none exGen
        = .ok (w, 3) ∧
      ∀ o c, w.get o c = rwLearn (fun _ => (1 : ℤ)) 2 3 5 (fun _ _ => 0) exEvents' o c :=
  ndl_file_eq_spec ⟨.dedup, .openmp, 1, 2⟩ 1 2 3 5 exGen _ (by decide) (by rw [exGen_norm]; decide +kernel)
    (by rw [exGen_norm]; decide +kernel) (by rw [exGen_norm]; exact exEvents_fits)

/-- `ndl_file_labels` applied: the outcome label `""` is there BECAUSE an event has
    no outcome; on the un-normalised list the model would have no such label
    (`countNames exGen` — the reason for `hfile` in `ndl_call_labels`) -/
example :
    (∀ w n, ndlCallFile Generated.pyMagic Generated.pyVersion ⟨.dedup, .openmp, 1, 2⟩ (1 : ℤ) 2 3 5 none exGen
        = .ok (w, n) → "" ∈ w.outcomes) ∧
    (countNames exGen).2 = ["x", "y"] :=
  ⟨fun w n h => ((ndl_file_labels _ 1 2 3 5 exGen w n h).2.2.2.2.2 "").mpr
      ⟨⟨["a", "a"], []⟩, by simp [exGen], Or.inr ⟨rfl, rfl⟩⟩,
    by decide +kernel⟩

/-- `ndl_call_labels` applied (threading, two outcomes per job): whatever the
    call returns for `exEvents` has exactly the labels `a, b` / `x, "", y` -/
example (w : LW ℤ) (n : Nat)
    (h : ndlCall Generated.pyMagic Generated.pyVersion ⟨.dedup, .threading, 2, 2⟩ (1 : ℤ) 2 3 5 none exEvents
      = .ok (w, n)) : w.cues = ["a", "b"] ∧ w.outcomes = ["x", "", "y"] := by
  obtain ⟨lc, lo, _⟩ := ndl_call_labels ⟨.dedup, .threading, 2, 2⟩ 1 2 3 5 exEvents exEvents_file w n h
  exact ⟨lc.trans (by decide +kernel), lo.trans (by decide +kernel)⟩

/-- `ndl_eq_spec` applied (the model without the zero-event rule; threading, two
    outcomes per job, policy `False`: the repeated cue counts twice) -/
example :
    ∃ w, ndlModel Generated.pyMagic Generated.pyVersion ⟨.keep, .threading, 2, 2⟩ (1 : ℤ) 2 3 5 none exEvents
        = .ok (w, 3) ∧
      ∀ o c, w.get o c = rwLearn (fun _ => (1 : ℤ)) 2 3 5 (fun _ _ => 0) exEvents o c :=
  ndl_eq_spec ⟨.keep, .threading, 2, 2⟩ 1 2 3 5 exEvents _ exEvents_file (by decide +kernel)
    (by decide +kernel) exEvents_fits

/-- the OpenMP clause of `CfgOK` at its boundary: `n_outcomes_per_job = 2³² − 1`
    with 3 outcomes (`n_outcomes + n_outcomes_per_job ≥ 2³²`, which the earlier
    `CfgOK` excluded although code and model succeed: ONE part, nothing wraps) —
    `ndl_call_eq_spec` applied -/
example :
    ∃ w, ndlCall Generated.pyMagic Generated.pyVersion ⟨.dedup, .openmp, 4294967295, 2⟩ (1 : ℤ) 2 3 5 none exEvents
        = .ok (w, 3) ∧
      ∀ o c, w.get o c = rwLearn (fun _ => (1 : ℤ)) 2 3 5 (fun _ _ => 0) exEvents' o c :=
  ndl_call_eq_spec ⟨.dedup, .openmp, 4294967295, 2⟩ 1 2 3 5 exEvents _ (by decide) exEvents_file
    (by decide +kernel) (by decide +kernel) exEvents_fits

/-- … under `remove_duplicates=None` the same file raises `ValueError`
    (`ndl_dup_raises` applied), and `events_per_temporary_file = 2³²` raises
    `OverflowError` (`ndl_chunk_args_raise` applied) -/
example :
    ndlCall Generated.pyMagic Generated.pyVersion ⟨.error, .openmp, 1, 2⟩ (1 : ℤ) 2 3 5 none exEvents
      = .error .value ∧
    ndlCall Generated.pyMagic Generated.pyVersion ⟨.dedup, .threading, 1, 4294967296⟩ (1 : ℤ) 2 3 5 none exEvents
      = .error .other :=
  ⟨ndl_dup_raises ⟨.error, .openmp, 1, 2⟩ (by decide) (by decide) 1 2 3 5 none exEvents (by decide +kernel),
   (ndl_chunk_args_raise ⟨.dedup, .threading, 1, 4294967296⟩ 1 2 3 5 none exEvents []).2.1 (by decide)⟩

/-- the `n_outcomes_per_job` clauses of `ndl_chunk_args_raise` applied: threading
    with 0 (`ValueError`), OpenMP with 2³² (`OverflowError`), OpenMP with 0
    (`ZeroDivisionError`) -/
example :
    ndlCall Generated.pyMagic Generated.pyVersion ⟨.dedup, .threading, 0, 2⟩ (1 : ℤ) 2 3 5 none exEvents
      = .error .value ∧
    ndlCall Generated.pyMagic Generated.pyVersion ⟨.dedup, .openmp, 4294967296, 2⟩ (1 : ℤ) 2 3 5 none exEvents
      = .error .other ∧
    ndlCall Generated.pyMagic Generated.pyVersion ⟨.dedup, .openmp, 0, 2⟩ (1 : ℤ) 2 3 5 none exEvents
      = .error .other :=
  ⟨((ndl_chunk_args_raise ⟨.dedup, .threading, 0, 2⟩ 1 2 3 5 none exEvents exEvents').2.2 (by decide) (by decide)
      exEvents_file (by decide +kernel) exEvents_fits).1 rfl (by decide),
   ((ndl_chunk_args_raise ⟨.dedup, .openmp, 4294967296, 2⟩ 1 2 3 5 none exEvents exEvents').2.2 (by decide)
      (by decide) exEvents_file (by decide +kernel) exEvents_fits).2.1 rfl (by decide),
   ((ndl_chunk_args_raise ⟨.dedup, .openmp, 0, 2⟩ 1 2 3 5 none exEvents exEvents').2.2 (by decide) (by decide)
      exEvents_file (by decide +kernel) exEvents_fits).2.2 rfl (by decide) (by decide)⟩

/-- `ndl_continue_chunk_args_raise` applied: continuing from weights with the
    labels `x` / `a` and `n_outcomes_per_job = 0`, threading -/
example :
    ndlCall Generated.pyMagic Generated.pyVersion ⟨.dedup, .threading, 0, 2⟩ (1 : ℤ) 2 3 5
      (some ⟨["x"], ["a"], #[7]⟩) exEvents = .error .value :=
  (ndl_continue_chunk_args_raise ⟨.dedup, .threading, 0, 2⟩ 1 2 3 5 ⟨["x"], ["a"], #[7]⟩ (by decide) (by decide)
    exEvents exEvents' exEvents_file (by decide) (by decide) (by decide +kernel)
    ⟨by decide +kernel, by decide +kernel, by decide +kernel, by decide +kernel⟩).1 rfl (by decide)

/-- `ndl_zero_events_rule` on concrete calls: the entry-point model on zero events
    — OpenMP raises `IOError`; threading without weights returns the empty
    matrix; threading with one outcome row raises `IOError` -/
example :
    ndlCallEntry Generated.pyMagic Generated.pyVersion ⟨.error, .openmp, 1, 2⟩ (1 : ℤ) 2 3 5 none [] = .error .io ∧
    (match ndlCallEntry Generated.pyMagic Generated.pyVersion ⟨.error, .threading, 1, 2⟩ (1 : ℤ) 2 3 5 none [] with
      | .ok (w, k) => some (w.outcomes, w.cues, k) | .error _ => none) = some ([], [], 0) ∧
    ndlCallEntry Generated.pyMagic Generated.pyVersion ⟨.error, .threading, 1, 2⟩ (1 : ℤ) 2 3 5
      (some ⟨["x"], ["a"], #[7]⟩) [] = .error .io :=
  ⟨(ndl_zero_events_rule _ 1 2 3 5 none).1.trans
      (ndl_call_empty_openmp ⟨.error, .openmp, 1, 2⟩ rfl (by decide) (by decide) (by decide) 1 2 3 5 none),
    by decide +kernel,
    (ndl_zero_events_rule _ 1 2 3 5 _).1.trans
      (ndlCall_nil_raises _ _ ⟨.error, .threading, 1, 2⟩ 1 2 3 5 _ (by decide) (by decide) (by decide) (by decide)
        (Or.inr ⟨_, rfl, by decide⟩))⟩

/-- non-vacuity of `ndl_label_order_irrelevant`: the labels of `exEvents` in
    REVERSED order and every event's ids reversed — the theorem applied; the
    array differs (rows / columns permuted), the denoted weights do not -/
example :
    ∃ w w₀, ndlModelWith (fun e => ⟨e.cues.reverse, e.outcomes.reverse⟩) Generated.pyMagic Generated.pyVersion
        ⟨.dedup, .openmp, 1, 2⟩ (1 : ℤ) 2 3 5 ["b", "a"] ["y", "", "x"] exEvents = .ok (w, 3) ∧
      ndlModel Generated.pyMagic Generated.pyVersion ⟨.dedup, .openmp, 1, 2⟩ (1 : ℤ) 2 3 5 none exEvents
        = .ok (w₀, 3) ∧
      w.cues = ["b", "a"] ∧ w.outcomes = ["y", "", "x"] ∧ ∀ o c, w.get o c = w₀.get o c :=
  ndl_label_order_irrelevant (fun e => ⟨e.cues.reverse, e.outcomes.reverse⟩)
    (fun e => ⟨List.reverse_perm _, List.reverse_perm _⟩) ⟨.dedup, .openmp, 1, 2⟩ 1 2 3 5 exEvents
    exEvents' exEvents_file ["b", "a"] ["y", "", "x"] (by decide +kernel) (by decide +kernel) (by decide +kernel)
    (by decide +kernel) exEvents_fits

example :
    (match ndlModelWith (fun e => ⟨e.cues.reverse, e.outcomes.reverse⟩) Generated.pyMagic Generated.pyVersion
        ⟨.dedup, .openmp, 1, 2⟩ (1 : ℤ) 2 3 5 ["b", "a"] ["y", "", "x"] exEvents with
     | .ok (w, k) => some (w.outcomes, w.cues, w.vals, k) | .error _ => none)
      = some (["y", "", "x"], ["b", "a"], #[10, 0,  0, 10,  0, -20], 3) := by decide +kernel

/-- `ndl_event_order_irrelevant` applied: the file has every event's cues and
    outcomes in reversed order (`b_a → x`, `a_a → ""`, `b → x_y`), labels reversed -/
example :
    ∃ w, ndlModelWith id Generated.pyMagic Generated.pyVersion ⟨.dedup, .openmp, 1, 2⟩ (1 : ℤ) 2 3 5
        ["b", "a"] ["y", "", "x"] (exEvents.map (fun e => ⟨e.cues.reverse, e.outcomes.reverse⟩))
        = .ok (w, (exEvents.map (fun e => (⟨e.cues.reverse, e.outcomes.reverse⟩ : Event String String))).length) ∧
      w.cues = ["b", "a"] ∧ w.outcomes = ["y", "", "x"] ∧
      FileEvents (exEvents.map (fun e => ⟨e.cues.reverse, e.outcomes.reverse⟩)) ∧
      ∀ o c, w.get o c = rwLearn (fun _ => (1 : ℤ)) 2 3 5 (fun _ _ => 0) exEvents' o c :=
  ndl_event_order_irrelevant id (fun e => ⟨List.Perm.refl _, List.Perm.refl _⟩) ⟨.dedup, .openmp, 1, 2⟩ 1 2 3 5
    exEvents exEvents' _ exEvents_file
    (EventsPerm.of_map _ (fun e => ⟨List.reverse_perm _, List.reverse_perm _⟩) exEvents)
    ["b", "a"] ["y", "", "x"] (by decide +kernel) (by decide +kernel) (by decide +kernel) (by decide +kernel)
    exEvents_fits

/-- `ndl_any_labels_eq_spec` applied: label lists that are NOT permutations of the
    names — an extra cue `q`, the outcome `x` listed twice, an unused outcome
    `z` — still give the specification, read through the labels -/
example :
    ∃ w, ndlModelWith id Generated.pyMagic Generated.pyVersion ⟨.dedup, .threading, 2, 2⟩ (1 : ℤ) 2 3 5
        ["q", "b", "a"] ["x", "z", "y", "x", ""] exEvents = .ok (w, 3) ∧
      w.cues = ["q", "b", "a"] ∧ w.outcomes = ["x", "z", "y", "x", ""] ∧
      ∀ o c, w.get o c = rwLearn (fun _ => (1 : ℤ)) 2 3 5 (fun _ _ => 0) exEvents' o c :=
  ndl_any_labels_eq_spec id (fun e => ⟨List.Perm.refl _, List.Perm.refl _⟩) ⟨.dedup, .threading, 2, 2⟩ 1 2 3 5
    ["q", "b", "a"] ["x", "z", "y", "x", ""] (by decide +kernel) (by decide) (by decide) exEvents exEvents'
    exEvents_file (by decide +kernel) (by decide) (by decide) (by decide) (by decide)

end Pyndl.C01
