/-
  C07 — Text event files round-trip; the frequency column and the input form
  keep their meaning.

  Property theorems only (lemmas: PyndlProofs/Text.lean; model:
  PyndlModel/Text.lean, mirroring pyndl/io.py:20-178).  Strings are `List Char`;
  gzip and the UTF-8 codec are identity (trusted base); Python's universal
  newlines are part of the model, which is why U+000D is excluded from tokens
  (known finding F11).

  Python's `int()` is a PARAMETER `intOf : Str → Option Int` of the reader: the
  theorems with suffix `_with` hold for EVERY such function (negative values
  give no event: `range(v)`); the theorems without suffix are the instance
  `pyInt` the driver runs (signs, surrounding white space, `1_000`, ASCII
  digits, CPython's 4300-digit limit).

  Hypotheses carried by theorems here (for DESIGN §7):
    * `1 ≤ step` (`parse_render_slice`); at `step = 0` `islice` raises
      `ValueError`: `step_zero_raises`;
    * tokens without TAB, LF, CR, `_`; events with at least one cue (`WfEvent`);
    * `compatible=True` needs `intOf "1" = some 1` (true of Python's `int`);
    * the literal domain: `freq_expand_with` is for whatever `intOf` returns;
      the instance theorem `freq_expand_decimal` needs at most 4300 digits.

  `forms_agree` is by construction for everything the model does not represent
  (path string vs path object, list vs generator vs DataFrame, gzip vs plain
  text, the generator spool of `ndl.ndl`): these reach the model as the same
  event list; they are tested, not proved.

  Lemmas that merely restate a definition are at the end under
  "lemmas (not property theorems)".
-/
import PyndlProofs.Text
import PyndlModel.Generated

namespace Pyndl.C07
open Pyndl Pyndl.Text

/-- a token the property quantifies over: non-empty, no TAB, LF, CR, underscore. -/
def WfTok (t : Str) : Prop := t ≠ [] ∧ TAB ∉ t ∧ LF ∉ t ∧ CR ∉ t ∧ US ∉ t

/-- an event the property quantifies over: at least one cue, well-formed tokens
    (any number of outcomes, including none). -/
def WfEvent (e : TEvent) : Prop :=
  e.cues ≠ [] ∧ (∀ t ∈ e.cues, WfTok t) ∧ (∀ t ∈ e.outcomes, WfTok t)

/-- both predicates are decidable: on a concrete event `WfEvent e` is checked by
    evaluation (`decide +kernel`), see the applied examples below. -/
instance (t : Str) : Decidable (WfTok t) := by unfold WfTok; infer_instance

instance (e : TEvent) : Decidable (WfEvent e) := by unfold WfEvent; infer_instance

theorem WfEvent.ok {e : TEvent} (h : WfEvent e) : EventOk e :=
  ⟨fun t ht => let w := h.2.1 t ht; ⟨w.2.1, w.2.2.1, w.2.2.2.1, w.2.2.2.2⟩,
   fun t ht => let w := h.2.2 t ht; ⟨w.2.1, w.2.2.1, w.2.2.2.1, w.2.2.2.2⟩⟩

theorem WfEvent.norm {e : TEvent} (h : WfEvent e) : normaliseAll e = normalise e := by
  simp [normaliseAll, normalise, normList, h.1]

/-- **`sep.join(xs).split(sep) == xs`** for every separator, every non-empty list
    of strings none of which contains the separator. -/
theorem splitOn_joinWith (sep : Char) (xs : List Str) (hne : xs ≠ [])
    (h : ∀ x ∈ xs, sep ∉ x) : splitOn sep (joinWith sep xs) = xs :=
  Text.splitOn_joinWith sep xs hne h

/-- `sep.join(s.split(sep)) == s` for every string: the "list of joined strings"
    and the DataFrame containers (which `events_from_list` / `events_from_dataframe`
    split on `_` and `events_to_file` joins again) are written verbatim. -/
theorem joined_strings_verbatim (compatible : Bool) (cues outcomes : Str) :
    renderEvent compatible (eventOfStrings cues outcomes)
      = cues ++ TAB :: outcomes ++ (if compatible then [TAB, '1'] else []) := by
  simp [renderEvent, eventOfStrings, Text.joinWith_splitOn]

/-- **Round trip, with `start`/`step`, for every `int`.** Reading back a written
    file yields the `islice(start, None, step)` of the written events, each with
    an empty outcome list turned into `[""]` and nothing else changed — for both
    `compatible` settings, every event list, every `start`, every `step ≥ 1`,
    every `int` that reads the `"1"` of `compatible=True` as 1.
    (`step = 0`: `step_zero_raises`.  The earlier statement claimed "every step"
    without `1 ≤ step`; at `step = 0` the model then returned all lines where
    Python raises.) -/
theorem parse_render_slice_with (intOf : Str → Option Int) (compatible : Bool) (start step : Nat)
    (hstep : 1 ≤ step) (es : List TEvent) (h : ∀ e ∈ es, WfEvent e)
    (hone : compatible = true → intOf ['1'] = some 1) :
    parseFileWith intOf start step (renderFile compatible es)
      = some ((stride start step es).map normalise) := by
  rw [parseFileWith_renderFile intOf compatible start step hstep es (fun e he => (h e he).ok) hone]
  congr 1
  apply List.map_congr_left
  intro e he
  exact (h e (mem_everyNth step start es e he)).norm

/-- the instance the driver runs -/
theorem parse_render_slice (compatible : Bool) (start step : Nat) (hstep : 1 ≤ step) (es : List TEvent)
    (h : ∀ e ∈ es, WfEvent e) :
    parseFile start step (renderFile compatible es) = some ((stride start step es).map normalise) :=
  parse_render_slice_with pyInt compatible start step hstep es h (fun _ => pyInt_one)

/-- **`step = 0` raises `ValueError`** (`itertools.islice`: "Step for islice()
    must be a positive integer or None"), for every file content, every start,
    every `int` — the branch `1 ≤ step` excludes.  Checked on /repo. -/
theorem step_zero_raises (intOf : Str → Option Int) (start : Nat) (content : Str) :
    parseFileWith intOf start 0 content = none ∧ parseFile start 0 content = none :=
  ⟨parseFileWith_step_zero intOf start content, parseFileWith_step_zero pyInt start content⟩

/-- **Round trip** (`start=0, step=1`, the defaults):
    `list(events_from_file(events_to_file(es))) = es.map normalise`. -/
theorem parse_render (compatible : Bool) (es : List TEvent) (h : ∀ e ∈ es, WfEvent e) :
    parseFile 0 1 (renderFile compatible es) = some (es.map normalise) := by
  rw [parse_render_slice compatible 0 1 (by omega) es h, stride_zero_one]

/-- the round trip does not even need non-empty tokens or a cue: in general both
    an empty cue list and an empty outcome list come back as `[""]`. -/
theorem parse_render_general (compatible : Bool) (es : List TEvent) (h : ∀ e ∈ es, EventOk e) :
    parseFile 0 1 (renderFile compatible es) = some (es.map normaliseAll) := by
  rw [parseFile_renderFile compatible 0 1 es h, stride_zero_one]

/-- **Frequency column, for every `int`.** A line `cues \t outcomes \t f`
    whose third column `int` reads as `v` yields exactly `max v 0` copies of the
    event: `v` copies for `v ≥ 0`, none for `v = 0` and — `for i in
    range(int(frequency))` — none and NO error for a negative `v`. -/
theorem freq_expand_with (intOf : Str → Option Int) (e : TEvent) (h : WfEvent e) (f : Str) (v : Int)
    (hf : intOf f = some v) (hft : TAB ∉ f) (hfl : LF ∉ f) :
    parseLineWith intOf (renderEvent false e ++ TAB :: f ++ [LF])
      = some (List.replicate v.toNat (normalise e)) := by
  rw [parseLineWith_freq intOf e h.ok f v hf hft hfl, h.norm]

/-- … and a third column `int` rejects makes the line raise `ValueError`. -/
theorem freq_error_with (intOf : Str → Option Int) (e : TEvent) (h : WfEvent e) (f : Str)
    (hf : intOf f = none) (hft : TAB ∉ f) (hfl : LF ∉ f) :
    parseLineWith intOf (renderEvent false e ++ TAB :: f ++ [LF]) = none :=
  parseLineWith_freq_error intOf e h.ok f hf hft hfl

/-- the instance: `freq_expand_with` at `pyInt`. -/
theorem freq_expand (e : TEvent) (h : WfEvent e) (f : Str) (v : Int)
    (hf : pyInt f = some v) (hft : TAB ∉ f) (hfl : LF ∉ f) :
    parseLine (renderEvent false e ++ TAB :: f ++ [LF]) = some (List.replicate v.toNat (normalise e)) :=
  freq_expand_with pyInt e h f v hf hft hfl

/-- the same with the frequency written as the decimal numeral of `k` (what
    `str(k)` produces), for every `k` of at most 4300 digits (`k < 10^4300`;
    beyond that CPython ≥ 3.11's `int` raises `ValueError` — and so does the
    instance) — no hypothesis on the third column left.  For an arbitrary `int`:
    `freq_expand_with` with `hf : intOf (decimal k) = some k`. -/
theorem freq_expand_decimal (e : TEvent) (h : WfEvent e) (k : Nat)
    (hk : (decimal k).length ≤ intMaxStrDigits) :
    parseLine (renderEvent false e ++ TAB :: decimal k ++ [LF])
      = some (List.replicate k (normalise e)) := by
  have := freq_expand e h (decimal k) k (pyInt_decimal k hk) (decimal_clean k).1 (decimal_clean k).2
  simpa using this

/-- one body line of the writer with the delimiter given as TAB is the line of
    the default writer -/
theorem renderEventWith_tab (compatible : Bool) (e : TEvent) :
    renderEventWith [TAB] compatible e = renderEvent compatible e := by
  cases compatible <;> simp [renderEventWith, renderEvent]

/-- **`delimiter=` / `columns=` at their defaults.** The writer model with both
    parameters (`renderFileWith`, what the differential run evaluates when a
    case passes them) is the default writer `renderFile` of the round-trip
    theorems when they are `"\t"` and `("cues", "outcomes")` — for both
    `compatible` settings (with `compatible=True` the columns are replaced). -/
theorem renderFileWith_default (compatible : Bool) (es : List TEvent) :
    renderFileWith [TAB] defaultColumns compatible es = renderFile compatible es := by
  have hh : renderHeaderWith [TAB] defaultColumns compatible = renderHeader compatible := by
    cases compatible <;> decide +kernel
  have he : renderEventWith [TAB] compatible = renderEvent compatible :=
    funext (renderEventWith_tab compatible)
  simp [renderFileWith, renderFile, renderLines, hh, he]

/-- **The legacy triple given explicitly with `compatible=True`** (io.py:106,
    the branch without the warning) writes the same file as `compatible=True`
    alone. -/
theorem renderFileWith_legacy_explicit (es : List TEvent) :
    renderFileWith [TAB] legacyColumns true es = renderFile true es := by
  have hh : renderHeaderWith [TAB] legacyColumns true = renderHeader true := by decide +kernel
  have he : renderEventWith [TAB] true = renderEvent true := funext (renderEventWith_tab true)
  simp [renderFileWith, renderFile, renderLines, hh, he]

/-- with `compatible=True` the `columns=` argument never reaches the file -/
theorem renderFileWith_compatible_ignores_columns (delim : Str) (columns : List Str) (es : List TEvent) :
    renderFileWith delim columns true es = renderFileWith delim legacyColumns true es := by
  by_cases h : columns = legacyColumns <;> simp [renderFileWith, renderHeaderWith, h]

/-- **`columns=` only names the header, and the header never reaches the
    reader**: two files that differ in `columns=` only (column names free of
    line breaks, any delimiter, any events) are read back identically — same
    events or same `ValueError`, for every `start`/`step` (also `step = 0`:
    both raise) and every `int`. -/
theorem columns_irrelevant_for_reader_with (intOf : Str → Option Int) (delim : Str) (c1 c2 : List Str)
    (compatible : Bool) (start step : Nat) (es : List TEvent)
    (h1 : LF ∉ renderHeaderWith delim c1 compatible ∧ CR ∉ renderHeaderWith delim c1 compatible)
    (h2 : LF ∉ renderHeaderWith delim c2 compatible ∧ CR ∉ renderHeaderWith delim c2 compatible) :
    parseFileWith intOf start step (renderFileWith delim c1 compatible es)
      = parseFileWith intOf start step (renderFileWith delim c2 compatible es) := by
  unfold parseFileWith renderFileWith
  rw [Text.bodyLines_unlines_cons _ _ h1, Text.bodyLines_unlines_cons _ _ h2]

/-- the instance -/
theorem columns_irrelevant_for_reader (delim : Str) (c1 c2 : List Str) (compatible : Bool)
    (start step : Nat) (es : List TEvent)
    (h1 : LF ∉ renderHeaderWith delim c1 compatible ∧ CR ∉ renderHeaderWith delim c1 compatible)
    (h2 : LF ∉ renderHeaderWith delim c2 compatible ∧ CR ∉ renderHeaderWith delim c2 compatible) :
    parseFile start step (renderFileWith delim c1 compatible es)
      = parseFile start step (renderFileWith delim c2 compatible es) :=
  columns_irrelevant_for_reader_with pyInt delim c1 c2 compatible start step es h1 h2

/-- **Input forms.** Whatever a learner computes from the event list
    (`learn`), it computes the same from the file the events were written to
    (path string / path object: the reader; generator given to `ndl.ndl`: spooled
    through the writer and read back), provided every event has an outcome.
    (`learn` is opaque and the container / path / compression forms are not
    represented in the model: for those this clause holds by construction and
    is tested, see the file header.) -/
theorem forms_agree {W : Type} (learn : List TEvent → W) (compatible : Bool) (es : List TEvent)
    (h : ∀ e ∈ es, WfEvent e ∧ e.outcomes ≠ []) :
    (parseFile 0 1 (renderFile compatible es)).map learn = some (learn es) := by
  rw [parse_render compatible es (fun e he => (h e he).1)]
  have : es.map normalise = es := by
    conv => rhs; rw [← List.map_id es]
    apply List.map_congr_left
    intro e he
    simp [normalise, normList, (h e he).2]
  rw [this]; rfl

/-! Non-vacuity: two events (the second without outcomes, tokens with a
non-ASCII character and a space) written with `compatible=True` and read back;
a frequency line with `f = "3"`; the hypotheses hold for these values. -/
example :
    let e1 : TEvent := ⟨[['a', 'ä'], ['b', ' ']], [['x']]⟩
    let e2 : TEvent := ⟨[['c']], []⟩
    parseFile 0 1 (renderFile true [e1, e2]) = some [e1, ⟨[['c']], [[]]⟩] ∧
    parseFile 1 2 (renderFile false [e1, e2, e1]) = some [⟨[['c']], [[]]⟩] ∧
    parseFile 1 0 (renderFile false [e1, e2, e1]) = none ∧
    parseLine (renderEvent false e2 ++ TAB :: ['3'] ++ [LF]) = some (List.replicate 3 (normalise e2)) ∧
    pyInt ['3'] = some 3 ∧ (decimal 3).length ≤ intMaxStrDigits := by
  decide +kernel

/-- `parse_render_slice_with` APPLIED (`start = 1`, `step = 2`,
    `compatible=True`, an `int` given by a table for `"1"` only): all four
    hypotheses instantiated. -/
example :
    parseFileWith (intOfTable [(['1'], some 1)]) 1 2
        (renderFile true [⟨[['a']], [['x']]⟩, ⟨[['b']], []⟩, ⟨[['a']], [['x']]⟩])
      = some ((stride 1 2 [⟨[['a']], [['x']]⟩, ⟨[['b']], []⟩, ⟨[['a']], [['x']]⟩]).map normalise) := by
  refine parse_render_slice_with _ true 1 2 (by omega) _ ?_ (fun _ => by decide +kernel)
  intro e he
  have hw : ∀ c : Char, c = 'a' ∨ c = 'b' ∨ c = 'x' → WfTok [c] := by
    rintro c (rfl | rfl | rfl) <;> exact ⟨by simp, by decide, by decide, by decide, by decide⟩
  simp only [List.mem_cons, List.mem_nil_iff, or_false] at he
  rcases he with rfl | rfl | rfl
  · exact ⟨by simp, by intro t ht; simp at ht; subst ht; exact hw _ (Or.inl rfl),
      by intro t ht; simp at ht; subst ht; exact hw _ (Or.inr (Or.inr rfl))⟩
  · exact ⟨by simp, by intro t ht; simp at ht; subst ht; exact hw _ (Or.inr (Or.inl rfl)), by simp⟩
  · exact ⟨by simp, by intro t ht; simp at ht; subst ht; exact hw _ (Or.inl rfl),
      by intro t ht; simp at ht; subst ht; exact hw _ (Or.inr (Or.inr rfl))⟩

/-- the line `c⇥x⇥f` -/
def line (f : String) : Str := renderEvent false ⟨[['c']], [['x']]⟩ ++ TAB :: f.toList ++ [LF]

/-- the literal domain of the instance, on the third columns the review listed
    (each checked against `int()` of CPython 3.12 and against
    `events_from_file` of /repo): a negative number is NOT an error. -/
example :
    let e : TEvent := ⟨[['c']], [['x']]⟩
    pyInt "-1".toList = some (-1) ∧ parseLine (line "-1") = some [] ∧
    pyInt "+2".toList = some 2 ∧ parseLine (line "+2") = some [e, e] ∧
    pyInt " 1 ".toList = some 1 ∧ parseLine (line " 1 ") = some [e] ∧
    pyInt "1_0".toList = some 10 ∧ (parseLine (line "1_0")).map List.length = some 10 ∧
    pyInt "".toList = none ∧ parseLine (line "") = none := by
  decide +kernel

example :
    let e : TEvent := ⟨[['c']], [['x']]⟩
    pyInt "1__0".toList = none ∧ pyInt "_1".toList = none ∧ pyInt "1_".toList = none ∧
    pyInt "1.0".toList = none ∧ pyInt "--1".toList = none ∧ pyInt "1 2".toList = none ∧
    pyInt "\x1c5".toList = none ∧ pyInt "\u20035\x0c".toList = some 5 ∧
    -- a full-width digit: outside the instance, covered by `freq_expand_with` with a
    -- Python-supplied table (`int('２') == 2`)
    pyInt "２".toList = none ∧
    parseLineWith (intOfTable [("２".toList, some 2)]) (line "２") = some [e, e] := by
  decide +kernel

/-- `freq_expand_with` APPLIED with a negative value and with a table-supplied
    `int`: all hypotheses instantiated. -/
example :
    parseLineWith pyInt (renderEvent false ⟨[['c']], [['x']]⟩ ++ TAB :: "-7".toList ++ [LF])
      = some (List.replicate (-7 : Int).toNat (normalise ⟨[['c']], [['x']]⟩)) :=
  freq_expand_with pyInt ⟨[['c']], [['x']]⟩
    ⟨by simp, by intro t ht; simp at ht; subst ht; exact ⟨by simp, by decide, by decide, by decide, by decide⟩,
     by intro t ht; simp at ht; subst ht; exact ⟨by simp, by decide, by decide, by decide, by decide⟩⟩
    "-7".toList (-7) (by decide +kernel) (by decide) (by decide)

/-! Non-vacuity of the `delimiter=` / `columns=` statements: a reordered pair of
column names and a comma delimiter give a different file; with the comma the
written file cannot be read back (`ValueError`), with TAB it can. -/
example :
    let e1 : TEvent := ⟨[['a'], ['b']], [['x']]⟩
    let oc : List Str := [['o', 'u', 't'], ['c', 'u', 'e']]
    renderFileWith [TAB] oc false [e1] ≠ renderFile false [e1] ∧
    parseFile 0 1 (renderFileWith [TAB] oc false [e1]) = some [e1] ∧
    parseFile 0 1 (renderFileWith [','] defaultColumns false [e1]) = none ∧
    (LF ∉ renderHeaderWith [TAB] oc false ∧ CR ∉ renderHeaderWith [TAB] oc false) := by
  decide +kernel

example : WfEvent ⟨[['a', 'ä'], ['b', ' ']], []⟩ := by
  refine ⟨by simp, ?_, by simp⟩
  intro t ht
  simp only [List.mem_cons, List.mem_nil_iff, or_false] at ht
  rcases ht with rfl | rfl <;> exact ⟨by simp, by decide, by decide, by decide, by decide⟩

/-! ### the remaining main theorems APPLIED (every hypothesis instantiated)

Events: `e1 = (aä, b␣ → x)`, `e2 = (c → )` (no outcome), `e3 = (d_e → y_z)`;
`WfEvent` of each is decided by evaluation. -/

def ex1 : TEvent := ⟨[['a', 'ä'], ['b', ' ']], [['x']]⟩
def ex2 : TEvent := ⟨[['c']], []⟩
def ex3 : TEvent := ⟨[['d'], ['e']], [['y'], ['z']]⟩

/-- (definitional: `decide` on example data, not a property theorem) the example
    events satisfy `WfEvent` -/
theorem exWf : ∀ e ∈ [ex1, ex2, ex3, ex1], WfEvent e := by decide +kernel

/-- `parse_render`, `parse_render_slice` (`start = 1`, `step = 2`, both
    `compatible` settings), `parse_render_general` APPLIED. -/
example :
    parseFile 0 1 (renderFile true [ex1, ex2, ex3, ex1]) = some ([ex1, ex2, ex3, ex1].map normalise) ∧
    parseFile 1 2 (renderFile false [ex1, ex2, ex3, ex1]) = some ((stride 1 2 [ex1, ex2, ex3, ex1]).map normalise) ∧
    parseFile 3 5 (renderFile true [ex1, ex2, ex3, ex1]) = some ((stride 3 5 [ex1, ex2, ex3, ex1]).map normalise) ∧
    -- no cue at all, an empty token: outside `WfEvent`, inside `EventOk`
    parseFile 0 1 (renderFile false [⟨[], [[]]⟩, ex2]) = some ([⟨[], [[]]⟩, ex2].map normaliseAll) :=
  ⟨parse_render true _ exWf, parse_render_slice false 1 2 (by omega) _ exWf,
   parse_render_slice true 3 5 (by omega) _ exWf,
   parse_render_general false _ (by
     intro e he
     simp only [List.mem_cons, List.mem_nil_iff, or_false] at he
     rcases he with rfl | rfl
     · exact ⟨by simp, by intro t ht; simp at ht; subst ht; exact ⟨by simp, by simp, by simp, by simp⟩⟩
     · exact (exWf ex2 (by simp)).ok)⟩

/-- … and what the slices are (so the equations are not about empty lists) -/
example :
    stride 1 2 [ex1, ex2, ex3, ex1] = [ex2, ex1] ∧ stride 3 5 [ex1, ex2, ex3, ex1] = [ex1] ∧
    normalise ex2 = ⟨[['c']], [[]]⟩ := by decide +kernel

/-- `step_zero_raises` APPLIED to a written file. -/
example : parseFile 2 0 (renderFile false [ex1, ex2]) = none :=
  (step_zero_raises pyInt 2 _).2

/-- `freq_error_with`, `freq_expand`, `freq_expand_decimal` APPLIED: third
    columns `1.0` (rejected), `+3`, and the numeral of 12. -/
example :
    parseLineWith pyInt (renderEvent false ex3 ++ TAB :: "1.0".toList ++ [LF]) = none ∧
    parseLine (renderEvent false ex3 ++ TAB :: "+3".toList ++ [LF])
      = some (List.replicate (3 : Int).toNat (normalise ex3)) ∧
    parseLine (renderEvent false ex2 ++ TAB :: decimal 12 ++ [LF]) = some (List.replicate 12 (normalise ex2)) :=
  ⟨freq_error_with pyInt ex3 (exWf ex3 (by simp)) _ (by decide +kernel) (by decide) (by decide),
   freq_expand ex3 (exWf ex3 (by simp)) _ 3 (by decide +kernel) (by decide) (by decide),
   freq_expand_decimal ex2 (exWf ex2 (by simp)) 12 (by decide +kernel)⟩

/-- `forms_agree` APPLIED with a concrete "learner" (the total number of cue
    tokens) to events that all have an outcome; `splitOn_joinWith`,
    `joined_strings_verbatim` APPLIED. -/
example :
    (parseFile 0 1 (renderFile true [ex1, ex3, ex1])).map (fun es => (es.map (·.cues.length)).sum)
      = some (([ex1, ex3, ex1].map (·.cues.length)).sum) ∧
    splitOn US (joinWith US [['d'], ['e'], ['f', ' ']]) = [['d'], ['e'], ['f', ' ']] ∧
    renderEvent true (eventOfStrings "a__b".toList "_".toList)
      = "a__b".toList ++ TAB :: "_".toList ++ [TAB, '1'] :=
  ⟨forms_agree (fun es => (es.map (·.cues.length)).sum) true [ex1, ex3, ex1] (by decide +kernel),
   splitOn_joinWith US _ (by simp) (by decide +kernel),
   joined_strings_verbatim true _ _⟩

/-- `columns_irrelevant_for_reader`, `renderFileWith_default`,
    `renderFileWith_legacy_explicit`, `renderFileWith_compatible_ignores_columns`
    APPLIED: column names `out`/`cue` against the default names, TAB delimiter,
    `start = 1`, `step = 2`. -/
example :
    parseFile 1 2 (renderFileWith [TAB] [['o', 'u', 't'], ['c', 'u', 'e']] false [ex1, ex2, ex3])
      = parseFile 1 2 (renderFileWith [TAB] defaultColumns false [ex1, ex2, ex3]) ∧
    renderFileWith [TAB] defaultColumns true [ex1, ex2] = renderFile true [ex1, ex2] ∧
    renderFileWith [TAB] legacyColumns true [ex1, ex2] = renderFile true [ex1, ex2] ∧
    renderFileWith [','] [['q']] true [ex3] = renderFileWith [','] legacyColumns true [ex3] :=
  ⟨columns_irrelevant_for_reader [TAB] _ _ false 1 2 _ (by decide +kernel) (by decide +kernel),
   renderFileWith_default true _, renderFileWith_legacy_explicit _,
   renderFileWith_compatible_ignores_columns _ _ _⟩

/-! ### lemmas (not property theorems) -/

/-- (definitional: `decide` on regenerated constants) the header lines the writer model emits are the literals of io.py: the
    legacy column names of `compatible=True` (`Generated.lean` is regenerated
    from /repo on every run) and the separators shared with the reader -/
theorem literals_match_source :
    renderHeader true = Generated.legacyHeader.toList ∧
    Generated.writerColSep = "\t" ∧ Generated.writerTokSep = "_" ∧
    Generated.readerColSep = Generated.writerColSep ∧ Generated.readerTokSep = Generated.writerTokSep := by
  decide +kernel

/-- (definitional) the third column written by `compatible=True` is the frequency 1. -/
theorem compatible_is_freq_one (e : TEvent) :
    renderEvent true e = renderEvent false e ++ TAB :: ['1'] := by
  simp [renderEvent]

end Pyndl.C07
