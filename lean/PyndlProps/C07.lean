/-
  C07 — Text event files round-trip; the frequency column and the input form
  keep their meaning.

  Property theorems only (lemmas: PyndlProofs/Text.lean; model:
  PyndlModel/Text.lean, mirroring pyndl/io.py:20-178).  Strings are `List Char`;
  gzip and the UTF-8 codec are identity (trusted base); Python's universal
  newlines are part of the model, which is why U+000D is excluded from tokens
  (known finding F11).
-/
import PyndlProofs.Text
import PyndlModel.Generated

namespace Pyndl.C07
open Pyndl Pyndl.Text

/-- the header lines the writer model emits are the literals of io.py: the
    legacy column names of `compatible=True` (`Generated.lean` is regenerated
    from /repo on every run) and the separators shared with the reader -/
theorem literals_match_source :
    renderHeader true = Generated.legacyHeader.toList ∧
    Generated.writerColSep = "\t" ∧ Generated.writerTokSep = "_" ∧
    Generated.readerColSep = Generated.writerColSep ∧ Generated.readerTokSep = Generated.writerTokSep := by
  decide +kernel

/-- a token the property quantifies over: non-empty, no TAB, LF, CR, underscore. -/
def WfTok (t : Str) : Prop := t ≠ [] ∧ TAB ∉ t ∧ LF ∉ t ∧ CR ∉ t ∧ US ∉ t

/-- an event the property quantifies over: at least one cue, well-formed tokens
    (any number of outcomes, including none). -/
def WfEvent (e : TEvent) : Prop :=
  e.cues ≠ [] ∧ (∀ t ∈ e.cues, WfTok t) ∧ (∀ t ∈ e.outcomes, WfTok t)

theorem WfEvent.ok {e : TEvent} (h : WfEvent e) : EventOk e :=
  ⟨fun t ht => let w := h.2.1 t ht; ⟨w.2.1, w.2.2.1, w.2.2.2.1, w.2.2.2.2⟩,
   fun t ht => let w := h.2.2 t ht; ⟨w.2.1, w.2.2.1, w.2.2.2.1, w.2.2.2.2⟩⟩

theorem WfEvent.norm {e : TEvent} (h : WfEvent e) : normaliseAll e = normalise e := by
  simp [normaliseAll, normalise, normList, h.1]

/-- **`sep.join(xs).split(sep) == xs`** for every separator, every non-empty list
    of strings none of which contains the separator. -/
theorem splitOn_joinWith (sep : Char) (xs : List Str) (hne : xs ≠ [])
    (h : ∀ x ∈ xs, sep ∉ x) : splitOn sep (joinWith sep xs) = xs :=
  Text.splitOn_joinWith sep xs hne h

/-- `sep.join(s.split(sep)) == s` for every string: the "list of joined strings"
    and the DataFrame containers (which `events_from_list` / `events_from_dataframe`
    split on `_` and `events_to_file` joins again) are written verbatim. -/
theorem joined_strings_verbatim (compatible : Bool) (cues outcomes : Str) :
    renderEvent compatible (eventOfStrings cues outcomes)
      = cues ++ TAB :: outcomes ++ (if compatible then [TAB, '1'] else []) := by
  simp [renderEvent, eventOfStrings, Text.joinWith_splitOn]

/-- **Round trip, with `start`/`step`.** Reading back a written file yields the
    `islice(start, None, step)` of the written events, each with an empty outcome
    list turned into `[""]` and nothing else changed — for both `compatible`
    settings, every event list, every `start`, every `step`. -/
theorem parse_render_slice (compatible : Bool) (start step : Nat) (es : List TEvent)
    (h : ∀ e ∈ es, WfEvent e) :
    parseFile start step (renderFile compatible es) = some ((stride start step es).map normalise) := by
  rw [parseFile_renderFile compatible start step es (fun e he => (h e he).ok)]
  congr 1
  apply List.map_congr_left
  intro e he
  exact (h e (mem_everyNth step start es e he)).norm

/-- **Round trip** (`start=0, step=1`, the defaults):
    `list(events_from_file(events_to_file(es))) = es.map normalise`. -/
theorem parse_render (compatible : Bool) (es : List TEvent) (h : ∀ e ∈ es, WfEvent e) :
    parseFile 0 1 (renderFile compatible es) = some (es.map normalise) := by
  rw [parse_render_slice compatible 0 1 es h, stride_zero_one]

/-- the round trip does not even need non-empty tokens or a cue: in general both
    an empty cue list and an empty outcome list come back as `[""]`. -/
theorem parse_render_general (compatible : Bool) (es : List TEvent) (h : ∀ e ∈ es, EventOk e) :
    parseFile 0 1 (renderFile compatible es) = some (es.map normaliseAll) := by
  rw [parseFile_renderFile compatible 0 1 es h, stride_zero_one]

/-- **Frequency column.** A line `cues \t outcomes \t f` whose third column reads
    as the number `k` (`int(f) = k`) yields exactly `k` copies of the event —
    0 copies for `k = 0`. -/
theorem freq_expand (e : TEvent) (h : WfEvent e) (f : Str) (k : Nat)
    (hf : parseNat? f = some k) (hft : TAB ∉ f) (hfl : LF ∉ f) :
    parseLine (renderEvent false e ++ TAB :: f ++ [LF]) = some (List.replicate k (normalise e)) := by
  rw [parseLine_freq e h.ok f k hf hft hfl, h.norm]

/-- the same with the frequency written as the decimal numeral of `k` (what
    `str(k)` produces), for every `k` — no hypothesis on the third column left. -/
theorem freq_expand_decimal (e : TEvent) (h : WfEvent e) (k : Nat) :
    parseLine (renderEvent false e ++ TAB :: decimal k ++ [LF])
      = some (List.replicate k (normalise e)) :=
  freq_expand e h (decimal k) k (parseNat_decimal k) (decimal_clean k).1 (decimal_clean k).2

/-- the third column written by `compatible=True` is the frequency 1. -/
theorem compatible_is_freq_one (e : TEvent) :
    renderEvent true e = renderEvent false e ++ TAB :: ['1'] := by
  simp [renderEvent]

/-- one body line of the writer with the delimiter given as TAB is the line of
    the default writer -/
theorem renderEventWith_tab (compatible : Bool) (e : TEvent) :
    renderEventWith [TAB] compatible e = renderEvent compatible e := by
  cases compatible <;> simp [renderEventWith, renderEvent]

/-- **`delimiter=` / `columns=` at their defaults.** The writer model with both
    parameters (`renderFileWith`, what the differential run evaluates when a
    case passes them) is the default writer `renderFile` of the round-trip
    theorems when they are `"\t"` and `("cues", "outcomes")` — for both
    `compatible` settings (with `compatible=True` the columns are replaced). -/
theorem renderFileWith_default (compatible : Bool) (es : List TEvent) :
    renderFileWith [TAB] defaultColumns compatible es = renderFile compatible es := by
  have hh : renderHeaderWith [TAB] defaultColumns compatible = renderHeader compatible := by
    cases compatible <;> decide +kernel
  have he : renderEventWith [TAB] compatible = renderEvent compatible :=
    funext (renderEventWith_tab compatible)
  simp [renderFileWith, renderFile, renderLines, hh, he]

/-- **The legacy triple given explicitly with `compatible=True`** (io.py:106,
    the branch without the warning) writes the same file as `compatible=True`
    alone. -/
theorem renderFileWith_legacy_explicit (es : List TEvent) :
    renderFileWith [TAB] legacyColumns true es = renderFile true es := by
  have hh : renderHeaderWith [TAB] legacyColumns true = renderHeader true := by decide +kernel
  have he : renderEventWith [TAB] true = renderEvent true := funext (renderEventWith_tab true)
  simp [renderFileWith, renderFile, renderLines, hh, he]

/-- with `compatible=True` the `columns=` argument never reaches the file -/
theorem renderFileWith_compatible_ignores_columns (delim : Str) (columns : List Str) (es : List TEvent) :
    renderFileWith delim columns true es = renderFileWith delim legacyColumns true es := by
  by_cases h : columns = legacyColumns <;> simp [renderFileWith, renderHeaderWith, h]

/-- **`columns=` only names the header, and the header never reaches the
    reader**: two files that differ in `columns=` only (column names free of
    line breaks, any delimiter, any events) are read back identically — same
    events or same `ValueError`, for every `start`/`step`. -/
theorem columns_irrelevant_for_reader (delim : Str) (c1 c2 : List Str) (compatible : Bool)
    (start step : Nat) (es : List TEvent)
    (h1 : LF ∉ renderHeaderWith delim c1 compatible ∧ CR ∉ renderHeaderWith delim c1 compatible)
    (h2 : LF ∉ renderHeaderWith delim c2 compatible ∧ CR ∉ renderHeaderWith delim c2 compatible) :
    parseFile start step (renderFileWith delim c1 compatible es)
      = parseFile start step (renderFileWith delim c2 compatible es) := by
  unfold parseFile renderFileWith
  rw [Text.bodyLines_unlines_cons _ _ h1, Text.bodyLines_unlines_cons _ _ h2]

/-- **Input forms.** Whatever a learner computes from the event list
    (`learn`), it computes the same from the file the events were written to
    (path string / path object: the reader; generator given to `ndl.ndl`: spooled
    through the writer and read back), provided every event has an outcome. -/
theorem forms_agree {W : Type} (learn : List TEvent → W) (compatible : Bool) (es : List TEvent)
    (h : ∀ e ∈ es, WfEvent e ∧ e.outcomes ≠ []) :
    (parseFile 0 1 (renderFile compatible es)).map learn = some (learn es) := by
  rw [parse_render compatible es (fun e he => (h e he).1)]
  have : es.map normalise = es := by
    conv => rhs; rw [← List.map_id es]
    apply List.map_congr_left
    intro e he
    simp [normalise, normList, (h e he).2]
  rw [this]; rfl

/-! Non-vacuity: two events (the second without outcomes, tokens with a
non-ASCII character and a space) written with `compatible=True` and read back;
a frequency line with `f = "3"`; the hypotheses hold for these values. -/
example :
    let e1 : TEvent := ⟨[['a', 'ä'], ['b', ' ']], [['x']]⟩
    let e2 : TEvent := ⟨[['c']], []⟩
    parseFile 0 1 (renderFile true [e1, e2]) = some [e1, ⟨[['c']], [[]]⟩] ∧
    parseFile 1 2 (renderFile false [e1, e2, e1]) = some [⟨[['c']], [[]]⟩] ∧
    parseLine (renderEvent false e2 ++ TAB :: ['3'] ++ [LF]) = some (List.replicate 3 (normalise e2)) ∧
    parseNat? ['3'] = some 3 := by
  decide +kernel

/-! Non-vacuity of the `delimiter=` / `columns=` statements: a reordered pair of
column names and a comma delimiter give a different file; with the comma the
written file cannot be read back (`ValueError`), with TAB it can. -/
example :
    let e1 : TEvent := ⟨[['a'], ['b']], [['x']]⟩
    let oc : List Str := [['o', 'u', 't'], ['c', 'u', 'e']]
    renderFileWith [TAB] oc false [e1] ≠ renderFile false [e1] ∧
    parseFile 0 1 (renderFileWith [TAB] oc false [e1]) = some [e1] ∧
    parseFile 0 1 (renderFileWith [','] defaultColumns false [e1]) = none ∧
    (LF ∉ renderHeaderWith [TAB] oc false ∧ CR ∉ renderHeaderWith [TAB] oc false) := by
  decide +kernel

example : WfEvent ⟨[['a', 'ä'], ['b', ' ']], []⟩ := by
  refine ⟨by simp, ?_, by simp⟩
  intro t ht
  simp only [List.mem_cons, List.mem_nil_iff, or_false] at ht
  rcases ht with rfl | rfl <;> exact ⟨by simp, by decide, by decide, by decide, by decide⟩

end Pyndl.C07
