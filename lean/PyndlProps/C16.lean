/-
  C16 — run metadata is truthful, accumulates per call, survives netCDF.

  Property theorems only (helper lemmas: PyndlProofs/Attrs.lean; model:
  PyndlModel/Attrs.lean).  They quantify over every chain of k ≥ 1 calls
  (`c₀ :: rest`), every mix of the two `_attributes` functions (`Call.ndl` =
  ndl.ndl, dict_ndl, wh real_to_binary; `Call.wh` = the other wh flavours,
  dict_wh), every string the calls supply and every run environment.

  NOT covered by any theorem (decided only by the differential run of
  harness/run_C16.py, and labelled so in the evidence): that
  `DataArray.to_netcdf` followed by `xr.open_dataarray(...).load()` is the
  identity on values, coords, dims and attrs.  netCDF4/HDF5/xarray cannot be
  modelled here; `save_load_identity` below only says that the *model* treats
  the round trip as the identity, so that "continue from the loaded weights =
  continue from the unsaved weights" is a congruence.

  A statement the property text suggests but the code (and hence the model)
  does NOT satisfy, recorded with its counterexample (`late_key_counterexample`):
  "after k calls every attribute present has k entries" fails for a key that
  is first written by call j ≥ 3 (possible only when the chain mixes the two
  key sets, e.g. dict_wh → dict_wh → dict_ndl): the missing old side is the
  single entry `''`, so the key has k − j + 2 entries.  `entries_count` is
  therefore stated for chains within one key set (all chains the public
  learners accept with DataArray hand-over) and `entries_count_mixed` for any
  mix at keys the first call writes; `entries_late` gives the exact list
  otherwise.

  TRUTHFULNESS (`ndl_chain_reports`, PyndlProofs/AttrsNdl.lean): the theorems
  above are about what `_attributes` does with the strings it is handed; that
  the string under `number_events` IS the number of events the learner trained
  on needs the learner.  `ndlCallMeta` composes the model of `ndl.ndl`
  (`ndlCall`: it returns the count the chunk writer reported) with the attribute
  model (`mkCall .ndl`, `attributes`) as ndl.py:299-305 does; for every chain of
  such calls that runs through, entry `i` of `number_events` is the decimal
  string of the number of events of file `i`, and `event_path`, `method`,
  `alpha`, `betas`, `lambda` hold the values of call `i`.  No hypothesis on
  policies, sizes or weights (`ndlCall_count`: a successful call returns
  exactly `es.length`).  The same composition for the other learners
  (`dict_ndl`, `wh.wh`, `dict_wh`) is NOT done: their `number_events` is checked
  by the differential run only.

  ONE ENTRY PER CALL, from arbitrary starting attrs (`call_appends_one_entry`,
  `chain_appends_from`): a first call that is handed weights with user
  attributes; chains of any length.

  Hypotheses on supplied strings (DESIGN §7): `'|' ∉ v` and `NoTrailingSpace v`
  for every supplied value `v` that is to be read back by splitting at `' | '`
  and stripping; decimal count strings and the method names satisfy them
  (`bar_not_mem_decStr`, …).
-/
import PyndlProofs.Attrs
import PyndlProofs.AttrsNdl
import PyndlModel.Generated

namespace Pyndl.C16
open Pyndl.Attrs List

/-- the separator of the model is the literal extracted from the source tree
    on every run (`Generated.attrSep`, ndl.py:362). -/
theorem sep_generated : sep = Pyndl.Generated.attrSep.toList := by decide

/-- **split_join.** Splitting the `' | '`-join of k ≥ 1 entries at `' | '`
    gives back exactly those entries, provided no entry contains the character
    `'|'`.  (The weaker "no entry contains `' | '`" is not enough, see the
    example below.) -/
theorem split_join (xs : List Str) (hne : xs ≠ []) (h : ∀ x ∈ xs, '|' ∉ x) :
    splitBar (joinSep xs) = xs :=
  splitBar_joinSep xs hne h

/-- neither `"a |"` nor `"b"` contains `" | "`, yet the join `"a | | b"` splits
    into `"a"`, `"| b"`. -/
example : splitBar (joinSep ["a |".toList, "b".toList]) = ["a".toList, "| b".toList] := by
  decide +kernel

/-- **pad_strip.** `'{0: <{width}}'.format(v)` followed by stripping trailing
    spaces is the identity on every `v` that does not end in a space, for every
    width (also widths smaller than `len(v)`: nothing is ever truncated). -/
theorem pad_strip (w : Nat) (v : Str) (h : NoTrailingSpace v) : rstrip (padRight w v) = v :=
  rstrip_padRight w v h

/-- the stored string of every key after a chain is the `' | '`-join of the
    key's entry list (the two views of the model agree). -/
theorem stored_is_join (c₀ : Call) (rest : List Call) (k : Key) :
    stored (c₀ :: rest) k = (get? (runChainE c₀ rest) k).map joinSep :=
  stored_eq_join k c₀ rest

/-- **entries_count, any mix of the two key sets.** For a key the first call
    writes: after the chain `c₀ :: rest` the key is present and its stored
    string, split at `' | '`, is exactly one entry per call, in call order,
    the i-th being what the i-th call wrote (`''` for a call whose key set
    lacks the key) — given that no supplied value contains `'|'`. -/
theorem entries_count_mixed (c₀ : Call) (rest : List Call) (k : Key)
    (hk : hasKey (newAttrs c₀) k = true)
    (hbar : ∀ c ∈ c₀ :: rest, ∀ v, get? c.raw k = some v → '|' ∉ v) :
    ∃ s, stored (c₀ :: rest) k = some s ∧
      splitBar s = (c₀ :: rest).map (entryOf k) ∧
      (splitBar s).length = rest.length + 1 := by
  have hb : ∀ x ∈ (c₀ :: rest).map (entryOf k), '|' ∉ x := by
    intro x hx
    obtain ⟨c, hc, rfl⟩ := List.mem_map.mp hx
    exact bar_not_mem_entryOf c k (hbar c hc)
  refine ⟨joinSep ((c₀ :: rest).map (entryOf k)), stored_chain_present c₀ rest k hk, ?_, ?_⟩
  · exact splitBar_joinSep _ (by simp) hb
  · rw [splitBar_joinSep _ (by simp) hb]; simp

/-- **entries_count.** After any chain of k ≥ 1 calls that stays within one
    key set, EVERY attribute key present has exactly k entries when its stored
    string is split at `' | '`, the i-th written by the i-th call. -/
theorem entries_count (c₀ : Call) (rest : List Call) (k : Key) (s : Str)
    (hu : ∀ c ∈ rest, sameKeySet c₀ c = true)
    (hs : stored (c₀ :: rest) k = some s)
    (hbar : ∀ c ∈ c₀ :: rest, ∀ v, get? c.raw k = some v → '|' ∉ v) :
    splitBar s = (c₀ :: rest).map (entryOf k) ∧ (splitBar s).length = rest.length + 1 := by
  have hk : hasKey (newAttrs c₀) k = true := by
    cases hh : hasKey (newAttrs c₀) k with
    | true => rfl
    | false =>
      exfalso
      have hnone : get? (newAttrs c₀) k = none := by
        simpa [hasKey] using hh
      have hall : ∀ c ∈ rest, (!(hasKey (newAttrs c) k)) = true := by
        intro c hc
        rw [← hasKey_of_sameKeySet c₀ c k (hu c hc), hh]; rfl
      have hdw : rest.dropWhile (fun c => !(hasKey (newAttrs c) k)) = [] :=
        dropWhile_eq_nil_of_all _ _ hall
      rw [stored_is_join, get?_runChainE, hnone] at hs
      simp only [Option.map_none] at hs
      rw [foldl_stepE_none, hdw] at hs
      simp at hs
  obtain ⟨s', h1, h2, h3⟩ := entries_count_mixed c₀ rest k hk hbar
  rw [hs] at h1
  cases h1
  exact ⟨h2, h3⟩

/-- **entries_late (exact list for a key the first call lacks).** Nothing
    until the first call `c` that writes the key; from then on `''` followed
    by one entry per call starting at `c`.  Hence such a key has k entries iff
    it is first written by the second call. -/
theorem entries_late (c₀ : Call) (rest : List Call) (k : Key)
    (hk : hasKey (newAttrs c₀) k = false) :
    get? (runChainE c₀ rest) k
      = match rest.dropWhile (fun c => !(hasKey (newAttrs c) k)) with
        | [] => none
        | c :: r => some ([] :: (c :: r).map (entryOf k)) := by
  have hnone : get? (newAttrs c₀) k = none := by simpa [hasKey] using hk
  rw [get?_runChainE, hnone]
  exact foldl_stepE_none k rest

/-- **reports_call.** Entry i of a key, stripped of its padding, is the string
    the i-th call supplied for it (for every key the call writes, in
    particular number_events, event_path, alpha, betas, lambda, method — see
    `raw_ndl` / `raw_wh` for which argument that is). -/
theorem reports_call (c₀ : Call) (rest : List Call) (k : Key)
    (hk : hasKey (newAttrs c₀) k = true)
    (hbar : ∀ c ∈ c₀ :: rest, ∀ v, get? c.raw k = some v → '|' ∉ v)
    (i : Nat) (c : Call) (hc : (c₀ :: rest)[i]? = some c)
    (v : Str) (hv : get? c.raw k = some v) (hnt : NoTrailingSpace v) :
    ∃ s, stored (c₀ :: rest) k = some s ∧ (entries s)[i]? = some v := by
  obtain ⟨s, h1, h2, _⟩ := entries_count_mixed c₀ rest k hk hbar
  refine ⟨s, h1, ?_⟩
  unfold entries
  rw [h2, List.map_map, List.getElem?_map, hc]
  simp only [Option.map_some, Function.comp]
  rw [entryOf_of_raw c k v hv, rstrip_padRight _ _ hnt]

/-! ## one entry per call, from arbitrary starting attrs -/

/-- **each continued call appends exactly one entry to every key present.**
    For ANY attrs `old` on the given weights, any call `c`, any key `k`:
    (a) `old` holds `k` as the `' | '`-join of the entries `es` (a plain user
        value is one entry) ⇒ afterwards `k` holds `old[k] + ' | ' + entry`, and
        split at `' | '` that is `es` followed by exactly ONE more entry, the
        call's (`''` if the call's key set lacks `k`), given no `'|'` inside
        entries;
    (b) `old` lacks `k` and the call writes it ⇒ `'' | entry` (the missing old
        side is the one entry `''`);
    (c) neither has `k` ⇒ still absent. -/
theorem call_appends_one_entry (old : Attrs) (c : Call) (k : Key) :
    (∀ es, get? old k = some (joinSep es) → es ≠ [] → (∀ x ∈ es, '|' ∉ x) →
      (∀ v, get? c.raw k = some v → '|' ∉ v) →
      ∃ s, get? (attributes c (some old)) k = some s ∧ s = joinSep es ++ sep ++ entryOf k c ∧
        splitBar s = es ++ [entryOf k c]) ∧
    (get? old k = none → hasKey (newAttrs c) k = true →
      get? (attributes c (some old)) k = some ([] ++ sep ++ entryOf k c)) ∧
    (get? old k = none → hasKey (newAttrs c) k = false → get? (attributes c (some old)) k = none) := by
  have hm : get? (attributes c (some old)) k = stepS k (get? old k) c := get?_merge old c k
  refine ⟨?_, ?_, ?_⟩
  · intro es h0 hne hb0 hbc
    have hstep : stepS k (some (joinSep es)) c = some (joinSep es ++ sep ++ entryOf k c) := by
      unfold stepS entryOf
      cases get? (newAttrs c) k <;> simp
    refine ⟨_, by rw [hm, h0, hstep], rfl, ?_⟩
    rw [← joinSep_snoc es _ hne]
    apply splitBar_joinSep _ (by simp)
    intro x hx
    rcases List.mem_append.mp hx with h | h
    · exact hb0 x h
    · rw [List.mem_singleton] at h; subst h
      exact bar_not_mem_entryOf c k hbc
  · intro h0 hk
    obtain ⟨v, hv⟩ := Option.isSome_iff_exists.mp hk
    rw [hm, h0]
    simp [stepS, entryOf, hv]
  · intro h0 hk
    have hn : get? (newAttrs c) k = none := by simpa [hasKey] using hk
    rw [hm, h0]
    simp [stepS, hn]

/-- **chains of ARBITRARY length from ARBITRARY starting attrs** (a first call
    that brings user attributes): a key the starting attrs hold as the join of
    the entries `es₀` holds, after the chain `cs`, exactly `es₀` followed by one
    entry per call, in call order -/
theorem chain_appends_from (a₀ : Attrs) (cs : List Call) (k : Key) (es₀ : List Str)
    (h0 : get? a₀ k = some (joinSep es₀)) (hne : es₀ ≠ []) (hb0 : ∀ x ∈ es₀, '|' ∉ x)
    (hbar : ∀ c ∈ cs, ∀ v, get? c.raw k = some v → '|' ∉ v) :
    ∃ s, (runChainFrom (some a₀) cs).bind (fun a => get? a k) = some s ∧
      splitBar s = es₀ ++ cs.map (entryOf k) ∧ (splitBar s).length = es₀.length + cs.length := by
  have hb : ∀ x ∈ es₀ ++ cs.map (entryOf k), '|' ∉ x := by
    intro x hx
    rcases List.mem_append.mp hx with h | h
    · exact hb0 x h
    · obtain ⟨c, hc, rfl⟩ := List.mem_map.mp h
      exact bar_not_mem_entryOf c k (hbar c hc)
  have hsp := splitBar_joinSep (es₀ ++ cs.map (entryOf k)) (by simp [hne]) hb
  refine ⟨_, stored_from_present a₀ cs k es₀ h0 hne, hsp, ?_⟩
  rw [hsp]; simp

/-- … and a key the starting attrs LACK: nothing until the first call that
    writes it, then `''` followed by one entry per call from that call on
    (`runChain` = the case of no starting attrs is `entries_late`) -/
theorem chain_late_from (a₀ : Attrs) (cs : List Call) (k : Key) (h0 : get? a₀ k = none) :
    (runChainFrom (some a₀) cs).bind (fun a => get? a k)
      = match cs.dropWhile (fun c => !(hasKey (newAttrs c) k)) with
        | [] => none
        | c :: r => some (joinSep ([] :: (c :: r).map (entryOf k))) :=
  stored_from_absent a₀ cs k h0

/-- a user attribute (`Key.other`) is written by no learner: every call appends
    the empty entry to it -/
theorem user_attribute_entries (a₀ : Attrs) (cs : List Call) (name : Str) (v : Str)
    (h0 : get? a₀ (.other name) = some v) (hb0 : '|' ∉ v) :
    ∃ s, (runChainFrom (some a₀) cs).bind (fun a => get? a (.other name)) = some s ∧
      splitBar s = v :: List.replicate cs.length [] := by
  have hraw : ∀ c : Call, get? c.raw (.other name) = none := by
    intro c
    cases c <;> simp [Call.raw, rawNdl, rawWh, envRaw, get?]
  have hrep : ∀ l : List Call, l.map (entryOf (.other name)) = List.replicate l.length [] := by
    intro l
    induction l with
    | nil => rfl
    | cons c r ih =>
      simp only [List.map_cons, List.length_cons, List.replicate_succ, List.cons.injEq]
      exact ⟨entryOf_of_lacks c _ (hraw c), ih⟩
  obtain ⟨s, h1, h2, _⟩ := chain_appends_from a₀ cs (.other name) [v] (by simpa [joinSep] using h0)
    (by simp) (by simpa using hb0) (fun c _ v' hv' => by rw [hraw c] at hv'; cases hv')
  refine ⟨s, h1, ?_⟩
  rw [h2, hrep cs]; rfl

/-! ## truthfulness: the learner model composed with the attribute model -/

/-- **`ndl.ndl` reports what it did.**  For every chain `r₀ :: rest` of `ndl.ndl`
    model calls with metadata (`ndlChainMeta`: each call = `ndlCall` — counting,
    id maps, duplicate policy, chunk files, kernels, zero-event behaviour —
    plus `_attributes` fed with the count THE LEARNER returned and the attrs of
    the weights it was given; first call `weights=None`), every call with its
    own file, policy, method, chunk sizes, learning parameters: IF the chain
    runs through, the attrs of the final weights hold
      * under `number_events`: entry `i` = the decimal string of the number of
        events of file `i` (`es_i.length`),
      * under `event_path`, `method`, `alpha`, `betas`, `lambda`: entry `i` = the
        path, the method name and the `str()` forms of the parameters of call `i`
    — one entry per call, in call order, read back by splitting at `' | '` and
    stripping the padding.  `hs`: the supplied path and `str()` forms contain no
    `'|'` and do not end in a space (file header; the count strings and method
    names do so by themselves). -/
theorem ndl_chain_reports {R : Type} [Add R] [Sub R] [Mul R] [Zero R]
    (r₀ : NdlRun R) (rest : List (NdlRun R)) (s' : Option (LW R × Attrs))
    (h : ndlChainMeta Generated.pyMagic Generated.pyVersion none (r₀ :: rest) = .ok s')
    (hs : ∀ r ∈ r₀ :: rest, ∀ v ∈ [r.path, r.alphaRepr, r.betasRepr, r.lambdaRepr],
      '|' ∉ v ∧ NoTrailingSpace v) :
    ∃ w a, s' = some (w, a) ∧
      (get? a .numberEvents).map entries = some ((r₀ :: rest).map (fun r => decStr r.events.length)) ∧
      (get? a .eventPath).map entries = some ((r₀ :: rest).map (·.path)) ∧
      (get? a .method).map entries = some ((r₀ :: rest).map (fun r => methodStr r.cfg.method)) ∧
      (get? a .alpha).map entries = some ((r₀ :: rest).map (·.alphaRepr)) ∧
      (get? a .betas).map entries = some ((r₀ :: rest).map (·.betasRepr)) ∧
      (get? a .lambda).map entries = some ((r₀ :: rest).map (·.lambdaRepr)) := by
  obtain ⟨h1, h2⟩ := ndlChainMeta_attrs Generated.pyMagic Generated.pyVersion (r₀ :: rest) none s' h
  cases s' with
  | none => simp at h2
  | some x =>
    obtain ⟨w, a⟩ := x
    have ha : runChain (r₀.call :: rest.map NdlRun.call) = some a := by
      simp only [Option.map_some, Option.map_none, List.map_cons] at h1
      rw [runChain_eq_from, ← h1]
    have key : ∀ (k : Key) (f : NdlRun R → Str),
        (∀ r, get? r.call.raw k = some (f r)) →
        (∀ r ∈ r₀ :: rest, '|' ∉ f r ∧ NoTrailingSpace (f r)) →
        (get? a k).map entries = some ((r₀ :: rest).map f) := by
      intro k f hraw hok
      -- the calls of the chain, with the value each supplies for `k`
      have hmem : ∀ c ∈ r₀.call :: rest.map NdlRun.call, ∃ r ∈ r₀ :: rest, c = r.call := by
        intro c hc
        rcases List.mem_cons.mp hc with rfl | hc
        · exact ⟨r₀, by simp, rfl⟩
        · obtain ⟨r, hr, rfl⟩ := List.mem_map.mp hc
          exact ⟨r, by simp [hr], rfl⟩
      have hsp := stored_chain_present r₀.call (rest.map NdlRun.call) k (by
        rw [hasKey_newAttrs]; simp [hasKey, hraw r₀])
      unfold stored at hsp
      rw [ha] at hsp
      simp only [Option.bind_some] at hsp
      rw [hsp, Option.map_some]
      congr 1
      unfold entries
      rw [splitBar_joinSep _ (by simp)]
      · rw [← List.map_cons (f := NdlRun.call), List.map_map, List.map_map]
        apply List.map_congr_left
        intro r hr
        simp only [Function.comp]
        rw [entryOf_of_raw r.call k _ (hraw r), rstrip_padRight _ _ (hok r hr).2]
      · intro x hx
        obtain ⟨c, hc, rfl⟩ := List.mem_map.mp hx
        obtain ⟨r, hr, rfl⟩ := hmem c hc
        apply bar_not_mem_entryOf
        intro v hv
        rw [hraw r] at hv
        cases hv
        exact (hok r hr).1
    refine ⟨w, a, rfl, ?_, ?_, ?_, ?_, ?_, ?_⟩
    · exact key .numberEvents _ (fun r => r.call_raw.1)
        (fun r _ => ⟨bar_not_mem_decStr _, noTrailingSpace_decStr _⟩)
    · exact key .eventPath _ (fun r => r.call_raw.2.1) (fun r hr => hs r hr r.path (by simp))
    · exact key .method _ (fun r => r.call_raw.2.2.1)
        (fun r _ => ⟨bar_not_mem_methodStr _, noTrailingSpace_methodStr _⟩)
    · exact key .alpha _ (fun r => r.call_raw.2.2.2.1) (fun r hr => hs r hr r.alphaRepr (by simp))
    · exact key .betas _ (fun r => r.call_raw.2.2.2.2.1) (fun r hr => hs r hr r.betasRepr (by simp))
    · exact key .lambda _ (fun r => r.call_raw.2.2.2.2.2) (fun r hr => hs r hr r.lambdaRepr (by simp))

/-- the count itself: whatever `ndl.ndl`'s model returns as the number of
    trained events IS the number of events of the file — no hypothesis -/
theorem ndl_count_is_actual {R : Type} [Add R] [Sub R] [Mul R] [Zero R] (cfg : NdlCfg) (alpha β₁ β₂ lam : R)
    (W0 : Option (LW R)) (es : List (Event String String)) (w : LW R) (n : Nat)
    (h : ndlCall Generated.pyMagic Generated.pyVersion cfg alpha β₁ β₂ lam W0 es = .ok (w, n)) :
    n = es.length :=
  ndlCall_count _ _ cfg alpha β₁ β₂ lam W0 es w n h

/-- … and from weights that already carry attrs (any earlier calls, user
    attributes): the chain's attrs are the attribute model's chain from those
    attrs over the calls with the ACTUAL counts, so `chain_appends_from` /
    `chain_late_from` / `user_attribute_entries` apply to it -/
theorem ndl_chain_attrs_from {R : Type} [Add R] [Sub R] [Mul R] [Zero R]
    (rs : List (NdlRun R)) (s s' : Option (LW R × Attrs))
    (h : ndlChainMeta Generated.pyMagic Generated.pyVersion s rs = .ok s') :
    s'.map (·.2) = runChainFrom (s.map (·.2)) (rs.map NdlRun.call) :=
  (ndlChainMeta_attrs _ _ rs s s' h).1

/-! ### lemmas (not property theorems) -/

/-- (definitional) what `ndl._attributes` reports under the six keys of the property: the
    call's own arguments; `alpha` is `'varying'` for a non-scalar alpha. -/
theorem raw_ndl (a : NdlArgs) :
    get? (Call.ndl a).raw .numberEvents = some a.numberEvents ∧
    get? (Call.ndl a).raw .eventPath = some a.eventPath ∧
    get? (Call.ndl a).raw .alpha = some (if a.alphaScalar then a.alphaRepr else "varying".toList) ∧
    get? (Call.ndl a).raw .betas = some a.betas ∧
    get? (Call.ndl a).raw .lambda = some a.lambda ∧
    get? (Call.ndl a).raw .method = some a.method := by
  simp [Call.raw, rawNdl, get?, alphaStr]

/-- (definitional) what `wh._attributes` reports: no `alpha`, no `betas`; `lambda` holds eta. -/
theorem raw_wh (a : WhArgs) :
    get? (Call.wh a).raw .numberEvents = some a.numberEvents ∧
    get? (Call.wh a).raw .eventPath = some a.eventPath ∧
    get? (Call.wh a).raw .alpha = none ∧
    get? (Call.wh a).raw .betas = none ∧
    get? (Call.wh a).raw .lambda = some a.eta ∧
    get? (Call.wh a).raw .method = some a.method := by
  simp [Call.raw, rawWh, envRaw, get?]

/-- (definitional — a MODELLING CONVENTION, not a property theorem) the model
    takes the netCDF round trip to be the identity (`Op.saveLoad => acc`), so
    inserting it anywhere in a chain changes nothing by construction.  That the
    real `to_netcdf` / `open_dataarray` IS the identity on values, labels and
    attrs, and that learning continues from the loaded weights with identical
    results, is NOT proved (netCDF4/HDF5/xarray cannot be modelled; the attrs
    model carries no weights) — those clauses of C16 are decided by the
    differential run only. -/
theorem save_load_identity (ops : List Op) : runOps ops = runChain (calls ops) :=
  runOps_eq_runChain ops

/-! ## Non-vacuity and the recorded counterexample -/

private def env0 : Env :=
  { date := "2026-09-30 14:24:44".toList, cpuTime := "0.027".toList, wallTime := "1.02".toList,
    hostname := "vm".toList, username := "root".toList, pyndl := "1.2.3".toList,
    numpy := "2.5.3".toList, pandas := "3.0.6".toList, xarray := "2026.7.0".toList,
    cython := "3.3.0".toList }

private def ndl1 : Call := .ndl
  { eventPath := "e1.tab.gz".toList, numberEvents := "3".toList, alphaScalar := true,
    alphaRepr := "0.5".toList, betas := "(0.25, 0.125)".toList, lambda := "1.0".toList,
    function := "pyndl.ndl.ndl".toList, method := "threading".toList, env := env0 }

private def dict2 : Call := .ndl
  { eventPath := "a/long/path/to/events-ä.tab.gz".toList, numberEvents := "12".toList,
    alphaScalar := false, alphaRepr := "defaultdict(<function ...>, {})".toList,
    betas := "(0.5, 0.5)".toList, lambda := "2.0".toList,
    function := "pyndl.ndl.dict_ndl".toList, method := "None".toList, env := env0 }

private def wh1 : Call := .wh
  { eventPath := "e3.tab.gz".toList, numberEvents := "7".toList, eta := "0.25".toList,
    function := "pyndl.wh.pyndl.ndl".toList, method := "openmp".toList, env := env0 }

/-- a three-call chain ndl → dict_ndl → ndl (different files, widths 19 / 31 /
    19): the hypotheses of `entries_count` hold and the entries read back are
    the calls' values. -/
example :
    (∀ c ∈ [dict2, ndl1], sameKeySet ndl1 c = true) ∧
    (stored [ndl1, dict2, ndl1] .numberEvents).map entries
      = some ["3".toList, "12".toList, "3".toList] ∧
    (stored [ndl1, dict2, ndl1] .alpha).map entries
      = some ["0.5".toList, "varying".toList, "0.5".toList] ∧
    (stored [ndl1, dict2] .eventPath).map List.length = some (19 + 3 + 31) := by
  decide +kernel

/-- `reports_call` instantiated: all its hypotheses (key written by the first
    call, no `'|'` in any supplied value, no trailing space) hold for the chain
    above, and entry 1 of number_events is the second call's `"12"`. -/
example : ∃ s, stored [ndl1, dict2, ndl1] .numberEvents = some s ∧
    (entries s)[1]? = some "12".toList := by
  refine reports_call ndl1 [dict2, ndl1] .numberEvents (by decide +kernel) ?_ 1 dict2 rfl _
    (by decide +kernel) (by unfold NoTrailingSpace; decide +kernel)
  intro c hc v hv
  simp only [List.mem_cons, List.not_mem_nil, or_false] at hc
  rcases hc with rfl | rfl | rfl <;>
    · have : v = _ := (Option.some.inj hv).symm
      subst this
      decide +kernel

/-- `entries_count` with EVERY hypothesis instantiated on the three-call chain
    ndl → dict_ndl → ndl, for `number_events` and for `event_path` -/
example : ∃ s, stored [ndl1, dict2, ndl1] .numberEvents = some s ∧
    splitBar s = [ndl1, dict2, ndl1].map (entryOf .numberEvents) ∧ (splitBar s).length = 3 := by
  obtain ⟨s, hs⟩ : ∃ s, stored [ndl1, dict2, ndl1] .numberEvents = some s :=
    Option.isSome_iff_exists.mp (by decide +kernel)
  refine ⟨s, hs, entries_count ndl1 [dict2, ndl1] .numberEvents s (by decide) hs ?_⟩
  intro c hc v hv
  simp only [List.mem_cons, List.not_mem_nil, or_false] at hc
  rcases hc with rfl | rfl | rfl <;>
    · have : v = _ := (Option.some.inj hv).symm
      subst this
      decide +kernel

/-- `entries_count_mixed` with every hypothesis instantiated on the MIXED chain
    ndl → wh → ndl at the key `alpha` (written by the first call, lacked by wh) -/
example : ∃ s, stored [ndl1, wh1, ndl1] .alpha = some s ∧
    splitBar s = [ndl1, wh1, ndl1].map (entryOf .alpha) ∧ (splitBar s).length = 2 + 1 := by
  refine entries_count_mixed ndl1 [wh1, ndl1] .alpha (by decide +kernel) ?_
  intro c hc v hv
  simp only [List.mem_cons, List.not_mem_nil, or_false] at hc
  rcases hc with rfl | rfl | rfl
  · have : v = _ := (Option.some.inj hv).symm
    subst this; decide +kernel
  · have hn : get? wh1.raw Key.alpha = none := by decide +kernel
    rw [hn] at hv; cases hv
  · have : v = _ := (Option.some.inj hv).symm
    subst this; decide +kernel

/-- `chain_appends_from` / `user_attribute_entries` instantiated: the first call
    is handed weights with the user attribute `note = "my run"` and an earlier
    `number_events = "5"`; two calls follow -/
example :
    ∃ s, (runChainFrom (some [(.other "note".toList, "my run".toList), (.numberEvents, "5".toList)])
        [ndl1, dict2]).bind (fun a => get? a .numberEvents) = some s ∧
      splitBar s = ["5".toList] ++ [ndl1, dict2].map (entryOf .numberEvents) ∧
      (splitBar s).length = 1 + 2 := by
  refine chain_appends_from _ [ndl1, dict2] .numberEvents ["5".toList] (by decide +kernel) (by decide)
    (by decide) ?_
  intro c hc v hv
  simp only [List.mem_cons, List.not_mem_nil, or_false] at hc
  rcases hc with rfl | rfl <;>
    · have : v = _ := (Option.some.inj hv).symm
      subst this
      decide +kernel

example :
    ∃ s, (runChainFrom (some [(.other "note".toList, "my run".toList), (.numberEvents, "5".toList)])
        [ndl1, dict2]).bind (fun a => get? a (.other "note".toList)) = some s ∧
      splitBar s = ["my run".toList, [], []] :=
  user_attribute_entries _ [ndl1, dict2] "note".toList "my run".toList (by decide +kernel) (by decide)

/-- the composed theorem `ndl_chain_reports` with EVERY hypothesis instantiated:
    two `ndl.ndl` model calls over ℤ — 2 events (threading, `True`), then 3 events
    (OpenMP, `False`, a new cue and a new outcome) -/
def runA : NdlRun ℤ :=
  { cfg := ⟨.dedup, .threading, 1, 2⟩, alpha := 1, β₁ := 2, β₂ := 3, lam := 5,
    path := "a.tab.gz".toList, events := [⟨["a", "b", "a"], ["x"]⟩, ⟨["b"], ["y"]⟩],
    alphaRepr := "1".toList, betasRepr := "(2, 3)".toList, lambdaRepr := "5".toList, env := env0 }

def runB : NdlRun ℤ :=
  { cfg := ⟨.keep, .openmp, 2, 2⟩, alpha := 2, β₁ := 1, β₂ := 1, lam := 7,
    path := "dir/b.tab.gz".toList, events := [⟨["c"], ["x"]⟩, ⟨["a", "a"], ["z"]⟩, ⟨["b"], ["y"]⟩],
    alphaRepr := "2".toList, betasRepr := "(1, 1)".toList, lambdaRepr := "7".toList, env := env0 }

def isOk {ε α : Type} : Except ε α → Bool
  | .ok _ => true
  | .error _ => false

example : ∃ w a, ndlChainMeta Generated.pyMagic Generated.pyVersion none [runA, runB] = .ok (some (w, a)) ∧
    (get? a .numberEvents).map entries = some ["2".toList, "3".toList] ∧
    (get? a .eventPath).map entries = some ["a.tab.gz".toList, "dir/b.tab.gz".toList] ∧
    (get? a .method).map entries = some ["threading".toList, "openmp".toList] ∧
    (get? a .alpha).map entries = some ["1".toList, "2".toList] ∧
    (get? a .betas).map entries = some ["(2, 3)".toList, "(1, 1)".toList] ∧
    (get? a .lambda).map entries = some ["5".toList, "7".toList] := by
  have hok : isOk (ndlChainMeta Generated.pyMagic Generated.pyVersion none [runA, runB]) = true := by
    decide +kernel
  cases hc : ndlChainMeta Generated.pyMagic Generated.pyVersion none [runA, runB] with
  | error e => rw [hc] at hok; cases hok
  | ok s' =>
    obtain ⟨w, a, rfl, h1, h2, h3, h4, h5, h6⟩ := ndl_chain_reports runA [runB] s' hc (by
      intro r hr v hv
      simp only [List.mem_cons, List.not_mem_nil, or_false] at hr hv
      rcases hr with rfl | rfl <;> rcases hv with rfl | rfl | rfl | rfl <;>
        exact ⟨by decide, by unfold NoTrailingSpace; decide⟩)
    exact ⟨w, a, rfl, h1, h2, h3, h4, h5, h6⟩

/-- mixing the key sets, key written by the first call: wh lacks `alpha`, its
    slot is the empty entry. -/
example : (stored [ndl1, wh1, ndl1] .alpha).map entries
    = some ["0.5".toList, [], "0.5".toList] := by
  decide +kernel

/-- **late_key_counterexample.** wh → wh → ndl: `alpha` is first written by
    the third call and has 2 entries, not 3 (while `lambda` has 3).  The real
    code does the same (dict_wh → dict_wh → dict_ndl on WeightDicts). -/
theorem late_key_counterexample :
    (stored [wh1, wh1, ndl1] .alpha).map (fun s => (entries s).length) = some 2 ∧
    (stored [wh1, wh1, ndl1] .lambda).map (fun s => (entries s).length) = some 3 := by
  decide +kernel

end Pyndl.C16
