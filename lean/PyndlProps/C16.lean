/-
  C16 — run metadata is truthful, accumulates per call, survives netCDF.

  Property theorems only (helper lemmas: PyndlProofs/Attrs.lean; model:
  PyndlModel/Attrs.lean).  They quantify over every chain of k ≥ 1 calls
  (`c₀ :: rest`), every mix of the two `_attributes` functions (`Call.ndl` =
  ndl.ndl, dict_ndl, wh real_to_binary; `Call.wh` = the other wh flavours,
  dict_wh), every string the calls supply and every run environment.

  NOT covered by any theorem (decided only by the differential run of
  harness/run_C16.py, and labelled so in the evidence): that
  `DataArray.to_netcdf` followed by `xr.open_dataarray(...).load()` is the
  identity on values, coords, dims and attrs.  netCDF4/HDF5/xarray cannot be
  modelled here; `save_load_identity` below only says that the *model* treats
  the round trip as the identity, so that "continue from the loaded weights =
  continue from the unsaved weights" is a congruence.

  A statement the property text suggests but the code (and hence the model)
  does NOT satisfy, recorded with its counterexample (`late_key_counterexample`):
  "after k calls every attribute present has k entries" fails for a key that
  is first written by call j ≥ 3 (possible only when the chain mixes the two
  key sets, e.g. dict_wh → dict_wh → dict_ndl): the missing old side is the
  single entry `''`, so the key has k − j + 2 entries.  `entries_count` is
  therefore stated for chains within one key set (all chains the public
  learners accept with DataArray hand-over) and `entries_count_mixed` for any
  mix at keys the first call writes; `entries_late` gives the exact list
  otherwise.
-/
import PyndlProofs.Attrs

namespace Pyndl.C16
open Pyndl.Attrs List

/-- the separator of the model is the literal extracted from the source tree
    on every run (`Generated.attrSep`, ndl.py:362). -/
theorem sep_generated : sep = Pyndl.Generated.attrSep.toList := by decide

/-- **split_join.** Splitting the `' | '`-join of k ≥ 1 entries at `' | '`
    gives back exactly those entries, provided no entry contains the character
    `'|'`.  (The weaker "no entry contains `' | '`" is not enough, see the
    example below.) -/
theorem split_join (xs : List Str) (hne : xs ≠ []) (h : ∀ x ∈ xs, '|' ∉ x) :
    splitBar (joinSep xs) = xs :=
  splitBar_joinSep xs hne h

/-- neither `"a |"` nor `"b"` contains `" | "`, yet the join `"a | | b"` splits
    into `"a"`, `"| b"`. -/
example : splitBar (joinSep ["a |".toList, "b".toList]) = ["a".toList, "| b".toList] := by
  decide +kernel

/-- **pad_strip.** `'{0: <{width}}'.format(v)` followed by stripping trailing
    spaces is the identity on every `v` that does not end in a space, for every
    width (also widths smaller than `len(v)`: nothing is ever truncated). -/
theorem pad_strip (w : Nat) (v : Str) (h : NoTrailingSpace v) : rstrip (padRight w v) = v :=
  rstrip_padRight w v h

/-- the stored string of every key after a chain is the `' | '`-join of the
    key's entry list (the two views of the model agree). -/
theorem stored_is_join (c₀ : Call) (rest : List Call) (k : Key) :
    stored (c₀ :: rest) k = (get? (runChainE c₀ rest) k).map joinSep :=
  stored_eq_join k c₀ rest

/-- **entries_count, any mix of the two key sets.** For a key the first call
    writes: after the chain `c₀ :: rest` the key is present and its stored
    string, split at `' | '`, is exactly one entry per call, in call order,
    the i-th being what the i-th call wrote (`''` for a call whose key set
    lacks the key) — given that no supplied value contains `'|'`. -/
theorem entries_count_mixed (c₀ : Call) (rest : List Call) (k : Key)
    (hk : hasKey (newAttrs c₀) k = true)
    (hbar : ∀ c ∈ c₀ :: rest, ∀ v, get? c.raw k = some v → '|' ∉ v) :
    ∃ s, stored (c₀ :: rest) k = some s ∧
      splitBar s = (c₀ :: rest).map (entryOf k) ∧
      (splitBar s).length = rest.length + 1 := by
  obtain ⟨v, hv⟩ := Option.isSome_iff_exists.mp hk
  have hE : get? (runChainE c₀ rest) k = some ((c₀ :: rest).map (entryOf k)) := by
    rw [get?_runChainE, hv]
    simp only [Option.map_some, foldl_stepE_some, List.map_cons, List.singleton_append]
    simp [entryOf, hv]
  have hb : ∀ x ∈ (c₀ :: rest).map (entryOf k), '|' ∉ x := by
    intro x hx
    obtain ⟨c, hc, rfl⟩ := List.mem_map.mp hx
    cases hr : get? c.raw k with
    | none => rw [entryOf_of_lacks c k hr]; simp
    | some v' =>
      rw [entryOf_of_raw c k v' hr]
      exact bar_not_mem_padRight _ _ (hbar c hc v' hr)
  refine ⟨joinSep ((c₀ :: rest).map (entryOf k)), ?_, ?_, ?_⟩
  · rw [stored_is_join, hE]; rfl
  · exact splitBar_joinSep _ (by simp) hb
  · rw [splitBar_joinSep _ (by simp) hb]; simp

/-- **entries_count.** After any chain of k ≥ 1 calls that stays within one
    key set, EVERY attribute key present has exactly k entries when its stored
    string is split at `' | '`, the i-th written by the i-th call. -/
theorem entries_count (c₀ : Call) (rest : List Call) (k : Key) (s : Str)
    (hu : ∀ c ∈ rest, sameKeySet c₀ c = true)
    (hs : stored (c₀ :: rest) k = some s)
    (hbar : ∀ c ∈ c₀ :: rest, ∀ v, get? c.raw k = some v → '|' ∉ v) :
    splitBar s = (c₀ :: rest).map (entryOf k) ∧ (splitBar s).length = rest.length + 1 := by
  have hk : hasKey (newAttrs c₀) k = true := by
    cases hh : hasKey (newAttrs c₀) k with
    | true => rfl
    | false =>
      exfalso
      have hnone : get? (newAttrs c₀) k = none := by
        simpa [hasKey] using hh
      have hall : ∀ c ∈ rest, (!(hasKey (newAttrs c) k)) = true := by
        intro c hc
        rw [← hasKey_of_sameKeySet c₀ c k (hu c hc), hh]; rfl
      have hdw : rest.dropWhile (fun c => !(hasKey (newAttrs c) k)) = [] :=
        dropWhile_eq_nil_of_all _ _ hall
      rw [stored_is_join, get?_runChainE, hnone] at hs
      simp only [Option.map_none] at hs
      rw [foldl_stepE_none, hdw] at hs
      simp at hs
  obtain ⟨s', h1, h2, h3⟩ := entries_count_mixed c₀ rest k hk hbar
  rw [hs] at h1
  cases h1
  exact ⟨h2, h3⟩

/-- **entries_late (exact list for a key the first call lacks).** Nothing
    until the first call `c` that writes the key; from then on `''` followed
    by one entry per call starting at `c`.  Hence such a key has k entries iff
    it is first written by the second call. -/
theorem entries_late (c₀ : Call) (rest : List Call) (k : Key)
    (hk : hasKey (newAttrs c₀) k = false) :
    get? (runChainE c₀ rest) k
      = match rest.dropWhile (fun c => !(hasKey (newAttrs c) k)) with
        | [] => none
        | c :: r => some ([] :: (c :: r).map (entryOf k)) := by
  have hnone : get? (newAttrs c₀) k = none := by simpa [hasKey] using hk
  rw [get?_runChainE, hnone]
  exact foldl_stepE_none k rest

/-- **reports_call.** Entry i of a key, stripped of its padding, is the string
    the i-th call supplied for it (for every key the call writes, in
    particular number_events, event_path, alpha, betas, lambda, method — see
    `raw_ndl` / `raw_wh` for which argument that is). -/
theorem reports_call (c₀ : Call) (rest : List Call) (k : Key)
    (hk : hasKey (newAttrs c₀) k = true)
    (hbar : ∀ c ∈ c₀ :: rest, ∀ v, get? c.raw k = some v → '|' ∉ v)
    (i : Nat) (c : Call) (hc : (c₀ :: rest)[i]? = some c)
    (v : Str) (hv : get? c.raw k = some v) (hnt : NoTrailingSpace v) :
    ∃ s, stored (c₀ :: rest) k = some s ∧ (entries s)[i]? = some v := by
  obtain ⟨s, h1, h2, _⟩ := entries_count_mixed c₀ rest k hk hbar
  refine ⟨s, h1, ?_⟩
  unfold entries
  rw [h2, List.map_map, List.getElem?_map, hc]
  simp only [Option.map_some, Function.comp]
  rw [entryOf_of_raw c k v hv, rstrip_padRight _ _ hnt]

/-- what `ndl._attributes` reports under the six keys of the property: the
    call's own arguments; `alpha` is `'varying'` for a non-scalar alpha. -/
theorem raw_ndl (a : NdlArgs) :
    get? (Call.ndl a).raw .numberEvents = some a.numberEvents ∧
    get? (Call.ndl a).raw .eventPath = some a.eventPath ∧
    get? (Call.ndl a).raw .alpha = some (if a.alphaScalar then a.alphaRepr else "varying".toList) ∧
    get? (Call.ndl a).raw .betas = some a.betas ∧
    get? (Call.ndl a).raw .lambda = some a.lambda ∧
    get? (Call.ndl a).raw .method = some a.method := by
  simp [Call.raw, rawNdl, get?, alphaStr]

/-- what `wh._attributes` reports: no `alpha`, no `betas`; `lambda` holds eta. -/
theorem raw_wh (a : WhArgs) :
    get? (Call.wh a).raw .numberEvents = some a.numberEvents ∧
    get? (Call.wh a).raw .eventPath = some a.eventPath ∧
    get? (Call.wh a).raw .alpha = none ∧
    get? (Call.wh a).raw .betas = none ∧
    get? (Call.wh a).raw .lambda = some a.eta ∧
    get? (Call.wh a).raw .method = some a.method := by
  simp [Call.raw, rawWh, envRaw, get?]

/-- **save_load_identity / continue_after_load (model level only).** With the
    netCDF round trip taken as the identity, inserting it anywhere in a chain
    changes nothing: continuing from the loaded weights is continuing from the
    unsaved weights.  That the real `to_netcdf`/`open_dataarray` *is* the
    identity is NOT proved (cannot be modelled) — differential run only. -/
theorem save_load_identity (ops : List Op) : runOps ops = runChain (calls ops) :=
  runOps_eq_runChain ops

/-! ## Non-vacuity and the recorded counterexample -/

private def env0 : Env :=
  { date := "2026-09-30 14:24:44".toList, cpuTime := "0.027".toList, wallTime := "1.02".toList,
    hostname := "vm".toList, username := "root".toList, pyndl := "1.2.3".toList,
    numpy := "2.5.3".toList, pandas := "3.0.6".toList, xarray := "2026.7.0".toList,
    cython := "3.3.0".toList }

private def ndl1 : Call := .ndl
  { eventPath := "e1.tab.gz".toList, numberEvents := "3".toList, alphaScalar := true,
    alphaRepr := "0.5".toList, betas := "(0.25, 0.125)".toList, lambda := "1.0".toList,
    function := "pyndl.ndl.ndl".toList, method := "threading".toList, env := env0 }

private def dict2 : Call := .ndl
  { eventPath := "a/long/path/to/events-ä.tab.gz".toList, numberEvents := "12".toList,
    alphaScalar := false, alphaRepr := "defaultdict(<function ...>, {})".toList,
    betas := "(0.5, 0.5)".toList, lambda := "2.0".toList,
    function := "pyndl.ndl.dict_ndl".toList, method := "None".toList, env := env0 }

private def wh1 : Call := .wh
  { eventPath := "e3.tab.gz".toList, numberEvents := "7".toList, eta := "0.25".toList,
    function := "pyndl.wh.pyndl.ndl".toList, method := "openmp".toList, env := env0 }

/-- a three-call chain ndl → dict_ndl → ndl (different files, widths 19 / 31 /
    19): the hypotheses of `entries_count` hold and the entries read back are
    the calls' values. -/
example :
    (∀ c ∈ [dict2, ndl1], sameKeySet ndl1 c = true) ∧
    (stored [ndl1, dict2, ndl1] .numberEvents).map entries
      = some ["3".toList, "12".toList, "3".toList] ∧
    (stored [ndl1, dict2, ndl1] .alpha).map entries
      = some ["0.5".toList, "varying".toList, "0.5".toList] ∧
    (stored [ndl1, dict2] .eventPath).map List.length = some (19 + 3 + 31) := by
  decide +kernel

/-- `reports_call` instantiated: all its hypotheses (key written by the first
    call, no `'|'` in any supplied value, no trailing space) hold for the chain
    above, and entry 1 of number_events is the second call's `"12"`. -/
example : ∃ s, stored [ndl1, dict2, ndl1] .numberEvents = some s ∧
    (entries s)[1]? = some "12".toList := by
  refine reports_call ndl1 [dict2, ndl1] .numberEvents (by decide +kernel) ?_ 1 dict2 rfl _
    (by decide +kernel) (by unfold NoTrailingSpace; decide +kernel)
  intro c hc v hv
  simp only [List.mem_cons, List.not_mem_nil, or_false] at hc
  rcases hc with rfl | rfl | rfl <;>
    · have : v = _ := (Option.some.inj hv).symm
      subst this
      decide +kernel

/-- mixing the key sets, key written by the first call: wh lacks `alpha`, its
    slot is the empty entry. -/
example : (stored [ndl1, wh1, ndl1] .alpha).map entries
    = some ["0.5".toList, [], "0.5".toList] := by
  decide +kernel

/-- **late_key_counterexample.** wh → wh → ndl: `alpha` is first written by
    the third call and has 2 entries, not 3 (while `lambda` has 3).  The real
    code does the same (dict_wh → dict_wh → dict_ndl on WeightDicts). -/
theorem late_key_counterexample :
    (stored [wh1, wh1, ndl1] .alpha).map (fun s => (entries s).length) = some 2 ∧
    (stored [wh1, wh1, ndl1] .lambda).map (fun s => (entries s).length) = some 3 := by
  decide +kernel

end Pyndl.C16
