/-
  C14 — Widrow–Hoff with unit vectors reproduces Rescorla–Wagner learning
  (α = 1, β₁ = β₂ = η, λ = 1), after renaming vector dimensions to names.
-/
import PyndlProofs.WH

namespace Pyndl.C14
open Pyndl List

variable {R : Type} [CommRing R]

/-- `onehot_sum`: for a one-hot cue table (cue `c` ↦ dimension `σ c`, any row
    order), the summed cue vectors are the indicator with multiplicity of the
    renamed cues -/
theorem onehot_sum (cueVecs : Array R) (nDims : Nat) (σ : Nat → Nat) (names : Nat)
    (h : OneHot cueVecs nDims σ names) (cues : List Nat) (hc : ∀ c ∈ cues, c < names) (k : Nat) (hk : k < nDims) :
    summedCue cueVecs nDims k cues = ((cues.map σ).count k : R) :=
  summedCue_onehot cueVecs nDims σ names h cues hc k hk

/-- **real→binary with one-hot cue vectors = Rescorla–Wagner** (any β₁, β₂, λ;
    `wh.wh` passes β₁ = β₂ = η, λ = 1): the row function of the kernel on row
    `ii` is `rwRow` with α = 1 on the cues renamed by `σ` (multiplicities kept). -/
theorem wh_r2b_onehot_eq_rw (β₁ β₂ lam : R) (cueVecs : Array R) (nDims : Nat) (σ : Nat → Nat) (names : Nat)
    (h : OneHot cueVecs nDims σ names) (e : Event Nat Nat) (hc : ∀ c ∈ e.cues, c < names)
    (hσ : ∀ c ∈ e.cues, σ c < nDims) (ii : Nat) (r : Nat → R) (k : Nat) (hk : k < nDims) :
    whRowReal nDims (fun k => summedCue cueVecs nDims k e.cues)
        (fun a => if ii ∈ e.outcomes then β₁ * (lam - a) else β₂ * (0 - a)) r k
      = rwRow (fun _ => (1 : R)) β₁ β₂ lam r (e.cues.map σ) (decide (ii ∈ e.outcomes)) k := by
  have hx : ∀ j, j < nDims → summedCue cueVecs nDims j e.cues = ((e.cues.map σ).count j : R) :=
    fun j hj => summedCue_onehot cueVecs nDims σ names h e.cues hc j hj
  have hcs : ∀ c ∈ e.cues.map σ, c < nDims := by
    intro c hcm
    obtain ⟨c', hc', rfl⟩ := List.mem_map.mp hcm
    exact hσ c' hc'
  have e1 : whRowReal nDims (fun k => summedCue cueVecs nDims k e.cues)
      (fun a => if ii ∈ e.outcomes then β₁ * (lam - a) else β₂ * (0 - a)) r k
      = whRowReal nDims (fun k => ((e.cues.map σ).count k : R))
      (fun a => if ii ∈ e.outcomes then β₁ * (lam - a) else β₂ * (0 - a)) r k := by
    have hsum : ((List.range nDims).map (fun k => summedCue cueVecs nDims k e.cues * r k)).sum
        = ((List.range nDims).map (fun k => ((e.cues.map σ).count k : R) * r k)).sum := by
      congr 1
      apply List.map_congr_left
      intro j hj
      rw [hx j (List.mem_range.mp hj)]
    simp only [whRowReal, hk, if_true, hx k hk, hsum]
  rw [e1, whRowReal_count nDims _ hcs _ r k hk, ← whRowBin_eq_rwRow]
  congr 1
  funext a
  by_cases hm : ii ∈ e.outcomes <;> simp [hm]

/-- **binary→real with one-hot outcome vectors = Rescorla–Wagner** with
    β₁ = β₂ = η, λ = 1, provided the outcomes are unique within the event
    (summed outcome vectors count a repeated outcome twice, presence is binary). -/
theorem wh_b2r_onehot_eq_rw (eta : R) (outVecs : Array R) (nDims : Nat) (τ : Nat → Nat) (names : Nat)
    (h : OneHot outVecs nDims τ names) (e : Event Nat Nat) (ho : ∀ o ∈ e.outcomes, o < names)
    (hu : (e.outcomes.map τ).Nodup) (d : Nat) (hd : d < nDims) (r : Nat → R) :
    whRowBin (fun a => eta * (summedOut outVecs nDims d e.outcomes - a)) r e.cues
      = rwRow (fun _ => (1 : R)) eta eta 1 r e.cues (decide (d ∈ e.outcomes.map τ)) := by
  rw [← whRowBin_eq_rwRow]
  congr 1
  funext a
  rw [summedOut_onehot outVecs nDims τ names h e.outcomes ho d hd, count_nodup_indicator _ hu d]
  by_cases hm : d ∈ e.outcomes.map τ <;> simp [hm]

/-- **real→real with both tables one-hot = Rescorla–Wagner** -/
theorem wh_r2r_onehot_eq_rw (eta : R) (cueVecs outVecs : Array R) (nCueDims nOutDims : Nat)
    (σ τ : Nat → Nat) (nCues nOuts : Nat)
    (hc1 : OneHot cueVecs nCueDims σ nCues) (ho1 : OneHot outVecs nOutDims τ nOuts)
    (e : Event Nat Nat) (hc : ∀ c ∈ e.cues, c < nCues) (hσ : ∀ c ∈ e.cues, σ c < nCueDims)
    (ho : ∀ o ∈ e.outcomes, o < nOuts) (hu : (e.outcomes.map τ).Nodup)
    (d : Nat) (hd : d < nOutDims) (r : Nat → R) (k : Nat) (hk : k < nCueDims) :
    whRowReal nCueDims (fun k => summedCue cueVecs nCueDims k e.cues)
        (fun a => eta * (summedOut outVecs nOutDims d e.outcomes - a)) r k
      = rwRow (fun _ => (1 : R)) eta eta 1 r (e.cues.map σ) (decide (d ∈ e.outcomes.map τ)) k := by
  have hx : ∀ j, j < nCueDims → summedCue cueVecs nCueDims j e.cues = ((e.cues.map σ).count j : R) :=
    fun j hj => summedCue_onehot cueVecs nCueDims σ nCues hc1 e.cues hc j hj
  have hcs : ∀ c ∈ e.cues.map σ, c < nCueDims := by
    intro c hcm
    obtain ⟨c', hc', rfl⟩ := List.mem_map.mp hcm
    exact hσ c' hc'
  have e1 : whRowReal nCueDims (fun k => summedCue cueVecs nCueDims k e.cues)
      (fun a => eta * (summedOut outVecs nOutDims d e.outcomes - a)) r k
      = whRowReal nCueDims (fun k => ((e.cues.map σ).count k : R))
      (fun a => eta * (summedOut outVecs nOutDims d e.outcomes - a)) r k := by
    have hsum : ((List.range nCueDims).map (fun k => summedCue cueVecs nCueDims k e.cues * r k)).sum
        = ((List.range nCueDims).map (fun k => ((e.cues.map σ).count k : R) * r k)).sum := by
      congr 1
      apply List.map_congr_left
      intro j hj
      rw [hx j (List.mem_range.mp hj)]
    simp only [whRowReal, hk, if_true, hx k hk, hsum]
  rw [e1, whRowReal_count nCueDims _ hcs _ r k hk, ← whRowBin_eq_rwRow]
  congr 1
  funext a
  rw [summedOut_onehot outVecs nOutDims τ nOuts ho1 e.outcomes ho d hd, count_nodup_indicator _ hu d]
  by_cases hm : d ∈ e.outcomes.map τ <;> simp [hm]

/-! `wh_binary_binary`: with neither table given, `wh.wh` *calls* `ndl.ndl`
with α = 1, β = (η, η), λ = 1 (wh.py:122-131) — checked by the differential run.

The uniqueness hypothesis is needed: with a repeated outcome the summed one-hot
target is 2, not 1 (ℤ, η = 1, one cue, one event): Widrow–Hoff learns 2,
Rescorla–Wagner learns 1. -/
example :
    whRowBin (fun a => (1 : ℤ) * (summedOut #[1] 1 0 [0, 0] - a)) (fun _ => 0) [0] 0 = 2 ∧
    rwRow (fun _ => (1 : ℤ)) 1 1 1 (fun _ => 0) [0] true 0 = 1 := by
  decide +kernel

end Pyndl.C14
