/-
  C14 — Widrow–Hoff with unit vectors reproduces Rescorla–Wagner learning
  (α = 1, β₁ = β₂ = η, λ = 1), after renaming vector dimensions to names.

  proved (all over an arbitrary commutative ring, i.e. exact arithmetic):
  * ONE event / one row of the kernels (ids): `onehot_sum`,
    `wh_r2b_onehot_eq_rw`, `wh_b2r_onehot_eq_rw`, `wh_r2r_onehot_eq_rw`;
  * WHOLE event sequences, ON NAMES (lemmas in `PyndlProofs.WHOneHot`):
    - `OneHotTable t σ`: every labelled row of the vector table `t` is the unit
      vector of dimension `σ name` — rows in any order, unused dimensions and
      unused rows allowed (`onehot_table_example`: a shuffled instance);
    - `whR2BSpec_onehot_eq_rw`, `whB2RSpec_onehot_eq_rw`,
      `whR2RSpec_onehot_eq_rw` (+ `_table`, `_occurring` instances): the
      Widrow–Hoff specifications of C08 on a one-hot table, read at dimension
      `σ c` / `τ o`, ARE `rwLearn` with α = 1 read at the names, for every event
      list; `*_onehot_unused_dim`: dimensions no occurring name maps to keep 0;
    - `wh_r2b_onehot_eq_ndl`, `wh_b2r_onehot_eq_ndl`, `wh_r2r_onehot_eq_ndl`:
      END TO END, model of `wh.wh` (`whModel`: table checks, id maps, duplicate
      policy, OpenMP entry point with any `n_outcomes_per_job ≥ 1`, labels —
      C08 `wh_*_end_to_end`) against model of `ndl.ndl` (`ndlModel`: counting,
      id maps, policy, binary chunk files, both methods, any chunking — C01
      `ndlModel_eq_spec`), both read through their labels;
    - `table_row_order_irrelevant_{r2b,b2r,r2r}`: `whModel` returns the SAME
      result (matrix or error) for any two tables that denote the same name →
      vector function (`SameVectors`), in particular for a one-hot table and
      any copy with permuted rows+labels (`onehot_same_vectors`) — the clause
      attacked by the seeded bug "cue-name → row map built from the wrong
      list";
    - `policy_makes_outcomes_unique`: the uniqueness hypothesis of the b2r/r2r
      statements is automatic for `remove_duplicates=None/True`;
  * counter-examples (kernel-checked): a repeated outcome (ids and names), and
    a dimension map that is not injective on the occurring cues.

  hypotheses are the checks of the real code (`ValueError` otherwise: every
  event name has a row in its table; the duplicate policy accepts the events;
  32-bit limits of the event file format for `ndl.ndl`; chunk sizes ≥ 1 / ≥ 2)
  plus the mathematical preconditions of the property itself: one-hot tables,
  `σ`/`τ` injective on the names that occur (together with the name queried),
  outcomes unique within an event.

  partial:
  * floating point: the theorems are about exact arithmetic; for float64 the
    two learners agree only up to rounding (the differential run compares with
    a tolerance, exactly inside the exact-dyadic domain);
  * `wh_binary_binary` (no table given: `wh.wh` calls `ndl.ndl`, wh.py:122-131)
    is a call, not a computation — checked by the differential run only;
  * `method='numpy'` of `wh.wh` and `dict_wh` ("for all flavours and methods"):
    their own models (`whNumpyModel`, `dictWhModel`, PyndlModel/WHPy.lean; C08
    `wh_numpy_eq_openmp`, `dict_wh_eq_openmp`) against `ndl.ndl`, end to end:
    `wh_numpy_onehot_eq_ndl`, `dict_wh_onehot_eq_ndl` below — on the events both
    accept (exactly one cue and one outcome after the duplicate policy);
  * continued learning (`weights=` given) is not covered here: all statements
    start from zero weights (C03/C08 treat continuation);
  * `ndl.ndl` with `n_jobs > 1` may count names in another order than
    `countNames` (first occurrence); the statements read both matrices through
    their labels, so only the label order of `ndlModel`'s result would change —
    this is a trusted item of C01, not re-proved here;
  * for real → real the "unused dimension" clause is proved for the
    specification (`whR2RSpec_onehot_unused_*`), not restated for `whModel`.
-/
import PyndlProofs.WH
import PyndlProofs.WHOneHot
import PyndlProofs.WHPy
import PyndlProofs.FileEvents

set_option linter.unusedVariables false

namespace Pyndl.C14
open Pyndl List

variable {R : Type} [CommRing R]

/-- `onehot_sum`: for a one-hot cue table (cue `c` ↦ dimension `σ c`, any row
    order), the summed cue vectors are the indicator with multiplicity of the
    renamed cues -/
theorem onehot_sum (cueVecs : Array R) (nDims : Nat) (σ : Nat → Nat) (names : Nat)
    (h : OneHot cueVecs nDims σ names) (cues : List Nat) (hc : ∀ c ∈ cues, c < names) (k : Nat) (hk : k < nDims) :
    summedCue cueVecs nDims k cues = ((cues.map σ).count k : R) :=
  summedCue_onehot cueVecs nDims σ names h cues hc k hk

/-- **real→binary with one-hot cue vectors = Rescorla–Wagner** (any β₁, β₂, λ;
    `wh.wh` passes β₁ = β₂ = η, λ = 1): the row function of the kernel on row
    `ii` is `rwRow` with α = 1 on the cues renamed by `σ` (multiplicities kept). -/
theorem wh_r2b_onehot_eq_rw (β₁ β₂ lam : R) (cueVecs : Array R) (nDims : Nat) (σ : Nat → Nat) (names : Nat)
    (h : OneHot cueVecs nDims σ names) (e : Event Nat Nat) (hc : ∀ c ∈ e.cues, c < names)
    (hσ : ∀ c ∈ e.cues, σ c < nDims) (ii : Nat) (r : Nat → R) (k : Nat) (hk : k < nDims) :
    whRowReal nDims (fun k => summedCue cueVecs nDims k e.cues)
        (fun a => if ii ∈ e.outcomes then β₁ * (lam - a) else β₂ * (0 - a)) r k
      = rwRow (fun _ => (1 : R)) β₁ β₂ lam r (e.cues.map σ) (decide (ii ∈ e.outcomes)) k := by
  have hx : ∀ j, j < nDims → summedCue cueVecs nDims j e.cues = ((e.cues.map σ).count j : R) :=
    fun j hj => summedCue_onehot cueVecs nDims σ names h e.cues hc j hj
  have hcs : ∀ c ∈ e.cues.map σ, c < nDims := by
    intro c hcm
    obtain ⟨c', hc', rfl⟩ := List.mem_map.mp hcm
    exact hσ c' hc'
  have e1 : whRowReal nDims (fun k => summedCue cueVecs nDims k e.cues)
      (fun a => if ii ∈ e.outcomes then β₁ * (lam - a) else β₂ * (0 - a)) r k
      = whRowReal nDims (fun k => ((e.cues.map σ).count k : R))
      (fun a => if ii ∈ e.outcomes then β₁ * (lam - a) else β₂ * (0 - a)) r k := by
    have hsum : ((List.range nDims).map (fun k => summedCue cueVecs nDims k e.cues * r k)).sum
        = ((List.range nDims).map (fun k => ((e.cues.map σ).count k : R) * r k)).sum := by
      congr 1
      apply List.map_congr_left
      intro j hj
      rw [hx j (List.mem_range.mp hj)]
    simp only [whRowReal, hk, if_true, hx k hk, hsum]
  rw [e1, whRowReal_count nDims _ hcs _ r k hk, ← whRowBin_eq_rwRow]
  congr 1
  funext a
  by_cases hm : ii ∈ e.outcomes <;> simp [hm]

/-- **binary→real with one-hot outcome vectors = Rescorla–Wagner** with
    β₁ = β₂ = η, λ = 1, provided the outcomes are unique within the event
    (summed outcome vectors count a repeated outcome twice, presence is binary). -/
theorem wh_b2r_onehot_eq_rw (eta : R) (outVecs : Array R) (nDims : Nat) (τ : Nat → Nat) (names : Nat)
    (h : OneHot outVecs nDims τ names) (e : Event Nat Nat) (ho : ∀ o ∈ e.outcomes, o < names)
    (hu : (e.outcomes.map τ).Nodup) (d : Nat) (hd : d < nDims) (r : Nat → R) :
    whRowBin (fun a => eta * (summedOut outVecs nDims d e.outcomes - a)) r e.cues
      = rwRow (fun _ => (1 : R)) eta eta 1 r e.cues (decide (d ∈ e.outcomes.map τ)) := by
  rw [← whRowBin_eq_rwRow]
  congr 1
  funext a
  rw [summedOut_onehot outVecs nDims τ names h e.outcomes ho d hd, count_nodup_indicator _ hu d]
  by_cases hm : d ∈ e.outcomes.map τ <;> simp [hm]

/-- **real→real with both tables one-hot = Rescorla–Wagner** -/
theorem wh_r2r_onehot_eq_rw (eta : R) (cueVecs outVecs : Array R) (nCueDims nOutDims : Nat)
    (σ τ : Nat → Nat) (nCues nOuts : Nat)
    (hc1 : OneHot cueVecs nCueDims σ nCues) (ho1 : OneHot outVecs nOutDims τ nOuts)
    (e : Event Nat Nat) (hc : ∀ c ∈ e.cues, c < nCues) (hσ : ∀ c ∈ e.cues, σ c < nCueDims)
    (ho : ∀ o ∈ e.outcomes, o < nOuts) (hu : (e.outcomes.map τ).Nodup)
    (d : Nat) (hd : d < nOutDims) (r : Nat → R) (k : Nat) (hk : k < nCueDims) :
    whRowReal nCueDims (fun k => summedCue cueVecs nCueDims k e.cues)
        (fun a => eta * (summedOut outVecs nOutDims d e.outcomes - a)) r k
      = rwRow (fun _ => (1 : R)) eta eta 1 r (e.cues.map σ) (decide (d ∈ e.outcomes.map τ)) k := by
  have hx : ∀ j, j < nCueDims → summedCue cueVecs nCueDims j e.cues = ((e.cues.map σ).count j : R) :=
    fun j hj => summedCue_onehot cueVecs nCueDims σ nCues hc1 e.cues hc j hj
  have hcs : ∀ c ∈ e.cues.map σ, c < nCueDims := by
    intro c hcm
    obtain ⟨c', hc', rfl⟩ := List.mem_map.mp hcm
    exact hσ c' hc'
  have e1 : whRowReal nCueDims (fun k => summedCue cueVecs nCueDims k e.cues)
      (fun a => eta * (summedOut outVecs nOutDims d e.outcomes - a)) r k
      = whRowReal nCueDims (fun k => ((e.cues.map σ).count k : R))
      (fun a => eta * (summedOut outVecs nOutDims d e.outcomes - a)) r k := by
    have hsum : ((List.range nCueDims).map (fun k => summedCue cueVecs nCueDims k e.cues * r k)).sum
        = ((List.range nCueDims).map (fun k => ((e.cues.map σ).count k : R) * r k)).sum := by
      congr 1
      apply List.map_congr_left
      intro j hj
      rw [hx j (List.mem_range.mp hj)]
    simp only [whRowReal, hk, if_true, hx k hk, hsum]
  rw [e1, whRowReal_count nCueDims _ hcs _ r k hk, ← whRowBin_eq_rwRow]
  congr 1
  funext a
  rw [summedOut_onehot outVecs nOutDims τ nOuts ho1 e.outcomes ho d hd, count_nodup_indicator _ hu d]
  by_cases hm : d ∈ e.outcomes.map τ <;> simp [hm]

/-! `wh_binary_binary`: with neither table given, `wh.wh` *calls* `ndl.ndl`
with α = 1, β = (η, η), λ = 1 (wh.py:122-131) — checked by the differential run.

The uniqueness hypothesis is needed: with a repeated outcome the summed one-hot
target is 2, not 1 (ℤ, η = 1, one cue, one event): Widrow–Hoff learns 2,
Rescorla–Wagner learns 1. -/
example :
    whRowBin (fun a => (1 : ℤ) * (summedOut #[1] 1 0 [0, 0] - a)) (fun _ => 0) [0] 0 = 2 ∧
    rwRow (fun _ => (1 : ℤ)) 1 1 1 (fun _ => 0) [0] true 0 = 1 := by
  decide +kernel

/-! # whole event sequences, on names -/

/-- a shuffled one-hot cue table over ℤ: rows in the order b, c, a; `a ↦ d3`,
    `b ↦ d2`, `c ↦ d0`; dimension `d1` is unused; row `c` is unused by `exEvents` -/
def exTable : VecTable ℤ :=
  ⟨["b", "c", "a"], ["d0", "d1", "d2", "d3"], #[0,0,1,0,  1,0,0,0,  0,0,0,1]⟩

/-- the same vectors with the rows (and their labels) in another order -/
def exTable' : VecTable ℤ :=
  ⟨["a", "b", "c"], ["d0", "d1", "d2", "d3"], #[0,0,0,1,  0,0,1,0,  1,0,0,0]⟩

def exSigma : String → Nat := fun s => if s = "a" then 3 else if s = "b" then 2 else 0

/-- events with several cues, a repeated cue, several outcomes — every event with
    ≥ 1 cue and ≥ 1 outcome, as an event file holds them (`FileEvents`; the list
    used to end in `⟨["b"], []⟩`, which neither `wh.wh` nor `ndl.ndl` can receive) -/
def exEvents : List (Event String String) := [⟨["a", "b"], ["x"]⟩, ⟨["a", "a"], ["y", "x"]⟩, ⟨["b"], ["y"]⟩]

/-- (definitional — example data, not a property theorem) -/
theorem exEvents_file : FileEvents exEvents := by decide

/-- `OneHotTable` is satisfiable: the shuffled table (and its permuted copy) -/
theorem onehot_table_example : OneHotTable exTable exSigma ∧ OneHotTable exTable' exSigma := by
  constructor
  · unfold OneHotTable; decide +kernel
  · unfold OneHotTable; decide +kernel

/-- **`whR2BSpec_onehot_eq_rw`: real → binary with a one-hot cue table IS
    Rescorla–Wagner on names, for whole event sequences.**

    Preconditions: `hoh` the cue table is one-hot with dimension map `σ` (any
    row order, unused rows/dimensions allowed); `S` is a set of cue names that
    have a row in the table (`hSn`) on which `σ` is injective (`hinj`) and that
    contains all cues of the events (`hS`; `wh.wh` raises `ValueError` for a cue
    without a row).  Then for EVERY outcome name `o` and every cue `c ∈ S` the
    Widrow–Hoff weight (C08 `whR2BSpec`) at dimension `σ c` equals the
    Rescorla–Wagner weight at `c` with α = 1 and the same β₁, β₂, λ (`wh.wh`
    passes β₁ = β₂ = η, λ = 1). -/
theorem whR2BSpec_onehot_eq_rw (β₁ β₂ lam : R) (ct : VecTable R) (σ : String → Nat)
    (hoh : OneHotTable ct σ) (S : String → Prop) (hSn : ∀ c, S c → c ∈ ct.names)
    (hinj : ∀ a b, S a → S b → σ a = σ b → a = b)
    (es : List (Event String String)) (hS : ∀ e ∈ es, ∀ c ∈ e.cues, S c)
    (o c : String) (hc : S c) :
    whR2BSpec β₁ β₂ lam ct es o (σ c)
      = rwLearn (fun _ => (1 : R)) β₁ β₂ lam (fun _ _ => 0) es o c :=
  Pyndl.whR2BSpec_onehot_eq_rw β₁ β₂ lam ct σ hoh S hSn hinj es hS o c hc

/-- instance: `σ` injective on ALL row labels of the table (distinct rows hold
    distinct unit vectors); then every cue `c` that has a row may be queried,
    whether it occurs in the events or not -/
theorem whR2BSpec_onehot_eq_rw_table (β₁ β₂ lam : R) (ct : VecTable R) (σ : String → Nat)
    (hoh : OneHotTable ct σ) (hinj : ∀ a b, a ∈ ct.names → b ∈ ct.names → σ a = σ b → a = b)
    (es : List (Event String String)) (htab : ∀ e ∈ es, ∀ c ∈ e.cues, c ∈ ct.names)
    (o c : String) (hc : c ∈ ct.names) :
    whR2BSpec β₁ β₂ lam ct es o (σ c)
      = rwLearn (fun _ => (1 : R)) β₁ β₂ lam (fun _ _ => 0) es o c :=
  Pyndl.whR2BSpec_onehot_eq_rw β₁ β₂ lam ct σ hoh (· ∈ ct.names) (fun _ h => h) hinj es htab o c hc

/-- instance: `σ` injective only on the cues that OCCUR in the events (the table
    may hold the same unit vector in rows that are not used); then every
    occurring cue may be queried -/
theorem whR2BSpec_onehot_eq_rw_occurring (β₁ β₂ lam : R) (ct : VecTable R) (σ : String → Nat)
    (hoh : OneHotTable ct σ) (es : List (Event String String))
    (htab : ∀ e ∈ es, ∀ c ∈ e.cues, c ∈ ct.names)
    (hinj : ∀ a b, (∃ e ∈ es, a ∈ e.cues) → (∃ e ∈ es, b ∈ e.cues) → σ a = σ b → a = b)
    (o c : String) (hc : ∃ e ∈ es, c ∈ e.cues) :
    whR2BSpec β₁ β₂ lam ct es o (σ c)
      = rwLearn (fun _ => (1 : R)) β₁ β₂ lam (fun _ _ => 0) es o c :=
  Pyndl.whR2BSpec_onehot_eq_rw β₁ β₂ lam ct σ hoh (fun c => ∃ e ∈ es, c ∈ e.cues)
    (fun c hc => hc.elim fun e he => htab e he.1 c he.2) hinj es (fun e he _ hce => ⟨e, he, hce⟩) o c hc

/-- a cue dimension that is the image of no cue occurring in the events keeps
    weight 0 — unused dimensions of the table in particular (no injectivity needed) -/
theorem whR2BSpec_onehot_unused_dim (β₁ β₂ lam : R) (ct : VecTable R) (σ : String → Nat)
    (hoh : OneHotTable ct σ) (es : List (Event String String))
    (htab : ∀ e ∈ es, ∀ c ∈ e.cues, c ∈ ct.names) (o : String) (k : Nat)
    (hk : ∀ e ∈ es, ∀ c ∈ e.cues, σ c ≠ k) :
    whR2BSpec β₁ β₂ lam ct es o k = 0 :=
  Pyndl.whR2BSpec_onehot_unused_dim β₁ β₂ lam ct σ hoh es htab o k hk

/-- **`whB2RSpec_onehot_eq_rw`: binary → real with a one-hot outcome table IS
    Rescorla–Wagner on names** (α = 1, β₁ = β₂ = η, λ = 1), whole event sequences.

    Preconditions: `hoh` the outcome table is one-hot with dimension map `τ`;
    `T` a set of outcome names with a row (`hTn`), `τ` injective on it (`hinj`),
    containing the outcomes of the events (`hT`; else `ValueError`); `hu` no
    outcome is repeated within an event — the precondition of
    `wh_b2r_onehot_eq_rw` (there `(e.outcomes.map τ).Nodup`, which is `hu` +
    `hinj`), needed by the counter-examples below, and guaranteed by the
    duplicate policy unless `remove_duplicates=False`
    (`policy_makes_outcomes_unique`).  Then for every `o ∈ T` and EVERY cue
    name `c`: weight at (dimension `τ o`, c) = Rescorla–Wagner weight at (o, c). -/
theorem whB2RSpec_onehot_eq_rw (eta : R) (ot : VecTable R) (τ : String → Nat)
    (hoh : OneHotTable ot τ) (T : String → Prop) (hTn : ∀ o, T o → o ∈ ot.names)
    (hinj : ∀ a b, T a → T b → τ a = τ b → a = b)
    (es : List (Event String String)) (hT : ∀ e ∈ es, ∀ o ∈ e.outcomes, T o)
    (hu : ∀ e ∈ es, e.outcomes.Nodup) (o c : String) (ho : T o) :
    whB2RSpec eta ot es (τ o) c
      = rwLearn (fun _ => (1 : R)) eta eta 1 (fun _ _ => 0) es o c :=
  Pyndl.whB2RSpec_onehot_eq_rw eta ot τ hoh T hTn hinj es hT hu o c ho

/-- an outcome dimension that is the image of no outcome occurring in the events
    keeps the zero row (no uniqueness, no injectivity needed) -/
theorem whB2RSpec_onehot_unused_dim (eta : R) (ot : VecTable R) (τ : String → Nat)
    (hoh : OneHotTable ot τ) (es : List (Event String String))
    (htab : ∀ e ∈ es, ∀ o ∈ e.outcomes, o ∈ ot.names) (d : Nat) (hd : d < ot.dims.length)
    (hk : ∀ e ∈ es, ∀ o ∈ e.outcomes, τ o ≠ d) (c : String) :
    whB2RSpec eta ot es d c = 0 :=
  Pyndl.whB2RSpec_onehot_unused_dim eta ot τ hoh es htab d hd hk c

/-- **`whR2RSpec_onehot_eq_rw`: real → real with both tables one-hot IS
    Rescorla–Wagner on names** (α = 1, β₁ = β₂ = η, λ = 1); preconditions of
    both previous statements. -/
theorem whR2RSpec_onehot_eq_rw (eta : R) (ct ot : VecTable R) (σ τ : String → Nat)
    (hohc : OneHotTable ct σ) (hoho : OneHotTable ot τ)
    (S T : String → Prop) (hSn : ∀ c, S c → c ∈ ct.names) (hTn : ∀ o, T o → o ∈ ot.names)
    (hinjc : ∀ a b, S a → S b → σ a = σ b → a = b) (hinjo : ∀ a b, T a → T b → τ a = τ b → a = b)
    (es : List (Event String String)) (hS : ∀ e ∈ es, ∀ c ∈ e.cues, S c)
    (hT : ∀ e ∈ es, ∀ o ∈ e.outcomes, T o) (hu : ∀ e ∈ es, e.outcomes.Nodup)
    (o c : String) (ho : T o) (hc : S c) :
    whR2RSpec eta ct ot es (τ o) (σ c)
      = rwLearn (fun _ => (1 : R)) eta eta 1 (fun _ _ => 0) es o c :=
  Pyndl.whR2RSpec_onehot_eq_rw eta ct ot σ τ hohc hoho S T hSn hTn hinjc hinjo es hS hT hu o c ho hc

/-- real → real: unused cue dimensions keep weight 0 (in every row `d` that the
    events name at most once per event), unused outcome dimensions keep the zero row -/
theorem whR2RSpec_onehot_unused_dims (eta : R) (ct ot : VecTable R) (σ τ : String → Nat)
    (hohc : OneHotTable ct σ) (hoho : OneHotTable ot τ) (es : List (Event String String))
    (htabc : ∀ e ∈ es, ∀ c ∈ e.cues, c ∈ ct.names)
    (htabo : ∀ e ∈ es, ∀ o ∈ e.outcomes, o ∈ ot.names) (d : Nat) (hd : d < ot.dims.length) (k : Nat) :
    ((∀ e ∈ es, (e.outcomes.map τ).count d ≤ 1) → (∀ e ∈ es, ∀ c ∈ e.cues, σ c ≠ k) →
      whR2RSpec eta ct ot es d k = 0) ∧
    ((∀ e ∈ es, ∀ o ∈ e.outcomes, τ o ≠ d) → whR2RSpec eta ct ot es d k = 0) :=
  ⟨fun hu hk => whR2RSpec_onehot_unused_cue_dim eta ct ot σ τ hohc hoho es htabc htabo d hd hu k hk,
   fun hk => whR2RSpec_onehot_unused_out_dim eta ct ot σ τ hohc hoho es htabc htabo d hd hk k⟩

/-- the uniqueness precondition `hu` is what the duplicate policy guarantees for
    `remove_duplicates=None` (accepted events) and `True`; only `False` can let a
    repeated outcome through -/
theorem policy_makes_outcomes_unique (p : DupPolicy) (hk : p ≠ .keep)
    (es es' : List (Event String String)) (hp : applyPolicyAll p es = some es') :
    ∀ e ∈ es', e.outcomes.Nodup :=
  applyPolicyAll_outcomes_nodup p hk es es' hp

/-! ## end to end: the model of `wh.wh` against the model of `ndl.ndl` -/

/-- **real → binary, end to end** (C08 `wh_r2b_end_to_end` ∘ this file ∘ C01
    `ndl_call_eq_spec`).  Preconditions: `hne` the event file has at least ONE
    event — on a file with zero events the real `ndl.ndl` raises `IOError` (it
    is the CALL `ndlCall` that is compared) while `wh.wh` returns, so the two do
    NOT agree there; `hfile`: the events are what an event file can hold (≥ 1 cue
    and ≥ 1 outcome each — both functions read a path, where an empty field comes
    back as the name `""`; unused by the proof, it delimits where the models are
    the code); `hcfg : CfgOK` = `2 ≤ events_per_temporary_file < 2³²`,
    `1 ≤ n_outcomes_per_job`, OpenMP: `n_outcomes_per_job < 2³²`, no wrap-around
    of the part bounds, of the `ndl.ndl` call and `hfit` the 32-bit
    limits of its event files (it raises outside); `hc : 1 ≤ n_outcomes_per_job`
    of the `wh.wh` call; `hp` the duplicate policy accepts the events (else both
    raise `ValueError`); the cues of the events have rows in the table (`hS`,
    `hSn`; else `wh.wh` raises); `hoh`, `hinj` as above.  Conclusion: both
    calls succeed and, for EVERY outcome name `o`, every cue `c ∈ S` and the
    dimension label `dl` at position `σ c`, `wh.wh`'s matrix at (o, dl) equals
    `ndl.ndl`'s (α = 1, same β₁ β₂ λ) at (o, c); labels at positions that are
    the image of no occurring cue read 0.  Any two chunkings, both `ndl`
    methods. -/
theorem wh_r2b_onehot_eq_ndl (cfg : NdlCfg) (eta β₁ β₂ lam : R)
    (ct : VecTable R) (σ : String → Nat) (chunk : Nat) (hc : 1 ≤ chunk)
    (es es' : List (Event String String)) (hne : es ≠ []) (hfile : FileEvents es)
    (hcfg : CfgOK cfg (countNames es).2.length)
    (hp : applyPolicyAll cfg.policy es = some es') (hfit : Fits32 es)
    (hoh : OneHotTable ct σ) (S : String → Prop) (hSn : ∀ c, S c → c ∈ ct.names)
    (hinj : ∀ a b, S a → S b → σ a = σ b → a = b) (hS : ∀ e ∈ es, ∀ c ∈ e.cues, S c) :
    ∃ w wn, whModel .r2b cfg.policy eta β₁ β₂ lam (some ct) none chunk none es = .ok w ∧
      ndlCall Generated.pyMagic Generated.pyVersion cfg 1 β₁ β₂ lam none es = .ok (wn, es.length) ∧
      (∀ o c dl, S c → dl ∈ ct.dims → ct.dims.idxOf dl = σ c → w.get o dl = wn.get o c) ∧
      (∀ o dl, (∀ e ∈ es, ∀ c ∈ e.cues, σ c ≠ ct.dims.idxOf dl) → w.get o dl = 0) :=
  whModel_r2b_onehot_eq_ndl Generated.pyMagic Generated.pyVersion (by decide) (by decide) cfg
    eta β₁ β₂ lam ct σ chunk hc es es' hne hcfg hp hfit hoh S hSn hinj hS

/-- **binary → real, end to end**: as before (in particular `hne`: at least one
    event, else `ndl.ndl` raises and `wh.wh` does not; `hfile`) with the outcome table; `hu` no
    outcome repeated within a policy-processed event
    (`policy_makes_outcomes_unique`).  `wh.wh`'s matrix at (label at position
    `τ o`, c) equals `ndl.ndl`'s (α = 1, β₁ = β₂ = η, λ = 1) at (o, c), for every
    `o ∈ T` and EVERY cue name `c`; unused outcome dimensions read 0. -/
theorem wh_b2r_onehot_eq_ndl (cfg : NdlCfg) (eta β₁ β₂ lam : R)
    (ot : VecTable R) (τ : String → Nat) (chunk : Nat) (hc : 1 ≤ chunk)
    (es es' : List (Event String String)) (hne : es ≠ []) (hfile : FileEvents es)
    (hcfg : CfgOK cfg (countNames es).2.length)
    (hp : applyPolicyAll cfg.policy es = some es') (hfit : Fits32 es)
    (hoh : OneHotTable ot τ) (T : String → Prop) (hTn : ∀ o, T o → o ∈ ot.names)
    (hinj : ∀ a b, T a → T b → τ a = τ b → a = b) (hT : ∀ e ∈ es, ∀ o ∈ e.outcomes, T o)
    (hu : ∀ e ∈ es', e.outcomes.Nodup) :
    ∃ w wn, whModel .b2r cfg.policy eta β₁ β₂ lam none (some ot) chunk none es = .ok w ∧
      ndlCall Generated.pyMagic Generated.pyVersion cfg 1 eta eta 1 none es = .ok (wn, es.length) ∧
      (∀ o c dl, T o → dl ∈ ot.dims → ot.dims.idxOf dl = τ o → w.get dl c = wn.get o c) ∧
      (∀ dl c, (∀ e ∈ es, ∀ o ∈ e.outcomes, τ o ≠ ot.dims.idxOf dl) → w.get dl c = 0) :=
  whModel_b2r_onehot_eq_ndl Generated.pyMagic Generated.pyVersion (by decide) (by decide) cfg
    eta β₁ β₂ lam ot τ chunk hc es es' hne hcfg hp hfit hoh T hTn hinj hT hu

/-- **real → real, end to end** (`hne`, `hfile`, `hcfg` as in `wh_r2b_onehot_eq_ndl`):
    both tables one-hot; `wh.wh`'s matrix at (label
    at position `τ o`, label at position `σ c`) equals `ndl.ndl`'s at (o, c). -/
theorem wh_r2r_onehot_eq_ndl (cfg : NdlCfg) (eta β₁ β₂ lam : R)
    (ct ot : VecTable R) (σ τ : String → Nat) (chunk : Nat) (hc : 1 ≤ chunk)
    (es es' : List (Event String String)) (hne : es ≠ []) (hfile : FileEvents es)
    (hcfg : CfgOK cfg (countNames es).2.length)
    (hp : applyPolicyAll cfg.policy es = some es') (hfit : Fits32 es)
    (hohc : OneHotTable ct σ) (hoho : OneHotTable ot τ)
    (S T : String → Prop) (hSn : ∀ c, S c → c ∈ ct.names) (hTn : ∀ o, T o → o ∈ ot.names)
    (hinjc : ∀ a b, S a → S b → σ a = σ b → a = b) (hinjo : ∀ a b, T a → T b → τ a = τ b → a = b)
    (hS : ∀ e ∈ es, ∀ c ∈ e.cues, S c) (hT : ∀ e ∈ es, ∀ o ∈ e.outcomes, T o)
    (hu : ∀ e ∈ es', e.outcomes.Nodup) :
    ∃ w wn, whModel .r2r cfg.policy eta β₁ β₂ lam (some ct) (some ot) chunk none es = .ok w ∧
      ndlCall Generated.pyMagic Generated.pyVersion cfg 1 eta eta 1 none es = .ok (wn, es.length) ∧
      (∀ o c dlo dlc, T o → S c → dlo ∈ ot.dims → ot.dims.idxOf dlo = τ o →
        dlc ∈ ct.dims → ct.dims.idxOf dlc = σ c → w.get dlo dlc = wn.get o c) :=
  whModel_r2r_onehot_eq_ndl Generated.pyMagic Generated.pyVersion (by decide) (by decide) cfg
    eta β₁ β₂ lam ct ot σ τ chunk hc es es' hne hcfg hp hfit hohc hoho S T hSn hTn hinjc hinjo hS hT hu

/-! ## the row order of the vector tables is irrelevant -/

/-- one-hot tables with the same `σ`, the same dimension labels and the same SET
    of row labels denote the same vectors (`SameVectors`) — so permuting the
    rows of a one-hot table together with its labels changes nothing below -/
theorem onehot_same_vectors (t t' : VecTable R) (σ : String → Nat) (h : OneHotTable t σ)
    (h' : OneHotTable t' σ) (hd : t'.dims = t.dims) (hn : ∀ c, c ∈ t'.names ↔ c ∈ t.names) :
    SameVectors t t' :=
  sameVectors_of_onehot t t' σ h h' hd hn

/-- **`table_row_order_irrelevant`, real → binary**: for every event list,
    duplicate policy and `n_outcomes_per_job` (NO precondition besides
    `SameVectors`), `wh.wh` from scratch returns the same labelled matrix, or
    the same error, for any two cue tables that hold the same vector under
    every row label — names are resolved through the table's own row order. -/
theorem table_row_order_irrelevant_r2b (p : DupPolicy) (eta β₁ β₂ lam : R) (ct ct' : VecTable R)
    (h : SameVectors ct ct') (chunk : Nat) (es : List (Event String String)) :
    whModel .r2b p eta β₁ β₂ lam (some ct') none chunk none es
      = whModel .r2b p eta β₁ β₂ lam (some ct) none chunk none es :=
  whModel_r2b_table_order p eta β₁ β₂ lam ct ct' h chunk es

/-- **`table_row_order_irrelevant`, binary → real** -/
theorem table_row_order_irrelevant_b2r (p : DupPolicy) (eta β₁ β₂ lam : R) (ot ot' : VecTable R)
    (h : SameVectors ot ot') (chunk : Nat) (es : List (Event String String)) :
    whModel .b2r p eta β₁ β₂ lam none (some ot') chunk none es
      = whModel .b2r p eta β₁ β₂ lam none (some ot) chunk none es :=
  whModel_b2r_table_order p eta β₁ β₂ lam ot ot' h chunk es

/-- **`table_row_order_irrelevant`, real → real** (both tables) -/
theorem table_row_order_irrelevant_r2r (p : DupPolicy) (eta β₁ β₂ lam : R) (ct ct' ot ot' : VecTable R)
    (hcv : SameVectors ct ct') (hov : SameVectors ot ot') (chunk : Nat) (es : List (Event String String)) :
    whModel .r2r p eta β₁ β₂ lam (some ct') (some ot') chunk none es
      = whModel .r2r p eta β₁ β₂ lam (some ct) (some ot) chunk none es :=
  whModel_r2r_table_order p eta β₁ β₂ lam ct ct' ot ot' hcv hov chunk es

/-- the specifications themselves do not see the row order either -/
theorem spec_row_order_irrelevant (eta β₁ β₂ lam : R) (ct ct' ot ot' : VecTable R)
    (hcv : SameVectors ct ct') (hov : SameVectors ot ot') (es : List (Event String String))
    (htabc : ∀ e ∈ es, ∀ c ∈ e.cues, c ∈ ct.names) (htabo : ∀ e ∈ es, ∀ o ∈ e.outcomes, o ∈ ot.names)
    (d : Nat) (hd : d < ot.dims.length) (o : String) :
    whR2BSpec β₁ β₂ lam ct' es o = whR2BSpec β₁ β₂ lam ct es o ∧
    whB2RSpec eta ot' es d = whB2RSpec eta ot es d ∧
    whR2RSpec eta ct' ot' es d = whR2RSpec eta ct ot es d :=
  ⟨whR2BSpec_sameVectors β₁ β₂ lam ct ct' hcv es htabc o,
   whB2RSpec_sameVectors eta ot ot' hov es htabo d hd,
   whR2RSpec_sameVectors eta ct ct' ot ot' hcv hov es htabc htabo d hd⟩

/-! ## non-vacuity and counter-examples (ℤ, kernel-checked) -/

/-- the two example tables denote the same vectors -/
example : SameVectors exTable exTable' := by
  have h1 : ∀ c ∈ exTable'.names, c ∈ exTable.names := by decide +kernel
  have h2 : ∀ c ∈ exTable.names, c ∈ exTable'.names := by decide +kernel
  exact onehot_same_vectors exTable exTable' exSigma onehot_table_example.1 onehot_table_example.2 rfl
    (fun c => ⟨h1 c, h2 c⟩)

/-- (definitional — example data, not a property theorem) the preconditions of
    `whR2BSpec_onehot_eq_rw_table` hold for the example:
    `exSigma` is injective on the row labels and the event cues have rows -/
theorem exSigma_inj : ∀ a b, a ∈ exTable.names → b ∈ exTable.names → exSigma a = exSigma b → a = b := by
  have h : ∀ a ∈ exTable.names, ∀ b ∈ exTable.names, exSigma a = exSigma b → a = b := by decide +kernel
  exact fun a b ha hb => h a ha b hb

/-- (definitional — example data, not a property theorem) -/
theorem exEvents_in_table : ∀ e ∈ exEvents, ∀ c ∈ e.cues, c ∈ exTable.names := by decide +kernel

/-- … and the values are not trivial (β₁ = 2, β₂ = 3, λ = 5): outcome `x` has
    weight −50 at `d3` = cue `a` and −20 at `d2` = cue `b`, outcome `y` has 20 at
    `d3` = `a`; the unused dimensions `d1`, `d0` (cue `c` does not occur) stay 0 -/
example :
    (whR2BSpec (2 : ℤ) 3 5 exTable exEvents "x" 3, whR2BSpec (2 : ℤ) 3 5 exTable exEvents "x" 2,
     whR2BSpec (2 : ℤ) 3 5 exTable exEvents "y" 3, whR2BSpec (2 : ℤ) 3 5 exTable exEvents "x" 1,
     whR2BSpec (2 : ℤ) 3 5 exTable exEvents "x" 0) = (-50, -20, 20, 0, 0) ∧
    (rwLearn (fun _ => (1 : ℤ)) 2 3 5 (fun _ _ => 0) exEvents "x" "a",
     rwLearn (fun _ => (1 : ℤ)) 2 3 5 (fun _ _ => 0) exEvents "x" "b",
     rwLearn (fun _ => (1 : ℤ)) 2 3 5 (fun _ _ => 0) exEvents "y" "a") = (-50, -20, 20) :=
  ⟨by decide +kernel, by decide +kernel⟩

/-- the models run: `wh.wh` on the shuffled table and on the permuted copy return
    the same labelled matrix (policy `False`, one outcome per job), `ndl.ndl`
    (openmp, one outcome per job, two events per file) the corresponding one -/
example :
    (match whModel .r2b .keep (1 : ℤ) 2 3 5 (some exTable) none 1 none exEvents with
     | .ok w => some (w.outcomes, w.cues, w.vals) | .error _ => none)
      = some (["x", "y"], ["d0", "d1", "d2", "d3"], #[0, 0, -20, -50,  0, 0, 10, 20]) ∧
    (match whModel .r2b .keep (1 : ℤ) 2 3 5 (some exTable') none 1 none exEvents with
     | .ok w => some (w.outcomes, w.cues, w.vals) | .error _ => none)
      = some (["x", "y"], ["d0", "d1", "d2", "d3"], #[0, 0, -20, -50,  0, 0, 10, 20]) ∧
    (match ndlModel Generated.pyMagic Generated.pyVersion ⟨.keep, .openmp, 1, 2⟩ (1 : ℤ) 2 3 5 none exEvents with
     | .ok (w, k) => some (w.outcomes, w.cues, w.vals, k) | .error _ => none)
      = some (["x", "y"], ["a", "b"], #[-50, -20,  20, 10], 3) :=
  ⟨by decide +kernel, by decide +kernel, by decide +kernel⟩

/-- the preconditions of the end-to-end statement `wh_r2b_onehot_eq_ndl` are
    jointly satisfiable: the example instantiates it completely -/
example :
    ∃ w wn, whModel .r2b .keep (1 : ℤ) 2 3 5 (some exTable) none 1 none exEvents = .ok w ∧
      ndlCall Generated.pyMagic Generated.pyVersion ⟨.keep, .openmp, 1, 2⟩ (1 : ℤ) 2 3 5 none exEvents
        = .ok (wn, exEvents.length) ∧
      (∀ o c dl, c ∈ exTable.names → dl ∈ exTable.dims → exTable.dims.idxOf dl = exSigma c →
        w.get o dl = wn.get o c) ∧
      (∀ o dl, (∀ e ∈ exEvents, ∀ c ∈ e.cues, exSigma c ≠ exTable.dims.idxOf dl) → w.get o dl = 0) :=
  wh_r2b_onehot_eq_ndl ⟨.keep, .openmp, 1, 2⟩ 1 2 3 5 exTable exSigma 1 (by decide)
    exEvents exEvents (by decide) exEvents_file (by decide +kernel) (by decide +kernel)
    ⟨by decide +kernel, by decide +kernel, by decide +kernel, by decide +kernel⟩
    onehot_table_example.1 (· ∈ exTable.names) (fun _ h => h) exSigma_inj exEvents_in_table

/-- a one-hot OUTCOME table (rows y, x; `x ↦ e2`, `y ↦ e0`, `e1` unused) -/
def exOutTable : VecTable ℤ := ⟨["y", "x"], ["e0", "e1", "e2"], #[1,0,0,  0,0,1]⟩
def exTau : String → Nat := fun s => if s = "x" then 2 else 0

example : OneHotTable exOutTable exTau := by unfold OneHotTable; decide +kernel

/-- (definitional — example data, not a property theorem) -/
theorem exTau_inj : ∀ a b, a ∈ exOutTable.names → b ∈ exOutTable.names → exTau a = exTau b → a = b := by
  have h : ∀ a ∈ exOutTable.names, ∀ b ∈ exOutTable.names, exTau a = exTau b → a = b := by decide +kernel
  exact fun a b ha hb => h a ha b hb

/-- (definitional — example data, not a property theorem) -/
theorem exEvents_out_in_table : ∀ e ∈ exEvents, ∀ o ∈ e.outcomes, o ∈ exOutTable.names := by decide +kernel

/-- the preconditions of `wh_b2r_onehot_eq_ndl` are jointly satisfiable: the
    example instantiates it completely (threading, two outcomes per job) -/
example :
    ∃ w wn, whModel .b2r .keep (2 : ℤ) 2 3 5 none (some exOutTable) 1 none exEvents = .ok w ∧
      ndlCall Generated.pyMagic Generated.pyVersion ⟨.keep, .threading, 2, 2⟩ (1 : ℤ) 2 2 1 none exEvents
        = .ok (wn, exEvents.length) ∧
      (∀ o c dl, o ∈ exOutTable.names → dl ∈ exOutTable.dims → exOutTable.dims.idxOf dl = exTau o →
        w.get dl c = wn.get o c) ∧
      (∀ dl c, (∀ e ∈ exEvents, ∀ o ∈ e.outcomes, exTau o ≠ exOutTable.dims.idxOf dl) → w.get dl c = 0) :=
  wh_b2r_onehot_eq_ndl ⟨.keep, .threading, 2, 2⟩ 2 2 3 5 exOutTable exTau 1 (by decide)
    exEvents exEvents (by decide) exEvents_file (by decide +kernel) (by decide +kernel)
    ⟨by decide +kernel, by decide +kernel, by decide +kernel, by decide +kernel⟩
    (by unfold OneHotTable; decide +kernel) (· ∈ exOutTable.names) (fun _ h => h) exTau_inj
    exEvents_out_in_table (by decide +kernel)

/-- … and so are those of `wh_r2r_onehot_eq_ndl` (both tables) -/
example :
    ∃ w wn, whModel .r2r .keep (2 : ℤ) 2 3 5 (some exTable) (some exOutTable) 1 none exEvents = .ok w ∧
      ndlCall Generated.pyMagic Generated.pyVersion ⟨.keep, .openmp, 1, 2⟩ (1 : ℤ) 2 2 1 none exEvents
        = .ok (wn, exEvents.length) ∧
      (∀ o c dlo dlc, o ∈ exOutTable.names → c ∈ exTable.names → dlo ∈ exOutTable.dims →
        exOutTable.dims.idxOf dlo = exTau o → dlc ∈ exTable.dims → exTable.dims.idxOf dlc = exSigma c →
        w.get dlo dlc = wn.get o c) :=
  wh_r2r_onehot_eq_ndl ⟨.keep, .openmp, 1, 2⟩ 2 2 3 5 exTable exOutTable exSigma exTau 1 (by decide)
    exEvents exEvents (by decide) exEvents_file (by decide +kernel) (by decide +kernel)
    ⟨by decide +kernel, by decide +kernel, by decide +kernel, by decide +kernel⟩
    onehot_table_example.1 (by unfold OneHotTable; decide +kernel)
    (· ∈ exTable.names) (· ∈ exOutTable.names) (fun _ h => h) (fun _ h => h) exSigma_inj exTau_inj
    exEvents_in_table exEvents_out_in_table (by decide +kernel)

/-- binary → real and real → real on the example (η = 1 over ℤ would be
    degenerate; η = 2): the Widrow–Hoff rows at `τ x = 2`, `τ y = 0` are the
    Rescorla–Wagner rows of `x`, `y`; the unused outcome dimension 1 stays 0 -/
example :
    (whB2RSpec (2 : ℤ) exOutTable exEvents 2 "a", whB2RSpec (2 : ℤ) exOutTable exEvents 2 "b",
     whB2RSpec (2 : ℤ) exOutTable exEvents 0 "a", whB2RSpec (2 : ℤ) exOutTable exEvents 1 "a")
      = (rwLearn (fun _ => (1 : ℤ)) 2 2 1 (fun _ _ => 0) exEvents "x" "a",
         rwLearn (fun _ => (1 : ℤ)) 2 2 1 (fun _ _ => 0) exEvents "x" "b",
         rwLearn (fun _ => (1 : ℤ)) 2 2 1 (fun _ _ => 0) exEvents "y" "a", 0) ∧
    (whR2RSpec (2 : ℤ) exTable exOutTable exEvents 2 3, whR2RSpec (2 : ℤ) exTable exOutTable exEvents 2 2,
     whR2RSpec (2 : ℤ) exTable exOutTable exEvents 0 3)
      = (rwLearn (fun _ => (1 : ℤ)) 2 2 1 (fun _ _ => 0) exEvents "x" "a",
         rwLearn (fun _ => (1 : ℤ)) 2 2 1 (fun _ _ => 0) exEvents "x" "b",
         rwLearn (fun _ => (1 : ℤ)) 2 2 1 (fun _ _ => 0) exEvents "y" "a") ∧
    rwLearn (fun _ => (1 : ℤ)) 2 2 1 (fun _ _ => 0) exEvents "x" "a" ≠ 0 :=
  ⟨by decide +kernel, by decide +kernel, by decide +kernel⟩

/-- **uniqueness of outcomes is needed, on names**: one event with the outcome
    `x` twice (`remove_duplicates=False`), cue `a`, η = 1: Widrow–Hoff learns 2
    (the summed one-hot target), Rescorla–Wagner learns 1 -/
example :
    whB2RSpec (1 : ℤ) exOutTable [⟨["a"], ["x", "x"]⟩] (exTau "x") "a" = 2 ∧
    rwLearn (fun _ => (1 : ℤ)) 1 1 1 (fun _ _ => 0) [(⟨["a"], ["x", "x"]⟩ : Event String String)] "x" "a" = 1 :=
  ⟨by decide +kernel, by decide +kernel⟩

/-- a one-hot table whose dimension map is NOT injective on the occurring cues:
    `a` and `b` both hold the unit vector of `d0`, `c` that of `d1` -/
def exTableBad : VecTable ℤ := ⟨["a", "b", "c"], ["d0", "d1"], #[1,0,  1,0,  0,1]⟩
def exSigmaBad : String → Nat := fun s => if s = "c" then 1 else 0

/-- **injectivity of `σ` on the occurring cues is needed**: the table is one-hot
    and all cues have rows, but `a` and `b` share a dimension.  After the events
    `a → o`, `b c → o` (β₁ = β₂ = λ = 1) Rescorla–Wagner gives cue `c` — which has
    a dimension of its own — weight 1, Widrow–Hoff gives its dimension weight 0
    (the activation of the second event already contains the weight learned
    for `a`). -/
example :
    OneHotTable exTableBad exSigmaBad ∧
    whR2BSpec (1 : ℤ) 1 1 exTableBad [⟨["a"], ["o"]⟩, ⟨["b", "c"], ["o"]⟩] "o" (exSigmaBad "c") = 0 ∧
    rwLearn (fun _ => (1 : ℤ)) 1 1 1 (fun _ _ => 0)
      [(⟨["a"], ["o"]⟩ : Event String String), ⟨["b", "c"], ["o"]⟩] "o" "c" = 1 :=
  ⟨by unfold OneHotTable; decide +kernel, by decide +kernel, by decide +kernel⟩

/-! ## the other two methods: `wh.wh(method='numpy')` and `dict_wh` -/

/-- (definitional: lemma, not a property theorem) a single outcome cannot repeat -/
theorem single_outcomes_nodup (es' : List (Event String String)) (hs : ∀ e ∈ es', IsSingle e) :
    ∀ e ∈ es', e.outcomes.Nodup := by
  intro e he
  obtain ⟨c, o, rfl⟩ := (isSingle_iff e).mp (hs e he)
  simp

/-- **`wh.wh(method='numpy')` with one-hot tables = `ndl.ndl`** (α = 1,
    β₁ = β₂ = η, λ = 1), end to end, both read through their labels.
    Hypotheses of `wh_r2r_onehot_eq_ndl` (at least one event; `hfile`; `hcfg`, `hfit` the
    limits of the `ndl.ndl` call; the policy accepts the events; both tables
    one-hot with dimension maps injective on the occurring names, names have
    rows) with `hs` — every policy-processed event has exactly one cue and one
    outcome, what the numpy branch accepts (`AssertionError` otherwise; it makes
    the uniqueness of outcomes automatic) — instead of `hu`.  Composition of C08
    `wh_numpy_eq_openmp` with `wh_r2r_onehot_eq_ndl`. -/
theorem wh_numpy_onehot_eq_ndl (cfg : NdlCfg) (eta : R)
    (ct ot : VecTable R) (σ τ : String → Nat)
    (es es' : List (Event String String)) (hne : es ≠ []) (hfile : FileEvents es)
    (hcfg : CfgOK cfg (countNames es).2.length)
    (hp : applyPolicyAll cfg.policy es = some es') (hs : ∀ e ∈ es', IsSingle e) (hfit : Fits32 es)
    (hohc : OneHotTable ct σ) (hoho : OneHotTable ot τ)
    (S T : String → Prop) (hSn : ∀ c, S c → c ∈ ct.names) (hTn : ∀ o, T o → o ∈ ot.names)
    (hinjc : ∀ a b, S a → S b → σ a = σ b → a = b) (hinjo : ∀ a b, T a → T b → τ a = τ b → a = b)
    (hS : ∀ e ∈ es, ∀ c ∈ e.cues, S c) (hT : ∀ e ∈ es, ∀ o ∈ e.outcomes, T o) :
    ∃ w wn, whNumpyModel cfg.policy eta ct ot none es = .ok w ∧
      ndlCall Generated.pyMagic Generated.pyVersion cfg 1 eta eta 1 none es = .ok (wn, es.length) ∧
      (∀ o c dlo dlc, T o → S c → dlo ∈ ot.dims → ot.dims.idxOf dlo = τ o →
        dlc ∈ ct.dims → ct.dims.idxOf dlc = σ c → w.get dlo dlc = wn.get o c) := by
  obtain ⟨w, wn, h1, h2, h3⟩ := wh_r2r_onehot_eq_ndl cfg eta eta eta 1 ct ot σ τ 1 (by decide) es es' hne hfile hcfg hp hfit
    hohc hoho S T hSn hTn hinjc hinjo hS hT (single_outcomes_nodup es' hs)
  obtain ⟨r, g1, g2⟩ := whNumpyModel_eq_whModel cfg.policy eta eta eta 1 ct ot 1 (by decide) es es'
    (fun e he c hc => hSn c (hS e he c hc)) (fun e he o ho => hTn o (hT e he o ho)) hp hs
  have : r = w := by rw [h1] at g2; exact (Except.ok.inj g2).symm
  exact ⟨w, wn, this ▸ g1, h2, h3⟩

/-- **`dict_wh` with one-hot tables = `ndl.ndl`**: as before, with distinct
    dimension labels (`hnc`, `hno`: they are the keys of the returned dict); the
    dict read at (label at position `τ o`, label at position `σ c`) equals
    `ndl.ndl`'s matrix at (o, c).  Composition of C08 `dict_wh_eq_openmp` with
    `wh_r2r_onehot_eq_ndl`. -/
theorem dict_wh_onehot_eq_ndl (cfg : NdlCfg) (eta : R)
    (ct ot : VecTable R) (σ τ : String → Nat) (hnc : ct.dims.Nodup) (hno : ot.dims.Nodup)
    (es es' : List (Event String String)) (hne : es ≠ []) (hfile : FileEvents es)
    (hcfg : CfgOK cfg (countNames es).2.length)
    (hp : applyPolicyAll cfg.policy es = some es') (hs : ∀ e ∈ es', IsSingle e) (hfit : Fits32 es)
    (hohc : OneHotTable ct σ) (hoho : OneHotTable ot τ)
    (S T : String → Prop) (hSn : ∀ c, S c → c ∈ ct.names) (hTn : ∀ o, T o → o ∈ ot.names)
    (hinjc : ∀ a b, S a → S b → σ a = σ b → a = b) (hinjo : ∀ a b, T a → T b → τ a = τ b → a = b)
    (hS : ∀ e ∈ es, ∀ c ∈ e.cues, S c) (hT : ∀ e ∈ es, ∀ o ∈ e.outcomes, T o) :
    ∃ D wn, dictWhModel cfg.policy eta ct ot [] es = .ok D ∧
      ndlCall Generated.pyMagic Generated.pyVersion cfg 1 eta eta 1 none es = .ok (wn, es.length) ∧
      (∀ o c dlo dlc, T o → S c → dlo ∈ ot.dims → ot.dims.idxOf dlo = τ o →
        dlc ∈ ct.dims → ct.dims.idxOf dlc = σ c → wdAbs D dlo dlc = wn.get o c) := by
  obtain ⟨w, wn, h1, h2, h3⟩ := wh_r2r_onehot_eq_ndl cfg eta eta eta 1 ct ot σ τ 1 (by decide) es es' hne hfile hcfg hp hfit
    hohc hoho S T hSn hTn hinjc hinjo hS hT (single_outcomes_nodup es' hs)
  obtain ⟨D, r, g1, _, g3, g4, _⟩ := dictWhModel_eq_whModel cfg.policy eta eta eta 1 ct ot hnc hno 1 (by decide)
    es es' (fun e he c hc => hSn c (hS e he c hc)) (fun e he o ho => hTn o (hT e he o ho)) hp hs
  have : r = w := by rw [h1] at g3; exact (Except.ok.inj g3).symm
  refine ⟨D, wn, g1, h2, ?_⟩
  intro o c dlo dlc hTo hSc a b c' d
  rw [g4, this]
  exact h3 o c dlo dlc hTo hSc a b c' d

/-! ### non-vacuity: single events on the one-hot tables above -/

/-- single events after `remove_duplicates=True` (the second has its cue and its
    outcome twice) -/
def exSingleEvents : List (Event String String) := [⟨["a"], ["x"]⟩, ⟨["b", "b"], ["y", "y"]⟩, ⟨["a"], ["y"]⟩]
def exSingleEvents' : List (Event String String) := [⟨["a"], ["x"]⟩, ⟨["b"], ["y"]⟩, ⟨["a"], ["y"]⟩]

/-- `wh_numpy_onehot_eq_ndl` with EVERY hypothesis instantiated (threading, two
    outcomes per job, η = 2) -/
example :
    ∃ w wn, whNumpyModel .dedup (2 : ℤ) exTable exOutTable none exSingleEvents = .ok w ∧
      ndlCall Generated.pyMagic Generated.pyVersion ⟨.dedup, .threading, 2, 2⟩ (1 : ℤ) 2 2 1 none exSingleEvents
        = .ok (wn, exSingleEvents.length) ∧
      (∀ o c dlo dlc, o ∈ exOutTable.names → c ∈ exTable.names → dlo ∈ exOutTable.dims →
        exOutTable.dims.idxOf dlo = exTau o → dlc ∈ exTable.dims → exTable.dims.idxOf dlc = exSigma c →
        w.get dlo dlc = wn.get o c) :=
  wh_numpy_onehot_eq_ndl ⟨.dedup, .threading, 2, 2⟩ 2 exTable exOutTable exSigma exTau
    exSingleEvents exSingleEvents' (by decide) (by decide) (by decide +kernel) (by decide +kernel) (by decide +kernel)
    ⟨by decide +kernel, by decide +kernel, by decide +kernel, by decide +kernel⟩
    onehot_table_example.1 (by unfold OneHotTable; decide +kernel)
    (· ∈ exTable.names) (· ∈ exOutTable.names) (fun _ h => h) (fun _ h => h) exSigma_inj exTau_inj
    (by decide +kernel) (by decide +kernel)

/-- … and `dict_wh_onehot_eq_ndl` (OpenMP `ndl.ndl`, one outcome per job) -/
example :
    ∃ D wn, dictWhModel .dedup (2 : ℤ) exTable exOutTable [] exSingleEvents = .ok D ∧
      ndlCall Generated.pyMagic Generated.pyVersion ⟨.dedup, .openmp, 1, 2⟩ (1 : ℤ) 2 2 1 none exSingleEvents
        = .ok (wn, exSingleEvents.length) ∧
      (∀ o c dlo dlc, o ∈ exOutTable.names → c ∈ exTable.names → dlo ∈ exOutTable.dims →
        exOutTable.dims.idxOf dlo = exTau o → dlc ∈ exTable.dims → exTable.dims.idxOf dlc = exSigma c →
        wdAbs D dlo dlc = wn.get o c) :=
  dict_wh_onehot_eq_ndl ⟨.dedup, .openmp, 1, 2⟩ 2 exTable exOutTable exSigma exTau (by decide) (by decide)
    exSingleEvents exSingleEvents' (by decide) (by decide) (by decide +kernel) (by decide +kernel) (by decide +kernel)
    ⟨by decide +kernel, by decide +kernel, by decide +kernel, by decide +kernel⟩
    onehot_table_example.1 (by unfold OneHotTable; decide +kernel)
    (· ∈ exTable.names) (· ∈ exOutTable.names) (fun _ h => h) (fun _ h => h) exSigma_inj exTau_inj
    (by decide +kernel) (by decide +kernel)

/-- the numbers (kernel-evaluated): the dict `dict_wh` returns on the example,
    read at (`e2` = τ x, `d3` = σ a) and (`e0` = τ y, `d2` = σ b), is what
    Rescorla–Wagner learns for (x, a) and (y, b); not all zero -/
example :
    (match dictWhModel .dedup (2 : ℤ) exTable exOutTable [] exSingleEvents with
      | .ok D => some (wdAbs D "e2" "d3", wdAbs D "e0" "d2", wdAbs D "e0" "d3")
      | .error _ => none)
      = some (rwLearn (fun _ => (1 : ℤ)) 2 2 1 (fun _ _ => 0) exSingleEvents' "x" "a",
              rwLearn (fun _ => (1 : ℤ)) 2 2 1 (fun _ _ => 0) exSingleEvents' "y" "b",
              rwLearn (fun _ => (1 : ℤ)) 2 2 1 (fun _ _ => 0) exSingleEvents' "y" "a") ∧
    rwLearn (fun _ => (1 : ℤ)) 2 2 1 (fun _ _ => 0) exSingleEvents' "y" "a" ≠ 0 :=
  ⟨by decide +kernel, by decide +kernel⟩

end Pyndl.C14
