/-
  C06 — Binary event chunks round-trip and are read identically by every reader.
  Magic number and version come from `PyndlModel.Generated`, i.e. from the
  literals of preprocess.py and of ndl_parallel.pyx as they are NOW.

  Scope of the reader statements: byte strings that are COMPLETE (as long as
  their header count and block lengths announce — in particular everything
  `write_events` leaves on disk) or have a wrong magic number / version.
  TRUNCATED byte strings are OUTSIDE: the model readers return the marker
  `ReadErr.truncated` there, which no real reader has (`read_binary_file`
  zero-fills short reads, the kernels ignore `fread`'s return value); nothing
  is claimed about the real readers on them (DESIGN: truncation is not part of
  the property).
  By construction (one definition stands for several copies in the source): the
  kernels' reader `decodeChunkKernel` stands for the 4 reader copies of
  ndl_parallel.pyx, `learnChunks` / `learnChunksB2B` for the 5 entry-point
  loops; the exception CLASS (`ValueError` in Python, `IOError` from the entry
  points) is not in the model.
-/
import PyndlProofs.Bytes
import PyndlProofs.NdlSpec
import PyndlModel.Kernel

namespace Pyndl.C06
open Pyndl List

/-- (constant check) writer (preprocess.py) and kernels (ndl_parallel.pyx) use the same magic number … -/
theorem magic_agree : Generated.pyMagic = Generated.kernelMagic := by decide

/-- (constant check) … and the same current version; both fit 32 bits -/
theorem version_agree : Generated.pyVersion = Generated.kernelVersion := by decide

/-- (constant check) -/
theorem header_fits : Generated.pyMagic < 4294967296 ∧ Generated.pyVersion < 4294967296 := by decide

/-- (constant check) the with-frequency legacy version is not the current version (it must be rejected) -/
theorem old_version_differs : Generated.pyVersionWithFreq ≠ Generated.pyVersion := by decide

/-- (constant check) the kernels' initial buffer capacity is the same (1024) in all four kernels -/
theorem buffer_caps_agree : Generated.kernelBufferCap = Generated.kernelBufferCapMax ∧
    Generated.kernelBufferCap = 1024 := by decide

theorem readU32_u32le (n : Nat) (h : n < 4294967296) (rest : Bytes) :
    readU32le (u32le n ++ rest) = some (n, rest) := readU32le_u32le n h rest

/-- **round trip (Python reader)**: every event list whose ids, per-event
    counts and length are below 2³² — events with more than 1024 cues or
    outcomes and events without outcomes included — is read back unchanged. -/
theorem decode_encode (es : List (Event Nat Nat)) (hn : es.length < 4294967296) (h : Wf32 es) :
    decodeChunkPy Generated.pyMagic Generated.pyVersion
      (encodeChunk Generated.pyMagic Generated.pyVersion es) = .ok es :=
  decodeChunkPy_encodeChunk _ _ header_fits.1 header_fits.2 es hn h

/-- **every compiled kernel consumes exactly those events**: the kernels'
    reader (constants of ndl_parallel.pyx) applied to what the writer
    (constants of preprocess.py) produced yields the written events … -/
theorem kernel_decode_encode (es : List (Event Nat Nat)) (hn : es.length < 4294967296) (h : Wf32 es) :
    (decodeChunkKernel Generated.kernelMagic Generated.kernelVersion
      (encodeChunk Generated.pyMagic Generated.pyVersion es)).map (·.1) = .ok es := by
  rw [decodeChunkKernel_eq_py, ← magic_agree, ← version_agree]
  exact decode_encode es hn h

/-- **the readers agree on every COMPLETE byte string**: whenever the Python
    reader reads a byte string to the end of what its counts announce, the
    kernels' reader returns the same events (for ANY header constants, any
    counts — in particular blocks longer than 1024), and conversely.
    Truncated byte strings are OUTSIDE this statement (file header).
    (Was `kernel_decode_eq_py`, "for every byte string the two readers agree":
    true of the MODEL readers only because both return the invented marker
    `.truncated` on short input, where the real readers do different things.) -/
theorem kernel_reads_what_py_reads (magic version : Nat) (bs : Bytes) (es : List (Event Nat Nat)) :
    decodeChunkPy magic version bs = .ok es ↔ ∃ hist, decodeChunkKernel magic version bs = .ok (es, hist) :=
  ⟨decodeChunkKernel_of_py_ok magic version bs es,
   fun ⟨hist, h⟩ => decodeChunkPy_of_kernel_ok magic version bs es hist h⟩

/-- **… and on every header**: the two readers reject a wrong magic number and a
    wrong version with the same verdict -/
theorem kernel_rejects_what_py_rejects (magic version : Nat) (bs : Bytes) :
    (decodeChunkKernel magic version bs = .error .badMagic ↔ decodeChunkPy magic version bs = .error .badMagic) ∧
    (decodeChunkKernel magic version bs = .error .badVersion ↔
      decodeChunkPy magic version bs = .error .badVersion) :=
  ⟨decodeChunk_error_iff magic version bs .badMagic, decodeChunk_error_iff magic version bs .badVersion⟩

/-- what `write_events` writes is never in the "truncated" region: both readers
    succeed on it (so the statements above cover every chunk file of a run) -/
theorem written_chunks_are_complete (es : List (Event Nat Nat)) (hn : es.length < 4294967296) (h : Wf32 es) :
    decodeChunkPy Generated.pyMagic Generated.pyVersion (encodeChunk Generated.pyMagic Generated.pyVersion es)
      = .ok es ∧
    ∃ hist, decodeChunkKernel Generated.kernelMagic Generated.kernelVersion
      (encodeChunk Generated.pyMagic Generated.pyVersion es) = .ok (es, hist) := by
  refine ⟨decode_encode es hn h, ?_⟩
  rw [← magic_agree, ← version_agree]
  exact decodeChunkKernel_of_py_ok _ _ _ es (decode_encode es hn h)

/-- (restates the definition of the buffer growth: `cap' = max cap n`) the kernel
    reader never reads a block longer than the buffer it has (re)allocated -/
theorem kernel_buffer_never_overrun (n capC capO : Nat) (bs : Bytes) (es : List (Event Nat Nat))
    (hist : List (Nat × Nat)) (h : decodeEventsKernel n capC capO bs = some (es, hist)) :
    ∀ p ∈ hist, p.1 ≤ p.2 :=
  decodeEventsKernel_cap n capC capO bs es hist h

/-- **start/stop windows**: `write_events(events, file, start, stop, remove_duplicates)`
    with `start ≤ stop`, `stop - start < 2³²` and 32-bit events: if a file is
    left on disk (`some bytes`), it holds exactly the policy-processed events
    `[start, stop)` of the stream (`win`; fewer than `stop - start` when the
    stream ends early — then the header count was rewritten and the result is
    `StopIteration`), it is the encoding of that window, and the Python reader
    returns the window. -/
theorem write_read_window (p : DupPolicy) (es : List (Event Nat Nat)) (start stop : Nat)
    (hle : start ≤ stop) (hfit : stop - start < 4294967296) (hwf : Wf32 es) (bytes : Bytes) (r : WriteResult)
    (h : writeEvents Generated.pyMagic Generated.pyVersion p es start stop = (some bytes, r)) :
    ∃ win, windowEvents p es start stop = .ok win ∧
      applyPolicyAll p ((es.drop start).take (stop - start)) = some win ∧ win ≠ [] ∧
      bytes = encodeChunk Generated.pyMagic Generated.pyVersion win ∧
      decodeChunkPy Generated.pyMagic Generated.pyVersion bytes = .ok win ∧
      (r = .ok win.length ∨ r = .stopped win.length) :=
  writeEvents_window_general _ _ header_fits.1 header_fits.2 p es start stop hle hfit hwf bytes r h

/-- … and outside these windows (`stop < start`: negative estimate; `stop - start
    ≥ 2³²`) `write_events` raises `OverflowError` before it looks at any event -/
theorem write_window_overflow (p : DupPolicy) (es : List (Event Nat Nat)) (start stop : Nat)
    (h : stop < start ∨ 4294967296 ≤ stop - start) :
    writeEvents Generated.pyMagic Generated.pyVersion p es start stop = (none, .overflow) :=
  writeEvents_overflow_of _ _ p es start stop h

/-- size of a chunk file (used by C05/C17 for the storage budget sweep) -/
theorem encoded_size (magic version : Nat) (es : List (Event Nat Nat)) :
    (encodeChunk magic version es).length = encodedSize es :=
  length_encodeChunk magic version es

/-- **no 64-bit wrap** of the flat weight index for 32-bit operands: matrices
    with more than 2³² cells are indexed correctly. -/
theorem flatIndex_exact (n o c : UInt32) :
    (flatIndex64 n o c).toNat = flatIdx n.toNat o.toNat c.toNat :=
  flatIndex64_exact n o c

/-- **bad header rejected wherever it stands**: if a chunk list is
    `pre ++ [bad] ++ post` with readable `pre` and a `bad` chunk whose header is
    not (magic, version), every entry point raises and learns nothing from `bad`
    or `post` (`learnFile` = the event loop of any of the five kernels). -/
theorem bad_header_rejected {σ : Type} (learnFile : σ → List (Event Nat Nat) → σ)
    (pre : List Bytes) (preEs : List (List (Event Nat Nat)))
    (hpre : List.Forall₂ (fun f es => ∃ h, decodeChunkKernel Generated.kernelMagic
      Generated.kernelVersion f = .ok (es, h)) pre preEs)
    (m' v' : Nat) (hm' : m' < 4294967296) (hv' : v' < 4294967296)
    (hne : m' ≠ Generated.kernelMagic ∨ v' ≠ Generated.kernelVersion) (rest : Bytes)
    (post : List Bytes) (w : σ) :
    ∃ e, learnChunks Generated.kernelMagic Generated.kernelVersion learnFile
      (pre ++ (u32le m' ++ (u32le v' ++ rest)) :: post) w = (preEs.foldl learnFile w, some e) := by
  rcases bad_header_is_error _ _ m' v' hm' hv' hne rest with h | h
  · exact ⟨_, learnChunks_bad _ _ learnFile pre preEs hpre _ _ h post w⟩
  · exact ⟨_, learnChunks_bad _ _ learnFile pre preEs hpre _ _ h post w⟩

/-- the Python reader rejects it as well (before yielding any event) -/
theorem bad_header_rejected_py (m' v' : Nat) (hm' : m' < 4294967296) (hv' : v' < 4294967296)
    (hne : m' ≠ Generated.pyMagic ∨ v' ≠ Generated.pyVersion) (rest : Bytes) :
    ∃ e, decodeChunkPy Generated.pyMagic Generated.pyVersion (u32le m' ++ (u32le v' ++ rest)) = .error e :=
  bad_header_is_error_py _ _ m' v' hm' hv' hne rest

/-- the same for the two binary-to-binary entry points as CALLED -/
theorem bad_header_rejected_b2b {σ : Type} (learnFile : σ → List (Event Nat Nat) → σ)
    (pre : List Bytes) (preEs : List (List (Event Nat Nat)))
    (hpre : List.Forall₂ (fun f es => ∃ h, decodeChunkKernel Generated.kernelMagic
      Generated.kernelVersion f = .ok (es, h)) pre preEs)
    (m' v' : Nat) (hm' : m' < 4294967296) (hv' : v' < 4294967296)
    (hne : m' ≠ Generated.kernelMagic ∨ v' ≠ Generated.kernelVersion) (rest : Bytes)
    (post : List Bytes) (w : σ) :
    ∃ e, learnChunksB2B Generated.kernelMagic Generated.kernelVersion learnFile
      (pre ++ (u32le m' ++ (u32le v' ++ rest)) :: post) w = (preEs.foldl learnFile w, some e) := by
  rw [learnChunksB2B_of_ne_nil _ _ _ _ (by simp)]
  exact bad_header_rejected learnFile pre preEs hpre m' v' hm' hv' hne rest post w

/-- the loop over a list of good chunks consumes all of them, without error
    (the three Widrow-Hoff entry points: also for the empty list) -/
theorem good_chunks_consumed_loop {σ : Type} (learnFile : σ → List (Event Nat Nat) → σ)
    (ess : List (List (Event Nat Nat))) (hn : ∀ es ∈ ess, es.length < 4294967296 ∧ Wf32 es) (w : σ) :
    learnChunks Generated.kernelMagic Generated.kernelVersion learnFile
      (ess.map (encodeChunk Generated.pyMagic Generated.pyVersion)) w = (ess.foldl learnFile w, none) := by
  apply learnChunks_good
  induction ess with
  | nil => exact List.Forall₂.nil
  | cons es ess ih =>
    refine List.Forall₂.cons ?_ (ih (fun x hx => hn x (by simp [hx])))
    have h := kernel_decode_encode es (hn es (by simp)).1 (hn es (by simp)).2
    cases hd : decodeChunkKernel Generated.kernelMagic Generated.kernelVersion
        (encodeChunk Generated.pyMagic Generated.pyVersion es) with
    | error e => rw [hd] at h; cases h
    | ok r =>
      rw [hd] at h
      simp only [Except.map, Except.ok.injEq] at h
      exact ⟨r.2, by rw [← h]⟩

/-- **a NON-EMPTY list of good chunks is consumed completely, without error, by
    the binary-to-binary entry points** (`ess ≠ []`: the property quantifies over
    1..4 chunks; without it the statement is FALSE for the real code, next theorem) -/
theorem good_chunks_consumed {σ : Type} (learnFile : σ → List (Event Nat Nat) → σ)
    (ess : List (List (Event Nat Nat))) (hne : ess ≠ [])
    (hn : ∀ es ∈ ess, es.length < 4294967296 ∧ Wf32 es) (w : σ) :
    learnChunksB2B Generated.kernelMagic Generated.kernelVersion learnFile
      (ess.map (encodeChunk Generated.pyMagic Generated.pyVersion)) w = (ess.foldl learnFile w, none) := by
  rw [learnChunksB2B_of_ne_nil _ _ _ _ (by simpa using hne)]
  exact good_chunks_consumed_loop learnFile ess hn w

/-- (definitional: `learnChunksB2B` is DEFINED to answer `noFile` on `[]`, after
    ndl_parallel.pyx:68-87 / ndl_openmp.pyx:37-67 — the statement only names that
    clause; C05 `no_chunk_file_raises` is the same statement)
    **an EMPTY file list makes the binary-to-binary entry points raise `IOError`**
    (error code 3: `INITIAL_ERROR_CODE` is never overwritten), weights
    untouched.  That THIS is why `ndl.ndl` raises on an event file with zero
    events is a theorem elsewhere: C01 `ndl_zero_events_rule` (`ndl.ndl`
    assembled from `learnChunksB2B` calls equals `ndlCall` on zero events). -/
theorem empty_file_list_raises {σ : Type} (learnFile : σ → List (Event Nat Nat) → σ) (w : σ) :
    learnChunksB2B Generated.kernelMagic Generated.kernelVersion learnFile [] w = (w, some .noFile) :=
  learnChunksB2B_nil _ _ learnFile w

/-! non-vacuity: an event with 3000 cues and one without outcomes satisfy `Wf32`,
and a concrete chunk round-trips byte for byte. -/
example : Wf32 [⟨List.range 3000, [5]⟩, ⟨[7, 7], []⟩] := by
  intro e he
  simp only [List.mem_cons, List.not_mem_nil, or_false] at he
  rcases he with rfl | rfl
  · exact ⟨fun i hi => by simp at hi; omega, by intro i hi; simp at hi; omega, by simp, by simp⟩
  · exact ⟨fun i hi => by simp at hi; omega, by intro i hi; simp at hi, by simp, by simp⟩

example : decodeChunkPy 14159265 2263 (encodeChunk 14159265 2263 [⟨[1, 2], [3]⟩, ⟨[70000], []⟩])
    = .ok [⟨[1, 2], [3]⟩, ⟨[70000], []⟩] := by decide +kernel


/-- non-vacuity of `write_read_window`: the window `[1, 3)` of three events under
    `remove_duplicates=True` (the theorem applied: what is on disk decodes to the
    de-duplicated events 1 and 2) … -/
example :
    ∃ bytes, (writeEvents Generated.pyMagic Generated.pyVersion .dedup
        [⟨[1, 2], [3]⟩, ⟨[4, 4], [5]⟩, ⟨[6], []⟩] 1 3).1 = some bytes ∧
      decodeChunkPy Generated.pyMagic Generated.pyVersion bytes = .ok [⟨[4], [5]⟩, ⟨[6], []⟩] := by
  have hwf : Wf32 [⟨[1, 2], [3]⟩, ⟨[4, 4], [5]⟩, ⟨[6], []⟩] := by
    intro e he
    simp only [List.mem_cons, List.not_mem_nil, or_false] at he
    rcases he with rfl | rfl | rfl <;>
      exact ⟨fun i hi => by simp at hi; omega, fun i hi => by simp at hi <;> omega, by simp, by simp⟩
  obtain ⟨win, hwin, _, _, hb, hdec, _⟩ := write_read_window .dedup [⟨[1, 2], [3]⟩, ⟨[4, 4], [5]⟩, ⟨[6], []⟩] 1 3
    (by decide) (by decide) hwf _ _ rfl
  have : win = [⟨[4], [5]⟩, ⟨[6], []⟩] := by
    have h2 : windowEvents .dedup [⟨[1, 2], [3]⟩, ⟨[4, 4], [5]⟩, ⟨[6], []⟩] 1 3
        = .ok [⟨[4], [5]⟩, ⟨[6], []⟩] := by decide +kernel
    rw [h2] at hwin; cases hwin; rfl
  subst this
  exact ⟨_, rfl, hdec⟩

/-- … a window that reaches behind the end of the stream (`StopIteration`, header
    count rewritten), and the two kinds of windows that raise `OverflowError` -/
example :
    (writeEvents 14159265 2263 .dedup [⟨[1, 2], [3]⟩, ⟨[4, 4], [5]⟩, ⟨[6], []⟩] 1 3).2 = .ok 2 ∧
    (writeEvents 14159265 2263 .dedup [⟨[1, 2], [3]⟩, ⟨[4, 4], [5]⟩, ⟨[6], []⟩] 1 9).2 = .stopped 2 ∧
    (writeEvents 14159265 2263 .dedup [⟨[1, 2], [3]⟩, ⟨[4, 4], [5]⟩, ⟨[6], []⟩] 3 1).2 = .overflow ∧
    (writeEvents 14159265 2263 .dedup [⟨[1, 2], [3]⟩, ⟨[4, 4], [5]⟩, ⟨[6], []⟩] 0 4294967296).2 = .overflow := by
  decide +kernel

/-- `kernel_reads_what_py_reads` applied in both directions on a concrete chunk
    with FOREIGN header constants (7, 9) and a block of 1500 cues (beyond the
    kernels' initial buffer of 1024): from the Python reader's success to the
    kernels', and back -/
example :
    (∃ hist, decodeChunkKernel 7 9 (encodeChunk 7 9 [⟨List.range 1500, [3]⟩, ⟨[4], []⟩])
      = .ok ([⟨List.range 1500, [3]⟩, ⟨[4], []⟩], hist)) ∧
    decodeChunkPy 7 9 (encodeChunk 7 9 [⟨List.range 1500, [3]⟩, ⟨[4], []⟩])
      = .ok [⟨List.range 1500, [3]⟩, ⟨[4], []⟩] := by
  have hpy : decodeChunkPy 7 9 (encodeChunk 7 9 [⟨List.range 1500, [3]⟩, ⟨[4], []⟩])
      = .ok [⟨List.range 1500, [3]⟩, ⟨[4], []⟩] := by decide +kernel
  have hk := (kernel_reads_what_py_reads 7 9 _ _).mp hpy
  exact ⟨hk, (kernel_reads_what_py_reads 7 9 _ _).mpr hk⟩

/-- … and `kernel_rejects_what_py_rejects`: a chunk written with the legacy
    with-frequency version is rejected by both readers with `badVersion` -/
example :
    decodeChunkKernel Generated.kernelMagic Generated.kernelVersion
      (encodeChunk Generated.pyMagic Generated.pyVersionWithFreq [⟨[1], [2]⟩]) = .error .badVersion ∧
    decodeChunkPy Generated.kernelMagic Generated.kernelVersion
      (encodeChunk Generated.pyMagic Generated.pyVersionWithFreq [⟨[1], [2]⟩]) = .error .badVersion := by
  have hk : decodeChunkKernel Generated.kernelMagic Generated.kernelVersion
      (encodeChunk Generated.pyMagic Generated.pyVersionWithFreq [⟨[1], [2]⟩]) = .error .badVersion := by
    decide +kernel
  exact ⟨hk, (kernel_rejects_what_py_rejects _ _ _).2.mp hk⟩

def exChunkA : List (Event Nat Nat) := [⟨[1, 2], [3]⟩, ⟨[4], []⟩]
def exChunkB : List (Event Nat Nat) := [⟨[7], [0, 1]⟩]

/-- (definitional — example data, not a property theorem) -/
theorem exChunks_ok : ∀ es ∈ [exChunkA, exChunkB], es.length < 4294967296 ∧ Wf32 es := by
  intro es hes
  simp only [List.mem_cons, List.not_mem_nil, or_false] at hes
  rcases hes with rfl | rfl
  · exact ⟨by decide, wf32_of_bound 100 (by decide) _ (by decide)⟩
  · exact ⟨by decide, wf32_of_bound 100 (by decide) _ (by decide)⟩

/-- `good_chunks_consumed` ITSELF applied, two chunk files, ANY kernel event loop
    `learnFile` and start value -/
example (learnFile : Nat → List (Event Nat Nat) → Nat) (w : Nat) :
    learnChunksB2B Generated.kernelMagic Generated.kernelVersion learnFile
      ([exChunkA, exChunkB].map (encodeChunk Generated.pyMagic Generated.pyVersion)) w
      = ([exChunkA, exChunkB].foldl learnFile w, none) :=
  good_chunks_consumed learnFile [exChunkA, exChunkB] (by decide) exChunks_ok w

/-- `bad_header_rejected_b2b` / `bad_header_rejected` / `bad_header_rejected_py`
    ITSELF applied: a good chunk, then a chunk with the legacy version in its
    header, then another good chunk — the entry points learn the first chunk
    only and raise; the Python reader rejects the bad chunk -/
example (learnFile : Nat → List (Event Nat Nat) → Nat) (w : Nat) :
    (∃ e, learnChunksB2B Generated.kernelMagic Generated.kernelVersion learnFile
      ([encodeChunk Generated.pyMagic Generated.pyVersion exChunkA] ++
        (u32le Generated.kernelMagic ++ (u32le Generated.pyVersionWithFreq ++ [1, 0, 0, 0])) ::
        [encodeChunk Generated.pyMagic Generated.pyVersion exChunkB]) w
      = ([exChunkA].foldl learnFile w, some e)) ∧
    (∃ e, learnChunks Generated.kernelMagic Generated.kernelVersion learnFile
      ([encodeChunk Generated.pyMagic Generated.pyVersion exChunkA] ++
        (u32le Generated.kernelMagic ++ (u32le Generated.pyVersionWithFreq ++ [1, 0, 0, 0])) ::
        [encodeChunk Generated.pyMagic Generated.pyVersion exChunkB]) w
      = ([exChunkA].foldl learnFile w, some e)) ∧
    (∃ e, decodeChunkPy Generated.pyMagic Generated.pyVersion
      (u32le Generated.kernelMagic ++ (u32le Generated.pyVersionWithFreq ++ [1, 0, 0, 0])) = .error e) := by
  have hpre : List.Forall₂ (fun f es => ∃ h, decodeChunkKernel Generated.kernelMagic
      Generated.kernelVersion f = .ok (es, h)) [encodeChunk Generated.pyMagic Generated.pyVersion exChunkA]
      [exChunkA] :=
    List.Forall₂.cons (written_chunks_are_complete exChunkA (by decide)
      (wf32_of_bound 100 (by decide) _ (by decide))).2 List.Forall₂.nil
  exact ⟨bad_header_rejected_b2b learnFile _ _ hpre _ _ (by decide) (by decide) (Or.inr (by decide)) _ _ w,
    bad_header_rejected learnFile _ _ hpre _ _ (by decide) (by decide) (Or.inr (by decide)) _ _ w,
    bad_header_rejected_py _ _ (by decide) (by decide) (Or.inr (by decide)) _⟩

end Pyndl.C06
