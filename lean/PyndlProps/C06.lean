/-
  C06 — Binary event chunks round-trip and are read identically by every reader.
  Magic number and version come from `PyndlModel.Generated`, i.e. from the
  literals of preprocess.py and of ndl_parallel.pyx as they are NOW.
-/
import PyndlProofs.Bytes
import PyndlModel.Kernel

namespace Pyndl.C06
open Pyndl List

/-- writer (preprocess.py) and kernels (ndl_parallel.pyx) use the same magic number … -/
theorem magic_agree : Generated.pyMagic = Generated.kernelMagic := by decide

/-- … and the same current version; both fit 32 bits -/
theorem version_agree : Generated.pyVersion = Generated.kernelVersion := by decide

theorem header_fits : Generated.pyMagic < 4294967296 ∧ Generated.pyVersion < 4294967296 := by decide

/-- the with-frequency legacy version is not the current version (it must be rejected) -/
theorem old_version_differs : Generated.pyVersionWithFreq ≠ Generated.pyVersion := by decide

/-- the kernels' initial buffer capacity is the same (1024) in all four kernels -/
theorem buffer_caps_agree : Generated.kernelBufferCap = Generated.kernelBufferCapMax ∧
    Generated.kernelBufferCap = 1024 := by decide

theorem readU32_u32le (n : Nat) (h : n < 4294967296) (rest : Bytes) :
    readU32le (u32le n ++ rest) = some (n, rest) := readU32le_u32le n h rest

/-- **round trip (Python reader)**: every event list whose ids, per-event
    counts and length are below 2³² — events with more than 1024 cues or
    outcomes and events without outcomes included — is read back unchanged. -/
theorem decode_encode (es : List (Event Nat Nat)) (hn : es.length < 4294967296) (h : Wf32 es) :
    decodeChunkPy Generated.pyMagic Generated.pyVersion
      (encodeChunk Generated.pyMagic Generated.pyVersion es) = .ok es :=
  decodeChunkPy_encodeChunk _ _ header_fits.1 header_fits.2 es hn h

/-- **every compiled kernel consumes exactly those events**: the kernels'
    reader (constants of ndl_parallel.pyx) applied to what the writer
    (constants of preprocess.py) produced yields the written events … -/
theorem kernel_decode_encode (es : List (Event Nat Nat)) (hn : es.length < 4294967296) (h : Wf32 es) :
    (decodeChunkKernel Generated.kernelMagic Generated.kernelVersion
      (encodeChunk Generated.pyMagic Generated.pyVersion es)).map (·.1) = .ok es := by
  rw [decodeChunkKernel_eq_py, ← magic_agree, ← version_agree]
  exact decode_encode es hn h

/-- … for every byte string the two readers agree, and the kernel reader never
    reads a block longer than the buffer it has (re)allocated, whatever the
    counts are (in particular > 1024). -/
theorem kernel_decode_eq_py (magic version : Nat) (bs : Bytes) :
    (decodeChunkKernel magic version bs).map (·.1) = decodeChunkPy magic version bs :=
  decodeChunkKernel_eq_py magic version bs

theorem kernel_buffer_never_overrun (n capC capO : Nat) (bs : Bytes) (es : List (Event Nat Nat))
    (hist : List (Nat × Nat)) (h : decodeEventsKernel n capC capO bs = some (es, hist)) :
    ∀ p ∈ hist, p.1 ≤ p.2 :=
  decodeEventsKernel_cap n capC capO bs es hist h

/-- size of a chunk file (used by C05/C17 for the storage budget sweep) -/
theorem encoded_size (magic version : Nat) (es : List (Event Nat Nat)) :
    (encodeChunk magic version es).length = encodedSize es :=
  length_encodeChunk magic version es

/-- **no 64-bit wrap** of the flat weight index for 32-bit operands: matrices
    with more than 2³² cells are indexed correctly. -/
theorem flatIndex_exact (n o c : UInt32) :
    (flatIndex64 n o c).toNat = flatIdx n.toNat o.toNat c.toNat :=
  flatIndex64_exact n o c

/-- **bad header rejected wherever it stands**: if a chunk list is
    `pre ++ [bad] ++ post` with readable `pre` and a `bad` chunk whose header is
    not (magic, version), every entry point raises and learns nothing from `bad`
    or `post` (`learnFile` = the event loop of any of the five kernels). -/
theorem bad_header_rejected {σ : Type} (learnFile : σ → List (Event Nat Nat) → σ)
    (pre : List Bytes) (preEs : List (List (Event Nat Nat)))
    (hpre : List.Forall₂ (fun f es => ∃ h, decodeChunkKernel Generated.kernelMagic
      Generated.kernelVersion f = .ok (es, h)) pre preEs)
    (m' v' : Nat) (hm' : m' < 4294967296) (hv' : v' < 4294967296)
    (hne : m' ≠ Generated.kernelMagic ∨ v' ≠ Generated.kernelVersion) (rest : Bytes)
    (post : List Bytes) (w : σ) :
    ∃ e, learnChunks Generated.kernelMagic Generated.kernelVersion learnFile
      (pre ++ (u32le m' ++ (u32le v' ++ rest)) :: post) w = (preEs.foldl learnFile w, some e) := by
  rcases bad_header_is_error _ _ m' v' hm' hv' hne rest with h | h
  · exact ⟨_, learnChunks_bad _ _ learnFile pre preEs hpre _ _ h post w⟩
  · exact ⟨_, learnChunks_bad _ _ learnFile pre preEs hpre _ _ h post w⟩

/-- the Python reader rejects it as well (before yielding any event) -/
theorem bad_header_rejected_py (m' v' : Nat) (hm' : m' < 4294967296) (hv' : v' < 4294967296)
    (hne : m' ≠ Generated.pyMagic ∨ v' ≠ Generated.pyVersion) (rest : Bytes) :
    ∃ e, decodeChunkPy Generated.pyMagic Generated.pyVersion (u32le m' ++ (u32le v' ++ rest)) = .error e :=
  bad_header_is_error_py _ _ m' v' hm' hv' hne rest

/-- and a list of good chunks is consumed completely, without error -/
theorem good_chunks_consumed {σ : Type} (learnFile : σ → List (Event Nat Nat) → σ)
    (ess : List (List (Event Nat Nat))) (hn : ∀ es ∈ ess, es.length < 4294967296 ∧ Wf32 es) (w : σ) :
    learnChunks Generated.kernelMagic Generated.kernelVersion learnFile
      (ess.map (encodeChunk Generated.pyMagic Generated.pyVersion)) w = (ess.foldl learnFile w, none) := by
  apply learnChunks_good
  induction ess with
  | nil => exact List.Forall₂.nil
  | cons es ess ih =>
    refine List.Forall₂.cons ?_ (ih (fun x hx => hn x (by simp [hx])))
    have h := kernel_decode_encode es (hn es (by simp)).1 (hn es (by simp)).2
    cases hd : decodeChunkKernel Generated.kernelMagic Generated.kernelVersion
        (encodeChunk Generated.pyMagic Generated.pyVersion es) with
    | error e => rw [hd] at h; cases h
    | ok r =>
      rw [hd] at h
      simp only [Except.map, Except.ok.injEq] at h
      exact ⟨r.2, by rw [← h]⟩

/-! non-vacuity: an event with 3000 cues and one without outcomes satisfy `Wf32`,
and a concrete chunk round-trips byte for byte. -/
example : Wf32 [⟨List.range 3000, [5]⟩, ⟨[7, 7], []⟩] := by
  intro e he
  simp only [List.mem_cons, List.not_mem_nil, or_false] at he
  rcases he with rfl | rfl
  · exact ⟨fun i hi => by simp at hi; omega, by intro i hi; simp at hi; omega, by simp, by simp⟩
  · exact ⟨fun i hi => by simp at hi; omega, by intro i hi; simp at hi, by simp, by simp⟩

example : decodeChunkPy 14159265 2263 (encodeChunk 14159265 2263 [⟨[1, 2], [3]⟩, ⟨[70000], []⟩])
    = .ok [⟨[1, 2], [3]⟩, ⟨[70000], []⟩] := by decide +kernel

end Pyndl.C06
