/-
  C20 — Band sampling returns a valid sub-table; frequency tables persist exactly.

  Property theorems only (helper lemmas live in PyndlProofs/Band.lean).

  Model: `Pyndl.Band.bandsampleShuffled shuffled sampleSize` is
  `pyndl.preprocess.bandsample` after line 39, where `shuffled` is the filtered
  item list as `rand.shuffle` left it.  Every theorem below takes `shuffled` as
  an ARBITRARY permutation of `filterCutoff cutoff population`, so it holds for
  whatever the random generator does.

  The structural theorems (`band_terminates`, `band_sub`, `band_cutoff`,
  `band_multiset`, `band_nodup`, `band_counter`) use NO property of the scalar
  type: they hold for any `+ - /` and any decidable `≤` whatsoever — in
  particular for IEEE doubles with their rounding.  Only `band_size` needs a
  linearly ordered field (ℚ, ℝ).

  `band_pure` (the argument is left unchanged): `bandsampleShuffled` is a pure
  function of immutable lists — there is no store the model could write to, so
  there is nothing to state in Lean; the claim about the Python object is
  carried by the differential run only (`arg_unchanged` in harness/run_C20.py).
-/
import PyndlProofs.Band

namespace Pyndl.C20
open Pyndl.Band List

section Structural
variable {α R : Type} [Add R] [Sub R] [Div R] [Zero R] [NatCast R] [LE R] [DecidableLE R]

/-- **band_terminates.** For every shuffled population and every
    `sample_size ≥ 1` the walk returns a sample: the iteration budget
    `2·|population| + 1` (measure `2·|population| − index`, which strictly
    decreases in every iteration of the outer loop) is never exhausted and the
    back-walk never indexes out of range. -/
theorem band_terminates (shuffled : List (α × R)) (sampleSize : Nat) (h : 1 ≤ sampleSize) :
    ∃ sample, bandsampleShuffled shuffled sampleSize = .ok sample := by
  obtain ⟨s, _, hok⟩ := bandsampleShuffled_ok (R := R) shuffled sampleSize (by omega)
  exact ⟨s.sample, hok⟩

/-- the budget is irrelevant once it covers the measure: any larger budget gives the same final state -/
theorem band_fuel_irrelevant (step : R) (pop : List (α × R)) (k : Nat) :
    walk step (walkFuel pop + k) ⟨pop, 0, 0, []⟩ = walk step (walkFuel pop) ⟨pop, 0, 0, []⟩ := by
  obtain ⟨s, hs⟩ := walk_terminates step (walkFuel pop) ⟨pop, 0, 0, []⟩ (Nat.zero_le _)
    (by simp only [walkFuel]; omega)
  rw [hs]
  exact walk_fuel_mono step _ _ _ k hs

/-- `sample_size = 0` is the `ZeroDivisionError` of line 42 -/
theorem band_zero_size (shuffled : List (α × R)) : bandsampleShuffled shuffled 0 = .zeroDivision := rfl

/-- **band_multiset.** The picks, together with some rest, are a permutation of
    the filtered population: every pick is a distinct *position* of the table
    (each pick deletes its entry), nothing is invented, nothing is duplicated. -/
theorem band_multiset (population shuffled : List (α × R)) (cutoff : R) (sampleSize : Nat)
    (hshuffle : shuffled ~ filterCutoff cutoff population) (sample : List (α × R))
    (h : bandsampleShuffled shuffled sampleSize = .ok sample) :
    ∃ rest, sample ++ rest ~ filterCutoff cutoff population := by
  obtain ⟨rest, hr⟩ := sample_rest_perm shuffled sampleSize sample h
  exact ⟨rest, hr.trans hshuffle⟩

/-- **band_sub.** Every returned `(word, freq)` is an entry of the population,
    with its original frequency. -/
theorem band_sub (population shuffled : List (α × R)) (cutoff : R) (sampleSize : Nat)
    (hshuffle : shuffled ~ filterCutoff cutoff population) (sample : List (α × R))
    (h : bandsampleShuffled shuffled sampleSize = .ok sample) :
    ∀ e ∈ sample, e ∈ population := by
  obtain ⟨rest, hr⟩ := band_multiset population shuffled cutoff sampleSize hshuffle sample h
  intro e he
  exact ((mem_filterCutoff cutoff population e).mp (hr.mem_iff.mp (mem_append_left _ he))).1

/-- **band_cutoff.** Every returned frequency is at or above the cutoff. -/
theorem band_cutoff (population shuffled : List (α × R)) (cutoff : R) (sampleSize : Nat)
    (hshuffle : shuffled ~ filterCutoff cutoff population) (sample : List (α × R))
    (h : bandsampleShuffled shuffled sampleSize = .ok sample) :
    ∀ e ∈ sample, cutoff ≤ e.2 := by
  obtain ⟨rest, hr⟩ := band_multiset population shuffled cutoff sampleSize hshuffle sample h
  intro e he
  exact ((mem_filterCutoff cutoff population e).mp (hr.mem_iff.mp (mem_append_left _ he))).2

/-- **band_nodup.** The population is a dict (its words are pairwise distinct),
    so no word is returned twice. -/
theorem band_nodup (population shuffled : List (α × R)) (cutoff : R) (sampleSize : Nat)
    (hkeys : (population.map Prod.fst).Nodup)
    (hshuffle : shuffled ~ filterCutoff cutoff population) (sample : List (α × R))
    (h : bandsampleShuffled shuffled sampleSize = .ok sample) :
    (sample.map Prod.fst).Nodup := by
  obtain ⟨rest, hr⟩ := band_multiset population shuffled cutoff sampleSize hshuffle sample h
  have hsub : (filterCutoff cutoff population).map Prod.fst <+ population.map Prod.fst :=
    (filter_sublist (l := population)).map Prod.fst
  have h1 : ((sample ++ rest).map Prod.fst).Nodup := (hr.map Prod.fst).nodup_iff.mpr (hkeys.sublist hsub)
  rw [map_append] at h1
  exact (nodup_append.mp h1).1

/-- **band_counter.** Hence the `Counter` built at line 75 has exactly the picked entries. -/
theorem band_counter [DecidableEq α] (population shuffled : List (α × R)) (cutoff : R) (sampleSize : Nat)
    (hkeys : (population.map Prod.fst).Nodup)
    (hshuffle : shuffled ~ filterCutoff cutoff population) (sample : List (α × R))
    (h : bandsampleShuffled shuffled sampleSize = .ok sample) :
    toDict sample = sample :=
  toDict_of_nodup sample (band_nodup population shuffled cutoff sampleSize hkeys hshuffle sample h)

end Structural

section Size
variable {α R : Type} [Field R] [LinearOrder R] [IsStrictOrderedRing R]

/-- **band_size.** Over a linearly ordered field, when every retained
    frequency is positive, at most `sample_size` words are picked (and the
    returned Counter has at most that many entries).  Invariant
    (`Pyndl.Band.SizeInv`): the accumulator is never negative and
    `picks · step + accumulator = Σ picked + Σ passed-over`, which never exceeds
    `total = sample_size · step`.  Without positivity the claim is false:
    with `total = 0` the step is 0 and every word is picked (see the example
    below). -/
theorem band_size [DecidableEq α] (population shuffled : List (α × R)) (cutoff : R) (sampleSize : Nat)
    (hpos : ∀ e ∈ population, cutoff ≤ e.2 → 0 < e.2)
    (hshuffle : shuffled ~ filterCutoff cutoff population) (sample : List (α × R))
    (h : bandsampleShuffled shuffled sampleSize = .ok sample) :
    sample.length ≤ sampleSize ∧ (toDict sample).length ≤ sampleSize := by
  have hpos' : ∀ e ∈ shuffled, 0 < e.2 := by
    intro e he
    obtain ⟨h1, h2⟩ := (mem_filterCutoff cutoff population e).mp (hshuffle.mem_iff.mp he)
    exact hpos e h1 h2
  have := sample_length_le shuffled sampleSize sample hpos' h
  exact ⟨this, Nat.le_trans (toDict_length_le sample) this⟩

end Size

/-- **load_save.** For every counter whose keys are pairwise distinct and free
    of TAB, LF and CR — including the empty key and keys with surrounding or
    inner spaces — and every header line, `load_counter` reads back from the
    text `save_counter` wrote exactly the entries `most_common()` listed … -/
theorem load_save (hdr : Str) (c : List (Str × Int))
    (hh : '\n' ∉ hdr ∧ '\r' ∉ hdr)
    (hk : ∀ e ∈ c, '\t' ∉ e.1 ∧ '\n' ∉ e.1 ∧ '\r' ∉ e.1)
    (hnd : (c.map Prod.fst).Nodup) :
    loadCounter (saveCounter (hdr ++ ['\n']) c) = some (mostCommon c) := by
  have hp := mostCommon_perm c
  have h1 : ∀ e ∈ mostCommon c, '\t' ∉ e.1 ∧ '\n' ∉ e.1 ∧ '\r' ∉ e.1 :=
    fun e he => hk e (hp.mem_iff.mp he)
  have h2 : ((mostCommon c).map Prod.fst).Nodup := (hp.map Prod.fst).nodup_iff.mpr hnd
  exact loadCounter_lines hdr (mostCommon c) hh h1 h2

/-- … and those are the items of the counter (as a dict: same entries, order irrelevant). -/
theorem load_save_items (c : List (Str × Int)) : mostCommon c ~ c := mostCommon_perm c

/-! ## Non-vacuity

Concrete runs over `ℤ` (integer step; words are `Nat`s).  Population
`{0:5, 1:1, 2:3, 3:3, 4:20}`, cutoff 2, shuffled order `4,3,0,2` (word 1 is
filtered), `sample_size = 2`: sorted `3:3, 2:3, 0:5, 4:20` (stable: 3 before
2), total 31, step 15; the walk picks 4 (accumulator 31 → 16) and then, walking
back, 0 (16 → 1). -/

example :
    let population : List (Nat × Int) := [(0, 5), (1, 1), (2, 3), (3, 3), (4, 20)]
    let shuffled : List (Nat × Int) := [(4, 20), (3, 3), (0, 5), (2, 3)]
    shuffled ~ filterCutoff 2 population ∧
    sortByFreq shuffled = [(3, 3), (2, 3), (0, 5), (4, 20)] ∧
    bandsampleShuffled shuffled 2 = .ok [(4, 20), (0, 5)] := by
  refine ⟨?_, by decide +kernel, by decide +kernel⟩
  decide +kernel

/-- `band_size` needs positive frequencies: all-zero table, cutoff 0, `sample_size = 1` returns both words -/
example : bandsampleShuffled ([(0, 0), (1, 0)] : List (Nat × Int)) 1 = .ok [(0, 0), (1, 0)] := by
  decide +kernel

/-- round trip of a counter with the empty key, a key with surrounding spaces and tied counts -/
example :
    let c : List (Str × Int) := [(['a'], 3), ([], 5), ([' ', 'b', ' '], 3), (['c'], -12)]
    mostCommon c = [([], 5), (['a'], 3), ([' ', 'b', ' '], 3), (['c'], -12)] ∧
    saveCounter "key\tfreq\n".toList c = "key\tfreq\n\t5\na\t3\n b \t3\nc\t-12\n".toList ∧
    loadCounter (saveCounter "key\tfreq\n".toList c) = some (mostCommon c) := by
  decide +kernel

/-- a repeated key is rejected (`ValueError`), as is a key containing a TAB -/
example : loadCounter "h\na\t1\na\t2\n".toList = none ∧ loadCounter "h\na\tb\t1\n".toList = none := by
  decide +kernel

end Pyndl.C20
