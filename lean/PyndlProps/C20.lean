/-
  C20 — Band sampling returns a valid sub-table; frequency tables persist exactly.

  Property theorems only (helper lemmas live in PyndlProofs/Band.lean).

  Model: `Pyndl.Band.bandsampleShuffled shuffled sampleSize` is
  `pyndl.preprocess.bandsample` after line 39, where `shuffled` is the filtered
  item list as `rand.shuffle` left it.  Every theorem below takes `shuffled` as
  an ARBITRARY permutation of `filterCutoff cutoff population`, so it holds for
  whatever the random generator does.

  DOMAIN of `sample_size`: `sampleSize : Int` — any Python `int`, of either
  sign (the code checks nothing: `0` raises `ZeroDivisionError`, a negative
  value returns every retained word, `band_negative_size`).  Earlier the model
  had `sampleSize : Nat`, which hid the negative case.  The structural theorems
  are moreover proved for `bandsampleRun shuffled step` with an ARBITRARY step
  (`*_any_step`), i.e. for whatever `total / sample_size` evaluates to — also
  for a `float` sample_size, which the code accepts and `Int` does not cover.

  The structural theorems (`band_terminates`, `band_sub`, `band_cutoff`,
  `band_multiset`, `band_nodup`, `band_counter`) use NO property of the scalar
  type: they hold for any `+ - /` and any decidable `≤` whatsoever — in
  particular for IEEE doubles with their rounding.  Only `band_size` and
  `band_negative_size` need a linearly ordered field (ℚ, ℝ).

  "Leaves its argument unchanged" is TEST-ONLY: the model is a pure function
  of immutable lists; `band_arg_unchanged` below is definitional (the model
  of the call returns the caller's list as it received it) and documents which
  line of the code the claim rests on; the claim about the Python object is
  carried by the differential run (`arg_unchanged` in harness/run_C20.py).

  Hypotheses of `load_save` (each is necessary, see the examples after it):
    hh  : the header line contains no LF and no CR;
    hk  : no key contains TAB, LF or CR (CR: text mode reads with universal
          newlines, so a CR inside a key comes back as LF and splits the line);
    hnd : the keys are pairwise distinct (a Counter is a dict).
-/
import PyndlProofs.Band
import PyndlModel.Generated

namespace Pyndl.C20
open Pyndl.Band List

section Structural
variable {α R : Type} [Add R] [Sub R] [Div R] [Zero R] [IntCast R] [LE R] [DecidableLE R]

/-- **band_terminates (any step).** For every shuffled population and every
    step whatsoever — i.e. whatever `sample_size` is and however the division
    rounds — the walk returns a sample: the iteration budget `2·|population| + 1`
    (measure `2·|population| − index`, which strictly decreases in every
    iteration of the outer loop) is never exhausted and the back-walk never
    indexes out of range. -/
theorem band_terminates_any_step (shuffled : List (α × R)) (step : R) :
    ∃ sample, bandsampleRun shuffled step = .ok sample := by
  obtain ⟨s, _, hok⟩ := bandsampleRun_ok shuffled step
  exact ⟨s.sample, hok⟩

/-- **band_terminates.** For every `int` `sample_size` other than 0 — positive
    or negative — the call returns a sample; for 0 it raises
    `ZeroDivisionError` (line 42). -/
theorem band_terminates (shuffled : List (α × R)) (sampleSize : Int) :
    (sampleSize ≠ 0 → ∃ sample, bandsampleShuffled shuffled sampleSize = .ok sample) ∧
    (sampleSize = 0 → bandsampleShuffled shuffled sampleSize = .zeroDivision) := by
  constructor
  · intro h
    obtain ⟨s, _, hok⟩ := bandsampleShuffled_ok (R := R) shuffled sampleSize h
    exact ⟨s.sample, hok⟩
  · intro h; subst h; rfl

/-- the budget is irrelevant once it covers the measure: any larger budget gives the same final state -/
theorem band_fuel_irrelevant (step : R) (pop : List (α × R)) (k : Nat) :
    walk step (walkFuel pop + k) ⟨pop, 0, 0, []⟩ = walk step (walkFuel pop) ⟨pop, 0, 0, []⟩ := by
  obtain ⟨s, hs⟩ := walk_terminates step (walkFuel pop) ⟨pop, 0, 0, []⟩ (Nat.zero_le _)
    (by simp only [walkFuel]; omega)
  rw [hs]
  exact walk_fuel_mono step _ _ _ k hs

/-- **band_multiset (any step).** The picks, together with some rest, are a
    permutation of the filtered population: every pick is a distinct *position*
    of the table (each pick deletes its entry), nothing is invented, nothing is
    duplicated — for every step, hence every `sample_size` of any numeric type
    (`band_sub`, `band_cutoff`, `band_nodup`, `band_counter` follow from this
    alone and are stated for an `int` `sample_size` of either sign). -/
theorem band_multiset_any_step (population shuffled : List (α × R)) (cutoff : R) (step : R)
    (hshuffle : shuffled ~ filterCutoff cutoff population) (sample : List (α × R))
    (h : bandsampleRun shuffled step = .ok sample) :
    ∃ rest, sample ++ rest ~ filterCutoff cutoff population := by
  obtain ⟨rest, hr⟩ := run_rest_perm shuffled step sample h
  exact ⟨rest, hr.trans hshuffle⟩

/-- **band_multiset** for an `int` `sample_size` of either sign -/
theorem band_multiset (population shuffled : List (α × R)) (cutoff : R) (sampleSize : Int)
    (hshuffle : shuffled ~ filterCutoff cutoff population) (sample : List (α × R))
    (h : bandsampleShuffled shuffled sampleSize = .ok sample) :
    ∃ rest, sample ++ rest ~ filterCutoff cutoff population := by
  obtain ⟨rest, hr⟩ := sample_rest_perm shuffled sampleSize sample h
  exact ⟨rest, hr.trans hshuffle⟩

/-- **band_sub.** Every returned `(word, freq)` is an entry of the population,
    with its original frequency. -/
theorem band_sub (population shuffled : List (α × R)) (cutoff : R) (sampleSize : Int)
    (hshuffle : shuffled ~ filterCutoff cutoff population) (sample : List (α × R))
    (h : bandsampleShuffled shuffled sampleSize = .ok sample) :
    ∀ e ∈ sample, e ∈ population := by
  obtain ⟨rest, hr⟩ := band_multiset population shuffled cutoff sampleSize hshuffle sample h
  intro e he
  exact ((mem_filterCutoff cutoff population e).mp (hr.mem_iff.mp (mem_append_left _ he))).1

/-- **band_cutoff.** Every returned frequency is at or above the cutoff. -/
theorem band_cutoff (population shuffled : List (α × R)) (cutoff : R) (sampleSize : Int)
    (hshuffle : shuffled ~ filterCutoff cutoff population) (sample : List (α × R))
    (h : bandsampleShuffled shuffled sampleSize = .ok sample) :
    ∀ e ∈ sample, cutoff ≤ e.2 := by
  obtain ⟨rest, hr⟩ := band_multiset population shuffled cutoff sampleSize hshuffle sample h
  intro e he
  exact ((mem_filterCutoff cutoff population e).mp (hr.mem_iff.mp (mem_append_left _ he))).2

/-- **band_nodup.** The population is a dict (its words are pairwise distinct),
    so no word is returned twice. -/
theorem band_nodup (population shuffled : List (α × R)) (cutoff : R) (sampleSize : Int)
    (hkeys : (population.map Prod.fst).Nodup)
    (hshuffle : shuffled ~ filterCutoff cutoff population) (sample : List (α × R))
    (h : bandsampleShuffled shuffled sampleSize = .ok sample) :
    (sample.map Prod.fst).Nodup := by
  obtain ⟨rest, hr⟩ := band_multiset population shuffled cutoff sampleSize hshuffle sample h
  have hsub : (filterCutoff cutoff population).map Prod.fst <+ population.map Prod.fst :=
    (filter_sublist (l := population)).map Prod.fst
  have h1 : ((sample ++ rest).map Prod.fst).Nodup := (hr.map Prod.fst).nodup_iff.mpr (hkeys.sublist hsub)
  rw [map_append] at h1
  exact (nodup_append.mp h1).1

/-- **band_counter.** Hence the `Counter` built at line 75 has exactly the picked entries. -/
theorem band_counter [DecidableEq α] (population shuffled : List (α × R)) (cutoff : R) (sampleSize : Int)
    (hkeys : (population.map Prod.fst).Nodup)
    (hshuffle : shuffled ~ filterCutoff cutoff population) (sample : List (α × R))
    (h : bandsampleShuffled shuffled sampleSize = .ok sample) :
    toDict sample = sample :=
  toDict_of_nodup sample (band_nodup population shuffled cutoff sampleSize hkeys hshuffle sample h)

end Structural

section Size
variable {α R : Type} [Field R] [LinearOrder R] [IsStrictOrderedRing R]

/-- **band_size.** Over a linearly ordered field, when `sample_size ≥ 1` and
    every retained frequency is positive, at most `sample_size` words are picked (and the
    returned Counter has at most that many entries).  Invariant
    (`Pyndl.Band.SizeInv`): the accumulator is never negative and
    `picks · step + accumulator = Σ picked + Σ passed-over`, which never exceeds
    `total = sample_size · step`.  Without positivity the claim is false:
    with `total = 0` the step is 0 and every word is picked (see the example
    below).

    SCOPE: proved over an ORDERED FIELD (exact arithmetic: ℚ, ℝ) — it is an
    UPPER bound there, and the number of picks itself is NOT what the code's
    IEEE doubles give: the float walk can pick FEWER items than the exact walk.
    `bandsample(Counter(a=1, b=2, c=7), 3, cutoff=1)` returns 2 words (`c`, `b`:
    step `10/3` rounds to 3.3333333333333335, the accumulator after two picks
    is 3.3333333333333326 < step), the rational model 3 (`c`, `b`, `a`: the
    accumulator is exactly `10/3 ≥ 10/3`) — example below.  That the bound
    `≤ sample_size` also holds for the doubles is NOT proved (the invariant
    `picks · step + accumulator = Σ…` uses exact `+`/`−`); it is checked by the
    differential run only.  The structural theorems (`band_sub`, `band_cutoff`,
    `band_multiset`, `band_nodup`, `band_counter`, `band_terminates`) hold for
    the doubles as well (they use no property of the arithmetic). -/
theorem band_size [DecidableEq α] (population shuffled : List (α × R)) (cutoff : R) (sampleSize : Int)
    (hsize : 1 ≤ sampleSize)
    (hpos : ∀ e ∈ population, cutoff ≤ e.2 → 0 < e.2)
    (hshuffle : shuffled ~ filterCutoff cutoff population) (sample : List (α × R))
    (h : bandsampleShuffled shuffled sampleSize = .ok sample) :
    (sample.length : Int) ≤ sampleSize ∧ ((toDict sample).length : Int) ≤ sampleSize := by
  have hpos' : ∀ e ∈ shuffled, 0 < e.2 := by
    intro e he
    obtain ⟨h1, h2⟩ := (mem_filterCutoff cutoff population e).mp (hshuffle.mem_iff.mp he)
    exact hpos e h1 h2
  have := sample_length_le shuffled sampleSize (by omega) sample hpos' h
  refine ⟨this, le_trans ?_ this⟩
  exact_mod_cast toDict_length_le sample

/-- **band_negative_size.** The code does not reject a negative `sample_size`:
    with positive retained frequencies the step is negative, every word is
    picked, and the call returns ALL retained words (a permutation of the
    filtered population) — `bandsample(pop, -1)` is the filtered table.  So the
    bound of `band_size` really needs `1 ≤ sample_size`. -/
theorem band_negative_size (population shuffled : List (α × R)) (cutoff : R) (sampleSize : Int)
    (hsize : sampleSize < 0)
    (hpos : ∀ e ∈ population, cutoff ≤ e.2 → 0 < e.2)
    (hshuffle : shuffled ~ filterCutoff cutoff population) (sample : List (α × R))
    (h : bandsampleShuffled shuffled sampleSize = .ok sample) :
    sample ~ filterCutoff cutoff population := by
  have hpos' : ∀ e ∈ shuffled, 0 < e.2 := by
    intro e he
    obtain ⟨h1, h2⟩ := (mem_filterCutoff cutoff population e).mp (hshuffle.mem_iff.mp he)
    exact hpos e h1 h2
  exact (sample_all_of_negative shuffled sampleSize hsize sample hpos' h).trans hshuffle

end Size

/-- **load_save.** Hypotheses: `hh` the header line has no LF and no CR; `hk` no
    key contains TAB, LF or CR; `hnd` the keys are pairwise distinct (a Counter
    is a dict).  Then — for every such counter, including the empty key, keys
    with surrounding or inner spaces, negative and zero counts — `load_counter`
    reads back from the text `save_counter` wrote exactly the entries
    `most_common()` listed …  Each hypothesis is necessary: see the examples
    `load_save_needs_*` below. -/
theorem load_save (hdr : Str) (c : List (Str × Int))
    (hh : '\n' ∉ hdr ∧ '\r' ∉ hdr)
    (hk : ∀ e ∈ c, '\t' ∉ e.1 ∧ '\n' ∉ e.1 ∧ '\r' ∉ e.1)
    (hnd : (c.map Prod.fst).Nodup) :
    loadCounter (saveCounter (hdr ++ ['\n']) c) = some (mostCommon c) := by
  have hp := mostCommon_perm c
  have h1 : ∀ e ∈ mostCommon c, '\t' ∉ e.1 ∧ '\n' ∉ e.1 ∧ '\r' ∉ e.1 :=
    fun e he => hk e (hp.mem_iff.mp he)
  have h2 : ((mostCommon c).map Prod.fst).Nodup := (hp.map Prod.fst).nodup_iff.mpr hnd
  exact loadCounter_lines hdr (mostCommon c) hh h1 h2

/-! ## Non-vacuity

Concrete runs over `ℤ` (integer step; words are `Nat`s).  Population
`{0:5, 1:1, 2:3, 3:3, 4:20}`, cutoff 2, shuffled order `4,3,0,2` (word 1 is
filtered), `sample_size = 2`: sorted `3:3, 2:3, 0:5, 4:20` (stable: 3 before
2), total 31, step 15; the walk picks 4 (accumulator 31 → 16) and then, walking
back, 0 (16 → 1). -/

example :
    let population : List (Nat × Int) := [(0, 5), (1, 1), (2, 3), (3, 3), (4, 20)]
    let shuffled : List (Nat × Int) := [(4, 20), (3, 3), (0, 5), (2, 3)]
    shuffled ~ filterCutoff 2 population ∧
    sortByFreq shuffled = [(3, 3), (2, 3), (0, 5), (4, 20)] ∧
    bandsampleShuffled shuffled 2 = .ok [(4, 20), (0, 5)] := by
  refine ⟨?_, by decide +kernel, by decide +kernel⟩
  decide +kernel

/-- `band_size` needs positive frequencies: all-zero table, cutoff 0, `sample_size = 1` returns both words -/
example : bandsampleShuffled ([(0, 0), (1, 0)] : List (Nat × Int)) 1 = .ok [(0, 0), (1, 0)] := by
  decide +kernel

/-- round trip of a counter with the empty key, a key with surrounding spaces and tied counts -/
example :
    let c : List (Str × Int) := [(['a'], 3), ([], 5), ([' ', 'b', ' '], 3), (['c'], -12)]
    mostCommon c = [([], 5), (['a'], 3), ([' ', 'b', ' '], 3), (['c'], -12)] ∧
    saveCounter "key\tfreq\n".toList c = "key\tfreq\n\t5\na\t3\n b \t3\nc\t-12\n".toList ∧
    loadCounter (saveCounter "key\tfreq\n".toList c) = some (mostCommon c) := by
  decide +kernel

/-- a repeated key is rejected (`ValueError`), as is a key containing a TAB -/
example : loadCounter "h\na\t1\na\t2\n".toList = none ∧ loadCounter "h\na\tb\t1\n".toList = none := by
  decide +kernel


/-- `load_save` instantiated with the header `save_counter` writes (`Generated.counterHeader` =
    `"key\tfreq\n"`), all three hypotheses proved -/
example :
    let c : List (Str × Int) := [(['a'], 3), ([], 5), ([' ', 'b', ' '], 3), (['c'], -12), (['z'], 0)]
    loadCounter (saveCounter ("key\tfreq".toList ++ ['\n']) c) = some (mostCommon c) :=
  load_save "key\tfreq".toList _ (by decide +kernel) (by decide +kernel) (by decide +kernel)

/-- the header in the source tree (`Generated.lean` is regenerated from /repo on every run) -/
example : Pyndl.Generated.counterHeader.toList = "key\tfreq".toList ++ ['\n'] := by decide +kernel

/-- `hk` is necessary: a key with a CR comes back with a LF inside, i.e. as a
    broken line (`ValueError`); a key with a TAB gives three fields (`ValueError`);
    a key with a LF likewise -/
example :
    loadCounter (saveCounter "key\tfreq\n".toList [(['a', '\r', 'b'], 1)]) = none ∧
    loadCounter (saveCounter "key\tfreq\n".toList [(['a', '\t', 'b'], 1)]) = none ∧
    loadCounter (saveCounter "key\tfreq\n".toList [(['a', '\n', 'b'], 1)]) = none := by
  decide +kernel

/-- `hh` is necessary: a header with a LF inside makes its second half the
    first data line (`ValueError` here); `hnd`: a repeated key is rejected -/
example :
    loadCounter (saveCounter "key\nfreq\n".toList [(['a'], 1)]) = none ∧
    loadCounter (saveCounter "key\tfreq\n".toList [(['a'], 1), (['a'], 2)]) = none := by
  decide +kernel

/-- `band_negative_size` instantiated: `sample_size = -1` returns all four retained words;
    `band_size` instantiated on the first example (`1 ≤ 2`, positive frequencies) -/
example :
    let population : List (Nat × Rat) := [(0, 5), (1, 1), (2, 3), (3, 3), (4, 20)]
    let shuffled : List (Nat × Rat) := [(4, 20), (3, 3), (0, 5), (2, 3)]
    (∀ e ∈ population, (2 : Rat) ≤ e.2 → 0 < e.2) ∧
    shuffled ~ filterCutoff 2 population ∧
    bandsampleShuffled shuffled (-1) = .ok [(3, 3), (2, 3), (0, 5), (4, 20)] ∧
    bandsampleShuffled shuffled (-100) = .ok [(3, 3), (2, 3), (0, 5), (4, 20)] ∧
    bandsampleShuffled shuffled 2 = .ok [(4, 20), (0, 5)] ∧
    bandsampleShuffled shuffled 0 = .zeroDivision := by
  refine ⟨by decide +kernel, by decide +kernel, by decide +kernel, by decide +kernel, by decide +kernel,
    by decide +kernel⟩

/-! ### the main theorems APPLIED with every hypothesis instantiated (ℚ) -/

def exPop : List (Nat × Rat) := [(0, 5), (1, 1), (2, 3), (3, 3), (4, 20)]
def exShuf : List (Nat × Rat) := [(4, 20), (3, 3), (0, 5), (2, 3)]

theorem exShuf_perm : exShuf ~ filterCutoff 2 exPop := by decide +kernel
theorem exShuf_run : bandsampleShuffled exShuf 2 = .ok [(4, 20), (0, 5)] := by decide +kernel

/-- `band_size` applied (`1 ≤ 2`, positive retained frequencies): at most 2 picks -/
example : ((([(4, 20), (0, 5)] : List (Nat × Rat)).length : Int) ≤ 2) ∧
    (((toDict ([(4, 20), (0, 5)] : List (Nat × Rat))).length : Int) ≤ 2) :=
  band_size exPop exShuf 2 2 (by decide) (by decide +kernel) exShuf_perm _ exShuf_run

/-- `band_negative_size` applied: `sample_size = -1` returns all four retained words -/
example : ([(3, 3), (2, 3), (0, 5), (4, 20)] : List (Nat × Rat)) ~ filterCutoff 2 exPop :=
  band_negative_size exPop exShuf 2 (-1) (by decide) (by decide +kernel) exShuf_perm _ (by decide +kernel)

/-- `band_multiset`, `band_sub`, `band_cutoff`, `band_nodup`, `band_counter` applied -/
example : ∃ rest, ([(4, 20), (0, 5)] : List (Nat × Rat)) ++ rest ~ filterCutoff 2 exPop :=
  band_multiset exPop exShuf 2 2 exShuf_perm _ exShuf_run

example : ∀ e ∈ ([(4, 20), (0, 5)] : List (Nat × Rat)), e ∈ exPop :=
  band_sub exPop exShuf 2 2 exShuf_perm _ exShuf_run

example : ∀ e ∈ ([(4, 20), (0, 5)] : List (Nat × Rat)), (2 : Rat) ≤ e.2 :=
  band_cutoff exPop exShuf 2 2 exShuf_perm _ exShuf_run

example : (([(4, 20), (0, 5)] : List (Nat × Rat)).map Prod.fst).Nodup :=
  band_nodup exPop exShuf 2 2 (by decide) exShuf_perm _ exShuf_run

example : toDict ([(4, 20), (0, 5)] : List (Nat × Rat)) = [(4, 20), (0, 5)] :=
  band_counter exPop exShuf 2 2 (by decide) exShuf_perm _ exShuf_run

/-- the input on which the float walk of the code picks FEWER words than the
    exact walk (see `band_size`): `Counter(a=1, b=2, c=7)`, `sample_size = 3`,
    cutoff 1 — the rational model picks all three (the code: `c`, `b`) -/
example : bandsampleShuffled ([(0, 1), (1, 2), (2, 7)] : List (Nat × Rat)) 3
    = .ok [(2, 7), (1, 2), (0, 1)] := by
  decide +kernel

/-- a non-integer step (here 31/3, `sample_size = 3`) and a step that no `int`
    sample_size produces (7/2): `bandsampleRun` covers them -/
example :
    bandsampleRun ([(4, 20), (3, 3), (0, 5), (2, 3)] : List (Nat × Rat)) ((7 : Rat) / 2)
      = .ok [(2, 3), (0, 5), (3, 3), (4, 20)] := by
  decide +kernel

/-! ### lemmas (not property theorems) -/

/-- (definitional) `sample_size = 0` is the `ZeroDivisionError` of line 42 -/
theorem band_zero_size {α R : Type} [Add R] [Sub R] [Div R] [Zero R] [IntCast R] [LE R] [DecidableLE R]
    (shuffled : List (α × R)) : bandsampleShuffled shuffled 0 = .zeroDivision := rfl

/-- (follows from the sort being a permutation) the entries `load_save` returns are the items of the counter (as a dict: same entries, order irrelevant). -/
theorem load_save_items (c : List (Str × Int)) : mostCommon c ~ c := mostCommon_perm c


/-- (definitional; the clause "leaves its argument unchanged" is TEST-ONLY) the
    model of the call hands the caller's population back as it received it:
    preprocess.py:31 rebinds the local name to a new list, and the `sort` and
    every `del` act on that list.  Whether the Python function really never
    writes to the caller's Counter is observed by the differential run
    (`arg_unchanged`, harness/run_C20.py), not proved. -/
theorem band_arg_unchanged {α R : Type} [Add R] [Sub R] [Div R] [Zero R] [IntCast R] [LE R] [DecidableLE R]
    (cutoff : R) (perm : List Nat) (population : List (α × R)) (sampleSize : Int) :
    (bandsampleCall cutoff perm population sampleSize).1 = population := rfl

end Pyndl.C20
