/-
  C12 — Activations are the cue-wise sums of weights on every code path.
-/
import PyndlProofs.Activation

namespace Pyndl.C12
open Pyndl List

variable {R : Type} [CommRing R]

/-- **matrix paths (single- and multi-process)**: for every labelled matrix with
    duplicate-free outcome labels, every event whose (policy-processed) cues
    are labels, the activation of outcome `i` is the sum of its weights over
    the event's cues — each cue once under `True`/`None` (the set), with
    multiplicity under `False` (the list). -/
theorem act_eq_sum (w : LW R) (hn : w.outcomes.Nodup) (cs : List String)
    (hcs : ∀ c ∈ cs, c ∈ w.cues) (i : Nat) (hi : i < w.outcomes.length) :
    (actColumn w (cs.map (w.cues.idxOf ·))).getD i 0 = sumOver (w.get w.outcomes[i]) cs :=
  actColumn_eq_sum w hn cs hcs i hi

/-- which cues contribute under each duplicate policy -/
theorem act_cues_policy (cues : List String) :
    actCues .keep cues = .ok cues ∧ actCues .dedup cues = .ok (dedupKeepFirst cues) ∧
    (hasDup cues = true → actCues .error cues = .error .value) ∧
    (hasDup cues = false → actCues .error cues = .ok cues) := by
  refine ⟨rfl, rfl, ?_, ?_⟩ <;> intro h <;> simp [actCues, h]

/-- **missing cues**: with labelled-matrix weights an unknown cue raises
    `KeyError` unless `ignore_missing_cues`, in which case it contributes
    nothing (it is dropped from the index tuple). -/
theorem act_missing (ig : Bool) (labels cs : List String) :
    cueIndices ig labels cs =
      if !ig && cs.any (fun c => !labels.contains c) then .error .key
      else .ok ((cs.filter (fun c => labels.contains c)).map (labels.idxOf ·)) :=
  cueIndices_spec ig labels cs

/-- **dict path**: the same sum; a plain inner dict raises `KeyError` for a
    missing cue, a defaultdict contributes 0 -/
theorem act_dict_eq_sum (row : List (String × R)) (cs : List String) :
    dictRowAct false row cs = .ok (sumOver (alGet row) cs) ∧
    dictRowAct true row cs = (if cs.any (fun c => !(row.map (·.1)).contains c) then .error .key
      else .ok (sumOver (alGet row) cs)) :=
  ⟨dictRowAct_eq_sum row cs, dictRowAct_strict row cs⟩

/-- the dict path and the matrix path agree: a dict built from the labelled
    matrix gives the matrix' own sums -/
theorem paths_agree (w : LW R) (o : String) (cs : List String) :
    sumOver (alGet (wdRow (dictFromLW w) o)) cs = sumOver (w.get o) cs := by
  have : alGet (wdRow (dictFromLW w) o) = w.get o := by
    funext c; exact dictFromLW_abs w o c
  rw [this]

/-- **multi-process = single-process**: events are independent -/
theorem events_independent (p : DupPolicy) (ig : Bool) (w : LW R) (xs ys : List (List String))
    (a b : List (List R)) (ha : activationMatrix p ig w xs = .ok a) (hb : activationMatrix p ig w ys = .ok b) :
    activationMatrix p ig w (xs ++ ys) = .ok (a ++ b) :=
  activationMatrix_append p ig w xs ys a b ha hb

/-- **one further learning step** changes each present cue's weight by
    `multiplicity · α · β · (target − activation)` -/
theorem step_delta {ι κ : Type} [DecidableEq ι] [DecidableEq κ] (α : ι → R) (β₁ β₂ lam : R)
    (W : κ → ι → R) (e : Event ι κ) (o : κ) (c : ι) :
    rwStep α β₁ β₂ lam W e o c - W o c
      = (e.cues.count c : R) * (α c *
          (if o ∈ e.outcomes then β₁ * (lam - sumOver (W o) e.cues)
           else β₂ * (0 - sumOver (W o) e.cues))) :=
  Pyndl.step_delta α β₁ β₂ lam W e o c

/-! non-vacuity (ℤ): a 2×3 matrix, an event with a repeated cue under `keep` -/
example :
    let w : LW ℤ := ⟨["x", "y"], ["a", "b", "c"], #[1, 2, 3, 10, 20, 30]⟩
    actColumn w [0, 2, 2] = [7, 70] := by decide +kernel

end Pyndl.C12
