/-
  C12 — Activations are the cue-wise sums of weights on every code path.

  Main theorems
  * `activation_matrix_spec` — about `activationMatrix` ITSELF (the function that
    mirrors `activation()` on a labelled matrix): if it returns `M`, entry
    `(k, i)` of `M` is the sum of the weights of outcome `i` over what the
    duplicate policy and `ignore_missing_cues` leave of the cues of event `k`;
  * `activation_raises` / `activation_ok_iff` — the error cases: `ValueError` on
    a repeated cue under `remove_duplicates=None`, `KeyError` on a cue that is no
    label unless `ignore_missing_cues`; the first offending event decides;
  * `dict_step_delta`, `ndl_step_delta` — one more learning step of `dict_ndl` /
    `ndl.ndl` changes each present cue's weight by `α·β·(target − activation)`,
    the activation being the one the MODEL of `activation()` computes
    (`dictRowAct` / `activationMatrix`);
  * `act_dict_eq_sum`, `paths_agree`, `events_independent`.

  Hypotheses about labels (DESIGN §7): `w.outcomes.Nodup` (so that reading at the
  `i`-th outcome label reads row `i`) and `w.cues.Nodup` — the latter is NOT used
  by the proofs: the model looks a cue up at its FIRST position (`idxOf`), the
  code's `OrderedDict` at its LAST; with distinct cue labels both agree, so the
  hypothesis marks where the model is known to be the code.

  Multi-process path (`n_jobs >= 2`, PyndlModel/ActivationMP.lean): a flat shared
  buffer of `n_outcomes * n_events` cells, one task per event writing the cells
  `i * n_events + k` of its column, the tasks executed in an ARBITRARY completion
  order (a permutation of the event indices — `Pool.starmap` running every task
  exactly once is trusted, DESIGN §2):
  * `activation_mp_eq_single` — for every permutation and every initial buffer
    content the multi-process model returns/raises what `activationMatrix` does;
  * `mp_cells_written_once` — the run never stores outside the buffer, every
    flat cell is written exactly once, the reshaped buffer holds the
    single-process columns;
  * `activation_mp_spec` — hence the cue-wise sums of `activation_matrix_spec`;
  * `mp_store_outside_reported` / `mp_bad_order_reported` — a task index that is
    no event index (`n_events ≤ k`) is reported, for every number (≥ 1) of
    outcome rows;
  * under "lemmas (not property theorems)": `mp_initial_content_irrelevant`
    (a corollary by rewriting twice with `activation_mp_eq_single`) and
    `mp_dropped_tail_differs` (a kernel-checked EXAMPLE of a schedule that drops
    the last `len % n_jobs` events — seeded change C12_b —, not a theorem about
    all such schedules).

  EXACT ARITHMETIC / float64 (finding F15).  The multi-process theorems are
  about one scalar type `S` with one `+`: both paths add the same numbers in
  the same order.  The code as shipped cast the weights to float64 ONLY in the
  multi-process path (`np.float64(weights)`, activation.py:172) while the
  single-process path summed in the weights' own dtype: for non-float64
  weights (float32 `[[.1,.2,.3],[1e8,1,-1e8]]`: `n_jobs=1` gave
  `[[0.6000000238],[0.0]]`, `n_jobs=2` `[[0.6000000164],[1.0]]`) the two REAL
  paths differed in rounding.  `activation_mp_eq_single` says nothing about
  that: it is the statement for exact arithmetic, i.e. for the code on float64
  weights (where the cast is the identity).  The discrepancy is recorded as
  finding F15 and repaired in /repo (`sum(axis=1, dtype=np.float64)` in the
  single-process path, activation.py:167).
-/
import PyndlProofs.Activation
import PyndlProofs.ActivationMP
import PyndlModel.Generated

set_option linter.unusedVariables false  -- `hnc` delimits model = code, the proofs do not use it

namespace Pyndl.C12
open Pyndl List

variable {R : Type} [CommRing R]

/-- **`activationMatrix` = cue-wise sums of weights** (single- and multi-process
    matrix paths).  For every labelled matrix `w` with duplicate-free labels,
    every duplicate policy `p`, every `ignore_missing_cues`, every list of
    events: if the model of `activation()` returns `M` (rows = events, columns =
    outcomes; the code returns the transpose), then `M` has one row per event,
    every event was accepted (`actEventErr … = none`), every row has one entry
    per outcome, and
      `M[k][i] = Σ_{c ∈ contribCues p w.cues (cues of event k)} w[outcome i, c]`
    — each cue once under `True` (`.dedup`) and `None` (`.error`, where a
    repeated cue raises), with multiplicity under `False` (`.keep`); cues that
    are no label of `w` are dropped (only reachable with `ignore_missing_cues`). -/
theorem activation_matrix_spec (p : DupPolicy) (ig : Bool) (w : LW R) (hno : w.outcomes.Nodup)
    (hnc : w.cues.Nodup) (evs : List (List String)) (M : List (List R))
    (h : activationMatrix p ig w evs = .ok M) :
    M.length = evs.length ∧
    ∀ k (hk : k < evs.length),
      actEventErr p ig w.cues evs[k] = none ∧
      (M.getD k []).length = w.outcomes.length ∧
      ∀ i (hi : i < w.outcomes.length),
        (M.getD k []).getD i 0 = sumOver (w.get w.outcomes[i]) (contribCues p w.cues evs[k]) :=
  activationMatrix_spec p ig w hno hnc evs M h

/-- what "accepted" and "contributing" mean, case by case: an event is rejected
    with `ValueError` iff `remove_duplicates=None` and a cue repeats, else with
    `KeyError` iff missing cues are not ignored and a cue is no label; the
    contributing cues are the labels among the cues (de-duplicated under `True`) -/
theorem accepted_iff (p : DupPolicy) (ig : Bool) (labels cues : List String) :
    (actEventErr p ig labels cues = some .value ↔ p = .error ∧ hasDup cues = true) ∧
    (actEventErr p ig labels cues = some .key ↔
      ¬ (p = .error ∧ hasDup cues = true) ∧ ig = false ∧ ∃ c ∈ cues, c ∉ labels) ∧
    (actEventErr p ig labels cues = none ↔
      ¬ (p = .error ∧ hasDup cues = true) ∧ (ig = true ∨ ∀ c ∈ cues, c ∈ labels)) ∧
    contribCues .keep labels cues = cues.filter (fun c => labels.contains c) ∧
    contribCues .error labels cues = cues.filter (fun c => labels.contains c) ∧
    contribCues .dedup labels cues = (dedupKeepFirst cues).filter (fun c => labels.contains c) := by
  have hany : (cues.any (fun c => !labels.contains c) = true) ↔ ∃ c ∈ cues, c ∉ labels := by
    simp [List.any_eq_true]
  refine ⟨?_, ?_, ?_, rfl, rfl, rfl⟩
  · unfold actEventErr
    by_cases h1 : p = .error ∧ hasDup cues = true
    · simp [h1]
    · rw [if_neg h1]
      by_cases h2 : ig = false ∧ cues.any (fun c => !labels.contains c) = true
      · rw [if_pos h2]; simp [h1]
      · rw [if_neg h2]; simp [h1]
  · unfold actEventErr
    by_cases h1 : p = .error ∧ hasDup cues = true
    · rw [if_pos h1]; simp [h1]
    · rw [if_neg h1]
      by_cases h2 : ig = false ∧ cues.any (fun c => !labels.contains c) = true
      · rw [if_pos h2]
        exact ⟨fun _ => ⟨h1, h2.1, hany.mp h2.2⟩, fun _ => rfl⟩
      · rw [if_neg h2]
        constructor
        · intro h; cases h
        · rintro ⟨_, h3, h4⟩; exact absurd ⟨h3, hany.mpr h4⟩ h2
  · unfold actEventErr
    by_cases h1 : p = .error ∧ hasDup cues = true
    · rw [if_pos h1]; simp [h1]
    · rw [if_neg h1]
      by_cases h2 : ig = false ∧ cues.any (fun c => !labels.contains c) = true
      · rw [if_pos h2]
        constructor
        · intro h; cases h
        · rintro ⟨_, h3⟩
          rcases h3 with h3 | h3
          · rw [h2.1] at h3; cases h3
          · obtain ⟨c, hc, hn⟩ := hany.mp h2.2
            exact absurd (h3 c hc) hn
      · rw [if_neg h2]
        refine ⟨fun _ => ⟨h1, ?_⟩, fun _ => rfl⟩
        cases ig with
        | true => exact Or.inl rfl
        | false =>
          right
          intro c hc
          by_contra hn
          exact h2 ⟨rfl, hany.mpr ⟨c, hc, hn⟩⟩

/-- **`activation()` returns a matrix iff every event is accepted** -/
theorem activation_ok_iff (p : DupPolicy) (ig : Bool) (w : LW R) (evs : List (List String)) :
    (∃ M, activationMatrix p ig w evs = .ok M) ↔ ∀ cues ∈ evs, actEventErr p ig w.cues cues = none :=
  ⟨fun ⟨M, h⟩ => activationMatrix_ok_accepts p ig w evs M h,
    fun h => ⟨_, activationMatrix_ok_of p ig w evs h⟩⟩

/-- **the error cases**: the FIRST rejected event decides what is raised
    (`ValueError` for a repeated cue under `None`, `KeyError` for an unknown cue
    unless ignored; within one event the duplicate check comes first), whatever
    the later events are -/
theorem activation_raises (p : DupPolicy) (ig : Bool) (w : LW R) (xs : List (List String))
    (bad : List String) (ys : List (List String)) (e : Err)
    (hxs : ∀ cues ∈ xs, actEventErr p ig w.cues cues = none)
    (hbad : actEventErr p ig w.cues bad = some e) :
    activationMatrix p ig w (xs ++ bad :: ys) = .error e :=
  activationMatrix_error_of p ig w xs bad ys e hxs hbad

/-- one column: for every labelled matrix with duplicate-free labels, every
    cue list whose members are labels, the activation of outcome `i` is the sum
    of its weights over the cues (with multiplicity).  `hnc` (file header) is
    not used by the proof. -/
theorem act_eq_sum (w : LW R) (hn : w.outcomes.Nodup) (hnc : w.cues.Nodup) (cs : List String)
    (hcs : ∀ c ∈ cs, c ∈ w.cues) (i : Nat) (hi : i < w.outcomes.length) :
    (actColumn w (cs.map (w.cues.idxOf ·))).getD i 0 = sumOver (w.get w.outcomes[i]) cs :=
  actColumn_eq_sum w hn cs hcs i hi

/-- **dict path**: the same sum; a plain inner dict raises `KeyError` for a
    missing cue, a defaultdict contributes 0 -/
theorem act_dict_eq_sum (row : List (String × R)) (cs : List String) :
    dictRowAct false row cs = .ok (sumOver (alGet row) cs) ∧
    dictRowAct true row cs = (if cs.any (fun c => !(row.map (·.1)).contains c) then .error .key
      else .ok (sumOver (alGet row) cs)) :=
  ⟨dictRowAct_eq_sum row cs, dictRowAct_strict row cs⟩

/-- the dict path and the matrix path agree: a dict built from the labelled
    matrix gives the matrix' own sums -/
theorem paths_agree (w : LW R) (o : String) (cs : List String) :
    sumOver (alGet (wdRow (dictFromLW w) o)) cs = sumOver (w.get o) cs := by
  have : alGet (wdRow (dictFromLW w) o) = w.get o := by
    funext c; exact dictFromLW_abs w o c
  rw [this]

/-- events are processed independently by the model (a list homomorphism; the
    multi-process path of the code is modelled separately: `activation_mp_eq_single`) -/
theorem events_independent (p : DupPolicy) (ig : Bool) (w : LW R) (xs ys : List (List String))
    (a b : List (List R)) (ha : activationMatrix p ig w xs = .ok a) (hb : activationMatrix p ig w ys = .ok b) :
    activationMatrix p ig w (xs ++ ys) = .ok (a ++ b) :=
  activationMatrix_append p ig w xs ys a b ha hb

/-- **one further learning step** of the specification changes each present
    cue's weight by `multiplicity · α · β · (target − Σ weights over the cues)` -/
theorem step_delta {ι κ : Type} [DecidableEq ι] [DecidableEq κ] (α : ι → R) (β₁ β₂ lam : R)
    (W : κ → ι → R) (e : Event ι κ) (o : κ) (c : ι) :
    rwStep α β₁ β₂ lam W e o c - W o c
      = (e.cues.count c : R) * (α c *
          (if o ∈ e.outcomes then β₁ * (lam - sumOver (W o) e.cues)
           else β₂ * (0 - sumOver (W o) e.cues))) :=
  Pyndl.step_delta α β₁ β₂ lam W e o c

/-- **one further `dict_ndl` step vs the dict path of `activation()`**: learning
    one more event `e` (policy-processed: `e'`) from the weight dict `W` with the
    MODEL of `dict_ndl` changes the weight between outcome `o` and cue `c` by
    `multiplicity(c) · α(c) · β · (target − a)`, `a` being the activation the
    MODEL of `activation()` (dict path, `dictRowAct`) computes from `W` for `o`
    and the cues of the event; per-cue learning rates `α` -/
theorem dict_step_delta (p : DupPolicy) (α : String → R) (β₁ β₂ lam : R) (W : WDict String String R)
    (e e' : Event String String) (hp : applyPolicy p e = some e') :
    ∃ W', dictNdl p α β₁ β₂ lam W [e] = some W' ∧
      ∀ o a, dictRowAct false (wdRow W o) e'.cues = .ok a → ∀ c,
        wdAbs W' o c - wdAbs W o c
          = (e'.cues.count c : R) * (α c *
              (if o ∈ e'.outcomes then β₁ * (lam - a) else β₂ * (0 - a))) :=
  dictNdl_step_delta p α β₁ β₂ lam W e e' hp

/-- **one further `ndl.ndl` step vs the matrix path of `activation()`**: continuing
    the MODEL of `ndl.ndl` (either method, legal chunking arguments `hcfg : CfgOK`:
    `2 ≤ events_per_temporary_file < 2³²`, `1 ≤ n_outcomes_per_job`, OpenMP
    `#outcome labels + n_outcomes_per_job < 2³²`) from the labelled matrix `w` over one event
    `e` (policy-processed: `e'`, all of whose cues are labels of `w`) changes the
    weight between the `i`-th outcome and cue `c` by
    `multiplicity(c) · α · β · (target − col[i])`, `col` being the column the
    MODEL of `activation(…, remove_duplicates=False)` returns for the cues of `e'` -/
theorem ndl_step_delta (cfg : NdlCfg) (alpha β₁ β₂ lam : R)
    (w : LW R) (hno : w.outcomes.Nodup) (hnc : w.cues.Nodup)
    (e e' : Event String String) (hcfg : CfgOK cfg (mergedOutcomes w [e]).length)
    (hp : applyPolicy cfg.policy e = some e')
    (hfit : Fits32With w [e]) (hin : ∀ c ∈ e'.cues, c ∈ w.cues) :
    ∃ r col, ndlModel Generated.pyMagic Generated.pyVersion cfg alpha β₁ β₂ lam (some w) [e] = .ok (r, 1) ∧
      activationMatrix .keep false w [e'.cues] = .ok [col] ∧
      ∀ i (hi : i < w.outcomes.length) c,
        r.get w.outcomes[i] c - w.get w.outcomes[i] c
          = (e'.cues.count c : R) * (alpha *
              (if w.outcomes[i] ∈ e'.outcomes then β₁ * (lam - col.getD i 0)
               else β₂ * (0 - col.getD i 0))) :=
  ndlModel_step_delta Generated.pyMagic Generated.pyVersion (by decide) (by decide) cfg
    alpha β₁ β₂ lam w hno hnc e e' hcfg hp hfit hin

/-! ### non-vacuity (ℤ): a 2×3 matrix -/

def exW : LW ℤ := ⟨["x", "y"], ["a", "b", "c"], #[1, 2, 3, 10, 20, 30]⟩

/-- the model runs: a repeated cue counts twice under `False`, an unknown cue is
    dropped with `ignore_missing_cues`; under `True` each cue once -/
example :
    activationMatrix .keep true exW [["a", "c", "c"], ["b", "q"], []] = .ok [[7, 70], [2, 20], [0, 0]] ∧
    activationMatrix .dedup true exW [["a", "c", "c"], ["b", "q"], []] = .ok [[4, 40], [2, 20], [0, 0]] ∧
    -- the error cases: KeyError (unknown cue, not ignored), ValueError (repeat under None);
    -- the first offending event decides
    activationMatrix .keep false exW [["a", "c", "c"], ["b", "q"], []] = .error .key ∧
    activationMatrix .error true exW [["a"], ["a", "c", "c"], ["b", "q"]] = .error .value ∧
    activationMatrix .error false exW [["a"], ["b", "q"], ["a", "c", "c"]] = .error .key ∧
    activationMatrix .error false exW [["a"], ["q", "c", "c"]] = .error .value := by
  refine ⟨by decide +kernel, by decide +kernel, by decide +kernel, by decide +kernel, by decide +kernel,
    by decide +kernel⟩

/-- `activation_matrix_spec` with EVERY hypothesis instantiated -/
example :
    ([[7, 70], [2, 20], [0, 0]] : List (List ℤ)).length = 3 ∧
    ∀ k (hk : k < 3),
      actEventErr .keep true exW.cues [["a", "c", "c"], ["b", "q"], []][k] = none ∧
      (([[7, 70], [2, 20], [0, 0]] : List (List ℤ)).getD k []).length = exW.outcomes.length ∧
      ∀ i (hi : i < exW.outcomes.length),
        (([[7, 70], [2, 20], [0, 0]] : List (List ℤ)).getD k []).getD i 0
          = sumOver (exW.get exW.outcomes[i]) (contribCues .keep exW.cues [["a", "c", "c"], ["b", "q"], []][k]) :=
  activation_matrix_spec .keep true exW (by decide) (by decide) [["a", "c", "c"], ["b", "q"], []] _
    (by decide +kernel)

/-- `activation_raises` instantiated: event 0 accepted, event 1 has an unknown cue -/
example : activationMatrix .keep false exW ([["a", "c", "c"]] ++ ["b", "q"] :: [[]]) = .error .key :=
  activation_raises .keep false exW [["a", "c", "c"]] ["b", "q"] [[]] .key (by decide) (by decide)

/-- `dict_step_delta` instantiated on a weight dict with rows `x`, `y`, an event
    with a repeated cue and a new cue, per-cue learning rates -/
example :
    ∃ W', dictNdl .keep (fun c => if c = "a" then (2 : ℤ) else 1) 1 1 5
        [("x", [("a", 1), ("b", 2)]), ("y", [("a", 10)])] [⟨["a", "a", "q"], ["x"]⟩] = some W' ∧
      ∀ o a, dictRowAct false (wdRow [("x", [("a", (1 : ℤ)), ("b", 2)]), ("y", [("a", 10)])] o)
          ["a", "a", "q"] = .ok a → ∀ c,
        wdAbs W' o c - wdAbs [("x", [("a", (1 : ℤ)), ("b", 2)]), ("y", [("a", 10)])] o c
          = ((["a", "a", "q"] : List String).count c : ℤ) * ((if c = "a" then 2 else 1) *
              (if o ∈ ["x"] then 1 * (5 - a) else 1 * (0 - a))) :=
  dict_step_delta .keep _ 1 1 5 _ ⟨["a", "a", "q"], ["x"]⟩ ⟨["a", "a", "q"], ["x"]⟩ rfl

/-- `ndl_step_delta` with EVERY hypothesis instantiated: OpenMP, one outcome per
    job, `remove_duplicates=True` (the event `a c c → x` is learned as `a c → x`) -/
example :
    ∃ r col, ndlModel Generated.pyMagic Generated.pyVersion ⟨.dedup, .openmp, 1, 2⟩ (1 : ℤ) 1 1 5 (some exW)
        [⟨["a", "c", "c"], ["x"]⟩] = .ok (r, 1) ∧
      activationMatrix .keep false exW [["a", "c"]] = .ok [col] ∧
      ∀ i (hi : i < exW.outcomes.length) c,
        r.get exW.outcomes[i] c - exW.get exW.outcomes[i] c
          = ((["a", "c"] : List String).count c : ℤ) * (1 *
              (if exW.outcomes[i] ∈ ["x"] then 1 * (5 - col.getD i 0) else 1 * (0 - col.getD i 0))) :=
  ndl_step_delta ⟨.dedup, .openmp, 1, 2⟩ 1 1 1 5 exW (by decide) (by decide)
    ⟨["a", "c", "c"], ["x"]⟩ ⟨["a", "c"], ["x"]⟩ (by decide +kernel) (by decide +kernel)
    ⟨by decide, by decide +kernel, by decide +kernel, by decide⟩ (by decide)

/-! ### the multi-process path (`n_jobs >= 2`) -/

/-- **multi-process = single-process, for every completion order.**  For every
    labelled matrix `w`, duplicate policy, `ignore_missing_cues`, list of events,
    every `order` that is a permutation of the event indices `0 … n_events-1`
    (each task exactly once — `starmap`'s guarantee, trusted) and every initial
    content `init` of the shared buffer (`n_outcomes * n_events` cells): the model
    of the `n_jobs >= 2` path (`activationMatrixMP`: index tuples in the parent,
    one column-write task per event on the flat buffer, reshape) returns exactly
    the matrix — or raises exactly the error — of the single-process model
    `activationMatrix`.  No hypothesis on the labels.
    SCOPE: one scalar type `S`, one addition — exact arithmetic.  The shipped
    code cast the weights to float64 only in the multi-process path
    (activation.py:172), so on non-float64 weights its two paths rounded
    differently (finding F15, file header; repaired in /repo); this theorem is
    about the code on float64 weights / after that repair. -/
theorem activation_mp_eq_single {S : Type} [Add S] [Zero S] (p : DupPolicy) (ig : Bool) (w : LW S)
    (evs : List (List String)) (order : List Nat) (init : Array S)
    (hperm : order.Perm (List.range evs.length))
    (hsize : init.size = w.outcomes.length * evs.length) :
    activationMatrixMP p ig w evs order init = activationMatrix p ig w evs :=
  activationMatrixMP_eq p ig w evs order init hperm hsize

/-- **every cell written exactly once, none outside the buffer.**  For index
    tuples `tasks` (one per event), a permutation `order` of the event indices
    and an initial buffer of `n_outcomes * n_events` cells: the pool run succeeds
    (`some`: no store hit a cell that does not exist — `MPBuf.write` reports such
    a store with `none`), the buffer keeps its size, the trace of written flat
    cells is a permutation of ALL cells `0 … n_outcomes*n_events-1` — so every
    cell is written exactly once (`count = 1`) and no other cell at all
    (`count = 0`) — and the buffer read with shape `(n_outcomes, n_events)` is,
    transposed, the list of single-process columns; entry `(i, k)` of what the
    code returns is entry `(k, i)` of the model's orientation. -/
theorem mp_cells_written_once {S : Type} [Add S] [Zero S] (w : LW S) (tasks : List (List Nat))
    (order : List Nat) (init : Array S)
    (hperm : order.Perm (List.range tasks.length))
    (hsize : init.size = w.outcomes.length * tasks.length) :
    ∃ b, mpRun w tasks order ⟨init, []⟩ = some b ∧
      b.cells.size = w.outcomes.length * tasks.length ∧
      b.written.Perm (List.range (w.outcomes.length * tasks.length)) ∧
      (∀ d, b.written.count d = if d < w.outcomes.length * tasks.length then 1 else 0) ∧
      mpByEvent w.outcomes.length tasks.length b.cells = tasks.map (actColumn w) ∧
      ∀ i k, i < w.outcomes.length → k < tasks.length →
        ((mpByOutcome w.outcomes.length tasks.length b.cells).getD i []).getD k 0
          = (actColumn w (tasks.getD k [])).getD i 0 := by
  obtain ⟨b, h, hs, hw, hM⟩ := mpRun_eq_columns w tasks order init hperm hsize
  refine ⟨b, h, hs, hw, ?_, hM, ?_⟩
  · intro d
    rw [hw.count_eq d]
    by_cases hd : d < w.outcomes.length * tasks.length
    · rw [if_pos hd]; exact List.count_eq_one_of_mem List.nodup_range (List.mem_range.mpr hd)
    · rw [if_neg hd]; exact List.count_eq_zero_of_not_mem (fun hm => hd (List.mem_range.mp hm))
  · intro i k hi hk
    rw [mpByOutcome_transpose _ _ _ i k hi hk, hM]
    simp [List.getD_eq_getElem?_getD, List.getElem?_map, List.getElem?_eq_getElem hk]

/-- **the multi-process path returns the cue-wise sums** (`activation_matrix_spec`
    for `n_jobs >= 2`): if the multi-process model returns `M` for some
    permutation `order` and some initial buffer, every event was accepted and
    `M[k][i] = Σ_{c ∈ contributing cues of event k} w[outcome i, c]`. -/
theorem activation_mp_spec (p : DupPolicy) (ig : Bool) (w : LW R) (hno : w.outcomes.Nodup)
    (hnc : w.cues.Nodup) (evs : List (List String)) (order : List Nat) (init : Array R)
    (hperm : order.Perm (List.range evs.length))
    (hsize : init.size = w.outcomes.length * evs.length) (M : List (List R))
    (h : activationMatrixMP p ig w evs order init = .ok M) :
    M.length = evs.length ∧
    ∀ k (hk : k < evs.length),
      actEventErr p ig w.cues evs[k] = none ∧
      (M.getD k []).length = w.outcomes.length ∧
      ∀ i (hi : i < w.outcomes.length),
        (M.getD k []).getD i 0 = sumOver (w.get w.outcomes[i]) (contribCues p w.cues evs[k]) :=
  activation_matrix_spec p ig w hno hnc evs M
    (by rw [← activation_mp_eq_single p ig w evs order init hperm hsize]; exact h)

/-- **a store outside the buffer is not hidden by the model** (so `some` in
    `mp_cells_written_once` says something): a task whose index `k` is no event
    index (`n_events ≤ k`) makes the task fail, for EVERY number `≥ 1` of outcome
    rows.  (Until the second review the hypothesis was `n_outcomes * n_events ≤ k`,
    which missed e.g. `k = 3` on the 2×3 buffer; `n_events ≤ k` is the true
    bound: for `k < n_events` the task succeeds, `mpTask_spec`.) -/
theorem mp_store_outside_reported {S : Type} [Add S] [Zero S] (w : LW S) (nEv : Nat) (b : MPBuf S)
    (k : Nat) (idx : List Nat) (hrow : 0 < w.outcomes.length)
    (hsize : b.cells.size = w.outcomes.length * nEv) (hk : nEv ≤ k) :
    mpTask w nEv b k idx = none :=
  mpTask_event_index_out_of_range w nEv b k idx hrow hsize hk

/-- … and so does the whole multi-process model: when the parent accepts the
    events, the matrix has at least one outcome row and `order` contains an entry
    that is no event index, the answer is `.error .other` (what the driver op
    `activation_mp` reports as `Raised:Other`) — whatever the other entries of
    `order` are.  With no outcome row no store happens at all and the run
    succeeds. -/
theorem mp_bad_order_reported (p : DupPolicy) (ig : Bool) (w : LW R)
    (evs : List (List String)) (order : List Nat) (init : Array R)
    (hacc : ∀ cues ∈ evs, actEventErr p ig w.cues cues = none)
    (hrow : 0 < w.outcomes.length) (hsize : init.size = w.outcomes.length * evs.length)
    (hbad : ∃ k ∈ order, evs.length ≤ k) :
    activationMatrixMP p ig w evs order init = .error .other := by
  unfold activationMatrixMP
  have hok := activationMatrix_ok_of p ig w evs hacc
  rw [activationMatrix_eq_indexLists] at hok
  cases ht : actIndexLists p ig w.cues evs with
  | error e => rw [ht] at hok; cases hok
  | ok tasks =>
    have hl := actIndexLists_length p ig w.cues evs tasks ht
    simp only
    rw [mpRun_none_of_bad_index w tasks order ⟨init, []⟩ hrow (by rw [hl]; exact hsize)
      (by rw [hl]; exact hbad)]

/-! #### non-vacuity of the multi-process theorems (ℤ) -/

/-- `activation_mp_eq_single` with EVERY hypothesis instantiated: three events,
    completion order 2, 0, 1, a buffer full of garbage -/
example :
    activationMatrixMP .keep true exW [["a", "c", "c"], ["b", "q"], []] [2, 0, 1] #[9, 9, 9, 9, 9, 9]
      = activationMatrix .keep true exW [["a", "c", "c"], ["b", "q"], []] :=
  activation_mp_eq_single .keep true exW _ [2, 0, 1] #[9, 9, 9, 9, 9, 9] (by decide) (by decide)

/-- the model runs (kernel-evaluated): same matrix for two orders and two
    initial contents; the parent's errors are those of the single-process path -/
example :
    activationMatrixMP .keep true exW [["a", "c", "c"], ["b", "q"], []] [2, 0, 1] #[9, 9, 9, 9, 9, 9]
      = .ok [[7, 70], [2, 20], [0, 0]] ∧
    activationMatrixMP .keep true exW [["a", "c", "c"], ["b", "q"], []] [1, 2, 0] (mpZeros 2 3)
      = .ok [[7, 70], [2, 20], [0, 0]] ∧
    activationMatrixMP .keep false exW [["a", "c", "c"], ["b", "q"], []] [1, 2, 0] (mpZeros 2 3)
      = .error .key ∧
    activationMatrixMP .error true exW [["a"], ["a", "c", "c"]] [1, 0] (mpZeros 2 2) = .error .value := by
  refine ⟨by decide +kernel, by decide +kernel, by decide +kernel, by decide +kernel⟩

/-- `mp_cells_written_once` APPLIED (both hypotheses instantiated: `[2, 0, 1]` is
    a permutation of `range 3`, the garbage buffer has 2·3 cells): the run
    succeeds, its trace is a permutation of all six cells, cell 4 is written
    exactly once and cell 6 never, and entry (outcome 1, event 0) of what the
    code returns is the single-process activation 70 -/
example :
    ∃ b, mpRun exW [[0, 2, 2], [1], []] [2, 0, 1] ⟨#[9, 9, 9, 9, 9, 9], []⟩ = some b ∧
      b.written.Perm (List.range 6) ∧ b.written.count 4 = 1 ∧ b.written.count 6 = 0 ∧
      ((mpByOutcome 2 3 b.cells).getD 1 []).getD 0 0 = 70 := by
  obtain ⟨b, h, _, hw, hc, _, hM⟩ :=
    mp_cells_written_once exW [[0, 2, 2], [1], []] [2, 0, 1] #[9, 9, 9, 9, 9, 9] (by decide) (by decide)
  refine ⟨b, h, hw, ?_, ?_, ?_⟩
  · have := hc 4; simpa [exW] using this
  · have := hc 6; simpa [exW] using this
  · have := hM 1 0 (by decide) (by decide)
    simp only [exW, List.length_cons, List.length_nil] at this ⊢
    rw [this]
    decide +kernel

/-- `activation_mp_spec` APPLIED with every hypothesis instantiated (the matrix
    the multi-process model returns for order 2, 0, 1 on a garbage buffer):
    entry (event 0, outcome 1) is the sum over the contributing cues `a, c, c` -/
example :
    (([[7, 70], [2, 20], [0, 0]] : List (List ℤ)).getD 0 []).getD 1 0
      = sumOver (exW.get "y") (contribCues .keep exW.cues ["a", "c", "c"]) :=
  ((activation_mp_spec (R := ℤ) .keep true exW (by decide) (by decide)
    [["a", "c", "c"], ["b", "q"], []] [2, 0, 1] #[9, 9, 9, 9, 9, 9] (by decide) (by decide)
    [[7, 70], [2, 20], [0, 0]] (by decide +kernel)).2 0 (by decide)).2.2 1 (by decide)

/-- `mp_store_outside_reported` APPLIED at the true bound (`k = 3 = n_events`,
    below `n_outcomes * n_events = 6`: the case the old hypothesis missed), and
    `mp_bad_order_reported` APPLIED: order `[2, 0, 3, 1]` -/
example : mpTask exW 3 ⟨#[9, 9, 9, 9, 9, 9], []⟩ 3 [0] = none :=
  mp_store_outside_reported exW 3 ⟨#[9, 9, 9, 9, 9, 9], []⟩ 3 [0] (by decide) (by decide) (by decide)

example : activationMatrixMP .keep true exW [["a", "c", "c"], ["b", "q"], []] [2, 0, 3, 1] #[9, 9, 9, 9, 9, 9]
    = .error .other :=
  mp_bad_order_reported .keep true exW _ [2, 0, 3, 1] #[9, 9, 9, 9, 9, 9] (by decide) (by decide) (by decide)
    ⟨3, by decide, by decide⟩

/-- the run itself, kernel-evaluated: the trace of the run in order 2, 0, 1
    on the 2×3 buffer, and the buffer as the code returns it (outcomes × events) -/
example :
    ∃ b, mpRun exW [[0, 2, 2], [1], []] [2, 0, 1] ⟨#[9, 9, 9, 9, 9, 9], []⟩ = some b ∧
      b.written = [2, 5, 0, 3, 1, 4] ∧
      mpByOutcome 2 3 b.cells = [[7, 2, 0], [70, 20, 0]] :=
  ⟨⟨#[7, 2, 0, 70, 20, 0], [2, 5, 0, 3, 1, 4]⟩, by decide +kernel, by decide +kernel, by decide +kernel⟩

example : ([2, 0, 1] : List Nat).Perm (List.range 3) ∧ (#[9, 9, 9, 9, 9, 9] : Array ℤ).size = 2 * 3 := by
  decide

/-! ### lemmas (not property theorems) -/

/-- (definitional: `activation_mp_eq_single` rewritten on both sides) the initial
    content of the shared buffer is irrelevant (the code gets
    zeros from `RawArray`; any other content of the right size gives the same
    result), and so is the completion order: two runs agree -/
theorem mp_initial_content_irrelevant {S : Type} [Add S] [Zero S] (p : DupPolicy) (ig : Bool) (w : LW S)
    (evs : List (List String)) (order order' : List Nat) (init init' : Array S)
    (hperm : order.Perm (List.range evs.length)) (hperm' : order'.Perm (List.range evs.length))
    (hsize : init.size = w.outcomes.length * evs.length)
    (hsize' : init'.size = w.outcomes.length * evs.length) :
    activationMatrixMP p ig w evs order init = activationMatrixMP p ig w evs order' init' := by
  rw [activation_mp_eq_single p ig w evs order init hperm hsize,
    activation_mp_eq_single p ig w evs order' init' hperm' hsize']

/-- (a kernel-checked EXAMPLE on two closed inputs, not a property theorem)
    negative example (seeded change C12_b): a schedule that hands every
    worker `len / n_jobs` events and drops the remaining `len % n_jobs` ones
    (for `len < n_jobs`: schedules nothing — `starmap(…, chunksize=0)`) is NOT a
    permutation of the event indices and does NOT produce the matrix: with one
    event and two jobs the zero buffer comes back unchanged, with three events
    and two jobs the last event's column stays zero. -/
theorem mp_dropped_tail_differs :
    ¬ (mpOrderDroppingTail 1 2).Perm (List.range 1) ∧
    activationMatrixMP .keep true exW [["a", "c", "c"]] (mpOrderDroppingTail 1 2) (mpZeros 2 1)
      = .ok [[0, 0]] ∧
    activationMatrix .keep true exW [["a", "c", "c"]] = .ok [[7, 70]] ∧
    ¬ (mpOrderDroppingTail 3 2).Perm (List.range 3) ∧
    activationMatrixMP .keep true exW [["a", "c", "c"], [], ["b", "q"]] (mpOrderDroppingTail 3 2) (mpZeros 2 3)
      = .ok [[7, 70], [0, 0], [0, 0]] ∧
    activationMatrix .keep true exW [["a", "c", "c"], [], ["b", "q"]] = .ok [[7, 70], [0, 0], [2, 20]] := by
  refine ⟨by decide, by decide +kernel, by decide +kernel, by decide, by decide +kernel, by decide +kernel⟩


/-- (definitional) which cues contribute under each duplicate policy -/
theorem act_cues_policy (cues : List String) :
    actCues .keep cues = .ok cues ∧ actCues .dedup cues = .ok (dedupKeepFirst cues) ∧
    (hasDup cues = true → actCues .error cues = .error .value) ∧
    (hasDup cues = false → actCues .error cues = .ok cues) := by
  refine ⟨rfl, rfl, ?_, ?_⟩ <;> intro h <;> simp [actCues, h]

/-- the index lookup alone: with labelled-matrix weights an unknown cue raises
    `KeyError` unless `ignore_missing_cues`, in which case it is dropped from
    the index tuple (used by `activation_matrix_spec`) -/
theorem act_missing (ig : Bool) (labels cs : List String) :
    cueIndices ig labels cs =
      if !ig && cs.any (fun c => !labels.contains c) then .error .key
      else .ok ((cs.filter (fun c => labels.contains c)).map (labels.idxOf ·)) :=
  cueIndices_spec ig labels cs

example : actColumn exW [0, 2, 2] = [7, 70] := by decide +kernel

end Pyndl.C12
