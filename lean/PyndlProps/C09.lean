/-
  C09 — event-file creation follows the documented windowing model.

  Property theorems only (helper lemmas: PyndlProofs/Create.lean, PyndlProofs/CreateLF.lean).  The model
  (PyndlModel/Create.lean) mirrors `pyndl/preprocess.py:79-415`; it is tied to
  the code by harness/run_C09.py on every run.  Token-level theorems are for an
  arbitrary word type `ω`; character-level ones for arbitrary Python-supplied
  `Tables` (whitespace set, lower-casing).
-/
import PyndlProofs.Create
import PyndlProofs.CreateLF
import PyndlModel.Generated

namespace Pyndl.C09
open Pyndl.Create List

variable {ω : Type}

/-- **windows_spec.** `consecutive_words` with `number_of_words = n` on a
    context `words` yields, in order, exactly the `|words| + L − 1` windows
    `words[max(i,0) : min(i+L, |words|)]`, `i = k + 1 − L ∈ [1−L, |words|)`,
    `L = min n |words|` (a window longer than the context is cut to the
    context); outcomes are empty. -/
theorem windows_spec (n : Nat) (words : List ω) :
    genConsecutive (n : Int) words =
      (List.range (words.length + min n words.length - 1)).map
        (fun k => ((words.drop (k + 1 - min n words.length)).take
                    (min (k + 1) words.length - (k + 1 - min n words.length)), [])) :=
  genConsecutive_eq n words

/-- every window is a contiguous piece of the context, has between 1 and
    `min n |words|` words (`n ≥ 1`), and there are `|words| + L − 1` of them. -/
theorem windows_shape (n : Nat) (hn : 1 ≤ n) (words : List ω) :
    (genConsecutive (n : Int) words).length = words.length + min n words.length - 1 ∧
    ∀ occ ∈ genConsecutive (n : Int) words,
      occ.1 <:+: words ∧ occ.2 = [] ∧ 1 ≤ occ.1.length ∧ occ.1.length ≤ min n words.length := by
  constructor
  · rw [genConsecutive_eq]; simp
  · intro occ h
    have hi := genConsecutive_mem_infix (n : Int) words occ h
    refine ⟨hi.1, hi.2, ?_⟩
    rw [genConsecutive_eq] at h
    simp only [List.mem_map, List.mem_range] at h
    obtain ⟨k, hk, rfl⟩ := h
    have hw : 1 ≤ words.length := by omega
    have := window_length (min n words.length) words k (Nat.min_le_right _ _) hk (by omega)
    exact this.2

/-- `number_of_words ≤ 0` (any Python int): only empty cue strings, all of
    which `process_occurrences` skips. -/
theorem windows_nonpos (n : Int) (hn : n ≤ 0) (words : List ω) :
    ∀ occ ∈ genConsecutive n words, occ = ([], []) :=
  genConsecutive_nonpos n hn words

/-- **word_to_word_spec.** One occurrence per word, in order; the cues of word
    `i` are the last `before` words before it followed by the first `after`
    words after it, the outcome is the word itself. -/
theorem word_to_word_spec (before after : Nat) (words : List ω) :
    (genWordToWord before after words).length = words.length ∧
    ∀ i (hi : i < words.length),
      (genWordToWord before after words)[i]? =
        some ((words.take i).drop (i - before) ++ (words.drop (i + 1)).take after, [words[i]]) :=
  ⟨genWordToWord_length before after words, genWordToWord_getElem? before after words⟩

/-- **ngrams_spec.** The letter n-grams of a phrase are, in order, its
    `|phrase| − n + 1` contiguous pieces of length `n`; as a set: exactly the
    infixes of length `n`. -/
theorem ngrams_spec (n : Nat) (phrase : List Char) :
    ngrams n phrase = (List.range (phrase.length + 1 - n)).map (fun i => (phrase.drop i).take n) ∧
    (n ≤ phrase.length → ∀ g, g ∈ ngrams n phrase ↔ g.length = n ∧ g <:+: phrase) :=
  ⟨ngrams_eq n phrase, fun hn g => mem_ngrams_iff n phrase g hn⟩

/-- the phrase of an occurrence is `#w1#w2#…#wk#`. -/
theorem phrase_spec (w v : Word) (vs : List Word) :
    phraseString [w] = '#' :: (w ++ ['#']) ∧
    phraseString (w :: v :: vs) = '#' :: w ++ phraseString (v :: vs) := by
  constructor
  · rfl
  · simp [phraseString, joinHash]

/-- occurrences only use words of the context they were generated from. -/
theorem occurrences_within_context (es : EventStructure) (cs : CueStructure) (words : List ω) :
    ∀ occ ∈ genOccurrences es cs words, ∀ w, w ∈ occ.1 ++ occ.2 → w ∈ words :=
  genOccurrences_mem es cs words

/-- **stream_eq_contexts (line).** With `context_structure='line'` the events
    are those of each line's words, line by line. -/
theorem stream_eq_contexts_line (pw : List ω → List (Ev ω)) (lines : List (List ω)) :
    runLine pw lines = lines.flatMap pw := by
  simpa [runLine] using runLine_eq pw lines []

/-- **stream_eq_contexts (document).** For every corpus whose lines have the
    shape `re.split` with the capturing group produces
    (`[t0, marker, t1, …, marker, tk]`, marker elements contributing no
    words), the streaming machine with its carry-over buffer emits exactly the
    events of the declarative contexts: concatenate the text pieces up to each
    marker; the rest of the corpus is the last context.  (`pw [] = []`:
    `process_words` of no words writes nothing — `processWords_nil` below.) -/
theorem stream_eq_contexts (pw : List ω → List (Ev ω)) (hnil : pw [] = [])
    (lines : List (List (Option (List ω)))) (hs : ∀ l ∈ lines, wellShaped l = true) :
    runDocument pw lines =
      (groupContexts (lines.flatMap (fun l => lineItems (evens l))) []).flatMap pw := by
  have := foldl_docStep pw hnil lines hs [] []
  simpa [runDocument] using this

/-- `process_words([])` writes nothing, for every option combination. -/
theorem processWords_nil (o : Options) : processWords o [] = [] := by
  cases o with
  | mk al ctx ev cue lc rd =>
    cases ev with
    | consecutiveWords n =>
      have h0 : intRange (1 - min n 0) 0 = [] := by
        simp only [intRange]
        have : ((0 : Int) - (1 - min n 0)).toNat = 0 := by omega
        rw [this]; rfl
      cases cue <;> simp [processWords, genOccurrences, genConsecutive, h0, processOccurrences]
    | wordToWord b a =>
      cases cue <;> simp [processWords, genOccurrences, genWordToWord, enumFrom, processOccurrences]
    | line =>
      cases cue <;> simp [processWords, genOccurrences, processOccurrences, ngramsToWord1, wordCues1]

/-- **no_cross_context.** Every emitted event comes from `process_words` of
    ONE declarative context. -/
theorem no_cross_context (pw : List ω → List (Ev ω)) (hnil : pw [] = [])
    (lines : List (List (Option (List ω)))) (hs : ∀ l ∈ lines, wellShaped l = true) :
    ∀ ev ∈ runDocument pw lines,
      ∃ ctx ∈ groupContexts (lines.flatMap (fun l => lineItems (evens l))) [], ev ∈ pw ctx := by
  intro ev h
  rw [stream_eq_contexts pw hnil lines hs] at h
  exact List.mem_flatMap.mp h

/-- Why the marker elements matter: if the marker were NOT an element of the
    split (`contexts = [t1]`), the `while len(contexts) > 1` loop would not run,
    `words` would not be reset and the closed context would leak into the next
    one.  The machine on such an (impossible) line: -/
example : docStep (fun ws => [⟨ws, []⟩]) ([1], []) [some [2], some [3]]
    = ([1, 2, 3], [⟨[1, 2], []⟩]) := by decide

/-- … and on the real shape (marker element present): no leak. -/
example : docStep (fun ws => [⟨ws, []⟩]) ([1], []) [some [2], none, some [3]]
    = ([3], [⟨[1, 2], []⟩]) := by decide

/-- **no_overwrite.** If the event file exists the call raises (`OSError`) and
    the file system is unchanged. -/
theorem no_overwrite (t : Tables) (o : Options) (corpusFile eventFile : String) (fs : FS)
    (h : (fs eventFile).isSome) :
    createEventFile t o corpusFile eventFile fs = (.error .eventFileExists, fs) := by
  simp [createEventFile, h]

/-- a successful call creates exactly the event file; every failing call
    leaves the file system unchanged. -/
theorem create_frame (t : Tables) (o : Options) (corpusFile eventFile : String) (fs : FS) :
    (∀ p, p ≠ eventFile → (createEventFile t o corpusFile eventFile fs).2 p = fs p) ∧
    ((createEventFile t o corpusFile eventFile fs).1 ≠ .ok () →
      (createEventFile t o corpusFile eventFile fs).2 = fs) := by
  unfold createEventFile
  split
  · simp
  · split <;> simp [fsSet]
    intro p hp; simp [hp]

/-- **stream_eq_contexts at the character level.** For every corpus (every
    list of raw lines, any number of markers per line, any tables) the events
    `create_event_file(context_structure='document')` writes are exactly
    `process_words` of each declarative context: the marker-free text pieces
    concatenated up to each marker.  (The shape hypothesis of the token-level
    theorem is discharged: `re.split` with the capturing group always yields
    `[t0, marker, t1, …]` and `process_context` empties the marker elements.) -/
theorem create_document_eq_contexts (t : Tables) (o : Options) (hc : o.context = .document)
    (rawLines : List (List Char)) :
    createEvents t o rawLines =
      (groupContexts ((rawLines.map (docLineElems t o.lowerCase o.allowed)).flatMap
          (fun l => lineItems (evens l))) []).flatMap (processWords o) := by
  simp only [createEvents, hc]
  apply stream_eq_contexts (processWords o) (processWords_nil o)
  intro l hl
  simp only [List.mem_map] at hl
  obtain ⟨raw, _, rfl⟩ := hl
  exact docLineElems_wellShaped t o.lowerCase o.allowed raw

/-- `context_structure='line'`: one context per line. -/
theorem create_line_eq_contexts (t : Tables) (o : Options) (hc : o.context = .line)
    (rawLines : List (List Char)) :
    createEvents t o rawLines =
      (rawLines.map (lineWords t o.lowerCase o.allowed)).flatMap (processWords o) := by
  simp only [createEvents, hc]
  exact stream_eq_contexts_line _ _

/-- **tokens_clean.** For every corpus, all tables and all options (n-gram
    size ≥ 1): no written token is empty or contains a blank, `_` or TAB, and
    outcome tokens (words) contain no `#` — so every data line splits back
    into exactly the tokens written (feeds C15). -/
theorem tokens_clean (t : Tables) (o : Options) (hn : ∀ n, o.cue = .ngrams n → 1 ≤ n)
    (rawLines : List (List Char)) :
    ∀ ev ∈ createEvents t o rawLines,
      (∀ tok ∈ ev.cues, tok ≠ [] ∧ ' ' ∉ tok ∧ '_' ∉ tok ∧ '\t' ∉ tok) ∧
      (∀ tok ∈ ev.outcomes, tok ≠ [] ∧ ' ' ∉ tok ∧ '_' ∉ tok ∧ '\t' ∉ tok ∧ '#' ∉ tok) := by
  intro ev hev
  obtain ⟨h1, h2⟩ := createEvents_clean t o hn rawLines ev hev
  constructor
  · intro tok ht
    obtain ⟨hne, hc⟩ := h1 tok ht
    exact ⟨hne, fun h => (hc _ h).1 rfl, fun h => (hc _ h).2.1 rfl, fun h => (hc _ h).2.2 rfl⟩
  · intro tok ht
    obtain ⟨hne, hc⟩ := h2 tok ht
    refine ⟨hne, fun h => (hc _ h).1 rfl, fun h => ?_, fun h => ?_, fun h => ?_⟩
    · exact (isSpecial_false (hc _ h).2).2.1 rfl
    · exact (isSpecial_false (hc _ h).2).2.2 rfl
    · exact (isSpecial_false (hc _ h).2).1 rfl

/-- the hypotheses of `tokens_no_newline` are decidable predicates on the
    tables and the raw lines (checkable per input by evaluation). -/
example (t : Tables) (rawLines : List (List Char)) :
    Decidable ((∀ raw ∈ rawLines, '\n' ∉ raw) ∧ (∀ p ∈ t.lower, '\n' ∉ p.2)) := inferInstance

/-- **tokens_no_newline.** For every corpus, all options (any n-gram size) and
    all tables: if (a) no raw line contains LF (the corpus is read line by
    line) and (b) no entry of the Python-supplied lower-casing table maps a
    character to a string containing LF, then no written token contains LF —
    so an event is exactly one line of the event file.

    Why this holds: `strip`, `split(" ")` and the marker removal only delete
    characters; the special-character replacement and the symbol filter only
    replace characters by the blank; the n-gram phrase only inserts `#`;
    `lower` substitutes table entries.  No hypothesis on the whitespace set
    `t.ws` is needed (`strip` may remove anything), none on the n-gram size,
    and (b) is only used when `lower_case=True`
    (`Create.createEvents_free` has the weaker forms: LF-freeness of the
    *stripped* lines, and (b) under `o.lowerCase = true`).  Both hypotheses are
    necessary: see the two counter-examples below. -/
theorem tokens_no_newline (t : Tables) (o : Options) (rawLines : List (List Char))
    (hraw : ∀ raw ∈ rawLines, '\n' ∉ raw) (hlower : ∀ p ∈ t.lower, '\n' ∉ p.2) :
    ∀ ev ∈ createEvents t o rawLines,
      (∀ tok ∈ ev.cues, '\n' ∉ tok) ∧ (∀ tok ∈ ev.outcomes, '\n' ∉ tok) :=
  createEvents_free_raw (d := '\n') (by decide) (by decide) t o (fun _ => hlower) rawLines hraw

/-- the same for CR (and, by `Create.createEvents_free_raw`, for every
    character other than the blank and `#`). -/
theorem tokens_no_cr (t : Tables) (o : Options) (rawLines : List (List Char))
    (hraw : ∀ raw ∈ rawLines, '\r' ∉ raw) (hlower : ∀ p ∈ t.lower, '\r' ∉ p.2) :
    ∀ ev ∈ createEvents t o rawLines,
      (∀ tok ∈ ev.cues, '\r' ∉ tok) ∧ (∀ tok ∈ ev.outcomes, '\r' ∉ tok) :=
  createEvents_free_raw (d := '\r') (by decide) (by decide) t o (fun _ => hlower) rawLines hraw

/-- (a) is necessary: with a whitespace set that does not contain LF, an LF
    inside a raw line survives every cleaning step. -/
example : createEvents ⟨[' '], []⟩ ⟨.all, .line, .line, .wordToWord, false, false⟩ ["a\nb".toList]
    = [⟨["a\nb".toList], ["a\nb".toList]⟩] := by decide +kernel

/-- (b) is necessary, whatever the whitespace set: a table entry `A ↦ "x\ny"`
    puts an LF inside a token of an LF-free corpus (`strip` only removes at the
    two ends). -/
example : createEvents ⟨[' ', '\n', '\t'], [('A', "x\ny".toList)]⟩
      ⟨.all, .line, .line, .wordToWord, true, false⟩ ["A".toList]
    = [⟨["x\ny".toList], ["x\ny".toList]⟩] := by decide +kernel

/-- … and (b) is not needed with `lower_case=False`. -/
example : createEvents ⟨[' ', '\n', '\t'], [('A', "x\ny".toList)]⟩
      ⟨.all, .line, .line, .wordToWord, false, false⟩ ["A".toList]
    = [⟨["A".toList], ["A".toList]⟩] := by decide +kernel

/-- **tokens_wf_for_text_format.** The hypothesis set of the text-format round
    trip: under the hypotheses of `tokens_clean` (n-gram size ≥ 1) and
    `tokens_no_newline`, every written token (cue or outcome) is non-empty and
    contains no TAB, no LF and no underscore. -/
theorem tokens_wf_for_text_format (t : Tables) (o : Options)
    (hn : ∀ n, o.cue = .ngrams n → 1 ≤ n) (rawLines : List (List Char))
    (hraw : ∀ raw ∈ rawLines, '\n' ∉ raw) (hlower : ∀ p ∈ t.lower, '\n' ∉ p.2) :
    ∀ ev ∈ createEvents t o rawLines, ∀ tok ∈ ev.cues ++ ev.outcomes,
      tok ≠ [] ∧ '\t' ∉ tok ∧ '\n' ∉ tok ∧ '_' ∉ tok := by
  intro ev hev tok htok
  obtain ⟨c1, c2⟩ := tokens_clean t o hn rawLines ev hev
  obtain ⟨n1, n2⟩ := tokens_no_newline t o rawLines hraw hlower ev hev
  rcases List.mem_append.mp htok with h | h
  · exact ⟨(c1 tok h).1, (c1 tok h).2.2.2, n1 tok h, (c1 tok h).2.2.1⟩
  · exact ⟨(c2 tok h).1, (c2 tok h).2.2.2.1, n2 tok h, (c2 tok h).2.2.1⟩

/-- the two regular expressions the model mirrors are the ones in the source
    (re-extracted into `Generated.lean` on every run). -/
theorem pattern_constants :
    Generated.contextPattern = "(---end.of.document---|---END.OF.DOCUMENT---)" ∧
    Generated.specialChars = "[#_\t]" ∧
    Generated.createHeader = "cues\toutcomes\n" := ⟨rfl, rfl, rfl⟩

/-! ### non-vacuity -/

/-- the docstring example: `(A,B,C,D)`, 3 words → `A, A_B, A_B_C, B_C_D, C_D, D` -/
example : (genConsecutive 3 [1, 2, 3, 4]).map (·.1) = [[1], [1, 2], [1, 2, 3], [2, 3, 4], [3, 4], [4]] := by
  decide
/-- window longer than the context -/
example : (genConsecutive 7 [1, 2]).map (·.1) = [[1], [1, 2], [2]] := by decide
/-- the docstring example: before = 2, after = 1 → `(B, A), (A_C, B), (A_B_D, C), (B_C, D)` -/
example : genWordToWord 2 1 [1, 2, 3, 4] = [([2], [1]), ([1, 3], [2]), ([1, 2, 4], [3]), ([2, 3], [4])] := by
  decide
/-- a two-marker line between two plain lines -/
example : runDocument (fun ws => if ws.isEmpty then [] else [⟨ws, []⟩])
    [[some [1]], [some [2], none, some [3], none, some [4]], [some [5]]]
    = [⟨[1, 2], []⟩, ⟨[3], []⟩, ⟨[4, 5], []⟩] := by decide
example : wellShaped [some [2], none, some [3], none, (some [4] : Option (List Nat))] = true := by decide
/-- the marker matcher: both spellings, arbitrary wildcard characters, case-sensitive -/
example : isMarkerAt "---endXofYdocument---zz".toList = true ∧ isMarkerAt "---END OF DOCUMENT---".toList = true ∧
    isMarkerAt "---End.Of.Document---".toList = false := by decide

end Pyndl.C09
