/-
  C09 — event-file creation follows the documented windowing model.

  Property theorems only (helper lemmas: PyndlProofs/Create.lean).  The model
  (PyndlModel/Create.lean) mirrors `pyndl/preprocess.py:79-415`; it is tied to
  the code by harness/run_C09.py on every run.  Token-level theorems are for an
  arbitrary word type `ω`; character-level ones for arbitrary Python-supplied
  `Tables` (whitespace set, lower-casing).
-/
import PyndlProofs.Create
import PyndlModel.Generated

namespace Pyndl.C09
open Pyndl.Create List

variable {ω : Type}

/-- **windows_spec.** `consecutive_words` with `number_of_words = n` on a
    context `words` yields, in order, exactly the `|words| + L − 1` windows
    `words[max(i,0) : min(i+L, |words|)]`, `i = k + 1 − L ∈ [1−L, |words|)`,
    `L = min n |words|` (a window longer than the context is cut to the
    context); outcomes are empty. -/
theorem windows_spec (n : Nat) (words : List ω) :
    genConsecutive (n : Int) words =
      (List.range (words.length + min n words.length - 1)).map
        (fun k => ((words.drop (k + 1 - min n words.length)).take
                    (min (k + 1) words.length - (k + 1 - min n words.length)), [])) :=
  genConsecutive_eq n words

/-- every window is a contiguous piece of the context, has between 1 and
    `min n |words|` words (`n ≥ 1`), and there are `|words| + L − 1` of them. -/
theorem windows_shape (n : Nat) (hn : 1 ≤ n) (words : List ω) :
    (genConsecutive (n : Int) words).length = words.length + min n words.length - 1 ∧
    ∀ occ ∈ genConsecutive (n : Int) words,
      occ.1 <:+: words ∧ occ.2 = [] ∧ 1 ≤ occ.1.length ∧ occ.1.length ≤ min n words.length := by
  constructor
  · rw [genConsecutive_eq]; simp
  · intro occ h
    have hi := genConsecutive_mem_infix (n : Int) words occ h
    refine ⟨hi.1, hi.2, ?_⟩
    rw [genConsecutive_eq] at h
    simp only [List.mem_map, List.mem_range] at h
    obtain ⟨k, hk, rfl⟩ := h
    have hw : 1 ≤ words.length := by omega
    have := window_length (min n words.length) words k (Nat.min_le_right _ _) hk (by omega)
    exact this.2

/-- `number_of_words ≤ 0` (any Python int): only empty cue strings, all of
    which `process_occurrences` skips. -/
theorem windows_nonpos (n : Int) (hn : n ≤ 0) (words : List ω) :
    ∀ occ ∈ genConsecutive n words, occ = ([], []) :=
  genConsecutive_nonpos n hn words

/-- **word_to_word_spec.** One occurrence per word, in order; the cues of word
    `i` are the last `before` words before it followed by the first `after`
    words after it, the outcome is the word itself. -/
theorem word_to_word_spec (before after : Nat) (words : List ω) :
    (genWordToWord before after words).length = words.length ∧
    ∀ i (hi : i < words.length),
      (genWordToWord before after words)[i]? =
        some ((words.take i).drop (i - before) ++ (words.drop (i + 1)).take after, [words[i]]) :=
  ⟨genWordToWord_length before after words, genWordToWord_getElem? before after words⟩

/-- **ngrams_spec.** The letter n-grams of a phrase are, in order, its
    `|phrase| − n + 1` contiguous pieces of length `n`; as a set: exactly the
    infixes of length `n`. -/
theorem ngrams_spec (n : Nat) (phrase : List Char) :
    ngrams n phrase = (List.range (phrase.length + 1 - n)).map (fun i => (phrase.drop i).take n) ∧
    (n ≤ phrase.length → ∀ g, g ∈ ngrams n phrase ↔ g.length = n ∧ g <:+: phrase) :=
  ⟨ngrams_eq n phrase, fun hn g => mem_ngrams_iff n phrase g hn⟩

/-- the phrase of an occurrence is `#w1#w2#…#wk#`. -/
theorem phrase_spec (w v : Word) (vs : List Word) :
    phraseString [w] = '#' :: (w ++ ['#']) ∧
    phraseString (w :: v :: vs) = '#' :: w ++ phraseString (v :: vs) := by
  constructor
  · rfl
  · simp [phraseString, joinHash]

/-- occurrences only use words of the context they were generated from. -/
theorem occurrences_within_context (es : EventStructure) (cs : CueStructure) (words : List ω) :
    ∀ occ ∈ genOccurrences es cs words, ∀ w, w ∈ occ.1 ++ occ.2 → w ∈ words :=
  genOccurrences_mem es cs words

/-- **stream_eq_contexts (line).** With `context_structure='line'` the events
    are those of each line's words, line by line. -/
theorem stream_eq_contexts_line (pw : List ω → List (Ev ω)) (lines : List (List ω)) :
    runLine pw lines = lines.flatMap pw := by
  simpa [runLine] using runLine_eq pw lines []

/-- **stream_eq_contexts (document).** For every corpus whose lines have the
    shape `re.split` with the capturing group produces
    (`[t0, marker, t1, …, marker, tk]`, marker elements contributing no
    words), the streaming machine with its carry-over buffer emits exactly the
    events of the declarative contexts: concatenate the text pieces up to each
    marker; the rest of the corpus is the last context.  (`pw [] = []`:
    `process_words` of no words writes nothing — `processWords_nil` below.) -/
theorem stream_eq_contexts (pw : List ω → List (Ev ω)) (hnil : pw [] = [])
    (lines : List (List (Option (List ω)))) (hs : ∀ l ∈ lines, wellShaped l = true) :
    runDocument pw lines =
      (groupContexts (lines.flatMap (fun l => lineItems (evens l))) []).flatMap pw := by
  have := foldl_docStep pw hnil lines hs [] []
  simpa [runDocument] using this

/-- `process_words([])` writes nothing, for every option combination. -/
theorem processWords_nil (o : Options) : processWords o [] = [] := by
  cases o with
  | mk al ctx ev cue lc rd =>
    cases ev with
    | consecutiveWords n =>
      have h0 : intRange (1 - min n 0) 0 = [] := by
        simp only [intRange]
        have : ((0 : Int) - (1 - min n 0)).toNat = 0 := by omega
        rw [this]; rfl
      cases cue <;> simp [processWords, genOccurrences, genConsecutive, h0, processOccurrences]
    | wordToWord b a =>
      cases cue <;> simp [processWords, genOccurrences, genWordToWord, enumFrom, processOccurrences]
    | line =>
      cases cue <;> simp [processWords, genOccurrences, processOccurrences, ngramsToWord1, wordCues1]

/-- **no_cross_context.** Every emitted event comes from `process_words` of
    ONE declarative context. -/
theorem no_cross_context (pw : List ω → List (Ev ω)) (hnil : pw [] = [])
    (lines : List (List (Option (List ω)))) (hs : ∀ l ∈ lines, wellShaped l = true) :
    ∀ ev ∈ runDocument pw lines,
      ∃ ctx ∈ groupContexts (lines.flatMap (fun l => lineItems (evens l))) [], ev ∈ pw ctx := by
  intro ev h
  rw [stream_eq_contexts pw hnil lines hs] at h
  exact List.mem_flatMap.mp h

/-- Why the marker elements matter: if the marker were NOT an element of the
    split (`contexts = [t1]`), the `while len(contexts) > 1` loop would not run,
    `words` would not be reset and the closed context would leak into the next
    one.  The machine on such an (impossible) line: -/
example : docStep (fun ws => [⟨ws, []⟩]) ([1], []) [some [2], some [3]]
    = ([1, 2, 3], [⟨[1, 2], []⟩]) := by decide

/-- … and on the real shape (marker element present): no leak. -/
example : docStep (fun ws => [⟨ws, []⟩]) ([1], []) [some [2], none, some [3]]
    = ([3], [⟨[1, 2], []⟩]) := by decide

/-- **no_overwrite.** If the event file exists the call raises (`OSError`) and
    the file system is unchanged. -/
theorem no_overwrite (t : Tables) (o : Options) (corpusFile eventFile : String) (fs : FS)
    (h : (fs eventFile).isSome) :
    createEventFile t o corpusFile eventFile fs = (.error .eventFileExists, fs) := by
  simp [createEventFile, h]

/-- a successful call creates exactly the event file; every failing call
    leaves the file system unchanged. -/
theorem create_frame (t : Tables) (o : Options) (corpusFile eventFile : String) (fs : FS) :
    (∀ p, p ≠ eventFile → (createEventFile t o corpusFile eventFile fs).2 p = fs p) ∧
    ((createEventFile t o corpusFile eventFile fs).1 ≠ .ok () →
      (createEventFile t o corpusFile eventFile fs).2 = fs) := by
  unfold createEventFile
  split
  · simp
  · split <;> simp [fsSet]
    intro p hp; simp [hp]

/-- **stream_eq_contexts at the character level.** For every corpus (every
    list of raw lines, any number of markers per line, any tables) the events
    `create_event_file(context_structure='document')` writes are exactly
    `process_words` of each declarative context: the marker-free text pieces
    concatenated up to each marker.  (The shape hypothesis of the token-level
    theorem is discharged: `re.split` with the capturing group always yields
    `[t0, marker, t1, …]` and `process_context` empties the marker elements.) -/
theorem create_document_eq_contexts (t : Tables) (o : Options) (hc : o.context = .document)
    (rawLines : List (List Char)) :
    createEvents t o rawLines =
      (groupContexts ((rawLines.map (docLineElems t o.lowerCase o.allowed)).flatMap
          (fun l => lineItems (evens l))) []).flatMap (processWords o) := by
  simp only [createEvents, hc]
  apply stream_eq_contexts (processWords o) (processWords_nil o)
  intro l hl
  simp only [List.mem_map] at hl
  obtain ⟨raw, _, rfl⟩ := hl
  exact docLineElems_wellShaped t o.lowerCase o.allowed raw

/-- `context_structure='line'`: one context per line. -/
theorem create_line_eq_contexts (t : Tables) (o : Options) (hc : o.context = .line)
    (rawLines : List (List Char)) :
    createEvents t o rawLines =
      (rawLines.map (lineWords t o.lowerCase o.allowed)).flatMap (processWords o) := by
  simp only [createEvents, hc]
  exact stream_eq_contexts_line _ _

/-- **tokens_clean.** For every corpus, all tables and all options (n-gram
    size ≥ 1): no written token is empty or contains a blank, `_` or TAB, and
    outcome tokens (words) contain no `#` — so every data line splits back
    into exactly the tokens written (feeds C15). -/
theorem tokens_clean (t : Tables) (o : Options) (hn : ∀ n, o.cue = .ngrams n → 1 ≤ n)
    (rawLines : List (List Char)) :
    ∀ ev ∈ createEvents t o rawLines,
      (∀ tok ∈ ev.cues, tok ≠ [] ∧ ' ' ∉ tok ∧ '_' ∉ tok ∧ '\t' ∉ tok) ∧
      (∀ tok ∈ ev.outcomes, tok ≠ [] ∧ ' ' ∉ tok ∧ '_' ∉ tok ∧ '\t' ∉ tok ∧ '#' ∉ tok) := by
  intro ev hev
  obtain ⟨h1, h2⟩ := createEvents_clean t o hn rawLines ev hev
  constructor
  · intro tok ht
    obtain ⟨hne, hc⟩ := h1 tok ht
    exact ⟨hne, fun h => (hc _ h).1 rfl, fun h => (hc _ h).2.1 rfl, fun h => (hc _ h).2.2 rfl⟩
  · intro tok ht
    obtain ⟨hne, hc⟩ := h2 tok ht
    refine ⟨hne, fun h => (hc _ h).1 rfl, fun h => ?_, fun h => ?_, fun h => ?_⟩
    · exact (isSpecial_false (hc _ h).2).2.1 rfl
    · exact (isSpecial_false (hc _ h).2).2.2 rfl
    · exact (isSpecial_false (hc _ h).2).1 rfl

-- NOT PROVED: `'\n' ∉ tok` for every written token, under the hypotheses "no raw line contains
--   '\n'" and "no entry of the lower-casing table contains '\n'" (the cleaning steps only ever
--   replace characters by ' ' and `strip`/`split` only delete; checked on every generated corpus
--   by harness/run_C09.py `compare`: "unclean token").

/-- the two regular expressions the model mirrors are the ones in the source
    (re-extracted into `Generated.lean` on every run). -/
theorem pattern_constants :
    Generated.contextPattern = "(---end.of.document---|---END.OF.DOCUMENT---)" ∧
    Generated.specialChars = "[#_\t]" ∧
    Generated.createHeader = "cues\toutcomes\n" := ⟨rfl, rfl, rfl⟩

/-! ### non-vacuity -/

/-- the docstring example: `(A,B,C,D)`, 3 words → `A, A_B, A_B_C, B_C_D, C_D, D` -/
example : (genConsecutive 3 [1, 2, 3, 4]).map (·.1) = [[1], [1, 2], [1, 2, 3], [2, 3, 4], [3, 4], [4]] := by
  decide
/-- window longer than the context -/
example : (genConsecutive 7 [1, 2]).map (·.1) = [[1], [1, 2], [2]] := by decide
/-- the docstring example: before = 2, after = 1 → `(B, A), (A_C, B), (A_B_D, C), (B_C, D)` -/
example : genWordToWord 2 1 [1, 2, 3, 4] = [([2], [1]), ([1, 3], [2]), ([1, 2, 4], [3]), ([2, 3], [4])] := by
  decide
/-- a two-marker line between two plain lines -/
example : runDocument (fun ws => if ws.isEmpty then [] else [⟨ws, []⟩])
    [[some [1]], [some [2], none, some [3], none, some [4]], [some [5]]]
    = [⟨[1, 2], []⟩, ⟨[3], []⟩, ⟨[4, 5], []⟩] := by decide
example : wellShaped [some [2], none, some [3], none, (some [4] : Option (List Nat))] = true := by decide
/-- the marker matcher: both spellings, arbitrary wildcard characters, case-sensitive -/
example : isMarkerAt "---endXofYdocument---zz".toList = true ∧ isMarkerAt "---END OF DOCUMENT---".toList = true ∧
    isMarkerAt "---End.Of.Document---".toList = false := by decide

end Pyndl.C09
