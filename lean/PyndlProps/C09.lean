/-
  C09 — event-file creation follows the documented windowing model.

  Property theorems only (helper lemmas: PyndlProofs/Create.lean,
  PyndlProofs/CreateLF.lean, PyndlProofs/CreateSpec.lean).  The model
  (PyndlModel/Create.lean) mirrors `pyndl/preprocess.py:79-415`; it is tied to
  the code by harness/run_C09.py on every run.  Token-level theorems are for an
  arbitrary word type `ω`; character-level ones for arbitrary `TextOps`: an
  ARBITRARY string→string lowering function (Python's `str.lower` is
  context-sensitive: final sigma) and an arbitrary whitespace predicate.  The
  instance the driver runs (`Tables.ops`: per-character table supplied by
  Python) equals `str.lower` on strings without U+03A3; `createEvents t o =
  createEventsG t.ops o` (`create_tables_instance`).

  Hypotheses carried by theorems here (for DESIGN §7):
    * n-gram size ≥ 1 (`tokens_clean`);
    * no raw line contains LF, and lowering never introduces LF
      (`LowerKeeps '\n' ops`; for the tables instance the decidable
      `∀ p ∈ t.lower, '\n' ∉ p.2`) (`tokens_no_newline`);
    * `o.allowed.Supported` — for a set expression `e`: `SetExprPlain e` (no `]`,
      `[`, `\`), decidable — in EVERY character-level / effect theorem that
      quantifies over the options: outside this domain the total functions
      `parseSetExpr` / `parseSetExpr?` are not `re`'s reading of `[^e]`
      (`"\\"` raises `re.error` but the model compiles it, `"\\d"` keeps the
      digits, `"a]b"` is the pattern `[^a]b]`: confirmed on /repo).  Inside the
      domain "the model's ranges are what `re` compiles" is trusted and tested
      by the harness.  In `tokens_clean`, `tokens_lowered`, `tokens_no_newline`,
      `create_document_eq_contexts`, … the proof does not use the hypothesis
      (the statement is true of the total model); it is there because the
      statement is a claim about the code only on that domain;
    * the number of lines `TextIOWrapper` yields before a `UnicodeDecodeError`
      (`FileContent.badText readable`) is an input of the effect model.

  What a failing call leaves behind: `create_frame`, `late_failure_exact` (the
  content of the left-over file as an equation, in closed form for both
  context structures), `late_failure_prefix` (corollary), `late_failure_blocks_retry`
  (the earlier `create_frame` claimed "every failing call leaves the file system
  unchanged", which is false for the code: the event file is opened and the
  header written before the first corpus line is read; the second version only
  said "∃ es, es is a prefix of the complete run", which `[]` satisfies).

  MODELLING LIMIT of the raising callable: `raises : Char → Bool` is a set of
  characters — a callable that raises whenever it is handed one of them.  A
  callable whose failure depends on anything else (its n-th call, a counter, the
  time) cannot be expressed; for such a callable the model says nothing.

  The two non-trivial forms of `allowed_symbols` are two code paths of the model
  (`filterRegex`: `re.sub` with the negated set; `filterCallable`: the index
  loop over a copy) — `callable_vs_regex` proves that they agree.

  Lemmas that merely restate a definition are marked "(definitional)" or are at
  the end under "lemmas (not property theorems)".
-/
import PyndlProofs.Create
import PyndlProofs.CreateLF
import PyndlProofs.CreateSpec
import PyndlModel.Generated

namespace Pyndl.C09
open Pyndl.Create List

variable {ω : Type}

/-- **windows_spec.** `consecutive_words` with `number_of_words = n` on a
    context `words` yields, in order, exactly the `|words| + L − 1` windows
    `words[max(i,0) : min(i+L, |words|)]`, `i = k + 1 − L ∈ [1−L, |words|)`,
    `L = min n |words|` (a window longer than the context is cut to the
    context); outcomes are empty. -/
theorem windows_spec (n : Nat) (words : List ω) :
    genConsecutive (n : Int) words =
      (List.range (words.length + min n words.length - 1)).map
        (fun k => ((words.drop (k + 1 - min n words.length)).take
                    (min (k + 1) words.length - (k + 1 - min n words.length)), [])) :=
  genConsecutive_eq n words

/-- every window is a contiguous piece of the context, has between 1 and
    `min n |words|` words (`n ≥ 1`), and there are `|words| + L − 1` of them. -/
theorem windows_shape (n : Nat) (hn : 1 ≤ n) (words : List ω) :
    (genConsecutive (n : Int) words).length = words.length + min n words.length - 1 ∧
    ∀ occ ∈ genConsecutive (n : Int) words,
      occ.1 <:+: words ∧ occ.2 = [] ∧ 1 ≤ occ.1.length ∧ occ.1.length ≤ min n words.length := by
  constructor
  · rw [genConsecutive_eq]; simp
  · intro occ h
    have hi := genConsecutive_mem_infix (n : Int) words occ h
    refine ⟨hi.1, hi.2, ?_⟩
    rw [genConsecutive_eq] at h
    simp only [List.mem_map, List.mem_range] at h
    obtain ⟨k, hk, rfl⟩ := h
    have hw : 1 ≤ words.length := by omega
    have := window_length (min n words.length) words k (Nat.min_le_right _ _) hk (by omega)
    exact this.2

/-- `number_of_words ≤ 0` (any Python int): only empty cue strings, all of
    which `process_occurrences` skips. -/
theorem windows_nonpos (n : Int) (hn : n ≤ 0) (words : List ω) :
    ∀ occ ∈ genConsecutive n words, occ = ([], []) :=
  genConsecutive_nonpos n hn words

/-- **word_to_word_spec.** One occurrence per word, in order; the cues of word
    `i` are the last `before` words before it followed by the first `after`
    words after it, the outcome is the word itself. -/
theorem word_to_word_spec (before after : Nat) (words : List ω) :
    (genWordToWord before after words).length = words.length ∧
    ∀ i (hi : i < words.length),
      (genWordToWord before after words)[i]? =
        some ((words.take i).drop (i - before) ++ (words.drop (i + 1)).take after, [words[i]]) :=
  ⟨genWordToWord_length before after words, genWordToWord_getElem? before after words⟩

/-- **ngrams_spec.** The letter n-grams of a phrase are, in order, its
    `|phrase| − n + 1` contiguous pieces of length `n`; as a set: exactly the
    infixes of length `n`. -/
theorem ngrams_spec (n : Nat) (phrase : List Char) :
    ngrams n phrase = (List.range (phrase.length + 1 - n)).map (fun i => (phrase.drop i).take n) ∧
    (n ≤ phrase.length → ∀ g, g ∈ ngrams n phrase ↔ g.length = n ∧ g <:+: phrase) :=
  ⟨ngrams_eq n phrase, fun hn g => mem_ngrams_iff n phrase g hn⟩

/-- the phrase of an occurrence is `#w1#w2#…#wk#` (first clause definitional). -/
theorem phrase_spec (w v : Word) (vs : List Word) :
    phraseString [w] = '#' :: (w ++ ['#']) ∧
    phraseString (w :: v :: vs) = '#' :: w ++ phraseString (v :: vs) := by
  constructor
  · rfl
  · simp [phraseString, joinHash]

/-- occurrences only use words of the context they were generated from. -/
theorem occurrences_within_context (es : EventStructure) (cs : CueStructure) (words : List ω) :
    ∀ occ ∈ genOccurrences es cs words, ∀ w, w ∈ occ.1 ++ occ.2 → w ∈ words :=
  genOccurrences_mem es cs words

/-- **stream_eq_contexts (line).** With `context_structure='line'` the events
    are those of each line's words, line by line. -/
theorem stream_eq_contexts_line (pw : List ω → List (Ev ω)) (lines : List (List ω)) :
    runLine pw lines = lines.flatMap pw := by
  simpa [runLine] using runLine_eq pw lines []

/-- **stream_eq_contexts (document).** For every corpus whose lines have the
    shape `re.split` with the capturing group produces
    (`[t0, marker, t1, …, marker, tk]`, marker elements contributing no
    words), the streaming machine with its carry-over buffer emits exactly the
    events of the declarative contexts: concatenate the text pieces up to each
    marker; the rest of the corpus is the last context.  (`pw [] = []`:
    `process_words` of no words writes nothing — `processWords_nil` below.) -/
theorem stream_eq_contexts (pw : List ω → List (Ev ω)) (hnil : pw [] = [])
    (lines : List (List (Option (List ω)))) (hs : ∀ l ∈ lines, wellShaped l = true) :
    runDocument pw lines =
      (groupContexts (lines.flatMap (fun l => lineItems (evens l))) []).flatMap pw := by
  have := foldl_docStep pw hnil lines hs [] []
  simpa [runDocument] using this

/-- `process_words([])` writes nothing, for every option combination. -/
theorem processWords_nil (o : Options) : processWords o [] = [] := processWords_nil' o

/-- **no_cross_context.** Every emitted event comes from `process_words` of
    ONE declarative context. -/
theorem no_cross_context (pw : List ω → List (Ev ω)) (hnil : pw [] = [])
    (lines : List (List (Option (List ω)))) (hs : ∀ l ∈ lines, wellShaped l = true) :
    ∀ ev ∈ runDocument pw lines,
      ∃ ctx ∈ groupContexts (lines.flatMap (fun l => lineItems (evens l))) [], ev ∈ pw ctx := by
  intro ev h
  rw [stream_eq_contexts pw hnil lines hs] at h
  exact List.mem_flatMap.mp h

/-- Why the marker elements matter: if the marker were NOT an element of the
    split (`contexts = [t1]`), the `while len(contexts) > 1` loop would not run,
    `words` would not be reset and the closed context would leak into the next
    one.  The machine on such an (impossible) line: -/
example : docStep (fun ws => [⟨ws, []⟩]) ([1], []) [some [2], some [3]]
    = ([1, 2, 3], [⟨[1, 2], []⟩]) := by decide

/-- … and on the real shape (marker element present): no leak. -/
example : docStep (fun ws => [⟨ws, []⟩]) ([1], []) [some [2], none, some [3]]
    = ([3], [⟨[1, 2], []⟩]) := by decide

/-! ### the effect on the file system -/

/-- **no_overwrite.** If the event file exists the call raises (`OSError`) and
    the file system is unchanged — unless `allowed_symbols` is a set expression
    that does not compile, which is detected even earlier (`re.error`,
    preprocess.py:272 precedes :282); the file system is unchanged then, too. -/
theorem no_overwrite (raises : Char → Bool) (ops : TextOps) (o : Options) (_hs : o.allowed.Supported)
    (corpusFile eventFile : String) (fs : FS) (h : (fs eventFile).isSome) :
    createEventFileX raises ops o corpusFile eventFile fs
      = (.error (if o.allowed.badPattern then .badPattern else .eventFileExists), fs) := by
  unfold createEventFileX
  by_cases hb : o.allowed.badPattern = true
  · simp [hb]
  · simp [hb, h]

/-- **a set expression that does not compile** (`''` → `[^]`, a range with
    `lo > hi` such as `z-a`) raises `re.error` before anything is looked at;
    nothing is created.  For plain expressions (`SetExprPlain e`: outside that
    domain `re` also rejects e.g. `"\\"`, which the model does not know).
    (The earlier model totalised these: `''` allowed nothing, `z-a` was an empty
    range.) -/
theorem bad_pattern_raises (raises : Char → Bool) (ops : TextOps) (o : Options) (e : List Char)
    (ha : o.allowed = .expr e) (_hp : SetExprPlain e)
    (hbad : e = [] ∨ ∃ r ∈ parseSetExpr e, r.2.toNat < r.1.toNat)
    (corpusFile eventFile : String) (fs : FS) :
    createEventFileX raises ops o corpusFile eventFile fs = (.error .badPattern, fs) := by
  have : o.allowed.badPattern = true := by
    rw [ha]
    simp only [Allowed.badPattern, parseSetExpr?]
    rcases hbad with rfl | ⟨r, hr, hlt⟩
    · simp
    · split
      · rfl
      · have : (parseSetExpr e).all (fun r => decide (r.1.toNat ≤ r.2.toNat)) = false := by
          rw [List.all_eq_false]
          exact ⟨r, hr, by simp; omega⟩
        simp [this]
  simp [createEventFileX, this]

/-- … and these are the ONLY plain expressions that raise: a non-empty plain
    expression all of whose ranges are ordered compiles, and `re.error` is then
    not the outcome of the call. -/
theorem good_pattern_compiles (raises : Char → Bool) (ops : TextOps) (o : Options) (e : List Char)
    (ha : o.allowed = .expr e) (_hp : SetExprPlain e)
    (hne : e ≠ []) (hord : ∀ r ∈ parseSetExpr e, r.1.toNat ≤ r.2.toNat)
    (corpusFile eventFile : String) (fs : FS) :
    parseSetExpr? e = some (parseSetExpr e) ∧
    (createEventFileX raises ops o corpusFile eventFile fs).1 ≠ .error .badPattern := by
  have h1 : parseSetExpr? e = some (parseSetExpr e) := by
    have : (parseSetExpr e).all (fun r => decide (r.1.toNat ≤ r.2.toNat)) = true := by
      rw [List.all_eq_true]; intro r hr; simpa using hord r hr
    cases e with
    | nil => exact absurd rfl hne
    | cons c cs => simp [parseSetExpr?, this]
  refine ⟨h1, ?_⟩
  have hb : o.allowed.badPattern = false := by rw [ha]; simp [Allowed.badPattern, h1]
  unfold createEventFileX
  simp only [hb, Bool.false_eq_true, if_false]
  split
  · simp
  · split
    · simp
    · split
      · simp
      · split <;> simp

/-- (auxiliary: the frame clauses with the weak form of clause 3; the property
    theorem is `create_frame` below) -/
private theorem create_frame_aux (raises : Char → Bool) (ops : TextOps) (o : Options)
    (corpusFile eventFile : String) (fs : FS) :
    (∀ p, p ≠ eventFile → (createEventFileX raises ops o corpusFile eventFile fs).2 p = fs p) ∧
    (∀ e, (createEventFileX raises ops o corpusFile eventFile fs).1 = .error e → e.early = true →
      (createEventFileX raises ops o corpusFile eventFile fs).2 = fs) ∧
    (∀ e, (createEventFileX raises ops o corpusFile eventFile fs).1 = .error e → e.early = false →
      fs eventFile = none ∧
      ∃ es, (createEventFileX raises ops o corpusFile eventFile fs).2 eventFile = some (.events es)) ∧
    ((createEventFileX raises ops o corpusFile eventFile fs).1 = .ok () →
      fs eventFile = none ∧ ∃ lines, fs corpusFile = some (.corpus lines) ∧
        (createEventFileX raises ops o corpusFile eventFile fs).2 eventFile
          = some (.events (createEventsG ops o lines))) := by
  unfold createEventFileX
  by_cases hb : o.allowed.badPattern = true
  · simp [hb, CreateErr.early]
  · simp only [hb, Bool.false_eq_true, if_false]
    cases hev : fs eventFile with
    | some c => simp [CreateErr.early]
    | none =>
      simp only [Option.isSome_none, Bool.false_eq_true, if_false]
      cases hco : fs corpusFile with
      | none => simp [CreateErr.early]
      | some content =>
        simp only []
        cases hf : (if o.allowed.isCallable = true then
            firstFault raises ops o.lowerCase o.context 0 content.readable.1 else none) with
        | some ki =>
          obtain ⟨k, i⟩ := ki
          simp only []
          refine ⟨fun p hp => by simp [fsSet, hp], by simp [CreateErr.early], ?_, by simp⟩
          intro e _ _
          exact ⟨trivial, writtenBeforeG ops o content.readable.1 k i, by simp [fsSet]⟩
        | none =>
          simp only []
          cases hr : content.readable.2 with
          | true =>
            simp only [if_true]
            refine ⟨fun p hp => by simp [fsSet, hp], by simp [CreateErr.early], ?_, by simp⟩
            intro e _ _
            exact ⟨trivial, writtenBeforeG ops o content.readable.1 content.readable.1.length 0,
              by simp [fsSet]⟩
          | false =>
            simp only [Bool.false_eq_true, if_false]
            refine ⟨fun p hp => by simp [fsSet, hp], by simp, by simp, ?_⟩
            intro _
            refine ⟨trivial, ?_⟩
            cases content with
            | corpus lines => exact ⟨lines, rfl, by simp [fsSet, FileContent.readable]⟩
            | events es => simp [FileContent.readable] at hr
            | other tag => simp [FileContent.readable] at hr
            | badText lines => simp [FileContent.readable] at hr


/-- where a late failure of class `e` strikes in the readable lines of the
    corpus: a raising callable at the first `(line k, element i)` at which it is
    handed one of its raising characters (`firstFault`); the `UnicodeDecodeError`
    of the line iterator after the last readable line (`k = |lines|`, `i = 0`),
    and only if the callable — if there is one — has not raised before. -/
def FaultAt (raises : Char → Bool) (ops : TextOps) (o : Options) (content : FileContent)
    (e : CreateErr) (k i : Nat) : Prop :=
  (e = .callableRaised ∧ o.allowed.isCallable = true ∧
    firstFault raises ops o.lowerCase o.context 0 content.readable.1 = some (k, i)) ∨
  (e = .corpusNotText ∧ content.readable.2 = true ∧ k = content.readable.1.length ∧ i = 0 ∧
    (o.allowed.isCallable = true →
      firstFault raises ops o.lowerCase o.context 0 content.readable.1 = none))

/-- **the content of the left-over file, as an equation**: after a late failure
    the event file holds the header and EXACTLY the events `writtenBeforeG` at the
    position of the fault (`FaultAt`).  (`late_failure_exact` gives
    `writtenBeforeG` in closed form.) -/
theorem late_failure_content (raises : Char → Bool) (ops : TextOps) (o : Options)
    (_hs : o.allowed.Supported)
    (corpusFile eventFile : String) (fs : FS) (e : CreateErr)
    (h : (createEventFileX raises ops o corpusFile eventFile fs).1 = .error e) (hl : e.early = false) :
    ∃ content k i, fs corpusFile = some content ∧ FaultAt raises ops o content e k i ∧
      (createEventFileX raises ops o corpusFile eventFile fs).2 eventFile
        = some (.events (writtenBeforeG ops o content.readable.1 k i)) := by
  unfold createEventFileX at h ⊢
  by_cases hb : o.allowed.badPattern = true
  · simp only [hb, if_true] at h
    cases h; simp [CreateErr.early] at hl
  · simp only [hb, Bool.false_eq_true, if_false] at h ⊢
    cases hev : fs eventFile with
    | some c =>
      simp only [hev, Option.isSome_some, if_true] at h
      cases h; simp [CreateErr.early] at hl
    | none =>
      simp only [hev, Option.isSome_none, Bool.false_eq_true, if_false] at h ⊢
      cases hco : fs corpusFile with
      | none =>
        simp only [hco] at h
        cases h; simp [CreateErr.early] at hl
      | some content =>
        simp only [hco] at h ⊢
        refine ⟨content, ?_⟩
        cases hf : (if o.allowed.isCallable = true then
            firstFault raises ops o.lowerCase o.context 0 content.readable.1 else none) with
        | some ki =>
          obtain ⟨k, i⟩ := ki
          simp only [hf] at h
          cases h
          have hc : o.allowed.isCallable = true := by
            by_cases hc : o.allowed.isCallable = true
            · exact hc
            · simp [hc] at hf
          refine ⟨k, i, rfl, Or.inl ⟨rfl, hc, by simpa [hc] using hf⟩, by simp [fsSet]⟩
        | none =>
          simp only [hf] at h
          simp only []
          cases hr : content.readable.2 with
          | true =>
            simp only [hr, if_true] at h
            cases h
            refine ⟨content.readable.1.length, 0, trivial,
              Or.inr ⟨rfl, hr, rfl, rfl, fun hc => by simpa [hc] using hf⟩, by simp [fsSet]⟩
          | false =>
            simp only [hr, Bool.false_eq_true, if_false] at h
            cases h

/-- **create_frame.**  For every call (every `TextOps`, every raising set of a
    callable, every supported option combination, every file system):
    1. no path other than the event file is touched;
    2. a failure that happens BEFORE the event file is opened — `re.error`,
       existing event file, missing corpus (`CreateErr.early`) — leaves the file
       system unchanged;
    3. a failure AFTER that point — corpus not valid UTF-8, raising callable —
       happens only when the event file did not exist, and leaves an event file
       behind that holds the header and EXACTLY the events written before the
       position of the fault (`FaultAt`; `late_failure_exact` gives them in
       closed form);
    4. a successful call happens only when the event file did not exist and the
       corpus is a text file, and creates the event file with exactly the events
       of the model.

    (History: the first version's second conjunct "every failing call leaves the
    file system unchanged" is false for the code — a corpus `b'\xff'` leaves a
    header-only `events.tab.gz`; the second version's clause 3 said only
    "∃ es, the file holds es", which is no content at all.) -/
theorem create_frame (raises : Char → Bool) (ops : TextOps) (o : Options) (hs : o.allowed.Supported)
    (corpusFile eventFile : String) (fs : FS) :
    (∀ p, p ≠ eventFile → (createEventFileX raises ops o corpusFile eventFile fs).2 p = fs p) ∧
    (∀ e, (createEventFileX raises ops o corpusFile eventFile fs).1 = .error e → e.early = true →
      (createEventFileX raises ops o corpusFile eventFile fs).2 = fs) ∧
    (∀ e, (createEventFileX raises ops o corpusFile eventFile fs).1 = .error e → e.early = false →
      fs eventFile = none ∧
      ∃ content k i, fs corpusFile = some content ∧ FaultAt raises ops o content e k i ∧
        (createEventFileX raises ops o corpusFile eventFile fs).2 eventFile
          = some (.events (writtenBeforeG ops o content.readable.1 k i))) ∧
    ((createEventFileX raises ops o corpusFile eventFile fs).1 = .ok () →
      fs eventFile = none ∧ ∃ lines, fs corpusFile = some (.corpus lines) ∧
        (createEventFileX raises ops o corpusFile eventFile fs).2 eventFile
          = some (.events (createEventsG ops o lines))) := by
  obtain ⟨c1, c2, c3, c4⟩ := create_frame_aux raises ops o corpusFile eventFile fs
  exact ⟨c1, c2, fun e h hl => ⟨(c3 e h hl).1,
    late_failure_content raises ops o hs corpusFile eventFile fs e h hl⟩, c4⟩

/-- **what a late failure leaves behind, in closed form.**  With `lines` the
    lines the iterator yields before it fails (all lines of a text corpus), `k`
    the line in which the fault strikes (`k = |lines|` for the
    `UnicodeDecodeError` of the iterator) and, for document contexts, `j` the
    number of markers of line `k` that precede the fault (the callable is handed
    text piece `j`, element `2j` of the split):

    * `context_structure='line'`: the file is exactly the file a complete,
      successful call writes for the corpus `lines[:k]`;
    * `context_structure='document'`: the file holds exactly `process_words` of
      every context CLOSED by a marker before the fault — the markers of the
      lines before `k` and the first `j` markers of line `k` — in order, and
      nothing of the open context (the carry-over buffer is lost). -/
theorem late_failure_exact (raises : Char → Bool) (ops : TextOps) (o : Options)
    (hs : o.allowed.Supported)
    (corpusFile eventFile : String) (fs : FS) (e : CreateErr)
    (h : (createEventFileX raises ops o corpusFile eventFile fs).1 = .error e) (hl : e.early = false) :
    ∃ content k j, fs corpusFile = some content ∧
      ((e = .callableRaised ∧ ∃ i, firstFault raises ops o.lowerCase o.context 0 content.readable.1 = some (k, i) ∧
          (o.context = .document → i = 2 * j))
        ∨ (e = .corpusNotText ∧ k = content.readable.1.length ∧ j = 0)) ∧
      (o.context = .line →
        (createEventFileX raises ops o corpusFile eventFile fs).2 eventFile
          = some (.events (createEventsG ops o (content.readable.1.take k)))) ∧
      (o.context = .document →
        (createEventFileX raises ops o corpusFile eventFile fs).2 eventFile
          = some (.events ((closedContexts (itemsBefore
              (content.readable.1.map (docLineElemsG ops o.lowerCase o.allowed)) k j)).flatMap
                (processWords o)))) := by
  obtain ⟨content, k, i, hco, hfa, hfile⟩ :=
    late_failure_content raises ops o hs corpusFile eventFile fs e h hl
  refine ⟨content, k, i / 2, hco, ?_, ?_, ?_⟩
  · rcases hfa with ⟨he, _, hff⟩ | ⟨he, _, hk, hi, _⟩
    · refine Or.inl ⟨he, i, hff, fun hdoc => ?_⟩
      rw [hdoc] at hff
      have := firstFault_document_even raises ops o.lowerCase _ 0 k i hff
      omega
    · exact Or.inr ⟨he, hk, by rw [hi]⟩
  · intro hline
    rw [hfile, writtenBeforeG_line ops o hline]
  · intro hdoc
    rw [hfile]
    rcases hfa with ⟨_, _, hff⟩ | ⟨_, _, hk, hi, _⟩
    · rw [hdoc] at hff
      have hev := firstFault_document_even raises ops o.lowerCase _ 0 k i hff
      obtain ⟨_, h2, h3⟩ := firstFault_spec raises ops o.lowerCase .document _ 0 k i hff
      simp only [Nat.sub_zero] at h2 h3
      rw [seenG_length ops o.lowerCase o.allowed] at h3
      have hi2 : i = 2 * (i / 2) := by omega
      rw [← writtenBeforeG_document ops o hdoc _ k (i / 2) (Or.inl ⟨h2, by rw [← hi2]; exact h3⟩), ← hi2]
    · subst hk; subst hi
      rw [← writtenBeforeG_document ops o hdoc _ _ (0 / 2) (Or.inr ⟨Nat.le_refl _, rfl⟩)]

/-- **corollary: what a late failure leaves behind is a prefix of the complete
    run**: the event file holds the header and an initial segment of the events
    the same call writes on the readable lines of the corpus when nothing fails
    (same `TextOps`, same options; a callable that does not raise).  In
    particular every line of the left-over file is a complete, correct event.
    (WHICH initial segment: `late_failure_exact`.) -/
theorem late_failure_prefix (raises : Char → Bool) (ops : TextOps) (o : Options)
    (_hs : o.allowed.Supported)
    (corpusFile eventFile : String) (fs : FS) (e : CreateErr)
    (h : (createEventFileX raises ops o corpusFile eventFile fs).1 = .error e) (hl : e.early = false) :
    ∃ content es, fs corpusFile = some content ∧
      (createEventFileX raises ops o corpusFile eventFile fs).2 eventFile = some (.events es) ∧
      es <+: createEventsG ops o content.readable.1 := by
  unfold createEventFileX at h ⊢
  by_cases hb : o.allowed.badPattern = true
  · simp only [hb, if_true] at h
    cases h; simp [CreateErr.early] at hl
  · simp only [hb, Bool.false_eq_true, if_false] at h ⊢
    cases hev : fs eventFile with
    | some c =>
      simp only [hev, Option.isSome_some, if_true] at h
      cases h; simp [CreateErr.early] at hl
    | none =>
      simp only [hev, Option.isSome_none, Bool.false_eq_true, if_false] at h ⊢
      cases hco : fs corpusFile with
      | none =>
        simp only [hco] at h
        cases h; simp [CreateErr.early] at hl
      | some content =>
        simp only [hco] at h ⊢
        refine ⟨content, ?_⟩
        cases hf : (if o.allowed.isCallable = true then
            firstFault raises ops o.lowerCase o.context 0 content.readable.1 else none) with
        | some ki =>
          obtain ⟨k, i⟩ := ki
          simp only []
          refine ⟨writtenBeforeG ops o content.readable.1 k i, trivial, by simp [fsSet], ?_⟩
          have hff : firstFault raises ops o.lowerCase o.context 0 content.readable.1 = some (k, i) := by
            by_cases hc : o.allowed.isCallable = true
            · simpa [hc] using hf
            · simp [hc] at hf
          obtain ⟨_, h2, h3⟩ := firstFault_spec raises ops o.lowerCase o.context _ 0 k i hff
          simp only [Nat.sub_zero] at h2 h3
          apply writtenBeforeG_prefix
          intro hdoc
          left
          rw [hdoc, seenG_length ops o.lowerCase o.allowed] at h3
          exact ⟨h2, h3⟩
        | none =>
          simp only [hf] at h
          simp only []
          cases hr : content.readable.2 with
          | true =>
            simp only [if_true]
            refine ⟨writtenBeforeG ops o content.readable.1 content.readable.1.length 0, trivial,
              by simp [fsSet], ?_⟩
            apply writtenBeforeG_prefix
            intro _
            right
            exact ⟨Nat.le_refl _, rfl⟩
          | false =>
            simp only [hr, Bool.false_eq_true, if_false] at h
            cases h

/-- **after a late failure the same call cannot simply be repeated**: the
    left-over event file makes every further `create_event_file` on that path
    raise `OSError` ("file exits. Remove file and start again.") and change
    nothing — observed on /repo. -/
theorem late_failure_blocks_retry (raises : Char → Bool) (ops : TextOps) (o : Options)
    (hs : o.allowed.Supported)
    (corpusFile eventFile : String) (fs : FS) (e : CreateErr)
    (h : (createEventFileX raises ops o corpusFile eventFile fs).1 = .error e) (hl : e.early = false)
    (raises' : Char → Bool) (ops' : TextOps) (o' : Options) (hs' : o'.allowed.Supported)
    (hpat : o'.allowed.badPattern = false)
    (corpusFile' : String) :
    createEventFileX raises' ops' o' corpusFile' eventFile
        (createEventFileX raises ops o corpusFile eventFile fs).2
      = (.error .eventFileExists, (createEventFileX raises ops o corpusFile eventFile fs).2) := by
  obtain ⟨_, _, _, _, _, _, hes⟩ := ((create_frame raises ops o hs corpusFile eventFile fs).2.2.1 e h hl)
  have := no_overwrite raises' ops' o' hs' corpusFile' eventFile
    (createEventFileX raises ops o corpusFile eventFile fs).2 (by rw [hes]; rfl)
  rw [this, hpat]; rfl

/-- the position at which a raising callable strikes exists: `k` is a line of
    the corpus and `i` an element of its split. -/
theorem callable_fault_position (raises : Char → Bool) (ops : TextOps) (lc : Bool)
    (ctx : ContextStructure) (lines : List (List Char)) (k i : Nat)
    (h : firstFault raises ops lc ctx 0 lines = some (k, i)) :
    k < lines.length ∧ i < (seenG ops lc ctx (lines.getD k [])).length := by
  obtain ⟨_, h2, h3⟩ := firstFault_spec raises ops lc ctx lines 0 k i h
  exact ⟨by simpa using h2, by simpa using h3⟩

/-! Non-vacuity of the effect theorems, on the runs made against /repo
    (`context_structure='document'`, `event_structure='line'`,
    `cue_structure='word_to_word'`, `remove_duplicates=False`):

    * corpus not UTF-8 from its first chunk (`.other`) ⇒ `UnicodeDecodeError`,
      header-only file;
    * 2 readable lines, then the decoder fails ⇒ the closed context `a b c` is
      in the file, the carry-over buffer `d` is lost;
    * a callable that raises on `Q`, corpus
      `a b / c d ---end.of.document--- e f ---END.OF.DOCUMENT--- g Q ---end.of.document--- h / z`
      ⇒ fault in line 1, element 4; left: `a_b_c_d`, `e_f` (what /repo leaves);
    * missing corpus / existing event file / `z-a` ⇒ nothing changes;
    * the retry after the late failure raises `OSError`. -/
example :
    let ops : TextOps := ⟨id, fun c => c == ' '⟩
    let o : Options := ⟨.all, .document, .line, .wordToWord, false, false⟩
    let fs1 : FS := fun p => if p = "c" then some (.other 7) else none
    let fs2 : FS := fun p => if p = "c" then
      some (.badText ["a b".toList, "c ---end.of.document--- d".toList]) else none
    let r1 := createEventFileX (fun _ => false) ops o "c" "e" fs1
    let r2 := createEventFileX (fun _ => false) ops o "c" "e" fs2
    errOf r1.1 = some .corpusNotText ∧ r1.2 "e" = some (.events []) ∧
    errOf r2.1 = some .corpusNotText ∧
    r2.2 "e" = some (.events [⟨["a".toList, "b".toList, "c".toList], ["a".toList, "b".toList, "c".toList]⟩]) ∧
    -- the complete run over the readable lines also writes the buffered `d`
    createEventsG ops o ["a b".toList, "c ---end.of.document--- d".toList]
      = [⟨["a".toList, "b".toList, "c".toList], ["a".toList, "b".toList, "c".toList]⟩,
         ⟨["d".toList], ["d".toList]⟩] ∧
    -- retry on the resulting file system
    errOf (createEventFileX (fun _ => false) ops o "c" "e" r2.2).1 = some .eventFileExists ∧
    -- early failures
    errOf (createEventFileX (fun _ => false) ops o "nope" "e" fs2).1 = some .corpusMissing ∧
    (createEventFileX (fun _ => false) ops o "nope" "e" fs2).2 "e" = none ∧
    errOf (createEventFileX (fun _ => false) ops o "c" "c" fs2).1 = some .eventFileExists ∧
    errOf (createEventFileX (fun _ => false) ops ⟨.expr "z-a".toList, .document, .line, .wordToWord, false, false⟩
      "c" "e" fs2).1 = some .badPattern ∧
    errOf (createEventFileX (fun _ => false) ops ⟨.expr [], .document, .line, .wordToWord, false, false⟩
      "c" "c" fs2).1 = some .badPattern := by
  decide +kernel

/-- `late_failure_prefix` and `late_failure_blocks_retry` APPLIED (all
    hypotheses instantiated by evaluation) to the undecodable corpus above. -/
example :
    let ops : TextOps := ⟨id, fun c => c == ' '⟩
    let o : Options := ⟨.all, .document, .line, .wordToWord, false, false⟩
    let fs2 : FS := fun p => if p = "c" then
      some (.badText ["a b".toList, "c ---end.of.document--- d".toList]) else none
    (∃ content es, fs2 "c" = some content ∧
      (createEventFileX (fun _ => false) ops o "c" "e" fs2).2 "e" = some (.events es) ∧
      es <+: createEventsG ops o content.readable.1) ∧
    createEventFileX (fun _ => false) ops o "c" "e" (createEventFileX (fun _ => false) ops o "c" "e" fs2).2
      = (.error .eventFileExists, (createEventFileX (fun _ => false) ops o "c" "e" fs2).2) := by
  intro ops o fs2
  have h : (createEventFileX (fun _ => false) ops o "c" "e" fs2).1 = .error .corpusNotText := by
    decide +kernel
  exact ⟨late_failure_prefix _ ops o trivial "c" "e" fs2 .corpusNotText h rfl,
    late_failure_blocks_retry _ ops o trivial "c" "e" fs2 .corpusNotText h rfl _ ops o trivial rfl "c"⟩

/-- `create_frame` and `late_failure_exact` APPLIED to a raising callable
    (`allowed_symbols` = a callable accepting `a-z` and `Q` that raises on `Q`),
    document contexts, corpus
    `a b / c d ---end.of.document--- e f ---END.OF.DOCUMENT--- g Q ---end.of.document--- h / z`:
    the fault is in line 1, text piece 2 (element 4 of the split); the left-over
    file holds exactly the two contexts closed before it (`a b c d`, `e f`) —
    nothing of `g Q`. -/
example :
    let ops : TextOps := ⟨id, fun c => c == ' '⟩
    let o : Options := ⟨.table [('a', 'z'), ('Q', 'Q')], .document, .line, .wordToWord, false, false⟩
    let lines := ["a b".toList,
      "c d ---end.of.document--- e f ---END.OF.DOCUMENT--- g Q ---end.of.document--- h".toList, "z".toList]
    let fs : FS := fun p => if p = "c" then some (.corpus lines) else none
    let r := createEventFileX (fun c => c == 'Q') ops o "c" "e" fs
    -- clause 1 and clause 3 of `create_frame`
    (∀ p, p ≠ "e" → r.2 p = fs p) ∧
    (fs "e" = none ∧ ∃ content k i, fs "c" = some content ∧
        FaultAt (fun c => c == 'Q') ops o content .callableRaised k i ∧
        r.2 "e" = some (.events (writtenBeforeG ops o content.readable.1 k i))) ∧
    -- `late_failure_exact`
    (∃ content k j, fs "c" = some content ∧
      ((CreateErr.callableRaised = .callableRaised ∧
          ∃ i, firstFault (fun c => c == 'Q') ops o.lowerCase o.context 0 content.readable.1 = some (k, i) ∧
            (o.context = .document → i = 2 * j))
        ∨ (CreateErr.callableRaised = .corpusNotText ∧ k = content.readable.1.length ∧ j = 0)) ∧
      (o.context = .line → r.2 "e" = some (.events (createEventsG ops o (content.readable.1.take k)))) ∧
      (o.context = .document → r.2 "e" = some (.events ((closedContexts (itemsBefore
          (content.readable.1.map (docLineElemsG ops o.lowerCase o.allowed)) k j)).flatMap (processWords o))))) ∧
    -- … and what the closed form evaluates to at the fault position `(1, 2)`
    (closedContexts (itemsBefore (lines.map (docLineElemsG ops o.lowerCase o.allowed)) 1 2)).flatMap (processWords o)
      = [⟨["a".toList, "b".toList, "c".toList, "d".toList], ["a".toList, "b".toList, "c".toList, "d".toList]⟩,
         ⟨["e".toList, "f".toList], ["e".toList, "f".toList]⟩] := by
  intro ops o lines fs r
  have h : r.1 = .error .callableRaised := by decide +kernel
  have hf := create_frame (fun c => c == 'Q') ops o trivial "c" "e" fs
  exact ⟨hf.1, hf.2.2.1 _ h rfl,
    late_failure_exact (fun c => c == 'Q') ops o trivial "c" "e" fs .callableRaised h rfl,
    by decide +kernel⟩

/-- `late_failure_exact`, `'line'` contexts, APPLIED: the left-over file IS the
    event file of the corpus cut before the faulty line. -/
example :
    let ops : TextOps := ⟨id, fun c => c == ' '⟩
    let o : Options := ⟨.table [('a', 'z'), ('Q', 'Q')], .line, .line, .wordToWord, false, false⟩
    let lines := ["a b".toList, "c Q".toList, "z".toList]
    let fs : FS := fun p => if p = "c" then some (.corpus lines) else none
    (createEventFileX (fun c => c == 'Q') ops o "c" "e" fs).2 "e"
      = some (.events (createEventsG ops o (lines.take 1))) := by
  intro ops o lines fs
  have h : (createEventFileX (fun c => c == 'Q') ops o "c" "e" fs).1 = .error .callableRaised := by
    decide +kernel
  obtain ⟨content, k, j, hco, hpos, hline, _⟩ :=
    late_failure_exact (fun c => c == 'Q') ops o trivial "c" "e" fs .callableRaised h rfl
  have hc : content = .corpus lines := by
    have : fs "c" = some (.corpus lines) := rfl
    rw [this] at hco; exact (Option.some.inj hco).symm
  subst hc
  have hk : k = 1 := by
    rcases hpos with ⟨_, i, hff, _⟩ | ⟨he, _⟩
    · have : firstFault (fun c => c == 'Q') ops o.lowerCase o.context 0 lines = some (1, 0) := by
        decide +kernel
      have e := this.symm.trans hff
      exact ((Prod.mk.inj (Option.some.inj e)).1).symm
    · cases he
  subst hk
  exact hline rfl

example :
    let ops : TextOps := ⟨id, fun c => c == ' '⟩
    let o : Options := ⟨.table [('a', 'z'), ('Q', 'Q')], .document, .line, .wordToWord, false, false⟩
    let lines := ["a b".toList,
      "c d ---end.of.document--- e f ---END.OF.DOCUMENT--- g Q ---end.of.document--- h".toList, "z".toList]
    let fs : FS := fun p => if p = "c" then some (.corpus lines) else none
    let r := createEventFileX (fun c => c == 'Q') ops o "c" "e" fs
    firstFault (fun c => c == 'Q') ops false .document 0 lines = some (1, 4) ∧
    errOf r.1 = some .callableRaised ∧
    r.2 "e" = some (.events [⟨["a".toList, "b".toList, "c".toList, "d".toList],
                              ["a".toList, "b".toList, "c".toList, "d".toList]⟩,
                             ⟨["e".toList, "f".toList], ["e".toList, "f".toList]⟩]) ∧
    -- with a callable that does not raise the call succeeds
    errOf (createEventFileX (fun _ => false) ops o "c" "e" fs).1 = none ∧
    -- `context_structure='line'`: the events of the lines before the fault
    (createEventFileX (fun c => c == 'Q') ops
        ⟨.table [('a', 'z'), ('Q', 'Q')], .line, .line, .wordToWord, false, false⟩ "c" "e" fs).2 "e"
      = some (.events [⟨["a".toList, "b".toList], ["a".toList, "b".toList]⟩]) := by
  decide +kernel

/-! ### the character level, for arbitrary `TextOps` -/

/-- (definitional: `cases o.context <;> rfl`) the tables instance the driver
    runs is the general model at `t.ops` (so every theorem below holds for it). -/
theorem create_tables_instance (t : Tables) (o : Options) (rawLines : List (List Char)) :
    createEvents t o rawLines = createEventsG t.ops o rawLines :=
  createEvents_eq_G t o rawLines

/-- **stream_eq_contexts at the character level.** For every corpus (every
    list of raw lines, any number of markers per line, any `TextOps`) the events
    `create_event_file(context_structure='document')` writes are exactly
    `process_words` of each declarative context: the marker-free text pieces
    concatenated up to each marker.  (The shape hypothesis of the token-level
    theorem is discharged: `re.split` with the capturing group always yields
    `[t0, marker, t1, …]` and `process_context` empties the marker elements.) -/
theorem create_document_eq_contexts (ops : TextOps) (o : Options) (_hs : o.allowed.Supported)
    (hc : o.context = .document) (rawLines : List (List Char)) :
    createEventsG ops o rawLines =
      (groupContexts ((rawLines.map (docLineElemsG ops o.lowerCase o.allowed)).flatMap
          (fun l => lineItems (evens l))) []).flatMap (processWords o) := by
  simp only [createEventsG, hc]
  apply stream_eq_contexts (processWords o) (processWords_nil o)
  intro l hl
  simp only [List.mem_map] at hl
  obtain ⟨raw, _, rfl⟩ := hl
  exact docLineElemsG_wellShaped ops o.lowerCase o.allowed raw

/-- `context_structure='line'`: one context per line. -/
theorem create_line_eq_contexts (ops : TextOps) (o : Options) (_hs : o.allowed.Supported)
    (hc : o.context = .line) (rawLines : List (List Char)) :
    createEventsG ops o rawLines =
      (rawLines.map (lineWordsG ops o.lowerCase o.allowed)).flatMap (processWords o) := by
  simp only [createEventsG, hc]
  exact stream_eq_contexts_line _ _

/-! ### `context_pattern.split` is specified completely

`no_cross_context` above is about the element lists the splitter returns; the
following theorems say that the model's splitter returns THE split of the line —
a splitter that missed a marker (and so merged two contexts) does not satisfy
them. -/

/-- **the fuel of `contextSplit` is sufficient**: every fuel beyond the length of
    the line gives the same result (nothing is cut off at fuel 0). -/
theorem split_fuel_irrelevant (s : List Char) (fuel : Nat) (h : s.length < fuel) :
    splitAux fuel s [] = contextSplit s :=
  contextSplit_fuel s fuel h

/-- **split_spec.**  `context_pattern.split(s)` is `[t0, m1, t1, …, mk, tk]` with
    1. `t0 ++ m1 ++ t1 ++ … ++ tk = s` (nothing dropped, nothing invented);
    2. every `mj` is a match of the pattern (21 characters) and no match starts
       at any position of any `tj` — not even one running into `m(j+1)`
       (`SplitOK`: leftmost, non-overlapping);
    3. any list with properties 1 and 2 is this list. -/
theorem split_spec (s : List Char) :
    (contextSplit s).flatten = s ∧ SplitOK (contextSplit s) ∧
    ∀ l, SplitOK l → l.flatten = s → l = contextSplit s :=
  ⟨contextSplit_flatten s, contextSplit_ok s, fun l h1 h2 => contextSplit_unique s l h1 h2⟩

/-- no position inside a text element is the start of a match; hence
    `process_context` (marker removal) is the identity on text elements and a
    line without a match is one element. -/
theorem split_text_pieces (s : List Char) :
    (∀ t ∈ evens (contextSplit s), ∀ i, i < t.length → isMarkerAt (t.drop i) = false) ∧
    (∀ t ∈ evens (contextSplit s), removeMarkers t = t) ∧
    ((∀ i, i < s.length → isMarkerAt (s.drop i) = false) → contextSplit s = [s]) := by
  refine ⟨fun t ht i hi => ?_, fun t ht => removeMarkers_text_piece s t ht, fun h => ?_⟩
  · simpa using (contextSplit_ok s).local t ht i hi
  · exact contextSplit_of_noMarker s (fun i hi => by simpa using h i hi)

/-! ### cleaning -/

/-- **tokens_clean.** For every corpus, all `TextOps` and all options (n-gram
    size ≥ 1): no written token is empty or contains a blank, `_` or TAB, and
    outcome tokens (words) contain no `#` — so every data line splits back
    into exactly the tokens written (feeds C15). -/
theorem tokens_clean (ops : TextOps) (o : Options) (_hs : o.allowed.Supported)
    (hn : ∀ n, o.cue = .ngrams n → 1 ≤ n) (rawLines : List (List Char)) :
    ∀ ev ∈ createEventsG ops o rawLines,
      (∀ tok ∈ ev.cues, tok ≠ [] ∧ ' ' ∉ tok ∧ '_' ∉ tok ∧ '\t' ∉ tok) ∧
      (∀ tok ∈ ev.outcomes, tok ≠ [] ∧ ' ' ∉ tok ∧ '_' ∉ tok ∧ '\t' ∉ tok ∧ '#' ∉ tok) := by
  intro ev hev
  obtain ⟨h1, h2⟩ := createEventsG_clean ops o hn rawLines ev hev
  constructor
  · intro tok ht
    obtain ⟨hne, hc⟩ := h1 tok ht
    exact ⟨hne, fun h => (hc _ h).1 rfl, fun h => (hc _ h).2.1 rfl, fun h => (hc _ h).2.2 rfl⟩
  · intro tok ht
    obtain ⟨hne, hc⟩ := h2 tok ht
    refine ⟨hne, fun h => (hc _ h).1 rfl, fun h => ?_, fun h => ?_, fun h => ?_⟩
    · exact (isSpecial_false (hc _ h).2).2.1 rfl
    · exact (isSpecial_false (hc _ h).2).2.2 rfl
    · exact (isSpecial_false (hc _ h).2).1 rfl

/-- **tokens_allowed** (the symbol filter): every character of every written
    outcome token satisfies `allowed_symbols`; every character of every cue
    token does, or is the `#` of the n-gram phrase.  For the three forms of
    `allowed_symbols` (`'all'`: `ok` is constantly true; a set expression must be
    plain — `Allowed.Supported` —: for `"\\d"` the code keeps digits, which
    `Allowed.ok` does not know).  The proof goes through BOTH filter code paths
    (`filterSymbols_eq_map`: the `re.sub` scan and the index loop let through
    exactly the characters with `Allowed.ok`). -/
theorem tokens_allowed (ops : TextOps) (o : Options) (_hs : o.allowed.Supported)
    (rawLines : List (List Char)) :
    ∀ ev ∈ createEventsG ops o rawLines,
      (∀ tok ∈ ev.outcomes, ∀ c ∈ tok, o.allowed.ok c = true) ∧
      (∀ tok ∈ ev.cues, ∀ c ∈ tok, o.allowed.ok c = true ∨ c = '#') := by
  refine createEventsG_chars (fun c => o.allowed.ok c = true) ops o ?_ rawLines
  intro line c hc hsp
  simp only [processLineG] at hc
  rcases mem_filterSymbols_ok hc with h | h
  · exact absurd h hsp
  · exact h

/-- **tokens_lowered** (`lower_case=True`): whatever is true of every character
    of every lowered string (`L`) is true of every character of every written
    outcome token, and of every character other than `#` of every cue token —
    the tokens are made of lowered text only.  Stated for an ARBITRARY lowering
    function.

    Which `L` holds of Python's `str.lower`?  NOT "`c` is not an upper-case
    letter" (`not c.isupper()`): 549 code points of CPython 3.12 are upper-case
    (`isupper()`) and have no lower-case mapping — `ϒ` U+03D2, `ℂ` U+2102, … —
    so they survive lowering unchanged and `hL` is false for that `L`.  The
    correct reading is the fixed-point form `L c := (lower [c] = [c])`
    ("`c.lower() == c`"): it holds of every character of `s.lower()` for every
    string `s` (checked over all code points, and for the final-sigma context).
    For the tables instance `hL` is a decidable check of the table; the example
    below uses `L c := c ≠ 'Σ' ∧ c ≠ 'Α'` for a two-letter lowering function. -/
theorem tokens_lowered (ops : TextOps) (o : Options) (_hs : o.allowed.Supported)
    (hlc : o.lowerCase = true)
    (L : Char → Prop) (hL : ∀ s, ∀ c ∈ ops.lower s, L c) (rawLines : List (List Char)) :
    ∀ ev ∈ createEventsG ops o rawLines,
      (∀ tok ∈ ev.outcomes, ∀ c ∈ tok, L c) ∧ (∀ tok ∈ ev.cues, ∀ c ∈ tok, L c ∨ c = '#') := by
  refine createEventsG_chars L ops o ?_ rawLines
  intro line c hc hsp
  rcases mem_processLineG_src hc with h | ⟨h, _⟩ | ⟨_, h⟩
  · exact absurd h hsp
  · rw [hlc] at h; cases h
  · exact hL _ c h

/-- (definitional: unfolds `lowered ops false line = line`) `lower_case=False`:
    the lowering function is never called. -/
theorem lower_unused (l1 l2 : List Char → List Char) (isWs : Char → Bool) (o : Options)
    (hlc : o.lowerCase = false) (rawLines : List (List Char)) :
    createEventsG ⟨l1, isWs⟩ o rawLines = createEventsG ⟨l2, isWs⟩ o rawLines := by
  have h1 : lineWordsG ⟨l1, isWs⟩ false o.allowed = lineWordsG ⟨l2, isWs⟩ false o.allowed := by
    funext raw; simp [lineWordsG, processLineG, lowered]
  have h2 : docLineElemsG ⟨l1, isWs⟩ false o.allowed = docLineElemsG ⟨l2, isWs⟩ false o.allowed := by
    funext raw
    have : elemWordsG ⟨l1, isWs⟩ false o.allowed = elemWordsG ⟨l2, isWs⟩ false o.allowed := by
      funext piece; simp [elemWordsG, processLineG, lowered]
    simp [docLineElemsG, processLineG, lowered, this]
  simp only [createEventsG, hlc, h1, h2]

/-- the order of the cleaning steps (preprocess.py:338-347) is lower → special
    characters → symbol filter; it matters: an upper-case letter outside
    `allowed_symbols='a-z'` survives as its lower-case form only because
    lowering comes first, and `#`/`_`/TAB never reach the symbol filter. -/
example :
    processLineG ⟨fun s => s.map Char.toLower, fun c => c == ' '⟩ true (.expr "a-z".toList) "Ab_c#D é".toList
      = "ab c d  ".toList := by decide +kernel

/-- **callable vs. set expression**: a (plain) set expression `e` and a callable
    that accepts exactly the characters the expression denotes (`rs`: the table
    of the callable; e.g. `rs = parseSetExpr e`, or the same ranges in another
    order, or merged) write the same events.

    This is a statement about TWO CODE PATHS of the model of `filter_symbols`:
    the set expression goes through `filterRegex` (preprocess.py:272-274:
    `re.compile('[^…]')`, `sub`: a left-to-right scan that replaces every
    character the NEGATED set matches), the callable through `filterCallable`
    (263-269: an index loop writing blanks into a copy of the line).  The proof
    shows both to be the same per-character map (`filterRegex_eq_filterCallable`).
    What remains trusted (and tested): that `parseSetExpr e` is the item list
    `re` compiles for `[^e]` when `e` is plain.

    (The earlier version was `cases ctx <;> rfl`: the filter was DEFINED through
    `Allowed.ok`, which made the two forms one code path.) -/
theorem callable_vs_regex (ops : TextOps) (e : List Char) (_hp : SetExprPlain e)
    (rs : List (Char × Char)) (hrs : ∀ c, inRanges rs c = inRanges (parseSetExpr e) c)
    (ctx : ContextStructure)
    (es : EventStructure) (cs : CueStructure) (lc rd : Bool) (rawLines : List (List Char)) :
    createEventsG ops ⟨.expr e, ctx, es, cs, lc, rd⟩ rawLines
      = createEventsG ops ⟨.table rs, ctx, es, cs, lc, rd⟩ rawLines :=
  createEventsG_congr_allowed ops (.expr e) (.table rs)
    (funext fun s => filterRegex_eq_filterCallable (parseSetExpr e) (inRanges rs) hrs ' ' s)
    ctx es cs lc rd rawLines

/-- … on the file system: when the expression compiles and the callable does
    not raise, the two calls do the same to every file system (same result, same
    event file — also what is left behind when the corpus is not valid UTF-8). -/
theorem callable_vs_regex_file (ops : TextOps) (e : List Char) (hp : SetExprPlain e)
    (rs : List (Char × Char)) (hrs : ∀ c, inRanges rs c = inRanges (parseSetExpr e) c)
    (he : (parseSetExpr? e).isSome) (ctx : ContextStructure)
    (es : EventStructure) (cs : CueStructure) (lc rd : Bool) (corpusFile eventFile : String) (fs : FS) :
    createEventFileX (fun _ => false) ops ⟨.expr e, ctx, es, cs, lc, rd⟩ corpusFile eventFile fs
      = createEventFileX (fun _ => false) ops ⟨.table rs, ctx, es, cs, lc, rd⟩ corpusFile eventFile fs := by
  have hfs : filterSymbols (.expr e) = filterSymbols (.table rs) :=
    funext fun s => filterRegex_eq_filterCallable (parseSetExpr e) (inRanges rs) hrs ' ' s
  have hev : ∀ lines, createEventsG ops ⟨.expr e, ctx, es, cs, lc, rd⟩ lines
      = createEventsG ops ⟨.table rs, ctx, es, cs, lc, rd⟩ lines :=
    fun lines => callable_vs_regex ops e hp rs hrs ctx es cs lc rd lines
  have hwb : ∀ lines k i, writtenBeforeG ops ⟨.expr e, ctx, es, cs, lc, rd⟩ lines k i
      = writtenBeforeG ops ⟨.table rs, ctx, es, cs, lc, rd⟩ lines k i :=
    fun lines k i => writtenBeforeG_congr_allowed ops _ _ hfs ctx es cs lc rd lines k i
  have hnone : (parseSetExpr? e).isNone = false := by
    cases h : parseSetExpr? e with
    | none => rw [h] at he; cases he
    | some _ => rfl
  simp only [createEventFileX, Allowed.badPattern, Allowed.isCallable, firstFault_never, hev, hwb, hnone,
    Bool.false_eq_true, if_false, ite_self]

/-- `callable_vs_regex(_file)` APPLIED: `allowed_symbols='a-cx-'` against a
    callable given by the SAME set written differently (`x`, `-`, `a-b`, `c`),
    `lower_case=True`, document contexts, trigram cues: all hypotheses
    instantiated (`hrs` is a statement about all characters: proved, not
    decided). -/
example (ops : TextOps) (rawLines : List (List Char)) (fs : FS) :
    createEventsG ops ⟨.expr "a-cx-".toList, .document, .consecutiveWords 2, .ngrams 3, true, true⟩ rawLines
      = createEventsG ops ⟨.table [('x', 'x'), ('-', '-'), ('a', 'b'), ('c', 'c')], .document,
          .consecutiveWords 2, .ngrams 3, true, true⟩ rawLines ∧
    createEventFileX (fun _ => false) ops
        ⟨.expr "a-cx-".toList, .document, .consecutiveWords 2, .ngrams 3, true, true⟩ "c" "e" fs
      = createEventFileX (fun _ => false) ops
        ⟨.table [('x', 'x'), ('-', '-'), ('a', 'b'), ('c', 'c')], .document,
          .consecutiveWords 2, .ngrams 3, true, true⟩ "c" "e" fs := by
  have hrs : ∀ c, inRanges [('x', 'x'), ('-', '-'), ('a', 'b'), ('c', 'c')] c
      = inRanges (parseSetExpr "a-cx-".toList) c := by
    intro c
    have hp : parseSetExpr "a-cx-".toList = [('a', 'c'), ('x', 'x'), ('-', '-')] := by decide +kernel
    rw [hp]
    simp only [inRanges, List.any_cons, List.any_nil, Bool.or_false]
    have h1 : ('x' : Char).toNat = 120 := by decide
    have h2 : ('-' : Char).toNat = 45 := by decide
    have h3 : ('a' : Char).toNat = 97 := by decide
    have h4 : ('b' : Char).toNat = 98 := by decide
    have h5 : ('c' : Char).toNat = 99 := by decide
    rw [h1, h2, h3, h4, h5]
    rw [Bool.eq_iff_iff]
    simp only [Bool.or_eq_true, Bool.and_eq_true, decide_eq_true_eq]
    omega
  exact ⟨callable_vs_regex ops _ (by decide) _ hrs _ _ _ _ _ _,
    callable_vs_regex_file ops _ (by decide) _ hrs (by decide +kernel) _ _ _ _ _ _ _ _⟩

/-- the two code paths on a concrete line (they are different programs): -/
example :
    filterRegex (parseSetExpr "a-cx-".toList) ' ' "a-b!cdx".toList = "a-b c x".toList ∧
    filterCallable (inRanges [('x', 'x'), ('-', '-'), ('a', 'b'), ('c', 'c')]) ' ' "a-b!cdx".toList
      = "a-b c x".toList ∧
    negClassMatches (parseSetExpr "a-cx-".toList) '\n' = true := by
  decide +kernel

/-- **remove_duplicates.**  `remove_duplicates=True` writes the same events in
    the same order as `remove_duplicates=False`, each with its cue list and its
    outcome list de-duplicated: no token twice, exactly the same tokens, first
    occurrences in their original order.  (The code writes `set(...)` order,
    which is unspecified; "same members, no repeats" is the order-free content,
    and the harness compares sorted.)  Clause 1 is the property; clause 2 is a
    general fact about `dedup = List.eraseDups` (no pyndl content — it says what
    clause 1's `dedup` means). -/
theorem remove_duplicates_spec (ops : TextOps) (al : Allowed) (_hs : al.Supported)
    (ctx : ContextStructure)
    (es : EventStructure) (cs : CueStructure) (lc : Bool) (rawLines : List (List Char)) :
    createEventsG ops ⟨al, ctx, es, cs, lc, true⟩ rawLines
      = (createEventsG ops ⟨al, ctx, es, cs, lc, false⟩ rawLines).map
          (fun ev => ⟨dedup ev.cues, dedup ev.outcomes⟩) ∧
    ∀ l : List Word, (dedup l).Nodup ∧ (∀ w, w ∈ dedup l ↔ w ∈ l) ∧ (dedup l).Sublist l :=
  ⟨createEventsG_dedup ops al ctx es cs lc rawLines,
   fun l => ⟨dedup_nodup l, fun _ => mem_dedup, dedup_sublist l⟩⟩

/-- (definitional: `simp` with the definitions of `processWords`,
    `genOccurrences`, `processOccurrences`) **`event_structure='line'`**: a context of at least one word gives exactly
    one event — word cues: cues = outcomes = the words of the context; n-gram
    cues: the letter n-grams of `#w1#…#wk#` as cues, the words as outcomes; with
    `remove_duplicates` each side de-duplicated.  An empty context gives none
    (`processWords_nil`). -/
theorem line_event_spec (al : Allowed) (ctx : ContextStructure) (lc : Bool) (words : List Word)
    (hne : words ≠ []) :
    processWords ⟨al, ctx, .line, .wordToWord, lc, false⟩ words = [⟨words, words⟩] ∧
    processWords ⟨al, ctx, .line, .wordToWord, lc, true⟩ words = [⟨dedup words, dedup words⟩] ∧
    (∀ n, processWords ⟨al, ctx, .line, .ngrams n, lc, false⟩ words
        = [⟨ngrams n (phraseString words), words⟩]) ∧
    (∀ n, processWords ⟨al, ctx, .line, .ngrams n, lc, true⟩ words
        = [⟨dedup (ngrams n (phraseString words)), dedup words⟩]) := by
  have he : words.isEmpty = false := by cases words <;> simp_all
  refine ⟨?_, ?_, fun n => ?_, fun n => ?_⟩ <;>
    simp [processWords, genOccurrences, processOccurrences, wordCues1, ngramsToWord1, he]

/-- … so with `context_structure='line'`, `event_structure='line'` every corpus
    line with at least one word is one event, in order (word cues, no
    de-duplication shown). -/
theorem line_line_spec (ops : TextOps) (al : Allowed) (hs : al.Supported) (lc : Bool)
    (rawLines : List (List Char)) :
    createEventsG ops ⟨al, .line, .line, .wordToWord, lc, false⟩ rawLines
      = ((rawLines.map (lineWordsG ops lc al)).filter (fun ws => !ws.isEmpty)).map
          (fun ws => ⟨ws, ws⟩) := by
  rw [create_line_eq_contexts ops _ hs rfl]
  generalize rawLines.map (lineWordsG ops lc al) = L
  induction L with
  | nil => rfl
  | cons ws L ih =>
    rw [List.flatMap_cons, ih]
    cases ws with
    | nil => simp [processWords_nil]
    | cons w ws =>
      have := (line_event_spec al .line lc (w :: ws) (by simp)).1
      simp [this]

/-- the hypotheses of `tokens_no_newline` for the tables instance are decidable
    predicates on the tables and the raw lines (checkable per input by
    evaluation). -/
example (t : Tables) (rawLines : List (List Char)) :
    Decidable ((∀ raw ∈ rawLines, '\n' ∉ raw) ∧ (∀ p ∈ t.lower, '\n' ∉ p.2)) := inferInstance

/-- **tokens_no_newline.** For every corpus, all options (any n-gram size) and
    all `TextOps`: if (a) no raw line contains LF (the corpus is read line by
    line) and (b) lowering never introduces LF (`LowerKeeps`: `'\n' ∉ s →
    '\n' ∉ lower s` — true of `str.lower`; for the tables instance implied by the
    decidable "no table entry contains LF", `tokens_no_newline_tables`), then no
    written token contains LF — so an event is exactly one line of the event
    file.

    Why this holds: `strip`, `split(" ")` and the marker removal only delete
    characters; the special-character replacement and the symbol filter only
    replace characters by the blank; the n-gram phrase only inserts `#`.  No
    hypothesis on the whitespace predicate is needed (`strip` may remove
    anything), none on the n-gram size, and (b) is only used when
    `lower_case=True`.  Both hypotheses are necessary: see the two
    counter-examples below. -/
theorem tokens_no_newline (ops : TextOps) (o : Options) (_hs : o.allowed.Supported)
    (rawLines : List (List Char))
    (hraw : ∀ raw ∈ rawLines, '\n' ∉ raw) (hlower : o.lowerCase = true → LowerKeeps '\n' ops) :
    ∀ ev ∈ createEventsG ops o rawLines,
      (∀ tok ∈ ev.cues, '\n' ∉ tok) ∧ (∀ tok ∈ ev.outcomes, '\n' ∉ tok) :=
  createEventsG_free_raw (d := '\n') (by decide) (by decide) ops o hlower rawLines hraw

/-- the tables instance, with the decidable hypothesis on the table. -/
theorem tokens_no_newline_tables (t : Tables) (o : Options) (_hs : o.allowed.Supported)
    (rawLines : List (List Char))
    (hraw : ∀ raw ∈ rawLines, '\n' ∉ raw) (hlower : ∀ p ∈ t.lower, '\n' ∉ p.2) :
    ∀ ev ∈ createEvents t o rawLines,
      (∀ tok ∈ ev.cues, '\n' ∉ tok) ∧ (∀ tok ∈ ev.outcomes, '\n' ∉ tok) :=
  createEvents_free_raw (d := '\n') (by decide) (by decide) t o (fun _ => hlower) rawLines hraw

/-- the same for CR (and, by `Create.createEventsG_free_raw`, for every
    character other than the blank and `#`). -/
theorem tokens_no_cr (ops : TextOps) (o : Options) (_hs : o.allowed.Supported)
    (rawLines : List (List Char))
    (hraw : ∀ raw ∈ rawLines, '\r' ∉ raw) (hlower : o.lowerCase = true → LowerKeeps '\r' ops) :
    ∀ ev ∈ createEventsG ops o rawLines,
      (∀ tok ∈ ev.cues, '\r' ∉ tok) ∧ (∀ tok ∈ ev.outcomes, '\r' ∉ tok) :=
  createEventsG_free_raw (d := '\r') (by decide) (by decide) ops o hlower rawLines hraw

/-- (a) is necessary: with a whitespace set that does not contain LF, an LF
    inside a raw line survives every cleaning step. -/
example : createEvents ⟨[' '], []⟩ ⟨.all, .line, .line, .wordToWord, false, false⟩ ["a\nb".toList]
    = [⟨["a\nb".toList], ["a\nb".toList]⟩] := by decide +kernel

/-- (b) is necessary, whatever the whitespace set: a table entry `A ↦ "x\ny"`
    puts an LF inside a token of an LF-free corpus (`strip` only removes at the
    two ends). -/
example : createEvents ⟨[' ', '\n', '\t'], [('A', "x\ny".toList)]⟩
      ⟨.all, .line, .line, .wordToWord, true, false⟩ ["A".toList]
    = [⟨["x\ny".toList], ["x\ny".toList]⟩] := by decide +kernel

/-- … and (b) is not needed with `lower_case=False`. -/
example : createEvents ⟨[' ', '\n', '\t'], [('A', "x\ny".toList)]⟩
      ⟨.all, .line, .line, .wordToWord, false, false⟩ ["A".toList]
    = [⟨["A".toList], ["A".toList]⟩] := by decide +kernel

/-- **tokens_wf_for_text_format.** The hypothesis set of the text-format round
    trip: under the hypotheses of `tokens_clean` (n-gram size ≥ 1) and
    `tokens_no_newline`, every written token (cue or outcome) is non-empty and
    contains no TAB, no LF and no underscore. -/
theorem tokens_wf_for_text_format (ops : TextOps) (o : Options) (hs : o.allowed.Supported)
    (hn : ∀ n, o.cue = .ngrams n → 1 ≤ n) (rawLines : List (List Char))
    (hraw : ∀ raw ∈ rawLines, '\n' ∉ raw) (hlower : o.lowerCase = true → LowerKeeps '\n' ops) :
    ∀ ev ∈ createEventsG ops o rawLines, ∀ tok ∈ ev.cues ++ ev.outcomes,
      tok ≠ [] ∧ '\t' ∉ tok ∧ '\n' ∉ tok ∧ '_' ∉ tok := by
  intro ev hev tok htok
  obtain ⟨c1, c2⟩ := tokens_clean ops o hs hn rawLines ev hev
  obtain ⟨n1, n2⟩ := tokens_no_newline ops o hs rawLines hraw hlower ev hev
  rcases List.mem_append.mp htok with h | h
  · exact ⟨(c1 tok h).1, (c1 tok h).2.2.2, n1 tok h, (c1 tok h).2.2.1⟩
  · exact ⟨(c2 tok h).1, (c2 tok h).2.2.2.1, n2 tok h, (c2 tok h).2.2.1⟩

/-! Non-vacuity of the cleaning theorems: a lowering function that is NOT a
    per-character map (final sigma: `Σ` at the end of the string becomes `ς`,
    elsewhere `σ`), `allowed_symbols='α-ω'` (contains `ς`, U+03C2), document
    contexts, bigram cues, duplicates removed.  `LowerKeeps '\n'` holds of this
    function (proved, not decided: it quantifies over all strings). -/
def sigmaLower (s : List Char) : List Char :=
  match s.reverse with
  | 'Σ' :: r => (r.reverse.map fun c => if c = 'Σ' then 'σ' else if c = 'Α' then 'α' else c) ++ ['ς']
  | _ => s.map fun c => if c = 'Σ' then 'σ' else if c = 'Α' then 'α' else c

theorem sigmaLower_keeps_lf : LowerKeeps '\n' ⟨sigmaLower, fun c => c == ' '⟩ := by
  intro s hs hm
  simp only [sigmaLower] at hm
  have key : ∀ l : List Char, '\n' ∉ l →
      '\n' ∉ l.map (fun c => if c = 'Σ' then 'σ' else if c = 'Α' then 'α' else c) := by
    intro l hl h
    simp only [List.mem_map] at h
    obtain ⟨c, hc, he⟩ := h
    by_cases h1 : c = 'Σ'
    · simp [h1] at he
    · by_cases h2 : c = 'Α'
      · simp [h2] at he
      · simp only [h1, h2, if_false] at he
        exact hl (he ▸ hc)
  split at hm
  · rename_i r hr
    have hr' : '\n' ∉ r.reverse := by
      intro h
      have : '\n' ∈ s.reverse := by rw [hr]; exact List.mem_cons_of_mem _ (List.mem_reverse.mp h)
      exact hs (List.mem_reverse.mp this)
    simp only [List.mem_append, List.mem_singleton] at hm
    rcases hm with hm | hm
    · exact key _ hr' hm
    · exact absurd hm (by decide)
  · exact key s hs hm

example :
    let ops : TextOps := ⟨sigmaLower, fun c => c == ' '⟩
    let o : Options := ⟨.expr "α-ω".toList, .document, .line, .ngrams 2, true, true⟩
    -- the lowering is context-sensitive
    sigmaLower "ΑΣ".toList = "ας".toList ∧ sigmaLower "ΣΑ".toList = "σα".toList ∧
    createEventsG ops o ["ΑΣ ---end.of.document--- ΣΑ ΣΑ x".toList]
      = [⟨["#α".toList, "ας".toList, "ς#".toList], ["ας".toList]⟩,
         ⟨["#σ".toList, "σα".toList, "α#".toList], ["σα".toList]⟩] ∧
    (∀ raw ∈ ["ΑΣ ---end.of.document--- ΣΑ ΣΑ x".toList], '\n' ∉ raw) ∧
    (∀ n, o.cue = .ngrams n → 1 ≤ n) := by
  refine ⟨by decide +kernel, by decide +kernel, by decide +kernel, by decide +kernel, ?_⟩
  intro n h; cases h; decide

/-- `tokens_no_newline` APPLIED to that corpus (all hypotheses instantiated). -/
example :
    ∀ ev ∈ createEventsG ⟨sigmaLower, fun c => c == ' '⟩
        ⟨.expr "α-ω".toList, .document, .line, .ngrams 2, true, true⟩
        ["ΑΣ ---end.of.document--- ΣΑ ΣΑ x".toList],
      (∀ tok ∈ ev.cues, '\n' ∉ tok) ∧ (∀ tok ∈ ev.outcomes, '\n' ∉ tok) :=
  tokens_no_newline _ _ (by decide) _ (by decide +kernel) (fun _ => sigmaLower_keeps_lf)

/-- `tokens_lowered` APPLIED: no token of that corpus contains a capital `Σ` or
    `Α` (`L c := c ≠ 'Σ' ∧ c ≠ 'Α'` holds of every character `sigmaLower`
    returns). -/
example :
    ∀ ev ∈ createEventsG ⟨sigmaLower, fun c => c == ' '⟩
        ⟨.expr "α-ω".toList, .document, .line, .ngrams 2, true, true⟩
        ["ΑΣ ---end.of.document--- ΣΑ ΣΑ x".toList],
      (∀ tok ∈ ev.outcomes, ∀ c ∈ tok, c ≠ 'Σ' ∧ c ≠ 'Α') ∧
      (∀ tok ∈ ev.cues, ∀ c ∈ tok, (c ≠ 'Σ' ∧ c ≠ 'Α') ∨ c = '#') := by
  refine tokens_lowered _ _ (by decide) rfl (fun c => c ≠ 'Σ' ∧ c ≠ 'Α') ?_ _
  intro s c hc
  have key : ∀ l : List Char,
      ∀ c ∈ l.map (fun c => if c = 'Σ' then 'σ' else if c = 'Α' then 'α' else c), c ≠ 'Σ' ∧ c ≠ 'Α' := by
    intro l c h
    simp only [List.mem_map] at h
    obtain ⟨d, _, rfl⟩ := h
    by_cases h1 : d = 'Σ'
    · simp only [h1, if_true]; decide
    · by_cases h2 : d = 'Α'
      · simp only [h2]; decide
      · simp only [h1, h2, if_false]; exact ⟨h1, h2⟩
  simp only [sigmaLower] at hc
  split at hc
  · simp only [List.mem_append, List.mem_singleton] at hc
    rcases hc with hc | rfl
    · exact key _ c hc
    · decide
  · exact key _ c hc

/-- `split_spec` on a line with two markers (one glued to a word, the second
    spelling with arbitrary wildcard characters): the elements, their
    concatenation, and a candidate split that misses the second marker —
    rejected by `SplitOK` because a match starts inside its last element. -/
example :
    contextSplit "ab---end.of.document--- c ---ENDxOF DOCUMENT---".toList
      = ["ab".toList, "---end.of.document---".toList, " c ".toList, "---ENDxOF DOCUMENT---".toList, []] ∧
    (contextSplit "ab---end.of.document--- c ---ENDxOF DOCUMENT---".toList).flatten
      = "ab---end.of.document--- c ---ENDxOF DOCUMENT---".toList ∧
    isMarkerAt (" c ---ENDxOF DOCUMENT---".toList.drop 3) = true := by
  decide +kernel

example : ¬ SplitOK ["ab".toList, "---end.of.document---".toList, " c ---ENDxOF DOCUMENT---".toList] := by
  intro h
  have := h.2.2.2 3 (by decide)
  revert this
  decide +kernel

/-- `split_spec` APPLIED, all three clauses, on a line with two markers: the
    uniqueness clause is used to IDENTIFY the split — a hand-written list that
    concatenates to the line and satisfies `SplitOK` (both hypotheses discharged
    by evaluation) is `contextSplit` of the line. -/
example :
    let s := "ab---end.of.document--- c ---ENDxOF DOCUMENT---".toList
    let l := ["ab".toList, "---end.of.document---".toList, " c ".toList, "---ENDxOF DOCUMENT---".toList, []]
    (contextSplit s).flatten = s ∧ SplitOK (contextSplit s) ∧ l = contextSplit s := by
  intro s l
  have hok : SplitOK l := by
    refine ⟨?_, by decide +kernel, by decide +kernel, ?_, by decide +kernel, by decide +kernel, ?_⟩
    · unfold NoMarkerIn; decide +kernel
    · unfold NoMarkerIn; decide +kernel
    · show NoMarkerIn [] []
      unfold NoMarkerIn; decide +kernel
  exact ⟨(split_spec s).1, (split_spec s).2.1, (split_spec s).2.2 l hok (by decide +kernel)⟩

/-- `tokens_clean` and `tokens_allowed` APPLIED (all hypotheses instantiated) to
    the final-sigma corpus above: `allowed_symbols='α-ω'` (a plain expression),
    bigram cues (n = 2 ≥ 1), document contexts, duplicates removed. -/
example :
    ∀ ev ∈ createEventsG ⟨sigmaLower, fun c => c == ' '⟩
        ⟨.expr "α-ω".toList, .document, .line, .ngrams 2, true, true⟩
        ["ΑΣ ---end.of.document--- ΣΑ ΣΑ x".toList],
      ((∀ tok ∈ ev.cues, tok ≠ [] ∧ ' ' ∉ tok ∧ '_' ∉ tok ∧ '\t' ∉ tok) ∧
       (∀ tok ∈ ev.outcomes, tok ≠ [] ∧ ' ' ∉ tok ∧ '_' ∉ tok ∧ '\t' ∉ tok ∧ '#' ∉ tok)) ∧
      ((∀ tok ∈ ev.outcomes, ∀ c ∈ tok, inRanges [('α', 'ω')] c = true) ∧
       (∀ tok ∈ ev.cues, ∀ c ∈ tok, inRanges [('α', 'ω')] c = true ∨ c = '#')) := by
  intro ev hev
  have hn : ∀ n, (Options.mk (.expr "α-ω".toList) .document .line (.ngrams 2) true true).cue = .ngrams n → 1 ≤ n := by
    intro n h; cases h; decide
  have hp : parseSetExpr "α-ω".toList = [('α', 'ω')] := by decide +kernel
  have h2 := tokens_allowed _ _ (by decide) _ ev hev
  simp only [Allowed.ok, hp] at h2
  exact ⟨tokens_clean _ _ (by decide) hn _ ev hev, h2⟩

/-- `bad_pattern_raises` APPLIED: `allowed_symbols='z-a'` (plain, one range with
    `lo > hi`) on an arbitrary file system — and `good_pattern_compiles` for
    `'a-z0-9'`. -/
example (fs : FS) :
    createEventFileX (fun _ => false) ⟨id, fun c => c == ' '⟩
        ⟨.expr "z-a".toList, .document, .line, .wordToWord, false, false⟩ "c" "e" fs
      = (.error .badPattern, fs) ∧
    (createEventFileX (fun _ => false) ⟨id, fun c => c == ' '⟩
        ⟨.expr "a-z0-9".toList, .document, .line, .wordToWord, false, false⟩ "c" "e" fs).1
      ≠ .error .badPattern :=
  ⟨bad_pattern_raises (fun _ => false) ⟨id, fun c => c == ' '⟩
      ⟨.expr "z-a".toList, .document, .line, .wordToWord, false, false⟩ "z-a".toList rfl (by decide)
      (Or.inr ⟨('z', 'a'), by decide, by decide⟩) "c" "e" fs,
   (good_pattern_compiles (fun _ => false) ⟨id, fun c => c == ' '⟩
      ⟨.expr "a-z0-9".toList, .document, .line, .wordToWord, false, false⟩ "a-z0-9".toList rfl (by decide)
      (by decide) (by decide +kernel) "c" "e" fs).2⟩

/-- the domain predicate is decidable and delimits what the review found:
    the three spellings on which model and `re` differ are outside it. -/
example :
    SetExprPlain "a-z0-9-".toList ∧ ¬ SetExprPlain "\\".toList ∧ ¬ SetExprPlain "\\d".toList ∧
    ¬ SetExprPlain "a]b".toList ∧
    Allowed.Supported (.expr "α-ω".toList) ∧ Allowed.Supported .all ∧ Allowed.Supported (.table []) ∧
    ¬ Allowed.Supported (.expr "a]b".toList) := by
  decide

/-! ### non-vacuity -/

/-- the docstring example: `(A,B,C,D)`, 3 words → `A, A_B, A_B_C, B_C_D, C_D, D` -/
example : (genConsecutive 3 [1, 2, 3, 4]).map (·.1) = [[1], [1, 2], [1, 2, 3], [2, 3, 4], [3, 4], [4]] := by
  decide
/-- window longer than the context -/
example : (genConsecutive 7 [1, 2]).map (·.1) = [[1], [1, 2], [2]] := by decide
/-- the docstring example: before = 2, after = 1 → `(B, A), (A_C, B), (A_B_D, C), (B_C, D)` -/
example : genWordToWord 2 1 [1, 2, 3, 4] = [([2], [1]), ([1, 3], [2]), ([1, 2, 4], [3]), ([2, 3], [4])] := by
  decide
/-- a two-marker line between two plain lines -/
example : runDocument (fun ws => if ws.isEmpty then [] else [⟨ws, []⟩])
    [[some [1]], [some [2], none, some [3], none, some [4]], [some [5]]]
    = [⟨[1, 2], []⟩, ⟨[3], []⟩, ⟨[4, 5], []⟩] := by decide
example : wellShaped [some [2], none, some [3], none, (some [4] : Option (List Nat))] = true := by decide
/-- the marker matcher: both spellings, arbitrary wildcard characters, case-sensitive -/
example : isMarkerAt "---endXofYdocument---zz".toList = true ∧ isMarkerAt "---END OF DOCUMENT---".toList = true ∧
    isMarkerAt "---End.Of.Document---".toList = false := by decide

/-! ### lemmas (not property theorems) -/

/-- (definitional) the symbol test of a set expression is the symbol test of the
    callable given by its ranges. -/
theorem allowed_expr_eq_table (e : List Char) :
    Allowed.ok (.expr e) = Allowed.ok (.table (parseSetExpr e)) := rfl

/-- (definitional) when the expression compiles, `parseSetExpr?` returns the
    ranges of `parseSetExpr`. -/
theorem parseSetExpr_some (e : List Char) (rs : List (Char × Char)) (h : parseSetExpr? e = some rs) :
    rs = parseSetExpr e ∧ e ≠ [] ∧ ∀ r ∈ rs, r.1.toNat ≤ r.2.toNat := by
  simp only [parseSetExpr?] at h
  split at h
  · cases h
  · rename_i hne
    split at h
    · rename_i hall
      have := (Option.some.inj h).symm
      subst this
      refine ⟨rfl, by intro he; simp [he] at hne, ?_⟩
      intro r hr
      have := List.all_eq_true.mp hall r hr
      simpa using this
    · cases h

/-- (definitional: `rfl` on regenerated constants) the two regular expressions the model mirrors are the ones in the source
    (re-extracted into `Generated.lean` on every run). -/
theorem pattern_constants :
    Generated.contextPattern = "(---end.of.document---|---END.OF.DOCUMENT---)" ∧
    Generated.specialChars = "[#_\t]" ∧
    Generated.createHeader = "cues\toutcomes\n" := ⟨rfl, rfl, rfl⟩

end Pyndl.C09
