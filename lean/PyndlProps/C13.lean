/-
  C13 — Learners obey the algebraic laws of the Rescorla–Wagner map.

  Two layers:
  * the laws as theorems about the specification `rwLearn` (`row_depends_only`,
    `rename_equivariant`, `cue_perm`, `affine`, `linear_part`,
    `lambda_homogeneous`, `beta2_zero`, `beta2_zero_seq`, `alpha_zero`,
    `alpha_zero_cue`);
  * the laws as theorems about the IMPLEMENTATION MODELS (PyndlProofs/LawsModels):
    each relates two or three runs of the model of `dict_ndl` (`dict_*`) resp.
    of `ndl.ndl` (`ndl_*`: counting, id maps, chunk files, either kernel method,
    labels) and says that the runs succeed and their results are related —
    `*_row_depends_only`, `*_rename_equivariant`, `*_affine`,
    `*_lambda_homogeneous`, `*_alpha_zero…`, `*_beta2_zero`.  They are obtained
    from the first layer through `dictNdl_eq_spec` / `ndlModel_eq_spec` /
    `ndlModel_continue_eq_spec`; `dict_transport` is the transport lemma for
    `dict_ndl` in the direction "whatever the model returns is `rwLearn`".
  The correspondence run ties the models to the code.
-/
import PyndlProofs.Laws
import PyndlProofs.Dict
import PyndlProofs.LawsModels
import PyndlModel.Generated

namespace Pyndl.C13
open Pyndl List

variable {R : Type} [CommRing R]
variable {ι κ : Type} [DecidableEq ι] [DecidableEq κ]

/-- what row `o` can see of an event: its cues and whether `o` is among the outcomes -/
def view (o : κ) (e : Event ι κ) : List ι × Bool := (e.cues, decide (o ∈ e.outcomes))

/-- **row locality**: the weights of outcome `o` depend only on row `o` of the
    initial weights and on `(cues, o present?)` of each event — removing or
    renaming *other* outcomes leaves row `o` unchanged. -/
theorem row_depends_only (α : ι → R) (β₁ β₂ lam : R) (W W' : κ → ι → R)
    (es es' : List (Event ι κ)) (o : κ) (hW : W o = W' o) (hv : es.map (view o) = es'.map (view o)) :
    rwLearn α β₁ β₂ lam W es o = rwLearn α β₁ β₂ lam W' es' o :=
  rwLearn_row_depends_only α β₁ β₂ lam W W' es es' o hW hv

/-- **renaming equivariance**: renaming cues by an injection `f` and outcomes by
    an injection `g` (in the events, the initial weights and the per-cue α)
    renames the result. -/
theorem rename_equivariant {ι' κ' : Type} [DecidableEq ι'] [DecidableEq κ']
    (f : ι → ι') (g : κ → κ') (hf : Function.Injective f) (hg : Function.Injective g)
    (α : ι → R) (α' : ι' → R) (hα : ∀ c, α' (f c) = α c) (β₁ β₂ lam : R)
    (W : κ → ι → R) (W' : κ' → ι' → R) (hW : ∀ o c, W' (g o) (f c) = W o c)
    (es : List (Event ι κ)) (o : κ) (c : ι) :
    rwLearn α' β₁ β₂ lam W' (es.map (fun e => ⟨e.cues.map f, e.outcomes.map g⟩)) (g o) (f c)
      = rwLearn α β₁ β₂ lam W es o c :=
  rwLearn_rename f g hf hg α α' hα β₁ β₂ lam W W' hW es o c

/-- **cue order is irrelevant** inside any event -/
theorem cue_perm (α : ι → R) (β₁ β₂ lam : R) (W : κ → ι → R) (pre post : List (Event ι κ))
    (cs cs' : List ι) (os : List κ) (h : cs ~ cs') :
    rwLearn α β₁ β₂ lam W (pre ++ ⟨cs, os⟩ :: post) = rwLearn α β₁ β₂ lam W (pre ++ ⟨cs', os⟩ :: post) := by
  simp only [rwLearn_append, rwLearn_cons]
  congr 1
  funext o
  simp only [rwStep]
  exact rwRow_perm α β₁ β₂ lam _ h _

/-- **the order of cues and of outcomes inside any event is irrelevant** (also with repeats: the
    permuted event has the same cues and the same outcomes as multisets) — the relation the
    correspondence run's `cue_shuffle` law checks between two real runs. -/
theorem event_perm (α : ι → R) (β₁ β₂ lam : R) (W : κ → ι → R) (pre post : List (Event ι κ))
    (cs cs' : List ι) (os os' : List κ) (h : cs ~ cs') (ho : os ~ os') :
    rwLearn α β₁ β₂ lam W (pre ++ ⟨cs, os⟩ :: post) = rwLearn α β₁ β₂ lam W (pre ++ ⟨cs', os'⟩ :: post) := by
  simp only [rwLearn_append, rwLearn_cons]
  congr 1
  funext o
  simp only [rwStep]
  have hm : decide (o ∈ os) = decide (o ∈ os') := by
    simp only [ho.mem_iff]
  rw [hm]
  exact rwRow_perm α β₁ β₂ lam _ h _

/-- every event permuted at once (cues by `cs ~ cs'`, outcomes by `os ~ os'`, event by event) -/
theorem events_perm (α : ι → R) (β₁ β₂ lam : R) (es es' : List (Event ι κ))
    (h : List.Forall₂ (fun e e' => e.cues ~ e'.cues ∧ e.outcomes ~ e'.outcomes) es es') (W : κ → ι → R) :
    rwLearn α β₁ β₂ lam W es = rwLearn α β₁ β₂ lam W es' := by
  induction h generalizing W with
  | nil => rfl
  | @cons e e' es es' he _ ih =>
    rw [rwLearn_cons, rwLearn_cons, ← ih]
    congr 1
    obtain ⟨cs, os⟩ := e
    obtain ⟨cs', os'⟩ := e'
    exact event_perm α β₁ β₂ lam W [] [] cs cs' os os' he.1 he.2

/-- **affine in the initial weights** -/
theorem affine (α : ι → R) (β₁ β₂ lam : R) (W V : κ → ι → R) (es : List (Event ι κ)) (o : κ) (c : ι) :
    rwLearn α β₁ β₂ lam (fun o c => W o c + V o c) es o c
      = rwLearn α β₁ β₂ lam W es o c + rwLearn α β₁ β₂ 0 V es o c :=
  rwLearn_add α β₁ β₂ lam W V es o c

/-- the λ = 0 part is linear -/
theorem linear_part (α : ι → R) (β₁ β₂ k : R) (V : κ → ι → R) (es : List (Event ι κ)) (o : κ) (c : ι) :
    rwLearn α β₁ β₂ 0 (fun o c => k * V o c) es o c = k * rwLearn α β₁ β₂ 0 V es o c := by
  have := rwLearn_smul α β₁ β₂ 0 k V es o c
  simpa using this

/-- **proportional to λ when starting from zero** -/
theorem lambda_homogeneous (α : ι → R) (β₁ β₂ lam k : R) (es : List (Event ι κ)) (o : κ) (c : ι) :
    rwLearn α β₁ β₂ (k * lam) (fun _ _ => (0 : R)) es o c
      = k * rwLearn α β₁ β₂ lam (fun _ _ => (0 : R)) es o c := by
  have := rwLearn_smul α β₁ β₂ lam k (fun _ _ => (0 : R)) es o c
  simpa using this

/-- **β₂ = 0**, one step: an event that does not contain outcome `o` leaves row `o` untouched -/
theorem beta2_zero (α : ι → R) (β₁ lam : R) (W : κ → ι → R) (e : Event ι κ) (o : κ)
    (h : o ∉ e.outcomes) : rwStep α β₁ 0 lam W e o = W o := by
  simp only [rwStep, h, decide_false]
  exact rwRow_beta2_zero α β₁ lam (W o) e.cues

/-- **β₂ = 0**, sequence form: all events that do not contain outcome `o` can be
    removed from the sequence without changing row `o`; in particular a row
    whose outcome occurs in no event is left untouched -/
theorem beta2_zero_seq (α : ι → R) (β₁ lam : R) (W : κ → ι → R) (es : List (Event ι κ)) (o : κ) :
    rwLearn α β₁ 0 lam W es o = rwLearn α β₁ 0 lam W (es.filter (fun e => decide (o ∈ e.outcomes))) o ∧
    ((∀ e ∈ es, o ∉ e.outcomes) → rwLearn α β₁ 0 lam W es o = W o) :=
  ⟨rwLearn_beta2_zero_filter α β₁ lam W es o, rwLearn_beta2_zero_absent α β₁ lam W es o⟩

/-- **α = 0** (all cues): nothing is learned -/
theorem alpha_zero (β₁ β₂ lam : R) (W : κ → ι → R) (es : List (Event ι κ)) :
    rwLearn (fun _ => (0 : R)) β₁ β₂ lam W es = W :=
  rwLearn_alpha_zero β₁ β₂ lam W es

/-- **α = 0, per cue**: a cue whose learning rate is 0 keeps its weight in every
    row, whatever the learning rates of the other cues (`dict_ndl` takes a
    per-cue α) -/
theorem alpha_zero_cue (α : ι → R) (β₁ β₂ lam : R) (W : κ → ι → R) (es : List (Event ι κ))
    (o : κ) (c : ι) (h : α c = 0) : rwLearn α β₁ β₂ lam W es o c = W o c :=
  rwLearn_alpha_zero_cue α β₁ β₂ lam W es o c h

/-! ## the laws as theorems about the model of `dict_ndl` -/

/-- **transport lemma** (replaces `laws_hold_for_dictNdl`, which was
    `C01.dictNdl_eq_spec` verbatim): WHATEVER the model of `dict_ndl` returns is
    the specification on the policy-processed events, and the policy accepted
    them — so every law above is a law of the model's results -/
theorem dict_transport (p : DupPolicy) (α : ι → R) (β₁ β₂ lam : R) (W₀ W : WDict ι κ R)
    (es : List (Event ι κ)) (h : dictNdl p α β₁ β₂ lam W₀ es = some W) :
    ∃ es', applyPolicyAll p es = some es' ∧ wdAbs W = rwLearn α β₁ β₂ lam (wdAbs W₀) es' :=
  dictNdl_transport p α β₁ β₂ lam W₀ W es h

/-- **row locality, `dict_ndl`**: two runs (any duplicate policies, any event
    lists) whose initial dicts agree on row `o` and whose policy-processed
    events look the same from `o` return the same row `o` -/
theorem dict_row_depends_only (p p' : DupPolicy) (α : ι → R) (β₁ β₂ lam : R) (W₀ W₀' : WDict ι κ R)
    (es₁ es₂ es₁' es₂' : List (Event ι κ)) (o : κ)
    (hp₁ : applyPolicyAll p es₁ = some es₁') (hp₂ : applyPolicyAll p' es₂ = some es₂')
    (hW : wdAbs W₀ o = wdAbs W₀' o) (hv : es₁'.map (view o) = es₂'.map (view o)) :
    ∃ A B, dictNdl p α β₁ β₂ lam W₀ es₁ = some A ∧ dictNdl p' α β₁ β₂ lam W₀' es₂ = some B ∧
      wdAbs A o = wdAbs B o :=
  dictNdl_row_depends_only p p' α β₁ β₂ lam W₀ W₀' es₁ es₂ es₁' es₂' o hp₁ hp₂ hW hv

/-- **renaming equivariance, `dict_ndl`** -/
theorem dict_rename_equivariant {ι' κ' : Type} [DecidableEq ι'] [DecidableEq κ']
    (f : ι → ι') (g : κ → κ') (hf : Function.Injective f) (hg : Function.Injective g)
    (p : DupPolicy) (α : ι → R) (α' : ι' → R) (hα : ∀ c, α' (f c) = α c) (β₁ β₂ lam : R)
    (W₀ : WDict ι κ R) (W₀' : WDict ι' κ' R) (hW : ∀ o c, wdAbs W₀' (g o) (f c) = wdAbs W₀ o c)
    (es es' : List (Event ι κ)) (hp : applyPolicyAll p es = some es') :
    ∃ A B, dictNdl p α β₁ β₂ lam W₀ es = some A ∧
      dictNdl p α' β₁ β₂ lam W₀' (es.map (fun e => ⟨e.cues.map f, e.outcomes.map g⟩)) = some B ∧
      ∀ o c, wdAbs B (g o) (f c) = wdAbs A o c :=
  dictNdl_rename_equivariant f g hf hg p α α' hα β₁ β₂ lam W₀ W₀' hW es es' hp

/-- **affine in the initial weights, `dict_ndl`**: the run from a dict denoting
    `W + V` (with λ) is the run from `W` (with λ) plus the run from `V` with λ = 0 -/
theorem dict_affine (p : DupPolicy) (α : ι → R) (β₁ β₂ lam : R) (W₀ V₀ S₀ : WDict ι κ R)
    (hS : ∀ o c, wdAbs S₀ o c = wdAbs W₀ o c + wdAbs V₀ o c)
    (es es' : List (Event ι κ)) (hp : applyPolicyAll p es = some es') :
    ∃ S W V, dictNdl p α β₁ β₂ lam S₀ es = some S ∧ dictNdl p α β₁ β₂ lam W₀ es = some W ∧
      dictNdl p α β₁ β₂ 0 V₀ es = some V ∧ ∀ o c, wdAbs S o c = wdAbs W o c + wdAbs V o c :=
  dictNdl_affine p α β₁ β₂ lam W₀ V₀ S₀ hS es es' hp

/-- **proportional to λ from zero, `dict_ndl`** -/
theorem dict_lambda_homogeneous (p : DupPolicy) (α : ι → R) (β₁ β₂ lam k : R)
    (es es' : List (Event ι κ)) (hp : applyPolicyAll p es = some es') :
    ∃ A B, dictNdl p α β₁ β₂ (k * lam) [] es = some A ∧ dictNdl p α β₁ β₂ lam [] es = some B ∧
      ∀ o c, wdAbs A o c = k * wdAbs B o c :=
  dictNdl_lambda_homogeneous p α β₁ β₂ lam k es es' hp

/-- **per-cue α = 0 and β₂ = 0, `dict_ndl`**: whatever the model returns, a cue
    with learning rate 0 keeps its weight; with β₂ = 0 a row whose outcome
    occurs in no event is untouched -/
theorem dict_alpha_beta2_zero (p : DupPolicy) (α : ι → R) (β₁ β₂ lam : R) (W₀ : WDict ι κ R)
    (es : List (Event ι κ)) :
    (∀ W, dictNdl p α β₁ β₂ lam W₀ es = some W → ∀ o c, α c = 0 → wdAbs W o c = wdAbs W₀ o c) ∧
    (∀ W, dictNdl p α β₁ 0 lam W₀ es = some W → ∀ o, (∀ e ∈ es, o ∉ e.outcomes) → wdAbs W o = wdAbs W₀ o) :=
  ⟨fun W h o c hc => dictNdl_alpha_zero_cue p α β₁ β₂ lam W₀ W es h o c hc,
    fun W h o ho => dictNdl_beta2_zero p α β₁ lam W₀ W es h o ho⟩

/-! ## the laws as theorems about the model of `ndl.ndl` -/

/-- **row locality, `ndl.ndl`**: two runs from scratch — possibly with different
    methods, chunk sizes and duplicate policies — over event files whose
    policy-processed events look the same from outcome `o` return the same
    weights for `o`, at every cue -/
theorem ndl_row_depends_only (cfg₁ cfg₂ : NdlCfg) (alpha β₁ β₂ lam : R)
    (es₁ es₂ es₁' es₂' : List (Event String String)) (o : String)
    (hcfg₁ : CfgOK cfg₁ (countNames es₁).2.length) (hcfg₂ : CfgOK cfg₂ (countNames es₂).2.length)
    (hp₁ : applyPolicyAll cfg₁.policy es₁ = some es₁') (hp₂ : applyPolicyAll cfg₂.policy es₂ = some es₂')
    (hfit₁ : Fits32 es₁) (hfit₂ : Fits32 es₂) (hview : es₁'.map (view o) = es₂'.map (view o)) :
    ∃ a b, ndlModel Generated.pyMagic Generated.pyVersion cfg₁ alpha β₁ β₂ lam none es₁ = .ok (a, es₁.length) ∧
      ndlModel Generated.pyMagic Generated.pyVersion cfg₂ alpha β₁ β₂ lam none es₂ = .ok (b, es₂.length) ∧
      ∀ c, a.get o c = b.get o c :=
  ndlModel_row_depends_only _ _ (by decide) (by decide) cfg₁ cfg₂ alpha β₁ β₂ lam
    es₁ es₂ es₁' es₂' o hcfg₁ hcfg₂ hp₁ hp₂ hfit₁ hfit₂ hview

/-- **renaming equivariance, `ndl.ndl`**: renaming cues by an injection `f` and
    outcomes by an injection `g` in the event file renames the returned matrix -/
theorem ndl_rename_equivariant (cfg : NdlCfg)
    (alpha β₁ β₂ lam : R) (f g : String → String) (hf : Function.Injective f) (hg : Function.Injective g)
    (es es' : List (Event String String)) (hp : applyPolicyAll cfg.policy es = some es')
    (hcfg : CfgOK cfg (countNames es).2.length)
    (hcfg' : CfgOK cfg (countNames (es.map (fun e => ⟨e.cues.map f, e.outcomes.map g⟩))).2.length)
    (hfit : Fits32 es) (hfit' : Fits32 (es.map (fun e => ⟨e.cues.map f, e.outcomes.map g⟩))) :
    ∃ a b, ndlModel Generated.pyMagic Generated.pyVersion cfg alpha β₁ β₂ lam none es = .ok (a, es.length) ∧
      ndlModel Generated.pyMagic Generated.pyVersion cfg alpha β₁ β₂ lam none
        (es.map (fun e => ⟨e.cues.map f, e.outcomes.map g⟩)) = .ok (b, es.length) ∧
      ∀ o c, b.get (g o) (f c) = a.get o c :=
  ndlModel_rename_equivariant _ _ (by decide) (by decide) cfg alpha β₁ β₂ lam f g hf hg es es' hp
    hcfg hcfg' hfit hfit'

/-- **affine in the initial weights, `ndl.ndl`**: three continued runs — from a
    labelled matrix `s` denoting `w + v` with λ, from `w` with λ, from `v` with
    λ = 0 — satisfy `result(s) = result(w) + result(v)` at every pair of labels -/
theorem ndl_affine (cfg : NdlCfg) (alpha β₁ β₂ lam : R)
    (w v s : LW R) (hs : ∀ o c, s.get o c = w.get o c + v.get o c)
    (es es' : List (Event String String)) (hp : applyPolicyAll cfg.policy es = some es')
    (hcw : CfgOK cfg (mergedOutcomes w es).length) (hcv : CfgOK cfg (mergedOutcomes v es).length)
    (hcs : CfgOK cfg (mergedOutcomes s es).length)
    (fw : Fits32With w es) (fv : Fits32With v es) (fs : Fits32With s es) :
    ∃ rs rw rv, ndlModel Generated.pyMagic Generated.pyVersion cfg alpha β₁ β₂ lam (some s) es = .ok (rs, es.length) ∧
      ndlModel Generated.pyMagic Generated.pyVersion cfg alpha β₁ β₂ lam (some w) es = .ok (rw, es.length) ∧
      ndlModel Generated.pyMagic Generated.pyVersion cfg alpha β₁ β₂ 0 (some v) es = .ok (rv, es.length) ∧
      ∀ o c, rs.get o c = rw.get o c + rv.get o c :=
  ndlModel_affine _ _ (by decide) (by decide) cfg alpha β₁ β₂ lam w v s hs es es' hp hcw hcv hcs fw fv fs

/-- **proportional to λ from zero, `ndl.ndl`** -/
theorem ndl_lambda_homogeneous (cfg : NdlCfg)
    (alpha β₁ β₂ lam k : R) (es es' : List (Event String String)) (hcfg : CfgOK cfg (countNames es).2.length)
    (hp : applyPolicyAll cfg.policy es = some es') (hfit : Fits32 es) :
    ∃ a b, ndlModel Generated.pyMagic Generated.pyVersion cfg alpha β₁ β₂ (k * lam) none es = .ok (a, es.length) ∧
      ndlModel Generated.pyMagic Generated.pyVersion cfg alpha β₁ β₂ lam none es = .ok (b, es.length) ∧
      ∀ o c, a.get o c = k * b.get o c :=
  ndlModel_lambda_homogeneous _ _ (by decide) (by decide) cfg alpha β₁ β₂ lam k es es' hcfg hp hfit

/-- **α = 0 and β₂ = 0, `ndl.ndl`** (its α is one number): with α = 0 the given
    weights come back; with β₂ = 0 the row of an outcome that occurs in no event
    comes back unchanged -/
theorem ndl_alpha_beta2_zero (cfg : NdlCfg)
    (alpha β₁ β₂ lam : R) (w : LW R) (es es' : List (Event String String))
    (hcfg : CfgOK cfg (mergedOutcomes w es).length)
    (hp : applyPolicyAll cfg.policy es = some es') (hfit : Fits32With w es) :
    (∃ r, ndlModel Generated.pyMagic Generated.pyVersion cfg 0 β₁ β₂ lam (some w) es = .ok (r, es.length) ∧
      ∀ o c, r.get o c = w.get o c) ∧
    (∀ o, (∀ e ∈ es, o ∉ e.outcomes) →
      ∃ r, ndlModel Generated.pyMagic Generated.pyVersion cfg alpha β₁ 0 lam (some w) es = .ok (r, es.length) ∧
        ∀ c, r.get o c = w.get o c) :=
  ⟨ndlModel_alpha_zero _ _ (by decide) (by decide) cfg β₁ β₂ lam w es es' hcfg hp hfit,
    fun o ho => ndlModel_beta2_zero _ _ (by decide) (by decide) cfg alpha β₁ lam w es es' hcfg hp hfit o ho⟩

/-! non-vacuity: the affine law on a concrete run in ℤ with a non-zero start -/
example :
    let es : List (Event Nat Nat) := [⟨[0, 1], [10]⟩, ⟨[1], [11]⟩]
    let W : Nat → Nat → ℤ := fun o c => if o = 10 ∧ c = 0 then 3 else 0
    let V : Nat → Nat → ℤ := fun o c => if o = 11 ∧ c = 1 then 7 else 0
    rwLearn (fun _ => (1:ℤ)) 2 3 5 (fun o c => W o c + V o c) es 11 1
      = rwLearn (fun _ => (1:ℤ)) 2 3 5 W es 11 1 + rwLearn (fun _ => (1:ℤ)) 2 3 0 V es 11 1
    ∧ rwLearn (fun _ => (1:ℤ)) 2 3 5 W es 11 1 ≠ 0 := by
  decide +kernel

/-! non-vacuity of the model-level laws: every hypothesis instantiated -/

/-- `dict_affine` on concrete dicts over ℤ (`S₀ = W₀ + V₀` cell by cell), policy
    `True`, an event with a repeated cue, per-cue learning rates -/
example :
    ∃ S W V,
      dictNdl .dedup (fun c => if c = "a" then (2 : ℤ) else 1) 2 3 5
        [("x", [("a", 4), ("b", 7)])] [⟨["a", "b", "a"], ["x"]⟩, ⟨["b"], ["y"]⟩] = some S ∧
      dictNdl .dedup (fun c => if c = "a" then (2 : ℤ) else 1) 2 3 5
        [("x", [("a", 3)])] [⟨["a", "b", "a"], ["x"]⟩, ⟨["b"], ["y"]⟩] = some W ∧
      dictNdl .dedup (fun c => if c = "a" then (2 : ℤ) else 1) 2 3 0
        [("x", [("a", 1), ("b", 7)])] [⟨["a", "b", "a"], ["x"]⟩, ⟨["b"], ["y"]⟩] = some V ∧
      ∀ o c, wdAbs S o c = wdAbs W o c + wdAbs V o c :=
  dict_affine .dedup _ 2 3 5 [("x", [("a", 3)])] [("x", [("a", 1), ("b", 7)])] [("x", [("a", 4), ("b", 7)])]
    (by
      intro o c
      by_cases ho : "x" = o
      · subst ho
        by_cases ha : "a" = c
        · subst ha; decide
        · by_cases hb : "b" = c
          · subst hb; decide
          · simp [wdAbs, wdRow, alGet, ha, hb]
      · simp [wdAbs, wdRow, alGet, ho])
    _ [⟨["a", "b"], ["x"]⟩, ⟨["b"], ["y"]⟩] (by decide +kernel)

/-- `ndl_lambda_homogeneous` with every hypothesis instantiated: threading, one
    outcome per job, two events per chunk file, λ = 5 scaled by k = 3 -/
example :
    ∃ a b, ndlModel Generated.pyMagic Generated.pyVersion ⟨.keep, .threading, 1, 2⟩ (1 : ℤ) 2 3 (3 * 5) none
        [⟨["a", "b", "a"], ["x"]⟩, ⟨["b"], ["y"]⟩, ⟨["a"], ["x", "y"]⟩] = .ok (a, 3) ∧
      ndlModel Generated.pyMagic Generated.pyVersion ⟨.keep, .threading, 1, 2⟩ (1 : ℤ) 2 3 5 none
        [⟨["a", "b", "a"], ["x"]⟩, ⟨["b"], ["y"]⟩, ⟨["a"], ["x", "y"]⟩] = .ok (b, 3) ∧
      ∀ o c, a.get o c = 3 * b.get o c :=
  ndl_lambda_homogeneous ⟨.keep, .threading, 1, 2⟩ 1 2 3 5 3 _
    [⟨["a", "b", "a"], ["x"]⟩, ⟨["b"], ["y"]⟩, ⟨["a"], ["x", "y"]⟩] (by decide +kernel) (by decide +kernel)
    ⟨by decide, by decide +kernel, by decide +kernel, by decide⟩

/-- `ndl_row_depends_only` instantiated: OpenMP vs threading, `True` vs `False`;
    the second file renames / removes OTHER outcomes (`y` → `z`, `w` dropped)
    and repeats a cue that `True` removes: row `x` is the same -/
example :
    ∃ a b, ndlModel Generated.pyMagic Generated.pyVersion ⟨.keep, .openmp, 2, 2⟩ (1 : ℤ) 2 3 5 none
        [⟨["a", "b"], ["x", "y"]⟩, ⟨["b"], ["y", "w"]⟩] = .ok (a, 2) ∧
      ndlModel Generated.pyMagic Generated.pyVersion ⟨.dedup, .threading, 1, 3⟩ (1 : ℤ) 2 3 5 none
        [⟨["a", "b", "a"], ["x", "z"]⟩, ⟨["b"], ["z"]⟩] = .ok (b, 2) ∧
      ∀ c, a.get "x" c = b.get "x" c :=
  ndl_row_depends_only ⟨.keep, .openmp, 2, 2⟩ ⟨.dedup, .threading, 1, 3⟩ 1 2 3 5 _ _
    [⟨["a", "b"], ["x", "y"]⟩, ⟨["b"], ["y", "w"]⟩]
    [⟨["a", "b"], ["x", "z"]⟩, ⟨["b"], ["z"]⟩] "x" (by decide +kernel) (by decide +kernel)
    (by decide +kernel) (by decide +kernel)
    ⟨by decide, by decide +kernel, by decide +kernel, by decide⟩
    ⟨by decide, by decide +kernel, by decide +kernel, by decide⟩ (by decide +kernel)

/-- the per-cue `alpha_zero_cue` on a concrete run: cue 1 has α = 0 and keeps its
    weight 7 while cue 0 learns -/
example :
    let α : Nat → ℤ := fun c => if c = 1 then 0 else 1
    let W : Nat → Nat → ℤ := fun o c => if o = 10 ∧ c = 1 then 7 else 0
    rwLearn α 2 3 5 W [⟨[0, 1], [10]⟩, ⟨[1, 1], [11]⟩] 10 1 = 7 ∧
    rwLearn α 2 3 5 W [⟨[0, 1], [10]⟩, ⟨[1, 1], [11]⟩] 10 0 ≠ 0 := by
  decide +kernel

/-! non-vacuity of `event_perm`: a repeated cue and two outcomes, both permuted; the weights are not zero -/
example :
    ([0, 1, 0] : List Nat) ~ [1, 0, 0] ∧ ([10, 11] : List Nat) ~ [11, 10] ∧
    rwLearn (fun _ => (1:ℤ)) 2 3 5 (fun _ _ => 0) ([⟨[1], [10]⟩] ++ ⟨[0, 1, 0], [10, 11]⟩ :: [⟨[0], [12]⟩]) 11 0
      = rwLearn (fun _ => (1:ℤ)) 2 3 5 (fun _ _ => 0) ([⟨[1], [10]⟩] ++ ⟨[1, 0, 0], [11, 10]⟩ :: [⟨[0], [12]⟩]) 11 0
    ∧ rwLearn (fun _ => (1:ℤ)) 2 3 5 (fun _ _ => 0) ([⟨[1], [10]⟩] ++ ⟨[0, 1, 0], [10, 11]⟩ :: [⟨[0], [12]⟩]) 11 0 ≠ 0 := by
  refine ⟨by decide, by decide, by decide +kernel, by decide +kernel⟩

end Pyndl.C13
