/-
  C13 — Learners obey the algebraic laws of the Rescorla–Wagner map.

  The laws are theorems about the specification `rwLearn`; C01's theorems
  (`dictNdl_eq_spec`, `kernel_*_eq_spec`) transport them to the models of
  every implementation, and the correspondence run ties those to the code.
-/
import PyndlProofs.Laws
import PyndlProofs.Dict

namespace Pyndl.C13
open Pyndl List

variable {R : Type} [CommRing R]
variable {ι κ : Type} [DecidableEq ι] [DecidableEq κ]

/-- what row `o` can see of an event: its cues and whether `o` is among the outcomes -/
def view (o : κ) (e : Event ι κ) : List ι × Bool := (e.cues, decide (o ∈ e.outcomes))

/-- **row locality**: the weights of outcome `o` depend only on row `o` of the
    initial weights and on `(cues, o present?)` of each event — removing or
    renaming *other* outcomes leaves row `o` unchanged. -/
theorem row_depends_only (α : ι → R) (β₁ β₂ lam : R) (W W' : κ → ι → R)
    (es es' : List (Event ι κ)) (o : κ) (hW : W o = W' o) (hv : es.map (view o) = es'.map (view o)) :
    rwLearn α β₁ β₂ lam W es o = rwLearn α β₁ β₂ lam W' es' o := by
  rw [rwLearn_row, rwLearn_row, hW]
  generalize W' o = r
  induction es generalizing es' r with
  | nil =>
    cases es' with
    | nil => rfl
    | cons _ _ => simp at hv
  | cons e es ih =>
    cases es' with
    | nil => simp at hv
    | cons e' es' =>
      simp only [List.map_cons, List.cons.injEq, view, Prod.mk.injEq] at hv
      simp only [List.foldl_cons]
      rw [hv.1.1, hv.1.2]
      exact ih es' hv.2 _

/-- **renaming equivariance**: renaming cues by an injection `f` and outcomes by
    an injection `g` (in the events, the initial weights and the per-cue α)
    renames the result. -/
theorem rename_equivariant {ι' κ' : Type} [DecidableEq ι'] [DecidableEq κ']
    (f : ι → ι') (g : κ → κ') (hf : Function.Injective f) (hg : Function.Injective g)
    (α : ι → R) (α' : ι' → R) (hα : ∀ c, α' (f c) = α c) (β₁ β₂ lam : R)
    (W : κ → ι → R) (W' : κ' → ι' → R) (hW : ∀ o c, W' (g o) (f c) = W o c)
    (es : List (Event ι κ)) (o : κ) (c : ι) :
    rwLearn α' β₁ β₂ lam W' (es.map (fun e => ⟨e.cues.map f, e.outcomes.map g⟩)) (g o) (f c)
      = rwLearn α β₁ β₂ lam W es o c :=
  rwLearn_rename f g hf hg α α' hα β₁ β₂ lam W W' hW es o c

/-- **cue order is irrelevant** inside any event -/
theorem cue_perm (α : ι → R) (β₁ β₂ lam : R) (W : κ → ι → R) (pre post : List (Event ι κ))
    (cs cs' : List ι) (os : List κ) (h : cs ~ cs') :
    rwLearn α β₁ β₂ lam W (pre ++ ⟨cs, os⟩ :: post) = rwLearn α β₁ β₂ lam W (pre ++ ⟨cs', os⟩ :: post) := by
  simp only [rwLearn_append, rwLearn_cons]
  congr 1
  funext o
  simp only [rwStep]
  exact rwRow_perm α β₁ β₂ lam _ h _

/-- **affine in the initial weights** -/
theorem affine (α : ι → R) (β₁ β₂ lam : R) (W V : κ → ι → R) (es : List (Event ι κ)) (o : κ) (c : ι) :
    rwLearn α β₁ β₂ lam (fun o c => W o c + V o c) es o c
      = rwLearn α β₁ β₂ lam W es o c + rwLearn α β₁ β₂ 0 V es o c :=
  rwLearn_add α β₁ β₂ lam W V es o c

/-- the λ = 0 part is linear -/
theorem linear_part (α : ι → R) (β₁ β₂ k : R) (V : κ → ι → R) (es : List (Event ι κ)) (o : κ) (c : ι) :
    rwLearn α β₁ β₂ 0 (fun o c => k * V o c) es o c = k * rwLearn α β₁ β₂ 0 V es o c := by
  have := rwLearn_smul α β₁ β₂ 0 k V es o c
  simpa using this

/-- **proportional to λ when starting from zero** -/
theorem lambda_homogeneous (α : ι → R) (β₁ β₂ lam k : R) (es : List (Event ι κ)) (o : κ) (c : ι) :
    rwLearn α β₁ β₂ (k * lam) (fun _ _ => (0 : R)) es o c
      = k * rwLearn α β₁ β₂ lam (fun _ _ => (0 : R)) es o c := by
  have := rwLearn_smul α β₁ β₂ lam k (fun _ _ => (0 : R)) es o c
  simpa using this

/-- **β₂ = 0**: an event that does not contain outcome `o` leaves row `o` untouched -/
theorem beta2_zero (α : ι → R) (β₁ lam : R) (W : κ → ι → R) (e : Event ι κ) (o : κ)
    (h : o ∉ e.outcomes) : rwStep α β₁ 0 lam W e o = W o := by
  simp only [rwStep, h, decide_false]
  exact rwRow_beta2_zero α β₁ lam (W o) e.cues

/-- **α = 0**: nothing is learned -/
theorem alpha_zero (β₁ β₂ lam : R) (W : κ → ι → R) (es : List (Event ι κ)) :
    rwLearn (fun _ => (0 : R)) β₁ β₂ lam W es = W :=
  rwLearn_alpha_zero β₁ β₂ lam W es

/-- transport to the pure-Python learner: every law above holds for what the
    model of `dict_ndl` returns, because it returns `rwLearn`. -/
theorem laws_hold_for_dictNdl (p : DupPolicy) (α : ι → R) (β₁ β₂ lam : R) (W₀ : WDict ι κ R)
    (es es' : List (Event ι κ)) (hp : applyPolicyAll p es = some es') :
    ∃ W, dictNdl p α β₁ β₂ lam W₀ es = some W ∧ wdAbs W = rwLearn α β₁ β₂ lam (wdAbs W₀) es' :=
  Pyndl.dictNdl_eq_spec p α β₁ β₂ lam W₀ es es' hp

/-! non-vacuity: the affine law on a concrete run in ℤ with a non-zero start -/
example :
    let es : List (Event Nat Nat) := [⟨[0, 1], [10]⟩, ⟨[1], [11]⟩]
    let W : Nat → Nat → ℤ := fun o c => if o = 10 ∧ c = 0 then 3 else 0
    let V : Nat → Nat → ℤ := fun o c => if o = 11 ∧ c = 1 then 7 else 0
    rwLearn (fun _ => (1:ℤ)) 2 3 5 (fun o c => W o c + V o c) es 11 1
      = rwLearn (fun _ => (1:ℤ)) 2 3 5 W es 11 1 + rwLearn (fun _ => (1:ℤ)) 2 3 0 V es 11 1
    ∧ rwLearn (fun _ => (1:ℤ)) 2 3 5 W es 11 1 ≠ 0 := by
  decide +kernel

end Pyndl.C13
