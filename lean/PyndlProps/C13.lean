/-
  C13 — Learners obey the algebraic laws of the Rescorla–Wagner map.

  Two layers:
  * the laws as theorems about the specification `rwLearn` (`row_depends_only`,
    `rename_equivariant`, `cue_perm`, `event_perm`, `events_perm`, `affine`,
    `linear_part`, `lambda_homogeneous`, `beta2_zero`, `beta2_zero_seq`,
    `alpha_zero`, `alpha_zero_cue`);
  * the laws as theorems about the IMPLEMENTATION MODELS (PyndlProofs/LawsModels):
    each relates two or three runs of the model of `dict_ndl` (`dict_*`) resp.
    of `ndl.ndl` (`ndl_*`) and says that the runs succeed and their results are
    related.  They are obtained from the first layer through `dictNdl_eq_spec` /
    `ndlCall_eq_spec` / `ndlCall_continue_eq_spec`; `dict_transport` is the
    transport lemma for `dict_ndl` ("whatever the model returns is `rwLearn`").

  The `ndl_*` laws are about the CALL `ndlCall` (what the driver evaluates;
  counting, id maps, chunk files, either kernel method, labels, and the
  zero-event `IOError`).  Their hypotheses, all on the inputs:
    `hne`   at least one event (on zero events the call raises `IOError`; the
            earlier statements were on `ndlModel` without `hne`, so e.g.
            `ndl_lambda_homogeneous … [] []` asserted success where the code raises);
    `hfile` `FileEvents`: what an event file can hold (C01 header);
    `hcfg`  `CfgOK`, `hp` the policy accepts the events, `hfit` 32-bit limits;
    `hnd…`  given weights have duplicate-free labels (`ndl_affine`,
            `ndl_alpha_beta2_zero`, `ndl_beta2_zero_seq`; the model reads a
            repeated label at its FIRST position, Python's `OrderedDict` at its
            LAST — given cues `['a','a']` the model updates the first `a`, the
            code the last; the earlier statements lacked this).
  Their conclusions state the LABELS of every result as well (from scratch the
  names in first-occurrence order, continued the given labels followed by the
  new names) — a law read through `LW.get` alone would also hold for a result
  with missing or extra labels.
  On the models: row locality, renaming, affine, λ-homogeneous, α = 0, β₂ = 0
  (absent outcome AND the sequence form `ndl_beta2_zero_seq`), and the order
  inside events `ndl_events_perm` (= `cue_perm` / `event_perm` / `events_perm`
  lifted).  For `dict_ndl` the order law is `dict_events_perm`.
  Spec-level only: `linear_part` (a λ = 0 run scaled; it is the `V`-summand of
  `*_affine`), `beta2_zero` one step.
  The correspondence run ties the models to the code.
-/
import PyndlProofs.Laws
import PyndlProofs.Dict
import PyndlProofs.LawsModels
import PyndlModel.Generated

set_option linter.unusedVariables false

namespace Pyndl.C13
open Pyndl List

variable {R : Type} [CommRing R]
variable {ι κ : Type} [DecidableEq ι] [DecidableEq κ]

/-- what row `o` can see of an event: its cues and whether `o` is among the outcomes -/
def view (o : κ) (e : Event ι κ) : List ι × Bool := (e.cues, decide (o ∈ e.outcomes))

/-- **row locality**: the weights of outcome `o` depend only on row `o` of the
    initial weights and on `(cues, o present?)` of each event — removing or
    renaming *other* outcomes leaves row `o` unchanged. -/
theorem row_depends_only (α : ι → R) (β₁ β₂ lam : R) (W W' : κ → ι → R)
    (es es' : List (Event ι κ)) (o : κ) (hW : W o = W' o) (hv : es.map (view o) = es'.map (view o)) :
    rwLearn α β₁ β₂ lam W es o = rwLearn α β₁ β₂ lam W' es' o :=
  rwLearn_row_depends_only α β₁ β₂ lam W W' es es' o hW hv

/-- **renaming equivariance**: renaming cues by an injection `f` and outcomes by
    an injection `g` (in the events, the initial weights and the per-cue α)
    renames the result. -/
theorem rename_equivariant {ι' κ' : Type} [DecidableEq ι'] [DecidableEq κ']
    (f : ι → ι') (g : κ → κ') (hf : Function.Injective f) (hg : Function.Injective g)
    (α : ι → R) (α' : ι' → R) (hα : ∀ c, α' (f c) = α c) (β₁ β₂ lam : R)
    (W : κ → ι → R) (W' : κ' → ι' → R) (hW : ∀ o c, W' (g o) (f c) = W o c)
    (es : List (Event ι κ)) (o : κ) (c : ι) :
    rwLearn α' β₁ β₂ lam W' (es.map (fun e => ⟨e.cues.map f, e.outcomes.map g⟩)) (g o) (f c)
      = rwLearn α β₁ β₂ lam W es o c :=
  rwLearn_rename f g hf hg α α' hα β₁ β₂ lam W W' hW es o c

/-- **cue order is irrelevant** inside any event -/
theorem cue_perm (α : ι → R) (β₁ β₂ lam : R) (W : κ → ι → R) (pre post : List (Event ι κ))
    (cs cs' : List ι) (os : List κ) (h : cs ~ cs') :
    rwLearn α β₁ β₂ lam W (pre ++ ⟨cs, os⟩ :: post) = rwLearn α β₁ β₂ lam W (pre ++ ⟨cs', os⟩ :: post) := by
  simp only [rwLearn_append, rwLearn_cons]
  congr 1
  funext o
  simp only [rwStep]
  exact rwRow_perm α β₁ β₂ lam _ h _

/-- **the order of cues and of outcomes inside any event is irrelevant** (also with repeats: the
    permuted event has the same cues and the same outcomes as multisets) — the relation the
    correspondence run's `cue_shuffle` law checks between two real runs. -/
theorem event_perm (α : ι → R) (β₁ β₂ lam : R) (W : κ → ι → R) (pre post : List (Event ι κ))
    (cs cs' : List ι) (os os' : List κ) (h : cs ~ cs') (ho : os ~ os') :
    rwLearn α β₁ β₂ lam W (pre ++ ⟨cs, os⟩ :: post) = rwLearn α β₁ β₂ lam W (pre ++ ⟨cs', os'⟩ :: post) := by
  simp only [rwLearn_append, rwLearn_cons]
  congr 1
  funext o
  simp only [rwStep]
  have hm : decide (o ∈ os) = decide (o ∈ os') := by
    simp only [ho.mem_iff]
  rw [hm]
  exact rwRow_perm α β₁ β₂ lam _ h _

/-- every event permuted at once (cues by `cs ~ cs'`, outcomes by `os ~ os'`, event by event) -/
theorem events_perm (α : ι → R) (β₁ β₂ lam : R) (es es' : List (Event ι κ))
    (h : List.Forall₂ (fun e e' => e.cues ~ e'.cues ∧ e.outcomes ~ e'.outcomes) es es') (W : κ → ι → R) :
    rwLearn α β₁ β₂ lam W es = rwLearn α β₁ β₂ lam W es' := by
  induction h generalizing W with
  | nil => rfl
  | @cons e e' es es' he _ ih =>
    rw [rwLearn_cons, rwLearn_cons, ← ih]
    congr 1
    obtain ⟨cs, os⟩ := e
    obtain ⟨cs', os'⟩ := e'
    exact event_perm α β₁ β₂ lam W [] [] cs cs' os os' he.1 he.2

/-- **affine in the initial weights** -/
theorem affine (α : ι → R) (β₁ β₂ lam : R) (W V : κ → ι → R) (es : List (Event ι κ)) (o : κ) (c : ι) :
    rwLearn α β₁ β₂ lam (fun o c => W o c + V o c) es o c
      = rwLearn α β₁ β₂ lam W es o c + rwLearn α β₁ β₂ 0 V es o c :=
  rwLearn_add α β₁ β₂ lam W V es o c

/-- the λ = 0 part is linear -/
theorem linear_part (α : ι → R) (β₁ β₂ k : R) (V : κ → ι → R) (es : List (Event ι κ)) (o : κ) (c : ι) :
    rwLearn α β₁ β₂ 0 (fun o c => k * V o c) es o c = k * rwLearn α β₁ β₂ 0 V es o c := by
  have := rwLearn_smul α β₁ β₂ 0 k V es o c
  simpa using this

/-- **proportional to λ when starting from zero** -/
theorem lambda_homogeneous (α : ι → R) (β₁ β₂ lam k : R) (es : List (Event ι κ)) (o : κ) (c : ι) :
    rwLearn α β₁ β₂ (k * lam) (fun _ _ => (0 : R)) es o c
      = k * rwLearn α β₁ β₂ lam (fun _ _ => (0 : R)) es o c := by
  have := rwLearn_smul α β₁ β₂ lam k (fun _ _ => (0 : R)) es o c
  simpa using this

/-- **β₂ = 0**, one step: an event that does not contain outcome `o` leaves row `o` untouched -/
theorem beta2_zero (α : ι → R) (β₁ lam : R) (W : κ → ι → R) (e : Event ι κ) (o : κ)
    (h : o ∉ e.outcomes) : rwStep α β₁ 0 lam W e o = W o := by
  simp only [rwStep, h, decide_false]
  exact rwRow_beta2_zero α β₁ lam (W o) e.cues

/-- **β₂ = 0**, sequence form: all events that do not contain outcome `o` can be
    removed from the sequence without changing row `o`; in particular a row
    whose outcome occurs in no event is left untouched -/
theorem beta2_zero_seq (α : ι → R) (β₁ lam : R) (W : κ → ι → R) (es : List (Event ι κ)) (o : κ) :
    rwLearn α β₁ 0 lam W es o = rwLearn α β₁ 0 lam W (es.filter (fun e => decide (o ∈ e.outcomes))) o ∧
    ((∀ e ∈ es, o ∉ e.outcomes) → rwLearn α β₁ 0 lam W es o = W o) :=
  ⟨rwLearn_beta2_zero_filter α β₁ lam W es o, rwLearn_beta2_zero_absent α β₁ lam W es o⟩

/-- **α = 0** (all cues): nothing is learned -/
theorem alpha_zero (β₁ β₂ lam : R) (W : κ → ι → R) (es : List (Event ι κ)) :
    rwLearn (fun _ => (0 : R)) β₁ β₂ lam W es = W :=
  rwLearn_alpha_zero β₁ β₂ lam W es

/-- **α = 0, per cue**: a cue whose learning rate is 0 keeps its weight in every
    row, whatever the learning rates of the other cues (`dict_ndl` takes a
    per-cue α) -/
theorem alpha_zero_cue (α : ι → R) (β₁ β₂ lam : R) (W : κ → ι → R) (es : List (Event ι κ))
    (o : κ) (c : ι) (h : α c = 0) : rwLearn α β₁ β₂ lam W es o c = W o c :=
  rwLearn_alpha_zero_cue α β₁ β₂ lam W es o c h

/-! ## the laws as theorems about the model of `dict_ndl` -/

/-- **transport lemma** (replaces `laws_hold_for_dictNdl`, which was
    `C01.dictNdl_eq_spec` verbatim): WHATEVER the model of `dict_ndl` returns is
    the specification on the policy-processed events, and the policy accepted
    them — so every law above is a law of the model's results -/
theorem dict_transport (p : DupPolicy) (α : ι → R) (β₁ β₂ lam : R) (W₀ W : WDict ι κ R)
    (es : List (Event ι κ)) (h : dictNdl p α β₁ β₂ lam W₀ es = some W) :
    ∃ es', applyPolicyAll p es = some es' ∧ wdAbs W = rwLearn α β₁ β₂ lam (wdAbs W₀) es' :=
  dictNdl_transport p α β₁ β₂ lam W₀ W es h

/-- **row locality, `dict_ndl`**: two runs (any duplicate policies, any event
    lists) whose initial dicts agree on row `o` and whose policy-processed
    events look the same from `o` return the same row `o` -/
theorem dict_row_depends_only (p p' : DupPolicy) (α : ι → R) (β₁ β₂ lam : R) (W₀ W₀' : WDict ι κ R)
    (es₁ es₂ es₁' es₂' : List (Event ι κ)) (o : κ)
    (hp₁ : applyPolicyAll p es₁ = some es₁') (hp₂ : applyPolicyAll p' es₂ = some es₂')
    (hW : wdAbs W₀ o = wdAbs W₀' o) (hv : es₁'.map (view o) = es₂'.map (view o)) :
    ∃ A B, dictNdl p α β₁ β₂ lam W₀ es₁ = some A ∧ dictNdl p' α β₁ β₂ lam W₀' es₂ = some B ∧
      wdAbs A o = wdAbs B o :=
  dictNdl_row_depends_only p p' α β₁ β₂ lam W₀ W₀' es₁ es₂ es₁' es₂' o hp₁ hp₂ hW hv

/-- **renaming equivariance, `dict_ndl`** -/
theorem dict_rename_equivariant {ι' κ' : Type} [DecidableEq ι'] [DecidableEq κ']
    (f : ι → ι') (g : κ → κ') (hf : Function.Injective f) (hg : Function.Injective g)
    (p : DupPolicy) (α : ι → R) (α' : ι' → R) (hα : ∀ c, α' (f c) = α c) (β₁ β₂ lam : R)
    (W₀ : WDict ι κ R) (W₀' : WDict ι' κ' R) (hW : ∀ o c, wdAbs W₀' (g o) (f c) = wdAbs W₀ o c)
    (es es' : List (Event ι κ)) (hp : applyPolicyAll p es = some es') :
    ∃ A B, dictNdl p α β₁ β₂ lam W₀ es = some A ∧
      dictNdl p α' β₁ β₂ lam W₀' (es.map (fun e => ⟨e.cues.map f, e.outcomes.map g⟩)) = some B ∧
      ∀ o c, wdAbs B (g o) (f c) = wdAbs A o c :=
  dictNdl_rename_equivariant f g hf hg p α α' hα β₁ β₂ lam W₀ W₀' hW es es' hp

/-- **affine in the initial weights, `dict_ndl`**: the run from a dict denoting
    `W + V` (with λ) is the run from `W` (with λ) plus the run from `V` with λ = 0 -/
theorem dict_affine (p : DupPolicy) (α : ι → R) (β₁ β₂ lam : R) (W₀ V₀ S₀ : WDict ι κ R)
    (hS : ∀ o c, wdAbs S₀ o c = wdAbs W₀ o c + wdAbs V₀ o c)
    (es es' : List (Event ι κ)) (hp : applyPolicyAll p es = some es') :
    ∃ S W V, dictNdl p α β₁ β₂ lam S₀ es = some S ∧ dictNdl p α β₁ β₂ lam W₀ es = some W ∧
      dictNdl p α β₁ β₂ 0 V₀ es = some V ∧ ∀ o c, wdAbs S o c = wdAbs W o c + wdAbs V o c :=
  dictNdl_affine p α β₁ β₂ lam W₀ V₀ S₀ hS es es' hp

/-- **proportional to λ from zero, `dict_ndl`** -/
theorem dict_lambda_homogeneous (p : DupPolicy) (α : ι → R) (β₁ β₂ lam k : R)
    (es es' : List (Event ι κ)) (hp : applyPolicyAll p es = some es') :
    ∃ A B, dictNdl p α β₁ β₂ (k * lam) [] es = some A ∧ dictNdl p α β₁ β₂ lam [] es = some B ∧
      ∀ o c, wdAbs A o c = k * wdAbs B o c :=
  dictNdl_lambda_homogeneous p α β₁ β₂ lam k es es' hp

/-- **per-cue α = 0 and β₂ = 0, `dict_ndl`**: whatever the model returns, a cue
    with learning rate 0 keeps its weight; with β₂ = 0 a row whose outcome
    occurs in no event is untouched -/
theorem dict_alpha_beta2_zero (p : DupPolicy) (α : ι → R) (β₁ β₂ lam : R) (W₀ : WDict ι κ R)
    (es : List (Event ι κ)) :
    (∀ W, dictNdl p α β₁ β₂ lam W₀ es = some W → ∀ o c, α c = 0 → wdAbs W o c = wdAbs W₀ o c) ∧
    (∀ W, dictNdl p α β₁ 0 lam W₀ es = some W → ∀ o, (∀ e ∈ es, o ∉ e.outcomes) → wdAbs W o = wdAbs W₀ o) :=
  ⟨fun W h o c hc => dictNdl_alpha_zero_cue p α β₁ β₂ lam W₀ W es h o c hc,
    fun W h o ho => dictNdl_beta2_zero p α β₁ lam W₀ W es h o ho⟩

/-- **the order inside the events is irrelevant, `dict_ndl`** (`events_perm`
    lifted): two event lists that agree event by event up to the order of the
    cues and of the outcomes are accepted alike and give dicts denoting the same
    weights -/
theorem dict_events_perm (p : DupPolicy) (α : ι → R) (β₁ β₂ lam : R) (W₀ : WDict ι κ R)
    (es₁ es₂ es₁' : List (Event ι κ)) (h : EventsPerm es₁ es₂) (hp : applyPolicyAll p es₁ = some es₁') :
    ∃ A B, dictNdl p α β₁ β₂ lam W₀ es₁ = some A ∧ dictNdl p α β₁ β₂ lam W₀ es₂ = some B ∧
      wdAbs A = wdAbs B := by
  obtain ⟨es₂', hp₂, hperm⟩ := applyPolicyAll_perm_some p es₁ es₂ es₁' h hp
  obtain ⟨A, a1, a2⟩ := Pyndl.dictNdl_eq_spec p α β₁ β₂ lam W₀ es₁ es₁' hp
  obtain ⟨B, b1, b2⟩ := Pyndl.dictNdl_eq_spec p α β₁ β₂ lam W₀ es₂ es₂' hp₂
  exact ⟨A, B, a1, b1, by rw [a2, b2, rwLearn_perm_events α β₁ β₂ lam _ es₁' es₂' hperm]⟩

/-! ## the laws as theorems about the model of `ndl.ndl` — the CALL -/

/-- **row locality, `ndl.ndl`**: two calls from scratch — possibly with different
    methods, chunk sizes and duplicate policies — over event files whose
    policy-processed events look the same from outcome `o` return the same
    weights for `o`, at every cue; each result is labelled with the names of its
    own file. -/
theorem ndl_row_depends_only (cfg₁ cfg₂ : NdlCfg) (alpha β₁ β₂ lam : R)
    (es₁ es₂ es₁' es₂' : List (Event String String)) (o : String)
    (hne₁ : es₁ ≠ []) (hne₂ : es₂ ≠ []) (hfile₁ : FileEvents es₁) (hfile₂ : FileEvents es₂)
    (hcfg₁ : CfgOK cfg₁ (countNames es₁).2.length) (hcfg₂ : CfgOK cfg₂ (countNames es₂).2.length)
    (hp₁ : applyPolicyAll cfg₁.policy es₁ = some es₁') (hp₂ : applyPolicyAll cfg₂.policy es₂ = some es₂')
    (hfit₁ : Fits32 es₁) (hfit₂ : Fits32 es₂) (hview : es₁'.map (view o) = es₂'.map (view o)) :
    ∃ a b, ndlCall Generated.pyMagic Generated.pyVersion cfg₁ alpha β₁ β₂ lam none es₁ = .ok (a, es₁.length) ∧
      ndlCall Generated.pyMagic Generated.pyVersion cfg₂ alpha β₁ β₂ lam none es₂ = .ok (b, es₂.length) ∧
      a.cues = (countNames es₁).1 ∧ a.outcomes = (countNames es₁).2 ∧
      b.cues = (countNames es₂).1 ∧ b.outcomes = (countNames es₂).2 ∧
      ∀ c, a.get o c = b.get o c :=
  ndlCall_row_depends_only _ _ (by decide) (by decide) cfg₁ cfg₂ alpha β₁ β₂ lam
    es₁ es₂ es₁' es₂' o hne₁ hne₂ hcfg₁ hcfg₂ hp₁ hp₂ hfit₁ hfit₂ hview

/-- **renaming equivariance, `ndl.ndl`**: renaming cues by an injection `f` and
    outcomes by an injection `g` in the event file renames the returned matrix:
    the labels of the second result are the renamed labels of the first in the
    same order, and the values correspond.  (The legality of the renamed call —
    `CfgOK`, `Fits32`, `FileEvents` — follows from that of the first and is no
    longer a hypothesis.) -/
theorem ndl_rename_equivariant (cfg : NdlCfg)
    (alpha β₁ β₂ lam : R) (f g : String → String) (hf : Function.Injective f) (hg : Function.Injective g)
    (es es' : List (Event String String)) (hne : es ≠ []) (hfile : FileEvents es)
    (hp : applyPolicyAll cfg.policy es = some es')
    (hcfg : CfgOK cfg (countNames es).2.length) (hfit : Fits32 es) :
    ∃ a b, ndlCall Generated.pyMagic Generated.pyVersion cfg alpha β₁ β₂ lam none es = .ok (a, es.length) ∧
      ndlCall Generated.pyMagic Generated.pyVersion cfg alpha β₁ β₂ lam none
        (es.map (fun e => ⟨e.cues.map f, e.outcomes.map g⟩)) = .ok (b, es.length) ∧
      a.cues = (countNames es).1 ∧ a.outcomes = (countNames es).2 ∧
      b.cues = a.cues.map f ∧ b.outcomes = a.outcomes.map g ∧
      ∀ o c, b.get (g o) (f c) = a.get o c :=
  ndlCall_rename_equivariant _ _ (by decide) (by decide) cfg alpha β₁ β₂ lam f g hf hg es es' hne hp hcfg hfit

/-- (lemma, not a property theorem — listed with the definitional ones) the renamed
    file is again one an event file can hold -/
theorem rename_file_events (f g : String → String) (es : List (Event String String)) (h : FileEvents es) :
    FileEvents (es.map (fun e => ⟨e.cues.map f, e.outcomes.map g⟩)) := by
  intro e he
  obtain ⟨e0, he0, rfl⟩ := List.mem_map.mp he
  exact ⟨by simpa using (h e0 he0).1, by simpa using (h e0 he0).2⟩

/-- **affine in the initial weights, `ndl.ndl`**: three continued calls — from a
    labelled matrix `s` denoting `w + v` with λ, from `w` with λ, from `v` with
    λ = 0 — satisfy `result(s) = result(w) + result(v)` at every pair of names;
    each result carries its given labels followed by the new names.
    `hnd`: all given label lists are duplicate free. -/
theorem ndl_affine (cfg : NdlCfg) (alpha β₁ β₂ lam : R)
    (w v s : LW R) (hs : ∀ o c, s.get o c = w.get o c + v.get o c)
    (hnd : (w.cues.Nodup ∧ w.outcomes.Nodup) ∧ (v.cues.Nodup ∧ v.outcomes.Nodup) ∧ (s.cues.Nodup ∧ s.outcomes.Nodup))
    (es es' : List (Event String String)) (hne : es ≠ []) (hfile : FileEvents es)
    (hp : applyPolicyAll cfg.policy es = some es')
    (hcw : CfgOK cfg (mergedOutcomes w es).length) (hcv : CfgOK cfg (mergedOutcomes v es).length)
    (hcs : CfgOK cfg (mergedOutcomes s es).length)
    (fw : Fits32With w es) (fv : Fits32With v es) (fs : Fits32With s es) :
    ∃ rs rw rv, ndlCall Generated.pyMagic Generated.pyVersion cfg alpha β₁ β₂ lam (some s) es = .ok (rs, es.length) ∧
      ndlCall Generated.pyMagic Generated.pyVersion cfg alpha β₁ β₂ lam (some w) es = .ok (rw, es.length) ∧
      ndlCall Generated.pyMagic Generated.pyVersion cfg alpha β₁ β₂ 0 (some v) es = .ok (rv, es.length) ∧
      (rs.cues = mergedCues s es ∧ rs.outcomes = mergedOutcomes s es) ∧
      (rw.cues = mergedCues w es ∧ rw.outcomes = mergedOutcomes w es) ∧
      (rv.cues = mergedCues v es ∧ rv.outcomes = mergedOutcomes v es) ∧
      ∀ o c, rs.get o c = rw.get o c + rv.get o c :=
  ndlCall_affine _ _ (by decide) (by decide) cfg alpha β₁ β₂ lam w v s hs es es' hne hp hcw hcv hcs fw fv fs

/-- **proportional to λ from zero, `ndl.ndl`**: both results carry the names of the
    file, in the same order -/
theorem ndl_lambda_homogeneous (cfg : NdlCfg)
    (alpha β₁ β₂ lam k : R) (es es' : List (Event String String)) (hne : es ≠ []) (hfile : FileEvents es)
    (hcfg : CfgOK cfg (countNames es).2.length)
    (hp : applyPolicyAll cfg.policy es = some es') (hfit : Fits32 es) :
    ∃ a b, ndlCall Generated.pyMagic Generated.pyVersion cfg alpha β₁ β₂ (k * lam) none es = .ok (a, es.length) ∧
      ndlCall Generated.pyMagic Generated.pyVersion cfg alpha β₁ β₂ lam none es = .ok (b, es.length) ∧
      a.cues = (countNames es).1 ∧ a.outcomes = (countNames es).2 ∧ b.cues = a.cues ∧ b.outcomes = a.outcomes ∧
      ∀ o c, a.get o c = k * b.get o c :=
  ndlCall_lambda_homogeneous _ _ (by decide) (by decide) cfg alpha β₁ β₂ lam k es es' hne hcfg hp hfit

/-- **α = 0 and β₂ = 0, `ndl.ndl`** (its α is one number): with α = 0 the given
    weights come back (under the given labels followed by the new names); with
    β₂ = 0 the row of an outcome that occurs in no event comes back unchanged.
    `hndc`, `hndo`: the given labels are duplicate free. -/
theorem ndl_alpha_beta2_zero (cfg : NdlCfg)
    (alpha β₁ β₂ lam : R) (w : LW R) (hndc : w.cues.Nodup) (hndo : w.outcomes.Nodup)
    (es es' : List (Event String String)) (hne : es ≠ []) (hfile : FileEvents es)
    (hcfg : CfgOK cfg (mergedOutcomes w es).length)
    (hp : applyPolicyAll cfg.policy es = some es') (hfit : Fits32With w es) :
    (∃ r, ndlCall Generated.pyMagic Generated.pyVersion cfg 0 β₁ β₂ lam (some w) es = .ok (r, es.length) ∧
      r.cues = mergedCues w es ∧ r.outcomes = mergedOutcomes w es ∧
      ∀ o c, r.get o c = w.get o c) ∧
    (∀ o, (∀ e ∈ es, o ∉ e.outcomes) →
      ∃ r, ndlCall Generated.pyMagic Generated.pyVersion cfg alpha β₁ 0 lam (some w) es = .ok (r, es.length) ∧
        r.cues = mergedCues w es ∧ r.outcomes = mergedOutcomes w es ∧
        ∀ c, r.get o c = w.get o c) :=
  ⟨ndlCall_alpha_zero _ _ (by decide) (by decide) cfg β₁ β₂ lam w es es' hne hcfg hp hfit,
    fun o ho => ndlCall_beta2_zero _ _ (by decide) (by decide) cfg alpha β₁ lam w es es' hne hcfg hp hfit o ho⟩

/-- **β₂ = 0, sequence form, `ndl.ndl`** (`beta2_zero_seq` lifted): continuing from
    `w` on the whole file and on the file from which every event NOT containing
    outcome `o` was removed gives the same row `o`.  The second call needs an
    event left (`hne`; else it raises `IOError`) and its own legal arguments. -/
theorem ndl_beta2_zero_seq (cfg : NdlCfg) (alpha β₁ lam : R)
    (w : LW R) (hndc : w.cues.Nodup) (hndo : w.outcomes.Nodup)
    (es es' : List (Event String String)) (o : String) (hfile : FileEvents es)
    (hne : es.filter (fun e => decide (o ∈ e.outcomes)) ≠ [])
    (hcfg : CfgOK cfg (mergedOutcomes w es).length)
    (hcfgF : CfgOK cfg (mergedOutcomes w (es.filter (fun e => decide (o ∈ e.outcomes)))).length)
    (hp : applyPolicyAll cfg.policy es = some es')
    (hfit : Fits32With w es) (hfitF : Fits32With w (es.filter (fun e => decide (o ∈ e.outcomes)))) :
    ∃ r rF, ndlCall Generated.pyMagic Generated.pyVersion cfg alpha β₁ 0 lam (some w) es = .ok (r, es.length) ∧
      ndlCall Generated.pyMagic Generated.pyVersion cfg alpha β₁ 0 lam (some w)
          (es.filter (fun e => decide (o ∈ e.outcomes)))
        = .ok (rF, (es.filter (fun e => decide (o ∈ e.outcomes))).length) ∧
      r.cues = mergedCues w es ∧ r.outcomes = mergedOutcomes w es ∧
      rF.cues = mergedCues w (es.filter (fun e => decide (o ∈ e.outcomes))) ∧
      rF.outcomes = mergedOutcomes w (es.filter (fun e => decide (o ∈ e.outcomes))) ∧
      ∀ c, r.get o c = rF.get o c :=
  ndlCall_beta2_zero_filter _ _ (by decide) (by decide) cfg alpha β₁ lam w es es' o hne hcfg hcfgF hp hfit hfitF

/-- **the order of cues and of outcomes inside the events is irrelevant, `ndl.ndl`**
    (`cue_perm` / `event_perm` / `events_perm` lifted; the relation the
    correspondence run's `cue_shuffle` law checks between two real runs): two
    event files that agree event by event up to the order inside the events give
    the same weight at every pair of names; the label lists are permutations of
    each other (first-occurrence order can differ).  All hypotheses on the
    first file. -/
theorem ndl_events_perm (cfg : NdlCfg) (alpha β₁ β₂ lam : R) (es₁ es₂ es₁' : List (Event String String))
    (h : EventsPerm es₁ es₂) (hne : es₁ ≠ []) (hfile : FileEvents es₁)
    (hcfg : CfgOK cfg (countNames es₁).2.length)
    (hp : applyPolicyAll cfg.policy es₁ = some es₁') (hfit : Fits32 es₁) :
    ∃ a b, ndlCall Generated.pyMagic Generated.pyVersion cfg alpha β₁ β₂ lam none es₁ = .ok (a, es₁.length) ∧
      ndlCall Generated.pyMagic Generated.pyVersion cfg alpha β₁ β₂ lam none es₂ = .ok (b, es₂.length) ∧
      a.cues = (countNames es₁).1 ∧ a.outcomes = (countNames es₁).2 ∧
      b.cues = (countNames es₂).1 ∧ b.outcomes = (countNames es₂).2 ∧
      a.cues ~ b.cues ∧ a.outcomes ~ b.outcomes ∧
      ∀ o c, a.get o c = b.get o c :=
  ndlCall_events_perm _ _ (by decide) (by decide) cfg alpha β₁ β₂ lam es₁ es₂ es₁' h hne hcfg hp hfit

/-! non-vacuity: the affine law on a concrete run in ℤ with a non-zero start -/
example :
    let es : List (Event Nat Nat) := [⟨[0, 1], [10]⟩, ⟨[1], [11]⟩]
    let W : Nat → Nat → ℤ := fun o c => if o = 10 ∧ c = 0 then 3 else 0
    let V : Nat → Nat → ℤ := fun o c => if o = 11 ∧ c = 1 then 7 else 0
    rwLearn (fun _ => (1:ℤ)) 2 3 5 (fun o c => W o c + V o c) es 11 1
      = rwLearn (fun _ => (1:ℤ)) 2 3 5 W es 11 1 + rwLearn (fun _ => (1:ℤ)) 2 3 0 V es 11 1
    ∧ rwLearn (fun _ => (1:ℤ)) 2 3 5 W es 11 1 ≠ 0 := by
  decide +kernel

/-! non-vacuity of the model-level laws: every hypothesis instantiated -/

/-- `dict_affine` on concrete dicts over ℤ (`S₀ = W₀ + V₀` cell by cell), policy
    `True`, an event with a repeated cue, per-cue learning rates -/
example :
    ∃ S W V,
      dictNdl .dedup (fun c => if c = "a" then (2 : ℤ) else 1) 2 3 5
        [("x", [("a", 4), ("b", 7)])] [⟨["a", "b", "a"], ["x"]⟩, ⟨["b"], ["y"]⟩] = some S ∧
      dictNdl .dedup (fun c => if c = "a" then (2 : ℤ) else 1) 2 3 5
        [("x", [("a", 3)])] [⟨["a", "b", "a"], ["x"]⟩, ⟨["b"], ["y"]⟩] = some W ∧
      dictNdl .dedup (fun c => if c = "a" then (2 : ℤ) else 1) 2 3 0
        [("x", [("a", 1), ("b", 7)])] [⟨["a", "b", "a"], ["x"]⟩, ⟨["b"], ["y"]⟩] = some V ∧
      ∀ o c, wdAbs S o c = wdAbs W o c + wdAbs V o c :=
  dict_affine .dedup _ 2 3 5 [("x", [("a", 3)])] [("x", [("a", 1), ("b", 7)])] [("x", [("a", 4), ("b", 7)])]
    (by
      intro o c
      by_cases ho : "x" = o
      · subst ho
        by_cases ha : "a" = c
        · subst ha; decide
        · by_cases hb : "b" = c
          · subst hb; decide
          · simp [wdAbs, wdRow, alGet, ha, hb]
      · simp [wdAbs, wdRow, alGet, ho])
    _ [⟨["a", "b"], ["x"]⟩, ⟨["b"], ["y"]⟩] (by decide +kernel)

/-- `dict_row_depends_only` applied: policies `False` vs `True`, the second list
    renames the other outcome and repeats a cue that `True` removes; row `x` -/
example :
    ∃ A B, dictNdl .keep (fun _ => (1 : ℤ)) 2 3 5 [("x", [("a", 4)])] [⟨["a", "b"], ["x", "y"]⟩, ⟨["b"], ["y"]⟩] = some A ∧
      dictNdl .dedup (fun _ => (1 : ℤ)) 2 3 5 [("x", [("a", 4)]), ("q", [("b", 9)])]
        [⟨["a", "b", "a"], ["x", "z"]⟩, ⟨["b"], ["z"]⟩] = some B ∧
      wdAbs A "x" = wdAbs B "x" :=
  dict_row_depends_only .keep .dedup _ 2 3 5 _ _ _ _ [⟨["a", "b"], ["x", "y"]⟩, ⟨["b"], ["y"]⟩]
    [⟨["a", "b"], ["x", "z"]⟩, ⟨["b"], ["z"]⟩] "x" (by decide +kernel) (by decide +kernel)
    (by funext c; simp [wdAbs, wdRow, alGet]) (by decide +kernel)

/-- `dict_rename_equivariant` applied: strings renamed to numbers -/
example :
    ∃ A B, dictNdl .dedup (fun _ => (1 : ℤ)) 2 3 5 [] [⟨[1, 2, 1], [10]⟩, ⟨[2], [11]⟩] = some A ∧
      dictNdl .dedup (fun _ => (1 : ℤ)) 2 3 5 []
        ([⟨[1, 2, 1], [10]⟩, ⟨[2], [11]⟩].map (fun e : Event Nat Nat => ⟨e.cues.map (· + 5), e.outcomes.map (· * 2)⟩))
        = some B ∧
      ∀ o c, wdAbs B (o * 2) (c + 5) = wdAbs A o c :=
  dict_rename_equivariant (· + 5) (· * 2) (fun a b h => by simpa using h) (fun a b h => by simpa using h)
    .dedup (fun _ => (1 : ℤ)) (fun _ => (1 : ℤ)) (fun _ => rfl) 2 3 5 [] []
    (fun _ _ => by simp [wdAbs, wdRow, alGet]) [⟨[1, 2, 1], [10]⟩, ⟨[2], [11]⟩]
    [⟨[1, 2], [10]⟩, ⟨[2], [11]⟩] (by decide +kernel)

/-- `dict_lambda_homogeneous`, `dict_transport`, `dict_alpha_beta2_zero`,
    `dict_events_perm` applied on concrete lists -/
example :
    (∃ A B, dictNdl .keep (fun _ => (1 : ℤ)) 2 3 (3 * 5) [] [⟨[1, 2, 1], [10]⟩, ⟨[2], [11]⟩] = some A ∧
      dictNdl .keep (fun _ => (1 : ℤ)) 2 3 5 [] [⟨[1, 2, 1], [10]⟩, ⟨[2], [11]⟩] = some B ∧
      ∀ o c, wdAbs A o c = 3 * wdAbs B o c) ∧
    (∃ A B, dictNdl .dedup (fun _ => (1 : ℤ)) 2 3 5 [] [⟨[1, 2, 1], [10, 11]⟩, ⟨[2], [11]⟩] = some A ∧
      dictNdl .dedup (fun _ => (1 : ℤ)) 2 3 5 [] [⟨[2, 1, 1], [11, 10]⟩, ⟨[2], [11]⟩] = some B ∧
      wdAbs A = wdAbs B) :=
  ⟨dict_lambda_homogeneous .keep _ 2 3 5 3 _ [⟨[1, 2, 1], [10]⟩, ⟨[2], [11]⟩] (by decide +kernel),
   dict_events_perm .dedup _ 2 3 5 [] _ _ [⟨[1, 2], [10, 11]⟩, ⟨[2], [11]⟩]
     (List.Forall₂.cons ⟨by decide, by decide⟩ (List.Forall₂.cons ⟨by decide, by decide⟩ List.Forall₂.nil))
     (by decide +kernel)⟩

/-- `dict_alpha_beta2_zero` applied to a result the model returns (cue 2 has α = 0;
    outcome 12 occurs in no event) -/
example (W : WDict Nat Nat ℤ)
    (h : dictNdl .keep (fun c => if c = 2 then (0 : ℤ) else 1) 2 0 5 [(12, [(2, 7)])] [⟨[1, 2], [10]⟩, ⟨[2], [11]⟩] = some W) :
    wdAbs W 12 2 = 7 ∧ wdAbs W 12 = wdAbs ([(12, [(2, 7)])] : WDict Nat Nat ℤ) 12 :=
  ⟨by
      rw [(dict_alpha_beta2_zero .keep (fun c => if c = 2 then (0 : ℤ) else 1) 2 0 5 [(12, [(2, 7)])]
        [⟨[1, 2], [10]⟩, ⟨[2], [11]⟩]).1 W h 12 2 (by decide)]
      decide,
    (dict_alpha_beta2_zero .keep (fun c => if c = 2 then (0 : ℤ) else 1) 2 0 5 [(12, [(2, 7)])]
      [⟨[1, 2], [10]⟩, ⟨[2], [11]⟩]).2 W h 12 (by decide)⟩

/-- … and the hypothesis `h` is satisfiable, the result not trivial (`dict_transport`
    applied: the policy accepted the events) -/
example :
    ∃ W, dictNdl .keep (fun c => if c = 2 then (0 : ℤ) else 1) 2 0 5 [(12, [(2, 7)])] [⟨[1, 2], [10]⟩, ⟨[2], [11]⟩] = some W ∧
      wdAbs W 10 1 ≠ 0 ∧
      ∃ es', applyPolicyAll .keep [⟨[1, 2], [10]⟩, ⟨[2], [11]⟩] = some es' ∧
        wdAbs W = rwLearn (fun c => if c = 2 then (0 : ℤ) else 1) 2 0 5 (wdAbs [(12, [(2, 7)])]) es' := by
  cases h : dictNdl .keep (fun c => if c = 2 then (0 : ℤ) else 1) 2 0 5 [(12, [(2, 7)])] [⟨[1, 2], [10]⟩, ⟨[2], [11]⟩] with
  | none => exact absurd h (by decide +kernel)
  | some W =>
    refine ⟨W, rfl, ?_, dict_transport _ _ _ _ _ _ W _ h⟩
    have : (dictNdl .keep (fun c => if c = 2 then (0 : ℤ) else 1) 2 0 5 [(12, [(2, 7)])]
        [⟨[1, 2], [10]⟩, ⟨[2], [11]⟩]).map (fun W => decide (wdAbs W 10 1 ≠ 0)) = some true := by decide +kernel
    rw [h] at this
    simpa using this

/-! the `ndl.ndl` laws, every hypothesis instantiated -/

def exE : List (Event String String) := [⟨["a", "b", "a"], ["x"]⟩, ⟨["b"], ["y"]⟩, ⟨["a"], ["x", "y"]⟩]
/-- (definitional — example data, not a property theorem) -/
theorem exE_fits : Fits32 exE := ⟨by decide, by decide +kernel, by decide +kernel, by decide⟩

/-- `ndl_lambda_homogeneous`: threading, one outcome per job, two events per chunk
    file, λ = 5 scaled by k = 3 -/
example :
    ∃ a b, ndlCall Generated.pyMagic Generated.pyVersion ⟨.keep, .threading, 1, 2⟩ (1 : ℤ) 2 3 (3 * 5) none exE
        = .ok (a, 3) ∧
      ndlCall Generated.pyMagic Generated.pyVersion ⟨.keep, .threading, 1, 2⟩ (1 : ℤ) 2 3 5 none exE = .ok (b, 3) ∧
      a.cues = (countNames exE).1 ∧ a.outcomes = (countNames exE).2 ∧ b.cues = a.cues ∧ b.outcomes = a.outcomes ∧
      ∀ o c, a.get o c = 3 * b.get o c :=
  ndl_lambda_homogeneous ⟨.keep, .threading, 1, 2⟩ 1 2 3 5 3 exE exE (by decide) (by decide) (by decide +kernel)
    (by decide +kernel) exE_fits

/-- … on ZERO events the law is NOT claimed: the call raises `IOError` (OpenMP) -/
example : (match ndlCall Generated.pyMagic Generated.pyVersion ⟨.keep, .openmp, 1, 2⟩ (1 : ℤ) 1 1 1 none [] with
    | .error .io => true | _ => false) = true := by decide +kernel

/-- `ndl_row_depends_only` instantiated: OpenMP vs threading, `True` vs `False`;
    the second file renames / removes OTHER outcomes (`y` → `z`, `w` dropped)
    and repeats a cue that `True` removes: row `x` is the same -/
example :
    ∃ a b, ndlCall Generated.pyMagic Generated.pyVersion ⟨.keep, .openmp, 2, 2⟩ (1 : ℤ) 2 3 5 none
        [⟨["a", "b"], ["x", "y"]⟩, ⟨["b"], ["y", "w"]⟩] = .ok (a, 2) ∧
      ndlCall Generated.pyMagic Generated.pyVersion ⟨.dedup, .threading, 1, 3⟩ (1 : ℤ) 2 3 5 none
        [⟨["a", "b", "a"], ["x", "z"]⟩, ⟨["b"], ["z"]⟩] = .ok (b, 2) ∧
      a.cues = ["a", "b"] ∧ a.outcomes = ["x", "y", "w"] ∧ b.cues = ["a", "b"] ∧ b.outcomes = ["x", "z"] ∧
      ∀ c, a.get "x" c = b.get "x" c :=
  ndl_row_depends_only ⟨.keep, .openmp, 2, 2⟩ ⟨.dedup, .threading, 1, 3⟩ 1 2 3 5 _ _
    [⟨["a", "b"], ["x", "y"]⟩, ⟨["b"], ["y", "w"]⟩]
    [⟨["a", "b"], ["x", "z"]⟩, ⟨["b"], ["z"]⟩] "x" (by decide) (by decide) (by decide) (by decide)
    (by decide +kernel) (by decide +kernel)
    (by decide +kernel) (by decide +kernel)
    ⟨by decide, by decide +kernel, by decide +kernel, by decide⟩
    ⟨by decide, by decide +kernel, by decide +kernel, by decide⟩ (by decide +kernel)

def pf (s : String) : String := "p" ++ s
/-- (definitional — example data, not a property theorem) -/
theorem pf_inj : Function.Injective pf := by
  intro a b h
  unfold pf at h
  exact String.append_right_inj "p" |>.mp h

/-- `ndl_rename_equivariant` instantiated (threading, 2 events per file; every name
    gets the prefix `p`) -/
example :
    ∃ a b, ndlCall Generated.pyMagic Generated.pyVersion ⟨.keep, .threading, 1, 2⟩ (1 : ℤ) 2 3 5 none exE = .ok (a, 3) ∧
      ndlCall Generated.pyMagic Generated.pyVersion ⟨.keep, .threading, 1, 2⟩ (1 : ℤ) 2 3 5 none
        (exE.map (fun e => ⟨e.cues.map pf, e.outcomes.map pf⟩)) = .ok (b, 3) ∧
      a.cues = (countNames exE).1 ∧ a.outcomes = (countNames exE).2 ∧
      b.cues = a.cues.map pf ∧ b.outcomes = a.outcomes.map pf ∧
      ∀ o c, b.get (pf o) (pf c) = a.get o c :=
  ndl_rename_equivariant ⟨.keep, .threading, 1, 2⟩ 1 2 3 5 pf pf pf_inj pf_inj exE exE (by decide) (by decide)
    (by decide +kernel) (by decide +kernel) exE_fits

def wA : LW ℤ := ⟨["x"], ["a"], #[3]⟩
def vA : LW ℤ := ⟨["x"], ["a"], #[4]⟩
def sA : LW ℤ := ⟨["x"], ["a"], #[7]⟩
/-- (definitional — example data, not a property theorem) -/
theorem hsA : ∀ o c, sA.get o c = wA.get o c + vA.get o c := by
  intro o c
  unfold LW.get sA wA vA
  simp only
  split <;> simp_all

/-- `ndl_affine` instantiated: `s = w + v` on the labels `x` / `a`, the file brings
    the new cue `b` and the new outcome `y` (OpenMP, one outcome per job) -/
example :
    ∃ rs rw rv, ndlCall Generated.pyMagic Generated.pyVersion ⟨.keep, .openmp, 1, 2⟩ (1 : ℤ) 2 3 5 (some sA) exE
        = .ok (rs, 3) ∧
      ndlCall Generated.pyMagic Generated.pyVersion ⟨.keep, .openmp, 1, 2⟩ (1 : ℤ) 2 3 5 (some wA) exE = .ok (rw, 3) ∧
      ndlCall Generated.pyMagic Generated.pyVersion ⟨.keep, .openmp, 1, 2⟩ (1 : ℤ) 2 3 0 (some vA) exE = .ok (rv, 3) ∧
      (rs.cues = mergedCues sA exE ∧ rs.outcomes = mergedOutcomes sA exE) ∧
      (rw.cues = mergedCues wA exE ∧ rw.outcomes = mergedOutcomes wA exE) ∧
      (rv.cues = mergedCues vA exE ∧ rv.outcomes = mergedOutcomes vA exE) ∧
      ∀ o c, rs.get o c = rw.get o c + rv.get o c :=
  ndl_affine ⟨.keep, .openmp, 1, 2⟩ 1 2 3 5 wA vA sA hsA
    ⟨⟨by decide, by decide⟩, ⟨by decide, by decide⟩, ⟨by decide, by decide⟩⟩ exE exE (by decide) (by decide)
    (by decide +kernel) (by decide +kernel) (by decide +kernel) (by decide +kernel)
    ⟨by decide, by decide +kernel, by decide +kernel, by decide⟩
    ⟨by decide, by decide +kernel, by decide +kernel, by decide⟩
    ⟨by decide, by decide +kernel, by decide +kernel, by decide⟩

/-- `ndl_alpha_beta2_zero` instantiated, β₂ = 0 clause: the outcome `x` of the given
    weights is absent from the events (policy `True`, a repeated cue) -/
example :
    ∃ r, ndlCall Generated.pyMagic Generated.pyVersion ⟨.dedup, .openmp, 2, 3⟩ (1 : ℤ) 2 0 5 (some wA)
        [⟨["a", "a"], ["y"]⟩] = .ok (r, 1) ∧
      r.cues = mergedCues wA [⟨["a", "a"], ["y"]⟩] ∧ r.outcomes = mergedOutcomes wA [⟨["a", "a"], ["y"]⟩] ∧
      ∀ c, r.get "x" c = wA.get "x" c :=
  (ndl_alpha_beta2_zero (R := ℤ) ⟨.dedup, .openmp, 2, 3⟩ 1 2 3 5 wA (by decide) (by decide)
    [⟨["a", "a"], ["y"]⟩] [⟨["a"], ["y"]⟩] (by decide) (by decide)
    (by decide +kernel) (by decide +kernel) ⟨by decide, by decide +kernel, by decide +kernel, by decide⟩).2 "x" (by decide)

/-- … and the α = 0 clause -/
example :
    ∃ r, ndlCall Generated.pyMagic Generated.pyVersion ⟨.dedup, .threading, 2, 3⟩ (0 : ℤ) 2 3 5 (some wA) exE
        = .ok (r, 3) ∧
      r.cues = mergedCues wA exE ∧ r.outcomes = mergedOutcomes wA exE ∧ ∀ o c, r.get o c = wA.get o c :=
  (ndl_alpha_beta2_zero (R := ℤ) ⟨.dedup, .threading, 2, 3⟩ 1 2 3 5 wA (by decide) (by decide)
    exE [⟨["a", "b"], ["x"]⟩, ⟨["b"], ["y"]⟩, ⟨["a"], ["x", "y"]⟩] (by decide) (by decide)
    (by decide +kernel) (by decide +kernel) ⟨by decide, by decide +kernel, by decide +kernel, by decide⟩).1

/-- `ndl_beta2_zero_seq` instantiated: row `y` from the whole file `exE` and from
    the file without its first event (which does not contain `y`) -/
example :
    ∃ r rF, ndlCall Generated.pyMagic Generated.pyVersion ⟨.keep, .openmp, 1, 2⟩ (1 : ℤ) 2 0 5 (some wA) exE
        = .ok (r, 3) ∧
      ndlCall Generated.pyMagic Generated.pyVersion ⟨.keep, .openmp, 1, 2⟩ (1 : ℤ) 2 0 5 (some wA)
          (exE.filter (fun e => decide ("y" ∈ e.outcomes)))
        = .ok (rF, (exE.filter (fun e => decide ("y" ∈ e.outcomes))).length) ∧
      r.cues = mergedCues wA exE ∧ r.outcomes = mergedOutcomes wA exE ∧
      rF.cues = mergedCues wA (exE.filter (fun e => decide ("y" ∈ e.outcomes))) ∧
      rF.outcomes = mergedOutcomes wA (exE.filter (fun e => decide ("y" ∈ e.outcomes))) ∧
      ∀ c, r.get "y" c = rF.get "y" c :=
  ndl_beta2_zero_seq ⟨.keep, .openmp, 1, 2⟩ 1 2 5 wA (by decide) (by decide) exE exE "y" (by decide)
    (by decide +kernel) (by decide +kernel) (by decide +kernel) (by decide +kernel)
    ⟨by decide, by decide +kernel, by decide +kernel, by decide⟩
    ⟨by decide +kernel, by decide +kernel, by decide +kernel, by decide +kernel⟩

/-- `ndl_events_perm` instantiated: every event's cues and outcomes reversed
    (policy `True`; the label ORDER differs: `[a, b]` vs `[a, b]`, `[x, y]` vs
    `[x, y]` here only by coincidence of first occurrences — `Perm` is what is
    claimed) -/
example :
    ∃ a b, ndlCall Generated.pyMagic Generated.pyVersion ⟨.dedup, .threading, 1, 2⟩ (1 : ℤ) 2 3 5 none exE = .ok (a, 3) ∧
      ndlCall Generated.pyMagic Generated.pyVersion ⟨.dedup, .threading, 1, 2⟩ (1 : ℤ) 2 3 5 none
        (exE.map (fun e => ⟨e.cues.reverse, e.outcomes.reverse⟩))
        = .ok (b, (exE.map (fun e => (⟨e.cues.reverse, e.outcomes.reverse⟩ : Event String String))).length) ∧
      a.cues = (countNames exE).1 ∧ a.outcomes = (countNames exE).2 ∧
      b.cues = (countNames (exE.map (fun e => ⟨e.cues.reverse, e.outcomes.reverse⟩))).1 ∧
      b.outcomes = (countNames (exE.map (fun e => ⟨e.cues.reverse, e.outcomes.reverse⟩))).2 ∧
      a.cues ~ b.cues ∧ a.outcomes ~ b.outcomes ∧ ∀ o c, a.get o c = b.get o c :=
  ndl_events_perm ⟨.dedup, .threading, 1, 2⟩ 1 2 3 5 exE _ [⟨["a", "b"], ["x"]⟩, ⟨["b"], ["y"]⟩, ⟨["a"], ["x", "y"]⟩]
    (EventsPerm.of_map _ (fun e => ⟨List.reverse_perm _, List.reverse_perm _⟩) exE) (by decide) (by decide)
    (by decide +kernel) (by decide +kernel) exE_fits

/-- the per-cue `alpha_zero_cue` on a concrete run: cue 1 has α = 0 and keeps its
    weight 7 while cue 0 learns -/
example :
    let α : Nat → ℤ := fun c => if c = 1 then 0 else 1
    let W : Nat → Nat → ℤ := fun o c => if o = 10 ∧ c = 1 then 7 else 0
    rwLearn α 2 3 5 W [⟨[0, 1], [10]⟩, ⟨[1, 1], [11]⟩] 10 1 = 7 ∧
    rwLearn α 2 3 5 W [⟨[0, 1], [10]⟩, ⟨[1, 1], [11]⟩] 10 0 ≠ 0 := by
  decide +kernel

/-! non-vacuity of `event_perm`: a repeated cue and two outcomes, both permuted; the weights are not zero -/
example :
    ([0, 1, 0] : List Nat) ~ [1, 0, 0] ∧ ([10, 11] : List Nat) ~ [11, 10] ∧
    rwLearn (fun _ => (1:ℤ)) 2 3 5 (fun _ _ => 0) ([⟨[1], [10]⟩] ++ ⟨[0, 1, 0], [10, 11]⟩ :: [⟨[0], [12]⟩]) 11 0
      = rwLearn (fun _ => (1:ℤ)) 2 3 5 (fun _ _ => 0) ([⟨[1], [10]⟩] ++ ⟨[1, 0, 0], [11, 10]⟩ :: [⟨[0], [12]⟩]) 11 0
    ∧ rwLearn (fun _ => (1:ℤ)) 2 3 5 (fun _ _ => 0) ([⟨[1], [10]⟩] ++ ⟨[0, 1, 0], [10, 11]⟩ :: [⟨[0], [12]⟩]) 11 0 ≠ 0 := by
  refine ⟨by decide, by decide, by decide +kernel, by decide +kernel⟩

end Pyndl.C13
