/-
  C05 — A failed training run raises in bounded time and never returns weights.

  The logic that carries an error from where it happens to the caller is
  modelled and proved: the conversion pool with its error callback (every
  completion order), the worker threads of method='threading' (every
  interleaving), the sequential loop of dict_ndl, the header check of the
  compiled entry points.  Which stage detects which fault kind for which
  learner is tabulated in harness/run_C05.py and sampled by the fault
  enumeration on the real code.  partial: wall-clock boundedness is the
  per-call deadline of the harness; the theorems bound transitions.
-/
import PyndlProofs.Chunking
import PyndlProofs.Queue
import PyndlProofs.Dict
import PyndlProofs.Bytes

namespace Pyndl.C05
open Pyndl List

/-- **conversion fault ⇒ raise, for every completion order.** If the first job
    whose completion closes the pool is a failing one (repeated cue under the
    default policy, chunk larger than the storage budget, …), then for every
    delay oracle that job is submitted, its error is recorded and re-raised by
    the caller after the join, no later than that job's completion time. -/
theorem conversion_fault_raises (n per burst : Nat) (delay : Nat → Nat) (failing : Nat → Bool) (f0 : Nat)
    (hfirst : ∀ j, j < f0 → closesF n per failing j = false) (hfail : failing f0 = true) :
    let H := tDone delay burst f0
    let r := simulateF n per burst delay failing f0 H
    r.1 ≤ H ∧ r.2.1 = true :=
  convert_raises n per burst delay failing f0 hfirst hfail

/-- a failing job that is not the first closing one still makes the call raise
    whenever it is among the submitted jobs (all of them are joined) -/
theorem conversion_any_submitted_fault_raises (n per burst : Nat) (delay : Nat → Nat) (failing : Nat → Bool)
    (f0 H j : Nat) (hj : j ≤ H) (hf : failing j = true)
    (hsub : tSubmit delay burst j ≤ (simulateF n per burst delay failing f0 H).1) :
    (simulateF n per burst delay failing f0 H).2.1 = true := by
  show List.any _ failing = true
  rw [List.any_eq_true]
  exact ⟨j, by simp only [List.mem_filter, List.mem_range, decide_eq_true_eq]; exact ⟨by omega, hsub⟩, hf⟩

/-- non-vacuity of the skeleton: without a fault the conversion does not raise
    and reports the exact count (C04) -/
theorem no_fault_returns (n per burst : Nat) (hp : 1 ≤ per) (delay : Nat → Nat) :
    (simulateF n per burst delay (fun _ => false) (n / per) (tDone delay burst (n / per))).2.1 = false ∧
    (simulate n per burst delay (tDone delay burst (n / per))).2.2 = n :=
  ⟨convert_no_fault n per burst delay _ _, (submit_loop_terminates n per burst hp delay).2.2.2⟩

/-- **worker-thread fault ⇒ raise, for every interleaving**: a complete run of
    the work-queue protocol raises iff some kernel call failed (e.g. TypeError
    for an unusable hyper-parameter) — it never returns the partly trained
    matrix — … -/
theorem worker_fault_raises (p t : Nat) (as : List QAction) (s : QState)
    (hrun : qRun (qInit p t) as = some s) :
    qRaises s = as.any QAction.isFail := by
  rw [qRun_raises _ _ _ hrun, qInit_not_raises]; simp

/-- … every run is bounded by `2·parts + threads` transitions, failing calls
    included, … -/
theorem worker_runs_bounded (p t : Nat) (as : List QAction) (s : QState)
    (hrun : qRun (qInit p t) as = some s) : as.length ≤ 2 * p + t := by
  obtain ⟨_, h⟩ := qRun_inv (List.range p) (qInit p t) s as (qInit_inv p t) hrun
  rw [qInit_measure] at h; omega

/-- … and no reachable state blocks: a failed worker is final, the others
    always have an enabled transition (C02 `queue_progress`). -/
theorem worker_never_blocks (s : QState) (h : qFinal s = false) : ∃ a, (qStep s a).isSome = true := by
  unfold qFinal at h
  have : ∃ x ∈ s.threads, x ≠ TState.done ∧ x ≠ TState.failed := by
    by_contra hc
    have : s.threads.all (fun st => decide (st = TState.done) || decide (st = TState.failed)) = true :=
      List.all_eq_true.mpr (fun x hx => by
        simp only [Bool.or_eq_true, decide_eq_true_eq]
        by_contra hne
        exact hc ⟨x, hx, fun e => hne (Or.inl e), fun e => hne (Or.inr e)⟩)
    rw [this] at h; cases h
  obtain ⟨x, hx, hnd, hnf⟩ := this
  obtain ⟨t, ht, rfl⟩ := List.getElem_of_mem hx
  have hget : s.threads[t]? = some s.threads[t] := List.getElem?_eq_getElem ht
  cases hst : s.threads[t] with
  | atHead =>
    cases hq : s.queue with
    | nil => exact ⟨.exit t, by simp [qStep, hget, hst, hq]⟩
    | cons p rest => exact ⟨.take t, by simp [qStep, hget, hst, hq]⟩
  | running p => exact ⟨.finish t, by simp [qStep, hget, hst]⟩
  | done => exact absurd hst hnd
  | failed => exact absurd hst hnf

/-- **pure-Python learner**: a repeated cue or outcome under the default policy
    anywhere in the sequence ⇒ `ValueError`, nothing returned -/
theorem dict_fault_raises {R : Type} [CommRing R] {ι κ : Type} [DecidableEq ι] [DecidableEq κ]
    (α : ι → R) (β₁ β₂ lam : R) (W₀ : WDict ι κ R) (es : List (Event ι κ))
    (h : applyPolicyAll .error es = none) : dictNdl .error α β₁ β₂ lam W₀ es = none :=
  dictNdl_raises .error α β₁ β₂ lam W₀ es h

/-- the policy rejects a sequence iff some event repeats a cue or an outcome -/
theorem policy_rejects_iff {ι κ : Type} [DecidableEq ι] [DecidableEq κ] (es : List (Event ι κ)) :
    applyPolicyAll .error es = none ↔ ∃ e ∈ es, hasDup e.cues = true ∨ hasDup e.outcomes = true := by
  induction es with
  | nil => simp [applyPolicyAll]
  | cons e es ih =>
    simp only [applyPolicyAll, applyPolicy, List.mem_cons, exists_eq_or_imp]
    by_cases h : (hasDup e.cues || hasDup e.outcomes) = true
    · simp only [h, if_true]
      simp only [Bool.or_eq_true] at h
      simp [h]
    · simp only [h, Bool.false_eq_true, if_false]
      have h' : ¬ (hasDup e.cues = true ∨ hasDup e.outcomes = true) := by
        simpa [Bool.or_eq_true] using h
      cases hr : applyPolicyAll DupPolicy.error es with
      | none =>
        simp only [hr, true_iff] at ih
        simp only [true_iff]
        exact Or.inr ih
      | some r =>
        simp only [hr] at ih
        have : ¬ ∃ e ∈ es, hasDup e.cues = true ∨ hasDup e.outcomes = true := fun hx => by
          have := ih.mpr hx; cases this
        simp [h', this]

/-- **storage fault**: a conversion job needs exactly `encodedSize(chunk)` bytes,
    so under a per-file byte budget `b` it fails iff that size exceeds `b`
    (the harness sweeps `b` over these boundaries) -/
theorem storage_need (magic version : Nat) (es : List (Event Nat Nat)) :
    (encodeChunk magic version es).length = 12 + (es.map (fun e => 8 + 4 * (e.cues.length + e.outcomes.length))).sum :=
  length_encodeChunk magic version es

/-! non-vacuity: 3 parts, 2 workers, the second kernel call fails: the run is
final, raises, and part 2 was never trained. 4 events, 2 per file, job 1 fails
(a repeated cue in the second chunk): raised for a slow job 0. -/
example : (qRun (qInit 3 2) [.take 0, .take 1, .fail 1, .finish 0, .take 0, .finish 0, .exit 0]).map
    (fun s => (qFinal s, qRaises s, s.taken)) = some (true, true, [0, 1, 2]) := by decide +kernel
example : (simulateF 4 2 8 (fun j => if j = 0 then 9 else 0) (fun j => j == 1) 1 1).2.1 = true := by
  decide +kernel

end Pyndl.C05
