/-
  C05 — A failed training run raises in bounded time and never returns weights.

  What is proved, per stage that carries an error to the caller
  * conversion pool + error callback, every completion order:
    `conversion_fault_raises` (abstract oracle), and with the oracle
    INSTANTIATED from the event file (`failingJob` = "`write_events` of job `j`
    raises", characterised by the events of window `j`: `failing_job_iff`):
    `conversion_dup_raises`, `conversion_overflow_raises`,
    `conversion_no_fault`; `job_result_is_write_events` ties the callback view
    `jobResult` to `writeEvents`;
  * the learners themselves ("raises, never returns weights" = the model's
    result is `.error …`, no matrix):
      - `dict_ndl`: `dict_fault_raises`;
      - `ndl.ndl` (the CALL, every method, chunk sizes, with or without initial
        weights): `ndl_dup_raises` (repeated cue/outcome anywhere in the file,
        policy `None`), `ndl_overflow_raises` (`events_per_temporary_file ≥ 2³²`),
        `ndl_empty_raises` (zero events; OpenMP), the illegal
        `n_outcomes_per_job` cases are C01 `ndl_chunk_args_raise`;
      - `wh.wh` (real/binary flavours): `wh_dup_raises_*` (repeated cue/outcome),
        `wh_missing_vector_raises_*` (a cue / outcome without a vector);
  * worker threads of method='threading', every interleaving:
    `worker_fault_raises`, `worker_runs_bounded`, `worker_never_blocks`;
  * the header check of the compiled binary-to-binary entry points:
    `bad_header_raises` (a chunk with a wrong magic number / version anywhere in
    the file list ⇒ `IOError`, nothing learned from it or after it), and
    `no_chunk_file_raises` (empty file list ⇒ `IOError`).
  NOT proved (tested only, harness/run_C05.py): malformed text lines reaching a
  learner (C11's text model is not composed with the learners here), truncated
  gzip, storage exhaustion (only the size arithmetic `storage_need`), unusable
  hyper-parameter TYPES (only as the nondeterministic `.fail` action of a
  worker).  partial: wall-clock boundedness is the per-call deadline of the
  harness; the theorems bound transitions.
-/
import PyndlProofs.Chunking
import PyndlProofs.Queue
import PyndlProofs.Dict
import PyndlProofs.Bytes
import PyndlProofs.Faults
import PyndlModel.Generated

namespace Pyndl.C05
open Pyndl List

/-- **conversion fault ⇒ raise, for every completion order.** If the first job
    whose completion closes the pool is a failing one (repeated cue under the
    default policy, chunk larger than the storage budget, …), then for every
    delay oracle that job is submitted, its error is recorded and re-raised by
    the caller after the join, no later than that job's completion time. -/
theorem conversion_fault_raises (n per burst : Nat) (delay : Nat → Nat) (failing : Nat → Bool) (f0 : Nat)
    (hfirst : ∀ j, j < f0 → closesF n per failing j = false) (hfail : failing f0 = true) :
    let H := tDone delay burst f0
    let r := simulateF n per burst delay failing f0 H
    r.1 ≤ H ∧ r.2.1 = true :=
  convert_raises n per burst delay failing f0 hfirst hfail

/-- a failing job that is not the first closing one still makes the call raise
    whenever it is among the submitted jobs (all of them are joined) -/
theorem conversion_any_submitted_fault_raises (n per burst : Nat) (delay : Nat → Nat) (failing : Nat → Bool)
    (f0 H j : Nat) (hj : j ≤ H) (hf : failing j = true)
    (hsub : tSubmit delay burst j ≤ (simulateF n per burst delay failing f0 H).1) :
    (simulateF n per burst delay failing f0 H).2.1 = true := by
  show List.any _ failing = true
  rw [List.any_eq_true]
  exact ⟨j, by simp only [List.mem_filter, List.mem_range, decide_eq_true_eq]; exact ⟨by omega, hsub⟩, hf⟩

/-- (first conjunct definitional) non-vacuity of the skeleton: without a fault the conversion does not raise
    and reports the exact count (C04) -/
theorem no_fault_returns (n per burst : Nat) (hp : 1 ≤ per) (delay : Nat → Nat) :
    (simulateF n per burst delay (fun _ => false) (n / per) (tDone delay burst (n / per))).2.1 = false ∧
    (simulate n per burst delay (tDone delay burst (n / per))).2.2 = n :=
  ⟨convert_no_fault n per burst delay _ _, (submit_loop_terminates n per burst hp delay).2.2.2⟩

/-- (an invariant of `qStep`'s definition: `.fail` sets the flag, nothing clears
    it) **worker-thread fault ⇒ raise, for every interleaving**: a complete run of
    the work-queue protocol raises iff some kernel call failed (e.g. TypeError
    for an unusable hyper-parameter) — it never returns the partly trained
    matrix — … -/
theorem worker_fault_raises (p t : Nat) (as : List QAction) (s : QState)
    (hrun : qRun (qInit p t) as = some s) :
    qRaises s = as.any QAction.isFail := by
  rw [qRun_raises _ _ _ hrun, qInit_not_raises]; simp

/-- (the same statement as C02 `queue_bounded`) … every run is bounded by
    `2·parts + threads` transitions, failing calls included, … -/
theorem worker_runs_bounded (p t : Nat) (as : List QAction) (s : QState)
    (hrun : qRun (qInit p t) as = some s) : as.length ≤ 2 * p + t := by
  obtain ⟨_, h⟩ := qRun_inv (List.range p) (qInit p t) s as (qInit_inv p t) hrun
  rw [qInit_measure] at h; omega

/-- (the same statement as C02 `queue_progress`) … and no reachable state blocks: a failed worker is final, the others
    always have an enabled transition (C02 `queue_progress`). -/
theorem worker_never_blocks (s : QState) (h : qFinal s = false) : ∃ a, (qStep s a).isSome = true := by
  unfold qFinal at h
  have : ∃ x ∈ s.threads, x ≠ TState.done ∧ x ≠ TState.failed := by
    by_contra hc
    have : s.threads.all (fun st => decide (st = TState.done) || decide (st = TState.failed)) = true :=
      List.all_eq_true.mpr (fun x hx => by
        simp only [Bool.or_eq_true, decide_eq_true_eq]
        by_contra hne
        exact hc ⟨x, hx, fun e => hne (Or.inl e), fun e => hne (Or.inr e)⟩)
    rw [this] at h; cases h
  obtain ⟨x, hx, hnd, hnf⟩ := this
  obtain ⟨t, ht, rfl⟩ := List.getElem_of_mem hx
  have hget : s.threads[t]? = some s.threads[t] := List.getElem?_eq_getElem ht
  cases hst : s.threads[t] with
  | atHead =>
    cases hq : s.queue with
    | nil => exact ⟨.exit t, by simp [qStep, hget, hst, hq]⟩
    | cons p rest => exact ⟨.take t, by simp [qStep, hget, hst, hq]⟩
  | running p => exact ⟨.finish t, by simp [qStep, hget, hst]⟩
  | done => exact absurd hst hnd
  | failed => exact absurd hst hnf

/-- (the same statement as C01 `policy_error`) **pure-Python learner**: a repeated cue or outcome under the default policy
    anywhere in the sequence ⇒ `ValueError`, nothing returned -/
theorem dict_fault_raises {R : Type} [CommRing R] {ι κ : Type} [DecidableEq ι] [DecidableEq κ]
    (α : ι → R) (β₁ β₂ lam : R) (W₀ : WDict ι κ R) (es : List (Event ι κ))
    (h : applyPolicyAll .error es = none) : dictNdl .error α β₁ β₂ lam W₀ es = none :=
  dictNdl_raises .error α β₁ β₂ lam W₀ es h

/-- the policy rejects a sequence iff some event repeats a cue or an outcome -/
theorem policy_rejects_iff {ι κ : Type} [DecidableEq ι] [DecidableEq κ] (es : List (Event ι κ)) :
    applyPolicyAll .error es = none ↔ ∃ e ∈ es, hasDup e.cues = true ∨ hasDup e.outcomes = true := by
  induction es with
  | nil => simp [applyPolicyAll]
  | cons e es ih =>
    simp only [applyPolicyAll, applyPolicy, List.mem_cons, exists_eq_or_imp]
    by_cases h : (hasDup e.cues || hasDup e.outcomes) = true
    · simp only [h, if_true]
      simp only [Bool.or_eq_true] at h
      simp [h]
    · simp only [h, Bool.false_eq_true, if_false]
      have h' : ¬ (hasDup e.cues = true ∨ hasDup e.outcomes = true) := by
        simpa [Bool.or_eq_true] using h
      cases hr : applyPolicyAll DupPolicy.error es with
      | none =>
        simp only [hr, true_iff] at ih
        simp only [true_iff]
        exact Or.inr ih
      | some r =>
        simp only [hr] at ih
        have : ¬ ∃ e ∈ es, hasDup e.cues = true ∨ hasDup e.outcomes = true := fun hx => by
          have := ih.mpr hx; cases this
        simp [h', this]

/-- (size arithmetic only, the same statement as C06 `encoded_size`; no storage
    fault is modelled) **storage need**: a conversion job needs exactly `encodedSize(chunk)` bytes,
    so under a per-file byte budget `b` it fails iff that size exceeds `b`
    (the harness sweeps `b` over these boundaries) -/
theorem storage_need (magic version : Nat) (es : List (Event Nat Nat)) :
    (encodeChunk magic version es).length = 12 + (es.map (fun e => 8 + 4 * (e.cues.length + e.outcomes.length))).sum :=
  length_encodeChunk magic version es

/-! non-vacuity: 3 parts, 2 workers, the kernel call of worker 1 (part 1) fails:
worker 0 still takes and finishes the remaining part 2 (`taken = [0, 1, 2]`),
the run is final and RAISES — the partly trained matrix is never returned.
4 events, 2 per file, job 1 fails (a repeated cue in the second chunk): raised
for a slow job 0. -/
example : (qRun (qInit 3 2) [.take 0, .take 1, .fail 1, .finish 0, .take 0, .finish 0, .exit 0]).map
    (fun s => (qFinal s, qRaises s, s.taken)) = some (true, true, [0, 1, 2]) := by decide +kernel
example : (simulateF 4 2 8 (fun j => if j = 0 then 9 else 0) (fun j => j == 1) 1 1).2.1 = true := by
  decide +kernel


/-! ## learner-level faults -/

section Learners
variable {R : Type} [CommRing R]

/-- (the same statement as C01 `ndl_dup_raises`, listed here as the learner-level
    fault) **`ndl.ndl`: a repeated cue or outcome ANYWHERE in the file under
    `remove_duplicates=None` ⇒ `ValueError`, no weights** — the CALL, for every
    method, every `n_outcomes_per_job`, every legal `events_per_temporary_file`
    (the fault may sit in any chunk), with or without initial weights.  `h` is
    decidable: `policy_rejects_iff`. -/
theorem ndl_dup_raises (cfg : NdlCfg) (hper : 2 ≤ cfg.perFile) (hperU : cfg.perFile < 4294967296)
    (alpha β₁ β₂ lam : R) (W0 : Option (LW R)) (es : List (Event String String))
    (h : applyPolicyAll cfg.policy es = none) :
    ndlCall Generated.pyMagic Generated.pyVersion cfg alpha β₁ β₂ lam W0 es = .error .value :=
  ndlCall_dup_raises _ _ cfg alpha β₁ β₂ lam W0 es hper hperU h

/-- (the second clause of C01 `ndl_chunk_args_raise`) **`ndl.ndl`: a chunk size that
    does not fit the 32-bit header ⇒ `OverflowError`, no weights** — every event
    file, method, policy -/
theorem ndl_overflow_raises (cfg : NdlCfg) (h : 4294967296 ≤ cfg.perFile) (alpha β₁ β₂ lam : R)
    (W0 : Option (LW R)) (es : List (Event String String)) :
    ndlCall Generated.pyMagic Generated.pyVersion cfg alpha β₁ β₂ lam W0 es = .error .other :=
  ndlCall_perFile_overflow _ _ cfg alpha β₁ β₂ lam W0 es h

/-- (`ndlCall_nil_raises` in full generality; its three special cases are C01
    `ndl_call_empty_openmp`, C03 `ndl_call_empty_part_raises`, C15
    `pipeline_ndl_empty_raises`; that the rule is what the entry points do: C01
    `ndl_zero_events_rule`) **`ndl.ndl`: an event file with zero events ⇒ `IOError`**
    (OpenMP always; threading iff the given weights have an outcome row) -/
theorem ndl_empty_raises (cfg : NdlCfg) (hper : 2 ≤ cfg.perFile) (hperU : cfg.perFile < 4294967296)
    (hjt : cfg.method = .threading → 1 ≤ cfg.perJob) (hjo : cfg.method = .openmp → cfg.perJob < 4294967296)
    (alpha β₁ β₂ lam : R) (W0 : Option (LW R))
    (hne : cfg.method = .openmp ∨ ∃ w, W0 = some w ∧ w.outcomes ≠ []) :
    ndlCall Generated.pyMagic Generated.pyVersion cfg alpha β₁ β₂ lam W0 [] = .error .io :=
  ndlCall_nil_raises _ _ cfg alpha β₁ β₂ lam W0 hper hperU hjt hjo hne

/-- **`wh.wh`, repeated cue/outcome under `remove_duplicates=None` ⇒ `ValueError`**
    (real → binary; the cues have vectors; every `n_outcomes_per_job` — `chunk` is
    that argument of the OpenMP entry point.  `whModel` has NO
    `events_per_temporary_file`: the statement is for the default / any legal
    value of it; the real call with `events_per_temporary_file=2**32` raises
    `OverflowError` first, as `ndl.ndl` does — not modelled for `wh.wh`.  An
    earlier docstring said "every chunk size".) -/
theorem wh_dup_raises_r2b (p : DupPolicy) (eta β₁ β₂ lam : R) (ct : VecTable R) (chunk : Nat)
    (es : List (Event String String)) (htab : ∀ e ∈ es, ∀ c ∈ e.cues, c ∈ ct.names)
    (hp : applyPolicyAll p es = none) :
    whModel .r2b p eta β₁ β₂ lam (some ct) none chunk none es = .error .value :=
  whModel_r2b_policyError_names p eta β₁ β₂ lam ct chunk es htab hp

/-- … binary → real (every `n_outcomes_per_job`; `events_per_temporary_file` is not
    in `whModel`, see `wh_dup_raises_r2b`) -/
theorem wh_dup_raises_b2r (p : DupPolicy) (eta β₁ β₂ lam : R) (ot : VecTable R) (chunk : Nat)
    (es : List (Event String String)) (htabo : ∀ e ∈ es, ∀ o ∈ e.outcomes, o ∈ ot.names)
    (hp : applyPolicyAll p es = none) :
    whModel .b2r p eta β₁ β₂ lam none (some ot) chunk none es = .error .value :=
  whModel_b2r_policyError_names p eta β₁ β₂ lam ot chunk es htabo hp

/-- … real → real (every `n_outcomes_per_job`; `events_per_temporary_file` is not in
    `whModel`, see `wh_dup_raises_r2b`) -/
theorem wh_dup_raises_r2r (p : DupPolicy) (eta β₁ β₂ lam : R) (ct ot : VecTable R) (chunk : Nat)
    (es : List (Event String String)) (htabc : ∀ e ∈ es, ∀ c ∈ e.cues, c ∈ ct.names)
    (htabo : ∀ e ∈ es, ∀ o ∈ e.outcomes, o ∈ ot.names) (hp : applyPolicyAll p es = none) :
    whModel .r2r p eta β₁ β₂ lam (some ct) (some ot) chunk none es = .error .value :=
  whModel_r2r_policyError_names p eta β₁ β₂ lam ct ot chunk es htabc htabo hp

/-- **`wh.wh`, a cue without a vector ⇒ `ValueError`** (real → binary), whatever
    else — policy, `n_outcomes_per_job`, initial weights (legal
    `events_per_temporary_file`, which `whModel` does not have) -/
theorem wh_missing_vector_raises_r2b (p : DupPolicy) (eta β₁ β₂ lam : R) (ct : VecTable R) (chunk : Nat)
    (W0 : Option (LW R)) (es : List (Event String String))
    (hbad : ∃ e ∈ es, ∃ c ∈ e.cues, c ∉ ct.names) :
    whModel .r2b p eta β₁ β₂ lam (some ct) none chunk W0 es = .error .value :=
  whModel_r2b_tableError p eta β₁ β₂ lam ct chunk W0 es hbad

/-- … an outcome without a vector (binary → real) -/
theorem wh_missing_vector_raises_b2r (p : DupPolicy) (eta β₁ β₂ lam : R) (ot : VecTable R) (chunk : Nat)
    (W0 : Option (LW R)) (es : List (Event String String))
    (hbad : ∃ e ∈ es, ∃ o ∈ e.outcomes, o ∉ ot.names) :
    whModel .b2r p eta β₁ β₂ lam none (some ot) chunk W0 es = .error .value :=
  whModel_b2r_tableError p eta β₁ β₂ lam ot chunk W0 es hbad

/-- … a cue or an outcome without a vector (real → real) -/
theorem wh_missing_vector_raises_r2r (p : DupPolicy) (eta β₁ β₂ lam : R) (ct ot : VecTable R) (chunk : Nat)
    (W0 : Option (LW R)) (es : List (Event String String))
    (hbad : (∃ e ∈ es, ∃ c ∈ e.cues, c ∉ ct.names) ∨ (∃ e ∈ es, ∃ o ∈ e.outcomes, o ∉ ot.names)) :
    whModel .r2r p eta β₁ β₂ lam (some ct) (some ot) chunk W0 es = .error .value :=
  whModel_r2r_tableError p eta β₁ β₂ lam ct ot chunk W0 es hbad

end Learners

/-! ## the conversion oracle, instantiated from the event file -/

/-- **which jobs fail**: for a legal chunk size, conversion job `j` fails iff
    the duplicate policy rejects some event of ITS window `[j·per, (j+1)·per)` -/
theorem failing_job_iff (p : DupPolicy) (ids : List (Event Nat Nat)) (per j : Nat) (hU : per < 4294967296) :
    failingJob Generated.pyMagic Generated.pyVersion p ids per j = true ↔
      ∃ e ∈ chunkOf per ids j, applyPolicy p e = none :=
  failingJob_iff _ _ p ids per j hU

/-- … which is exactly "`write_events` of job `j` raises the duplicate `ValueError`" -/
theorem write_events_dup_error_iff (p : DupPolicy) (ids : List (Event Nat Nat)) (per j : Nat)
    (hU : per < 4294967296) :
    (∃ i, (writeEvents Generated.pyMagic Generated.pyVersion p ids (j * per) ((j + 1) * per)).2 = .dupError i) ↔
      failingJob Generated.pyMagic Generated.pyVersion p ids per j = true :=
  writeEvents_dupError_iff _ _ p ids per j hU

/-- (the same statement as C04 `job_result_is_write_events`; here it ties the
    oracle `failingJob` of the fault theorems to the writer)
    **the callback view is the writer's result**: for a job that does not fail,
    `write_events` reports `(jobResult n per j).count` events — as return value
    (`.ok`, full window), as `StopIteration` (`.stopped`, partly filled) or as
    the return value 0 (`.empty`) — and `jobResult.closes` holds exactly in the
    last two cases -/
theorem job_result_is_write_events (p : DupPolicy) (ids : List (Event Nat Nat)) (per j : Nat)
    (hp1 : 1 ≤ per) (hU : per < 4294967296)
    (hacc : failingJob Generated.pyMagic Generated.pyVersion p ids per j = false) :
    let c := (jobResult ids.length per j).count
    (writeEvents Generated.pyMagic Generated.pyVersion p ids (j * per) ((j + 1) * per)).2 =
      (if c = 0 then .empty else if c < per then .stopped c else .ok c) ∧
    ((jobResult ids.length per j).closes = true ↔
      (writeEvents Generated.pyMagic Generated.pyVersion p ids (j * per) ((j + 1) * per)).2 ≠ .ok per) :=
  jobResult_eq_writeEvents _ _ p ids per j hp1 hU hacc

/-- **a rejected duplicate anywhere in the file ⇒ the conversion raises, for
    every completion order** (the oracle of `conversion_fault_raises` is now the
    event file itself): there is a first failing job `f0`, at or before job
    `n / per`, nothing closes the pool before it, and for every delay oracle the
    error is re-raised no later than `f0` completes -/
theorem conversion_dup_raises (p : DupPolicy) (ids : List (Event Nat Nat)) (per burst : Nat)
    (delay : Nat → Nat) (hp1 : 1 ≤ per) (hU : per < 4294967296) (h : applyPolicyAll p ids = none) :
    ∃ f0, failingJob Generated.pyMagic Generated.pyVersion p ids per f0 = true ∧ f0 ≤ ids.length / per ∧
      (∀ j, j < f0 → closesF ids.length per (failingJob Generated.pyMagic Generated.pyVersion p ids per) j = false) ∧
      (let H := tDone delay burst f0
       let r := simulateF ids.length per burst delay (failingJob Generated.pyMagic Generated.pyVersion p ids per) f0 H
       r.1 ≤ H ∧ r.2.1 = true) :=
  Pyndl.conversion_dup_raises _ _ p ids per burst delay hp1 hU h

/-- `events_per_file ≥ 2³²`: job 0 fails (`OverflowError`) — raised for every
    completion order -/
theorem conversion_overflow_raises (p : DupPolicy) (ids : List (Event Nat Nat)) (per burst : Nat)
    (delay : Nat → Nat) (hU : 4294967296 ≤ per) :
    let H := tDone delay burst 0
    let r := simulateF ids.length per burst delay (failingJob Generated.pyMagic Generated.pyVersion p ids per) 0 H
    r.1 ≤ H ∧ r.2.1 = true :=
  Pyndl.conversion_overflow_raises _ _ p ids per burst delay hU

/-- an accepted file and a legal chunk size: no job fails, nothing is raised -/
theorem conversion_no_fault (p : DupPolicy) (ids ids' : List (Event Nat Nat)) (per burst : Nat)
    (delay : Nat → Nat) (hU : per < 4294967296) (h : applyPolicyAll p ids = some ids') (f0 H : Nat) :
    (∀ j, failingJob Generated.pyMagic Generated.pyVersion p ids per j = false) ∧
    (simulateF ids.length per burst delay (failingJob Generated.pyMagic Generated.pyVersion p ids per) f0 H).2.1
      = false :=
  Pyndl.conversion_no_fault _ _ p ids ids' per burst delay hU h f0 H

/-! ## the header check of the compiled entry points -/

/-- (the same statement as C06 `bad_header_rejected_b2b`)
    **a chunk file with a wrong magic number or version, wherever it stands in
    the file list ⇒ `IOError`**: the binary-to-binary entry points learn the
    readable files before it, nothing from it or after it, and raise -/
theorem bad_header_raises {σ : Type} (learnFile : σ → List (Event Nat Nat) → σ)
    (pre : List Bytes) (preEs : List (List (Event Nat Nat)))
    (hpre : List.Forall₂ (fun f es => ∃ h, decodeChunkKernel Generated.kernelMagic
      Generated.kernelVersion f = .ok (es, h)) pre preEs)
    (m' v' : Nat) (hm' : m' < 4294967296) (hv' : v' < 4294967296)
    (hne : m' ≠ Generated.kernelMagic ∨ v' ≠ Generated.kernelVersion) (rest : Bytes)
    (post : List Bytes) (w : σ) :
    ∃ e, learnChunksB2B Generated.kernelMagic Generated.kernelVersion learnFile
      (pre ++ (u32le m' ++ (u32le v' ++ rest)) :: post) w = (preEs.foldl learnFile w, some e) := by
  rw [learnChunksB2B_of_ne_nil _ _ _ _ (by simp)]
  rcases bad_header_is_error _ _ m' v' hm' hv' hne rest with h | h
  · exact ⟨_, learnChunks_bad _ _ learnFile pre preEs hpre _ _ h post w⟩
  · exact ⟨_, learnChunks_bad _ _ learnFile pre preEs hpre _ _ h post w⟩

/-- (definitional, `rfl`; the same statement as C06 `empty_file_list_raises`)
    **no chunk file at all ⇒ `IOError`**, weights untouched.  That this is the
    reason `ndl.ndl` raises on an event file with zero events: C01
    `ndl_zero_events_rule`. -/
theorem no_chunk_file_raises {σ : Type} (learnFile : σ → List (Event Nat Nat) → σ) (w : σ) :
    learnChunksB2B Generated.kernelMagic Generated.kernelVersion learnFile [] w = (w, some .noFile) := rfl

/-! non-vacuity of the learner-level statements: the theorems applied to a file
whose SECOND chunk (two events per file) holds the repeated cue -/
example :
    ndlCall Generated.pyMagic Generated.pyVersion ⟨.error, .threading, 1, 2⟩ (1 : ℤ) 2 3 5 none
      [⟨["a", "b"], ["x"]⟩, ⟨["b"], ["y"]⟩, ⟨["c", "c"], ["x"]⟩] = .error .value :=
  ndl_dup_raises ⟨.error, .threading, 1, 2⟩ (by decide) (by decide) 1 2 3 5 none _ (by decide +kernel)

/-- the oracle of that file (ids): job 0 is fine, job 1 fails; `simulateF` with
    this oracle raises whatever the delays (`conversion_dup_raises` applied) -/
example :
    (failingJob Generated.pyMagic Generated.pyVersion .error [⟨[0, 1], [0]⟩, ⟨[1], [1]⟩, ⟨[2, 2], [0]⟩] 2 0,
     failingJob Generated.pyMagic Generated.pyVersion .error [⟨[0, 1], [0]⟩, ⟨[1], [1]⟩, ⟨[2, 2], [0]⟩] 2 1)
      = (false, true) := by decide +kernel

example (delay : Nat → Nat) :
    ∃ f0, (simulateF 3 2 8 delay
      (failingJob Generated.pyMagic Generated.pyVersion .error [⟨[0, 1], [0]⟩, ⟨[1], [1]⟩, ⟨[2, 2], [0]⟩] 2)
      f0 (tDone delay 8 f0)).2.1 = true := by
  obtain ⟨f0, _, _, _, h⟩ := conversion_dup_raises .error [⟨[0, 1], [0]⟩, ⟨[1], [1]⟩, ⟨[2, 2], [0]⟩] 2 8 delay
    (by decide) (by decide) (by decide +kernel)
  exact ⟨f0, h.2⟩

/-- `ndl_overflow_raises` and `ndl_empty_raises` ITSELF applied: a chunk size of
    2³² (continuing from weights, threading); zero events with OpenMP; zero events
    with threading continuing from weights that have an outcome row -/
example :
    ndlCall Generated.pyMagic Generated.pyVersion ⟨.keep, .threading, 1, 4294967296⟩ (1 : ℤ) 2 3 5
      (some ⟨["x"], ["a"], #[7]⟩) [⟨["a"], ["x"]⟩] = .error .other ∧
    ndlCall Generated.pyMagic Generated.pyVersion ⟨.keep, .openmp, 3, 2⟩ (1 : ℤ) 2 3 5 none [] = .error .io ∧
    ndlCall Generated.pyMagic Generated.pyVersion ⟨.keep, .threading, 3, 2⟩ (1 : ℤ) 2 3 5
      (some ⟨["x"], ["a"], #[7]⟩) [] = .error .io :=
  ⟨ndl_overflow_raises ⟨.keep, .threading, 1, 4294967296⟩ (by decide) 1 2 3 5 _ _,
   ndl_empty_raises ⟨.keep, .openmp, 3, 2⟩ (by decide) (by decide) (by decide) (by decide) 1 2 3 5 none (Or.inl rfl),
   ndl_empty_raises ⟨.keep, .threading, 3, 2⟩ (by decide) (by decide) (by decide) (by decide) 1 2 3 5 _
     (Or.inr ⟨_, rfl, by decide⟩)⟩

/-- vector tables for the `wh.wh` examples: cues `a`, `b`; outcomes `x`, `y` -/
def exCT : VecTable ℤ := ⟨["a", "b"], ["d0", "d1"], #[1, 2,  0, 1]⟩
def exOT : VecTable ℤ := ⟨["x", "y"], ["e0", "e1"], #[1, 0,  3, 1]⟩

/-- the three `wh_dup_raises_*` ITSELF applied: the SECOND event repeats a cue
    (policy `None`), all names have vectors -/
example :
    whModel .r2b .error (1 : ℤ) 2 3 5 (some exCT) none 1 none [⟨["a"], ["x"]⟩, ⟨["b", "b"], ["y"]⟩] = .error .value ∧
    whModel .b2r .error (1 : ℤ) 2 3 5 none (some exOT) 2 none [⟨["a"], ["x"]⟩, ⟨["b", "b"], ["y"]⟩] = .error .value ∧
    whModel .r2r .error (1 : ℤ) 2 3 5 (some exCT) (some exOT) 3 none [⟨["a"], ["x"]⟩, ⟨["b", "b"], ["y"]⟩]
      = .error .value :=
  ⟨wh_dup_raises_r2b .error 1 2 3 5 exCT 1 _ (by decide) (by decide +kernel),
   wh_dup_raises_b2r .error 1 2 3 5 exOT 2 _ (by decide) (by decide +kernel),
   wh_dup_raises_r2r .error 1 2 3 5 exCT exOT 3 _ (by decide) (by decide) (by decide +kernel)⟩

/-- the three `wh_missing_vector_raises_*` ITSELF applied: the cue `c` / the outcome
    `z` has no row in its table (policy `True`, continuing from some weights) -/
example :
    whModel .r2b .dedup (1 : ℤ) 2 3 5 (some exCT) none 1 (some ⟨["x"], ["d0", "d1"], #[1, 2]⟩)
      [⟨["a"], ["x"]⟩, ⟨["c"], ["y"]⟩] = .error .value ∧
    whModel .b2r .dedup (1 : ℤ) 2 3 5 none (some exOT) 1 none [⟨["a"], ["x"]⟩, ⟨["b"], ["z"]⟩] = .error .value ∧
    whModel .r2r .dedup (1 : ℤ) 2 3 5 (some exCT) (some exOT) 1 none [⟨["a"], ["x"]⟩, ⟨["b"], ["z"]⟩]
      = .error .value :=
  ⟨wh_missing_vector_raises_r2b .dedup 1 2 3 5 exCT 1 _ _ ⟨⟨["c"], ["y"]⟩, by simp, "c", by simp, by decide⟩,
   wh_missing_vector_raises_b2r .dedup 1 2 3 5 exOT 1 _ _ ⟨⟨["b"], ["z"]⟩, by simp, "z", by simp, by decide⟩,
   wh_missing_vector_raises_r2r .dedup 1 2 3 5 exCT exOT 1 _ _
     (Or.inr ⟨⟨["b"], ["z"]⟩, by simp, "z", by simp, by decide⟩)⟩

/-- `conversion_fault_raises` (abstract oracle), `conversion_overflow_raises` and
    `conversion_no_fault` ITSELF applied, for EVERY completion oracle `delay`:
    job 1 is the first closing job and fails; `events_per_file = 2³²`; an accepted
    file -/
example (delay : Nat → Nat) :
    (simulateF 4 2 8 delay (fun j => j == 1) 1 (tDone delay 8 1)).2.1 = true ∧
    (simulateF 3 4294967296 8 delay
      (failingJob Generated.pyMagic Generated.pyVersion .keep [⟨[0], [0]⟩, ⟨[1], [1]⟩, ⟨[2], [0]⟩] 4294967296)
      0 (tDone delay 8 0)).2.1 = true ∧
    (simulateF 3 2 8 delay
      (failingJob Generated.pyMagic Generated.pyVersion .dedup [⟨[0, 0], [0]⟩, ⟨[1], [1]⟩, ⟨[2, 2], [0]⟩] 2)
      1 (tDone delay 8 1)).2.1 = false :=
  ⟨(conversion_fault_raises 4 2 8 delay (fun j => j == 1) 1
      (fun j hj => by
        have : j = 0 := by omega
        subst this
        decide) rfl).2,
   (conversion_overflow_raises .keep [⟨[0], [0]⟩, ⟨[1], [1]⟩, ⟨[2], [0]⟩] 4294967296 8 delay (by decide)).2,
   (conversion_no_fault .dedup [⟨[0, 0], [0]⟩, ⟨[1], [1]⟩, ⟨[2, 2], [0]⟩] _ 2 8 delay (by decide)
      (by decide +kernel : applyPolicyAll .dedup [⟨[0, 0], [0]⟩, ⟨[1], [1]⟩, ⟨[2, 2], [0]⟩]
        = some [⟨[0], [0]⟩, ⟨[1], [1]⟩, ⟨[2], [0]⟩]) 1 _).2⟩

/-- `failing_job_iff` / `write_events_dup_error_iff` applied to the file of the
    example above: job 1 fails BECAUSE its window holds the event with the
    repeated cue, and that is `write_events` raising the duplicate error -/
example :
    (∃ e ∈ chunkOf 2 [⟨[0, 1], [0]⟩, ⟨[1], [1]⟩, ⟨[2, 2], [0]⟩] 1, applyPolicy .error e = none) ∧
    ∃ i, (writeEvents Generated.pyMagic Generated.pyVersion .error [⟨[0, 1], [0]⟩, ⟨[1], [1]⟩, ⟨[2, 2], [0]⟩]
      (1 * 2) ((1 + 1) * 2)).2 = .dupError i :=
  ⟨(failing_job_iff .error _ 2 1 (by decide)).mp (by decide +kernel),
   (write_events_dup_error_iff .error _ 2 1 (by decide)).mpr (by decide +kernel)⟩

end Pyndl.C05
