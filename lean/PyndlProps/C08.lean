/-
  C08 — Widrow–Hoff learners follow the delta rule in all vector flavours.

  What is proved
  * the three kernels are the delta rule on their own row (`whR2R_eq_spec`,
    `whB2R_eq_spec`, `whR2B_eq_spec`), for every OpenMP schedule / chunk size
    (`wh_schedule_independent`, `wh_driver_eq_spec`);
  * `wh.wh` from `weights=None`, end to end on names, for its three vector
    flavours (`wh_r2b_end_to_end`, `wh_r2r_end_to_end`, `wh_b2r_end_to_end`);
  * CONTINUED learning and CHAINS (PyndlProofs/WHChain.lean; this is also the
    Widrow–Hoff half of C03 "continuing from earlier weights equals learning
    everything in one pass … also when later parts introduce new cues or
    outcomes"):
      - the specifications started from a given weight function
        (`whR2BSpecFrom`, `whB2RSpecFrom`, `whR2RSpecFrom`; the old ones are the
        case of zero weights) and their append law `wh_*_spec_append`;
      - one call with `weights = w`, what each flavour does with the REAL-side
        labels of `w` (reproduced on the real code, see PyndlModel/WHModel.lean;
        the review found the former claim "wrong real-side labels ⇒ ValueError,
        exactly the check of wh.py" FALSE for two flavours):
          · binary → real compares the label lists: `wh_b2r_continue`,
            `wh_continue_label_check_b2r` (succeeds iff identical, else `ValueError`);
          · real → binary does NOT compare them (`all(a == b)` on xarray
            coordinates is label-aligned and never False) and uses the values
            by POSITION: `wh_r2b_continue` (hypotheses: same number of columns,
            the comparison does not raise), `wh_continue_label_check_r2b`
            (succeeds iff these two hold; the labels of `w` are ignored);
          · real → real selects by label: a permutation is re-aligned
            (`wh_r2r_continue`), a different shape ⇒ `ValueError`, a missing
            label ⇒ `KeyError`, a repeated label ⇒ `InvalidIndexError`:
            `wh_continue_label_check_r2r` (succeeds iff permutation of
            duplicate-free labels);
        the result is always labelled with the TABLE's dimensions
        (`wh_result_carries_table_labels`) and denotes the specification
        continued from the weight function `w` denotes; read through the labels:
        `wh_*_continue_get`; `weights=None` behaves like the empty (zero)
        matrix: `wh_none_is_empty_matrix`;
      - chains (`whChainRun`: same flavour, tables and learning parameters,
        per part its own duplicate policy and `n_outcomes_per_job`, every call
        continuing from the previous result): `wh_chain_two`,
        `wh_chain_any_length` (induction over the list of parts; the label /
        shape conditions on the intermediate matrices are an invariant, not a
        hypothesis: `wh_chain_weights_carry_table_labels` — every `weights=`
        argument inside a chain has the table's labels, so the label-tolerant
        branches above are never reached in a chain), `wh_chain_eq_single_call`
        (= ONE call over the whole file at every pair of labels, when all parts
        use the same policy).

  Hypotheses about labels (to be listed in DESIGN §7):
  * `names.Nodup` of every vector table (in `WhTablesOK`, `hnd…`): wh.py's id
    map `OrderedDict((name, i) …)` takes the LAST row of a repeated row label,
    the model's `idxOf` the FIRST; with distinct row labels both are the same
    map.  The proofs do not use the hypothesis (the theorems are true of the
    model without it); it marks where the model is known to be the code.
  * `Nodup` of the binary-side labels of given weights (`hwn`), same reason;
    every matrix `wh.wh` returns has it.
  * real → real chains: `dims.Nodup` of both tables (in `WhTablesOK`); this one
    IS used: with a repeated dimension label every continued call raises.

  Observation (not a violation of C03 / C08 as stated): real → binary silently
  accepts weights whose cue-dimension labels are wrong or permuted and uses
  them by position (`wh_continue_label_check_r2b`, example below); the
  `ValueError("Cue vector dimensions names do not match …")` of wh.py 628 is
  unreachable (the comparison before it is never False).

  partial:
  * the ORDER in which wh.py appends new binary-side labels is
    `list(set(new) - set(old))`, i.e. Python's set order; the model (`whModel`)
    appends them in counting order.  `whModelWith nl` (PyndlModel/WHModel.lean)
    takes the appended block as a parameter, and
    `wh_appended_label_order_irrelevant` / `wh_chain_two_labels` show for EVERY
    permutation of the new names: old labels keep their position, the appended
    block is that permutation, and the weights read through the labels are the
    same.  Still about the model's order only: the positional conclusions
    `r.cues = w.cues ++ …filter…` of `wh_b2r_continue` / `wh_r2b_continue` (use
    the `_get` forms for the code), and chains of MORE than two calls
    (`whChainRun` appends in counting order at every call; the label-level
    conclusion of `wh_chain_any_length` is order-free, the per-call order
    irrelevance is proved for one continued call, not re-threaded through
    `whChainRun`).
  * given weights whose binary-side labels contain a duplicate: wh.py's
    `OrderedDict` id map takes the LAST position of a repeated label, the model
    (`idxOf`) the FIRST.  The continuation theorems carry `hwn` (no duplicate);
    every matrix `wh.wh` itself returns has duplicate-free binary-side labels,
    so chains are not affected.
  * nothing is assumed about the size of the value array of given weights (all
    three flavours allocate a new array: `np.concatenate` / `.loc[…].copy()`).
  * not modelled here: the attrs of the returned DataArray, and that the
    DataArray handed in is not modified (C03 decides the latter by the
    differential run).

  "This holds for the OpenMP, numpy and pure-Python implementations alike"
  (section "numpy and pure Python" at the end; models PyndlModel/WHPy.lean,
  proofs PyndlProofs/WHPy.lean): `whNumpyModel` = `wh.wh(method='numpy')` and
  `dictWhModel` = `dict_wh` accept exactly one cue and one outcome per event after
  the duplicate policy (`IsSingle`; `AssertionError` otherwise:
  `single_event_checks`).  On such event lists, with names in the tables:
  * `wh_numpy_eq_spec`, `dict_wh_eq_spec` — from `weights=None` both are
    `whR2RSpec` read through their labels, for every event sequence, eta, table
    row order; `wh_numpy_eq_openmp`, `dict_wh_eq_openmp`,
    `wh_implementations_alike` — hence the numpy result IS the OpenMP result
    (same labelled matrix, any `n_outcomes_per_job ≥ 1`) and the dict reads as it
    at every pair of keys (also after `make_data_array=True`);
  * `wh_numpy_continue`, `wh_numpy_eq_openmp_continue`, `dict_wh_continue` —
    continuation from given weights (DataArray re-aligned by label / WeightDict)
    is the specification continued (`whR2RSpecFrom`); `wh_numpy_two_calls` —
    two calls = one pass (append law); (`dict_wh_two_calls` and
    `single_event_checks` are definitional: a fold's append law / the model's
    `match` restated);
  * `wh_numpy_table_check`, `wh_numpy_event_error`, `dict_wh_raises` — the error
    branches (numpy: `ValueError` from the table check first; dict_wh: `KeyError`
    at the event; `ValueError` / `AssertionError` of the first offending event).
  Additional hypotheses (DESIGN §7): `IsSingle` of every policy-processed event;
  `ct.dims.Nodup`, `ot.dims.Nodup` for `dict_wh` (dict keys) and for continued
  numpy calls (as for OpenMP).  The order in which `make_data_array=True` lists
  the cue dimensions is a Python `set` order (model: first occurrence); the
  statements read through labels.
-/
import PyndlProofs.WH
import PyndlProofs.WHSpec
import PyndlProofs.WHChain
import PyndlProofs.WHPy

set_option linter.unusedVariables false  -- the `Nodup` label hypotheses delimit model = code, the proofs do not use them

namespace Pyndl.C08
open Pyndl List

variable {R : Type} [CommRing R]

/-- (definitional: unfolds `whRowReal`) the delta rule on one weight row:
    `W[d,:] += η (t_d − W[d,:]·x) x` -/
theorem delta_rule_row (n : Nat) (x : Nat → R) (eta t : R) (w : Nat → R) (k : Nat) (hk : k < n) :
    whRowReal n x (fun a => eta * (t - a)) w k
      = w k + eta * (t - ((List.range n).map (fun j => x j * w j)).sum) * x k := by
  simp [whRowReal, hk]

/-- **real→real kernel = delta rule** with `x = Σ cue vectors`, `t = Σ outcome
    vectors` (repeated cues/outcomes summed repeatedly), on its own row, and it
    touches no other row -/
theorem whR2R_eq_spec (eta : R) (cueVecs outVecs : Array R) (nCueDims nOutDims : Nat) :
    RowStep nCueDims nOutDims (fun _ => True)
      (fun w d e => whR2RRowEvent eta cueVecs outVecs nCueDims nOutDims w d e.cues e.outcomes)
      (fun d r e => whRowReal nCueDims (fun k => summedCue cueVecs nCueDims k e.cues)
        (fun a => eta * (summedOut outVecs nOutDims d e.outcomes - a)) r) :=
  whR2R_rowstep eta cueVecs outVecs nCueDims nOutDims

/-- **binary→real kernel = delta rule** with `x` = cue indicator with multiplicity -/
theorem whB2R_eq_spec (eta : R) (outVecs : Array R) (nOutDims nCues : Nat) :
    RowStep nCues nOutDims (fun e => ∀ c ∈ e.cues, c < nCues)
      (fun w d e => whB2RRowEvent eta outVecs nOutDims nCues w d e.cues e.outcomes)
      (fun d r e => whRowBin (fun a => eta * (summedOut outVecs nOutDims d e.outcomes - a)) r e.cues) :=
  whB2R_rowstep eta outVecs nOutDims nCues

/-- **real→binary kernel = delta rule** with `t = λ·[o ∈ outcomes]` and β₁/β₂ -/
theorem whR2B_eq_spec (β₁ β₂ lam : R) (cueVecs : Array R) (nCueDims nOut : Nat) :
    RowStep nCueDims nOut (fun _ => True)
      (fun w ii e => whR2BRowEvent β₁ β₂ lam cueVecs nCueDims w ii e.cues e.outcomes)
      (fun ii r e => whRowReal nCueDims (fun k => summedCue cueVecs nCueDims k e.cues)
        (fun a => if ii ∈ e.outcomes then β₁ * (lam - a) else β₂ * (0 - a)) r) :=
  whR2B_rowstep β₁ β₂ lam cueVecs nCueDims nOut

/-- the binary-cue input vector IS the indicator with multiplicity: the two row
    functions coincide -/
theorem binary_is_indicator (n : Nat) (cs : List Nat) (hcs : ∀ c ∈ cs, c < n) (uOf : R → R) (w : Nat → R)
    (k : Nat) (hk : k < n) :
    whRowReal n (fun k => (cs.count k : R)) uOf w k = whRowBin uOf w cs k :=
  whRowReal_count n cs hcs uOf w k hk

/-- **independent of thread count and chunk size**: any valid OpenMP schedule
    of any row kernel (so of each of the three flavours) yields, on every row,
    the event-by-event recursion over all events -/
theorem wh_schedule_independent {n nOut : Nat} {ok : Event Nat Nat → Prop}
    {step : Array R → Nat → Event Nat Nat → Array R}
    {f : Nat → (Nat → R) → Event Nat Nat → (Nat → R)} (h : RowStep n nOut ok step f)
    {parts : List (List Nat)} (hp : PartsOk parts) (files : List (List (Event Nat Nat)))
    (hrows : ∀ k, k < parts.length → ∀ o ∈ parts.getD k [], o < nOut)
    (hev : ∀ e ∈ files.flatten, ok e)
    (w : Array R) (hw : w.size = n * nOut) (s : List MicroStep) (hv : ValidOpenmp parts files s)
    (k : Nat) (hk : k < parts.length) (o : Nat) (ho : o ∈ parts.getD k []) :
    rowFn n (execWith step w s) o = files.flatten.foldl (f o) (rowFn n w o) :=
  rowkernel_openmp_independent h hp files hrows hev w hw s hv k hk o ho

/-- what the driver computes for an OpenMP entry point (its loop nest, any
    chunk size ≥ 1) is that recursion -/
theorem wh_driver_eq_spec {n nOut : Nat} {ok : Event Nat Nat → Prop}
    {step : Array R → Nat → Event Nat Nat → Array R}
    {f : Nat → (Nat → R) → Event Nat Nat → (Nat → R)} (h : RowStep n nOut ok step f)
    (files : List (List (Event Nat Nat))) (chunk : Nat) (hc : 1 ≤ chunk)
    (hev : ∀ e ∈ files.flatten, ok e) (w : Array R) (hw : w.size = n * nOut) (o : Nat) (ho : o < nOut) :
    rowFn n (learnOmpWith step files (List.range nOut) chunk w) o
      = files.flatten.foldl (f o) (rowFn n w o) :=
  learnOmpWith_row h files chunk hc hev w hw o ho

/-- **`wh.wh`, real cues → binary outcomes, end to end on names**: the whole model
    (`_wh_real_to_binary`: table check, cue ids = rows of the cue table, outcome
    ids = counting order, duplicate policy on ids, OpenMP entry point with any
    `n_outcomes_per_job ≥ 1`, labels) returns at every (outcome name, cue
    dimension label) the delta rule run over the policy-processed events with
    `x = Σ cue vectors (by name)`, target `λ·[o ∈ outcomes]`, rates β₁/β₂.
    `hnd`: the row labels of the table are distinct (file header; not used by
    the proof — the model looks a name up at its FIRST row, the code at its LAST) -/
theorem wh_r2b_end_to_end (p : DupPolicy) (eta β₁ β₂ lam : R) (ct : VecTable R) (hnd : ct.names.Nodup)
    (chunk : Nat) (hc : 1 ≤ chunk) (es es' : List (Event String String))
    (htab : ∀ e ∈ es, ∀ c ∈ e.cues, c ∈ ct.names) (hp : applyPolicyAll p es = some es') :
    ∃ w, whModel .r2b p eta β₁ β₂ lam (some ct) none chunk none es = .ok w ∧
      ∀ o d, w.get o d = if d ∈ ct.dims then whR2BSpec β₁ β₂ lam ct es' o (ct.dims.idxOf d) else 0 :=
  whModel_r2b_get p eta β₁ β₂ lam ct chunk hc es es' htab hp

/-- **`wh.wh`, real → real, end to end on names** (`_wh_real_to_real`, openmp) -/
theorem wh_r2r_end_to_end (p : DupPolicy) (eta β₁ β₂ lam : R) (ct ot : VecTable R)
    (hndc : ct.names.Nodup) (hndo : ot.names.Nodup) (chunk : Nat) (hc : 1 ≤ chunk) (es es' : List (Event String String))
    (htabc : ∀ e ∈ es, ∀ c ∈ e.cues, c ∈ ct.names) (htabo : ∀ e ∈ es, ∀ o ∈ e.outcomes, o ∈ ot.names)
    (hp : applyPolicyAll p es = some es') :
    ∃ w, whModel .r2r p eta β₁ β₂ lam (some ct) (some ot) chunk none es = .ok w ∧
      w.outcomes = ot.dims ∧ w.cues = ct.dims ∧ w.vals.size = ct.dims.length * ot.dims.length ∧
      ∀ d, d < ot.dims.length → ∀ k, k < ct.dims.length →
        w.vals.getD (d * ct.dims.length + k) 0 = whR2RSpec eta ct ot es' d k :=
  whModel_r2r_eq_spec_names p eta β₁ β₂ lam ct ot chunk hc es es' htabc htabo hp

/-- **`wh.wh`, binary cues → real outcomes, end to end on names** (`_wh_binary_to_real`) -/
theorem wh_b2r_end_to_end (p : DupPolicy) (eta β₁ β₂ lam : R) (ot : VecTable R) (hndo : ot.names.Nodup)
    (chunk : Nat) (hc : 1 ≤ chunk) (es es' : List (Event String String))
    (htabo : ∀ e ∈ es, ∀ o ∈ e.outcomes, o ∈ ot.names) (hp : applyPolicyAll p es = some es') :
    ∃ w, whModel .b2r p eta β₁ β₂ lam none (some ot) chunk none es = .ok w ∧
      w.outcomes = ot.dims ∧ w.cues = (countNames es).1 ∧
      w.vals.size = (countNames es).1.length * ot.dims.length ∧
      ∀ d, d < ot.dims.length → ∀ c ∈ (countNames es).1,
        w.vals.getD (d * (countNames es).1.length + (countNames es).1.idxOf c) 0 = whB2RSpec eta ot es' d c :=
  whModel_b2r_eq_spec_names p eta β₁ β₂ lam ot chunk hc es es' htabo hp

/-- a cue without a vector ⇒ `ValueError` (the table check), whatever else -/
theorem wh_missing_vector_raises (p : DupPolicy) (eta β₁ β₂ lam : R) (ct : VecTable R) (chunk : Nat)
    (W0 : Option (LW R)) (es : List (Event String String))
    (hbad : ∃ e ∈ es, ∃ c ∈ e.cues, c ∉ ct.names) :
    whModel .r2b p eta β₁ β₂ lam (some ct) none chunk W0 es = .error .value :=
  whModel_r2b_tableError p eta β₁ β₂ lam ct chunk W0 es hbad

/-- … the same for the other two flavours (an outcome without a vector; real →
    real: a cue or an outcome without a vector) -/
theorem wh_missing_vector_raises_b2r_r2r (p : DupPolicy) (eta β₁ β₂ lam : R) (ct ot : VecTable R) (chunk : Nat)
    (W0 : Option (LW R)) (es : List (Event String String)) :
    ((∃ e ∈ es, ∃ o ∈ e.outcomes, o ∉ ot.names) →
      whModel .b2r p eta β₁ β₂ lam none (some ot) chunk W0 es = .error .value) ∧
    ((∃ e ∈ es, ∃ c ∈ e.cues, c ∉ ct.names) ∨ (∃ e ∈ es, ∃ o ∈ e.outcomes, o ∉ ot.names) →
      whModel .r2r p eta β₁ β₂ lam (some ct) (some ot) chunk W0 es = .error .value) :=
  ⟨whModel_b2r_tableError p eta β₁ β₂ lam ot chunk W0 es,
    whModel_r2r_tableError p eta β₁ β₂ lam ct ot chunk W0 es⟩

/-- (definitional) single-cue / single-outcome events (the domain of method='numpy' and
    `dict_wh`): the input vector is the cue's vector, the target the outcome's -/
theorem single_cue_outcome (cueVecs outVecs : Array R) (nCueDims nOutDims c o k d : Nat) :
    summedCue cueVecs nCueDims k [c] = cueVecs.getD (nCueDims * c + k) 0 ∧
    summedOut outVecs nOutDims d [o] = outVecs.getD (nOutDims * o + d) 0 := by
  simp [summedCue, summedOut]

/-- **row order of the vector table is irrelevant**: if table' holds at row
    `σ c` what table holds at row `c`, the summed vectors of the renamed cues
    are the same -/
theorem wh_table_order (tab tab' : Array R) (nDims : Nat) (σ : Nat → Nat) (cues : List Nat) (k : Nat)
    (h : ∀ c ∈ cues, tab'.getD (nDims * σ c + k) 0 = tab.getD (nDims * c + k) 0) :
    summedCue tab' nDims k (cues.map σ) = summedCue tab nDims k cues := by
  unfold summedCue
  rw [List.foldl_map]
  have key : ∀ (cs : List Nat), (∀ c ∈ cs, tab'.getD (nDims * σ c + k) 0 = tab.getD (nDims * c + k) 0) →
      ∀ (a : R), cs.foldl (fun acc c => acc + tab'.getD (nDims * σ c + k) 0) a
        = cs.foldl (fun acc c => acc + tab.getD (nDims * c + k) 0) a := by
    intro cs
    induction cs with
    | nil => intros; rfl
    | cons d ds ih =>
      intro hh a
      simp only [List.foldl_cons, hh d (by simp)]
      exact ih (fun x hx => hh x (by simp [hx])) _
  exact key cues h 0

/-! non-vacuity (ℤ): a real→real step with a repeated cue on a 2×2 weight matrix -/
example :
    let cueVecs : Array ℤ := #[1, 2, 0, 1]      -- cue 0 = (1,2), cue 1 = (0,1)
    let outVecs : Array ℤ := #[3, 0, 1, 1]      -- outcome 0 = (3,0), outcome 1 = (1,1)
    let w : Array ℤ := #[0, 0, 0, 0]
    whR2RRowEvent 1 cueVecs outVecs 2 2 w 0 [0, 0, 1] [0, 1] = #[8, 20, 0, 0] := by
  decide +kernel

/-! ## continued learning (`weights=`) and chains of `wh.wh` calls -/

/-- **append law of the specification, real → binary**: learning `xs ++ ys` from
    the weight function `W` is learning `ys` from what learning `xs` from `W`
    gives (the Widrow–Hoff analogue of `rwLearn_append`); `whR2BSpec` is
    `whR2BSpecFrom` from zero weights -/
theorem wh_r2b_spec_append (β₁ β₂ lam : R) (ct : VecTable R) (W : String → Nat → R)
    (xs ys : List (Event String String)) :
    whR2BSpecFrom β₁ β₂ lam ct W (xs ++ ys)
      = whR2BSpecFrom β₁ β₂ lam ct (whR2BSpecFrom β₁ β₂ lam ct W xs) ys
    ∧ whR2BSpec β₁ β₂ lam ct xs = whR2BSpecFrom β₁ β₂ lam ct (fun _ _ => 0) xs :=
  ⟨whR2BSpecFrom_append β₁ β₂ lam ct W xs ys, rfl⟩

/-- **append law of the specification, binary → real** -/
theorem wh_b2r_spec_append (eta : R) (ot : VecTable R) (W : Nat → String → R)
    (xs ys : List (Event String String)) :
    whB2RSpecFrom eta ot W (xs ++ ys) = whB2RSpecFrom eta ot (whB2RSpecFrom eta ot W xs) ys
    ∧ whB2RSpec eta ot xs = whB2RSpecFrom eta ot (fun _ _ => 0) xs :=
  ⟨whB2RSpecFrom_append eta ot W xs ys, rfl⟩

/-- **append law of the specification, real → real** -/
theorem wh_r2r_spec_append (eta : R) (ct ot : VecTable R) (W : Nat → Nat → R)
    (xs ys : List (Event String String)) :
    whR2RSpecFrom eta ct ot W (xs ++ ys) = whR2RSpecFrom eta ct ot (whR2RSpecFrom eta ct ot W xs) ys
    ∧ whR2RSpec eta ct ot xs = whR2RSpecFrom eta ct ot (fun _ _ => 0) xs :=
  ⟨whR2RSpecFrom_append eta ct ot W xs ys, rfl⟩

/-- any number of pieces: learning piece after piece is learning the concatenation -/
theorem wh_spec_pieces (eta β₁ β₂ lam : R) (ct ot : VecTable R) (pieces : List (List (Event String String))) :
    (∀ W, pieces.foldl (whR2BSpecFrom β₁ β₂ lam ct) W = whR2BSpecFrom β₁ β₂ lam ct W pieces.flatten) ∧
    (∀ W, pieces.foldl (whB2RSpecFrom eta ot) W = whB2RSpecFrom eta ot W pieces.flatten) ∧
    (∀ W, pieces.foldl (whR2RSpecFrom eta ct ot) W = whR2RSpecFrom eta ct ot W pieces.flatten) :=
  ⟨fun W => whR2BSpecFrom_flatten β₁ β₂ lam ct W pieces, fun W => whB2RSpecFrom_flatten eta ot W pieces,
    fun W => whR2RSpecFrom_flatten eta ct ot W pieces⟩

/-- **continued `wh.wh`, real cue vectors → binary outcomes** (`weights = w`), as
    general as the code: the column labels of `w` are NOT compared with the
    table's (wh.py 627 is a label-aligned xarray comparison that is never False).
    Hypotheses: `hnd` distinct row labels of the table, `hwn` distinct outcome
    labels of `w` (file header; not used by the proof); `hc` `n_outcomes_per_job
    ≥ 1`; `htab` every cue of the events has a row in `cue_vectors` (else
    `ValueError`); `hp` the duplicate policy accepts the events; `hlen` `w` has as
    many columns as the cue vectors have dimensions (else `np.concatenate`
    raises `ValueError`); `hal` the comparison does not RAISE: the label lists
    are identical or both duplicate-free (else `ValueError`).  Nothing is
    assumed about the size of the value array.  Conclusion: the call succeeds;
    old outcomes keep their rows, the new outcomes of the events are appended
    (in counting order); the columns are labelled with the TABLE's dimensions;
    and the weight function the result denotes (`LW.byOutcome`: outcome NAME,
    dimension POSITION) is `whR2BSpecFrom` continued from the weight function
    `w` denotes BY POSITION, on the policy-processed events, for every chunk
    size.  (`wh_continue_label_check_r2b`: exactly these `w` are accepted.) -/
theorem wh_r2b_continue (p : DupPolicy) (eta β₁ β₂ lam : R) (ct : VecTable R) (hnd : ct.names.Nodup)
    (chunk : Nat) (hc : 1 ≤ chunk) (w : LW R) (hwn : w.outcomes.Nodup) (es es' : List (Event String String))
    (htab : ∀ e ∈ es, ∀ c ∈ e.cues, c ∈ ct.names)
    (hp : applyPolicyAll p es = some es') (hlen : w.cues.length = ct.dims.length)
    (hal : ¬ alignRaises ct.dims w.cues) :
    ∃ r, whModel .r2b p eta β₁ β₂ lam (some ct) none chunk (some w) es = .ok r ∧
      r.outcomes = w.outcomes ++ (countNames es).2.filter (fun o => !w.outcomes.contains o) ∧
      r.cues = ct.dims ∧ r.vals.size = ct.dims.length * r.outcomes.length ∧
      r.byOutcome = whR2BSpecFrom β₁ β₂ lam ct w.byOutcome es' :=
  whModel_r2b_continue_pos p eta β₁ β₂ lam ct chunk hc w es es' htab hp hlen hal

/-- … read through the labels of the result, at EVERY (outcome name, label) -/
theorem wh_r2b_continue_get (p : DupPolicy) (eta β₁ β₂ lam : R) (ct : VecTable R) (hnd : ct.names.Nodup)
    (chunk : Nat) (hc : 1 ≤ chunk) (w : LW R) (hwn : w.outcomes.Nodup) (es es' : List (Event String String))
    (htab : ∀ e ∈ es, ∀ c ∈ e.cues, c ∈ ct.names)
    (hp : applyPolicyAll p es = some es') (hlen : w.cues.length = ct.dims.length)
    (hal : ¬ alignRaises ct.dims w.cues) :
    ∃ r, whModel .r2b p eta β₁ β₂ lam (some ct) none chunk (some w) es = .ok r ∧
      ∀ o d, r.get o d = if d ∈ ct.dims
        then whR2BSpecFrom β₁ β₂ lam ct w.byOutcome es' o (ct.dims.idxOf d) else 0 := by
  obtain ⟨r, h1, _, h3, _, h5⟩ := whModel_r2b_continue_pos p eta β₁ β₂ lam ct chunk hc w es es' htab hp hlen hal
  refine ⟨r, h1, ?_⟩
  intro o d
  rw [LW.get_eq_byOutcome, h3, h5]

/-- **continued `wh.wh`, binary cues → real outcome vectors** (`weights = w`).
    Hypotheses: `hndo`, `hwn` distinct row labels of the table / cue labels of
    `w` (file header); `hc`, `hp` as above; `htabo` every outcome of the events
    has a row in `outcome_vectors`; `hlab` the row labels of `w` are the outcome
    vector dimensions of the table, in order (this flavour DOES compare the
    label lists: `wh_continue_label_check_b2r`).  Conclusion: old cues keep
    their columns, the new cues of the events are appended; for every outcome
    vector dimension `d` the row the result denotes (`LW.byCue`: dimension
    position, cue NAME) is `whB2RSpecFrom` continued from the weight function
    `w` denotes — at every cue name, for every chunk size. -/
theorem wh_b2r_continue (p : DupPolicy) (eta β₁ β₂ lam : R) (ot : VecTable R) (hndo : ot.names.Nodup)
    (chunk : Nat) (hc : 1 ≤ chunk) (w : LW R) (hwn : w.cues.Nodup) (es es' : List (Event String String))
    (htabo : ∀ e ∈ es, ∀ o ∈ e.outcomes, o ∈ ot.names)
    (hp : applyPolicyAll p es = some es') (hlab : w.outcomes = ot.dims) :
    ∃ r, whModel .b2r p eta β₁ β₂ lam none (some ot) chunk (some w) es = .ok r ∧
      r.outcomes = ot.dims ∧
      r.cues = w.cues ++ (countNames es).1.filter (fun c => !w.cues.contains c) ∧
      r.vals.size = r.cues.length * ot.dims.length ∧
      ∀ d, d < ot.dims.length → r.byCue d = whB2RSpecFrom eta ot w.byCue es' d :=
  whModel_b2r_continue p eta β₁ β₂ lam ot chunk hc w es es' htabo hp hlab

theorem wh_b2r_continue_get (p : DupPolicy) (eta β₁ β₂ lam : R) (ot : VecTable R) (hndo : ot.names.Nodup)
    (chunk : Nat) (hc : 1 ≤ chunk) (w : LW R) (hwn : w.cues.Nodup) (es es' : List (Event String String))
    (htabo : ∀ e ∈ es, ∀ o ∈ e.outcomes, o ∈ ot.names)
    (hp : applyPolicyAll p es = some es') (hlab : w.outcomes = ot.dims) :
    ∃ r, whModel .b2r p eta β₁ β₂ lam none (some ot) chunk (some w) es = .ok r ∧
      ∀ dl c, r.get dl c = if dl ∈ ot.dims
        then whB2RSpecFrom eta ot w.byCue es' (ot.dims.idxOf dl) c else 0 :=
  whModel_b2r_continue_get p eta β₁ β₂ lam ot chunk hc w es es' htabo hp hlab

/-- **continued `wh.wh`, real → real** (`weights = w`), as general as the code:
    the given weights are SELECTED BY LABEL (`weights.loc[…]`, wh.py 834), any
    permutation of the tables' dimension labels is accepted and re-aligned.
    Hypotheses: `hndc`, `hndo` distinct row labels of the tables (file header);
    `hc`, `hp`, both table checks; `hpo`, `hpc` the labels of `w` are the vector
    dimensions of the two tables in ANY order; `hno`, `hnc` the dimension labels
    are distinct.  (`wh_continue_label_check_r2r`: exactly these `w` are
    accepted.)  Nothing is assumed about the size of the value array.
    Conclusion: the result is labelled with the tables' dimensions in the
    tables' order, and for every outcome vector dimension `d` the row it denotes
    (`LW.byPos`) is `whR2RSpecFrom` continued from the given weights READ AT THE
    LABELS (`LW.atLabels`: cell `(d, k)` = `w.get ot.dims[d] ct.dims[k]`). -/
theorem wh_r2r_continue (p : DupPolicy) (eta β₁ β₂ lam : R) (ct ot : VecTable R)
    (hndc : ct.names.Nodup) (hndo : ot.names.Nodup)
    (chunk : Nat) (hc : 1 ≤ chunk) (w : LW R) (es es' : List (Event String String))
    (htabc : ∀ e ∈ es, ∀ c ∈ e.cues, c ∈ ct.names)
    (htabo : ∀ e ∈ es, ∀ o ∈ e.outcomes, o ∈ ot.names)
    (hp : applyPolicyAll p es = some es')
    (hpo : w.outcomes.Perm ot.dims) (hpc : w.cues.Perm ct.dims)
    (hno : ot.dims.Nodup) (hnc : ct.dims.Nodup) :
    ∃ r, whModel .r2r p eta β₁ β₂ lam (some ct) (some ot) chunk (some w) es = .ok r ∧
      r.outcomes = ot.dims ∧ r.cues = ct.dims ∧
      r.vals.size = r.outcomes.length * r.cues.length ∧
      ∀ d, d < ot.dims.length →
        r.byPos d = whR2RSpecFrom eta ct ot (w.atLabels ot.dims ct.dims) es' d :=
  whModel_r2r_continue_perm p eta β₁ β₂ lam ct ot chunk hc w es es' htabc htabo hp hpo hpc hno hnc

theorem wh_r2r_continue_get (p : DupPolicy) (eta β₁ β₂ lam : R) (ct ot : VecTable R)
    (hndc : ct.names.Nodup) (hndo : ot.names.Nodup)
    (chunk : Nat) (hc : 1 ≤ chunk) (w : LW R) (es es' : List (Event String String))
    (htabc : ∀ e ∈ es, ∀ c ∈ e.cues, c ∈ ct.names)
    (htabo : ∀ e ∈ es, ∀ o ∈ e.outcomes, o ∈ ot.names)
    (hp : applyPolicyAll p es = some es')
    (hpo : w.outcomes.Perm ot.dims) (hpc : w.cues.Perm ct.dims)
    (hno : ot.dims.Nodup) (hnc : ct.dims.Nodup) :
    ∃ r, whModel .r2r p eta β₁ β₂ lam (some ct) (some ot) chunk (some w) es = .ok r ∧
      ∀ dlo dlc, r.get dlo dlc = if dlo ∈ ot.dims ∧ dlc ∈ ct.dims
        then whR2RSpecFrom eta ct ot (w.atLabels ot.dims ct.dims) es'
          (ot.dims.idxOf dlo) (ct.dims.idxOf dlc) else 0 :=
  whModel_r2r_continue_perm_get p eta β₁ β₂ lam ct ot chunk hc w es es' htabc htabo hp hpo hpc hno hnc

/-- … the case of identical label lists (chains): position = label, the given
    weights enter as what they denote by position (`LW.byPos`) -/
theorem wh_r2r_continue_same_labels (p : DupPolicy) (eta β₁ β₂ lam : R) (ct ot : VecTable R)
    (hndc : ct.names.Nodup) (hndo : ot.names.Nodup)
    (chunk : Nat) (hc : 1 ≤ chunk) (w : LW R) (es es' : List (Event String String))
    (htabc : ∀ e ∈ es, ∀ c ∈ e.cues, c ∈ ct.names)
    (htabo : ∀ e ∈ es, ∀ o ∈ e.outcomes, o ∈ ot.names)
    (hp : applyPolicyAll p es = some es') (hlo : w.outcomes = ot.dims) (hlc : w.cues = ct.dims)
    (hno : ot.dims.Nodup) (hnc : ct.dims.Nodup) :
    ∃ r, whModel .r2r p eta β₁ β₂ lam (some ct) (some ot) chunk (some w) es = .ok r ∧
      r.outcomes = ot.dims ∧ r.cues = ct.dims ∧
      r.vals.size = r.outcomes.length * r.cues.length ∧
      ∀ d, d < ot.dims.length → r.byPos d = whR2RSpecFrom eta ct ot w.byPos es' d :=
  whModel_r2r_continue p eta β₁ β₂ lam ct ot chunk hc w es es' htabc htabo hp hlo hlc hno hnc

/-- what "the weight function `w` denotes" means in terms of labels: with
    duplicate-free real-side labels, position `k` / `d` holds the weight read at
    the `k`-th / `d`-th label (`LW.get`) -/
theorem wh_denotation_is_get (w : LW R) :
    (w.cues.Nodup → ∀ o k (hk : k < w.cues.length), w.byOutcome o k = w.get o w.cues[k]) ∧
    (w.outcomes.Nodup → ∀ d (hd : d < w.outcomes.length) c, w.byCue d c = w.get w.outcomes[d] c) ∧
    (w.outcomes.Nodup → w.cues.Nodup → ∀ d k (hd : d < w.outcomes.length) (hk : k < w.cues.length),
      w.byPos d k = w.get w.outcomes[d] w.cues[k]) :=
  ⟨fun hn o k hk => LW.byOutcome_eq_get w hn o k hk, fun hn d hd c => LW.byCue_eq_get w hn d hd c,
    fun hno hnc d k hd hk => LW.byPos_eq_get w hno hnc d k hd hk⟩

/-! ### the label check of the given weights, per flavour

  These three theorems REPLACE `wh_continue_wrong_labels_raise`, which stated
  "`w.cues ≠ ct.dims` / `w.outcomes ≠ ot.dims` ⇒ `ValueError`" for all three
  flavours and was FALSE about the code for real → binary (such weights are
  accepted and used by position) and real → real (permuted labels are
  re-aligned, missing ones raise `KeyError`).  The model was repaired to say
  what the code does (PyndlModel/WHModel.lean); all claims below were
  reproduced on the real code. -/

/-- **binary → real: the label lists are compared** (`.values.tolist()`, wh.py 429).
    Whatever the events, policy and chunk size: different row labels ⇒
    `ValueError`; and a successful call implies identical labels (with
    `wh_b2r_continue`: given the other hypotheses, accepted IFF identical). -/
theorem wh_continue_label_check_b2r (p : DupPolicy) (eta β₁ β₂ lam : R) (ot : VecTable R)
    (chunk : Nat) (w : LW R) (es : List (Event String String)) :
    (w.outcomes ≠ ot.dims →
      whModel .b2r p eta β₁ β₂ lam none (some ot) chunk (some w) es = .error .value) ∧
    (∀ r, whModel .b2r p eta β₁ β₂ lam none (some ot) chunk (some w) es = .ok r → w.outcomes = ot.dims) :=
  ⟨whModel_b2r_labelError p eta β₁ β₂ lam ot chunk w es,
    fun r h => whModel_b2r_ok_only_if p eta β₁ β₂ lam ot chunk w es r h⟩

/-- **real → binary: the column labels of the given weights are IGNORED.**
    Whatever the events, policy and chunk size:
    (1) a different NUMBER of columns ⇒ `ValueError` (`np.concatenate`);
    (2) the label comparison itself raises ⇒ `ValueError` (`alignRaises`: the
        lists differ and one repeats a label);
    (3) otherwise the call behaves EXACTLY (same result or same error) like
        the call with the same values labelled with the table's dimensions —
        e.g. weights labelled `['z0','z1']` or `['k1','k0']` against a table
        with dimensions `['k0','k1']` are accepted and used by position;
    (4) a successful call implies (1) and (2) do not apply. -/
theorem wh_continue_label_check_r2b (p : DupPolicy) (eta β₁ β₂ lam : R) (ct : VecTable R)
    (chunk : Nat) (w : LW R) (es : List (Event String String)) :
    (w.cues.length ≠ ct.dims.length →
      whModel .r2b p eta β₁ β₂ lam (some ct) none chunk (some w) es = .error .value) ∧
    (alignRaises ct.dims w.cues →
      whModel .r2b p eta β₁ β₂ lam (some ct) none chunk (some w) es = .error .value) ∧
    (w.cues.length = ct.dims.length → ¬ alignRaises ct.dims w.cues →
      whModel .r2b p eta β₁ β₂ lam (some ct) none chunk (some w) es
        = whModel .r2b p eta β₁ β₂ lam (some ct) none chunk (some ⟨w.outcomes, ct.dims, w.vals⟩) es) ∧
    (∀ r, whModel .r2b p eta β₁ β₂ lam (some ct) none chunk (some w) es = .ok r →
      w.cues.length = ct.dims.length ∧ ¬ alignRaises ct.dims w.cues) :=
  ⟨whModel_r2b_widthError p eta β₁ β₂ lam ct chunk w es, whModel_r2b_alignError p eta β₁ β₂ lam ct chunk w es,
    whModel_r2b_labels_ignored p eta β₁ β₂ lam ct chunk w es,
    fun r h => whModel_r2b_ok_only_if p eta β₁ β₂ lam ct chunk w es r h⟩

/-- **real → real: the given weights are selected by label.**
    (1) a different shape ⇒ `ValueError` (whatever else);
    (2) a label comparison raises (`alignRaises` on one axis) ⇒ `ValueError`
        (whatever else);
    (3) table checks passed, shape fits, all four label lists duplicate-free,
        but the weights lack a dimension label of a table ⇒ `KeyError`;
    (4) table checks passed, label lists identical, but one repeats a label ⇒
        pandas `InvalidIndexError` (error class `other`);
    (5) a successful call implies that the labels of `w` are permutations of the
        tables' dimension labels and these are duplicate-free — the hypotheses
        of `wh_r2r_continue`, under which the call succeeds and re-aligns. -/
theorem wh_continue_label_check_r2r (p : DupPolicy) (eta β₁ β₂ lam : R) (ct ot : VecTable R)
    (chunk : Nat) (w : LW R) (es : List (Event String String)) :
    (w.outcomes.length ≠ ot.dims.length ∨ w.cues.length ≠ ct.dims.length →
      whModel .r2r p eta β₁ β₂ lam (some ct) (some ot) chunk (some w) es = .error .value) ∧
    (alignRaises ot.dims w.outcomes ∨ alignRaises ct.dims w.cues →
      whModel .r2r p eta β₁ β₂ lam (some ct) (some ot) chunk (some w) es = .error .value) ∧
    ((∀ e ∈ es, ∀ c ∈ e.cues, c ∈ ct.names) → (∀ e ∈ es, ∀ o ∈ e.outcomes, o ∈ ot.names) →
      w.outcomes.length = ot.dims.length → w.cues.length = ct.dims.length →
      ot.dims.Nodup → ct.dims.Nodup → w.outcomes.Nodup → w.cues.Nodup →
      (∃ d ∈ ot.dims, d ∉ w.outcomes) ∨ (∃ d ∈ ct.dims, d ∉ w.cues) →
      whModel .r2r p eta β₁ β₂ lam (some ct) (some ot) chunk (some w) es = .error .key) ∧
    ((∀ e ∈ es, ∀ c ∈ e.cues, c ∈ ct.names) → (∀ e ∈ es, ∀ o ∈ e.outcomes, o ∈ ot.names) →
      w.outcomes = ot.dims → w.cues = ct.dims → ¬ ot.dims.Nodup ∨ ¬ ct.dims.Nodup →
      whModel .r2r p eta β₁ β₂ lam (some ct) (some ot) chunk (some w) es = .error .other) ∧
    (∀ r, whModel .r2r p eta β₁ β₂ lam (some ct) (some ot) chunk (some w) es = .ok r →
      w.outcomes.Perm ot.dims ∧ w.cues.Perm ct.dims ∧ ot.dims.Nodup ∧ ct.dims.Nodup) :=
  ⟨whModel_r2r_shapeError p eta β₁ β₂ lam ct ot chunk w es,
    whModel_r2r_alignError p eta β₁ β₂ lam ct ot chunk w es,
    fun a b c d e f g h i => whModel_r2r_keyError p eta β₁ β₂ lam ct ot chunk w es a b c d e f g h i,
    fun a b c d e => whModel_r2r_dupError p eta β₁ β₂ lam ct ot chunk w es a b c d e,
    fun r h => whModel_r2r_ok_only_if p eta β₁ β₂ lam ct ot chunk w es r h⟩

/-- **every matrix `wh.wh` returns is labelled with the table's dimensions** on
    its real side(s) (`RealLabelsMatch`), whatever it was given — no hypothesis -/
theorem wh_result_carries_table_labels (fl : WhFlavour) (p : DupPolicy) (eta β₁ β₂ lam : R)
    (cueTab outTab : Option (VecTable R)) (chunk : Nat) (W0 : Option (LW R))
    (es : List (Event String String)) (r : LW R)
    (h : whModel fl p eta β₁ β₂ lam cueTab outTab chunk W0 es = .ok r) :
    RealLabelsMatch fl cueTab outTab r :=
  whModel_ok_labels fl p eta β₁ β₂ lam cueTab outTab chunk W0 es r h

/-- **inside a chain every `weights=` argument has the table's labels**: for a
    chain from `weights=None` split anywhere into `ps₁ ++ ps₂`, the state handed
    from `ps₁` to the first call of `ps₂` has real-side labels IDENTICAL to the
    table's dimension labels.  So the label-tolerant behaviour of
    `wh_continue_label_check_r2b` (3) and the re-alignment of `wh_r2r_continue`
    are never exercised by a chain: the chain theorems below are unaffected by
    the repair of the model.  No hypothesis on events, policies, chunk sizes. -/
theorem wh_chain_weights_carry_table_labels (fl : WhFlavour) (eta β₁ β₂ lam : R)
    (cueTab outTab : Option (VecTable R)) (ps₁ ps₂ : List WhPart) (s : Option (LW R))
    (h : whChainRun fl eta β₁ β₂ lam cueTab outTab none (ps₁ ++ ps₂) = .ok s) :
    ∃ s₁, whChainRun fl eta β₁ β₂ lam cueTab outTab none ps₁ = .ok s₁ ∧
      whChainRun fl eta β₁ β₂ lam cueTab outTab s₁ ps₂ = .ok s ∧
      (∀ w, s₁ = some w → RealLabelsMatch fl cueTab outTab w) ∧
      (∀ w, s = some w → RealLabelsMatch fl cueTab outTab w) := by
  rw [whChainRun_append] at h
  cases h1 : whChainRun fl eta β₁ β₂ lam cueTab outTab none ps₁ with
  | error e => rw [h1] at h; cases h
  | ok s₁ =>
    rw [h1] at h
    have l1 := whChainRun_state_labels fl eta β₁ β₂ lam cueTab outTab ps₁ none s₁ (fun w hw => by cases hw) h1
    exact ⟨s₁, rfl, h, l1, whChainRun_state_labels fl eta β₁ β₂ lam cueTab outTab ps₂ s₁ s l1 h⟩

/-- **`weights=None` is the empty / zero matrix**: from scratch, each flavour
    behaves exactly (same result or same error) like a call continued from the
    matrix with no binary-side labels (real → real: the zero matrix; there for
    tables with distinct dimension labels — with a repeated label the continued
    call raises, `wh_continue_label_check_r2r` (4), the call from scratch does not) -/
theorem wh_none_is_empty_matrix (p : DupPolicy) (eta β₁ β₂ lam : R) (ct ot : VecTable R)
    (chunk : Nat) (es : List (Event String String)) :
    whModel .r2b p eta β₁ β₂ lam (some ct) none chunk none es
      = whModel .r2b p eta β₁ β₂ lam (some ct) none chunk (some ⟨[], ct.dims, #[]⟩) es ∧
    whModel .b2r p eta β₁ β₂ lam none (some ot) chunk none es
      = whModel .b2r p eta β₁ β₂ lam none (some ot) chunk (some ⟨ot.dims, [], #[]⟩) es ∧
    (ot.dims.Nodup → ct.dims.Nodup →
      whModel .r2r p eta β₁ β₂ lam (some ct) (some ot) chunk none es
        = whModel .r2r p eta β₁ β₂ lam (some ct) (some ot) chunk
            (some ⟨ot.dims, ct.dims, Array.replicate (ot.dims.length * ct.dims.length) 0⟩) es) :=
  ⟨whModel_r2b_none p eta β₁ β₂ lam ct chunk es, whModel_b2r_none p eta β₁ β₂ lam ot chunk es,
    whModel_r2r_none p eta β₁ β₂ lam ct ot chunk es⟩

/-- **a chain of two `wh.wh` calls** (any flavour `fl` with its tables,
    `WhTablesOK`: the tables fit the flavour, their row labels are distinct,
    every name on a real side of the events has a row and — real → real — the
    dimension labels are distinct; per call its own duplicate policy and chunk size ≥ 1): the
    first call from `weights=None`, the second from what the first returned —
    both succeed and the second result is, at EVERY pair of labels, the
    specification of the flavour (`whSpecGet`: `whR2BSpec` / `whB2RSpec` /
    `whR2RSpec` from zero, read at the labels) on the concatenation of the
    policy-processed parts. -/
theorem wh_chain_two (fl : WhFlavour) (eta β₁ β₂ lam : R) (cueTab outTab : Option (VecTable R))
    (p₁ p₂ : DupPolicy) (chunk₁ chunk₂ : Nat) (hc₁ : 1 ≤ chunk₁) (hc₂ : 1 ≤ chunk₂)
    (es₁ es₂ es₁' es₂' : List (Event String String))
    (htab₁ : WhTablesOK fl cueTab outTab es₁) (htab₂ : WhTablesOK fl cueTab outTab es₂)
    (hp₁ : applyPolicyAll p₁ es₁ = some es₁') (hp₂ : applyPolicyAll p₂ es₂ = some es₂') :
    ∃ w₁ w₂, whModel fl p₁ eta β₁ β₂ lam cueTab outTab chunk₁ none es₁ = .ok w₁ ∧
      whModel fl p₂ eta β₁ β₂ lam cueTab outTab chunk₂ (some w₁) es₂ = .ok w₂ ∧
      ∀ a b, w₂.get a b = whSpecGet fl eta β₁ β₂ lam cueTab outTab (es₁' ++ es₂') a b :=
  whChain_two fl eta β₁ β₂ lam cueTab outTab p₁ p₂ chunk₁ chunk₂ hc₁ hc₂ es₁ es₂ es₁' es₂' htab₁ htab₂ hp₁ hp₂

/-- **the ORDER in which new binary-side labels are appended is irrelevant**
    (one continued call).  wh.py appends `list(set(new) - set(old))` (wh.py 433,
    631) — Python's set order, e.g. `['q','y','x']` where the model's counting
    order is `[q,x,y]`.  `whModelWith nl` is `whModel` with the appended block
    `nl old new` as a parameter (`whModel = whModelWith countingNew`).  For EVERY
    `nl` whose block is a permutation of the new names of the events (`hnl`;
    what `list(set(new) - set(old))` is, whatever the hashes): under the
    hypotheses of `wh_b2r_continue` / `wh_r2b_continue` the call succeeds, the
    old labels keep their positions, the appended block is that permutation, and
    the result read through its labels equals the model's at EVERY pair of
    labels.  So the label-level theorems (`wh_*_continue_get`, the chain
    theorems) hold for the code's order as well. -/
theorem wh_appended_label_order_irrelevant (nl : List String → List String → List String)
    (p : DupPolicy) (eta β₁ β₂ lam : R) (chunk : Nat) (hc : 1 ≤ chunk) (w : LW R)
    (es es' : List (Event String String)) (hp : applyPolicyAll p es = some es') :
    (∀ ot : VecTable R, (∀ e ∈ es, ∀ o ∈ e.outcomes, o ∈ ot.names) → w.outcomes = ot.dims →
      (nl w.cues (countNames es).1).Perm (countingNew w.cues (countNames es).1) →
      ∃ r r', whModel .b2r p eta β₁ β₂ lam none (some ot) chunk (some w) es = .ok r ∧
        whModelWith nl .b2r p eta β₁ β₂ lam none (some ot) chunk (some w) es = .ok r' ∧
        r'.outcomes = r.outcomes ∧
        r.cues = w.cues ++ countingNew w.cues (countNames es).1 ∧
        r'.cues = w.cues ++ nl w.cues (countNames es).1 ∧
        ∀ a b, r'.get a b = r.get a b) ∧
    (∀ ct : VecTable R, (∀ e ∈ es, ∀ c ∈ e.cues, c ∈ ct.names) → w.cues.length = ct.dims.length →
      ¬ alignRaises ct.dims w.cues →
      (nl w.outcomes (countNames es).2).Perm (countingNew w.outcomes (countNames es).2) →
      ∃ r r', whModel .r2b p eta β₁ β₂ lam (some ct) none chunk (some w) es = .ok r ∧
        whModelWith nl .r2b p eta β₁ β₂ lam (some ct) none chunk (some w) es = .ok r' ∧
        r'.cues = r.cues ∧
        r.outcomes = w.outcomes ++ countingNew w.outcomes (countNames es).2 ∧
        r'.outcomes = w.outcomes ++ nl w.outcomes (countNames es).2 ∧
        ∀ a b, r'.get a b = r.get a b) :=
  ⟨fun ot htabo hlab hnl => whModelWith_b2r_get_eq nl p eta β₁ β₂ lam ot chunk hc w es es' htabo hp hlab
      (newCovers_of_perm nl _ _ hnl),
   fun ct htab hlen hal hnl => whModelWith_r2b_get_eq nl p eta β₁ β₂ lam ct chunk hc w es es' htab hp hlen hal
      (newCovers_of_perm nl _ _ hnl)⟩

/-- (definitional) the model is the instance "counting order" -/
theorem wh_model_is_counting_order (fl : WhFlavour) (p : DupPolicy) (eta β₁ β₂ lam : R)
    (cueTab outTab : Option (VecTable R)) (chunk : Nat) (W0 : Option (LW R))
    (es : List (Event String String)) :
    whModel fl p eta β₁ β₂ lam cueTab outTab chunk W0 es
      = whModelWith countingNew fl p eta β₁ β₂ lam cueTab outTab chunk W0 es :=
  whModel_eq_with fl p eta β₁ β₂ lam cueTab outTab chunk W0 es

/-- **the binary side grows by appending, in ANY order** (two-call chain).  The
    first call from `weights=None` labels its binary side in counting order; the
    second call appends the new names of the second part in the order `nl` —
    any permutation of them (`hnl`; the code: `list(set(new) - set(old))`).
    Conclusion, for both flavours with a binary side: both calls succeed; the
    old cues (binary → real) / outcomes (real → binary) keep their positions;
    the appended block is a permutation (`List.Perm`) of the new names of the
    second part; and the second result is, at every pair of labels, the
    specification on the concatenation of the policy-processed parts.

    REPLACES the earlier `wh_chain_two_labels`, which concluded the ORDERED list
    `w₂.cues = w₁.cues ++ (countNames es₂).1.filter …` for `whModel`: true of the
    model, but about the model's order only (the second review: code
    `['q','y','x']`, model `[q,x,y]`).  That statement is the instance
    `nl = countingNew` of this one. -/
theorem wh_chain_two_labels (nl : List String → List String → List String)
    (eta β₁ β₂ lam : R) (ct ot : VecTable R) (p₁ p₂ : DupPolicy) (chunk₁ chunk₂ : Nat)
    (hc₁ : 1 ≤ chunk₁) (hc₂ : 1 ≤ chunk₂) (es₁ es₂ es₁' es₂' : List (Event String String))
    (hp₁ : applyPolicyAll p₁ es₁ = some es₁') (hp₂ : applyPolicyAll p₂ es₂ = some es₂') :
    ((∀ e ∈ es₁, ∀ o ∈ e.outcomes, o ∈ ot.names) → (∀ e ∈ es₂, ∀ o ∈ e.outcomes, o ∈ ot.names) →
      (∀ old, (nl old (countNames es₂).1).Perm (countingNew old (countNames es₂).1)) →
      ∃ w₁ w₂, whModel .b2r p₁ eta β₁ β₂ lam none (some ot) chunk₁ none es₁ = .ok w₁ ∧
        whModelWith nl .b2r p₂ eta β₁ β₂ lam none (some ot) chunk₂ (some w₁) es₂ = .ok w₂ ∧
        w₁.cues = (countNames es₁).1 ∧
        (∃ blk, w₂.cues = w₁.cues ++ blk ∧
          blk.Perm ((countNames es₂).1.filter (fun c => !w₁.cues.contains c))) ∧
        ∀ dl c, w₂.get dl c = whSpecGet .b2r eta β₁ β₂ lam none (some ot) (es₁' ++ es₂') dl c) ∧
    ((∀ e ∈ es₁, ∀ c ∈ e.cues, c ∈ ct.names) → (∀ e ∈ es₂, ∀ c ∈ e.cues, c ∈ ct.names) →
      (∀ old, (nl old (countNames es₂).2).Perm (countingNew old (countNames es₂).2)) →
      ∃ w₁ w₂, whModel .r2b p₁ eta β₁ β₂ lam (some ct) none chunk₁ none es₁ = .ok w₁ ∧
        whModelWith nl .r2b p₂ eta β₁ β₂ lam (some ct) none chunk₂ (some w₁) es₂ = .ok w₂ ∧
        w₁.outcomes = (countNames es₁).2 ∧
        (∃ blk, w₂.outcomes = w₁.outcomes ++ blk ∧
          blk.Perm ((countNames es₂).2.filter (fun o => !w₁.outcomes.contains o))) ∧
        ∀ o d, w₂.get o d = whSpecGet .r2b eta β₁ β₂ lam (some ct) none (es₁' ++ es₂') o d) := by
  constructor
  · intro h1 h2 hnl
    obtain ⟨w₁, w₂, a, b, c, _, e⟩ := whB2R_chain_two eta β₁ β₂ lam ot p₁ p₂ chunk₁ chunk₂ hc₁ hc₂
      es₁ es₂ es₁' es₂' h1 h2 hp₁ hp₂
    have hlab : w₁.outcomes = ot.dims :=
      whModel_ok_labels .b2r p₁ eta β₁ β₂ lam none (some ot) chunk₁ none es₁ w₁ a
    obtain ⟨r, r', g1, g2, _, _, g5, g6⟩ := whModelWith_b2r_get_eq nl p₂ eta β₁ β₂ lam ot chunk₂ hc₂ w₁
      es₂ es₂' h2 hp₂ hlab (newCovers_of_perm nl _ _ (hnl w₁.cues))
    have hr : r = w₂ := by rw [b] at g1; exact (Except.ok.inj g1).symm
    subst hr
    exact ⟨w₁, r', a, g2, c, ⟨_, g5, hnl w₁.cues⟩, fun dl cc => by rw [g6 dl cc, e dl cc]; rfl⟩
  · intro h1 h2 hnl
    obtain ⟨w₁, w₂, a, b, c, _, e⟩ := whR2B_chain_two eta β₁ β₂ lam ct p₁ p₂ chunk₁ chunk₂ hc₁ hc₂
      es₁ es₂ es₁' es₂' h1 h2 hp₁ hp₂
    have hlab : w₁.cues = ct.dims :=
      whModel_ok_labels .r2b p₁ eta β₁ β₂ lam (some ct) none chunk₁ none es₁ w₁ a
    obtain ⟨r, r', g1, g2, _, _, g5, g6⟩ := whModelWith_r2b_get_eq nl p₂ eta β₁ β₂ lam ct chunk₂ hc₂ w₁
      es₂ es₂' h2 hp₂ (by rw [hlab]) (fun h => h.1 hlab.symm) (newCovers_of_perm nl _ _ (hnl w₁.outcomes))
    have hr : r = w₂ := by rw [b] at g1; exact (Except.ok.inj g1).symm
    subst hr
    exact ⟨w₁, r', a, g2, c, ⟨_, g5, hnl w₁.outcomes⟩, fun o d => by rw [g6 o d, e o d]; rfl⟩

/-- **chains of `wh.wh` calls of ARBITRARY length, all three flavours.**

    The chain `whChainRun`: the same flavour, tables, `eta`, `betas`, `lambda_`
    for every call; per part (`WhPart`) its own events, `remove_duplicates` and
    `n_outcomes_per_job`; the first call gets `weights=None`, every later call
    the matrix the previous call returned.

    Hypotheses: `hp` every part is accepted by ITS duplicate policy, `es'` is the
    concatenation of the policy-processed parts; `hchunk` every
    `n_outcomes_per_job ≥ 1`; `htab` (`WhTablesOK`) the tables fit the flavour,
    their row labels are distinct, every name on a real side of the whole file
    has a row in its table (`ValueError` otherwise) and — real → real only —
    the dimension labels of both tables are distinct (otherwise the second call
    raises `InvalidIndexError`, `wh_continue_label_check_r2r` (4)).  Nothing is
    assumed about the intermediate matrices
    (`wh_chain_weights_carry_table_labels`).

    Conclusion: the chain runs through and its result, read through its labels,
    is at EVERY pair of labels the specification of the flavour from zero
    weights on `es'` — also when later parts introduce new cues (binary →
    real) or new outcomes (real → binary). -/
theorem wh_chain_any_length (fl : WhFlavour) (eta β₁ β₂ lam : R) (cueTab outTab : Option (VecTable R))
    (parts : List WhPart) (es' : List (Event String String)) (hp : whChainPolicy parts = some es')
    (hchunk : ∀ pt ∈ parts, 1 ≤ pt.chunk) (htab : WhTablesOK fl cueTab outTab (whAllEvents parts)) :
    ∃ s, whChainRun fl eta β₁ β₂ lam cueTab outTab none parts = .ok s ∧
      ∀ a b, optGet s a b = whSpecGet fl eta β₁ β₂ lam cueTab outTab es' a b :=
  whChain_any_length fl eta β₁ β₂ lam cueTab outTab parts es' hp hchunk htab

/-- **the chain equals ONE `wh.wh` call over the whole file** (from
    `weights=None`, any chunk size ≥ 1), at every pair of labels, when all parts
    and the single call use the same duplicate policy `p`; that `p` accepts the
    whole file follows from the parts being accepted (`whChainPolicy_uniform`). -/
theorem wh_chain_eq_single_call (fl : WhFlavour) (eta β₁ β₂ lam : R) (cueTab outTab : Option (VecTable R))
    (parts : List WhPart) (p : DupPolicy) (hpol : ∀ pt ∈ parts, pt.policy = p)
    (es' : List (Event String String)) (hp : whChainPolicy parts = some es')
    (hchunk : ∀ pt ∈ parts, 1 ≤ pt.chunk) (htab : WhTablesOK fl cueTab outTab (whAllEvents parts))
    (chunk : Nat) (hc : 1 ≤ chunk) :
    ∃ s w, whChainRun fl eta β₁ β₂ lam cueTab outTab none parts = .ok s ∧
      whModel fl p eta β₁ β₂ lam cueTab outTab chunk none (whAllEvents parts) = .ok w ∧
      ∀ a b, optGet s a b = w.get a b :=
  whChain_eq_single_call fl eta β₁ β₂ lam cueTab outTab parts p hpol es' hp hchunk htab chunk hc

/-- the chain from ANY given weights satisfying the label check (stepwise form,
    binary → real): the result denotes the specification continued from the
    weight function the given weights denote -/
theorem wh_b2r_chain_from (eta β₁ β₂ lam : R) (ot : VecTable R) (parts : List WhPart)
    (s : Option (LW R)) (hs : ∀ w, s = some w → w.outcomes = ot.dims)
    (es' : List (Event String String)) (hp : whChainPolicy parts = some es')
    (hchunk : ∀ pt ∈ parts, 1 ≤ pt.chunk)
    (htabo : ∀ pt ∈ parts, ∀ e ∈ pt.events, ∀ o ∈ e.outcomes, o ∈ ot.names) :
    ∃ s', whChainRun .b2r eta β₁ β₂ lam none (some ot) s parts = .ok s' ∧
      (∀ w, s' = some w → w.outcomes = ot.dims) ∧
      ∀ d, d < ot.dims.length → optByCue s' d = whB2RSpecFrom eta ot (optByCue s) es' d :=
  whChainRun_b2r_spec eta β₁ β₂ lam ot parts s hs es' hp hchunk htabo

/-- … real → binary -/
theorem wh_r2b_chain_from (eta β₁ β₂ lam : R) (ct : VecTable R) (parts : List WhPart)
    (s : Option (LW R)) (hs : ∀ w, s = some w → w.cues = ct.dims)
    (es' : List (Event String String)) (hp : whChainPolicy parts = some es')
    (hchunk : ∀ pt ∈ parts, 1 ≤ pt.chunk)
    (htab : ∀ pt ∈ parts, ∀ e ∈ pt.events, ∀ c ∈ e.cues, c ∈ ct.names) :
    ∃ s', whChainRun .r2b eta β₁ β₂ lam (some ct) none s parts = .ok s' ∧
      (∀ w, s' = some w → w.cues = ct.dims) ∧
      optByOutcome s' = whR2BSpecFrom β₁ β₂ lam ct (optByOutcome s) es' :=
  whChainRun_r2b_spec eta β₁ β₂ lam ct parts s hs es' hp hchunk htab

/-- … real → real (`hno`, `hnc`: distinct dimension labels, needed by every
    continued call; the former size hypothesis on the given weights is gone) -/
theorem wh_r2r_chain_from (eta β₁ β₂ lam : R) (ct ot : VecTable R)
    (hno : ot.dims.Nodup) (hnc : ct.dims.Nodup) (parts : List WhPart)
    (s : Option (LW R))
    (hs : ∀ w, s = some w → w.outcomes = ot.dims ∧ w.cues = ct.dims)
    (es' : List (Event String String)) (hp : whChainPolicy parts = some es')
    (hchunk : ∀ pt ∈ parts, 1 ≤ pt.chunk)
    (htabc : ∀ pt ∈ parts, ∀ e ∈ pt.events, ∀ c ∈ e.cues, c ∈ ct.names)
    (htabo : ∀ pt ∈ parts, ∀ e ∈ pt.events, ∀ o ∈ e.outcomes, o ∈ ot.names) :
    ∃ s', whChainRun .r2r eta β₁ β₂ lam (some ct) (some ot) s parts = .ok s' ∧
      (∀ w, s' = some w → w.outcomes = ot.dims ∧ w.cues = ct.dims) ∧
      ∀ d, d < ot.dims.length → optByPos s' d = whR2RSpecFrom eta ct ot (optByPos s) es' d :=
  whChainRun_r2r_spec eta β₁ β₂ lam ct ot hno hnc parts s hs es' hp hchunk htabc htabo

/-! ### non-vacuity of the chain theorems (ℤ, tiny tables) -/

/-- outcome vectors x = (1, 2), y = (0, 3) -/
def exOT : VecTable ℤ := ⟨["x", "y"], ["d0", "d1"], #[1, 2, 0, 3]⟩
/-- cue vectors a = (1, 0), b = (1, 1), c = (0, 2) -/
def exCT : VecTable ℤ := ⟨["a", "b", "c"], ["k0", "k1"], #[1, 0, 1, 1, 0, 2]⟩

/-- a 3-part binary → real chain; part 2 introduces the two new cues `c`, `d`
    (and repeats a cue within an event), part 3 repeats an outcome -/
def exB2R : List WhPart :=
  [ ⟨.keep, 1, [⟨["a", "b"], ["x"]⟩]⟩,
    ⟨.keep, 2, [⟨["c", "a", "c"], ["x", "y"]⟩, ⟨["d"], ["y"]⟩]⟩,
    ⟨.keep, 3, [⟨["b", "d"], ["y", "y"]⟩]⟩ ]

/-- a 3-part real → binary chain, a different duplicate policy per part; parts
    2 and 3 bring the new outcomes `y`, `z` -/
def exR2B : List WhPart :=
  [ ⟨.error, 1, [⟨["a", "b"], ["x"]⟩]⟩,
    ⟨.dedup, 2, [⟨["c", "a", "c"], ["x", "y", "y"]⟩, ⟨["b"], ["z"]⟩]⟩,
    ⟨.keep, 3, [⟨["b", "b"], ["y"]⟩]⟩ ]

def showRun : Except Err (Option (LW ℤ)) → Option (List String × List String × Array ℤ)
  | .ok (some w) => some (w.outcomes, w.cues, w.vals)
  | _ => none

def showCall : Except Err (LW ℤ) → Option (List String × List String × Array ℤ)
  | .ok w => some (w.outcomes, w.cues, w.vals)
  | .error _ => none

/-- the model runs: the matrices after 1, 2 and all 3 calls (old cues keep their
    columns, `c`, `d` are appended by the second call), and the last one is what
    ONE call over the whole file returns -/
example :
    showRun (whChainRun .b2r (1 : ℤ) 0 0 0 none (some exOT) none (exB2R.take 1))
      = some (["d0", "d1"], ["a", "b"], #[1, 1,  2, 2]) ∧
    showRun (whChainRun .b2r (1 : ℤ) 0 0 0 none (some exOT) none (exB2R.take 2))
      = some (["d0", "d1"], ["a", "b", "c", "d"], #[1, 1, 0, 0,  5, 2, 6, 3]) ∧
    showRun (whChainRun .b2r (1 : ℤ) 0 0 0 none (some exOT) none exB2R)
      = some (["d0", "d1"], ["a", "b", "c", "d"], #[1, 0, 0, -1,  5, 3, 6, 4]) ∧
    showCall (whModel .b2r .keep (1 : ℤ) 0 0 0 none (some exOT) 2 none (whAllEvents exB2R))
      = some (["d0", "d1"], ["a", "b", "c", "d"], #[1, 0, 0, -1,  5, 3, 6, 4]) :=
  ⟨by decide +kernel, by decide +kernel, by decide +kernel, by decide +kernel⟩

/-- … and these are the numbers of the specification over the whole file -/
example :
    (["d0", "d1"].map fun dl => ["a", "b", "c", "d"].map fun c =>
      whSpecGet .b2r (1 : ℤ) 0 0 0 none (some exOT) (whAllEvents exB2R) dl c)
      = [[1, 0, 0, -1], [5, 3, 6, 4]] := by
  decide +kernel

/-- the hypotheses of `wh_chain_any_length` / `wh_chain_eq_single_call` are jointly
    satisfiable (binary → real): the example instantiates every one of them -/
example :
    ∃ s w, whChainRun .b2r (1 : ℤ) 0 0 0 none (some exOT) none exB2R = .ok s ∧
      whModel .b2r .keep (1 : ℤ) 0 0 0 none (some exOT) 2 none (whAllEvents exB2R) = .ok w ∧
      ∀ a b, optGet s a b = w.get a b :=
  wh_chain_eq_single_call .b2r 1 0 0 0 none (some exOT) exB2R .keep (by decide) (whAllEvents exB2R)
    (by decide +kernel) (by decide) (by decide +kernel) 2 (by decide)

/-- … real → binary, a different policy per part (`es'` = the policy-processed
    parts: the repeated `c` and `y` of part 2 are removed, the repeated `b` of
    part 3 is kept), new outcomes in parts 2 and 3 -/
example :
    ∃ s, whChainRun .r2b (0 : ℤ) 1 1 3 (some exCT) none none exR2B = .ok s ∧
      ∀ a b, optGet s a b = whSpecGet .r2b (0 : ℤ) 1 1 3 (some exCT) none
        [⟨["a", "b"], ["x"]⟩, ⟨["c", "a"], ["x", "y"]⟩, ⟨["b"], ["z"]⟩, ⟨["b", "b"], ["y"]⟩] a b :=
  wh_chain_any_length .r2b 0 1 1 3 (some exCT) none exR2B _ (by decide +kernel) (by decide) (by decide +kernel)

example :
    showRun (whChainRun .r2b (0 : ℤ) 1 1 3 (some exCT) none none exR2B)
      = some (["x", "y", "z"], ["k0", "k1"], #[-57, -69,  36, 39,  -21, -21]) := by
  decide +kernel

/-- a 3-part real → real chain (cues and outcomes are rows of `exCT` / `exOT`) -/
def exR2R : List WhPart :=
  [ ⟨.error, 1, [⟨["a", "b"], ["x"]⟩]⟩,
    ⟨.dedup, 2, [⟨["c", "a", "c"], ["x", "y"]⟩]⟩,
    ⟨.keep, 1, [⟨["b", "b"], ["y", "y"]⟩]⟩ ]

/-- … real → real -/
example :
    ∃ s, whChainRun .r2r (1 : ℤ) 0 0 0 (some exCT) (some exOT) none exR2R = .ok s ∧
      ∀ a b, optGet s a b = whSpecGet .r2r (1 : ℤ) 0 0 0 (some exCT) (some exOT)
        [⟨["a", "b"], ["x"]⟩, ⟨["c", "a"], ["x", "y"]⟩, ⟨["b", "b"], ["y", "y"]⟩] a b :=
  wh_chain_any_length .r2r 1 0 0 0 (some exCT) (some exOT) exR2R _ (by decide +kernel) (by decide)
    (by decide +kernel)

/-- `wh_chain_two` APPLIED, every hypothesis instantiated (binary → real, the
    second part brings the new cues `x`, `y`; different policies and chunk sizes) -/
example :
    ∃ w₁ w₂, whModel .b2r .keep (1 : ℤ) 0 0 0 none (some exOT) 1 none [⟨["q"], ["x"]⟩] = .ok w₁ ∧
      whModel .b2r .dedup (1 : ℤ) 0 0 0 none (some exOT) 2 (some w₁)
        [⟨["x", "q", "x"], ["y"]⟩, ⟨["y"], ["x"]⟩] = .ok w₂ ∧
      ∀ a b, w₂.get a b = whSpecGet .b2r (1 : ℤ) 0 0 0 none (some exOT)
        ([⟨["q"], ["x"]⟩] ++ [⟨["x", "q"], ["y"]⟩, ⟨["y"], ["x"]⟩]) a b :=
  wh_chain_two .b2r 1 0 0 0 none (some exOT) .keep .dedup 1 2 (by decide) (by decide)
    [⟨["q"], ["x"]⟩] [⟨["x", "q", "x"], ["y"]⟩, ⟨["y"], ["x"]⟩] _ _
    (by decide +kernel) (by decide +kernel) (by decide +kernel) (by decide +kernel)

/-- the order `nl` of the second review's probe: the new cues of the second
    call appended in REVERSE counting order (code `['q','y','x']`, model `[q,x,y]`) -/
def exRevNew (old ev : List String) : List String := (countingNew old ev).reverse

/-- `wh_chain_two_labels` APPLIED with that order (binary → real half, every
    hypothesis instantiated): the cue labels are `q` followed by a permutation
    of `x, y`, and the weights read through the labels are the specification … -/
example :
    ∃ w₁ w₂, whModel .b2r .keep (1 : ℤ) 0 0 0 none (some exOT) 1 none [⟨["q"], ["x"]⟩] = .ok w₁ ∧
      whModelWith exRevNew .b2r .dedup (1 : ℤ) 0 0 0 none (some exOT) 2 (some w₁)
        [⟨["x", "q", "x"], ["y"]⟩, ⟨["y"], ["x"]⟩] = .ok w₂ ∧
      w₁.cues = (countNames [⟨["q"], ["x"]⟩]).1 ∧
      (∃ blk, w₂.cues = w₁.cues ++ blk ∧
        blk.Perm ((countNames [⟨["x", "q", "x"], ["y"]⟩, ⟨["y"], ["x"]⟩]).1.filter
          (fun c => !w₁.cues.contains c))) ∧
      ∀ dl c, w₂.get dl c = whSpecGet .b2r (1 : ℤ) 0 0 0 none (some exOT)
        ([⟨["q"], ["x"]⟩] ++ [⟨["x", "q"], ["y"]⟩, ⟨["y"], ["x"]⟩]) dl c :=
  (wh_chain_two_labels exRevNew (1 : ℤ) 0 0 0 exCT exOT .keep .dedup 1 2 (by decide) (by decide)
    [⟨["q"], ["x"]⟩] [⟨["x", "q", "x"], ["y"]⟩, ⟨["y"], ["x"]⟩] _ _ (by decide +kernel) (by decide +kernel)).1
    (by decide +kernel) (by decide +kernel) (fun old => List.reverse_perm _)

/-- … and the two runs themselves (kernel-evaluated): the code's order
    `q, y, x` and the model's `q, x, y` — different arrays, the same weights at
    the labels (column `x` holds (0, 1) … in both) -/
example :
    showCall (whModelWith exRevNew .b2r .dedup (1 : ℤ) 0 0 0 none (some exOT) 2
      (some ⟨["d0", "d1"], ["q"], #[1, 2]⟩) [⟨["x", "q", "x"], ["y"]⟩, ⟨["y"], ["x"]⟩])
      = some (["d0", "d1"], ["q", "y", "x"], #[0, 1, -1,  3, 2, 1]) ∧
    showCall (whModel .b2r .dedup (1 : ℤ) 0 0 0 none (some exOT) 2
      (some ⟨["d0", "d1"], ["q"], #[1, 2]⟩) [⟨["x", "q", "x"], ["y"]⟩, ⟨["y"], ["x"]⟩])
      = some (["d0", "d1"], ["q", "x", "y"], #[0, -1, 1,  3, 1, 2]) := by
  refine ⟨by decide +kernel, by decide +kernel⟩

/-- `wh_appended_label_order_irrelevant` APPLIED (real → binary half): given
    weights with the outcome `x`, events bringing `z` then `y`, appended as `y, z` -/
example :
    ∃ r r', whModel .r2b .keep (0 : ℤ) 1 1 3 (some exCT) none 1 (some ⟨["x"], ["k0", "k1"], #[1, 2]⟩)
        [⟨["a"], ["z", "x"]⟩, ⟨["b", "b"], ["y"]⟩] = .ok r ∧
      whModelWith exRevNew .r2b .keep (0 : ℤ) 1 1 3 (some exCT) none 1 (some ⟨["x"], ["k0", "k1"], #[1, 2]⟩)
        [⟨["a"], ["z", "x"]⟩, ⟨["b", "b"], ["y"]⟩] = .ok r' ∧
      r'.cues = r.cues ∧
      r.outcomes = ["x"] ++ countingNew ["x"] (countNames [⟨["a"], ["z", "x"]⟩, ⟨["b", "b"], ["y"]⟩]).2 ∧
      r'.outcomes = ["x"] ++ exRevNew ["x"] (countNames [⟨["a"], ["z", "x"]⟩, ⟨["b", "b"], ["y"]⟩]).2 ∧
      ∀ a b, r'.get a b = r.get a b :=
  (wh_appended_label_order_irrelevant exRevNew .keep (0 : ℤ) 1 1 3 1 (by decide)
    ⟨["x"], ["k0", "k1"], #[1, 2]⟩ [⟨["a"], ["z", "x"]⟩, ⟨["b", "b"], ["y"]⟩]
    [⟨["a"], ["z", "x"]⟩, ⟨["b", "b"], ["y"]⟩] (by decide +kernel)).2
    exCT (by decide +kernel) (by decide) (by decide +kernel) (List.reverse_perm _)

example : exRevNew ["x"] (countNames [⟨["a"], ["z", "x"]⟩, ⟨["b", "b"], ["y"]⟩]).2 = ["y", "z"] ∧
    countingNew ["x"] (countNames [⟨["a"], ["z", "x"]⟩, ⟨["b", "b"], ["y"]⟩]).2 = ["z", "y"] := by
  refine ⟨by decide +kernel, by decide +kernel⟩

/-- `wh_r2b_continue_get`, `wh_b2r_continue_get`, `wh_r2r_continue_get` APPLIED
    with every hypothesis instantiated (the weights and events of the examples
    for the non-`_get` forms; real → binary on weights labelled `z0, z1`) -/
example :
    ∃ r, whModel .r2b .keep (0 : ℤ) 1 1 3 (some exCT) none 2 (some ⟨["x"], ["z0", "z1"], #[1, 2]⟩)
        [⟨["a", "b"], ["x"]⟩, ⟨["c", "c"], ["y"]⟩] = .ok r ∧
      ∀ o d, r.get o d = if d ∈ exCT.dims
        then whR2BSpecFrom 1 1 3 exCT (⟨["x"], ["z0", "z1"], #[1, 2]⟩ : LW ℤ).byOutcome
          [⟨["a", "b"], ["x"]⟩, ⟨["c", "c"], ["y"]⟩] o (exCT.dims.idxOf d) else 0 :=
  wh_r2b_continue_get .keep 0 1 1 3 exCT (by decide) 2 (by decide) ⟨["x"], ["z0", "z1"], #[1, 2]⟩ (by decide)
    _ _ (by decide +kernel) (by decide +kernel) (by decide) (by decide +kernel)

example :
    ∃ r, whModel .b2r .dedup (1 : ℤ) 0 0 0 none (some exOT) 2 (some ⟨["d0", "d1"], ["q"], #[1, 2]⟩)
        [⟨["x", "q", "x"], ["y"]⟩, ⟨["y"], ["x"]⟩] = .ok r ∧
      ∀ dl c, r.get dl c = if dl ∈ exOT.dims
        then whB2RSpecFrom 1 exOT (⟨["d0", "d1"], ["q"], #[1, 2]⟩ : LW ℤ).byCue
          [⟨["x", "q"], ["y"]⟩, ⟨["y"], ["x"]⟩] (exOT.dims.idxOf dl) c else 0 :=
  wh_b2r_continue_get .dedup 1 0 0 0 exOT (by decide) 2 (by decide) ⟨["d0", "d1"], ["q"], #[1, 2]⟩ (by decide)
    _ _ (by decide +kernel) (by decide +kernel) (by decide)

example :
    ∃ r, whModel .r2r .dedup (1 : ℤ) 0 0 0 (some exCT) (some exOT) 1
        (some ⟨["d1", "d0"], ["k1", "k0"], #[1, 2, 3, 4]⟩) [⟨["a", "b", "a"], ["x"]⟩] = .ok r ∧
      ∀ dlo dlc, r.get dlo dlc = if dlo ∈ exOT.dims ∧ dlc ∈ exCT.dims
        then whR2RSpecFrom 1 exCT exOT
          ((⟨["d1", "d0"], ["k1", "k0"], #[1, 2, 3, 4]⟩ : LW ℤ).atLabels exOT.dims exCT.dims)
          [⟨["a", "b"], ["x"]⟩] (exOT.dims.idxOf dlo) (exCT.dims.idxOf dlc) else 0 :=
  wh_r2r_continue_get .dedup 1 0 0 0 exCT exOT (by decide) (by decide) 1 (by decide) _ _ _
    (by decide +kernel) (by decide +kernel) (by decide +kernel) (by decide) (by decide) (by decide) (by decide)

/-- `wh_b2r_chain_from`, `wh_r2b_chain_from`, `wh_r2r_chain_from` APPLIED: the
    last two parts of the three example chains, started from GIVEN weights with
    the tables' labels (every hypothesis instantiated) -/
example :
    ∃ s', whChainRun .b2r (1 : ℤ) 0 0 0 none (some exOT) (some ⟨["d0", "d1"], ["a", "b"], #[1, 1, 2, 2]⟩)
        (exB2R.drop 1) = .ok s' ∧
      (∀ w, s' = some w → w.outcomes = exOT.dims) ∧
      ∀ d, d < exOT.dims.length → optByCue s' d
        = whB2RSpecFrom 1 exOT (optByCue (some ⟨["d0", "d1"], ["a", "b"], #[1, 1, 2, 2]⟩))
            (whAllEvents (exB2R.drop 1)) d :=
  wh_b2r_chain_from 1 0 0 0 exOT (exB2R.drop 1) (some ⟨["d0", "d1"], ["a", "b"], #[1, 1, 2, 2]⟩)
    (fun w hw => by cases hw; rfl) _ (by decide +kernel) (by decide) (by decide +kernel)

example :
    ∃ s', whChainRun .r2b (0 : ℤ) 1 1 3 (some exCT) none (some ⟨["x"], ["k0", "k1"], #[1, 2]⟩)
        (exR2B.drop 1) = .ok s' ∧
      (∀ w, s' = some w → w.cues = exCT.dims) ∧
      optByOutcome s' = whR2BSpecFrom 1 1 3 exCT (optByOutcome (some ⟨["x"], ["k0", "k1"], #[1, 2]⟩))
        [⟨["c", "a"], ["x", "y"]⟩, ⟨["b"], ["z"]⟩, ⟨["b", "b"], ["y"]⟩] :=
  wh_r2b_chain_from 0 1 1 3 exCT (exR2B.drop 1) (some ⟨["x"], ["k0", "k1"], #[1, 2]⟩)
    (fun w hw => by cases hw; rfl) _ (by decide +kernel) (by decide) (by decide +kernel)

example :
    ∃ s', whChainRun .r2r (1 : ℤ) 0 0 0 (some exCT) (some exOT)
        (some ⟨["d0", "d1"], ["k0", "k1"], #[1, 2, 3, 4]⟩) (exR2R.drop 1) = .ok s' ∧
      (∀ w, s' = some w → w.outcomes = exOT.dims ∧ w.cues = exCT.dims) ∧
      ∀ d, d < exOT.dims.length → optByPos s' d
        = whR2RSpecFrom 1 exCT exOT (optByPos (some ⟨["d0", "d1"], ["k0", "k1"], #[1, 2, 3, 4]⟩))
            [⟨["c", "a"], ["x", "y"]⟩, ⟨["b", "b"], ["y", "y"]⟩] d :=
  wh_r2r_chain_from 1 0 0 0 exCT exOT (by decide) (by decide) (exR2R.drop 1)
    (some ⟨["d0", "d1"], ["k0", "k1"], #[1, 2, 3, 4]⟩) (fun w hw => by cases hw; exact ⟨rfl, rfl⟩) _
    (by decide +kernel) (by decide) (by decide +kernel) (by decide +kernel)

/-! ### non-vacuity of the label-check theorems: the inputs the review used -/

def showErr : Except Err (LW ℤ) → Option Err
  | .ok _ => none
  | .error e => some e

/-- binary → real: wrong or permuted row labels ⇒ `ValueError` -/
example :
    whModel .b2r .keep (1 : ℤ) 0 0 0 none (some exOT) 1
      (some ⟨["d0", "WRONG"], ["a"], #[1, 2]⟩) [⟨["a"], ["x"]⟩] = .error .value ∧
    whModel .b2r .keep (1 : ℤ) 0 0 0 none (some exOT) 1
      (some ⟨["d1", "d0"], ["a"], #[1, 2]⟩) [⟨["a"], ["x"]⟩] = .error .value :=
  ⟨(wh_continue_label_check_b2r _ _ _ _ _ _ _ _ _).1 (by decide),
    (wh_continue_label_check_b2r _ _ _ _ _ _ _ _ _).1 (by decide)⟩

/-- real → binary: weights labelled `z0, z1` (or permuted `k1, k0`) against the
    table dimensions `k0, k1` are ACCEPTED, used by position and relabelled —
    the same matrix as for correctly labelled weights (the real code returns
    `[[0.4, 1.7]]` labelled `k0, k1` for all three with η = 0.1, weights `[[1, 2]]`,
    event `a_b → x`; here η = 1 over ℤ) -/
example :
    showCall (whModel .r2b .keep (0 : ℤ) 1 1 3 (some exCT) none 1
      (some ⟨["x"], ["z0", "z1"], #[1, 2]⟩) [⟨["a", "b"], ["x"]⟩]) = some (["x"], ["k0", "k1"], #[-1, 1]) ∧
    showCall (whModel .r2b .keep (0 : ℤ) 1 1 3 (some exCT) none 1
      (some ⟨["x"], ["k1", "k0"], #[1, 2]⟩) [⟨["a", "b"], ["x"]⟩]) = some (["x"], ["k0", "k1"], #[-1, 1]) ∧
    showCall (whModel .r2b .keep (0 : ℤ) 1 1 3 (some exCT) none 1
      (some ⟨["x"], ["k0", "k1"], #[1, 2]⟩) [⟨["a", "b"], ["x"]⟩]) = some (["x"], ["k0", "k1"], #[-1, 1]) ∧
    -- a different number of columns, or a repeated label in differing lists: ValueError
    showErr (whModel .r2b .keep (0 : ℤ) 1 1 3 (some exCT) none 1
      (some ⟨["x"], ["k0"], #[1]⟩) [⟨["a", "b"], ["x"]⟩]) = some .value ∧
    showErr (whModel .r2b .keep (0 : ℤ) 1 1 3 (some exCT) none 1
      (some ⟨["x"], ["k0", "k0"], #[1, 2]⟩) [⟨["a", "b"], ["x"]⟩]) = some .value :=
  ⟨by decide +kernel, by decide +kernel, by decide +kernel, by decide +kernel, by decide +kernel⟩

/-- `wh_r2b_continue` with EVERY hypothesis instantiated, on wrongly labelled
    weights (`z0, z1`) and an event bringing the new outcome `y` -/
example :
    ∃ r, whModel .r2b .keep (0 : ℤ) 1 1 3 (some exCT) none 2 (some ⟨["x"], ["z0", "z1"], #[1, 2]⟩)
        [⟨["a", "b"], ["x"]⟩, ⟨["c", "c"], ["y"]⟩] = .ok r ∧
      r.outcomes = ["x"] ++ (countNames [⟨["a", "b"], ["x"]⟩, ⟨["c", "c"], ["y"]⟩]).2.filter
        (fun o => !["x"].contains o) ∧
      r.cues = exCT.dims ∧ r.vals.size = exCT.dims.length * r.outcomes.length ∧
      r.byOutcome = whR2BSpecFrom 1 1 3 exCT (⟨["x"], ["z0", "z1"], #[1, 2]⟩ : LW ℤ).byOutcome
        [⟨["a", "b"], ["x"]⟩, ⟨["c", "c"], ["y"]⟩] :=
  wh_r2b_continue .keep 0 1 1 3 exCT (by decide) 2 (by decide) ⟨["x"], ["z0", "z1"], #[1, 2]⟩ (by decide)
    _ _ (by decide +kernel) (by decide +kernel) (by decide) (by decide +kernel)

/-- real → real: permuted labels are RE-ALIGNED (the real code: weights
    `[[1,2],[3,4]]` labelled rows `d0,d1`, columns `k1,k0` are read as
    `[[2,1],[4,3]]`), missing labels ⇒ `KeyError`, wrong shape ⇒ `ValueError`,
    identical labels with a repeat ⇒ `InvalidIndexError` (class `other`) -/
example :
    showCall (whModel .r2r .keep (0 : ℤ) 0 0 0 (some exCT) (some exOT) 1
      (some ⟨["d0", "d1"], ["k1", "k0"], #[1, 2, 3, 4]⟩) []) = some (["d0", "d1"], ["k0", "k1"], #[2, 1, 4, 3]) ∧
    showCall (whModel .r2r .keep (0 : ℤ) 0 0 0 (some exCT) (some exOT) 1
      (some ⟨["d1", "d0"], ["k1", "k0"], #[1, 2, 3, 4]⟩) []) = some (["d0", "d1"], ["k0", "k1"], #[4, 3, 2, 1]) ∧
    showErr (whModel .r2r .keep (0 : ℤ) 0 0 0 (some exCT) (some exOT) 1
      (some ⟨["d0", "d1"], ["z0", "z1"], #[1, 2, 3, 4]⟩) []) = some .key ∧
    showErr (whModel .r2r .keep (0 : ℤ) 0 0 0 (some exCT) (some exOT) 1
      (some ⟨["d0", "d1"], ["k0", "z1"], #[1, 2, 3, 4]⟩) []) = some .key ∧
    showErr (whModel .r2r .keep (0 : ℤ) 0 0 0 (some exCT) (some exOT) 1
      (some ⟨["d0"], ["k0", "k1"], #[1, 2]⟩) []) = some .value ∧
    showErr (whModel .r2r .keep (0 : ℤ) 0 0 0 (some exCT) (some exOT) 1
      (some ⟨["d0", "d1"], ["k0", "k0"], #[1, 2, 3, 4]⟩) []) = some .value ∧
    showErr (whModel .r2r .keep (0 : ℤ) 0 0 0 (some ⟨["a"], ["k0", "k0"], #[1, 0]⟩) (some exOT) 1
      (some ⟨["d0", "d1"], ["k0", "k0"], #[1, 2, 3, 4]⟩) []) = some .other :=
  ⟨by decide +kernel, by decide +kernel, by decide +kernel, by decide +kernel, by decide +kernel,
    by decide +kernel, by decide +kernel⟩

/-- `wh_r2r_continue` with EVERY hypothesis instantiated on weights whose labels
    are permuted on both axes -/
example :
    ∃ r, whModel .r2r .dedup (1 : ℤ) 0 0 0 (some exCT) (some exOT) 1
        (some ⟨["d1", "d0"], ["k1", "k0"], #[1, 2, 3, 4]⟩) [⟨["a", "b", "a"], ["x"]⟩] = .ok r ∧
      r.outcomes = exOT.dims ∧ r.cues = exCT.dims ∧
      r.vals.size = r.outcomes.length * r.cues.length ∧
      ∀ d, d < exOT.dims.length →
        r.byPos d = whR2RSpecFrom 1 exCT exOT
          ((⟨["d1", "d0"], ["k1", "k0"], #[1, 2, 3, 4]⟩ : LW ℤ).atLabels exOT.dims exCT.dims)
          [⟨["a", "b"], ["x"]⟩] d :=
  wh_r2r_continue .dedup 1 0 0 0 exCT exOT (by decide) (by decide) 1 (by decide) _ _ _
    (by decide +kernel) (by decide +kernel) (by decide +kernel) (by decide) (by decide) (by decide) (by decide)

/-- … and the numbers: the re-aligned start `[[4,3],[2,1]]`, then one delta step
    with `x = a + b = (2, 1)`, `t = x = (1, 2)`: row 0: `a = 4·2+3·1 = 11`,
    `u = 1 − 11 = −10` ⇒ `(4−20, 3−10)`; row 1: `a = 5`, `u = −3` ⇒ `(2−6, 1−3)` -/
example :
    showCall (whModel .r2r .dedup (1 : ℤ) 0 0 0 (some exCT) (some exOT) 1
      (some ⟨["d1", "d0"], ["k1", "k0"], #[1, 2, 3, 4]⟩) [⟨["a", "b", "a"], ["x"]⟩])
      = some (["d0", "d1"], ["k0", "k1"], #[-16, -7, -4, -2]) := by
  decide +kernel

/-- `wh_chain_weights_carry_table_labels` instantiated on the 3-part real →
    binary chain split after its first part -/
example :
    ∃ s s₁, whChainRun .r2b (0 : ℤ) 1 1 3 (some exCT) none none (exR2B.take 1) = .ok s₁ ∧
      whChainRun .r2b (0 : ℤ) 1 1 3 (some exCT) none s₁ (exR2B.drop 1) = .ok s ∧
      (∀ w, s₁ = some w → RealLabelsMatch .r2b (some exCT) none w) ∧
      (∀ w, s = some w → RealLabelsMatch .r2b (some exCT) none w) := by
  obtain ⟨s, hs, _⟩ := wh_chain_any_length .r2b 0 1 1 3 (some exCT) none exR2B
    [⟨["a", "b"], ["x"]⟩, ⟨["c", "a"], ["x", "y"]⟩, ⟨["b"], ["z"]⟩, ⟨["b", "b"], ["y"]⟩] (by decide +kernel)
    (by decide) (by decide +kernel)
  obtain ⟨s₁, a, b, c, d⟩ := wh_chain_weights_carry_table_labels .r2b 0 1 1 3 (some exCT) none
    (exR2B.take 1) (exR2B.drop 1) s (by rw [List.take_append_drop]; exact hs)
  exact ⟨s, s₁, a, b, c, d⟩

/-! ## numpy and pure Python: `wh.wh(method='numpy')` and `dict_wh` -/

/-- (definitional: a case analysis that restates the `match` of
    `singleEvent`; not a property theorem — it says what the MODEL of the two
    loops checks, and the model's order of checks is tied to the code by the
    differential streams `py_errors` / `numpy_given_weights`)
    what both loops do with one event before learning from it, in the order
    of the code: `ValueError` when the duplicate policy rejects it; then
    `AssertionError` when it does not have exactly one outcome; then
    `AssertionError` when it does not have exactly one cue; otherwise the single
    cue and outcome are learned. -/
theorem single_event_checks (p : DupPolicy) (e : Event String String) :
    (applyPolicy p e = none → singleEvent p e = .error (.std .value)) ∧
    (∀ e', applyPolicy p e = some e' → e'.outcomes.length ≠ 1 → singleEvent p e = .error .assertion) ∧
    (∀ e', applyPolicy p e = some e' → e'.outcomes.length = 1 → e'.cues.length ≠ 1 →
      singleEvent p e = .error .assertion) ∧
    (∀ e', applyPolicy p e = some e' → IsSingle e' →
      ∃ c o, e' = ⟨[c], [o]⟩ ∧ singleEvent p e = .ok (c, o)) :=
  singleEvent_cases p e

/-- **`dict_wh` from `weights=None` = the Widrow–Hoff specification.**  For every
    duplicate policy, eta, pair of tables with distinct dimension labels
    (`hnc`, `hno`: they become dict keys) and any row order, every event list
    whose names have rows in the tables (`htabc`, `htabo`; else `KeyError`,
    `dict_wh_raises`), that the policy accepts (`hp`; else `ValueError`) and
    whose policy-processed events have exactly one cue and one outcome (`hs`;
    else `AssertionError`): the call succeeds and the returned dict, read at
    EVERY pair of keys, holds `whR2RSpec` at the positions of the two labels —
    and nothing (0) at any other key. -/
theorem dict_wh_eq_spec (p : DupPolicy) (eta : R) (ct ot : VecTable R)
    (hndc : ct.names.Nodup) (hndo : ot.names.Nodup)
    (hnc : ct.dims.Nodup) (hno : ot.dims.Nodup)
    (es es' : List (Event String String))
    (htabc : ∀ e ∈ es, ∀ c ∈ e.cues, c ∈ ct.names)
    (htabo : ∀ e ∈ es, ∀ o ∈ e.outcomes, o ∈ ot.names)
    (hp : applyPolicyAll p es = some es') (hs : ∀ e ∈ es', IsSingle e) :
    ∃ D, dictWhModel p eta ct ot [] es = .ok D ∧
      ∀ dlo dlc, wdAbs D dlo dlc = if dlo ∈ ot.dims ∧ dlc ∈ ct.dims
        then whR2RSpec eta ct ot es' (ot.dims.idxOf dlo) (ct.dims.idxOf dlc) else 0 :=
  dictWhModel_get p eta ct ot hnc hno es es' htabc htabo hp hs

/-- **`dict_wh(weights=W0)` = the specification continued from `W0`**
    (`whR2RSpecFrom`, started from `W0` read at the tables' labels); entries of
    `W0` under other keys are kept as they are. -/
theorem dict_wh_continue (p : DupPolicy) (eta : R) (ct ot : VecTable R)
    (hndc : ct.names.Nodup) (hndo : ot.names.Nodup)
    (hnc : ct.dims.Nodup) (hno : ot.dims.Nodup)
    (W0 : WDict String String R) (es es' : List (Event String String))
    (htabc : ∀ e ∈ es, ∀ c ∈ e.cues, c ∈ ct.names)
    (htabo : ∀ e ∈ es, ∀ o ∈ e.outcomes, o ∈ ot.names)
    (hp : applyPolicyAll p es = some es') (hs : ∀ e ∈ es', IsSingle e) :
    ∃ D, dictWhModel p eta ct ot W0 es = .ok D ∧
      ∀ dlo dlc, wdAbs D dlo dlc = if dlo ∈ ot.dims ∧ dlc ∈ ct.dims
        then whR2RSpecFrom eta ct ot (wdAtLabels W0 ot.dims ct.dims) es'
          (ot.dims.idxOf dlo) (ct.dims.idxOf dlc)
        else wdAbs W0 dlo dlc :=
  dictWhModel_continue_get p eta ct ot hnc hno W0 es es' htabc htabo hp hs

/-- (definitional: `dictWhModel` IS a left fold over the events
    (`dictWhLoop`), so this is the append law of a fold, `dictWhLoop_append`;
    not a property theorem.  That the real `dict_wh` continues from the given
    `WeightDict` exactly like the fold is decided by the differential run.)
    two `dict_wh` calls = one (no hypothesis at all): the second call,
    given the first one's `WeightDict`, returns — or raises — exactly what one
    call over the concatenated events does. -/
theorem dict_wh_two_calls (p : DupPolicy) (eta : R) (ct ot : VecTable R)
    (W0 D1 : WDict String String R) (xs ys : List (Event String String))
    (h1 : dictWhModel p eta ct ot W0 xs = .ok D1) :
    dictWhModel p eta ct ot D1 ys = dictWhModel p eta ct ot W0 (xs ++ ys) :=
  dictWhModel_two_calls p eta ct ot W0 D1 xs ys h1

/-- **the error branches of `dict_wh`**: after accepted events `xs`, the FIRST
    offending event decides, whatever follows — the policy's `ValueError` or an
    `AssertionError` (`single_event_checks`), a `KeyError` for a cue without a
    row in `cue_vectors` (looked up first), a `KeyError` for an outcome without
    a row in `outcome_vectors`. -/
theorem dict_wh_raises (p : DupPolicy) (eta : R) (ct ot : VecTable R)
    (W : WDict String String R) (xs : List (Event String String)) (bad : Event String String)
    (ys : List (Event String String)) (D : WDict String String R)
    (hxs : dictWhModel p eta ct ot W xs = .ok D) :
    (∀ x, singleEvent p bad = .error x → dictWhModel p eta ct ot W (xs ++ bad :: ys) = .error x) ∧
    (∀ c o, singleEvent p bad = .ok (c, o) → c ∉ ct.names →
      dictWhModel p eta ct ot W (xs ++ bad :: ys) = .error (.std .key)) ∧
    (∀ c o, singleEvent p bad = .ok (c, o) → o ∉ ot.names →
      dictWhModel p eta ct ot W (xs ++ bad :: ys) = .error (.std .key)) :=
  dictWhLoop_error p eta ct ot W xs bad ys D hxs

/-- **`wh.wh(method='numpy')` from `weights=None` = the Widrow–Hoff
    specification**: hypotheses as for `dict_wh_eq_spec` without the ones on the
    dimension labels; the result is labelled with the tables' dimensions and row
    `d` is `whR2RSpec … d`. -/
theorem wh_numpy_eq_spec (p : DupPolicy) (eta : R) (ct ot : VecTable R)
    (hndc : ct.names.Nodup) (hndo : ot.names.Nodup)
    (es es' : List (Event String String))
    (htabc : ∀ e ∈ es, ∀ c ∈ e.cues, c ∈ ct.names)
    (htabo : ∀ e ∈ es, ∀ o ∈ e.outcomes, o ∈ ot.names)
    (hp : applyPolicyAll p es = some es') (hs : ∀ e ∈ es', IsSingle e) :
    ∃ r, whNumpyModel p eta ct ot none es = .ok r ∧
      r.outcomes = ot.dims ∧ r.cues = ct.dims ∧
      r.vals.size = r.outcomes.length * r.cues.length ∧
      ∀ d, d < ot.dims.length → r.byPos d = whR2RSpec eta ct ot es' d :=
  whNumpyModel_eq_spec p eta ct ot es es' htabc htabo hp hs

/-- **`wh.wh(method='numpy', weights=w)`**, `w` labelled with a permutation of
    the tables' (distinct) dimension labels: the specification continued from
    `w` read at the labels (hypotheses and conclusion of `wh_r2r_continue`). -/
theorem wh_numpy_continue (p : DupPolicy) (eta : R) (ct ot : VecTable R)
    (hndc : ct.names.Nodup) (hndo : ot.names.Nodup)
    (w : LW R) (es es' : List (Event String String))
    (htabc : ∀ e ∈ es, ∀ c ∈ e.cues, c ∈ ct.names)
    (htabo : ∀ e ∈ es, ∀ o ∈ e.outcomes, o ∈ ot.names)
    (hp : applyPolicyAll p es = some es') (hs : ∀ e ∈ es', IsSingle e)
    (hpo : w.outcomes.Perm ot.dims) (hpc : w.cues.Perm ct.dims)
    (hno : ot.dims.Nodup) (hnc : ct.dims.Nodup) :
    ∃ r, whNumpyModel p eta ct ot (some w) es = .ok r ∧
      r.outcomes = ot.dims ∧ r.cues = ct.dims ∧
      r.vals.size = r.outcomes.length * r.cues.length ∧
      ∀ d, d < ot.dims.length →
        r.byPos d = whR2RSpecFrom eta ct ot (w.atLabels ot.dims ct.dims) es' d :=
  whNumpyModel_continue_perm p eta ct ot w es es' htabc htabo hp hs hpo hpc hno hnc

/-- **two numpy calls = one pass**: the second call continuing from the first
    one's DataArray (policies may differ) ends with `whR2RSpec` over the
    concatenated policy-processed events. -/
theorem wh_numpy_two_calls (p₁ p₂ : DupPolicy) (eta : R) (ct ot : VecTable R)
    (hndc : ct.names.Nodup) (hndo : ot.names.Nodup)
    (hno : ot.dims.Nodup) (hnc : ct.dims.Nodup)
    (xs xs' ys ys' : List (Event String String))
    (htabc : ∀ e ∈ xs ++ ys, ∀ c ∈ e.cues, c ∈ ct.names)
    (htabo : ∀ e ∈ xs ++ ys, ∀ o ∈ e.outcomes, o ∈ ot.names)
    (hpx : applyPolicyAll p₁ xs = some xs') (hsx : ∀ e ∈ xs', IsSingle e)
    (hpy : applyPolicyAll p₂ ys = some ys') (hsy : ∀ e ∈ ys', IsSingle e) :
    ∃ r₁ r₂, whNumpyModel p₁ eta ct ot none xs = .ok r₁ ∧
      whNumpyModel p₂ eta ct ot (some r₁) ys = .ok r₂ ∧
      r₂.outcomes = ot.dims ∧ r₂.cues = ct.dims ∧
      ∀ d, d < ot.dims.length → r₂.byPos d = whR2RSpec eta ct ot (xs' ++ ys') d :=
  whNumpyModel_two_calls p₁ p₂ eta ct ot hno hnc xs xs' ys ys' htabc htabo hpx hsx hpy hsy

/-- the numpy branch checks the names of the WHOLE file against the tables
    before anything else: a name without a vector ⇒ `ValueError`, whatever the
    weights, the policy and the shape of the events -/
theorem wh_numpy_table_check (p : DupPolicy) (eta : R) (ct ot : VecTable R)
    (W0 : Option (LW R)) (es : List (Event String String))
    (hbad : (∃ e ∈ es, ∃ c ∈ e.cues, c ∉ ct.names) ∨ (∃ e ∈ es, ∃ o ∈ e.outcomes, o ∉ ot.names)) :
    whNumpyModel p eta ct ot W0 es = .error (.std .value) :=
  whNumpyModel_tableError p eta ct ot W0 es hbad

/-- tables fine, `weights=None`: after accepted single events `xs` the first
    event the loop rejects (`single_event_checks`) decides -/
theorem wh_numpy_event_error (p : DupPolicy) (eta : R) (ct ot : VecTable R)
    (xs : List (Event String String)) (bad : Event String String) (ys : List (Event String String))
    (xs' : List (Event String String)) (x : PyErr)
    (htabc : ∀ e ∈ xs ++ bad :: ys, ∀ c ∈ e.cues, c ∈ ct.names)
    (htabo : ∀ e ∈ xs ++ bad :: ys, ∀ o ∈ e.outcomes, o ∈ ot.names)
    (hp : applyPolicyAll p xs = some xs') (hs : ∀ e ∈ xs', IsSingle e)
    (hbad : singleEvent p bad = .error x) :
    whNumpyModel p eta ct ot none (xs ++ bad :: ys) = .error x :=
  whNumpyModel_eventError p eta ct ot xs bad ys xs' x htabc htabo hp hs hbad

/-- **numpy = OpenMP** (from `weights=None`): THE SAME labelled matrix, for
    every `n_outcomes_per_job ≥ 1` (compose with `wh_r2r_end_to_end`). -/
theorem wh_numpy_eq_openmp (p : DupPolicy) (eta β₁ β₂ lam : R) (ct ot : VecTable R)
    (hndc : ct.names.Nodup) (hndo : ot.names.Nodup)
    (chunk : Nat) (hc : 1 ≤ chunk) (es es' : List (Event String String))
    (htabc : ∀ e ∈ es, ∀ c ∈ e.cues, c ∈ ct.names)
    (htabo : ∀ e ∈ es, ∀ o ∈ e.outcomes, o ∈ ot.names)
    (hp : applyPolicyAll p es = some es') (hs : ∀ e ∈ es', IsSingle e) :
    ∃ r, whNumpyModel p eta ct ot none es = .ok r ∧
      whModel .r2r p eta β₁ β₂ lam (some ct) (some ot) chunk none es = .ok r :=
  whNumpyModel_eq_whModel p eta β₁ β₂ lam ct ot chunk hc es es' htabc htabo hp hs

/-- **numpy = OpenMP, continued from given weights** (labels a permutation of
    the tables' distinct dimension labels) -/
theorem wh_numpy_eq_openmp_continue (p : DupPolicy) (eta β₁ β₂ lam : R) (ct ot : VecTable R)
    (hndc : ct.names.Nodup) (hndo : ot.names.Nodup)
    (chunk : Nat) (hc : 1 ≤ chunk) (w : LW R) (es es' : List (Event String String))
    (htabc : ∀ e ∈ es, ∀ c ∈ e.cues, c ∈ ct.names)
    (htabo : ∀ e ∈ es, ∀ o ∈ e.outcomes, o ∈ ot.names)
    (hp : applyPolicyAll p es = some es') (hs : ∀ e ∈ es', IsSingle e)
    (hpo : w.outcomes.Perm ot.dims) (hpc : w.cues.Perm ct.dims)
    (hno : ot.dims.Nodup) (hnc : ct.dims.Nodup) :
    ∃ r, whNumpyModel p eta ct ot (some w) es = .ok r ∧
      whModel .r2r p eta β₁ β₂ lam (some ct) (some ot) chunk (some w) es = .ok r :=
  whNumpyModel_eq_whModel_continue p eta β₁ β₂ lam ct ot chunk hc w es es' htabc htabo hp hs hpo hpc hno hnc

/-- **`dict_wh` = OpenMP** (from `weights=None`), read through the labels at
    EVERY pair of keys, also after `make_data_array=True` -/
theorem dict_wh_eq_openmp (p : DupPolicy) (eta β₁ β₂ lam : R) (ct ot : VecTable R)
    (hndc : ct.names.Nodup) (hndo : ot.names.Nodup)
    (hnc : ct.dims.Nodup) (hno : ot.dims.Nodup)
    (chunk : Nat) (hc : 1 ≤ chunk) (es es' : List (Event String String))
    (htabc : ∀ e ∈ es, ∀ c ∈ e.cues, c ∈ ct.names)
    (htabo : ∀ e ∈ es, ∀ o ∈ e.outcomes, o ∈ ot.names)
    (hp : applyPolicyAll p es = some es') (hs : ∀ e ∈ es', IsSingle e) :
    ∃ D r, dictWhModel p eta ct ot [] es = .ok D ∧
      dictWhModelArray p eta ct ot [] es = .ok (lwFromDict D) ∧
      whModel .r2r p eta β₁ β₂ lam (some ct) (some ot) chunk none es = .ok r ∧
      (∀ dlo dlc, wdAbs D dlo dlc = r.get dlo dlc) ∧
      (∀ dlo dlc, (lwFromDict D).get dlo dlc = r.get dlo dlc) :=
  dictWhModel_eq_whModel p eta β₁ β₂ lam ct ot hnc hno chunk hc es es' htabc htabo hp hs

/-- **"for the OpenMP, numpy and pure-Python implementations alike"**: on event
    lists whose events have exactly one cue and one outcome after the duplicate
    policy (the only ones numpy and `dict_wh` accept), the three models succeed
    together; numpy returns the OpenMP matrix itself, `dict_wh` a dict that reads
    as that matrix at every pair of labels; and that matrix is `whR2RSpec`. -/
theorem wh_implementations_alike (p : DupPolicy) (eta β₁ β₂ lam : R) (ct ot : VecTable R)
    (hndc : ct.names.Nodup) (hndo : ot.names.Nodup)
    (hnc : ct.dims.Nodup) (hno : ot.dims.Nodup)
    (chunk : Nat) (hc : 1 ≤ chunk) (es es' : List (Event String String))
    (htabc : ∀ e ∈ es, ∀ c ∈ e.cues, c ∈ ct.names)
    (htabo : ∀ e ∈ es, ∀ o ∈ e.outcomes, o ∈ ot.names)
    (hp : applyPolicyAll p es = some es') (hs : ∀ e ∈ es', IsSingle e) :
    ∃ r D, whModel .r2r p eta β₁ β₂ lam (some ct) (some ot) chunk none es = .ok r ∧
      whNumpyModel p eta ct ot none es = .ok r ∧
      dictWhModel p eta ct ot [] es = .ok D ∧
      (∀ dlo dlc, wdAbs D dlo dlc = r.get dlo dlc) ∧
      r.outcomes = ot.dims ∧ r.cues = ct.dims ∧
      ∀ d, d < ot.dims.length → r.byPos d = whR2RSpec eta ct ot es' d := by
  obtain ⟨r, h1, h2⟩ := wh_numpy_eq_openmp p eta β₁ β₂ lam ct ot hndc hndo chunk hc es es' htabc htabo hp hs
  obtain ⟨D, r', g1, _, g3, g4, _⟩ :=
    dict_wh_eq_openmp p eta β₁ β₂ lam ct ot hndc hndo hnc hno chunk hc es es' htabc htabo hp hs
  obtain ⟨r'', k1, k2, k3, _, k5⟩ := wh_numpy_eq_spec p eta ct ot hndc hndo es es' htabc htabo hp hs
  have e1 : r' = r := by rw [h2] at g3; exact (Except.ok.inj g3).symm
  have e2 : r'' = r := by rw [h1] at k1; exact (Except.ok.inj k1).symm
  rw [e1] at g4
  rw [e2] at k2 k3 k5
  exact ⟨r, D, h2, h1, g1, g4, k2, k3, k5⟩

/-! ### non-vacuity of the numpy / pure-Python theorems (ℤ, the tables above) -/

/-- three events; the second one only becomes single through `remove_duplicates=True` -/
def exSingles : List (Event String String) := [⟨["a"], ["x"]⟩, ⟨["b", "b"], ["y", "y"]⟩, ⟨["c"], ["x"]⟩]
def exSingles' : List (Event String String) := [⟨["a"], ["x"]⟩, ⟨["b"], ["y"]⟩, ⟨["c"], ["x"]⟩]

/-- (definitional: non-vacuity facts, not a property theorem) the hypotheses shared by the
    theorems of this section hold for the example -/
theorem exSingles_hyps :
    exCT.names.Nodup ∧ exOT.names.Nodup ∧ exCT.dims.Nodup ∧ exOT.dims.Nodup ∧
    (∀ e ∈ exSingles, ∀ c ∈ e.cues, c ∈ exCT.names) ∧ (∀ e ∈ exSingles, ∀ o ∈ e.outcomes, o ∈ exOT.names) ∧
    applyPolicyAll .dedup exSingles = some exSingles' ∧ (∀ e ∈ exSingles', IsSingle e) := by
  refine ⟨by decide, by decide, by decide, by decide, by decide +kernel, by decide +kernel,
    by decide +kernel, by decide +kernel⟩

/-- `wh_implementations_alike` with EVERY hypothesis instantiated (η = 1, three
    outcome dimensions per job) -/
example :
    ∃ r D, whModel .r2r .dedup (1 : ℤ) 0 0 0 (some exCT) (some exOT) 3 none exSingles = .ok r ∧
      whNumpyModel .dedup (1 : ℤ) exCT exOT none exSingles = .ok r ∧
      dictWhModel .dedup (1 : ℤ) exCT exOT [] exSingles = .ok D ∧
      (∀ dlo dlc, wdAbs D dlo dlc = r.get dlo dlc) ∧
      r.outcomes = exOT.dims ∧ r.cues = exCT.dims ∧
      ∀ d, d < exOT.dims.length → r.byPos d = whR2RSpec 1 exCT exOT exSingles' d :=
  wh_implementations_alike .dedup 1 0 0 0 exCT exOT exSingles_hyps.1 exSingles_hyps.2.1
    exSingles_hyps.2.2.1 exSingles_hyps.2.2.2.1 3 (by decide) exSingles exSingles'
    exSingles_hyps.2.2.2.2.1 exSingles_hyps.2.2.2.2.2.1 exSingles_hyps.2.2.2.2.2.2.1
    exSingles_hyps.2.2.2.2.2.2.2

def showPy : Except PyErr (LW ℤ) → Option (List String × List String × Array ℤ)
  | .ok w => some (w.outcomes, w.cues, w.vals)
  | .error _ => none

def showPyErr : Except PyErr (LW ℤ) → Option PyErr
  | .ok _ => none
  | .error x => some x

/-- the three models run (kernel-evaluated) and give the same non-trivial
    numbers: a → x: W = [[1,0],[2,0]]; b → y: pred = (1,2), err = (−1,1):
    W = [[0,−1],[3,1]]; c → x: pred = (−2,2), err = (3,0): W = [[0,5],[3,1]];
    `dict_wh` creates the rows `d0`, `d1` with the keys `k0`, `k1` -/
example :
    showCall (whModel .r2r .dedup (1 : ℤ) 0 0 0 (some exCT) (some exOT) 3 none exSingles)
      = some (["d0", "d1"], ["k0", "k1"], #[0, 5, 3, 1]) ∧
    showPy (whNumpyModel .dedup (1 : ℤ) exCT exOT none exSingles)
      = some (["d0", "d1"], ["k0", "k1"], #[0, 5, 3, 1]) ∧
    dictWhModel .dedup (1 : ℤ) exCT exOT [] exSingles
      = .ok [("d0", [("k0", 0), ("k1", 5)]), ("d1", [("k0", 3), ("k1", 1)])] ∧
    showPy (dictWhModelArray .dedup (1 : ℤ) exCT exOT [] exSingles)
      = some (["d0", "d1"], ["k0", "k1"], #[0, 5, 3, 1]) := by
  refine ⟨by decide +kernel, by decide +kernel, by decide +kernel, by decide +kernel⟩

/-- the error branches, as observed on the real code: a repeated cue under
    `None` ⇒ `ValueError`, under `False` ⇒ `AssertionError` (two cues); no outcome /
    two outcomes ⇒ `AssertionError` (checked before the cues and before the
    look-ups); an unknown cue ⇒ `KeyError` in `dict_wh` at that event but
    `ValueError` in the numpy branch, even when an EARLIER event would fail its
    assertion; `dict_wh` on zero events returns the empty dict, numpy the zero matrix -/
example :
    dictWhModel .error (1 : ℤ) exCT exOT [] [⟨["a", "a"], ["x"]⟩] = .error (.std .value) ∧
    dictWhModel .keep (1 : ℤ) exCT exOT [] [⟨["a", "a"], ["x"]⟩] = .error .assertion ∧
    dictWhModel .keep (1 : ℤ) exCT exOT [] [⟨["a", "q"], []⟩] = .error .assertion ∧
    dictWhModel .keep (1 : ℤ) exCT exOT [] [⟨["a"], ["x"]⟩, ⟨["q"], ["q2"]⟩] = .error (.std .key) ∧
    dictWhModel .keep (1 : ℤ) exCT exOT [] [⟨["a"], ["q2"]⟩] = .error (.std .key) ∧
    dictWhModel .keep (1 : ℤ) exCT exOT [] [] = .ok [] ∧
    showPy (whNumpyModel .keep (1 : ℤ) exCT exOT none [⟨["a", "b"], ["x"]⟩, ⟨["q"], ["x"]⟩]) = none ∧
    showPyErr (whNumpyModel .keep (1 : ℤ) exCT exOT none [⟨["a", "b"], ["x"]⟩, ⟨["q"], ["x"]⟩])
      = some (.std .value) ∧
    showPyErr (whNumpyModel .keep (1 : ℤ) exCT exOT none [⟨["a", "b"], ["x"]⟩, ⟨["a", "a"], ["x"]⟩])
      = some .assertion ∧
    showPyErr (whNumpyModel .error (1 : ℤ) exCT exOT none [⟨["a"], ["x"]⟩, ⟨["a", "a"], ["x"]⟩])
      = some (.std .value) ∧
    showPy (whNumpyModel .keep (1 : ℤ) exCT exOT none []) = some (["d0", "d1"], ["k0", "k1"], #[0, 0, 0, 0]) := by
  refine ⟨by decide +kernel, by decide +kernel, by decide +kernel, by decide +kernel, by decide +kernel,
    by decide +kernel, by decide +kernel, by decide +kernel, by decide +kernel, by decide +kernel,
    by decide +kernel⟩

/-- `wh_numpy_continue` instantiated on given weights with PERMUTED labels (the
    input of the example for `wh_r2r_continue` above), and the numbers: the
    re-aligned start `[[4,3],[2,1]]`, one step with `x = a = (1, 0)`,
    `t = x = (1, 2)`: row 0: `u = 1 − 4 = −3` ⇒ `(1, 3)`; row 1: `u = 2 − 2 = 0` -/
example :
    (∃ r, whNumpyModel .dedup (1 : ℤ) exCT exOT (some ⟨["d1", "d0"], ["k1", "k0"], #[1, 2, 3, 4]⟩)
        [⟨["a", "a"], ["x"]⟩] = .ok r ∧
      r.outcomes = exOT.dims ∧ r.cues = exCT.dims ∧
      r.vals.size = r.outcomes.length * r.cues.length ∧
      ∀ d, d < exOT.dims.length →
        r.byPos d = whR2RSpecFrom 1 exCT exOT
          ((⟨["d1", "d0"], ["k1", "k0"], #[1, 2, 3, 4]⟩ : LW ℤ).atLabels exOT.dims exCT.dims)
          [⟨["a"], ["x"]⟩] d) ∧
    showPy (whNumpyModel .dedup (1 : ℤ) exCT exOT (some ⟨["d1", "d0"], ["k1", "k0"], #[1, 2, 3, 4]⟩)
        [⟨["a", "a"], ["x"]⟩]) = some (["d0", "d1"], ["k0", "k1"], #[1, 3, 2, 1]) :=
  ⟨wh_numpy_continue .dedup 1 exCT exOT (by decide) (by decide) _ _ _
    (by decide +kernel) (by decide +kernel) (by decide +kernel) (by decide +kernel)
    (by decide) (by decide) (by decide) (by decide), by decide +kernel⟩

/-- `dict_wh_continue` and `dict_wh_two_calls` instantiated: continuing from the
    dict of the first event (with a foreign entry `zz`, which is kept) -/
example :
    (∃ D, dictWhModel .dedup (1 : ℤ) exCT exOT [("d0", [("k0", 1), ("zz", 7)]), ("d1", [("k0", 2)])]
        (exSingles.drop 1) = .ok D ∧
      ∀ dlo dlc, wdAbs D dlo dlc = if dlo ∈ exOT.dims ∧ dlc ∈ exCT.dims
        then whR2RSpecFrom 1 exCT exOT
          (wdAtLabels [("d0", [("k0", 1), ("zz", 7)]), ("d1", [("k0", 2)])] exOT.dims exCT.dims)
          (exSingles'.drop 1) (exOT.dims.idxOf dlo) (exCT.dims.idxOf dlc)
        else wdAbs [("d0", [("k0", (1 : ℤ)), ("zz", 7)]), ("d1", [("k0", 2)])] dlo dlc) ∧
    dictWhModel .dedup (1 : ℤ) exCT exOT [("d0", [("k0", 1), ("zz", 7)]), ("d1", [("k0", 2)])] (exSingles.drop 1)
      = .ok [("d0", [("k0", 0), ("zz", 7), ("k1", 5)]), ("d1", [("k0", 3), ("k1", 1)])] ∧
    dictWhModel .dedup (1 : ℤ) exCT exOT [("d0", [("k0", 1), ("k1", 0)]), ("d1", [("k0", 2), ("k1", 0)])]
        (exSingles.drop 1)
      = dictWhModel .dedup (1 : ℤ) exCT exOT [] (exSingles.take 1 ++ exSingles.drop 1) :=
  ⟨dict_wh_continue .dedup 1 exCT exOT (by decide) (by decide) (by decide) (by decide) _ _ _
    (by decide +kernel) (by decide +kernel) (by decide +kernel) (by decide +kernel),
   by decide +kernel,
   dict_wh_two_calls .dedup 1 exCT exOT [] _ (exSingles.take 1) (exSingles.drop 1) (by decide +kernel)⟩

/-- `wh_numpy_two_calls` APPLIED, every hypothesis instantiated: `exSingles`
    split 1 + 2, first call `remove_duplicates=False`, second `True` -/
example :
    ∃ r₁ r₂, whNumpyModel .keep (1 : ℤ) exCT exOT none (exSingles.take 1) = .ok r₁ ∧
      whNumpyModel .dedup (1 : ℤ) exCT exOT (some r₁) (exSingles.drop 1) = .ok r₂ ∧
      r₂.outcomes = exOT.dims ∧ r₂.cues = exCT.dims ∧
      ∀ d, d < exOT.dims.length →
        r₂.byPos d = whR2RSpec 1 exCT exOT (exSingles'.take 1 ++ exSingles'.drop 1) d :=
  wh_numpy_two_calls .keep .dedup 1 exCT exOT (by decide) (by decide) (by decide) (by decide)
    (exSingles.take 1) (exSingles'.take 1) (exSingles.drop 1) (exSingles'.drop 1)
    (by decide +kernel) (by decide +kernel) (by decide +kernel) (by decide +kernel)
    (by decide +kernel) (by decide +kernel)

/-- `wh_numpy_event_error` APPLIED: one accepted event, then an event with two
    cues (`AssertionError`), then anything -/
example : whNumpyModel .keep (1 : ℤ) exCT exOT none ([⟨["a"], ["x"]⟩] ++ ⟨["a", "b"], ["x"]⟩ :: [⟨["c"], ["y"]⟩])
    = .error .assertion :=
  wh_numpy_event_error .keep 1 exCT exOT [⟨["a"], ["x"]⟩] ⟨["a", "b"], ["x"]⟩ [⟨["c"], ["y"]⟩]
    [⟨["a"], ["x"]⟩] .assertion (by decide +kernel) (by decide +kernel) (by decide +kernel)
    (by decide +kernel) (by decide +kernel)

/-- `wh_numpy_table_check` APPLIED: the unknown cue `q` of the SECOND event wins
    over the assertion the first event would fail -/
example : whNumpyModel .keep (1 : ℤ) exCT exOT none [⟨["a", "b"], ["x"]⟩, ⟨["q"], ["x"]⟩] = .error (.std .value) :=
  wh_numpy_table_check .keep 1 exCT exOT none _ (Or.inl ⟨⟨["q"], ["x"]⟩, by simp, "q", by simp, by decide⟩)

/-- `dict_wh_raises` APPLIED (all three clauses): after the accepted event
    `a → x`, a repeated cue under `None` (`ValueError`), an unknown cue and an
    unknown outcome (`KeyError`) -/
example :
    dictWhModel .error (1 : ℤ) exCT exOT [] ([⟨["a"], ["x"]⟩] ++ ⟨["b", "b"], ["x"]⟩ :: [⟨["c"], ["y"]⟩])
      = .error (.std .value) ∧
    dictWhModel .error (1 : ℤ) exCT exOT [] ([⟨["a"], ["x"]⟩] ++ ⟨["q"], ["q2"]⟩ :: []) = .error (.std .key) ∧
    dictWhModel .error (1 : ℤ) exCT exOT [] ([⟨["a"], ["x"]⟩] ++ ⟨["b"], ["q2"]⟩ :: []) = .error (.std .key) :=
  ⟨(dict_wh_raises .error 1 exCT exOT [] [⟨["a"], ["x"]⟩] ⟨["b", "b"], ["x"]⟩ [⟨["c"], ["y"]⟩]
      [("d0", [("k0", 1), ("k1", 0)]), ("d1", [("k0", 2), ("k1", 0)])] (by decide +kernel)).1 _ (by decide +kernel),
   (dict_wh_raises .error 1 exCT exOT [] [⟨["a"], ["x"]⟩] ⟨["q"], ["q2"]⟩ []
      [("d0", [("k0", 1), ("k1", 0)]), ("d1", [("k0", 2), ("k1", 0)])] (by decide +kernel)).2.1 "q" "q2"
      (by decide +kernel) (by decide +kernel),
   (dict_wh_raises .error 1 exCT exOT [] [⟨["a"], ["x"]⟩] ⟨["b"], ["q2"]⟩ []
      [("d0", [("k0", 1), ("k1", 0)]), ("d1", [("k0", 2), ("k1", 0)])] (by decide +kernel)).2.2 "b" "q2"
      (by decide +kernel) (by decide +kernel)⟩

/-- `wh_numpy_eq_openmp_continue` APPLIED: given weights with labels permuted on
    both axes, the three example events, `remove_duplicates=True` -/
example :
    ∃ r, whNumpyModel .dedup (1 : ℤ) exCT exOT (some ⟨["d1", "d0"], ["k1", "k0"], #[1, 2, 3, 4]⟩) exSingles = .ok r ∧
      whModel .r2r .dedup (1 : ℤ) 0 0 0 (some exCT) (some exOT) 1
        (some ⟨["d1", "d0"], ["k1", "k0"], #[1, 2, 3, 4]⟩) exSingles = .ok r :=
  wh_numpy_eq_openmp_continue .dedup 1 0 0 0 exCT exOT (by decide) (by decide) 1 (by decide)
    ⟨["d1", "d0"], ["k1", "k0"], #[1, 2, 3, 4]⟩ exSingles exSingles'
    (by decide +kernel) (by decide +kernel) (by decide +kernel) (by decide +kernel)
    (by decide) (by decide) (by decide) (by decide)

end Pyndl.C08
