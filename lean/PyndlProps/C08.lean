/-
  C08 — Widrow–Hoff learners follow the delta rule in all vector flavours.
-/
import PyndlProofs.WH
import PyndlProofs.WHSpec

namespace Pyndl.C08
open Pyndl List

variable {R : Type} [CommRing R]

/-- the delta rule on one weight row: `W[d,:] += η (t_d − W[d,:]·x) x` -/
theorem delta_rule_row (n : Nat) (x : Nat → R) (eta t : R) (w : Nat → R) (k : Nat) (hk : k < n) :
    whRowReal n x (fun a => eta * (t - a)) w k
      = w k + eta * (t - ((List.range n).map (fun j => x j * w j)).sum) * x k := by
  simp [whRowReal, hk]

/-- **real→real kernel = delta rule** with `x = Σ cue vectors`, `t = Σ outcome
    vectors` (repeated cues/outcomes summed repeatedly), on its own row, and it
    touches no other row -/
theorem whR2R_eq_spec (eta : R) (cueVecs outVecs : Array R) (nCueDims nOutDims : Nat) :
    RowStep nCueDims nOutDims (fun _ => True)
      (fun w d e => whR2RRowEvent eta cueVecs outVecs nCueDims nOutDims w d e.cues e.outcomes)
      (fun d r e => whRowReal nCueDims (fun k => summedCue cueVecs nCueDims k e.cues)
        (fun a => eta * (summedOut outVecs nOutDims d e.outcomes - a)) r) :=
  whR2R_rowstep eta cueVecs outVecs nCueDims nOutDims

/-- **binary→real kernel = delta rule** with `x` = cue indicator with multiplicity -/
theorem whB2R_eq_spec (eta : R) (outVecs : Array R) (nOutDims nCues : Nat) :
    RowStep nCues nOutDims (fun e => ∀ c ∈ e.cues, c < nCues)
      (fun w d e => whB2RRowEvent eta outVecs nOutDims nCues w d e.cues e.outcomes)
      (fun d r e => whRowBin (fun a => eta * (summedOut outVecs nOutDims d e.outcomes - a)) r e.cues) :=
  whB2R_rowstep eta outVecs nOutDims nCues

/-- **real→binary kernel = delta rule** with `t = λ·[o ∈ outcomes]` and β₁/β₂ -/
theorem whR2B_eq_spec (β₁ β₂ lam : R) (cueVecs : Array R) (nCueDims nOut : Nat) :
    RowStep nCueDims nOut (fun _ => True)
      (fun w ii e => whR2BRowEvent β₁ β₂ lam cueVecs nCueDims w ii e.cues e.outcomes)
      (fun ii r e => whRowReal nCueDims (fun k => summedCue cueVecs nCueDims k e.cues)
        (fun a => if ii ∈ e.outcomes then β₁ * (lam - a) else β₂ * (0 - a)) r) :=
  whR2B_rowstep β₁ β₂ lam cueVecs nCueDims nOut

/-- the binary-cue input vector IS the indicator with multiplicity: the two row
    functions coincide -/
theorem binary_is_indicator (n : Nat) (cs : List Nat) (hcs : ∀ c ∈ cs, c < n) (uOf : R → R) (w : Nat → R)
    (k : Nat) (hk : k < n) :
    whRowReal n (fun k => (cs.count k : R)) uOf w k = whRowBin uOf w cs k :=
  whRowReal_count n cs hcs uOf w k hk

/-- **independent of thread count and chunk size**: any valid OpenMP schedule
    of any row kernel (so of each of the three flavours) yields, on every row,
    the event-by-event recursion over all events -/
theorem wh_schedule_independent {n nOut : Nat} {ok : Event Nat Nat → Prop}
    {step : Array R → Nat → Event Nat Nat → Array R}
    {f : Nat → (Nat → R) → Event Nat Nat → (Nat → R)} (h : RowStep n nOut ok step f)
    {parts : List (List Nat)} (hp : PartsOk parts) (files : List (List (Event Nat Nat)))
    (hrows : ∀ k, k < parts.length → ∀ o ∈ parts.getD k [], o < nOut)
    (hev : ∀ e ∈ files.flatten, ok e)
    (w : Array R) (hw : w.size = n * nOut) (s : List MicroStep) (hv : ValidOpenmp parts files s)
    (k : Nat) (hk : k < parts.length) (o : Nat) (ho : o ∈ parts.getD k []) :
    rowFn n (execWith step w s) o = files.flatten.foldl (f o) (rowFn n w o) :=
  rowkernel_openmp_independent h hp files hrows hev w hw s hv k hk o ho

/-- what the driver computes for an OpenMP entry point (its loop nest, any
    chunk size ≥ 1) is that recursion -/
theorem wh_driver_eq_spec {n nOut : Nat} {ok : Event Nat Nat → Prop}
    {step : Array R → Nat → Event Nat Nat → Array R}
    {f : Nat → (Nat → R) → Event Nat Nat → (Nat → R)} (h : RowStep n nOut ok step f)
    (files : List (List (Event Nat Nat))) (chunk : Nat) (hc : 1 ≤ chunk)
    (hev : ∀ e ∈ files.flatten, ok e) (w : Array R) (hw : w.size = n * nOut) (o : Nat) (ho : o < nOut) :
    rowFn n (learnOmpWith step files (List.range nOut) chunk w) o
      = files.flatten.foldl (f o) (rowFn n w o) :=
  learnOmpWith_row h files chunk hc hev w hw o ho

/-- **`wh.wh`, real cues → binary outcomes, end to end on names**: the whole model
    (`_wh_real_to_binary`: table check, cue ids = rows of the cue table, outcome
    ids = counting order, duplicate policy on ids, OpenMP entry point with any
    `n_outcomes_per_job ≥ 1`, labels) returns at every (outcome name, cue
    dimension label) the delta rule run over the policy-processed events with
    `x = Σ cue vectors (by name)`, target `λ·[o ∈ outcomes]`, rates β₁/β₂ -/
theorem wh_r2b_end_to_end (p : DupPolicy) (eta β₁ β₂ lam : R) (ct : VecTable R)
    (chunk : Nat) (hc : 1 ≤ chunk) (es es' : List (Event String String))
    (htab : ∀ e ∈ es, ∀ c ∈ e.cues, c ∈ ct.names) (hp : applyPolicyAll p es = some es') :
    ∃ w, whModel .r2b p eta β₁ β₂ lam (some ct) none chunk none es = .ok w ∧
      ∀ o d, w.get o d = if d ∈ ct.dims then whR2BSpec β₁ β₂ lam ct es' o (ct.dims.idxOf d) else 0 :=
  whModel_r2b_get p eta β₁ β₂ lam ct chunk hc es es' htab hp

/-- **`wh.wh`, real → real, end to end on names** (`_wh_real_to_real`, openmp) -/
theorem wh_r2r_end_to_end (p : DupPolicy) (eta β₁ β₂ lam : R) (ct ot : VecTable R)
    (chunk : Nat) (hc : 1 ≤ chunk) (es es' : List (Event String String))
    (htabc : ∀ e ∈ es, ∀ c ∈ e.cues, c ∈ ct.names) (htabo : ∀ e ∈ es, ∀ o ∈ e.outcomes, o ∈ ot.names)
    (hp : applyPolicyAll p es = some es') :
    ∃ w, whModel .r2r p eta β₁ β₂ lam (some ct) (some ot) chunk none es = .ok w ∧
      w.outcomes = ot.dims ∧ w.cues = ct.dims ∧ w.vals.size = ct.dims.length * ot.dims.length ∧
      ∀ d, d < ot.dims.length → ∀ k, k < ct.dims.length →
        w.vals.getD (d * ct.dims.length + k) 0 = whR2RSpec eta ct ot es' d k :=
  whModel_r2r_eq_spec_names p eta β₁ β₂ lam ct ot chunk hc es es' htabc htabo hp

/-- **`wh.wh`, binary cues → real outcomes, end to end on names** (`_wh_binary_to_real`) -/
theorem wh_b2r_end_to_end (p : DupPolicy) (eta β₁ β₂ lam : R) (ot : VecTable R)
    (chunk : Nat) (hc : 1 ≤ chunk) (es es' : List (Event String String))
    (htabo : ∀ e ∈ es, ∀ o ∈ e.outcomes, o ∈ ot.names) (hp : applyPolicyAll p es = some es') :
    ∃ w, whModel .b2r p eta β₁ β₂ lam none (some ot) chunk none es = .ok w ∧
      w.outcomes = ot.dims ∧ w.cues = (countNames es).1 ∧
      w.vals.size = (countNames es).1.length * ot.dims.length ∧
      ∀ d, d < ot.dims.length → ∀ c ∈ (countNames es).1,
        w.vals.getD (d * (countNames es).1.length + (countNames es).1.idxOf c) 0 = whB2RSpec eta ot es' d c :=
  whModel_b2r_eq_spec_names p eta β₁ β₂ lam ot chunk hc es es' htabo hp

/-- a cue without a vector ⇒ `ValueError` (the table check), whatever else -/
theorem wh_missing_vector_raises (p : DupPolicy) (eta β₁ β₂ lam : R) (ct : VecTable R) (chunk : Nat)
    (W0 : Option (LW R)) (es : List (Event String String))
    (hbad : ∃ e ∈ es, ∃ c ∈ e.cues, c ∉ ct.names) :
    whModel .r2b p eta β₁ β₂ lam (some ct) none chunk W0 es = .error .value :=
  whModel_r2b_tableError p eta β₁ β₂ lam ct chunk W0 es hbad

/-- single-cue / single-outcome events (the domain of method='numpy' and
    `dict_wh`): the input vector is the cue's vector, the target the outcome's -/
theorem single_cue_outcome (cueVecs outVecs : Array R) (nCueDims nOutDims c o k d : Nat) :
    summedCue cueVecs nCueDims k [c] = cueVecs.getD (nCueDims * c + k) 0 ∧
    summedOut outVecs nOutDims d [o] = outVecs.getD (nOutDims * o + d) 0 := by
  simp [summedCue, summedOut]

/-- **row order of the vector table is irrelevant**: if table' holds at row
    `σ c` what table holds at row `c`, the summed vectors of the renamed cues
    are the same -/
theorem wh_table_order (tab tab' : Array R) (nDims : Nat) (σ : Nat → Nat) (cues : List Nat) (k : Nat)
    (h : ∀ c ∈ cues, tab'.getD (nDims * σ c + k) 0 = tab.getD (nDims * c + k) 0) :
    summedCue tab' nDims k (cues.map σ) = summedCue tab nDims k cues := by
  unfold summedCue
  rw [List.foldl_map]
  have key : ∀ (cs : List Nat), (∀ c ∈ cs, tab'.getD (nDims * σ c + k) 0 = tab.getD (nDims * c + k) 0) →
      ∀ (a : R), cs.foldl (fun acc c => acc + tab'.getD (nDims * σ c + k) 0) a
        = cs.foldl (fun acc c => acc + tab.getD (nDims * c + k) 0) a := by
    intro cs
    induction cs with
    | nil => intros; rfl
    | cons d ds ih =>
      intro hh a
      simp only [List.foldl_cons, hh d (by simp)]
      exact ih (fun x hx => hh x (by simp [hx])) _
  exact key cues h 0

/-! non-vacuity (ℤ): a real→real step with a repeated cue on a 2×2 weight matrix -/
example :
    let cueVecs : Array ℤ := #[1, 2, 0, 1]      -- cue 0 = (1,2), cue 1 = (0,1)
    let outVecs : Array ℤ := #[3, 0, 1, 1]      -- outcome 0 = (3,0), outcome 1 = (1,1)
    let w : Array ℤ := #[0, 0, 0, 0]
    whR2RRowEvent 1 cueVecs outVecs 2 2 w 0 [0, 0, 1] [0, 1] = #[8, 20, 0, 0] := by
  decide +kernel

end Pyndl.C08
