/-
  C10 — Event filtering is an order-preserving per-event map independent of
  parallelism.

  Property theorems only (helper lemmas live in PyndlProofs/Filter.lean) about
  the model `Filter.filterEventFile` of `pyndl.preprocess.filter_event_file`
  (PyndlModel/Filter.lean).  Every theorem is for an arbitrary character type
  `χ` with decidable equality and arbitrary separators `tab us : χ` (the
  idempotence laws need `tab ≠ us`), every file (list of lines), every rule on
  both sides, every chunk size ≥ 1.

  `n_jobs` is ABSENT from the model: `filterEventFile` has no such parameter, so
  every theorem below is independent of `n_jobs` by construction, not by proof.
  What stands behind that is the ordering guarantee of `Pool.imap` (results are
  yielded in submission order whichever worker finishes first) — trusted, listed
  in DESIGN §2, sampled by the harness for `n_jobs` 1..8.  What IS modelled and
  proved is the chunking of `imap` (`imap_eq_map`, `chunk_independent`).

  Hypotheses carried by theorems here (for DESIGN §7): `1 ≤ chunk` (Python's
  `imap` raises `ValueError` for `chunksize < 1`: `chunk_zero_raises`),
  `tab ≠ us` (idempotence laws), `WellFormed tab l` for every event line
  (`filter_order`; the other case is `malformed_raises`), complement relative
  to the tokens of the file (`keep_eq_remove_compl`), `[] ∉ S` (`map_id_eq_keep`).

  Lemmas that merely restate a definition are at the end under
  "lemmas (not property theorems)".
-/
import PyndlProofs.Filter
import PyndlModel.Generated

set_option linter.unusedSimpArgs false
set_option linter.unusedVariables false
set_option linter.unusedSectionVars false

namespace Pyndl.C10
open Pyndl Pyndl.Filter

variable {χ : Type} [DecidableEq χ]

/-- **`imap` is `map`** for every chunk size ≥ 1: chunking the lines, mapping
    each chunk and concatenating in submission order is the plain map. -/
theorem imap_eq_map {α β : Type} (f : α → β) (xs : List α) (chunk : Nat) (h : 1 ≤ chunk) :
    imap f xs chunk = xs.map f :=
  Filter.imap_eq_map f xs chunk h

/-- **independence of `chunksize`**: any two chunk sizes ≥ 1 give the same
    result (file or error) for every constructor argument combination. -/
theorem chunk_independent (tab us : χ) (ca oa : SideArgs χ) (n m : Nat) (hn : 1 ≤ n) (hm : 1 ≤ m)
    (lines : List (Str χ)) :
    filterEventFile tab us ca oa n lines = filterEventFile tab us ca oa m lines := by
  have hn0 : n ≠ 0 := by omega
  have hm0 : m ≠ 0 := by omega
  unfold filterEventFile
  cases selectRule ca with
  | error e => rfl
  | ok rc =>
    cases selectRule oa with
    | error e => rfl
    | ok ro =>
      cases lines with
      | nil => simp only [filterFile, if_neg hn0, if_neg hm0]
      | cons h rest =>
        simp only [filterFile, if_neg hn0, if_neg hm0,
          Filter.imap_eq_map _ _ n hn, Filter.imap_eq_map _ _ m hm]

/-- **order-preserving per-event map.** With accepted constructor arguments and
    a file whose event lines all have exactly two columns, the output is the
    header followed by `filterMap` of the per-event function over the input
    events — in order, each event on its own. -/
theorem filter_order (tab us : χ) (ca oa : SideArgs χ) (rc ro : Rule χ)
    (hc : selectRule ca = .ok rc) (ho : selectRule oa = .ok ro)
    (chunk : Nat) (hn : 1 ≤ chunk) (header : Str χ) (events : List (Str χ))
    (hw : ∀ l ∈ events, WellFormed tab l) :
    filterEventFile tab us ca oa chunk (header :: events)
      = .ok (header :: events.filterMap (applyRules tab us rc ro)) := by
  unfold filterEventFile
  rw [hc, ho]
  exact filterFile_ok tab us rc ro chunk hn header events hw

/-- a malformed event line (not exactly two columns) anywhere ⇒ `ValueError`
    for every chunk size, nothing is returned. -/
theorem malformed_raises (tab us : χ) (ca oa : SideArgs χ) (chunk : Nat)
    (header : Str χ) (events : List (Str χ)) (h : ∃ l ∈ events, ¬ WellFormed tab l) :
    filterEventFile tab us ca oa chunk (header :: events) = .error .value := by
  unfold filterEventFile
  cases hc : selectRule ca with
  | error e => rw [selectRule_err_value ca e hc]
  | ok rc =>
    cases ho : selectRule oa with
    | error e => rw [selectRule_err_value oa e ho]
    | ok ro => exact filterFile_err tab us rc ro chunk header events h

/-- **dropped exactly when no cue is left**; an event left without outcomes is
    kept (written with an empty outcome field). -/
theorem drop_iff_no_cue (tab us : χ) (rc ro : Rule χ) (line c o : Str χ)
    (hs : splitOn tab line = [c, o]) :
    (filterLine tab us rc ro line = .ok none ↔ rc.apply (splitOn us c) = []) ∧
    (rc.apply (splitOn us c) ≠ [] →
      filterLine tab us rc ro line
        = .ok (some (joinWith us (rc.apply (splitOn us c)) ++ tab ::
                      joinWith us (ro.apply (splitOn us o))))) := by
  have hf : filterLine tab us rc ro line = .ok (processColumns tab us rc ro c o) := by
    unfold filterLine; rw [hs]
  rw [hf]
  unfold processColumns
  simp only []
  cases hcu : rc.apply (splitOn us c) with
  | nil => simp
  | cons t ts => simp

/-- the earlier form of `keep_eq_remove_compl` asked for `∀ t, t ∈ S ↔ t ∉ C`
    over ALL strings.  No two finite lists satisfy that (a string longer than
    every member of `S ++ C` is in neither), so the theorem said nothing. -/
theorem no_global_complement [Inhabited χ] (S C : List (Str χ)) : ¬ ∀ t, t ∈ S ↔ t ∉ C := by
  intro h
  -- a string strictly longer than every member of `S ++ C`
  let n := ((S ++ C).map List.length).foldr max 0
  have hlen : ∀ t ∈ S ++ C, t.length ≤ n := by
    intro t ht
    have : ∀ (L : List (Str χ)), t ∈ L → t.length ≤ (L.map List.length).foldr max 0 := by
      intro L
      induction L with
      | nil => intro h; cases h
      | cons x L ih =>
        intro h
        simp only [List.map_cons, List.foldr_cons]
        rcases List.mem_cons.1 h with rfl | h
        · exact Nat.le_max_left _ _
        · exact Nat.le_trans (ih h) (Nat.le_max_right _ _)
    exact this _ ht
  let big : Str χ := List.replicate (n + 1) default
  have hbS : big ∉ S := fun hm => by
    have := hlen big (List.mem_append_left _ hm)
    simp [big] at this
    omega
  have hbC : big ∉ C := fun hm => by
    have := hlen big (List.mem_append_right _ hm)
    simp [big] at this
    omega
  exact hbS ((h big).2 hbC)

/-- **keeping a set = removing its complement**, the complement being taken
    within the tokens that OCCUR in the file: if, among the tokens of the cue
    column (`cueTokens`: the `us`-separated pieces of the first column of every
    two-column event line), `C` holds exactly those that are not in `S`, then
    `keep_cues=S` and `remove_cues=C` produce the same output file — or the same
    error — whatever the outcome-side arguments `other`, the chunk size and the
    file are (also for malformed files, an empty file, chunk size 0).  The same
    on the outcome side with `outcomeTokens`, and on both sides at once.
    The hypotheses are decidable (`decide` in the example below).

    (Replaces the vacuous form, see `no_global_complement`.  `n_jobs` does not
    occur: the model has no such parameter — see the file header.) -/
theorem keep_eq_remove_compl (tab us : χ) (S C : List (Str χ))
    (other : SideArgs χ) (chunk : Nat) (lines : List (Str χ)) :
    ((∀ t ∈ cueTokens tab us lines, (t ∈ S ↔ t ∉ C)) →
      filterEventFile tab us ⟨some S, none, none⟩ other chunk lines
        = filterEventFile tab us ⟨none, some C, none⟩ other chunk lines) ∧
    ((∀ t ∈ outcomeTokens tab us lines, (t ∈ S ↔ t ∉ C)) →
      filterEventFile tab us other ⟨some S, none, none⟩ chunk lines
        = filterEventFile tab us other ⟨none, some C, none⟩ chunk lines) := by
  constructor
  · intro h
    unfold filterEventFile
    simp only [selectRule_keep, selectRule_remove]
    cases selectRule other with
    | error e => rfl
    | ok r =>
      exact filterFile_congr tab us _ _ _ _ chunk lines
        (fun l hl c o hs => keep_apply_eq_remove_on S C _
          (fun t ht => h t (mem_cueTokens tab us lines l c o hl hs t ht)))
        (fun _ _ _ _ _ => rfl)
  · intro h
    unfold filterEventFile
    simp only [selectRule_keep, selectRule_remove]
    cases selectRule other with
    | error e => rfl
    | ok r =>
      exact filterFile_congr tab us _ _ _ _ chunk lines
        (fun _ _ _ _ _ => rfl)
        (fun l hl c o hs => keep_apply_eq_remove_on S C _
          (fun t ht => h t (mem_outcomeTokens tab us lines l c o hl hs t ht)))

/-- … on both sides at once: keep `S` / keep `T` = remove `C` / remove `D`. -/
theorem keep_eq_remove_compl_both (tab us : χ) (S C T D : List (Str χ))
    (chunk : Nat) (lines : List (Str χ))
    (hc : ∀ t ∈ cueTokens tab us lines, (t ∈ S ↔ t ∉ C))
    (ho : ∀ t ∈ outcomeTokens tab us lines, (t ∈ T ↔ t ∉ D)) :
    filterEventFile tab us ⟨some S, none, none⟩ ⟨some T, none, none⟩ chunk lines
      = filterEventFile tab us ⟨none, some C, none⟩ ⟨none, some D, none⟩ chunk lines := by
  rw [((keep_eq_remove_compl tab us S C ⟨some T, none, none⟩ chunk lines).1 hc),
      ((keep_eq_remove_compl tab us T D ⟨none, some C, none⟩ chunk lines).2 ho)]

/-- hypothesis-free form: the complement of `S` within the file's own tokens can
    always be written down — it is `(cueTokens …).filter (· ∉ S)` — and removing
    it is keeping `S`. -/
theorem keep_eq_remove_own_compl (tab us : χ) (S : List (Str χ))
    (other : SideArgs χ) (chunk : Nat) (lines : List (Str χ)) :
    filterEventFile tab us ⟨some S, none, none⟩ other chunk lines
      = filterEventFile tab us
          ⟨none, some ((cueTokens tab us lines).filter (fun t => decide (t ∉ S))), none⟩
          other chunk lines ∧
    filterEventFile tab us other ⟨some S, none, none⟩ chunk lines
      = filterEventFile tab us other
          ⟨none, some ((outcomeTokens tab us lines).filter (fun t => decide (t ∉ S))), none⟩
          chunk lines := by
  constructor
  · refine (keep_eq_remove_compl tab us S _ other chunk lines).1 ?_
    intro t ht
    simp only [List.mem_filter, ht, true_and, decide_eq_true_eq, Decidable.not_not]
  · refine (keep_eq_remove_compl tab us S _ other chunk lines).2 ?_
    intro t ht
    simp only [List.mem_filter, ht, true_and, decide_eq_true_eq, Decidable.not_not]

/-- **non-vacuity of `keep_eq_remove_compl`: the theorem itself applied** to the
    file `[9] / 2_3⇥5_6 / 3⇥5 / 2_2⇥` (characters are `Nat`s: tab = 0, `_` = 1).
    Cue tokens that occur: 2, 3, 3, 2, 2; `S = {2, 7}`, `C = {3, 8}` are
    complementary among them (7 and 8 do not occur; globally they are not
    complementary: 9 is in neither).  Both hypotheses are discharged by
    `decide`, the conclusion is the theorem's. -/
example :
    filterEventFile 0 1 ⟨some [[2], [7]], none, none⟩ ⟨none, some [[5]], none⟩ 2
        [[9], [2, 1, 3, 0, 5, 1, 6], [3, 0, 5], [2, 1, 2, 0]]
      = filterEventFile 0 1 ⟨none, some [[3], [8]], none⟩ ⟨none, some [[5]], none⟩ 2
        [[9], [2, 1, 3, 0, 5, 1, 6], [3, 0, 5], [2, 1, 2, 0]] :=
  (keep_eq_remove_compl (χ := Nat) 0 1 [[2], [7]] [[3], [8]] ⟨none, some [[5]], none⟩ 2
    [[9], [2, 1, 3, 0, 5, 1, 6], [3, 0, 5], [2, 1, 2, 0]]).1 (by decide +kernel)

/-- … outcome side: outcome tokens 5, 6, 5, "" ; keep `{6, ""}` = remove `{5}`. -/
example :
    filterEventFile 0 1 ⟨none, none, none⟩ ⟨some [[6], []], none, none⟩ 1
        [[9], [2, 1, 3, 0, 5, 1, 6], [3, 0, 5], [2, 1, 2, 0]]
      = filterEventFile 0 1 ⟨none, none, none⟩ ⟨none, some [[5]], none⟩ 1
        [[9], [2, 1, 3, 0, 5, 1, 6], [3, 0, 5], [2, 1, 2, 0]] :=
  (keep_eq_remove_compl (χ := Nat) 0 1 [[6], []] [[5]] ⟨none, none, none⟩ 1
    [[9], [2, 1, 3, 0, 5, 1, 6], [3, 0, 5], [2, 1, 2, 0]]).2 (by decide +kernel)

/-- … and what both sides are (so the equation is not `error = error`), and the
    tokens that occur. -/
example :
    cueTokens 0 1 [[9], [2, 1, 3, 0, 5, 1, 6], [3, 0, 5], [2, 1, 2, 0]] = [[2], [3], [3], [2], [2]] ∧
    outcomeTokens 0 1 [[9], [2, 1, 3, 0, 5, 1, 6], [3, 0, 5], [2, 1, 2, 0]] = [[5], [6], [5], []] ∧
    filterEventFile 0 1 ⟨none, some [[3], [8]], none⟩ ⟨none, some [[5]], none⟩ 2
        [[9], [2, 1, 3, 0, 5, 1, 6], [3, 0, 5], [2, 1, 2, 0]] = .ok [[9], [2, 0, 6], [2, 1, 2, 0]] ∧
    -- the hypothesis is needed: with 3 ∈ S ∩ C the two calls differ
    filterEventFile 0 1 ⟨some [[2], [3]], none, none⟩ ⟨none, none, none⟩ 1 [[9], [3, 0, 5]]
      ≠ filterEventFile 0 1 ⟨none, some [[3]], none⟩ ⟨none, none, none⟩ 1 [[9], [3, 0, 5]] := by
  decide +kernel

/-- **renaming with the identity map on `S` = keeping `S`**, for `S` without
    the empty token (a map drops tokens renamed to `''`). Stated for any map
    that is the identity on `S` and has no other key. -/
theorem map_id_eq_keep (tab us : χ) (m : List (Str χ × Str χ)) (S : List (Str χ))
    (hm : ∀ t, lookupD m t = if t ∈ S then t else []) (hS : ([] : Str χ) ∉ S)
    (other : SideArgs χ) (chunk : Nat) (lines : List (Str χ)) :
    filterEventFile tab us ⟨none, none, some m⟩ other chunk lines
        = filterEventFile tab us ⟨some S, none, none⟩ other chunk lines ∧
    filterEventFile tab us other ⟨none, none, some m⟩ chunk lines
        = filterEventFile tab us other ⟨some S, none, none⟩ chunk lines := by
  have hfun : (Rule.map m).apply = (Rule.keep S).apply :=
    funext (map_apply_eq_keep m S hm hS)
  have hline : ∀ r : Rule χ,
      filterLine tab us (.map m) r = filterLine tab us (.keep S) r ∧
      filterLine tab us r (.map m) = filterLine tab us r (.keep S) := by
    intro r
    constructor <;> funext l <;> simp only [filterLine, processColumns, hfun]
  unfold filterEventFile
  simp only [selectRule_keep, selectRule_map]
  constructor
  · cases selectRule other with
    | error e => rfl
    | ok r => simp only [filterFile, (hline r).1]
  · cases selectRule other with
    | error e => rfl
    | ok r => simp only [filterFile, (hline r).2]

/-- **filtering twice = filtering once** for every combination of keep / remove /
    all on the two sides: the second pass reads the *text* the first pass wrote
    (an event that lost all outcomes has an empty outcome field, which splits to
    `['']`) with any chunk size and reproduces it exactly. -/
theorem select_idem (tab us : χ) (hne : tab ≠ us) (ca oa : SideArgs χ)
    (hca : NoMap ca) (hoa : NoMap oa) (n m : Nat) (hm : 1 ≤ m)
    (lines out : List (Str χ)) (h : filterEventFile tab us ca oa n lines = .ok out) :
    filterEventFile tab us ca oa m out = .ok out := by
  unfold filterEventFile at h ⊢
  have hsel : ∀ a : SideArgs χ, NoMap a → ∀ r, selectRule a = .ok r → r.IsSelect := by
    intro a ha r hr
    obtain ⟨k, rm, mp⟩ := a
    simp only [NoMap] at ha
    subst ha
    cases k <;> cases rm <;> simp [selectRule] at hr <;> subst hr <;> simp [Rule.IsSelect]
  cases hc : selectRule ca with
  | error e => rw [hc] at h; cases h
  | ok rc =>
    cases ho : selectRule oa with
    | error e => rw [hc, ho] at h; cases h
    | ok ro =>
      rw [hc, ho] at h
      exact filterFile_idem tab us hne rc ro (hsel ca hca rc hc) (hsel oa hoa ro ho) n m hm lines out h

/-- **keep twice = keep once** (cue side, outcome side, both). -/
theorem keep_idem (tab us : χ) (hne : tab ≠ us) (S T : List (Str χ)) (n m : Nat) (hm : 1 ≤ m)
    (lines out : List (Str χ)) :
    (filterEventFile tab us ⟨some S, none, none⟩ ⟨none, none, none⟩ n lines = .ok out →
      filterEventFile tab us ⟨some S, none, none⟩ ⟨none, none, none⟩ m out = .ok out) ∧
    (filterEventFile tab us ⟨none, none, none⟩ ⟨some T, none, none⟩ n lines = .ok out →
      filterEventFile tab us ⟨none, none, none⟩ ⟨some T, none, none⟩ m out = .ok out) ∧
    (filterEventFile tab us ⟨some S, none, none⟩ ⟨some T, none, none⟩ n lines = .ok out →
      filterEventFile tab us ⟨some S, none, none⟩ ⟨some T, none, none⟩ m out = .ok out) := by
  refine ⟨?_, ?_, ?_⟩ <;>
    exact select_idem tab us hne _ _ (by exact rfl) (by exact rfl) n m hm lines out

/-- **remove twice = remove once** (cue side, outcome side, both). -/
theorem remove_idem (tab us : χ) (hne : tab ≠ us) (S T : List (Str χ)) (n m : Nat) (hm : 1 ≤ m)
    (lines out : List (Str χ)) :
    (filterEventFile tab us ⟨none, some S, none⟩ ⟨none, none, none⟩ n lines = .ok out →
      filterEventFile tab us ⟨none, some S, none⟩ ⟨none, none, none⟩ m out = .ok out) ∧
    (filterEventFile tab us ⟨none, none, none⟩ ⟨none, some T, none⟩ n lines = .ok out →
      filterEventFile tab us ⟨none, none, none⟩ ⟨none, some T, none⟩ m out = .ok out) ∧
    (filterEventFile tab us ⟨none, some S, none⟩ ⟨none, some T, none⟩ n lines = .ok out →
      filterEventFile tab us ⟨none, some S, none⟩ ⟨none, some T, none⟩ m out = .ok out) := by
  refine ⟨?_, ?_, ?_⟩ <;>
    exact select_idem tab us hne _ _ (by exact rfl) (by exact rfl) n m hm lines out

/-- **the constructor's error table**: one side is rejected (`ValueError`)
    exactly when at least two of its three arguments are given; otherwise the
    rule is the one that was given (`'all'` when none was); the call raises
    `ValueError` as soon as one side is rejected, whatever the file is. -/
theorem constructor_table (a : SideArgs χ) :
    (selectRule a = .error .value ↔ 2 ≤ a.given) ∧
    (∀ S, a = ⟨some S, none, none⟩ → selectRule a = .ok (.keep S)) ∧
    (∀ S, a = ⟨none, some S, none⟩ → selectRule a = .ok (.remove S)) ∧
    (∀ m, a = ⟨none, none, some m⟩ → selectRule a = .ok (.map m)) ∧
    (a = ⟨none, none, none⟩ → selectRule a = .ok .all) := by
  refine ⟨selectRule_error_iff a, ?_, ?_, ?_, ?_⟩
  · rintro S rfl; rfl
  · rintro S rfl; rfl
  · rintro m rfl; rfl
  · rintro rfl; rfl

theorem constructor_raises (tab us : χ) (ca oa : SideArgs χ) (chunk : Nat) (lines : List (Str χ))
    (h : 2 ≤ ca.given ∨ 2 ≤ oa.given) :
    filterEventFile tab us ca oa chunk lines = .error .value := by
  unfold filterEventFile
  rcases h with h | h
  · rw [(selectRule_error_iff ca).2 h]
  · cases hc : selectRule ca with
    | error e => rw [selectRule_err_value ca e hc]
    | ok rc => simp only []; rw [(selectRule_error_iff oa).2 h]

/-- `chunksize = 0`: `Pool.imap` raises `ValueError` (CPython
    `multiprocessing/pool.py`: "Chunksize must be 1+"), whatever the rules and
    the file are — the branch the `1 ≤ chunk` hypotheses exclude. -/
theorem chunk_zero_raises (tab us : χ) (ca oa : SideArgs χ) (lines : List (Str χ)) :
    filterEventFile tab us ca oa 0 lines = .error .value := by
  unfold filterEventFile
  cases hc : selectRule ca with
  | error e => rw [selectRule_err_value ca e hc]
  | ok rc =>
    cases ho : selectRule oa with
    | error e => rw [selectRule_err_value oa e ho]
    | ok ro => simp [filterFile]

/-! Non-vacuity (characters are `Nat`s: tab = 0, `_` = 1, letters ≥ 2).
    File: header `[9]`, events `2_3\t5_6`, `3\t5`, `2_2\t`; keep cue 2, remove
    outcome 5.  The second event loses all cues and is dropped, the first is
    rewritten, the third (no outcomes) is kept; chunk sizes 1, 2, 7 agree; the
    hypotheses of `filter_order`, `drop_iff_no_cue`, `map_id_eq_keep`,
    `select_idem` are met by these values (`keep_eq_remove_compl` has its own
    examples, which apply the theorem). -/
example :
    let lines : List (Str Nat) := [[9], [2, 1, 3, 0, 5, 1, 6], [3, 0, 5], [2, 1, 2, 0]]
    let ca : SideArgs Nat := ⟨some [[2]], none, none⟩
    let oa : SideArgs Nat := ⟨none, some [[5]], none⟩
    (∀ l ∈ lines.tail, WellFormed 0 l) ∧
    filterEventFile 0 1 ca oa 1 lines = .ok [[9], [2, 0, 6], [2, 1, 2, 0]] ∧
    filterEventFile 0 1 ca oa 2 lines = filterEventFile 0 1 ca oa 1 lines ∧
    filterEventFile 0 1 ca oa 7 lines = filterEventFile 0 1 ca oa 1 lines ∧
    -- second pass over the output (its last line has an empty outcome field)
    filterEventFile 0 1 ca oa 2 [[9], [2, 0, 6], [2, 1, 2, 0]] = .ok [[9], [2, 0, 6], [2, 1, 2, 0]] ∧
    -- complement within the tokens {2, 3}: keep {2} = remove {3}
    filterEventFile 0 1 ⟨none, some [[3]], none⟩ oa 1 lines = filterEventFile 0 1 ca oa 1 lines ∧
    -- identity map on {2}
    filterEventFile 0 1 ⟨none, none, some (idMap [[2]])⟩ oa 1 lines = filterEventFile 0 1 ca oa 1 lines ∧
    -- a three-column line and a one-column line are rejected, two given arguments are rejected
    filterEventFile 0 1 ca oa 1 [[9], [2, 0, 5, 0, 7]] = .error .value ∧
    filterEventFile 0 1 ca oa 1 [[9], [2, 1, 5]] = .error .value ∧
    filterEventFile 0 1 ⟨some [[2]], some [[3]], none⟩ oa 1 lines = .error .value ∧
    (0 : Nat) ≠ 1 := by
  decide +kernel

/-- the guard of `map_id_eq_keep` is needed: with the empty token in `S`,
    keeping keeps an event whose cue field is empty, the identity map drops it. -/
example :
    filterEventFile 0 1 ⟨some [[]], none, none⟩ ⟨none, none, none⟩ 1 [[9], [0, 5]]
      = .ok [[9], [0, 5]] ∧
    filterEventFile 0 1 ⟨none, none, some (idMap [[]])⟩ ⟨none, none, none⟩ 1 [[9], [0, 5]]
      = .ok [[9]] := by
  decide +kernel

/-! ### the main theorems APPLIED (every hypothesis instantiated)

Same file as above: header `[9]`, events `2_3⇥5_6`, `3⇥5`, `2_2⇥` (tab = 0,
`_` = 1); keep cue 2, remove outcome 5. -/

def exLines : List (Str Nat) := [[9], [2, 1, 3, 0, 5, 1, 6], [3, 0, 5], [2, 1, 2, 0]]

/-- `filter_order` APPLIED: `selectRule` of both sides by `rfl`, chunk size 2,
    well-formedness of the three event lines by evaluation; the conclusion is
    the theorem's (output = header + `filterMap` of the per-event function). -/
example :
    filterEventFile 0 1 ⟨some [[2]], none, none⟩ ⟨none, some [[5]], none⟩ 2 exLines
      = .ok ([9] :: exLines.tail.filterMap (applyRules 0 1 (.keep [[2]]) (.remove [[5]]))) :=
  filter_order (χ := Nat) 0 1 _ _ _ _ rfl rfl 2 (by omega) [9] exLines.tail (by decide +kernel)

/-- `chunk_independent` and `imap_eq_map` APPLIED: chunk sizes 2 and 5. -/
example :
    filterEventFile 0 1 ⟨some [[2]], none, none⟩ ⟨none, some [[5]], none⟩ 2 exLines
      = filterEventFile 0 1 ⟨some [[2]], none, none⟩ ⟨none, some [[5]], none⟩ 5 exLines ∧
    imap (fun x : Nat => x + 1) [1, 2, 3, 4, 5] 2 = [1, 2, 3, 4, 5].map (fun x => x + 1) :=
  ⟨chunk_independent (χ := Nat) 0 1 _ _ 2 5 (by omega) (by omega) exLines,
   imap_eq_map _ _ 2 (by omega)⟩

/-- `map_id_eq_keep` APPLIED: the literal identity dict on `S = {2}` (its
    hypothesis `hm` is `Filter.lookupD_idMap` = `idMap_is_identity` below; `[] ∉ S` by `decide`), outcome side
    `remove {5}`, chunk size 2 — cue side and outcome side. -/
example :
    filterEventFile 0 1 ⟨none, none, some (idMap [[2]])⟩ ⟨none, some [[5]], none⟩ 2 exLines
      = filterEventFile 0 1 ⟨some [[2]], none, none⟩ ⟨none, some [[5]], none⟩ 2 exLines ∧
    filterEventFile 0 1 ⟨none, some [[5]], none⟩ ⟨none, none, some (idMap [[2]])⟩ 2 exLines
      = filterEventFile 0 1 ⟨none, some [[5]], none⟩ ⟨some [[2]], none, none⟩ 2 exLines :=
  map_id_eq_keep (χ := Nat) 0 1 (idMap [[2]]) [[2]] (lookupD_idMap [[2]]) (by decide)
    ⟨none, some [[5]], none⟩ 2 exLines

/-- `select_idem`, `keep_idem`, `remove_idem` APPLIED: `tab ≠ us` is `0 ≠ 1`, the
    first pass (chunk size 1) is evaluated, the second pass uses chunk size 7;
    the output of the first pass has a line with an empty outcome field. -/
example :
    filterEventFile 0 1 ⟨some [[2]], none, none⟩ ⟨none, some [[5]], none⟩ 7 [[9], [2, 0, 6], [2, 1, 2, 0]]
      = .ok [[9], [2, 0, 6], [2, 1, 2, 0]] ∧
    filterEventFile 0 1 ⟨some [[2]], none, none⟩ ⟨none, none, none⟩ 3 [[9], [2, 0, 5, 1, 6], [2, 1, 2, 0]]
      = .ok [[9], [2, 0, 5, 1, 6], [2, 1, 2, 0]] ∧
    filterEventFile 0 1 ⟨none, none, none⟩ ⟨none, some [[5]], none⟩ 3
        [[9], [2, 1, 3, 0, 6], [3, 0], [2, 1, 2, 0]]
      = .ok [[9], [2, 1, 3, 0, 6], [3, 0], [2, 1, 2, 0]] :=
  ⟨select_idem (χ := Nat) 0 1 (by decide) ⟨some [[2]], none, none⟩ ⟨none, some [[5]], none⟩ rfl rfl 1 7
      (by omega) exLines _ (by decide +kernel),
   (keep_idem (χ := Nat) 0 1 (by decide) [[2]] [] 1 3 (by omega) exLines _).1 (by decide +kernel),
   (remove_idem (χ := Nat) 0 1 (by decide) [] [[5]] 1 3 (by omega) exLines _).2.1 (by decide +kernel)⟩

/-- `malformed_raises`, `constructor_raises`, `chunk_zero_raises`,
    `constructor_table` APPLIED. -/
example :
    filterEventFile 0 1 ⟨some [[2]], none, none⟩ ⟨none, none, none⟩ 4 ([9] :: [[2, 0, 5], [2, 0, 5, 0, 7]])
      = .error .value ∧
    filterEventFile 0 1 ⟨some [[2]], some [[3]], none⟩ ⟨none, none, none⟩ 4 exLines = .error .value ∧
    filterEventFile 0 1 ⟨some [[2]], none, none⟩ ⟨none, none, none⟩ 0 exLines = .error .value ∧
    (selectRule (⟨some [[2]], none, some []⟩ : SideArgs Nat) = .error .value ↔
      2 ≤ (⟨some [[2]], none, some []⟩ : SideArgs Nat).given) :=
  ⟨malformed_raises (χ := Nat) 0 1 _ _ 4 [9] _ ⟨[2, 0, 5, 0, 7], by simp, by decide +kernel⟩,
   constructor_raises (χ := Nat) 0 1 _ _ 4 exLines (Or.inl (by decide)),
   chunk_zero_raises (χ := Nat) 0 1 _ _ exLines,
   (constructor_table (χ := Nat) _).1⟩

/-- `drop_iff_no_cue` APPLIED to the second and the first event line: the line
    `3⇥5` loses its only cue and is dropped; `2_3⇥5_6` is rewritten. -/
example :
    filterLine 0 1 (.keep [[2]]) (.remove [[5]]) ([3, 0, 5] : Str Nat) = .ok none ∧
    filterLine 0 1 (.keep [[2]]) (.remove [[5]]) ([2, 1, 3, 0, 5, 1, 6] : Str Nat)
      = .ok (some (joinWith 1 ((Rule.keep [[2]]).apply (splitOn 1 [2, 1, 3])) ++ 0 ::
                    joinWith 1 ((Rule.remove [[5]]).apply (splitOn 1 [5, 1, 6])))) :=
  ⟨((drop_iff_no_cue (χ := Nat) 0 1 _ _ [3, 0, 5] [3] [5] (by decide +kernel)).1).2 (by decide +kernel),
   (drop_iff_no_cue (χ := Nat) 0 1 _ _ [2, 1, 3, 0, 5, 1, 6] [2, 1, 3] [5, 1, 6] (by decide +kernel)).2
      (by decide +kernel)⟩

/-! ### lemmas (not property theorems)

`rfl` / `decide`-level facts and facts that hold for any `filterMap`; kept
because other files and the harness refer to them.  Clauses 2–5 of
`constructor_table` above are of the same kind (definitional); its first clause
(`ValueError` iff at least two arguments are given) is the property. -/

/-- (definitional) the separators the model is run with are the ones in the source
    (`line.strip('\n').split("\t")`, `cues.split("_")`, read by the extractor on
    every run) and they differ, as the idempotence laws require. -/
theorem seps_match_source :
    Generated.filterColSep.toList = [colSep] ∧ Generated.filterTokSep.toList = [tokSep]
      ∧ colSep ≠ tokSep := by
  decide

/-- (holds for every `filterMap`) the kept events are the image of a *sublist* of the input events,
    in the same order: nothing is reordered, duplicated or invented. -/
theorem filter_sublist (tab us : χ) (rc ro : Rule χ) (events : List (Str χ)) :
    ∃ kept, List.Sublist kept events ∧
      events.filterMap (applyRules tab us rc ro)
        = kept.map (fun l => (applyRules tab us rc ro l).getD []) := by
  refine ⟨events.filter (fun l => (applyRules tab us rc ro l).isSome), List.filter_sublist, ?_⟩
  induction events with
  | nil => rfl
  | cons l ls ih =>
    cases hl : applyRules tab us rc ro l with
    | none => simp [List.filterMap_cons, List.filter_cons, hl, ih]
    | some y => simp [List.filterMap_cons, List.filter_cons, hl, ih]

/-- (definitional) the literal identity dict `{t: t for t in S}` satisfies the hypothesis of
    `map_id_eq_keep`. -/
theorem idMap_is_identity (S : List (Str χ)) (t : Str χ) :
    lookupD (idMap S) t = if t ∈ S then t else [] :=
  lookupD_idMap S t

end Pyndl.C10
