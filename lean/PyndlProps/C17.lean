/-
  C17 — Learner calls leave no temporary files behind and never touch their inputs.

  Effect model: world = set of existing paths (`World`), or — for the
  "inputs untouched" clause — paths with their contents (`FS`: directory, or
  file with its bytes).  Every temporary entry a learner creates (chunk files,
  the spooled event file of generator input since the repair of F7) lives below
  a directory managed by `bracket` (= `with tempfile.TemporaryDirectory(...)`).

  WHAT IS PROVED AND WHAT IS NOT — read this before the theorems.
  * What the theorems establish is the bracket discipline: `rmtree` on every
    exit removes the temporary directory and everything below it, two sibling
    brackets compose, the exit of the body reaches the caller.
  * `OnlyBelow d body` / `OnlyBelowC d body` ("the body leaves every path that is
    not at or below `d` as it was": same existence / same node and bytes) is,
    modulo `rmtree`, the CONCLUSION of `fs_clean` / `fs_clean_contents`: these
    two theorems say "if the body changes nothing outside its directory, the
    bracket around it changes nothing at all".  They are hypotheses about the
    REAL bodies (`create_binary_event_files`, the learning kernels,
    `io.events_to_file`) and are NOT proved for them.
  * `path_call_clean`, `generator_call_clean(_any_spool)`, `inputs_unchanged` and
    `inputs_unchanged_generator` have NO such hypothesis: they are about the
    modelled bodies `chunkBody` / `opsBody`, which can only ADDRESS paths of the
    form `d ++ [name]` — so for them `OnlyBelow(C)` holds BY CONSTRUCTION of the
    model (`chunkBody_onlyBelow`, `opsBody_onlyBelowC`).  These theorems show
    that a body which only addresses paths below its directory cannot change
    the input file or leave anything behind; they do not show that the real
    bodies are such bodies.
  * Hence: "the input event file is byte-for-byte unchanged" and "no entry
    outside the temporary directory appears, disappears or changes" are
    DECIDED BY THE DIFFERENTIAL RUN (directory listing and sha256 of every file
    outside the temporary directory before and after every call of the C01/C05
    campaigns, `harness/run_C17.py`), not by a theorem.  The Effects model is not
    executed against the code by any driver op.

  Further assumptions (not proved, same status):
    * `shutil.rmtree` (called by `TemporaryDirectory.__exit__`) succeeds and
      removes exactly the directory and everything below it (`rmtree`); and
      `Pool.terminate` leaves no worker writing after the `with` block.
    * the fresh directory name does not exist before (`hfresh`; `mkdtemp`).
  Layout of generator input (ndl.py:132-142, 217 after 895aaf2): the spool
  directory and the chunk directory are both created with
  `dir=temporary_directory`, i.e. they are SIBLINGS; the second `with` is nested
  in time only.  `fs_clean_siblings` is the theorem for that layout
  (`fs_clean_nested`, about a chunk directory below the spool directory, is
  true but is not the code's layout; it is kept as a lemma).
-/
import PyndlProofs.Effects

namespace Pyndl.C17
open Pyndl Pyndl.Effects List

/-- **no temporary entry survives, whatever the exit — GIVEN that the body
    changes nothing outside its directory** (`hb : OnlyBelow d body`, an
    ASSUMPTION about the real bodies, see the file header: modulo `rmtree` it is
    this theorem's conclusion).  For every such body and every exit of it
    (normal return, or an exception raised at any point — every fault kind and
    position of C05 is some body/exit pair), the set of existing paths after
    the call equals the set before: what the theorem adds to `hb` is that the
    directory itself and everything the body left below it are removed on
    every exit. -/
theorem fs_clean (d : Path) (body : Path → World → World × Exit) (hb : OnlyBelow d body)
    (w : World) (hfresh : ∀ p ∈ w, below d p = false) (p : Path) :
    p ∈ (bracket d body w).1 ↔ p ∈ w :=
  bracket_clean d body hb w hfresh p

/-- the pinned tree's spooling before the repair (F7) leaks: the spool file
    created in the system temp directory outside any bracket is still there
    after the call -/
theorem old_spool_leaks (sysTmp : Path) (name : String) (d : Path) (body : Path → World → World × Exit)
    (hb : OnlyBelow d body) (w : World) (hout : below d (sysTmp ++ [name]) = false) :
    (sysTmp ++ [name]) ∈ (spoolOld sysTmp name (bracket d body) w).1 := by
  unfold spoolOld bracket
  simp only [mem_rmtree, hout, and_true]
  rw [hb _ _ hout]
  simp

/-- **path input, for the modelled body** (`chunkBody`: it can only create
    entries `d ++ [name]`, so it is below `d` BY CONSTRUCTION —
    `chunkBody_onlyBelow`; no hypothesis about the real conversion): whatever
    chunk files `events_0_<i>.dat` were created in the temporary directory and
    however the call ended (return, or an exception raised anywhere — any fault
    kind, position, byte budget), the set of existing paths is the one before
    the call -/
theorem path_call_clean (created : List String) (e : Exit) (d : Path) (w : World)
    (hfresh : ∀ p ∈ w, below d p = false) (p : Path) :
    p ∈ (bracket d (chunkBody created e) w).1 ↔ p ∈ w :=
  pathCall_clean created e d w hfresh p

/-- **generator input, for the modelled bodies** (after the repair of F7; by
    construction of `generatorCall`, as `path_call_clean`): the spool
    directory with `events.tab.gz` and the chunk directory are both gone, for
    every exit; the exit reaches the caller -/
theorem generator_call_clean (s d : Path) (created : List String) (e : Exit) (w : World)
    (hs : ∀ p ∈ w, below s p = false) (hd : ∀ p ∈ w, below d p = false) (p : Path) :
    (p ∈ (generatorCall s d created e w).1 ↔ p ∈ w) ∧ (generatorCall s d created e w).2 = e :=
  ⟨generatorCall_clean s d created e w hs hd p, generatorCall_exit s d created e w⟩

/-- **generator input, the code's layout** (siblings), GIVEN `OnlyBelow` of both
    steps (`hf`, `hb`: assumptions about the real bodies, file header): an outer temporary
    directory `s`; a first step that works only below `s` and may raise
    (spooling the generator into `s/events.tab.gz`); then, only if it returned,
    a second bracket for a directory `d` that is neither below nor above `s`
    (both are children of `temporary_directory`) around a body that works only
    below `d`.  For every pair of exits the set of existing paths afterwards is
    the set before. -/
theorem fs_clean_siblings (s d : Path) (first body : Path → World → World × Exit)
    (hf : OnlyBelow s first) (hb : OnlyBelow d body)
    (hsd : below s d = false) (hds : below d s = false) (w : World)
    (hs : ∀ p ∈ w, below s p = false) (hd : ∀ p ∈ w, below d p = false) (p : Path) :
    p ∈ (bracket s (fun s w => seqBody (first s) (bracket d body) w) w).1 ↔ p ∈ w :=
  bracket_siblings_clean s d first body hf hb hsd hds w hs hd p

/-- **generator input, for the modelled bodies, spooling may raise** (no
    hypothesis about real bodies: by construction of `generatorCallS`): whatever files
    `io.events_to_file` created in the spool directory before it returned or
    raised, whatever chunk files the learner then created and however it ended,
    the set of existing paths is the one before the call, and the caller sees
    the spooling exception, else the learner's exit. -/
theorem generator_call_clean_any_spool (s d : Path) (spooled : List String) (spoolExit : Exit)
    (created : List String) (e : Exit) (w : World)
    (hsd : below s d = false) (hds : below d s = false)
    (hs : ∀ p ∈ w, below s p = false) (hd : ∀ p ∈ w, below d p = false) (p : Path) :
    (p ∈ (generatorCallS s d spooled spoolExit created e w).1 ↔ p ∈ w) ∧
    (generatorCallS s d spooled spoolExit created e w).2
      = (match spoolExit with | .raised => .raised | .returned => e) :=
  ⟨generatorCallS_clean s d spooled spoolExit created e w hsd hds hs hd p,
    generatorCallS_exit s d spooled spoolExit created e w⟩

/-! ## inputs untouched (worlds with contents) -/

/-- **fs_clean with contents.** If the body leaves everything outside its
    directory as it was (`hb : OnlyBelowC d body` — the ASSUMPTION on the real
    bodies; it is, restricted to paths outside `d`, this theorem's conclusion)
    and nothing existed at or below the fresh directory, then after the call
    EVERY path has the node it had before: same existence, same kind, and for a
    file the same bytes — for every exit.  What the theorem adds to `hb`: the
    paths at or below `d` are back to "absent" (`rmtreeC`). -/
theorem fs_clean_contents (d : Path) (body : Path → FS → FS × Exit) (hb : OnlyBelowC d body)
    (fs : FS) (hfresh : ∀ p, below d p = true → fs.get p = none) (p : Path) :
    (bracketC d body fs).1.get p = fs.get p :=
  bracketC_clean d body hb fs hfresh p

/-- **inputs_unchanged (path input) — for the MODELLED bodies, by construction.**
    The input event file — any file `inp` with bytes `bytes` that exists before
    the call — has exactly those bytes after a call whose body is any sequence
    of writes and removals of files `d/name` in the temporary directory
    followed by a return or a raise.  There is NO `OnlyBelowC` hypothesis here:
    `opsBody` can only address paths `d ++ [name]`, so it satisfies `OnlyBelowC`
    by construction (`opsBody_onlyBelowC`).  The theorem shows that a body which
    only addresses paths below its directory cannot change the input; that the
    REAL bodies are such bodies — i.e. that the real input is byte-for-byte
    unchanged — is decided by the differential run (sha256), see the file
    header. -/
theorem inputs_unchanged (d : Path) (ops : List Op) (e : Exit) (fs : FS)
    (hfresh : ∀ p, below d p = true → fs.get p = none)
    (inp : Path) (bytes : List UInt8) (hin : fs.get inp = some (.file bytes)) :
    (bracketC d (opsBody ops e) fs).1.get inp = some (.file bytes) ∧
    (bracketC d (opsBody ops e) fs).2 = e := by
  refine ⟨?_, rfl⟩
  rw [bracketC_clean d _ (opsBody_onlyBelowC ops e d) fs hfresh inp, hin]

/-- **inputs_unchanged (generator input, sibling directories) — for the
    MODELLED bodies, by construction** (as `inputs_unchanged`).  Likewise for
    the spool directory `s` (operations `spoolOps`, exit `spoolExit`) followed —
    if spooling returned — by the learner in the sibling directory `d`: every
    path, in particular every pre-existing file, has afterwards the node it
    had before. -/
theorem inputs_unchanged_generator (s d : Path) (spoolOps : List Op) (spoolExit : Exit)
    (ops : List Op) (e : Exit) (fs : FS)
    (hsd : below s d = false) (hds : below d s = false)
    (hs : ∀ p, below s p = true → fs.get p = none) (hd : ∀ p, below d p = true → fs.get p = none)
    (p : Path) :
    (generatorCallC s d spoolOps spoolExit ops e fs).1.get p = fs.get p :=
  bracketC_siblings_clean s d (opsBody spoolOps spoolExit) (opsBody ops e)
    (opsBody_onlyBelowC spoolOps spoolExit s) (opsBody_onlyBelowC ops e d) hsd hds fs hs hd p

/-! non-vacuity: a body that creates two chunk files and raises -/
example :
    let d : Path := ["tmp", "pyndl123"]
    let body : Path → World → World × Exit := fun d w => ((d ++ ["events_0_0.dat"]) :: (d ++ ["events_0_1.dat"]) :: w, .raised)
    bracket d body [["tmp"], ["data", "events.tab.gz"]] = ([["tmp"], ["data", "events.tab.gz"]], .raised) := by
  decide +kernel



/-! non-vacuity of `generator_call_clean_any_spool` and `fs_clean_siblings`:
    spool directory `tmp/pyndlA`, chunk directory `tmp/pyndlB` (siblings); the
    hypotheses hold for the world `[tmp, data/events.tab.gz]`, and both exits
    of the spooling step are evaluated -/
example :
    let s : Path := ["tmp", "pyndlA"]
    let d : Path := ["tmp", "pyndlB"]
    let w : World := [["tmp"], ["data", "events.tab.gz"]]
    below s d = false ∧ below d s = false ∧ (∀ p ∈ w, below s p = false) ∧ (∀ p ∈ w, below d p = false) ∧
    generatorCallS s d ["events.tab.gz"] .returned ["events_0_0.dat", "events_0_1.dat"] .raised w = (w, .raised) ∧
    generatorCallS s d ["events.tab.gz"] .raised ["events_0_0.dat"] .returned w = (w, .raised) ∧
    generatorCallS s d ["events.tab.gz"] .returned ["events_0_0.dat"] .returned w = (w, .returned) := by
  decide +kernel

/-! non-vacuity of `inputs_unchanged` / `inputs_unchanged_generator`: the input
    file `data/events.tab.gz` holds the bytes `1f 8b 08`; the body writes two
    chunk files, overwrites one, removes one, and raises; a file named like the
    input INSIDE the temporary directory is written as well.  All hypotheses
    hold and the world afterwards is literally the world before. -/
def exFS : FS := [(["tmp"], .dir), (["data"], .dir), (["data", "events.tab.gz"], .file [0x1f, 0x8b, 0x08])]

def exOps : List Op :=
  [.write "events_0_0.dat" [1, 2, 3], .write "events_0_1.dat" [4], .write "events_0_0.dat" [9],
   .remove "events_0_1.dat", .write "events.tab.gz" [0]]

example :
    (∀ p, below ["tmp", "pyndlB"] p = true → exFS.get p = none) ∧
    exFS.get ["data", "events.tab.gz"] = some (.file [0x1f, 0x8b, 0x08]) ∧
    bracketC ["tmp", "pyndlB"] (opsBody exOps .raised) exFS = (exFS, .raised) ∧
    -- inside the bracket the files really are there:
    (runOps ["tmp", "pyndlB"] exOps (exFS.put ["tmp", "pyndlB"] .dir)).get ["tmp", "pyndlB", "events_0_0.dat"]
      = some (.file [9]) ∧
    generatorCallC ["tmp", "pyndlA"] ["tmp", "pyndlB"] [.write "events.tab.gz" [0x1f, 0x8b]] .returned
      exOps .raised exFS = (exFS, .raised) := by
  refine ⟨?_, by decide +kernel, by decide +kernel, by decide +kernel, by decide +kernel⟩
  intro p hp
  -- every entry of `exFS` has a first component list that `["tmp","pyndlB"]` is not a prefix of
  have h : ∀ x ∈ exFS, below ["tmp", "pyndlB"] x.1 = false := by decide +kernel
  unfold FS.get
  cases hf : List.find? (fun x => x.1 == p) exFS with
  | none => rfl
  | some x =>
    have hx := List.mem_of_find?_eq_some hf
    have hxp : x.1 = p := by simpa using List.find?_some hf
    rw [← hxp, h x hx] at hp
    cases hp

example := inputs_unchanged ["tmp", "pyndlB"] exOps .raised exFS
  (by
    intro p hp
    have h : ∀ x ∈ exFS, below ["tmp", "pyndlB"] x.1 = false := by decide +kernel
    unfold FS.get
    cases hf : List.find? (fun x => x.1 == p) exFS with
    | none => rfl
    | some x =>
      have hx := List.mem_of_find?_eq_some hf
      have hxp : x.1 = p := by simpa using List.find?_some hf
      rw [← hxp, h x hx] at hp
      cases hp)
  ["data", "events.tab.gz"] [0x1f, 0x8b, 0x08] (by decide +kernel)

/-! ### every main theorem APPLIED with all hypotheses instantiated

World `[tmp, data/events.tab.gz]`; spool directory `tmp/pyndlA`, chunk directory
`tmp/pyndlB` (siblings).  `OnlyBelow` is discharged for the modelled bodies by
`chunkBody_onlyBelow` / `spool_onlyBelow` (for real bodies it is an assumption). -/

def exW : World := [["tmp"], ["data", "events.tab.gz"]]

/-- `fs_clean` applied: a body that creates two chunk files and raises -/
example (p : Path) :
    p ∈ (bracket ["tmp", "pyndlB"] (chunkBody ["events_0_0.dat", "events_0_1.dat"] .raised) exW).1 ↔ p ∈ exW :=
  fs_clean ["tmp", "pyndlB"] _ (chunkBody_onlyBelow _ _ _) exW (by decide) p

/-- `path_call_clean` applied -/
example (p : Path) :
    p ∈ (bracket ["tmp", "pyndlB"] (chunkBody ["events_0_0.dat", "events_0_1.dat"] .raised) exW).1 ↔ p ∈ exW :=
  path_call_clean ["events_0_0.dat", "events_0_1.dat"] .raised ["tmp", "pyndlB"] exW (by decide) p

/-- `old_spool_leaks` applied: the spool file of the pinned tree, created in
    `/tmp` outside any bracket, is still there after the call -/
example : ["tmp", "tmpq1w2e3"] ∈
    (spoolOld ["tmp"] "tmpq1w2e3" (bracket ["tmp", "pyndlB"] (chunkBody ["events_0_0.dat"] .returned)) exW).1 :=
  old_spool_leaks ["tmp"] "tmpq1w2e3" ["tmp", "pyndlB"] _ (chunkBody_onlyBelow _ _ _) exW (by decide)

/-- `generator_call_clean` applied -/
example (p : Path) :
    (p ∈ (generatorCall ["tmp", "pyndlA"] ["tmp", "pyndlB"] ["events_0_0.dat"] .raised exW).1 ↔ p ∈ exW) ∧
    (generatorCall ["tmp", "pyndlA"] ["tmp", "pyndlB"] ["events_0_0.dat"] .raised exW).2 = .raised :=
  generator_call_clean ["tmp", "pyndlA"] ["tmp", "pyndlB"] ["events_0_0.dat"] .raised exW (by decide) (by decide) p

/-- `fs_clean_siblings` applied: spooling writes `events.tab.gz` and returns,
    the learner creates a chunk file and raises -/
example (p : Path) :
    p ∈ (bracket ["tmp", "pyndlA"] (fun s w => seqBody
          ((fun s w => (["events.tab.gz"].map (fun name => s ++ [name]) ++ w, Exit.returned)) s)
          (bracket ["tmp", "pyndlB"] (chunkBody ["events_0_0.dat"] .raised)) w) exW).1 ↔ p ∈ exW :=
  fs_clean_siblings ["tmp", "pyndlA"] ["tmp", "pyndlB"] _ _ (spool_onlyBelow ["events.tab.gz"] .returned _)
    (chunkBody_onlyBelow _ _ _) (by decide) (by decide) exW (by decide) (by decide) p

/-- `generator_call_clean_any_spool` applied: spooling raises after a half-written file -/
example (p : Path) :
    (p ∈ (generatorCallS ["tmp", "pyndlA"] ["tmp", "pyndlB"] ["events.tab.gz"] .raised
          ["events_0_0.dat"] .returned exW).1 ↔ p ∈ exW) ∧
    (generatorCallS ["tmp", "pyndlA"] ["tmp", "pyndlB"] ["events.tab.gz"] .raised
          ["events_0_0.dat"] .returned exW).2 = .raised :=
  generator_call_clean_any_spool ["tmp", "pyndlA"] ["tmp", "pyndlB"] ["events.tab.gz"] .raised
    ["events_0_0.dat"] .returned exW (by decide) (by decide) (by decide) (by decide) p

/-- `fs_clean_contents` applied (the `OnlyBelowC` hypothesis discharged for a
    modelled body), `inputs_unchanged` (also above) and
    `inputs_unchanged_generator` applied: every path — in particular the input
    file with its three bytes — has afterwards the node it had before -/
example (p : Path) : (bracketC ["tmp", "pyndlB"] (opsBody exOps .raised) exFS).1.get p = exFS.get p :=
  fs_clean_contents ["tmp", "pyndlB"] _ (opsBody_onlyBelowC exOps .raised _) exFS
    (fresh_of_entries _ _ (by decide +kernel)) p

example :
    (bracketC ["tmp", "pyndlB"] (opsBody exOps .returned) exFS).1.get ["data", "events.tab.gz"]
      = some (.file [0x1f, 0x8b, 0x08]) ∧
    (bracketC ["tmp", "pyndlB"] (opsBody exOps .returned) exFS).2 = .returned :=
  inputs_unchanged ["tmp", "pyndlB"] exOps .returned exFS (fresh_of_entries _ _ (by decide +kernel))
    ["data", "events.tab.gz"] [0x1f, 0x8b, 0x08] (by decide +kernel)

example :
    (generatorCallC ["tmp", "pyndlA"] ["tmp", "pyndlB"] [.write "events.tab.gz" [0x1f, 0x8b]] .returned
      exOps .raised exFS).1.get ["data", "events.tab.gz"] = exFS.get ["data", "events.tab.gz"] :=
  inputs_unchanged_generator ["tmp", "pyndlA"] ["tmp", "pyndlB"] [.write "events.tab.gz" [0x1f, 0x8b]] .returned
    exOps .raised exFS (by decide) (by decide) (fresh_of_entries _ _ (by decide +kernel))
    (fresh_of_entries _ _ (by decide +kernel)) ["data", "events.tab.gz"]

/-- what the modelled bodies canNOT express, and the hypothesis excludes: a body
    that overwrites the input file violates `OnlyBelowC` — such a body is ruled
    out by ASSUMPTION for the real code, and by the differential run's sha256 -/
example : ¬ OnlyBelowC ["tmp", "pyndlB"]
    (fun _ fs => (fs.put ["data", "events.tab.gz"] (.file []), Exit.returned)) := by
  intro h
  have := h exFS ["data", "events.tab.gz"] (by decide)
  revert this
  decide +kernel

/-! ### lemmas (not property theorems) -/

/-- (definitional) the exception (or the return) of the body is what the caller sees -/
theorem exit_preserved (d : Path) (body : Path → World → World × Exit) (w : World) :
    (bracket d body w).2 = (body d (d :: w)).2 :=
  bracket_exit d body w

/-- (not the code's layout) a bracket for a directory `d₂` BELOW `d₁` works only
    below `d₁`.  The review found the former docstring ("generator input")
    misleading: in `ndl.ndl` the chunk directory is a sibling of the spool
    directory, see `fs_clean_siblings`. -/
theorem fs_clean_nested (d₁ d₂ : Path) (body : Path → World → World × Exit)
    (hb : OnlyBelow d₂ body) (hsub : below d₁ d₂ = true) :
    OnlyBelow d₁ (fun _ w => bracket d₂ body w) :=
  bracket_nested d₁ d₂ body hb hsub

/-- (definitional) chunk files are created below the temporary directory:
    `os.path.join(binary_path, "events_0_%i.dat" % ii)` -/
theorem chunk_paths_inside (d : Path) (name : String) : below d (d ++ [name]) = true := by
  simp [below]


end Pyndl.C17
