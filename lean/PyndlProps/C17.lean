/-
  C17 — Learner calls leave no temporary files behind and never touch their inputs.

  Effect model: world = set of existing paths; every temporary entry a learner
  creates (chunk files, the spooled event file of generator input since the
  repair of F7) lives below a directory managed by `bracket`
  (= `with tempfile.TemporaryDirectory(...)`).  partial: that the real bodies
  only write below their directory, that `shutil.rmtree` and `Pool.terminate`
  behave as documented, and that the input file is opened read-only are decided
  by the differential run (directory listings and sha256 before/after every
  call of the C01/C05 campaigns).
-/
import PyndlProofs.Effects

namespace Pyndl.C17
open Pyndl Pyndl.Effects List

/-- **no temporary entry survives, whatever the exit**: for every body that
    works only below its temporary directory and every exit of that body
    (normal return, or an exception raised at any point — every fault kind and
    position of C05 is some body/exit pair), the set of existing paths after
    the call equals the set before. -/
theorem fs_clean (d : Path) (body : Path → World → World × Exit) (hb : OnlyBelow d body)
    (w : World) (hfresh : ∀ p ∈ w, below d p = false) (p : Path) :
    p ∈ (bracket d body w).1 ↔ p ∈ w :=
  bracket_clean d body hb w hfresh p

/-- the exception (or the return) of the body is what the caller sees -/
theorem exit_preserved (d : Path) (body : Path → World → World × Exit) (w : World) :
    (bracket d body w).2 = (body d (d :: w)).2 :=
  bracket_exit d body w

/-- generator input: the spool directory around the learner's own chunk
    directory is clean as well (nested brackets) -/
theorem fs_clean_nested (d₁ d₂ : Path) (body : Path → World → World × Exit)
    (hb : OnlyBelow d₂ body) (hsub : below d₁ d₂ = true) :
    OnlyBelow d₁ (fun _ w => bracket d₂ body w) :=
  bracket_nested d₁ d₂ body hb hsub

/-- chunk files are created below the temporary directory:
    `os.path.join(binary_path, "events_0_%i.dat" % ii)` -/
theorem chunk_paths_inside (d : Path) (name : String) : below d (d ++ [name]) = true := by
  simp [below]

/-- the pinned tree's spooling before the repair (F7) leaks: the spool file
    created in the system temp directory outside any bracket is still there
    after the call -/
theorem old_spool_leaks (sysTmp : Path) (name : String) (d : Path) (body : Path → World → World × Exit)
    (hb : OnlyBelow d body) (w : World) (hout : below d (sysTmp ++ [name]) = false) :
    (sysTmp ++ [name]) ∈ (spoolOld sysTmp name (bracket d body) w).1 := by
  unfold spoolOld bracket
  simp only [mem_rmtree, hout, and_true]
  rw [hb _ _ hout]
  simp

/-- **path input, concretely**: whatever chunk files `events_0_<i>.dat` the
    conversion created in the temporary directory and however the call ended
    (return, or an exception raised anywhere — any fault kind, position, byte
    budget), the set of existing paths is the one before the call -/
theorem path_call_clean (created : List String) (e : Exit) (d : Path) (w : World)
    (hfresh : ∀ p ∈ w, below d p = false) (p : Path) :
    p ∈ (bracket d (chunkBody created e) w).1 ↔ p ∈ w :=
  pathCall_clean created e d w hfresh p

/-- **generator input, concretely** (after the repair of F7): the spool
    directory with `events.tab.gz` and the chunk directory are both gone, for
    every exit; the exit reaches the caller -/
theorem generator_call_clean (s d : Path) (created : List String) (e : Exit) (w : World)
    (hs : ∀ p ∈ w, below s p = false) (hd : ∀ p ∈ w, below d p = false) (p : Path) :
    (p ∈ (generatorCall s d created e w).1 ↔ p ∈ w) ∧ (generatorCall s d created e w).2 = e :=
  ⟨generatorCall_clean s d created e w hs hd p, generatorCall_exit s d created e w⟩

/-! non-vacuity: a body that creates two chunk files and raises -/
example :
    let d : Path := ["tmp", "pyndl123"]
    let body : Path → World → World × Exit := fun d w => ((d ++ ["events_0_0.dat"]) :: (d ++ ["events_0_1.dat"]) :: w, .raised)
    bracket d body [["tmp"], ["data", "events.tab.gz"]] = ([["tmp"], ["data", "events.tab.gz"]], .raised) := by
  decide +kernel

end Pyndl.C17
