/-
  C11 — Counting is exact and independent of the number of processes.

  Property theorems only (lemmas: PyndlProofs/Text.lean; model:
  PyndlModel/Text.lean, mirroring pyndl/count.py:27-162 and the start/step
  slicing of pyndl/io.py:52).  `str.split()`, `str.strip()` and `str.lower()`
  enter the word counter as Python-supplied tables (trusted base); the
  striding, the per-job counting incl. the `nn = -1` start, the Counter merge
  and the punctuation strip are the model's.

  Python's `int()` (the frequency column) is a PARAMETER `intOf` of the event
  counter: the theorems with suffix `_with` hold for EVERY `intOf : Str →
  Option Int`, so "for every file content" is meant literally — a third column
  `-1`, `+2`, `" 1 "`, `1_0`, a full-width digit is whatever that `int` makes of
  it (a negative value: no event, no error).  The theorems without suffix are
  the instance `pyInt` the driver runs.  (The earlier model accepted only
  `[0-9]+`, so `cues_outcomes_error` asserted errors the code does not raise.)

  Hypotheses carried by theorems here (for DESIGN §7): `1 ≤ n` (number of
  jobs) everywhere; at `n = 0` `multiprocessing.Pool(0)` raises `ValueError`:
  `zero_jobs_raises`.

  The word-counter theorems are about `wordsSymbolsE`, the function the driver
  evaluates (op `text_words`): `words_symbols` with its `ValueError` at
  `n_jobs = 0` and the harness-side `missingLower` (a word the Python-supplied
  `lower` table lacks).  `wordsSymbols` (the bare fold over the jobs) is an
  internal definition; `words_symbols_E_eq` relates the two for `n ≥ 1`.

  Lemmas that merely restate a definition are at the end under
  "lemmas (not property theorems)".
-/
import PyndlProofs.Text
import PyndlModel.Generated

namespace Pyndl.C11
open Pyndl Pyndl.Text

/-- **The `n` strided slices `islice(xs, k, None, n)`, `k < n`, partition `xs`**
    for every `n ≥ 1` — also `n > |xs|` (the surplus slices are empty), also
    `xs = []`. -/
theorem stride_perm {α : Type} (n : Nat) (hn : 1 ≤ n) (xs : List α) :
    ((List.range n).flatMap (fun k => stride k n xs)).Perm xs :=
  Text.stride_perm n hn xs

/-- **Strided sum.** For every `f` into a commutative monoid, adding up `f` over
    every slice and then over the slices is adding it up over the list. -/
theorem strided_sum {M : Type} [AddCommMonoid M] {α : Type} (f : α → M) (n : Nat) (hn : 1 ≤ n)
    (xs : List α) :
    ((List.range n).map (fun k => ((stride k n xs).map f).sum)).sum = (xs.map f).sum :=
  Text.strided_sum f n hn xs

/-- the `nn = -1` start: `_job_cues_outcomes` returns `nn + 1 =` the number of
    events of its slice, in particular `0` for an empty slice (more processes
    than lines). -/
theorem job_count_is_length (es : List TEvent) : (jobCuesOutcomes es).n = (es.length : Int) :=
  Text.job_n es

theorem empty_slice_counts_zero : (jobCuesOutcomes []).n = 0 := by
  simpa using Text.job_n []

/-- **`cues_outcomes` is exact for every `n_jobs ≥ 1`, for every `int`.** If the
    file reads as the event list `evs` (with a frequency column: every line
    repeated `max (int f) 0` times, C07 `freq_expand_with`), then
    `cues_outcomes(path, n_jobs=n)` returns, for every `n ≥ 1`: `n_events =
    |evs|`, and for every name `x` the number of occurrences of `x` as a cue
    resp. as an outcome in `evs`. -/
theorem cues_outcomes_exact_with (intOf : Str → Option Int) (n : Nat) (hn : 1 ≤ n) (content : Str)
    (evs : List TEvent) (h : parseFileWith intOf 0 1 content = some evs) :
    ∃ r, cuesOutcomesWith intOf n content = some r ∧ r.n = (evs.length : Int) ∧
      (∀ x, cGet r.cues x = (evs.map (fun e => e.cues.count x)).sum) ∧
      (∀ x, cGet r.outcomes x = (evs.map (fun e => e.outcomes.count x)).sum) :=
  Text.cuesOutcomesWith_exact intOf n hn content evs h

/-- the instance the driver runs -/
theorem cues_outcomes_exact (n : Nat) (hn : 1 ≤ n) (content : Str) (evs : List TEvent)
    (h : parseFile 0 1 content = some evs) :
    ∃ r, cuesOutcomes n content = some r ∧ r.n = (evs.length : Int) ∧
      (∀ x, cGet r.cues x = (evs.map (fun e => e.cues.count x)).sum) ∧
      (∀ x, cGet r.outcomes x = (evs.map (fun e => e.outcomes.count x)).sum) :=
  Text.cuesOutcomes_exact n hn content evs h

theorem n_events_exact (n : Nat) (hn : 1 ≤ n) (content : Str) (evs : List TEvent)
    (h : parseFile 0 1 content = some evs) :
    (cuesOutcomes n content).map (·.n) = some (evs.length : Int) := by
  obtain ⟨r, hr, h1, _, _⟩ := cues_outcomes_exact n hn content evs h
  simp [hr, h1]

theorem cue_counts_exact (n : Nat) (hn : 1 ≤ n) (content : Str) (evs : List TEvent)
    (h : parseFile 0 1 content = some evs) (x : Str) :
    (cuesOutcomes n content).map (fun r => cGet r.cues x)
      = some (evs.map (fun e => e.cues.count x)).sum := by
  obtain ⟨r, hr, _, h2, _⟩ := cues_outcomes_exact n hn content evs h
  simp [hr, h2]

theorem outcome_counts_exact (n : Nat) (hn : 1 ≤ n) (content : Str) (evs : List TEvent)
    (h : parseFile 0 1 content = some evs) (x : Str) :
    (cuesOutcomes n content).map (fun r => cGet r.outcomes x)
      = some (evs.map (fun e => e.outcomes.count x)).sum := by
  obtain ⟨r, hr, _, _, h3⟩ := cues_outcomes_exact n hn content evs h
  simp [hr, h3]

/-- the direct one-pass count the harness also evaluates is the same function. -/
theorem direct_is_one_job (intOf : Str → Option Int) (content : Str) (evs : List TEvent)
    (h : parseFileWith intOf 0 1 content = some evs) (x : Str) :
    (directCuesOutcomesWith intOf content).map (fun r => (r.n, cGet r.cues x, cGet r.outcomes x))
      = some ((evs.length : Int), (evs.map (fun e => e.cues.count x)).sum,
              (evs.map (fun e => e.outcomes.count x)).sum) := by
  simp [directCuesOutcomesWith, h, Text.job_n, Text.job_cues, Text.job_outcomes]

/-- **`words_symbols` is exact for every `n_jobs ≥ 1`**: given the words of all
    lines `ws` (after `split`, `strip`, punctuation strip, optional `lower`, empty
    words dropped), the call returns, and the word counter holds `ws.count x` and
    the symbol counter the total number of occurrences of the character `x` in
    the words.  Stated for `wordsSymbolsE`, the function the driver runs. -/
theorem word_counts_exact (lower : Option (List (Str × Str))) (n : Nat) (hn : 1 ≤ n)
    (lines : List (List Str)) (ws : List Str) (h : linesWords lower lines = some ws) :
    ∃ r, wordsSymbolsE lower n lines = .ok r ∧
      (∀ x, cGet r.words x = ws.count x) ∧
      (∀ x, cGet r.symbols x = (ws.map (symCount x)).sum) := by
  obtain ⟨r, hr, h1, h2⟩ := Text.wordsSymbols_exact lower n hn lines ws h
  exact ⟨r, (Text.wordsSymbolsE_ok_iff lower n hn lines r).2 hr, h1, h2⟩

/-- … and when the words of some line cannot be determined (the Python-supplied
    `lower` table lacks a word — a harness matter, not a behaviour of pyndl) the
    driver reports `missingLower` for every `n_jobs ≥ 1`: the faulty line is read
    by one of the jobs.  (Was listed as NOT PROVED.) -/
theorem word_counts_error (lower : Option (List (Str × Str))) (n : Nat) (hn : 1 ≤ n)
    (lines : List (List Str)) (h : linesWords lower lines = none) :
    wordsSymbolsE lower n lines = .error .missingLower :=
  (Text.wordsSymbolsE_pos lower n hn lines).2 (Text.wordsSymbols_error lower n hn lines h)

/-- **`words_symbols` does not depend on the number of processes**: what can be
    observed of the result (every word count, every symbol count, or the error)
    is the same for any two `n, m ≥ 1`, for every table of lines. -/
theorem word_n_jobs_irrelevant (lower : Option (List (Str × Str))) (n m : Nat) (hn : 1 ≤ n) (hm : 1 ≤ m)
    (lines : List (List Str)) (x y : Str) :
    (wordsSymbolsE lower n lines).map (fun r => (cGet r.words x, cGet r.symbols y))
      = (wordsSymbolsE lower m lines).map (fun r => (cGet r.words x, cGet r.symbols y)) := by
  cases h : linesWords lower lines with
  | none => rw [word_counts_error lower n hn lines h, word_counts_error lower m hm lines h]
  | some ws =>
    obtain ⟨r, hr, a1, a2⟩ := word_counts_exact lower n hn lines ws h
    obtain ⟨r', hr', b1, b2⟩ := word_counts_exact lower m hm lines ws h
    rw [hr, hr']
    simp [Except.map, a1, a2, b1, b2]

/-- **the returned counters have distinct keys and no zero counts** — for every
    `int`, every number of jobs, every file for which the call returns: every
    key occurs once, every stored count is positive, a name is a key exactly
    when it occurs (`cGet > 0`), and `cGet` (which would sum duplicate keys) is
    the count stored under the key.  In particular an event line with
    frequency 0 or a negative frequency contributes no key. -/
theorem counters_distinct_positive (intOf : Str → Option Int) (n : Nat) (content : Str) (r : CO)
    (h : cuesOutcomesWith intOf n content = some r) :
    (r.cues.map Prod.fst).Nodup ∧ (r.outcomes.map Prod.fst).Nodup ∧
    (∀ kn ∈ r.cues ++ r.outcomes, 0 < kn.2) ∧
    (∀ x, x ∈ r.cues.map Prod.fst ↔ 0 < cGet r.cues x) ∧
    (∀ x, x ∈ r.outcomes.map Prod.fst ↔ 0 < cGet r.outcomes x) ∧
    (∀ x k, (x, k) ∈ r.cues → cGet r.cues x = k) ∧
    (∀ x k, (x, k) ∈ r.outcomes → cGet r.outcomes x = k) := by
  obtain ⟨hc, ho⟩ := Text.cuesOutcomesWith_ok intOf n content r h
  refine ⟨hc.1, ho.1, ?_, hc.mem_iff, ho.mem_iff, fun x k => hc.get_eq x k, fun x k => ho.get_eq x k⟩
  intro kn hkn
  rcases List.mem_append.mp hkn with h' | h'
  · exact hc.2 kn h'
  · exact ho.2 kn h'

/-- the same for `words_symbols` (for every `n_jobs` for which the call returns;
    at `n_jobs = 0` it does not: `zero_jobs_raises`). -/
theorem word_counters_distinct_positive (lower : Option (List (Str × Str))) (n : Nat)
    (lines : List (List Str)) (r : WS) (h : wordsSymbolsE lower n lines = .ok r) :
    (r.words.map Prod.fst).Nodup ∧ (r.symbols.map Prod.fst).Nodup ∧
    (∀ kn ∈ r.words ++ r.symbols, 0 < kn.2) ∧
    (∀ x, x ∈ r.words.map Prod.fst ↔ 0 < cGet r.words x) ∧
    (∀ x, x ∈ r.symbols.map Prod.fst ↔ 0 < cGet r.symbols x) := by
  have hn := Text.wordsSymbolsE_ok_pos lower n lines r h
  obtain ⟨hw, hs⟩ := Text.wordsSymbols_ok lower n lines r ((Text.wordsSymbolsE_ok_iff lower n hn lines r).1 h)
  refine ⟨hw.1, hs.1, ?_, hw.mem_iff, hs.mem_iff⟩
  intro kn hkn
  rcases List.mem_append.mp hkn with h' | h'
  · exact hw.2 kn h'
  · exact hs.2 kn h'

/-- the error direction, for every `int`: a line that raises `ValueError` (not 2
    or 3 columns, or a third column THAT `int` rejects) is read by one of the
    `n ≥ 1` jobs, so `cues_outcomes` raises for every `n_jobs`. -/
theorem cues_outcomes_error_with (intOf : Str → Option Int) (n : Nat) (hn : 1 ≤ n) (content : Str)
    (h : parseFileWith intOf 0 1 content = none) : cuesOutcomesWith intOf n content = none :=
  Text.cuesOutcomesWith_error intOf n hn content h

/-- the instance -/
theorem cues_outcomes_error (n : Nat) (hn : 1 ≤ n) (content : Str)
    (h : parseFile 0 1 content = none) : cuesOutcomes n content = none :=
  Text.cuesOutcomes_error n hn content h

/-- **`n_jobs = 0` raises `ValueError`** (`multiprocessing.Pool(0)`: "Number of
    processes must be at least 1") for both counters, whatever the file is — the
    branch `1 ≤ n` excludes.  Checked on /repo. -/
theorem zero_jobs_raises (intOf : Str → Option Int) (content : Str)
    (lower : Option (List (Str × Str))) (lines : List (List Str)) :
    cuesOutcomesWith intOf 0 content = none ∧ cuesOutcomes 0 content = none ∧
    wordsSymbolsE lower 0 lines = .error .value :=
  ⟨Text.cuesOutcomesWith_zero intOf content, Text.cuesOutcomesWith_zero pyInt content, rfl⟩

/-- **Independence of the number of processes, for every `int`**: what can be
    observed of the result (`n_events`, every cue count, every outcome count, or
    the error) is the same for any two numbers of jobs `n, m ≥ 1` — for every
    file content (no restriction on the third column: it is read by `intOf`). -/
theorem n_jobs_irrelevant_with (intOf : Str → Option Int) (n m : Nat) (hn : 1 ≤ n) (hm : 1 ≤ m)
    (content : Str) (x : Str) :
    (cuesOutcomesWith intOf n content).map (fun r => (r.n, cGet r.cues x, cGet r.outcomes x))
      = (cuesOutcomesWith intOf m content).map (fun r => (r.n, cGet r.cues x, cGet r.outcomes x)) := by
  cases h : parseFileWith intOf 0 1 content with
  | none => rw [cues_outcomes_error_with intOf n hn content h, cues_outcomes_error_with intOf m hm content h]
  | some evs =>
    obtain ⟨r, hr, a1, a2, a3⟩ := cues_outcomes_exact_with intOf n hn content evs h
    obtain ⟨r', hr', b1, b2, b3⟩ := cues_outcomes_exact_with intOf m hm content evs h
    simp [hr, hr', a1, a2, a3, b1, b2, b3]

/-- the instance -/
theorem n_jobs_irrelevant (n m : Nat) (hn : 1 ≤ n) (hm : 1 ≤ m) (content : Str) (x : Str) :
    (cuesOutcomes n content).map (fun r => (r.n, cGet r.cues x, cGet r.outcomes x))
      = (cuesOutcomes m content).map (fun r => (r.n, cGet r.cues x, cGet r.outcomes x)) :=
  n_jobs_irrelevant_with pyInt n m hn hm content x


/-! Non-vacuity: a file with header, a frequency column (2, 0, absent) read by 5
jobs (more jobs than lines): 3 events, cue `a` twice, outcome `x` three times;
a corpus of three lines counted by 2 jobs. -/
example :
    let content := "c\to\na_b\tx\t2\nb\t\t0\nc\tx_y\n".toList
    (parseFile 0 1 content).map List.length = some 3 ∧
    (cuesOutcomes 5 content).map (fun r => (r.n, cGet r.cues ['a'], cGet r.outcomes ['x']))
      = some (3, 2, 3) ∧
    -- the line with frequency 0 contributes no key: `b` occurs only in the first line
    (cuesOutcomes 5 content).map (fun r => (r.cues.map Prod.fst, r.outcomes.map Prod.fst))
      = some ([['a'], ['b'], ['c']], [['x'], ['y']]) ∧
    cuesOutcomes 0 content = none ∧
    (wordsSymbolsE none 2 [[['h', 'i', '!'], ['a']], [['.']], [['h', 'i']]]).toOption.map
        (fun r => (cGet r.words ['h', 'i'], cGet r.symbols ['i'], r.words.length))
      = some (2, 2, 2) := by
  decide +kernel

def reviewFile : Str := "cues\toutcomes\na\tx\t-1\nb\ty\t+2\nb\ty\t 1 \nc\tz\t1_0\n".toList

/-- the file of the review (third columns `-1`, `+2`, `" 1 "`, `1_0`): the code
    counts 1·0 + 2 + 1 + 10 = 13 events (checked on /repo with `n_jobs` 1, 2, 3),
    and so does the model; a third column `1.0` raises for every `n_jobs`;
    `n_jobs_irrelevant_with` holds of both files without any restriction. -/
example :
    (cuesOutcomes 1 reviewFile).map (fun r => (r.n, r.cues, r.outcomes))
      = some ((13 : Int), [(['b'], 3), (['c'], 10)], [(['y'], 3), (['z'], 10)]) := by
  decide +kernel

example :
    (cuesOutcomes 3 reviewFile).map (fun r => (r.n, cGet r.cues ['b'], cGet r.cues ['a']))
      = some ((13 : Int), 3, 0) := by
  decide +kernel

example :
    parseFile 0 1 "cues\toutcomes\na\tx\t1.0\n".toList = none ∧
    cuesOutcomes 2 "cues\toutcomes\na\tx\t1.0\n".toList = none := by
  decide +kernel

/-! ### the main theorems APPLIED (every hypothesis instantiated) -/

/-- `cues_outcomes_exact`, `n_events_exact`, `cue_counts_exact`,
    `outcome_counts_exact` on the review file read by 3 jobs: the hypothesis
    `parseFile 0 1 … = some evs` is discharged by evaluation (13 events: 0 + 2 +
    1 + 10), the conclusions are the theorems'. -/
example :
    (∃ r, cuesOutcomes 3 reviewFile = some r ∧ r.n = 13 ∧ cGet r.cues ['b'] = 3 ∧ cGet r.outcomes ['z'] = 10) ∧
    (cuesOutcomes 3 reviewFile).map (·.n) = some 13 ∧
    (cuesOutcomes 7 reviewFile).map (fun r => cGet r.cues ['c']) = some 10 ∧
    (cuesOutcomes 2 reviewFile).map (fun r => cGet r.outcomes ['y']) = some 3 := by
  have h : parseFile 0 1 reviewFile
      = some (List.replicate 3 ⟨[['b']], [['y']]⟩ ++ List.replicate 10 ⟨[['c']], [['z']]⟩) := by
    decide +kernel
  obtain ⟨r, h1, h2, h3, h4⟩ := cues_outcomes_exact 3 (by omega) _ _ h
  refine ⟨⟨r, h1, by simpa using h2, ?_, ?_⟩, ?_, ?_, ?_⟩
  · rw [h3]; decide +kernel
  · rw [h4]; decide +kernel
  · simpa using n_events_exact 3 (by omega) _ _ h
  · rw [cue_counts_exact 7 (by omega) _ _ h]; decide +kernel
  · rw [outcome_counts_exact 2 (by omega) _ _ h]; decide +kernel

/-- `cues_outcomes_exact_with` with an `int` that is NOT `pyInt` (a table that
    reads `"two"` as 2 and rejects everything else but what `pyInt` reads). -/
example :
    ∃ r, cuesOutcomesWith (intOfTable [("two".toList, some 2)]) 4 "h\na_b\tx\ttwo\n".toList = some r ∧
      r.n = 2 ∧ cGet r.cues ['a'] = 2 := by
  have h : parseFileWith (intOfTable [("two".toList, some 2)]) 0 1 "h\na_b\tx\ttwo\n".toList
      = some (List.replicate 2 ⟨[['a'], ['b']], [['x']]⟩) := by decide +kernel
  obtain ⟨r, h1, h2, h3, _⟩ := cues_outcomes_exact_with _ 4 (by omega) _ _ h
  exact ⟨r, h1, by simpa using h2, by rw [h3]; decide +kernel⟩

/-- `n_jobs_irrelevant(_with)` APPLIED: 2 jobs against 5 jobs on the review file
    (the theorem has no hypothesis on the file), and on a file that raises. -/
example :
    (cuesOutcomes 2 reviewFile).map (fun r => (r.n, cGet r.cues ['b'], cGet r.outcomes ['b']))
      = (cuesOutcomes 5 reviewFile).map (fun r => (r.n, cGet r.cues ['b'], cGet r.outcomes ['b'])) ∧
    (cuesOutcomesWith pyInt 1 "cues\toutcomes\na\tx\t1.0\n".toList).map
        (fun r => (r.n, cGet r.cues ['a'], cGet r.outcomes ['a']))
      = (cuesOutcomesWith pyInt 9 "cues\toutcomes\na\tx\t1.0\n".toList).map
        (fun r => (r.n, cGet r.cues ['a'], cGet r.outcomes ['a'])) :=
  ⟨n_jobs_irrelevant 2 5 (by omega) (by omega) reviewFile ['b'],
   n_jobs_irrelevant_with pyInt 1 9 (by omega) (by omega) _ ['a']⟩

/-- `cues_outcomes_error(_with)` APPLIED: the file with third column `1.0`. -/
example : cuesOutcomes 6 "cues\toutcomes\na\tx\t1.0\n".toList = none :=
  cues_outcomes_error 6 (by omega) _ (by decide +kernel)

/-- `counters_distinct_positive` APPLIED to the result of 3 jobs on the review
    file: the hypothesis (the call returns `r`) by evaluation. -/
example :
    let r : CO := ⟨13, [(['b'], 3), (['c'], 10)], [(['y'], 3), (['z'], 10)]⟩
    (r.cues.map Prod.fst).Nodup ∧ (∀ kn ∈ r.cues ++ r.outcomes, 0 < kn.2) ∧
    (['a'] ∈ r.cues.map Prod.fst ↔ 0 < cGet r.cues ['a']) := by
  intro r
  have h : cuesOutcomesWith pyInt 1 reviewFile = some r := by
    have : (cuesOutcomes 1 reviewFile).map (fun r => (r.n, r.cues, r.outcomes))
        = some ((13 : Int), [(['b'], 3), (['c'], 10)], [(['y'], 3), (['z'], 10)]) := by decide +kernel
    unfold cuesOutcomes at this
    cases hc : cuesOutcomesWith pyInt 1 reviewFile with
    | none => rw [hc] at this; cases this
    | some r' =>
      rw [hc] at this
      simp only [Option.map_some, Option.some.injEq, Prod.mk.injEq] at this
      obtain ⟨a, b, c⟩ := this
      cases r'; simp_all; rfl
  obtain ⟨h1, _, h3, h4, _⟩ := counters_distinct_positive pyInt 1 reviewFile r h
  exact ⟨h1, h3, h4 ['a']⟩

/-- `zero_jobs_raises`, `stride_perm`, `strided_sum`, `job_count_is_length`,
    `direct_is_one_job` APPLIED. -/
example :
    (cuesOutcomes 0 reviewFile = none ∧
      wordsSymbolsE none 0 [[['a']]] = .error .value) ∧
    ((List.range 3).flatMap (fun k => stride k 3 [10, 11, 12, 13, 14, 15, 16])).Perm [10, 11, 12, 13, 14, 15, 16] ∧
    ((List.range 3).map (fun k => ((stride k 3 [10, 11, 12, 13, 14, 15, 16]).map (fun x => 2 * x)).sum)).sum
      = ([10, 11, 12, 13, 14, 15, 16].map (fun x => 2 * x)).sum ∧
    (jobCuesOutcomes [⟨[['a']], []⟩, ⟨[['a']], []⟩]).n = 2 :=
  ⟨⟨(zero_jobs_raises pyInt reviewFile none [[['a']]]).2.1, (zero_jobs_raises pyInt reviewFile none [[['a']]]).2.2⟩,
   stride_perm 3 (by omega) _, strided_sum (fun x => 2 * x) 3 (by omega) _,
   by simpa using job_count_is_length [⟨[['a']], []⟩, ⟨[['a']], []⟩]⟩

/-- the direct one-pass count on the review file (`direct_is_one_job` APPLIED) -/
example :
    (directCuesOutcomesWith pyInt reviewFile).map (fun r => (r.n, cGet r.cues ['b'], cGet r.outcomes ['b']))
      = some (13, 3, 0) := by
  have h : parseFileWith pyInt 0 1 reviewFile
      = some (List.replicate 3 ⟨[['b']], [['y']]⟩ ++ List.replicate 10 ⟨[['c']], [['z']]⟩) := by
    decide +kernel
  rw [direct_is_one_job pyInt reviewFile _ h ['b']]
  decide +kernel

/-- the word counter: `word_counts_exact`, `word_counters_distinct_positive`,
    `word_n_jobs_irrelevant`, `word_counts_error` APPLIED.  Lines
    `hi! a` / `.` / `Hi` with the `lower` table `{hi ↦ hi, Hi ↦ hi, a ↦ a, "" ↦ ""}`,
    3 jobs; and a table that lacks `Hi`. -/
def wsLines : List (List Str) := [[['h', 'i', '!'], ['a']], [['.']], [['H', 'i']]]
def wsLower : List (Str × Str) :=
  [(['h', 'i'], ['h', 'i']), (['H', 'i'], ['h', 'i']), (['a'], ['a']), ([], [])]

example :
    (∃ r, wordsSymbolsE (some wsLower) 3 wsLines = .ok r ∧
      cGet r.words ['h', 'i'] = 2 ∧ cGet r.symbols ['i'] = 2 ∧
      (r.words.map Prod.fst).Nodup ∧ (∀ kn ∈ r.words ++ r.symbols, 0 < kn.2)) ∧
    (wordsSymbolsE (some wsLower) 2 wsLines).map (fun r => (cGet r.words ['a'], cGet r.symbols ['h']))
      = (wordsSymbolsE (some wsLower) 5 wsLines).map (fun r => (cGet r.words ['a'], cGet r.symbols ['h'])) ∧
    wordsSymbolsE (some (wsLower.take 1)) 4 wsLines = .error .missingLower := by
  have h : linesWords (some wsLower) wsLines = some [['h', 'i'], ['a'], ['h', 'i']] := by decide +kernel
  obtain ⟨r, hr, h1, h2⟩ := word_counts_exact (some wsLower) 3 (by omega) wsLines _ h
  obtain ⟨d1, _, d3, _, _⟩ := word_counters_distinct_positive (some wsLower) 3 wsLines r hr
  refine ⟨⟨r, hr, by rw [h1]; decide +kernel, by rw [h2]; decide +kernel, d1, d3⟩,
    word_n_jobs_irrelevant (some wsLower) 2 5 (by omega) (by omega) wsLines ['a'] ['h'],
    word_counts_error _ 4 (by omega) wsLines (by decide +kernel)⟩

/-! ### lemmas (not property theorems) -/

/-- (definitional: `decide` on a regenerated constant) the punctuation set the word counter strips is the literal in count.py
    (`Generated.lean` is regenerated from /repo on every run) -/
theorem literals_match_source : Generated.countPunct.toList = punct := by decide +kernel


/-- (lemma) counters only ever get a key once (`c[k] += n` on an association
    list); the property statement is `counters_distinct_positive`. -/
theorem counter_keys_unique (c : Counter) (a : Str) (n : Nat) (h : (c.map Prod.fst).Nodup) :
    ((cAdd c a n).map Prod.fst).Nodup :=
  (Text.cAdd_keys_nodup c a n h).1

/-- (definitional: unfolds `wordsSymbolsE` at `n ≠ 0`) **the function the driver
    runs is the job fold for `n ≥ 1`**: `.ok r` exactly when the fold returns `r`;
    `missingLower` exactly when the fold fails. -/
theorem words_symbols_E_eq (lower : Option (List (Str × Str))) (n : Nat) (hn : 1 ≤ n)
    (lines : List (List Str)) :
    (∀ r, wordsSymbolsE lower n lines = .ok r ↔ wordsSymbols lower n lines = some r) ∧
    (wordsSymbols lower n lines = none → wordsSymbolsE lower n lines = .error .missingLower) :=
  ⟨fun r => Text.wordsSymbolsE_ok_iff lower n hn lines r, (Text.wordsSymbolsE_pos lower n hn lines).2⟩

end Pyndl.C11
