/-
  C11 — Counting is exact and independent of the number of processes.

  Property theorems only (lemmas: PyndlProofs/Text.lean; model:
  PyndlModel/Text.lean, mirroring pyndl/count.py:27-162 and the start/step
  slicing of pyndl/io.py:52).  `str.split()`, `str.strip()` and `str.lower()`
  enter the word counter as Python-supplied tables (trusted base); the
  striding, the per-job counting incl. the `nn = -1` start, the Counter merge
  and the punctuation strip are the model's.
-/
import PyndlProofs.Text
import PyndlModel.Generated

namespace Pyndl.C11
open Pyndl Pyndl.Text

/-- the punctuation set the word counter strips is the literal in count.py
    (`Generated.lean` is regenerated from /repo on every run) -/
theorem literals_match_source : Generated.countPunct.toList = punct := by decide +kernel

/-- **The `n` strided slices `islice(xs, k, None, n)`, `k < n`, partition `xs`**
    for every `n ≥ 1` — also `n > |xs|` (the surplus slices are empty), also
    `xs = []`. -/
theorem stride_perm {α : Type} (n : Nat) (hn : 1 ≤ n) (xs : List α) :
    ((List.range n).flatMap (fun k => stride k n xs)).Perm xs :=
  Text.stride_perm n hn xs

/-- **Strided sum.** For every `f` into a commutative monoid, adding up `f` over
    every slice and then over the slices is adding it up over the list. -/
theorem strided_sum {M : Type} [AddCommMonoid M] {α : Type} (f : α → M) (n : Nat) (hn : 1 ≤ n)
    (xs : List α) :
    ((List.range n).map (fun k => ((stride k n xs).map f).sum)).sum = (xs.map f).sum :=
  Text.strided_sum f n hn xs

/-- the `nn = -1` start: `_job_cues_outcomes` returns `nn + 1 =` the number of
    events of its slice, in particular `0` for an empty slice (more processes
    than lines). -/
theorem job_count_is_length (es : List TEvent) : (jobCuesOutcomes es).n = (es.length : Int) :=
  Text.job_n es

theorem empty_slice_counts_zero : (jobCuesOutcomes []).n = 0 := by
  simpa using Text.job_n []

/-- **`cues_outcomes` is exact for every `n_jobs ≥ 1`.** If the file reads as the
    event list `evs` (with a frequency column: every line repeated `int(f)` times,
    C07 `freq_expand`), then `cues_outcomes(path, n_jobs=n)` returns, for every
    `n ≥ 1`: `n_events = |evs|`, and for every name `x` the number of occurrences
    of `x` as a cue resp. as an outcome in `evs`. -/
theorem cues_outcomes_exact (n : Nat) (hn : 1 ≤ n) (content : Str) (evs : List TEvent)
    (h : parseFile 0 1 content = some evs) :
    ∃ r, cuesOutcomes n content = some r ∧ r.n = (evs.length : Int) ∧
      (∀ x, cGet r.cues x = (evs.map (fun e => e.cues.count x)).sum) ∧
      (∀ x, cGet r.outcomes x = (evs.map (fun e => e.outcomes.count x)).sum) :=
  Text.cuesOutcomes_exact n hn content evs h

theorem n_events_exact (n : Nat) (hn : 1 ≤ n) (content : Str) (evs : List TEvent)
    (h : parseFile 0 1 content = some evs) :
    (cuesOutcomes n content).map (·.n) = some (evs.length : Int) := by
  obtain ⟨r, hr, h1, _, _⟩ := cues_outcomes_exact n hn content evs h
  simp [hr, h1]

theorem cue_counts_exact (n : Nat) (hn : 1 ≤ n) (content : Str) (evs : List TEvent)
    (h : parseFile 0 1 content = some evs) (x : Str) :
    (cuesOutcomes n content).map (fun r => cGet r.cues x)
      = some (evs.map (fun e => e.cues.count x)).sum := by
  obtain ⟨r, hr, _, h2, _⟩ := cues_outcomes_exact n hn content evs h
  simp [hr, h2]

theorem outcome_counts_exact (n : Nat) (hn : 1 ≤ n) (content : Str) (evs : List TEvent)
    (h : parseFile 0 1 content = some evs) (x : Str) :
    (cuesOutcomes n content).map (fun r => cGet r.outcomes x)
      = some (evs.map (fun e => e.outcomes.count x)).sum := by
  obtain ⟨r, hr, _, _, h3⟩ := cues_outcomes_exact n hn content evs h
  simp [hr, h3]

/-- the direct one-pass count the harness also evaluates is the same function. -/
theorem direct_is_one_job (content : Str) (evs : List TEvent) (h : parseFile 0 1 content = some evs)
    (x : Str) :
    (directCuesOutcomes content).map (fun r => (r.n, cGet r.cues x, cGet r.outcomes x))
      = some ((evs.length : Int), (evs.map (fun e => e.cues.count x)).sum,
              (evs.map (fun e => e.outcomes.count x)).sum) := by
  simp [directCuesOutcomes, h, Text.job_n, Text.job_cues, Text.job_outcomes]

/-- **`words_symbols` is exact for every `n_jobs ≥ 1`**: given the words of all
    lines `ws` (after `split`, `strip`, punctuation strip, optional `lower`, empty
    words dropped), the word counter holds `ws.count x` and the symbol counter
    the total number of occurrences of the character `x` in the words. -/
theorem word_counts_exact (lower : Option (List (Str × Str))) (n : Nat) (hn : 1 ≤ n)
    (lines : List (List Str)) (ws : List Str) (h : linesWords lower lines = some ws) :
    ∃ r, wordsSymbols lower n lines = some r ∧
      (∀ x, cGet r.words x = ws.count x) ∧
      (∀ x, cGet r.symbols x = (ws.map (symCount x)).sum) :=
  Text.wordsSymbols_exact lower n hn lines ws h

/-- counters only ever get a key once (`c[k] += n` on an association list), so
    the `cGet` used above is the value printed for that key. -/
theorem counter_keys_unique (c : Counter) (a : Str) (n : Nat) (h : (c.map Prod.fst).Nodup) :
    ((cAdd c a n).map Prod.fst).Nodup :=
  (Text.cAdd_keys_nodup c a n h).1

/-- the error direction: a line that raises `ValueError` is read by one of the
    `n ≥ 1` jobs, so `cues_outcomes` raises for every `n_jobs`. -/
theorem cues_outcomes_error (n : Nat) (hn : 1 ≤ n) (content : Str)
    (h : parseFile 0 1 content = none) : cuesOutcomes n content = none :=
  Text.cuesOutcomes_error n hn content h

/-- **Independence of the number of processes**: what can be observed of the
    result (`n_events`, every cue count, every outcome count, or the error) is the
    same for any two numbers of jobs `n, m ≥ 1` — for every file content. -/
theorem n_jobs_irrelevant (n m : Nat) (hn : 1 ≤ n) (hm : 1 ≤ m) (content : Str) (x : Str) :
    (cuesOutcomes n content).map (fun r => (r.n, cGet r.cues x, cGet r.outcomes x))
      = (cuesOutcomes m content).map (fun r => (r.n, cGet r.cues x, cGet r.outcomes x)) := by
  cases h : parseFile 0 1 content with
  | none => rw [cues_outcomes_error n hn content h, cues_outcomes_error m hm content h]
  | some evs =>
    obtain ⟨r, hr, a1, a2, a3⟩ := cues_outcomes_exact n hn content evs h
    obtain ⟨r', hr', b1, b2, b3⟩ := cues_outcomes_exact m hm content evs h
    simp [hr, hr', a1, a2, a3, b1, b2, b3]

-- NOT PROVED: the analogous error direction for `wordsSymbols` (a missing entry of
-- the Python-supplied `lower` table); it is not a behaviour of pyndl but of the
-- harness' table, and the driver reports it as `missing_lower`.

/-! Non-vacuity: a file with header, a frequency column (2, 0, absent) read by 5
jobs (more jobs than lines): 3 events, cue `a` twice, outcome `x` three times;
a corpus of three lines counted by 2 jobs. -/
example :
    let content := "c\to\na_b\tx\t2\nb\t\t0\nc\tx_y\n".toList
    (parseFile 0 1 content).map List.length = some 3 ∧
    (cuesOutcomes 5 content).map (fun r => (r.n, cGet r.cues ['a'], cGet r.outcomes ['x']))
      = some (3, 2, 3) ∧
    (wordsSymbols none 2 [[['h', 'i', '!'], ['a']], [['.']], [['h', 'i']]]).map
        (fun r => (cGet r.words ['h', 'i'], cGet r.symbols ['i'], r.words.length))
      = some (2, 2, 2) := by
  decide +kernel

end Pyndl.C11
