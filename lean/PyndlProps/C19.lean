/-
  C19 — Corpus extraction is deterministic, complete and records missing files.

  Property theorems only (helper lemmas live in PyndlProofs/Corpus.lean).  They
  are about `Pyndl.Corpus.createCorpus`, the model of
  `pyndl.corpus.create_corpus_from_gz` (PyndlModel/Corpus.lean).

  ARITHMETIC.  The code computes and compares times in IEEE doubles; the
  property ("a paragraph break when the pause exceeds the break duration")
  means exact times.  The model takes the arithmetic as a parameter `Arith τ`
  (`cfg.arith`): `cfgF fps brk marker` is the code's (Lean `Float` = C double;
  this is what the driver executes), `cfgQ fps brk marker` the exact one.
  * Theorems with a generic `cfg : Cfg τ` hold for EVERY arithmetic and every
    `float()` (the literal reader `cfg.arith.lit` is a parameter), hence for
    the code's: sorting, threads, `.not_found`, no-overwrite, the error
    prefix, and the cleaning specification in terms of `cfg.arith.exceeds`.
  * Theorems that say what the CODE's run is in terms of EXACT times
    (`corpus_eq`, `not_found_listed`, `corpus_error_prefix`, `clean_document_code`)
    carry ONE hypothesis linking the two arithmetics, for every document `d`
    among the `.gz` files:
      `CodeCompareAgrees fps brk d` = `CompareAgrees (floatArith fps (floatOfRat brk))
                                       (ratArith fps brk) d`
    — DECIDABLE: "the doubles and the rationals order every pair of times the
    reader can compare on `d` the same way" (its other clause, "both accept the
    same time values", always holds: `codeCompareAgrees_iff`).  So these
    theorems say: IF the double and the exact comparisons agree on the
    documents, the two runs are the same run.  What is proved is the lifting
    from the single comparisons to the reader and to the whole corpus run
    (`readClean_agree`, `createCorpus_agree`: inductions over tags, sentences,
    files); the hypothesis is the step from doubles to rationals itself.  It is
    a CHECKED fact per test: the driver evaluates it on every document of every
    request (`compare_agrees`, next to `times_exact`), and the kernel evaluates
    it in the examples below (`decide +kernel`: `Float` on closed terms).
    The reviewer's counterexample (`E 00:00:03,08` / `S 00:00:08,08`: the code
    breaks the paragraph, exact arithmetic does not) is a theorem
    (`boundary_pair`).
  * OPEN (not proved, used only by the corollaries `*_of_times_exact`):
    `TimesExactSuffices fps brk` — every document in the decidable class
    `TimesExact` (whole-second times, or every pause at least one frame away
    from the break duration; fields below 2^24) satisfies `CodeCompareAgrees`.
    The IEEE rounding argument is in its docstring (PyndlModel/Corpus.lean).
    HISTORY: until the second review the main theorems took `TimesExact d` AND
    a "named assumption" `FloatCompareAgrees d := TimesExact d → CompareAgrees d`;
    every use was `hF hT`, i.e. the pair was equivalent to `CompareAgrees d`
    alone and `TimesExact` did no formal work.  That is now said openly.
  * Literal domain: the code calls `float()` on each of the four fields
    (corpus.py:31-34).  The executable arithmetics read non-empty ASCII digit
    strings only; `LitDomain` says when that is what `float` does, and
    `parse_time_error_in_domain` covers the error branch.  `LitDomain` is NOT
    part of `CodeCompareAgrees`: on a value such as `'00:00:1.5,00'` the model
    (both arithmetics) raises `ValueError` and the code does not; the exact-time
    theorems relate the two MODEL runs and are about the code only on
    documents in the literal domain (the driver's `times_exact` implies it).

  trusted: Lean `Float` +,-,*,/,<,ofNat are the C double operations CPython
  uses; `floatAccepts` is CPython's `float(str)` grammar on ASCII (compared
  with the real `float` on 28 465 strings when it was written).
-/
import PyndlProofs.Corpus

namespace Pyndl.C19
open Pyndl Pyndl.Corpus List

/-- **corpus_eq, for every arithmetic.** When the directory exists, the output
    file does not, and every `.gz` path is a document that parses or a missing
    file, the run returns normally and the corpus is the concatenation, over the
    `.gz` files in sorted path order, of the cleaned sentences of each readable
    document (`docPieces`, specified by `clean_document` below) followed by the
    end-of-document marker.  Holds whatever `float()`, the time arithmetic and
    the comparison are. -/
theorem corpus_eq_any_arith {τ : Type} (cfg : Cfg τ) (n : Nat) (directory outfile : Str) (w : World)
    (tree : List (Str × Entry)) (hd : w.dirExists = true) (ho : outfile ∉ w.files) (hn : 0 < n)
    (hr : ∀ p ∈ gzFiles directory tree, readable cfg p.2 = true) :
    (createCorpus cfg n directory outfile w tree).raised = none ∧
    (createCorpus cfg n directory outfile w tree).corpus
      = some ((gzFiles directory tree).flatMap (fun p => docPieces cfg p.2)) := by
  rw [createCorpus_ok cfg n directory outfile w tree hd ho hn hr]
  exact ⟨rfl, rfl⟩

/-- the hypothesis under which the run over doubles is the run over exact
    times: on every document among the `.gz` files the doubles and the
    rationals order every pair of times the reader can compare the same way
    (`CodeCompareAgrees`, decidable) -/
theorem code_eq_exact (fps : Nat) (brk : Rat) (marker : Str) (n : Nat) (directory outfile : Str)
    (w : World) (tree : List (Str × Entry))
    (hC : AllDocs (CodeCompareAgrees fps brk) (gzFiles directory tree)) :
    createCorpus (cfgF fps brk marker) n directory outfile w tree
      = createCorpus (cfgQ fps brk marker) n directory outfile w tree :=
  createCorpus_agree (cfgF fps brk marker) (cfgQ fps brk marker) rfl n directory outfile w tree hC

/-- under the OPEN statement `TimesExactSuffices`, documents in the decidable
    class `TimesExact` satisfy the hypothesis of the exact-time theorems -/
theorem agrees_of_times_exact (fps : Nat) (brk : Rat) (hS : TimesExactSuffices fps brk)
    (gz : List (Str × Entry)) (hT : AllDocs (TimesExact fps brk) gz) :
    AllDocs (CodeCompareAgrees fps brk) gz := by
  intro p hp
  have h1 := hT p hp
  cases he : p.2 with
  | doc d => rw [he] at h1; exact hS d h1
  | dangling => trivial
  | notGzip => trivial
  | dir => trivial

/-- **corpus_eq** (the code's arithmetic, exact-time specification).  The run
    over IEEE doubles (`cfgF`) returns normally and writes the concatenation,
    over the `.gz` files in sorted path order, of the lines of each readable
    document as the EXACT-time reader (`cfgQ`) cleans it, each followed by the
    marker — provided that on every document the double and the exact
    comparisons agree (`CodeCompareAgrees`, decidable; see the file header;
    without it the statement is false: `boundary_pair`). -/
theorem corpus_eq (fps : Nat) (brk : Rat) (marker : Str) (n : Nat) (directory outfile : Str) (w : World)
    (tree : List (Str × Entry)) (hd : w.dirExists = true) (ho : outfile ∉ w.files) (hn : 0 < n)
    (hC : AllDocs (CodeCompareAgrees fps brk) (gzFiles directory tree))
    (hr : ∀ p ∈ gzFiles directory tree, readable (cfgQ fps brk marker) p.2 = true) :
    (createCorpus (cfgF fps brk marker) n directory outfile w tree).raised = none ∧
    (createCorpus (cfgF fps brk marker) n directory outfile w tree).corpus
      = some ((gzFiles directory tree).flatMap (fun p => docPieces (cfgQ fps brk marker) p.2)) := by
  rw [code_eq_exact fps brk marker n directory outfile w tree hC]
  exact corpus_eq_any_arith _ n directory outfile w tree hd ho hn hr

/-- **corpus_eq_of_times_exact** (corollary under the OPEN statement
    `TimesExactSuffices`): `corpus_eq` for trees all of whose documents are in
    the decidable class `TimesExact`. -/
theorem corpus_eq_of_times_exact (fps : Nat) (brk : Rat) (marker : Str) (n : Nat) (directory outfile : Str)
    (w : World) (tree : List (Str × Entry)) (hS : TimesExactSuffices fps brk)
    (hd : w.dirExists = true) (ho : outfile ∉ w.files) (hn : 0 < n)
    (hT : AllDocs (TimesExact fps brk) (gzFiles directory tree))
    (hr : ∀ p ∈ gzFiles directory tree, readable (cfgQ fps brk marker) p.2 = true) :
    (createCorpus (cfgF fps brk marker) n directory outfile w tree).raised = none ∧
    (createCorpus (cfgF fps brk marker) n directory outfile w tree).corpus
      = some ((gzFiles directory tree).flatMap (fun p => docPieces (cfgQ fps brk marker) p.2)) :=
  corpus_eq fps brk marker n directory outfile w tree hd ho hn
    (agrees_of_times_exact fps brk hS _ hT) hr

/-- what "the `.gz` files in sorted path order" means: `gzFiles` is a
    permutation of the non-directory paths ending in `.gz` (joined with the
    directory), strictly increasing in Python's string order. -/
theorem gz_files_sorted (directory : Str) (tree : List (Str × Entry)) (hn : (tree.map (·.1)).Nodup) :
    gzFiles directory tree ~ gzUnsorted directory tree ∧
    (gzFiles directory tree).Pairwise (fun a b => lexLt a.1 b.1 = true) :=
  ⟨sortBy_perm _ _, sortBy_sortedLt _ _ (gzUnsorted_nodup directory tree hn)⟩

/-- **corpus_error_prefix, for every arithmetic.** An exception in one file
    ends the run with that exception; the corpus then holds exactly the
    documents that sort before it and no `.not_found` file is written. -/
theorem corpus_error_prefix_any_arith {τ : Type} (cfg : Cfg τ) (n : Nat) (directory outfile : Str) (w : World)
    (tree : List (Str × Entry)) (hd : w.dirExists = true) (ho : outfile ∉ w.files) (hn : 0 < n)
    (pre post : List (Str × Entry)) (p : Str × Entry) (hs : gzFiles directory tree = pre ++ p :: post)
    (hr : ∀ q ∈ pre, readable cfg q.2 = true) (hp : readable cfg p.2 = false) :
    ∃ e, createCorpus cfg n directory outfile w tree
      = ⟨some e, some (pre.flatMap (fun q => docPieces cfg q.2)), none⟩ :=
  createCorpus_error cfg n directory outfile w tree hd ho hn pre post p hs hr hp

/-- **corpus_error_prefix** (the code's arithmetic, exact-time specification):
    the first file (in sorted order) that the exact-time reader cannot deal
    with ends the run over doubles with an exception; the corpus holds exactly
    the exact-time lines of the documents before it; no `.not_found` file. -/
theorem corpus_error_prefix (fps : Nat) (brk : Rat) (marker : Str) (n : Nat) (directory outfile : Str)
    (w : World) (tree : List (Str × Entry)) (hd : w.dirExists = true) (ho : outfile ∉ w.files) (hn : 0 < n)
    (hC : AllDocs (CodeCompareAgrees fps brk) (gzFiles directory tree))
    (pre post : List (Str × Entry)) (p : Str × Entry) (hs : gzFiles directory tree = pre ++ p :: post)
    (hr : ∀ q ∈ pre, readable (cfgQ fps brk marker) q.2 = true)
    (hp : readable (cfgQ fps brk marker) p.2 = false) :
    ∃ e, createCorpus (cfgF fps brk marker) n directory outfile w tree
      = ⟨some e, some (pre.flatMap (fun q => docPieces (cfgQ fps brk marker) q.2)), none⟩ := by
  rw [code_eq_exact fps brk marker n directory outfile w tree hC]
  exact createCorpus_error _ n directory outfile w tree hd ho hn pre post p hs hr hp

/-- **threads_independent (1).** `Pool.imap` hands out the results in
    submission order whatever order they arrive in: for *every* permutation
    `arr` of the indexed results the iterator yields `map f xs`. -/
theorem imap_any_arrival_order {α β : Type} (f : α → β) (xs : List α) (arr : List (Nat × β))
    (h : arr ~ xs.zipIdx.map (fun p => (p.2, f p.1))) : collect xs.length arr = xs.map f :=
  collect_eq_map f xs arr h

/-- **threads_independent (2).** The whole outcome (exception, corpus,
    `.not_found` file) is the same for every two numbers of worker processes
    `≥ 1` — unconditionally, also for runs that raise. -/
theorem threads_independent {τ : Type} (cfg : Cfg τ) (n m : Nat) (hn : 0 < n) (hm : 0 < m) (directory outfile : Str)
    (w : World) (tree : List (Str × Entry)) :
    createCorpus cfg n directory outfile w tree = createCorpus cfg m directory outfile w tree := by
  unfold createCorpus
  have h1 : ¬ n = 0 := by omega
  have h2 : ¬ m = 0 := by omega
  simp only [h1, h2, if_false, imap_eq_map n hn, imap_eq_map m hm]

/-- **not_found_listed, for every arithmetic.** Under the hypotheses of `corpus_eq_any_arith`: the run returns
    normally; the `.not_found` file exists iff some `.gz` path is dangling and
    then holds, in sorted order, one line `path\n` per dangling path — each
    exactly once; the corpus is what the tree without the dangling paths gives. -/
theorem not_found_listed_any_arith {τ : Type} (cfg : Cfg τ) (n : Nat) (directory outfile : Str) (w : World)
    (tree : List (Str × Entry)) (hd : w.dirExists = true) (ho : outfile ∉ w.files) (hn : 0 < n)
    (hr : ∀ p ∈ gzFiles directory tree, readable cfg p.2 = true)
    (hnd : (tree.map (·.1)).Nodup) :
    let o := createCorpus cfg n directory outfile w tree
    let missing := ((gzFiles directory tree).filter (fun p => isDangling p.2)).map (fun p => p.1 ++ ['\n'])
    o.raised = none ∧
    o.notFound = (if missing = [] then none
                  else some (safeWritePath w.files (outfile ++ notFoundSuffix), missing)) ∧
    (∀ p ∈ gzFiles directory tree, isDangling p.2 = true → missing.count (p.1 ++ ['\n']) = 1) ∧
    o.corpus = some (((gzFiles directory tree).filter (fun p => !isDangling p.2)).flatMap
                      (fun p => docPieces cfg p.2)) := by
  intro o missing
  have ho' : o = okOutcome cfg outfile w (gzFiles directory tree) :=
    createCorpus_ok cfg n directory outfile w tree hd ho hn hr
  have hm : (gzFiles directory tree).flatMap nfLine = missing := flatMap_nfLine_eq _
  refine ⟨by rw [ho']; rfl, by rw [ho']; simp only [okOutcome, hm], ?_, ?_⟩
  · intro p hp hdang
    have hmem : p.1 ++ ['\n'] ∈ missing :=
      mem_map.mpr ⟨p, mem_filter.mpr ⟨hp, hdang⟩, rfl⟩
    have hnodup : missing.Nodup := by
      have h1 : (((gzFiles directory tree).filter (fun p => isDangling p.2)).map (·.1)).Nodup :=
        (gzFiles_nodup directory tree hnd).sublist ((filter_sublist).map _)
      have h2 := h1.map (f := fun s => s ++ ['\n']) (fun a b h => List.append_cancel_right h)
      rw [List.map_map] at h2
      exact h2
    exact count_eq_one_of_mem hnodup hmem
  · rw [ho']
    simp only [okOutcome]
    rw [flatMap_docPieces_filter]

/-- **not_found_listed** (the code's arithmetic, exact-time specification):
    `not_found_listed_any_arith` for the run over doubles with the corpus given
    by the exact-time reader, under `CodeCompareAgrees` for every document. -/
theorem not_found_listed (fps : Nat) (brk : Rat) (marker : Str) (n : Nat) (directory outfile : Str)
    (w : World) (tree : List (Str × Entry)) (hd : w.dirExists = true) (ho : outfile ∉ w.files) (hn : 0 < n)
    (hC : AllDocs (CodeCompareAgrees fps brk) (gzFiles directory tree))
    (hr : ∀ p ∈ gzFiles directory tree, readable (cfgQ fps brk marker) p.2 = true)
    (hnd : (tree.map (·.1)).Nodup) :
    let o := createCorpus (cfgF fps brk marker) n directory outfile w tree
    let missing := ((gzFiles directory tree).filter (fun p => isDangling p.2)).map (fun p => p.1 ++ ['\n'])
    o.raised = none ∧
    o.notFound = (if missing = [] then none
                  else some (safeWritePath w.files (outfile ++ notFoundSuffix), missing)) ∧
    (∀ p ∈ gzFiles directory tree, isDangling p.2 = true → missing.count (p.1 ++ ['\n']) = 1) ∧
    o.corpus = some (((gzFiles directory tree).filter (fun p => !isDangling p.2)).flatMap
                      (fun p => docPieces (cfgQ fps brk marker) p.2)) := by
  rw [code_eq_exact fps brk marker n directory outfile w tree hC]
  exact not_found_listed_any_arith _ n directory outfile w tree hd ho hn hr hnd

/-- **sort_total (1).** Python's string order on paths is a strict total order. -/
theorem sort_total (a b c : Str) :
    lexLt a a = false ∧
    (lexLt a b = true → lexLt b c = true → lexLt a c = true) ∧
    (lexLt a b = true ∨ a = b ∨ lexLt b a = true) := by
  refine ⟨lexLt_irrefl a, lexLt_trans, ?_⟩
  cases h1 : lexLt a b with
  | true => exact Or.inl rfl
  | false =>
    cases h2 : lexLt b a with
    | true => exact Or.inr (Or.inr rfl)
    | false => exact Or.inr (Or.inl (lexLt_total h1 h2))

/-- **sort_total (2).** Hence the sorted file list is unique: any two strictly
    increasing arrangements of the same paths are the same list … -/
theorem sorted_unique {l₁ l₂ : List (Str × Entry)}
    (h₁ : l₁.Pairwise (fun a b => lexLt a.1 b.1 = true)) (h₂ : l₂.Pairwise (fun a b => lexLt a.1 b.1 = true))
    (hp : l₁ ~ l₂) : l₁ = l₂ :=
  sortedLt_unique (fun p : Str × Entry => p.1) h₁ h₂ hp

/-- … so the outcome does not depend on the order in which `os.walk` lists the
    tree (determinism of the corpus). -/
theorem walk_order_irrelevant {τ : Type} (cfg : Cfg τ) (n : Nat) (directory outfile : Str) (w : World)
    {t₁ t₂ : List (Str × Entry)} (hp : t₁ ~ t₂) (hnd : (t₁.map (·.1)).Nodup) :
    createCorpus cfg n directory outfile w t₁ = createCorpus cfg n directory outfile w t₂ := by
  unfold createCorpus
  rw [gzFiles_perm directory hp hnd]

/-- **no_overwrite (1).** An existing output file: `OSError`, nothing written. -/
theorem no_overwrite {τ : Type} (cfg : Cfg τ) (n : Nat) (directory outfile : Str) (w : World)
    (tree : List (Str × Entry)) (ho : outfile ∈ w.files) :
    createCorpus cfg n directory outfile w tree = ⟨some .io, none, none⟩ := by
  unfold createCorpus
  have : w.files.contains outfile = true := by simpa using ho
  by_cases hd : (!w.dirExists) = true
  · rw [if_pos hd]
  · rw [if_neg hd, if_pos this]

/-- **no_overwrite (2).** Whatever the run does, the `.not_found` file it
    creates is not one of the existing files (and is not the corpus file):
    it is the first of `outfile.not_found`, `outfile.not_found-1`, … that does
    not exist. -/
theorem no_overwrite_not_found {τ : Type} (cfg : Cfg τ) (n : Nat) (directory outfile : Str) (w : World)
    (tree : List (Str × Entry)) (name : Str) (lines : List Str)
    (h : (createCorpus cfg n directory outfile w tree).notFound = some (name, lines)) :
    name ∉ w.files ∧ name ≠ outfile ∧
    ∃ k, name = candidate (outfile ++ notFoundSuffix) k ∧
      ∀ j < k, candidate (outfile ++ notFoundSuffix) j ∈ w.files := by
  have hname : name = safeWritePath w.files (outfile ++ notFoundSuffix) := by
    unfold createCorpus at h
    simp only at h
    by_cases h1 : (!w.dirExists) = true
    · rw [if_pos h1] at h; cases h
    · by_cases h2 : w.files.contains outfile = true
      · rw [if_neg h1, if_pos h2] at h; cases h
      · by_cases h3 : n = 0
        · rw [if_neg h1, if_neg h2, if_pos h3] at h; cases h
        · rw [if_neg h1, if_neg h2, if_neg h3] at h
          generalize consume (imap n (fun p => runJob cfg p.1 p.2) (gzFiles directory tree)) = c at h
          obtain ⟨written, nf, err⟩ := c
          cases err with
          | some e => cases h
          | none =>
            by_cases hnf : nf = []
            · simp only [hnf, if_true] at h; cases h
            · simp only [hnf, if_false] at h
              exact ((Prod.mk.inj (Option.some.inj h)).1).symm
  subst hname
  refine ⟨safeWritePath_fresh _ _, ?_, ?_⟩
  · intro e
    have := safeWritePath_length w.files (outfile ++ notFoundSuffix)
    rw [e] at this
    have hl : notFoundSuffix.length = 10 := by decide +kernel
    rw [List.length_append, hl] at this
    omega
  · obtain ⟨k, hk, _, hfirst⟩ := safeWritePath_spec w.files (outfile ++ notFoundSuffix)
    exact ⟨k, hk, hfirst⟩

/-! ## Cleaned sentences

What `read_clean_gzfile` yields, as a function of the words and time tags, for
every arithmetic (`cfg.arith`): punctuation attaches to the preceding word,
blanks are stripped, empty sentences are skipped, one `'\n'` is prepended per
paragraph break, and a paragraph break is an `S` tag whose time exceeds the
`last_time` (time of the latest `E` tag seen so far in the document, initially
`0.0`) by more than the break duration. -/

/-- **clean_words.** The words of a sentence are joined by writing every
    punctuation mark (one of `. , : ; ? ! ( ) [ ] '`, as a text of its own) as it
    is and every other text with one blank before it (`token`); a `<w>` without
    text makes the sentence — and the document — raise `ValueError`. -/
theorem clean_words :
    (∀ ts : List Str, joinWords (ts.map some) = .ok (ts.flatMap token)) ∧
    (∀ t : Str, token t = if isPunct t then t else ' ' :: t) ∧
    (∀ t : Str, isPunct t = true ↔ ∃ c, t = [c] ∧ c ∈ punctuation) ∧
    (∀ ws : List (Option Str), none ∈ ws → joinWords ws = .error .value) ∧
    (∀ ws : List (Option Str), (∃ ts : List Str, ws = ts.map some) ∨ none ∈ ws) := by
  refine ⟨joinWords_some, fun _ => rfl, ?_, joinWords_error, all_some_or_none⟩
  intro t
  constructor
  · intro h
    match t, h with
    | [c], h => exact ⟨c, rfl, by simpa [isPunct] using h⟩
  · rintro ⟨c, rfl, hc⟩
    simpa [isPunct] using hc

/-- **clean_strip.** `strip` removes exactly the leading and trailing blanks
    (`str.isspace` characters): every string is blanks, its stripped part,
    blanks; the stripped part neither starts nor ends with a blank; and it is
    the only middle part with that property. -/
theorem clean_strip (s : Str) :
    (∃ pre post, s = pre ++ strip s ++ post ∧ (∀ c ∈ pre, isPySpace c = true) ∧
      (∀ c ∈ post, isPySpace c = true)) ∧
    (∀ c, (strip s).head? = some c → isPySpace c = false) ∧
    (∀ c, (strip s).getLast? = some c → isPySpace c = false) ∧
    (∀ pre m post, s = pre ++ m ++ post → (∀ c ∈ pre, isPySpace c = true) →
      (∀ c ∈ post, isPySpace c = true) → (∀ c, m.head? = some c → isPySpace c = false) →
      (∀ c, m.getLast? = some c → isPySpace c = false) → strip s = m) :=
  ⟨strip_decomp s, (strip_ends s).1, (strip_ends s).2,
    fun pre m post e h1 h2 h3 h4 => e ▸ strip_eq_middle pre m post h1 h2 h3 h4⟩

/-- **clean_sentence.** One `<s>` element with words `ts` (all present),
    entered with `last_time = last`:
    (1) if the joined words are blank, nothing is yielded, `last_time` stays,
        and the time tags are not even parsed;
    (2) otherwise, with acceptable time tags (value parses, id ends in `S` or
        `E`), the line is `breakCount` times `'\n'`, the stripped joined words,
        `'\n'`, and `last_time` becomes the time of the last `E` tag;
    (3) otherwise the first unacceptable tag raises `ValueError`. -/
theorem clean_sentence {τ : Type} (cfg : Cfg τ) (last : τ) (s : Sentence) (ts : List Str)
    (hw : s.words = ts.map some) :
    (strip (ts.flatMap token) = [] → sentenceLine cfg last s = .ok (none, last)) ∧
    (strip (ts.flatMap token) ≠ [] → (∀ t ∈ s.times, tagOk cfg t = true) →
      sentenceLine cfg last s
        = .ok (some (List.replicate (breakCount cfg last s.times) '\n' ++ strip (ts.flatMap token) ++ ['\n']),
               lastE cfg last s.times)) ∧
    (strip (ts.flatMap token) ≠ [] → ∀ pre t post, s.times = pre ++ t :: post →
      (∀ u ∈ pre, tagOk cfg u = true) → tagOk cfg t = false →
      sentenceLine cfg last s = .error .value) :=
  ⟨sentence_empty cfg last s ts hw, sentence_line cfg last s ts hw,
    fun hne pre t post e h1 hb => sentence_tag_error cfg last s ts hw hne pre post t e h1 hb⟩

/-- **paragraph_break_iff** (what `breakCount` counts, in exact times): the tag
    `t`, met while `last_time = l`, starts a new paragraph iff it is an `S` tag
    whose time exceeds `l` by MORE than the break duration.  (`breakCount cfg
    last tags` is by definition the number of tags `t` of the sentence for which
    this holds with `l = lastE cfg last pre`, `pre` the tags before `t`.) -/
theorem paragraph_break_iff (fps : Nat) (brk : Rat) (marker : Str) (l : Rat) (t : TimeTag) :
    breaksAt (cfgQ fps brk marker) l t = true ↔
      isS t = true ∧ ∃ cur, parseTime (ratArith fps brk) t.value = .ok cur ∧ cur - l > brk := by
  unfold breaksAt cfgQ
  simp only [Bool.and_eq_true]
  constructor
  · rintro ⟨hs, h⟩
    refine ⟨hs, ?_⟩
    cases hp : parseTime (ratArith fps brk) t.value with
    | error e => rw [hp] at h; cases h
    | ok cur =>
      rw [hp] at h
      exact ⟨cur, rfl, by simpa [ratArith] using h⟩
  · rintro ⟨hs, cur, hp, hgt⟩
    refine ⟨hs, ?_⟩
    rw [hp]
    simpa [ratArith] using hgt

/-- the exact time of `hh:mm:ss,ff` (any number of digits per field; `,` and
    `:` are interchangeable): `hh·3600 + mm·60 + ss + ff/fps` -/
theorem parse_time_exact (fps : Nat) (brk : Rat) (v : Str) (h m s f : Str) (a b c e : Nat)
    (hf : fields v = [h, m, s, f]) (ha : parseNat h = some a) (hb : parseNat m = some b)
    (hc : parseNat s = some c) (he : parseNat f = some e) :
    parseTime (ratArith fps brk) v
      = .ok ((a : Rat) * 60 * 60 + (b : Rat) * 60 + (c : Rat) + (e : Rat) / (fps : Rat)) := by
  unfold fields at hf
  unfold parseTime
  rw [hf]
  simp [ratArith, ha, hb, hc, he]

/-- **parse_time_spec** (`_parse_time_string`, both branches, every `float()`):
    exactly four fields that `float` accepts give the time formed from them;
    anything else raises `ValueError`. -/
theorem parse_time_spec {τ : Type} (A : Arith τ) (v : Str) :
    (∃ h m s f a b c e, fields v = [h, m, s, f] ∧ A.lit h = some a ∧ A.lit m = some b ∧
        A.lit s = some c ∧ A.lit f = some e ∧ parseTime A v = .ok (A.time a b c e)) ∨
    (((fields v).length ≠ 4 ∨ ∃ x ∈ fields v, A.lit x = none) ∧ parseTime A v = .error .value) :=
  parseTime_spec A v

/-- **parse_time_error_in_domain** (the literal domain made explicit).  The
    executable arithmetics read a field with `parseNat`: exactly the non-empty
    ASCII digit strings.  For a time value in `LitDomain` their `ValueError` is
    the code's: it is raised iff the value does not have four fields or has a
    field that CPython's `float` grammar rejects.  Outside `LitDomain`
    (`'00:00:1.5,00'`, `'00:00:+1,00'`, …: `float` accepts, the model does not)
    no theorem of this file speaks about the code. -/
theorem parse_time_error_in_domain (fps : Nat) (brk : Rat) (v : Str) (hdom : LitDomain v = true) :
    (parseTime (ratArith fps brk) v = .error .value ↔
      ((fields v).length ≠ 4 ∨ ∃ x ∈ fields v, floatRejects x = true)) ∧
    (∀ f : Str, (parseNat f).isSome = (!f.isEmpty && f.all isAsciiDigit)) ∧
    (∀ f : Str, f ≠ [] → f.all isAsciiDigit = true → floatAccepts f = true) :=
  ⟨parseTime_error_in_domain fps brk v hdom, parseNat_isSome, digits_floatAccepts⟩

/-- **clean_document.** For every arithmetic: a document is either read
    completely — then its lines are, in document order, the lines (`lineOf`:
    `'\n'` per paragraph break, stripped joined words, `'\n'`) of the sentences
    that are not skipped, each entered with `last_time` = the time of the last
    `E` tag among the tags of the kept sentences before it (`0.0` if none) —
    or, if some sentence has a `<w>` without text or (not being skipped) an
    unacceptable time tag, raises `ValueError` and yields nothing. -/
theorem clean_document {τ : Type} (cfg : Cfg τ) (d : Document) :
    (d.all (regular cfg) = true ∧
      readClean cfg d = .ok ((d.inits.zip d).filterMap
        (fun p => lineOf cfg (lastE cfg cfg.arith.zero (keptTags p.1)) p.2))) ∨
    (d.all (regular cfg) = false ∧ readClean cfg d = .error .value) :=
  readClean_total cfg d

/-- **clean_document_code.** On a document on which the doubles and the
    rationals order every pair of times the reader can compare the same way
    (`CodeCompareAgrees`, decidable), the reader over doubles (the code) yields
    exactly what the reader over exact times yields — the same lines or the
    same exception — so `clean_document` with `paragraph_break_iff` describes
    the code's output. -/
theorem clean_document_code (fps : Nat) (brk : Rat) (marker : Str) (d : Document)
    (hC : CodeCompareAgrees fps brk d) :
    readClean (cfgF fps brk marker) d = readClean (cfgQ fps brk marker) d :=
  readClean_agree (cfgF fps brk marker) (cfgQ fps brk marker) d hC

/-- **clean_document_code_of_times_exact** (corollary under the OPEN statement
    `TimesExactSuffices`) -/
theorem clean_document_code_of_times_exact (fps : Nat) (brk : Rat) (marker : Str) (d : Document)
    (hS : TimesExactSuffices fps brk) (hT : TimesExact fps brk d) :
    readClean (cfgF fps brk marker) d = readClean (cfgQ fps brk marker) d :=
  clean_document_code fps brk marker d (hS d hT)

/-! ## Non-vacuity

A concrete tree (directory `t`): `b.gz` with a pause of 6 s > 5 s before the
first sentence (paragraph break), punctuation and an empty sentence whose bad
time tag is skipped; `B.gz` dangling; a nested `a/x.gz` (empty document), a
directory named `d.gz`, a non-`.gz` file.  `B.gz` sorts before `a/x.gz` before
`b.gz` (code points).  ALL hypotheses of `corpus_eq` / `not_found_listed` hold —
`CodeCompareAgrees` is evaluated by the kernel, doubles included (the tree is
also inside `TimesExact`) — and the outcome of the run over doubles is the expected non-trivial
one; an existing `out.not_found` moves the list to `out.not_found-1`. -/

def exTree : List (Str × Entry) :=
  [("b.gz".toList, .doc [⟨[some "Hi".toList, some ",".toList, some "you".toList],
                          [⟨"T1S".toList, "00:00:06,00".toList⟩, ⟨"T1E".toList, "00:00:07,15".toList⟩]⟩,
                        ⟨[some " ".toList], [⟨"TX".toList, "bad".toList⟩]⟩,
                        ⟨[some "ok".toList, some ".".toList],
                          [⟨"T2S".toList, "00:00:12,14".toList⟩]⟩]),
   ("B.gz".toList, .dangling), ("a/x.gz".toList, .doc []), ("d.gz".toList, .dir),
   ("r.txt".toList, .notGzip)]

def exWorld : World := ⟨true, ["out.not_found".toList]⟩

theorem exTree_times_exact : AllDocs (TimesExact specFps specBreak) (gzFiles "t".toList exTree) := by
  decide +kernel

/-- the hypothesis of the exact-time theorems, PROVED for this tree: the kernel
    evaluates the doubles -/
theorem exTree_float_agrees : AllDocs (CodeCompareAgrees specFps specBreak) (gzFiles "t".toList exTree) := by
  decide +kernel

theorem exTree_readable : ∀ p ∈ gzFiles "t".toList exTree, readable specCfg p.2 = true := by
  decide +kernel

/-- `corpus_eq` and `not_found_listed` applied: every hypothesis instantiated -/
example :
    (createCorpus specCfgF 3 "t".toList "out".toList exWorld exTree).raised = none ∧
    (createCorpus specCfgF 3 "t".toList "out".toList exWorld exTree).corpus
      = some ((gzFiles "t".toList exTree).flatMap (fun p => docPieces specCfg p.2)) :=
  corpus_eq specFps specBreak specMarker 3 "t".toList "out".toList exWorld exTree (by decide +kernel)
    (by decide +kernel) (by decide) exTree_float_agrees exTree_readable

example :=
  not_found_listed specFps specBreak specMarker 3 "t".toList "out".toList exWorld exTree (by decide +kernel)
    (by decide +kernel) (by decide) exTree_float_agrees exTree_readable
    (by decide +kernel)

/-- … and what they say here, evaluated for the run over doubles -/
example :
    (gzFiles "t".toList exTree).map (·.1) = ["t/B.gz".toList, "t/a/x.gz".toList, "t/b.gz".toList] ∧
    createCorpus specCfgF 3 "t".toList "out".toList exWorld exTree
      = ⟨none,
         some ["\n---END.OF.DOCUMENT---\n\n".toList, "\nHi, you\n".toList, "ok.\n".toList,
               "\n---END.OF.DOCUMENT---\n\n".toList],
         some ("out.not_found-1".toList, ["t/B.gz\n".toList])⟩ := by
  decide +kernel

/-- `corpus_error_prefix` applied: a third file `c.gz` whose only sentence has
    an unknown tag type; the corpus holds the two documents before it -/
def exTreeBad : List (Str × Entry) :=
  exTree ++ [("c.gz".toList, .doc [⟨[some "x".toList], [⟨"T1X".toList, "00:00:01,00".toList⟩]⟩])]

example : ∃ e, createCorpus specCfgF 2 "t".toList "out".toList exWorld exTreeBad
    = ⟨some e, some (((gzFiles "t".toList exTreeBad).take 3).flatMap (fun q => docPieces specCfg q.2)), none⟩ :=
  corpus_error_prefix specFps specBreak specMarker 2 "t".toList "out".toList exWorld exTreeBad
    (by decide +kernel) (by decide +kernel) (by decide) (by decide +kernel)
    ((gzFiles "t".toList exTreeBad).take 3) []
    ("t/c.gz".toList, .doc [⟨[some "x".toList], [⟨"T1X".toList, "00:00:01,00".toList⟩]⟩])
    (by decide +kernel) (by decide +kernel) (by decide +kernel)

/-- a pause of 5 s − 1 frame gives no break, 5 s + 1 frame gives one — in exact
    times and in doubles (the document satisfies `TimesExact`) -/
def exPause : Document :=
  [⟨[some "a".toList], [⟨"E".toList, "00:00:01,00".toList⟩]⟩,
   ⟨[some "b".toList], [⟨"S".toList, "00:00:05,29".toList⟩]⟩,
   ⟨[some "c".toList], [⟨"S".toList, "00:00:06,01".toList⟩]⟩]

example : TimesExact specFps specBreak exPause ∧ CodeCompareAgrees specFps specBreak exPause ∧
    readClean specCfg exPause = .ok ["a\n".toList, "b\n".toList, "\nc\n".toList] ∧
    readClean specCfgF exPause = .ok ["a\n".toList, "b\n".toList, "\nc\n".toList] := by
  refine ⟨by decide +kernel, by decide +kernel, by decide +kernel, by decide +kernel⟩

/-- whole seconds: a pause of exactly 5 s (no break: the test is `>`) satisfies
    `TimesExact` by its second clause, and the doubles agree -/
def exWhole : Document :=
  [⟨[some "a".toList], [⟨"E".toList, "00:00:03,00".toList⟩]⟩,
   ⟨[some "b".toList], [⟨"S".toList, "00:00:08,00".toList⟩, ⟨"E".toList, "00:00:07,30".toList⟩]⟩,
   ⟨[some "c".toList], [⟨"S".toList, "00:00:14:00".toList⟩]⟩]

example : TimesExact specFps specBreak exWhole ∧ CodeCompareAgrees specFps specBreak exWhole ∧
    readClean specCfgF exWhole = .ok ["a\n".toList, "b\n".toList, "\nc\n".toList] := by
  refine ⟨by decide +kernel, by decide +kernel, by decide +kernel⟩

/-- **boundary_pair** (the reviewer's input): `E 00:00:03,08` then
    `S 00:00:08,08` is a pause of exactly 5 s between fractional times.  The
    double difference is 5.000000000000001 > 5.0: the CODE (and the model over
    doubles) starts a new paragraph, exact arithmetic does not.  The document
    violates `TimesExact` and `CompareAgrees`; this is why the hypothesis of
    `corpus_eq` is needed. -/
def exBoundary : Document :=
  [⟨[some "a".toList], [⟨"E".toList, "00:00:03,08".toList⟩]⟩,
   ⟨[some "b".toList], [⟨"S".toList, "00:00:08,08".toList⟩]⟩]

theorem boundary_pair :
    readClean specCfgF exBoundary = .ok ["a\n".toList, "\nb\n".toList] ∧
    readClean specCfg exBoundary = .ok ["a\n".toList, "b\n".toList] ∧
    ¬ TimesExact specFps specBreak exBoundary ∧
    ¬ CodeCompareAgrees specFps specBreak exBoundary := by
  refine ⟨by decide +kernel, by decide +kernel, by decide +kernel, by decide +kernel⟩

/-- an unknown tag type is a `ValueError` -/
example : readClean specCfg [⟨[some "a".toList], [⟨"T1X".toList, "00:00:01,00".toList⟩]⟩] = .error .value := by
  decide +kernel

/-- `clean_sentence` (2) instantiated: punctuation attaches, odd blanks are
    stripped, two `S` tags of which the second comes after an `E` tag of the
    same sentence: one break (6 s − 0 > 5), not two (12.47 s − 7.5 s < 5) -/
def exSentence : Sentence :=
  ⟨[some "\t".toList, some "Hi".toList, some ",".toList, some "you".toList, some "!".toList, some " ".toList],
   [⟨"T1S".toList, "00:00:06,00".toList⟩, ⟨"T1E".toList, "00:00:07,15".toList⟩,
    ⟨"T2S".toList, "00:00:12,14".toList⟩]⟩

example :
    sentenceLine specCfg 0 exSentence = .ok (some "\nHi, you!\n".toList, (15 : Rat) / 2) ∧
    breakCount specCfg 0 exSentence.times = 1 ∧
    strip (["\t".toList, "Hi".toList, ",".toList, "you".toList, "!".toList, " ".toList].flatMap token)
      = "Hi, you!".toList ∧
    (∀ t ∈ exSentence.times, tagOk specCfg t = true) := by
  refine ⟨by decide +kernel, by decide +kernel, by decide +kernel, by decide +kernel⟩

/-- `clean_document` instantiated: the document is regular (the skipped
    sentence's bad tag does not matter) and the closed form is the list of lines -/
def exDoc : Document :=
  [exSentence, ⟨[some " ".toList], [⟨"TX".toList, "bad".toList⟩]⟩,
   ⟨[some "ok".toList, some ".".toList], [⟨"T2S".toList, "00:00:12,14".toList⟩]⟩]

example :
    exDoc.all (regular specCfg) = true ∧
    (exDoc.inits.zip exDoc).filterMap (fun p => lineOf specCfg (lastE specCfg 0 (keptTags p.1)) p.2)
      = ["\nHi, you!\n".toList, "ok.\n".toList] ∧
    readClean specCfg exDoc = .ok ["\nHi, you!\n".toList, "ok.\n".toList] := by
  refine ⟨by decide +kernel, by decide +kernel, by decide +kernel⟩

/-- `clean_document_code` APPLIED (hypothesis evaluated by the kernel): on
    `exPause` and `exWhole` the code's reader is the exact-time reader … -/
example : readClean specCfgF exPause = readClean specCfg exPause :=
  clean_document_code specFps specBreak specMarker exPause (by decide +kernel)

example : readClean specCfgF exWhole = readClean specCfg exWhole :=
  clean_document_code specFps specBreak specMarker exWhole (by decide +kernel)

/-- … also with the break duration 7/2 (not the code's default; the harness
    uses it), where `floatOfRat` is a genuine division -/
example : readClean (cfgF specFps (7 / 2) specMarker) exPause = readClean (cfgQ specFps (7 / 2) specMarker) exPause :=
  clean_document_code specFps (7 / 2) specMarker exPause (by decide +kernel)

/-- … and on `exBoundary` its hypothesis fails and so does its conclusion -/
example : ¬ CodeCompareAgrees specFps specBreak exBoundary ∧
    readClean specCfgF exBoundary ≠ readClean specCfg exBoundary := by
  refine ⟨by decide +kernel, by decide +kernel⟩

/-- `clean_sentence` APPLIED, clause (2), to `exSentence` (all hypotheses
    instantiated): the line and the new `last_time` -/
example :
    sentenceLine specCfg 0 exSentence
      = .ok (some (List.replicate (breakCount specCfg 0 exSentence.times) '\n' ++
                strip (["\t".toList, "Hi".toList, ",".toList, "you".toList, "!".toList, " ".toList].flatMap token)
                ++ ['\n']),
             lastE specCfg 0 exSentence.times) :=
  (clean_sentence specCfg 0 exSentence
      ["\t".toList, "Hi".toList, ",".toList, "you".toList, "!".toList, " ".toList] rfl).2.1
    (by decide +kernel) (by decide +kernel)

/-- `clean_sentence` APPLIED, clause (1): a sentence of blanks yields nothing and
    its (bad) time tag is not looked at; clause (3): the first unacceptable tag
    of a non-blank sentence raises `ValueError` -/
example : sentenceLine specCfg 7 ⟨[some " ".toList, some "\t".toList], [⟨"TX".toList, "bad".toList⟩]⟩
    = .ok (none, 7) :=
  (clean_sentence specCfg 7 ⟨[some " ".toList, some "\t".toList], [⟨"TX".toList, "bad".toList⟩]⟩
      [" ".toList, "\t".toList] rfl).1 (by decide +kernel)

example : sentenceLine specCfg 0
    ⟨[some "a".toList], [⟨"T1S".toList, "00:00:06,00".toList⟩, ⟨"T1X".toList, "00:00:07,00".toList⟩,
                          ⟨"T2S".toList, "zz".toList⟩]⟩ = .error .value :=
  (clean_sentence specCfg 0 _ ["a".toList] rfl).2.2 (by decide +kernel)
    [⟨"T1S".toList, "00:00:06,00".toList⟩] ⟨"T1X".toList, "00:00:07,00".toList⟩
    [⟨"T2S".toList, "zz".toList⟩] rfl (by decide +kernel) (by decide +kernel)

/-- `paragraph_break_iff` APPLIED in both directions: with `last_time = 1` an
    `S` tag at 6 s + 1 frame breaks (`181/30 − 1 > 5`), one at exactly 6 s does
    not (`6 − 1 > 5` is false: the test is strict), and an `E` tag never does -/
example : breaksAt specCfg 1 ⟨"T1S".toList, "00:00:06,01".toList⟩ = true :=
  (paragraph_break_iff specFps specBreak specMarker 1 ⟨"T1S".toList, "00:00:06,01".toList⟩).mpr
    ⟨by decide +kernel, (181 : Rat) / 30, by decide +kernel, by decide +kernel⟩

example : breaksAt specCfg 1 ⟨"T1S".toList, "00:00:06,00".toList⟩ ≠ true := by
  intro h
  obtain ⟨_, cur, hp, hgt⟩ :=
    (paragraph_break_iff specFps specBreak specMarker 1 ⟨"T1S".toList, "00:00:06,00".toList⟩).mp h
  have hc : cur = 6 := by
    have h6 : parseTime (ratArith specFps specBreak) "00:00:06,00".toList = .ok 6 := by decide +kernel
    rw [h6] at hp
    exact (Except.ok.inj hp).symm
  subst hc
  revert hgt
  decide +kernel

example : breaksAt specCfg 1 ⟨"T1E".toList, "00:00:16,01".toList⟩ ≠ true :=
  fun h => absurd ((paragraph_break_iff specFps specBreak specMarker 1 _).mp h).1 (by decide +kernel)

/-- the literal domain: digit fields and certainly rejected fields are inside,
    spellings only `float` accepts are outside (and there the model's
    `ValueError` is not the code's behaviour) -/
example :
    LitDomain "00:00:06,00".toList = true ∧ LitDomain "00:00:0a,00".toList = true ∧
    LitDomain "00:00:,00".toList = true ∧ LitDomain "abc".toList = true ∧
    LitDomain "00:00:1.5,00".toList = false ∧ LitDomain "00:00:+1,00".toList = false ∧
    LitDomain "00:00: 1,00".toList = false ∧ LitDomain "00:00:1_0,00".toList = false ∧
    LitDomain "00:00:1e1,00".toList = false ∧ LitDomain "00:00:nan,00".toList = false ∧
    LitDomain "00:00:1.5,xx".toList = true := by
  decide +kernel

/-- a document with such a spelling is outside `TimesExact` (the driver reports
    `times_exact = false`): the exact-time theorems still relate the two MODEL
    runs on it, but the model is not the code there -/
example : ¬ TimesExact specFps specBreak [⟨[some "a".toList], [⟨"T1S".toList, "00:00:1.5,00".toList⟩]⟩] := by
  decide +kernel

example : parseTime (ratArith 30 5) "01:02:03,15".toList = .ok ((7447 : Rat) / 2) ∧
    parseTime (ratArith 30 5) "00:00:0a,00".toList = .error .value ∧
    parseTime (ratArith 30 5) "00:00:01".toList = .error .value := by
  decide +kernel

/-! ### lemmas (not property theorems) -/

/-- (definitional) the constants the driver evaluates the model with are the ones in the
    source tree (`Generated.lean` is regenerated from /repo on every run) -/
theorem constants_current :
    Generated.framesPerSecond = specFps ∧ Generated.breakDurationTimes10 = 50 ∧
    Generated.corpusMarker.toList = specMarker ∧
    Generated.corpusPunctuation.toList = punctuation ∧
    Generated.corpusSuffix = ".gz" ∧
    Generated.notFoundSuffix.toList = notFoundSuffix ∧
    Generated.notFoundTemplate = "{path}-{counter}" := by decide +kernel

/-- (definitional) every document is closed by the marker: a readable document contributes its
    cleaned lines and then exactly the marker. -/
theorem document_closed_by_marker {τ : Type} (cfg : Cfg τ) (d : Document) (ls : List Str)
    (h : readClean cfg d = .ok ls) : docPieces cfg (.doc d) = ls ++ [cfg.marker] := by
  simp [docPieces, h]


end Pyndl.C19
