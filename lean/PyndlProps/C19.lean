/-
  C19 — Corpus extraction is deterministic, complete and records missing files.

  Property theorems only (helper lemmas live in PyndlProofs/Corpus.lean).  They
  are about `Pyndl.Corpus.createCorpus`, the model of
  `pyndl.corpus.create_corpus_from_gz` (PyndlModel/Corpus.lean), and hold for
  every tree of paths, every document content, every configuration
  (frames per second, break duration, marker), every `n_threads ≥ 1`, every
  subset of dangling links and every set of pre-existing files.
-/
import PyndlProofs.Corpus

namespace Pyndl.C19
open Pyndl Pyndl.Corpus List

/-- the constants the driver evaluates the model with are the ones in the
    source tree (`Generated.lean` is regenerated from /repo on every run) -/
theorem constants_current :
    Generated.framesPerSecond = specFps ∧ Generated.breakDurationTimes10 = 50 ∧
    Generated.corpusMarker.toList = specMarker ∧
    Generated.corpusPunctuation.toList = punctuation ∧
    Generated.corpusSuffix = ".gz" ∧
    Generated.notFoundSuffix.toList = notFoundSuffix ∧
    Generated.notFoundTemplate = "{path}-{counter}" := by decide +kernel

/-- **corpus_eq.** When the directory exists, the output file does not, and
    every `.gz` path is a document that parses or a missing file, the run
    returns normally and the corpus is the concatenation, over the `.gz` files
    in sorted path order, of the cleaned sentences of each readable document
    followed by the end-of-document marker. -/
theorem corpus_eq (cfg : Cfg) (n : Nat) (directory outfile : Str) (w : World)
    (tree : List (Str × Entry)) (hd : w.dirExists = true) (ho : outfile ∉ w.files) (hn : 0 < n)
    (hr : ∀ p ∈ gzFiles directory tree, readable cfg p.2 = true) :
    (createCorpus cfg n directory outfile w tree).raised = none ∧
    (createCorpus cfg n directory outfile w tree).corpus
      = some ((gzFiles directory tree).flatMap (fun p => docPieces cfg p.2)) := by
  rw [createCorpus_ok cfg n directory outfile w tree hd ho hn hr]
  exact ⟨rfl, rfl⟩

/-- what "the `.gz` files in sorted path order" means: `gzFiles` is a
    permutation of the non-directory paths ending in `.gz` (joined with the
    directory), strictly increasing in Python's string order. -/
theorem gz_files_sorted (directory : Str) (tree : List (Str × Entry)) (hn : (tree.map (·.1)).Nodup) :
    gzFiles directory tree ~ gzUnsorted directory tree ∧
    (gzFiles directory tree).Pairwise (fun a b => lexLt a.1 b.1 = true) :=
  ⟨sortBy_perm _ _, sortBy_sortedLt _ _ (gzUnsorted_nodup directory tree hn)⟩

/-- every document is closed by the marker: a readable document contributes its
    cleaned lines and then exactly the marker. -/
theorem document_closed_by_marker (cfg : Cfg) (d : Document) (ls : List Str)
    (h : readClean cfg d = .ok ls) : docPieces cfg (.doc d) = ls ++ [cfg.marker] := by
  simp [docPieces, h]

/-- an exception in one file ends the run with that exception; the corpus then
    holds exactly the documents that sort before it and no `.not_found` file is
    written. -/
theorem corpus_error_prefix (cfg : Cfg) (n : Nat) (directory outfile : Str) (w : World)
    (tree : List (Str × Entry)) (hd : w.dirExists = true) (ho : outfile ∉ w.files) (hn : 0 < n)
    (pre post : List (Str × Entry)) (p : Str × Entry) (hs : gzFiles directory tree = pre ++ p :: post)
    (hr : ∀ q ∈ pre, readable cfg q.2 = true) (hp : readable cfg p.2 = false) :
    ∃ e, createCorpus cfg n directory outfile w tree
      = ⟨some e, some (pre.flatMap (fun q => docPieces cfg q.2)), none⟩ :=
  createCorpus_error cfg n directory outfile w tree hd ho hn pre post p hs hr hp

/-- **threads_independent (1).** `Pool.imap` hands out the results in
    submission order whatever order they arrive in: for *every* permutation
    `arr` of the indexed results the iterator yields `map f xs`. -/
theorem imap_any_arrival_order {α β : Type} (f : α → β) (xs : List α) (arr : List (Nat × β))
    (h : arr ~ xs.zipIdx.map (fun p => (p.2, f p.1))) : collect xs.length arr = xs.map f :=
  collect_eq_map f xs arr h

/-- **threads_independent (2).** The whole outcome (exception, corpus,
    `.not_found` file) is the same for every two numbers of worker processes
    `≥ 1` — unconditionally, also for runs that raise. -/
theorem threads_independent (cfg : Cfg) (n m : Nat) (hn : 0 < n) (hm : 0 < m) (directory outfile : Str)
    (w : World) (tree : List (Str × Entry)) :
    createCorpus cfg n directory outfile w tree = createCorpus cfg m directory outfile w tree := by
  unfold createCorpus
  have h1 : ¬ n = 0 := by omega
  have h2 : ¬ m = 0 := by omega
  simp only [h1, h2, if_false, imap_eq_map n hn, imap_eq_map m hm]

/-- **not_found_listed.** Under the hypotheses of `corpus_eq`: the run returns
    normally; the `.not_found` file exists iff some `.gz` path is dangling and
    then holds, in sorted order, one line `path\n` per dangling path — each
    exactly once; the corpus is what the tree without the dangling paths gives. -/
theorem not_found_listed (cfg : Cfg) (n : Nat) (directory outfile : Str) (w : World)
    (tree : List (Str × Entry)) (hd : w.dirExists = true) (ho : outfile ∉ w.files) (hn : 0 < n)
    (hr : ∀ p ∈ gzFiles directory tree, readable cfg p.2 = true)
    (hnd : (tree.map (·.1)).Nodup) :
    let o := createCorpus cfg n directory outfile w tree
    let missing := ((gzFiles directory tree).filter (fun p => isDangling p.2)).map (fun p => p.1 ++ ['\n'])
    o.raised = none ∧
    o.notFound = (if missing = [] then none
                  else some (safeWritePath w.files (outfile ++ notFoundSuffix), missing)) ∧
    (∀ p ∈ gzFiles directory tree, isDangling p.2 = true → missing.count (p.1 ++ ['\n']) = 1) ∧
    o.corpus = some (((gzFiles directory tree).filter (fun p => !isDangling p.2)).flatMap
                      (fun p => docPieces cfg p.2)) := by
  intro o missing
  have ho' : o = okOutcome cfg outfile w (gzFiles directory tree) :=
    createCorpus_ok cfg n directory outfile w tree hd ho hn hr
  have hm : (gzFiles directory tree).flatMap nfLine = missing := flatMap_nfLine_eq _
  refine ⟨by rw [ho']; rfl, by rw [ho']; simp only [okOutcome, hm], ?_, ?_⟩
  · intro p hp hdang
    have hmem : p.1 ++ ['\n'] ∈ missing :=
      mem_map.mpr ⟨p, mem_filter.mpr ⟨hp, hdang⟩, rfl⟩
    have hnodup : missing.Nodup := by
      have h1 : (((gzFiles directory tree).filter (fun p => isDangling p.2)).map (·.1)).Nodup :=
        (gzFiles_nodup directory tree hnd).sublist ((filter_sublist).map _)
      have h2 := h1.map (f := fun s => s ++ ['\n']) (fun a b h => List.append_cancel_right h)
      rw [List.map_map] at h2
      exact h2
    exact count_eq_one_of_mem hnodup hmem
  · rw [ho']
    simp only [okOutcome]
    rw [flatMap_docPieces_filter]

/-- **sort_total (1).** Python's string order on paths is a strict total order. -/
theorem sort_total (a b c : Str) :
    lexLt a a = false ∧
    (lexLt a b = true → lexLt b c = true → lexLt a c = true) ∧
    (lexLt a b = true ∨ a = b ∨ lexLt b a = true) := by
  refine ⟨lexLt_irrefl a, lexLt_trans, ?_⟩
  cases h1 : lexLt a b with
  | true => exact Or.inl rfl
  | false =>
    cases h2 : lexLt b a with
    | true => exact Or.inr (Or.inr rfl)
    | false => exact Or.inr (Or.inl (lexLt_total h1 h2))

/-- **sort_total (2).** Hence the sorted file list is unique: any two strictly
    increasing arrangements of the same paths are the same list … -/
theorem sorted_unique {l₁ l₂ : List (Str × Entry)}
    (h₁ : l₁.Pairwise (fun a b => lexLt a.1 b.1 = true)) (h₂ : l₂.Pairwise (fun a b => lexLt a.1 b.1 = true))
    (hp : l₁ ~ l₂) : l₁ = l₂ :=
  sortedLt_unique (fun p : Str × Entry => p.1) h₁ h₂ hp

/-- … so the outcome does not depend on the order in which `os.walk` lists the
    tree (determinism of the corpus). -/
theorem walk_order_irrelevant (cfg : Cfg) (n : Nat) (directory outfile : Str) (w : World)
    {t₁ t₂ : List (Str × Entry)} (hp : t₁ ~ t₂) (hnd : (t₁.map (·.1)).Nodup) :
    createCorpus cfg n directory outfile w t₁ = createCorpus cfg n directory outfile w t₂ := by
  unfold createCorpus
  rw [gzFiles_perm directory hp hnd]

/-- **no_overwrite (1).** An existing output file: `OSError`, nothing written. -/
theorem no_overwrite (cfg : Cfg) (n : Nat) (directory outfile : Str) (w : World)
    (tree : List (Str × Entry)) (ho : outfile ∈ w.files) :
    createCorpus cfg n directory outfile w tree = ⟨some .io, none, none⟩ := by
  unfold createCorpus
  have : w.files.contains outfile = true := by simpa using ho
  by_cases hd : (!w.dirExists) = true
  · rw [if_pos hd]
  · rw [if_neg hd, if_pos this]

/-- **no_overwrite (2).** Whatever the run does, the `.not_found` file it
    creates is not one of the existing files (and is not the corpus file):
    it is the first of `outfile.not_found`, `outfile.not_found-1`, … that does
    not exist. -/
theorem no_overwrite_not_found (cfg : Cfg) (n : Nat) (directory outfile : Str) (w : World)
    (tree : List (Str × Entry)) (name : Str) (lines : List Str)
    (h : (createCorpus cfg n directory outfile w tree).notFound = some (name, lines)) :
    name ∉ w.files ∧ name ≠ outfile ∧
    ∃ k, name = candidate (outfile ++ notFoundSuffix) k ∧
      ∀ j < k, candidate (outfile ++ notFoundSuffix) j ∈ w.files := by
  have hname : name = safeWritePath w.files (outfile ++ notFoundSuffix) := by
    unfold createCorpus at h
    simp only at h
    by_cases h1 : (!w.dirExists) = true
    · rw [if_pos h1] at h; cases h
    · by_cases h2 : w.files.contains outfile = true
      · rw [if_neg h1, if_pos h2] at h; cases h
      · by_cases h3 : n = 0
        · rw [if_neg h1, if_neg h2, if_pos h3] at h; cases h
        · rw [if_neg h1, if_neg h2, if_neg h3] at h
          generalize consume (imap n (fun p => runJob cfg p.1 p.2) (gzFiles directory tree)) = c at h
          obtain ⟨written, nf, err⟩ := c
          cases err with
          | some e => cases h
          | none =>
            by_cases hnf : nf = []
            · simp only [hnf, if_true] at h; cases h
            · simp only [hnf, if_false] at h
              exact ((Prod.mk.inj (Option.some.inj h)).1).symm
  subst hname
  refine ⟨safeWritePath_fresh _ _, ?_, ?_⟩
  · intro e
    have := safeWritePath_length w.files (outfile ++ notFoundSuffix)
    rw [e] at this
    have hl : notFoundSuffix.length = 10 := by decide +kernel
    rw [List.length_append, hl] at this
    omega
  · obtain ⟨k, hk, _, hfirst⟩ := safeWritePath_spec w.files (outfile ++ notFoundSuffix)
    exact ⟨k, hk, hfirst⟩

/-! ## Non-vacuity

A concrete tree (directory `t`): `b.gz` with a pause of 6 s > 5 s before the
first sentence (paragraph break), punctuation and an empty sentence whose bad
time tag is skipped; `B.gz` dangling; a nested `a/x.gz` (empty document), a
directory named `d.gz`, a non-`.gz` file.  `B.gz` sorts before `a/x.gz` before
`b.gz` (code points).  The hypotheses of `corpus_eq` / `not_found_listed` hold
and the outcome is the expected non-trivial one; an existing
`out.not_found` moves the list to `out.not_found-1`. -/

def exTree : List (Str × Entry) :=
  [("b.gz".toList, .doc [⟨[some "Hi".toList, some ",".toList, some "you".toList],
                          [⟨"T1S".toList, "00:00:06,00".toList⟩, ⟨"T1E".toList, "00:00:07,15".toList⟩]⟩,
                        ⟨[some " ".toList], [⟨"TX".toList, "bad".toList⟩]⟩,
                        ⟨[some "ok".toList, some ".".toList],
                          [⟨"T2S".toList, "00:00:12,14".toList⟩]⟩]),
   ("B.gz".toList, .dangling), ("a/x.gz".toList, .doc []), ("d.gz".toList, .dir),
   ("r.txt".toList, .notGzip)]

def exWorld : World := ⟨true, ["out.not_found".toList]⟩

example :
    (∀ p ∈ gzFiles "t".toList exTree, readable specCfg p.2 = true) ∧
    (gzFiles "t".toList exTree).map (·.1) = ["t/B.gz".toList, "t/a/x.gz".toList, "t/b.gz".toList] ∧
    createCorpus specCfg 3 "t".toList "out".toList exWorld exTree
      = ⟨none,
         some ["\n---END.OF.DOCUMENT---\n\n".toList, "\nHi, you\n".toList, "ok.\n".toList,
               "\n---END.OF.DOCUMENT---\n\n".toList],
         some ("out.not_found-1".toList, ["t/B.gz\n".toList])⟩ := by
  decide +kernel

/-- a pause of 5 s − 1 frame gives no break, 5 s + 1 frame gives one -/
example :
    readClean specCfg [⟨[some "a".toList], [⟨"E".toList, "00:00:01,00".toList⟩]⟩,
                       ⟨[some "b".toList], [⟨"S".toList, "00:00:05,29".toList⟩]⟩,
                       ⟨[some "c".toList], [⟨"S".toList, "00:00:06,01".toList⟩]⟩]
      = .ok ["a\n".toList, "b\n".toList, "\nc\n".toList] := by
  decide +kernel

/-- an unknown tag type is a `ValueError` -/
example : readClean specCfg [⟨[some "a".toList], [⟨"T1X".toList, "00:00:01,00".toList⟩]⟩] = .error .value := by
  decide +kernel

end Pyndl.C19
