/-
  C18 — Parallel correlation equals Pearson correlation.

  Property theorems only (helper lemmas: PyndlProofs/Corr.lean; model:
  PyndlModel/Corr.lean).  "Up to floating-point rounding" is read as "exactly,
  over the reals": the value theorem is over ℝ with `Real.sqrt`, the algebraic
  identities over an arbitrary field, the rejection rule over an arbitrary
  ordered field.  Matrices are indexed logically in the model, so the memory
  layout cannot matter (`layout_irrelevant` spells that out for strided views).
-/
import PyndlProofs.Corr

namespace Pyndl.C18
open Pyndl.Corr List

/-- a column all of whose entries are equal -/
def Const {α : Type} (x : List α) : Prop := ∀ u ∈ x, ∀ v ∈ x, u = v

/-- **The kernel's nominator is the covariance sum.**
    `Σ x y − n·x̄·ȳ = Σ (x − x̄)(y − ȳ)` in every field in which `n ≠ 0`. -/
theorem nom_eq_cov {K : Type} [Field K] (x y : List K) (hl : x.length = y.length)
    (hn : (y.length : K) ≠ 0) : nom x y = cov x y :=
  Pyndl.Corr.nom_eq_cov x y hl hn

/-- **`np.std(ddof=1)` vanishes exactly on the constant columns** (ordered field, n ≥ 2). -/
theorem var_zero_iff_const {K : Type} [Field K] [LinearOrder K] [IsStrictOrderedRing K]
    (x : List K) (hn : 2 ≤ x.length) : var1 x = 0 ↔ Const x :=
  var1_eq_zero_iff x hn

/-- **The rejection rule rejects exactly the constant columns.**  For a column of
    finite entries (n ≥ 2) the model of `_std` says `0.0` iff the column is
    constant iff its exact standard deviation is 0, and "positive" otherwise;
    a column containing NaN or ±inf is never "positive". -/
theorem reject_iff_const {K : Type} [Field K] [LinearOrder K] [IsStrictOrderedRing K]
    (xs : List K) (hn : 2 ≤ xs.length) :
    (stdClass (xs.map Ext.fin) = .zero ↔ var1 xs = 0) ∧
    (stdClass (xs.map Ext.fin) = .pos ↔ var1 xs ≠ 0) ∧
    (stdClass (xs.map Ext.fin) = .pos ↔ ¬ Const xs) := by
  have hne : xs ≠ [] := by intro h; simp [h] at hn
  refine ⟨?_, ?_, stdClass_fin_pos_iff xs hne⟩
  · rw [stdClass_fin_zero_iff xs hne, var1_eq_zero_iff xs hn]
  · rw [stdClass_fin_pos_iff xs hne, Ne, var1_eq_zero_iff xs hn]

theorem nonfinite_rejected {R : Type} [DecidableEq R] (col : List (Ext R))
    (h : ∃ v ∈ col, v.toFin? = none) : stdClass col ≠ .pos :=
  stdClass_nonfinite col h

/-- every column of both matrices is finite and non-constant -/
def AllPos {R : Type} [DecidableEq R] (sem act : List (List (Ext R))) : Prop :=
  (∀ jj < nCols sem, stdClass (colOf .nan sem jj) = .pos) ∧
  (∀ ii < nCols act, stdClass (colOf .nan act ii) = .pos)

/-- **When `correlation` raises.**  Mismatching first dimensions ⇒ `AssertionError`;
    otherwise `ValueError` iff `allow_nan=False` and some column of either matrix
    is constant or contains NaN/±inf; a matrix is returned iff NaN results were
    allowed or every column is finite and non-constant. -/
theorem raises_iff {R : Type} [DecidableEq R] [Zero R] {β : Type} (z : β)
    (cellFn : List R → List R → β) (sem act : List (List (Ext R))) (c : Nat) (order : List Nat) :
    (nRows sem ≠ nRows act → ∀ a, correlation z cellFn a sem act c order = .error .assertion) ∧
    (nRows sem = nRows act → ∀ a,
      (correlation z cellFn a sem act c order = .error .value ↔ (a = false ∧ ¬ AllPos sem act)) ∧
      ((∃ r, correlation z cellFn a sem act c order = .ok r) ↔ (a = true ∨ AllPos sem act))) := by
  refine ⟨fun h a => by simp [correlation, h], fun h a => ?_⟩
  have key := anyDegenerate_eq_false_iff sem act
  unfold AllPos
  rw [← key]
  cases a <;> cases hd : anyDegenerate sem act <;> simp [correlation, h, hd]

/-- **The OpenMP kernel's cell is Pearson's r** (over ℝ).  For `n ≥ 2` and
    non-constant columns the denominator `(n−1)·s_x·s_y` is not zero and
    `(Σ x y − n x̄ ȳ) / ((n−1)·√var₁ x·√var₁ y) = Σ(x−x̄)(y−ȳ) / √(Σ(x−x̄)² · Σ(y−ȳ)²)`. -/
theorem corr_eq_pearson (x y : List ℝ) (hl : x.length = y.length) (hn : 2 ≤ y.length)
    (hx : ¬ Const x) (hy : ¬ Const y) :
    denWith y.length (std Real.sqrt x) (std Real.sqrt y) ≠ 0 ∧
    corrCell Real.sqrt x y = pearson Real.sqrt x y := by
  have hxne : x ≠ [] := by intro h; simp [h] at hl; omega
  have hyne : y ≠ [] := by intro h; simp [h] at hn
  have hsx : 0 < ssq x := lt_of_le_of_ne (ssq_nonneg x)
    (fun h => hx ((ssq_eq_zero_iff x hxne).mp h.symm))
  have hsy : 0 < ssq y := lt_of_le_of_ne (ssq_nonneg y)
    (fun h => hy ((ssq_eq_zero_iff y hyne).mp h.symm))
  have hnR : (y.length : ℝ) ≠ 0 := by
    have : y.length ≠ 0 := by omega
    exact_mod_cast this
  have hden := den_eq_sqrt x y hl hn
  refine ⟨?_, ?_⟩
  · rw [hden]; exact (Real.sqrt_pos.mpr (mul_pos hsx hsy)).ne'
  · unfold corrCell kernelCell pearson
    rw [hden]
    have := Pyndl.Corr.nom_eq_cov x y hl hnR
    unfold nom at this
    rw [this]

/-- **What the driver prints determines the cell.**  `r² = nom²/den²` with
    `den² = (n−1)²·var₁ x·var₁ y`, and the sign of the cell is the sign of `nom`
    (the harness compares exactly these two with the returned float). -/
theorem cell_sq_and_sign (x y : List ℝ) (hl : x.length = y.length) (hn : 2 ≤ y.length)
    (hx : ¬ Const x) (hy : ¬ Const y) :
    corrCell Real.sqrt x y * corrCell Real.sqrt x y = r2 x y ∧
    (0 < corrCell Real.sqrt x y ↔ 0 < nom x y) ∧
    (corrCell Real.sqrt x y < 0 ↔ nom x y < 0) := by
  have hxne : x ≠ [] := by intro h; simp [h] at hl; omega
  have hyne : y ≠ [] := by intro h; simp [h] at hn
  have hsx : 0 < ssq x := lt_of_le_of_ne (ssq_nonneg x)
    (fun h => hx ((ssq_eq_zero_iff x hxne).mp h.symm))
  have hsy : 0 < ssq y := lt_of_le_of_ne (ssq_nonneg y)
    (fun h => hy ((ssq_eq_zero_iff y hyne).mp h.symm))
  have hdpos : 0 < denWith y.length (std Real.sqrt x) (std Real.sqrt y) := by
    rw [den_eq_sqrt x y hl hn]; exact Real.sqrt_pos.mpr (mul_pos hsx hsy)
  have hc : corrCell Real.sqrt x y
      = nom x y / denWith y.length (std Real.sqrt x) (std Real.sqrt y) := rfl
  refine ⟨?_, ?_, ?_⟩
  · rw [hc, div_mul_div_comm, den_sq]; rfl
  · rw [hc]; exact div_pos_iff_of_pos_right hdpos
  · rw [hc, div_lt_iff₀ hdpos, zero_mul]

/-- **The driver's scalars.**  The compiled model evaluates `nom` and `r²` over ℚ
    (exact rationals); casting its outputs to ℝ gives the ℝ-valued `nom` and `r²`
    of `cell_sq_and_sign` on the same (rational) columns. -/
theorem driver_scalar_sound (x y : List ℚ) :
    r2 (x.map (Rat.castHom ℝ)) (y.map (Rat.castHom ℝ)) = ((r2 x y : ℚ) : ℝ) ∧
    nom (x.map (Rat.castHom ℝ)) (y.map (Rat.castHom ℝ)) = ((nom x y : ℚ) : ℝ) :=
  ⟨r2_map (Rat.castHom ℝ) x y, nom_map (Rat.castHom ℝ) x y⟩

/-- **The result does not depend on the order or grouping of the cell writes.**
    Whatever sequence of cell writes the threads produce — any interleaving of
    any assignment of chunks to threads is *some* list `ws` containing exactly
    the cells of the matrix (each at least once) — the buffer ends up holding
    `cell jj ii` at every `(jj, ii)` of the matrix and the initial `0.0`
    elsewhere. -/
theorem cells_independent {β : Type} (cell : Nat → Nat → β) (z : β) (nOut nEv : Nat)
    (ws : List (Nat × Nat)) (hws : ∀ a b, (a, b) ∈ ws ↔ a < nOut ∧ b < nEv) (a b : Nat) :
    (runWrites cell (Grid.const z) ws).get a b = if a < nOut ∧ b < nEv then cell a b else z := by
  rw [runWrites_get]
  by_cases h : a < nOut ∧ b < nEv
  · rw [if_pos ((hws a b).mpr h), if_pos h]
  · rw [if_neg (fun hm => h ((hws a b).mp hm)), if_neg h]; rfl

/-- in particular for every permutation of the sequential write order -/
theorem cells_independent_perm {β : Type} (cell : Nat → Nat → β) (z : β) (nOut nEv : Nat)
    (ws : List (Nat × Nat)) (hp : ws.Perm ((List.range nEv).flatMap (iterWrites nOut))) :
    (runWrites cell (Grid.const z) ws).toMat nOut nEv = directMat cell nOut nEv := by
  apply toMat_congr
  intro a b ha hb
  rw [cells_independent cell z nOut nEv ws _ a b, if_pos ⟨ha, hb⟩]
  intro a b
  rw [hp.mem_iff, mem_iterWrites, List.mem_range]

/-- **Thread count and chunk size do not matter.**  For every `chunksize ≥ 1` and
    every order in which the dynamic schedule hands the chunks out, the kernel
    returns the matrix computed cell by cell. -/
theorem kernel_schedule_independent {β : Type} (z : β) (cell : Nat → Nat → β) (nOut nEv c : Nat)
    (hc : 1 ≤ c) (order : List Nat) (ho : order.Perm (List.range (prangeChunks nEv c).length)) :
    kernelRun z cell nOut nEv c order = directMat cell nOut nEv := by
  unfold kernelRun
  apply toMat_congr
  intro a b ha hb
  rw [runChunks_eq_runWrites, runWrites_get]
  have : (a, b) ∈ (List.map (fun k => (prangeChunks nEv c).getD k []) order).flatten.flatMap (iterWrites nOut) := by
    rw [mem_iterWrites]; exact ⟨ha, (mem_sched nEv c hc order ho b).mpr hb⟩
  rw [if_pos this]

/-- the same for the whole of `correlation()`: two schedules, same outcome
    (matrix or exception). -/
theorem correlation_schedule_independent {R : Type} [DecidableEq R] [Zero R] {β : Type} (z : β)
    (cellFn : List R → List R → β) (allowNan : Bool) (sem act : List (List (Ext R)))
    (c c' : Nat) (hc : 1 ≤ c) (hc' : 1 ≤ c') (order order' : List Nat)
    (ho : order.Perm (List.range (prangeChunks (nCols act) c).length))
    (ho' : order'.Perm (List.range (prangeChunks (nCols act) c').length)) :
    correlation z cellFn allowNan sem act c order = correlation z cellFn allowNan sem act c' order' := by
  unfold correlation
  simp only [kernel_schedule_independent _ _ _ _ c hc order ho,
    kernel_schedule_independent _ _ _ _ c' hc' order' ho']

/-- **Memory layout does not matter.**  Two buffers with different offsets and
    strides (C order, Fortran order, a slice of a bigger array) that hold the
    same logical entries are the same matrix for the model — and the model only
    ever sees the logical matrix. -/
theorem layout_irrelevant {α : Type} (d : α) (buf buf' : Array α) (off s0 s1 off' s0' s1' rows cols : Nat)
    (h : ∀ k < rows, ∀ j < cols,
      buf.getD (off + k * s0 + j * s1) d = buf'.getD (off' + k * s0' + j * s1') d) :
    viewMat d buf off s0 s1 rows cols = viewMat d buf' off' s0' s1' rows cols := by
  unfold viewMat
  apply List.map_congr_left
  intro k hk
  apply List.map_congr_left
  intro j hj
  exact h k (List.mem_range.mp hk) j (List.mem_range.mp hj)

/-! ### Non-vacuity -/

/-- the hypotheses of `corr_eq_pearson` are satisfiable: x = (1,2,4), y = (1,0,0) -/
example : ([1, 2, 4] : List ℝ).length = ([1, 0, 0] : List ℝ).length ∧ 2 ≤ ([1, 0, 0] : List ℝ).length ∧
    ¬ Const ([1, 2, 4] : List ℝ) ∧ ¬ Const ([1, 0, 0] : List ℝ) := by
  refine ⟨rfl, by simp, ?_, ?_⟩
  · intro h; have := h 1 (by simp) 2 (by simp); norm_num at this
  · intro h; have := h 1 (by simp) 0 (by simp); norm_num at this

/-- … and on that pair the model's `r²` is `4/7` with a negative nominator (over ℚ,
    the driver's scalar type) -/
example : nom ([1, 2, 4] : List ℚ) [1, 0, 0] = -4 / 3 ∧ r2 ([1, 2, 4] : List ℚ) [1, 0, 0] = 4 / 7 := by
  constructor <;>
    norm_num [r2, den2, var1, ssq, nom, nomWith, dot, mean, sumL]

/-- a schedule with 3 chunks of size 2 handed out in the order 2, 0, 1 -/
example : prangeChunks 5 2 = [[0, 1], [2, 3], [4]] ∧
    kernelRun 0 (fun jj ii => 10 * jj + ii + 1) 2 5 2 [2, 0, 1]
      = [[1, 2, 3, 4, 5], [11, 12, 13, 14, 15]] := by
  decide +kernel

/-- the rejection rule on concrete columns (over ℤ): constant, constant infinite,
    containing a NaN, non-constant; and `correlation` on a matrix whose second
    semantics column is constant -/
example :
    stdClass ([.fin 3, .fin 3, .fin 3] : List (Ext ℤ)) = .zero ∧
    stdClass ([.pinf, .pinf] : List (Ext ℤ)) = .zero ∧
    stdClass ([.fin 3, .nan, .fin 3] : List (Ext ℤ)) = .nan ∧
    stdClass ([.nan, .nan] : List (Ext ℤ)) = .nan ∧
    stdClass ([.fin 3, .pinf, .fin 3] : List (Ext ℤ)) = .nan ∧
    stdClass ([.fin 3, .fin 4, .fin 3] : List (Ext ℤ)) = .pos ∧
    correlation (0 : ℤ) (fun x y => x.sum * y.sum) false
      [[.fin 1, .fin 2], [.fin 3, .fin 2]] [[.fin 1], [.fin 0]] 10 [0] = .error .value ∧
    correlation (0 : ℤ) (fun x y => x.sum * y.sum) true
      [[.fin 1, .fin 2], [.fin 3, .fin 2]] [[.fin 1], [.fin 0]] 10 [0] = .ok [[some 4], [none]] ∧
    correlation (0 : ℤ) (fun x y => x.sum * y.sum) false
      [[.fin 1, .fin 2]] [[.fin 1], [.fin 0]] 10 [0] = .error .assertion := by
  decide +kernel

end Pyndl.C18
