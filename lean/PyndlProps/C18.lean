/-
  C18 — Parallel correlation equals Pearson correlation.

  Property theorems only (helper lemmas: PyndlProofs/Corr.lean; model:
  PyndlModel/Corr.lean).  "Up to floating-point rounding" is read as "exactly,
  over the reals": the value theorem is over ℝ with `Real.sqrt`, the algebraic
  identities over an arbitrary field, the rejection rule over an arbitrary
  ordered field.  Matrices are indexed logically in the model, so the memory
  layout cannot matter (`layout_irrelevant` spells that out for strided views;
  independence of the layout is BY CONSTRUCTION of the model, not a theorem).

  The composed statements about the OUTPUT of `correlation()`:
  * `correlation_eq_pearson` — with the real cell function `corrCell Real.sqrt`,
    for matrices over ℝ with equal row count ≥ 2 and no constant / non-finite
    column, every `allow_nan`, every `chunksize ≥ 1` and every order of the
    chunks: the result is the matrix of Pearson's r of every column pair;
  * `correlation_driver_sound` — what the compiled model prints over ℚ
    (`execCell`: `r²` and the sign of the nominator, the two numbers the harness
    compares with the returned float) determines that matrix: square and sign of
    every cell.

  Assumption (to be listed in DESIGN §2, trusted): Cython makes a variable that
  is assigned inside a `prange` body before it is read thread-private
  (`scalar_prod`, `nominator`, `denominator`, `jj`, `kk` in
  correlation_openmp.pyx:46-56).  The model's `writeCell` computes the written
  value from `(jj, ii)` alone — this is where the assumption enters; were one of
  these variables shared, cell values would depend on the interleaving and
  `cells_independent` would not describe the code.

  Outside the quantifier: matrices with zero rows (`n_vec_dims = 0`).  The list-
  of-rows representation has no column count for them (the model returns
  `.ok []`); the real code raises `IndexError` at `column[0]` when there is a
  column.  `raises_iff` and the composed theorems carry `1 ≤ nRows` / `2 ≤ nRows`.
-/
import PyndlProofs.Corr

namespace Pyndl.C18
open Pyndl.Corr List

/-- a column all of whose entries are equal -/
def Const {α : Type} (x : List α) : Prop := ∀ u ∈ x, ∀ v ∈ x, u = v

/-- **The kernel's nominator is the covariance sum.**
    `Σ x y − n·x̄·ȳ = Σ (x − x̄)(y − ȳ)` in every field in which `n ≠ 0`. -/
theorem nom_eq_cov {K : Type} [Field K] (x y : List K) (hl : x.length = y.length)
    (hn : (y.length : K) ≠ 0) : nom x y = cov x y :=
  Pyndl.Corr.nom_eq_cov x y hl hn

/-- **`np.std(ddof=1)` vanishes exactly on the constant columns** (ordered field, n ≥ 2). -/
theorem var_zero_iff_const {K : Type} [Field K] [LinearOrder K] [IsStrictOrderedRing K]
    (x : List K) (hn : 2 ≤ x.length) : var1 x = 0 ↔ Const x :=
  var1_eq_zero_iff x hn

/-- **The rejection rule rejects exactly the constant columns.**  For a column of
    finite entries (n ≥ 2) the model of `_std` says `0.0` iff the column is
    constant iff its exact standard deviation is 0, and "positive" otherwise;
    a column containing NaN or ±inf is never "positive". -/
theorem reject_iff_const {K : Type} [Field K] [LinearOrder K] [IsStrictOrderedRing K]
    (xs : List K) (hn : 2 ≤ xs.length) :
    (stdClass (xs.map Ext.fin) = .zero ↔ var1 xs = 0) ∧
    (stdClass (xs.map Ext.fin) = .pos ↔ var1 xs ≠ 0) ∧
    (stdClass (xs.map Ext.fin) = .pos ↔ ¬ Const xs) := by
  have hne : xs ≠ [] := by intro h; simp [h] at hn
  refine ⟨?_, ?_, stdClass_fin_pos_iff xs hne⟩
  · rw [stdClass_fin_zero_iff xs hne, var1_eq_zero_iff xs hn]
  · rw [stdClass_fin_pos_iff xs hne, Ne, var1_eq_zero_iff xs hn]

theorem nonfinite_rejected {R : Type} [DecidableEq R] (col : List (Ext R))
    (h : ∃ v ∈ col, v.toFin? = none) : stdClass col ≠ .pos :=
  stdClass_nonfinite col h

/-- every column of both matrices is finite and non-constant -/
def AllPos {R : Type} [DecidableEq R] (sem act : List (List (Ext R))) : Prop :=
  (∀ jj < nCols sem, stdClass (colOf .nan sem jj) = .pos) ∧
  (∀ ii < nCols act, stdClass (colOf .nan act ii) = .pos)

/-- **When `correlation` raises.**  Mismatching first dimensions ⇒ `AssertionError`;
    otherwise `ValueError` iff `allow_nan=False` and some column of either matrix
    is constant or contains NaN/±inf; a matrix is returned iff NaN results were
    allowed or every column is finite and non-constant.  `1 ≤ nRows act`
    (`n_vec_dims ≥ 1`; not used by the proof): with zero rows the real code
    raises `IndexError` at `column[0]`, the model returns `.ok []` (file header). -/
theorem raises_iff {R : Type} [DecidableEq R] [Zero R] {β : Type} (z : β)
    (cellFn : List R → List R → β) (sem act : List (List (Ext R))) (c : Nat) (order : List Nat) :
    (nRows sem ≠ nRows act → ∀ a, correlation z cellFn a sem act c order = .error .assertion) ∧
    (nRows sem = nRows act → 1 ≤ nRows act → ∀ a,
      (correlation z cellFn a sem act c order = .error .value ↔ (a = false ∧ ¬ AllPos sem act)) ∧
      ((∃ r, correlation z cellFn a sem act c order = .ok r) ↔ (a = true ∨ AllPos sem act))) := by
  refine ⟨fun h a => by simp [correlation, h], fun h _ a => ?_⟩
  have key := anyDegenerate_eq_false_iff sem act
  unfold AllPos
  rw [← key]
  cases a <;> cases hd : anyDegenerate sem act <;> simp [correlation, h, hd]

/-- **The OpenMP kernel's cell is Pearson's r** (over ℝ).  For `n ≥ 2` and
    non-constant columns the denominator `(n−1)·s_x·s_y` is not zero and
    `(Σ x y − n x̄ ȳ) / ((n−1)·√var₁ x·√var₁ y) = Σ(x−x̄)(y−ȳ) / √(Σ(x−x̄)² · Σ(y−ȳ)²)`. -/
theorem corr_eq_pearson (x y : List ℝ) (hl : x.length = y.length) (hn : 2 ≤ y.length)
    (hx : ¬ Const x) (hy : ¬ Const y) :
    denWith y.length (std Real.sqrt x) (std Real.sqrt y) ≠ 0 ∧
    corrCell Real.sqrt x y = pearson Real.sqrt x y := by
  have hxne : x ≠ [] := by intro h; simp [h] at hl; omega
  have hyne : y ≠ [] := by intro h; simp [h] at hn
  have hsx : 0 < ssq x := lt_of_le_of_ne (ssq_nonneg x)
    (fun h => hx ((ssq_eq_zero_iff x hxne).mp h.symm))
  have hsy : 0 < ssq y := lt_of_le_of_ne (ssq_nonneg y)
    (fun h => hy ((ssq_eq_zero_iff y hyne).mp h.symm))
  have hnR : (y.length : ℝ) ≠ 0 := by
    have : y.length ≠ 0 := by omega
    exact_mod_cast this
  have hden := den_eq_sqrt x y hl hn
  refine ⟨?_, ?_⟩
  · rw [hden]; exact (Real.sqrt_pos.mpr (mul_pos hsx hsy)).ne'
  · unfold corrCell kernelCell pearson
    rw [hden]
    have := Pyndl.Corr.nom_eq_cov x y hl hnR
    unfold nom at this
    rw [this]

/-- **What the driver prints determines the cell.**  `r² = nom²/den²` with
    `den² = (n−1)²·var₁ x·var₁ y`, and the sign of the cell is the sign of `nom`
    (the harness compares exactly these two with the returned float). -/
theorem cell_sq_and_sign (x y : List ℝ) (hl : x.length = y.length) (hn : 2 ≤ y.length)
    (hx : ¬ Const x) (hy : ¬ Const y) :
    corrCell Real.sqrt x y * corrCell Real.sqrt x y = r2 x y ∧
    (0 < corrCell Real.sqrt x y ↔ 0 < nom x y) ∧
    (corrCell Real.sqrt x y < 0 ↔ nom x y < 0) := by
  have hxne : x ≠ [] := by intro h; simp [h] at hl; omega
  have hyne : y ≠ [] := by intro h; simp [h] at hn
  have hsx : 0 < ssq x := lt_of_le_of_ne (ssq_nonneg x)
    (fun h => hx ((ssq_eq_zero_iff x hxne).mp h.symm))
  have hsy : 0 < ssq y := lt_of_le_of_ne (ssq_nonneg y)
    (fun h => hy ((ssq_eq_zero_iff y hyne).mp h.symm))
  have hdpos : 0 < denWith y.length (std Real.sqrt x) (std Real.sqrt y) := by
    rw [den_eq_sqrt x y hl hn]; exact Real.sqrt_pos.mpr (mul_pos hsx hsy)
  have hc : corrCell Real.sqrt x y
      = nom x y / denWith y.length (std Real.sqrt x) (std Real.sqrt y) := rfl
  refine ⟨?_, ?_, ?_⟩
  · rw [hc, div_mul_div_comm, den_sq]; rfl
  · rw [hc]; exact div_pos_iff_of_pos_right hdpos
  · rw [hc, div_lt_iff₀ hdpos, zero_mul]

/-- **The driver's scalars.**  The compiled model evaluates `nom` and `r²` over ℚ
    (exact rationals); casting its outputs to ℝ gives the ℝ-valued `nom` and `r²`
    of `cell_sq_and_sign` on the same (rational) columns. -/
theorem driver_scalar_sound (x y : List ℚ) :
    r2 (x.map (Rat.castHom ℝ)) (y.map (Rat.castHom ℝ)) = ((r2 x y : ℚ) : ℝ) ∧
    nom (x.map (Rat.castHom ℝ)) (y.map (Rat.castHom ℝ)) = ((nom x y : ℚ) : ℝ) :=
  ⟨r2_map (Rat.castHom ℝ) x y, nom_map (Rat.castHom ℝ) x y⟩

/-- **The result does not depend on the order or grouping of the cell writes.**
    Whatever sequence of cell writes the threads produce — any interleaving of
    any assignment of chunks to threads is *some* list `ws` containing exactly
    the cells of the matrix (each at least once) — the buffer ends up holding
    `cell jj ii` at every `(jj, ii)` of the matrix and the initial `0.0`
    elsewhere. -/
theorem cells_independent {β : Type} (cell : Nat → Nat → β) (z : β) (nOut nEv : Nat)
    (ws : List (Nat × Nat)) (hws : ∀ a b, (a, b) ∈ ws ↔ a < nOut ∧ b < nEv) (a b : Nat) :
    (runWrites cell (Grid.const z) ws).get a b = if a < nOut ∧ b < nEv then cell a b else z := by
  rw [runWrites_get]
  by_cases h : a < nOut ∧ b < nEv
  · rw [if_pos ((hws a b).mpr h), if_pos h]
  · rw [if_neg (fun hm => h ((hws a b).mp hm)), if_neg h]; rfl

/-- in particular for every permutation of the sequential write order -/
theorem cells_independent_perm {β : Type} (cell : Nat → Nat → β) (z : β) (nOut nEv : Nat)
    (ws : List (Nat × Nat)) (hp : ws.Perm ((List.range nEv).flatMap (iterWrites nOut))) :
    (runWrites cell (Grid.const z) ws).toMat nOut nEv = directMat cell nOut nEv := by
  apply toMat_congr
  intro a b ha hb
  rw [cells_independent cell z nOut nEv ws _ a b, if_pos ⟨ha, hb⟩]
  intro a b
  rw [hp.mem_iff, mem_iterWrites, List.mem_range]

/-- **Thread count and chunk size do not matter.**  For every `chunksize ≥ 1` and
    every order in which the dynamic schedule hands the chunks out, the kernel
    returns the matrix computed cell by cell. -/
theorem kernel_schedule_independent {β : Type} (z : β) (cell : Nat → Nat → β) (nOut nEv c : Nat)
    (hc : 1 ≤ c) (order : List Nat) (ho : order.Perm (List.range (prangeChunks nEv c).length)) :
    kernelRun z cell nOut nEv c order = directMat cell nOut nEv :=
  kernelRun_eq_direct z cell nOut nEv c hc order ho

/-- the same for the whole of `correlation()`: two schedules, same outcome
    (matrix or exception). -/
theorem correlation_schedule_independent {R : Type} [DecidableEq R] [Zero R] {β : Type} (z : β)
    (cellFn : List R → List R → β) (allowNan : Bool) (sem act : List (List (Ext R)))
    (c c' : Nat) (hc : 1 ≤ c) (hc' : 1 ≤ c') (order order' : List Nat)
    (ho : order.Perm (List.range (prangeChunks (nCols act) c).length))
    (ho' : order'.Perm (List.range (prangeChunks (nCols act) c').length)) :
    correlation z cellFn allowNan sem act c order = correlation z cellFn allowNan sem act c' order' := by
  unfold correlation
  simp only [kernel_schedule_independent _ _ _ _ c hc order ho,
    kernel_schedule_independent _ _ _ _ c' hc' order' ho']

/-! ## The output of `correlation()` -/

/-- **`correlation()` returns Pearson's r of every column pair.**

    Hypotheses: `hr` the two matrices have the same number of rows
    (`n_vec_dims`; else `AssertionError`, `raises_iff`); `hn` at least two rows
    (`np.std(ddof=1)` divides by `n − 1`); `hpos` no column of either matrix is
    constant or contains NaN / ±inf (exactly the inputs `correlation` does not
    reject with `allow_nan=False`, `raises_iff`; with `allow_nan=True` they are
    the inputs all of whose cells are numbers); `hc` `chunksize ≥ 1`; `ho`
    `order` is any order in which the dynamic schedule hands out its chunks.

    Conclusion, for the real cell function `corrCell Real.sqrt` (the kernel's
    `(Σxy − n·x̄·ȳ) / ((n−1)·s_x·s_y)` fed with `np.mean` / `np.std(ddof=1)`) and
    either value of `allow_nan`: the call returns the `n_outcomes × n_events`
    matrix whose `(jj, ii)` entry is Pearson's
    `Σ(x−x̄)(y−ȳ) / √(Σ(x−x̄)²·Σ(y−ȳ)²)` of column `jj` of `semantics` and column
    `ii` of `activations` — independently of chunk size, thread assignment and
    memory layout.  (Composes `raises_iff`'s case analysis, `corr_eq_pearson`,
    `reject_iff_const` and `kernel_schedule_independent` / `cells_independent`.) -/
theorem correlation_eq_pearson (sem act : List (List (Ext ℝ))) (a : Bool) (c : Nat) (hc : 1 ≤ c)
    (order : List Nat) (ho : order.Perm (List.range (prangeChunks (nCols act) c).length))
    (hr : nRows sem = nRows act) (hn : 2 ≤ nRows act) (hpos : AllPos sem act) :
    correlation 0 (corrCell Real.sqrt) a sem act c order
      = .ok (directMat (fun jj ii =>
          some (pearson Real.sqrt (finCol (colOf .nan sem jj)) (finCol (colOf .nan act ii))))
          (nCols sem) (nCols act)) := by
  rw [correlation_ok_direct 0 (corrCell Real.sqrt) a sem act c hc order ho hr hpos]
  congr 1
  apply directMat_congr
  intro jj ii hjj hii
  have hl : (finCol (colOf .nan sem jj)).length = (finCol (colOf .nan act ii)).length := by
    rw [finCol_length, finCol_length, colOf_length, colOf_length, hr]
  have hn' : 2 ≤ (finCol (colOf .nan act ii)).length := by
    rw [finCol_length, colOf_length]; exact hn
  rw [(corr_eq_pearson _ _ hl hn' (stdClass_pos_not_const _ (hpos.1 jj hjj))
    (stdClass_pos_not_const _ (hpos.2 ii hii))).2]

/-- the embedding of the driver's scalars (exact rationals, NaN, ±inf) into the
    extended reals -/
def castExt : Ext ℚ → Ext ℝ
  | .fin v => .fin (v : ℝ)
  | .nan => .nan
  | .pinf => .pinf
  | .ninf => .ninf

def castMat (M : List (List (Ext ℚ))) : List (List (Ext ℝ)) := M.map (fun row => row.map castExt)

theorem nCols_castMat (M : List (List (Ext ℚ))) : nCols (castMat M) = nCols M := by
  cases M <;> simp [nCols, castMat]

theorem nRows_castMat (M : List (List (Ext ℚ))) : nRows (castMat M) = nRows M := by
  simp [nRows, castMat]

theorem colOf_castMat (M : List (List (Ext ℚ))) (j : Nat) :
    colOf .nan (castMat M) j = (colOf .nan M j).map castExt := by
  unfold colOf castMat
  rw [List.map_map, List.map_map]
  apply List.map_congr_left
  intro row _
  simp only [Function.comp]
  rw [List.getD_eq_getElem?_getD, List.getD_eq_getElem?_getD, List.getElem?_map]
  cases row[j]? <;> rfl

theorem stdClass_castExt (col : List (Ext ℚ)) : stdClass (col.map castExt) = stdClass col := by
  have h1 : ∀ v c : Ext ℚ, Ext.eqv (castExt v) (castExt c) = Ext.eqv v c := by
    intro v c
    cases v <;> cases c <;> simp [Ext.eqv, castExt]
  have h2 : ∀ v : Ext ℚ, (castExt v).toFin?.isSome = v.toFin?.isSome := by
    intro v; cases v <;> rfl
  cases col with
  | nil => rfl
  | cons c rest =>
    simp only [List.map_cons, stdClass, List.all_cons, List.all_map, Function.comp_def, h1, h2]
    rfl

theorem finCol_castExt (col : List (Ext ℚ)) :
    finCol (col.map castExt) = (finCol col).map (Rat.castHom ℝ) := by
  unfold finCol
  rw [List.map_map, List.map_map]
  apply List.map_congr_left
  intro v _
  cases v <;> simp [castExt, Ext.toFin?]

theorem allPos_castMat (semQ actQ : List (List (Ext ℚ))) (h : AllPos semQ actQ) :
    AllPos (castMat semQ) (castMat actQ) := by
  refine ⟨fun jj hjj => ?_, fun ii hii => ?_⟩
  · rw [colOf_castMat, stdClass_castExt]; exact h.1 jj (by rw [nCols_castMat] at hjj; exact hjj)
  · rw [colOf_castMat, stdClass_castExt]; exact h.2 ii (by rw [nCols_castMat] at hii; exact hii)

/-- **What the driver prints determines the output of `correlation()`.**

    For matrices of exact rationals `semQ`, `actQ` (the driver's inputs; same
    hypotheses as `correlation_eq_pearson`):
    1. the compiled model (`correlation` with `execCell`) returns, per cell, the
       pair `(r², sign nom)` computed over ℚ from the two columns;
    2. `correlation` over ℝ with the real cell function returns Pearson's r of
       the same columns (cast to ℝ);
    3. every real cell `v` is tied to the printed pair `(q, s)` by `v·v = q`,
       `0 < v ↔ 0 < s`, `v < 0 ↔ s < 0` — square and sign determine a real
       number, so the harness' comparison of the returned float with `(q, s)`
       is a comparison with Pearson's r.
    (Composes `driver_scalar_sound`, `cell_sq_and_sign`, `corr_eq_pearson`,
    `correlation_eq_pearson`.) -/
theorem correlation_driver_sound (semQ actQ : List (List (Ext ℚ))) (a : Bool) (c : Nat) (hc : 1 ≤ c)
    (order : List Nat) (ho : order.Perm (List.range (prangeChunks (nCols actQ) c).length))
    (hr : nRows semQ = nRows actQ) (hn : 2 ≤ nRows actQ) (hpos : AllPos semQ actQ) :
    correlation (0, 0) execCell a semQ actQ c order
      = .ok (directMat (fun jj ii =>
          some (execCell (finCol (colOf .nan semQ jj)) (finCol (colOf .nan actQ ii))))
          (nCols semQ) (nCols actQ)) ∧
    correlation 0 (corrCell Real.sqrt) a (castMat semQ) (castMat actQ) c order
      = .ok (directMat (fun jj ii =>
          some (pearson Real.sqrt ((finCol (colOf .nan semQ jj)).map (Rat.castHom ℝ))
            ((finCol (colOf .nan actQ ii)).map (Rat.castHom ℝ))))
          (nCols semQ) (nCols actQ)) ∧
    ∀ jj < nCols semQ, ∀ ii < nCols actQ,
      let q := execCell (finCol (colOf .nan semQ jj)) (finCol (colOf .nan actQ ii))
      let v := pearson Real.sqrt ((finCol (colOf .nan semQ jj)).map (Rat.castHom ℝ))
        ((finCol (colOf .nan actQ ii)).map (Rat.castHom ℝ))
      v * v = ((q.1 : ℚ) : ℝ) ∧ (0 < v ↔ 0 < q.2) ∧ (v < 0 ↔ q.2 < 0) := by
  refine ⟨correlation_ok_direct (0, 0) execCell a semQ actQ c hc order ho hr hpos, ?_, ?_⟩
  · have h := correlation_eq_pearson (castMat semQ) (castMat actQ) a c hc order
      (by rw [nCols_castMat]; exact ho) (by rw [nRows_castMat, nRows_castMat]; exact hr)
      (by rw [nRows_castMat]; exact hn) (allPos_castMat semQ actQ hpos)
    rw [h, nCols_castMat, nCols_castMat]
    congr 1
    apply directMat_congr
    intro jj ii _ _
    rw [colOf_castMat, colOf_castMat, finCol_castExt, finCol_castExt]
  · intro jj hjj ii hii
    set x := finCol (colOf .nan semQ jj) with hx
    set y := finCol (colOf .nan actQ ii) with hy
    have hl : (x.map (Rat.castHom ℝ)).length = (y.map (Rat.castHom ℝ)).length := by
      rw [List.length_map, List.length_map, hx, hy, finCol_length, finCol_length, colOf_length,
        colOf_length, hr]
    have hn' : 2 ≤ (y.map (Rat.castHom ℝ)).length := by
      rw [List.length_map, hy, finCol_length, colOf_length]; exact hn
    have inj : Function.Injective (Rat.castHom ℝ) := fun p q h => Rat.cast_injective (α := ℝ) h
    have hcx : ¬ Const (x.map (Rat.castHom ℝ)) := by
      intro hconst
      apply stdClass_pos_not_const _ (hpos.1 jj hjj)
      intro u hu v hv
      exact inj (hconst _ (List.mem_map_of_mem hu) _ (List.mem_map_of_mem hv))
    have hcy : ¬ Const (y.map (Rat.castHom ℝ)) := by
      intro hconst
      apply stdClass_pos_not_const _ (hpos.2 ii hii)
      intro u hu v hv
      exact inj (hconst _ (List.mem_map_of_mem hu) _ (List.mem_map_of_mem hv))
    obtain ⟨_, hcp⟩ := corr_eq_pearson _ _ hl hn' hcx hcy
    obtain ⟨hsq, hp, hneg⟩ := cell_sq_and_sign _ _ hl hn' hcx hcy
    obtain ⟨hr2, hnom⟩ := driver_scalar_sound x y
    simp only
    rw [← hcp]
    refine ⟨?_, ?_, ?_⟩
    · rw [hsq, hr2]; rfl
    · rw [hp, hnom]
      show (0 : ℝ) < ((nom x y : ℚ) : ℝ) ↔ 0 < (nom x y).num.sign
      rw [Rat.cast_pos, Int.sign_pos_iff, Rat.num_pos]
    · rw [hneg, hnom]
      show ((nom x y : ℚ) : ℝ) < 0 ↔ (nom x y).num.sign < 0
      rw [Rat.cast_lt_zero, Int.sign_neg_iff, Rat.num_neg]

/-- (definitional: restates `viewMat`; layout independence holds by construction
    of the model) **Memory layout does not matter.**  Two buffers with different offsets and
    strides (C order, Fortran order, a slice of a bigger array) that hold the
    same logical entries are the same matrix for the model — and the model only
    ever sees the logical matrix. -/
theorem layout_irrelevant {α : Type} (d : α) (buf buf' : Array α) (off s0 s1 off' s0' s1' rows cols : Nat)
    (h : ∀ k < rows, ∀ j < cols,
      buf.getD (off + k * s0 + j * s1) d = buf'.getD (off' + k * s0' + j * s1') d) :
    viewMat d buf off s0 s1 rows cols = viewMat d buf' off' s0' s1' rows cols := by
  unfold viewMat
  apply List.map_congr_left
  intro k hk
  apply List.map_congr_left
  intro j hj
  exact h k (List.mem_range.mp hk) j (List.mem_range.mp hj)

/-! ### Non-vacuity -/

/-- the hypotheses of `corr_eq_pearson` are satisfiable: x = (1,2,4), y = (1,0,0) -/
example : ([1, 2, 4] : List ℝ).length = ([1, 0, 0] : List ℝ).length ∧ 2 ≤ ([1, 0, 0] : List ℝ).length ∧
    ¬ Const ([1, 2, 4] : List ℝ) ∧ ¬ Const ([1, 0, 0] : List ℝ) := by
  refine ⟨rfl, by simp, ?_, ?_⟩
  · intro h; have := h 1 (by simp) 2 (by simp); norm_num at this
  · intro h; have := h 1 (by simp) 0 (by simp); norm_num at this

/-- … and on that pair the model's `r²` is `4/7` with a negative nominator (over ℚ,
    the driver's scalar type) -/
example : nom ([1, 2, 4] : List ℚ) [1, 0, 0] = -4 / 3 ∧ r2 ([1, 2, 4] : List ℚ) [1, 0, 0] = 4 / 7 := by
  constructor <;>
    norm_num [r2, den2, var1, ssq, nom, nomWith, dot, mean, sumL]

/-- a 3 × 2 `semantics` and a 3 × 1 `activations` over ℝ: columns (1,2,4), (0,1,0)
    and (1,0,0) -/
def exSem : List (List (Ext ℝ)) := [[.fin 1, .fin 0], [.fin 2, .fin 1], [.fin 4, .fin 0]]
def exAct : List (List (Ext ℝ)) := [[.fin 1], [.fin 0], [.fin 0]]

theorem exAllPos : AllPos exSem exAct := by
  have pos3 : ∀ xs : List ℝ, xs ≠ [] → ¬ Const xs → stdClass (xs.map Ext.fin) = .pos :=
    fun xs hne hc => (stdClass_fin_pos_iff xs hne).mpr hc
  constructor
  · intro jj hjj
    have : jj = 0 ∨ jj = 1 := by
      have : jj < 2 := hjj
      omega
    rcases this with rfl | rfl
    · show stdClass (([1, 2, 4] : List ℝ).map Ext.fin) = .pos
      apply pos3 _ (by simp)
      intro h; have := h 1 (by simp) 2 (by simp); norm_num at this
    · show stdClass (([0, 1, 0] : List ℝ).map Ext.fin) = .pos
      apply pos3 _ (by simp)
      intro h; have := h 0 (by simp) 1 (by simp); norm_num at this
  · intro ii hii
    have : ii = 0 := by
      have : ii < 1 := hii
      omega
    subst this
    show stdClass (([1, 0, 0] : List ℝ).map Ext.fin) = .pos
    apply pos3 _ (by simp)
    intro h; have := h 1 (by simp) 0 (by simp); norm_num at this

/-- `correlation_eq_pearson` with EVERY hypothesis instantiated: chunk size 1,
    the single chunk `[0]`, `allow_nan=False` -/
example :
    correlation 0 (corrCell Real.sqrt) false exSem exAct 1 [0]
      = .ok [[some (pearson Real.sqrt [1, 2, 4] [1, 0, 0])], [some (pearson Real.sqrt [0, 1, 0] [1, 0, 0])]] :=
  correlation_eq_pearson exSem exAct false 1 (by decide) [0] (by decide) rfl (by decide) exAllPos

/-- … the first of these two numbers is `−(4/3) / √(28/9)` (= −2/√7 ≈ −0.756) -/
example : pearson Real.sqrt ([1, 2, 4] : List ℝ) [1, 0, 0] = -(4 / 3) / Real.sqrt (28 / 9) := by
  have h1 : cov ([1, 2, 4] : List ℝ) [1, 0, 0] = -(4 / 3) := by
    norm_num [cov, mean, sumL]
  have h2 : ssq ([1, 2, 4] : List ℝ) * ssq ([1, 0, 0] : List ℝ) = 28 / 9 := by
    norm_num [ssq, mean, sumL]
  unfold pearson
  rw [h1, h2]

/-- the hypotheses of `correlation_driver_sound` and the model's run, evaluated
    by the kernel over ℚ (the theorem itself is APPLIED in the two examples
    after this one): the same matrices, 2 chunks handed out in the order 1, 0 -/
example :
    AllPos ([[.fin 1, .fin 0], [.fin 2, .fin 1], [.fin 4, .fin 0]] : List (List (Ext ℚ)))
      [[.fin 1, .fin 3], [.fin 0, .fin 3], [.fin 0, .fin 5]] ∧
    correlation (0, 0) execCell false
      ([[.fin 1, .fin 0], [.fin 2, .fin 1], [.fin 4, .fin 0]] : List (List (Ext ℚ)))
      [[.fin 1, .fin 3], [.fin 0, .fin 3], [.fin 0, .fin 5]] 1 [1, 0]
      = .ok [[some (4 / 7, -1), some (25 / 28, 1)], [some (1 / 4, -1), some (1 / 4, -1)]] := by
  unfold AllPos
  decide +kernel

def exSemQ : List (List (Ext ℚ)) := [[.fin 1, .fin 0], [.fin 2, .fin 1], [.fin 4, .fin 0]]
def exActQ : List (List (Ext ℚ)) := [[.fin 1, .fin 3], [.fin 0, .fin 3], [.fin 0, .fin 5]]

theorem exAllPosQ : AllPos exSemQ exActQ := by
  unfold AllPos
  decide +kernel

/-- `correlation_driver_sound` APPLIED (every hypothesis instantiated: chunk size
    1, the two chunks in the order 1, 0 — a permutation of `range 2` —, equal
    row counts, 3 ≥ 2 rows, no degenerate column), clause 1: what the compiled
    model returns … -/
example :
    correlation (0, 0) execCell false exSemQ exActQ 1 [1, 0]
      = .ok (directMat (fun jj ii =>
          some (execCell (finCol (colOf .nan exSemQ jj)) (finCol (colOf .nan exActQ ii))))
          (nCols exSemQ) (nCols exActQ)) :=
  (correlation_driver_sound exSemQ exActQ false 1 (by decide) [1, 0] (by decide +kernel) rfl (by decide +kernel)
    exAllPosQ).1

/-- … and clause 3 for the cell (0, 0): the driver prints `(4/7, -1)`, hence
    Pearson's r of the columns `(1,2,4)`, `(1,0,0)` over ℝ has square 4/7 and
    is negative (it is −2/√7) -/
example :
    let v := pearson Real.sqrt ((finCol (colOf .nan exSemQ 0)).map (Rat.castHom ℝ))
      ((finCol (colOf .nan exActQ 0)).map (Rat.castHom ℝ))
    v * v = (((4 / 7 : ℚ)) : ℝ) ∧ v < 0 := by
  intro v
  have h := (correlation_driver_sound exSemQ exActQ false 1 (by decide) [1, 0] (by decide +kernel) rfl
    (by decide +kernel) exAllPosQ).2.2 0 (by decide +kernel) 0 (by decide +kernel)
  have hq : execCell (finCol (colOf .nan exSemQ 0)) (finCol (colOf .nan exActQ 0)) = (4 / 7, -1) := by
    decide +kernel
  simp only [hq] at h
  exact ⟨h.1, h.2.2.mpr (by norm_num)⟩

/-- a schedule with 3 chunks of size 2 handed out in the order 2, 0, 1 -/
example : prangeChunks 5 2 = [[0, 1], [2, 3], [4]] ∧
    kernelRun 0 (fun jj ii => 10 * jj + ii + 1) 2 5 2 [2, 0, 1]
      = [[1, 2, 3, 4, 5], [11, 12, 13, 14, 15]] := by
  decide +kernel

/-- the rejection rule on concrete columns (over ℤ): constant, constant infinite,
    containing a NaN, non-constant; and `correlation` on a matrix whose second
    semantics column is constant -/
example :
    stdClass ([.fin 3, .fin 3, .fin 3] : List (Ext ℤ)) = .zero ∧
    stdClass ([.pinf, .pinf] : List (Ext ℤ)) = .zero ∧
    stdClass ([.fin 3, .nan, .fin 3] : List (Ext ℤ)) = .nan ∧
    stdClass ([.nan, .nan] : List (Ext ℤ)) = .nan ∧
    stdClass ([.fin 3, .pinf, .fin 3] : List (Ext ℤ)) = .nan ∧
    stdClass ([.fin 3, .fin 4, .fin 3] : List (Ext ℤ)) = .pos ∧
    correlation (0 : ℤ) (fun x y => x.sum * y.sum) false
      [[.fin 1, .fin 2], [.fin 3, .fin 2]] [[.fin 1], [.fin 0]] 10 [0] = .error .value ∧
    correlation (0 : ℤ) (fun x y => x.sum * y.sum) true
      [[.fin 1, .fin 2], [.fin 3, .fin 2]] [[.fin 1], [.fin 0]] 10 [0] = .ok [[some 4], [none]] ∧
    correlation (0 : ℤ) (fun x y => x.sum * y.sum) false
      [[.fin 1, .fin 2]] [[.fin 1], [.fin 0]] 10 [0] = .error .assertion := by
  decide +kernel

end Pyndl.C18
