/-
  C04 — Events are chunked completely and in order, and chunking terminates.
-/
import PyndlProofs.Chunking
import PyndlProofs.Bytes
import PyndlProofs.Laws

namespace Pyndl.C04
open Pyndl List

/-- **complete and in order**: the chunks of jobs `0 … ⌈n/per⌉−1`, concatenated
    in numeric order, are exactly the events of the file in their original
    order — every `per ≥ 1` (the code demands ≥ 2), exact multiples included. -/
theorem chunks_concat {α : Type} (es : List α) (per : Nat) (hp : 1 ≤ per) :
    ((List.range (nChunks es.length per)).map (chunkOf per es)).flatten = es :=
  chunks_flatten es per hp _ (nChunks_covers es.length per hp)

/-- the file written for job `j` holds exactly `chunk j` (header count included),
    and it reads back as that chunk -/
theorem writeEvents_window (es : List (Event Nat Nat)) (per j : Nat)
    (hne : chunkOf per es j ≠ []) (hw : Wf32 (chunkOf per es j)) (hl : (chunkOf per es j).length < 4294967296) :
    ∃ bytes r, writeEvents Generated.pyMagic Generated.pyVersion .keep es (j * per) ((j + 1) * per) = (some bytes, r) ∧
      decodeChunkPy Generated.pyMagic Generated.pyVersion bytes = .ok (chunkOf per es j) := by
  have hwin : windowEvents .keep es (j * per) ((j + 1) * per) = .ok (chunkOf per es j) := by
    unfold windowEvents chunkOf
    have : (j + 1) * per - j * per = per := by
      rw [Nat.add_mul, Nat.one_mul, Nat.add_sub_cancel_left]
    rw [this]
    generalize (es.drop (j * per)).take per = win
    generalize j * per = idx
    induction win generalizing idx with
    | nil => rfl
    | cons e win ih => simp [windowEvents.go, applyPolicy, ih (idx + 1)]
  have hlen : (chunkOf per es j).length ≠ 0 := fun h => hne (List.length_eq_zero_iff.mp h)
  have hdec := decodeChunkPy_encodeChunk Generated.pyMagic Generated.pyVersion (by decide) (by decide)
    (chunkOf per es j) hl hw
  unfold writeEvents
  rw [hwin]
  simp only [hlen, if_false]
  split
  · exact ⟨_, _, rfl, hdec⟩
  · exact ⟨_, _, rfl, hdec⟩

/-- chunk file names sort back into numeric order by the key the learners use,
    for ANY number of chunks (≥ 11 included) and whatever `os.listdir` returns -/
theorem name_key_roundtrip (i : Nat) : chunkKey (chunkName i) = i := chunkKey_chunkName i

theorem sort_is_numeric (k : Nat) (l : List (List Char))
    (hperm : l ~ (List.range k).map chunkName) (hsorted : (l.map chunkKey).Pairwise (· ≤ ·)) :
    l = (List.range k).map chunkName :=
  sorted_by_key_is_numeric k l hperm hsorted

/-- **the reported count is exact for every completion order**: the callbacks
    commute (addition), so any order of the submitted jobs gives `|es|`. -/
theorem count_any_order (n per : Nat) (hp : 1 ≤ per) (order : List Nat)
    (h : order ~ List.range (n / per + 1)) :
    (order.map (fun j => (jobResult n per j).count)).sum = n := by
  rw [(h.map _).sum_eq]
  exact sum_counts_all n per hp

/-- job `n / per` is the first one whose result closes the pool — also when
    `per` divides `n` (that job then writes no event) -/
theorem first_closing_job (n per j : Nat) (hp : 1 ≤ per) :
    (jobResult n per j).closes = true ↔ n / per ≤ j := jobResult_closes_iff n per j hp

/-- **the submit loop terminates for every completion oracle** with the exact
    count (see `PyndlProofs.Chunking.submit_loop_terminates`). -/
theorem submit_loop_terminates (n per burst : Nat) (hp : 1 ≤ per) (delay : Nat → Nat) :
    let H := tDone delay burst (n / per)
    let r := simulate n per burst delay H
    r.1 ≤ H ∧ n / per + 1 ≤ r.2.1 ∧ r.2.1 ≤ H + 1 ∧ r.2.2 = n :=
  Pyndl.submit_loop_terminates n per burst hp delay

/-- the pinned tree's rule (F1, repaired): if `per` divides `n` no job result
    ever closes the pool — the submit loop is unbounded. Witness replayed on the
    real code: 4 events, `events_per_temporary_file = 2`. -/
theorem submit_loop_diverges_on_multiple_old_rule (n per : Nat) (hp : 1 ≤ per) (hdiv : per ∣ n) (j : Nat) :
    (jobResultOld n per j).closes = false := old_rule_never_closes n per hp hdiv j

/-- **weights do not depend on the chunk size**: learning chunk by chunk is
    learning the whole sequence -/
theorem learn_chunk_independent {R : Type} [CommRing R] {ι κ : Type} [DecidableEq ι] [DecidableEq κ]
    (α : ι → R) (β₁ β₂ lam : R) (W : κ → ι → R) (es : List (Event ι κ)) (per : Nat) (hp : 1 ≤ per) :
    ((List.range (nChunks es.length per)).map (chunkOf per es)).foldl (rwLearn α β₁ β₂ lam) W
      = rwLearn α β₁ β₂ lam W es := by
  have h := chunks_concat es per hp
  generalize (List.range (nChunks es.length per)).map (chunkOf per es) = chunks at h
  subst h
  induction chunks generalizing W with
  | nil => rfl
  | cons c cs ih => simp only [List.foldl_cons, List.flatten_cons, rwLearn_append, ih]

/-! non-vacuity: 4 events, 2 per file (the F1 witness): 3 jobs, the third writes
nothing and closes; every oracle ends with count 4. 23 events, 2 per file: 12
chunk files whose names sort numerically. -/
example : (jobResult 4 2 0, jobResult 4 2 1, jobResult 4 2 2) = (⟨2, false⟩, ⟨2, false⟩, ⟨0, true⟩) := by decide
example : (simulate 4 2 8 (fun j => if j = 2 then 7 else 0) 9).2.2 = 4 := by decide +kernel
example : chunkKey (chunkName 10) = 10 ∧ chunkName 10 = "events_0_10.dat".toList := by decide +kernel

end Pyndl.C04
