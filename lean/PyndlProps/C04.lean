/-
  C04 — Events are chunked completely and in order, and chunking terminates.

  Chunk sizes: "every chunk size of two or more" that FITS THE FORMAT, i.e.
  `2 ≤ events_per_file < 2³²`: every conversion job writes the estimate
  `stop - start = events_per_file` into the 32-bit header first, so for
  `events_per_file ≥ 2³²` every job — job 0 is always submitted — raises
  `OverflowError` (`chunk_size_overflow`; confirmed on the real code).
  By construction (not theorems): the CONTENT of the chunk files does not depend
  on `n_jobs` because the model `makeChunks` runs the jobs one after the other,
  each on its own window of the same event stream (the real jobs are separate
  processes that each re-read the event file: they share nothing); `n_jobs`
  enters only the submit-loop model (`simulate`: `burst = 4 · n_jobs`, and the
  completion order = the arbitrary oracle `delay`).  `simulate` / `closeTime` is
  a closed form of the submit loop; `runLoop` is the STEP semantics of the same
  loop (one state per pass through `while True`: clock, next job index, jobs
  submitted with their completion ticks; `break` iff a closing callback ran
  before this pass), and `submit_loop_step_semantics` proves that for every
  oracle the step semantics ends within `tDone (n / per) + 2` passes in exactly
  the closed form's state.  Termination of the call is "finitely many jobs are
  submitted, each completes".
-/
import PyndlProofs.Chunking
import PyndlProofs.Bytes
import PyndlProofs.Laws
import PyndlProofs.NdlSpec
import PyndlProofs.Faults
import PyndlProofs.SubmitLoop

namespace Pyndl.C04
open Pyndl List

/-- **complete and in order**: the chunks of jobs `0 … ⌈n/per⌉−1`, concatenated
    in numeric order, are exactly the events of the file in their original
    order — every `per ≥ 1` (the code demands ≥ 2), exact multiples included. -/
theorem chunks_concat {α : Type} (es : List α) (per : Nat) (hp : 1 ≤ per) :
    ((List.range (nChunks es.length per)).map (chunkOf per es)).flatten = es :=
  chunks_flatten es per hp _ (nChunks_covers es.length per hp)

/-- the file written for job `j` holds exactly `chunk j` (header count included),
    and it reads back as that chunk — every duplicate policy that accepts the
    window (`hp`; `win` = the policy-processed window), every legal chunk size -/
theorem writeEvents_window (p : DupPolicy) (es win : List (Event Nat Nat)) (per j : Nat) (hU : per < 4294967296)
    (hp : applyPolicyAll p (chunkOf per es j) = some win)
    (hne : chunkOf per es j ≠ []) (hw : Wf32 win) :
    ∃ r, writeEvents Generated.pyMagic Generated.pyVersion p es (j * per) ((j + 1) * per)
        = (some (encodeChunk Generated.pyMagic Generated.pyVersion win), r) ∧
      (r = .ok win.length ∨ r = .stopped win.length) ∧
      decodeChunkPy Generated.pyMagic Generated.pyVersion
        (encodeChunk Generated.pyMagic Generated.pyVersion win) = .ok win := by
  have hlen := applyPolicyAll_length p _ win hp
  have hl : win.length < 4294967296 := by rw [hlen, length_chunkOf]; omega
  have hdec := decodeChunkPy_encodeChunk Generated.pyMagic Generated.pyVersion (by decide) (by decide) win hl hw
  rcases writeEvents_job Generated.pyMagic Generated.pyVersion p es per j hU with ⟨hn, _⟩ | ⟨win', hs, _, hwr⟩
  · rw [hp] at hn; cases hn
  · rw [hp] at hs; cases hs
    have h0 : win.length ≠ 0 := by
      rw [hlen]; exact fun h => hne (List.length_eq_zero_iff.mp h)
    rw [hwr, if_neg h0]
    split
    · exact ⟨_, rfl, Or.inr rfl, hdec⟩
    · exact ⟨_, rfl, Or.inl rfl, hdec⟩

/-- **the conversion stage as a whole, every duplicate policy**: for events the
    policy accepts (`ids'` = the policy-processed events) and a legal chunk size,
    the chunk files in numeric order are the encoded windows
    `[k·per, (k+1)·per)` of `ids'` for `k < ⌈n/per⌉` — no file for a job that finds
    no event, exact multiples of `per` included — and the reported count is the
    number of events -/
theorem conversion_files (p : DupPolicy) (ids ids' : List (Event Nat Nat))
    (h : applyPolicyAll p ids = some ids') (per : Nat) (hp : 1 ≤ per) (hU : per < 4294967296) :
    makeChunks Generated.pyMagic Generated.pyVersion p ids per
      = .ok ((List.range (nChunks ids.length per)).map
              (fun k => encodeChunk Generated.pyMagic Generated.pyVersion (chunkOf per ids' k)),
             ids.length) :=
  makeChunks_ok _ _ p ids ids' h per hp hU

/-- … a rejected duplicate in ANY window makes it raise `ValueError` … -/
theorem conversion_dup_error (p : DupPolicy) (ids : List (Event Nat Nat)) (per : Nat)
    (hp : 1 ≤ per) (hU : per < 4294967296) (h : applyPolicyAll p ids = none) :
    makeChunks Generated.pyMagic Generated.pyVersion p ids per = .error .value :=
  makeChunks_error _ _ p ids per hp hU h

/-- … and **`events_per_file ≥ 2³²` makes it raise `OverflowError`**, for every
    event file (the bound `< 2³²` on the chunk size is sharp) -/
theorem chunk_size_overflow (p : DupPolicy) (ids : List (Event Nat Nat)) (per : Nat) (hU : 4294967296 ≤ per) :
    makeChunks Generated.pyMagic Generated.pyVersion p ids per = .error .other ∧
    ∀ j, writeEvents Generated.pyMagic Generated.pyVersion p ids (j * per) ((j + 1) * per) = (none, .overflow) :=
  ⟨makeChunks_overflow _ _ p ids per hU, fun j => writeEvents_overflow _ _ p ids per j hU⟩

/-- **`jobResult` is what `write_events` reports** (the callback view used by the
    submit-loop model is tied to the writer): for a job that does not fail,
    the count is the number of events written and `closes` holds exactly when
    the result is not the plain return value `per`.  (C05
    `job_result_is_write_events` is the same statement, listed there as the tie
    between its oracle `failingJob` and the writer.) -/
theorem job_result_is_write_events (p : DupPolicy) (ids : List (Event Nat Nat)) (per j : Nat)
    (hp1 : 1 ≤ per) (hU : per < 4294967296)
    (hacc : failingJob Generated.pyMagic Generated.pyVersion p ids per j = false) :
    let c := (jobResult ids.length per j).count
    (writeEvents Generated.pyMagic Generated.pyVersion p ids (j * per) ((j + 1) * per)).2 =
      (if c = 0 then .empty else if c < per then .stopped c else .ok c) ∧
    ((jobResult ids.length per j).closes = true ↔
      (writeEvents Generated.pyMagic Generated.pyVersion p ids (j * per) ((j + 1) * per)).2 ≠ .ok per) :=
  jobResult_eq_writeEvents _ _ p ids per j hp1 hU hacc

/-- chunk file names sort back into numeric order by the key the learners use,
    for ANY number of chunks (≥ 11 included) and whatever `os.listdir` returns -/
theorem name_key_roundtrip (i : Nat) : chunkKey (chunkName i) = i := chunkKey_chunkName i

theorem sort_is_numeric (k : Nat) (l : List (List Char))
    (hperm : l ~ (List.range k).map chunkName) (hsorted : (l.map chunkKey).Pairwise (· ≤ ·)) :
    l = (List.range k).map chunkName :=
  sorted_by_key_is_numeric k l hperm hsorted

/-- **the reported count is exact for every completion order**: the callbacks
    commute (addition), so any order of the submitted jobs gives `|es|`. -/
theorem count_any_order (n per : Nat) (hp : 1 ≤ per) (order : List Nat)
    (h : order ~ List.range (n / per + 1)) :
    (order.map (fun j => (jobResult n per j).count)).sum = n := by
  rw [(h.map _).sum_eq]
  exact sum_counts_all n per hp

/-- job `n / per` is the first one whose result closes the pool — also when
    `per` divides `n` (that job then writes no event) -/
theorem first_closing_job (n per j : Nat) (hp : 1 ≤ per) :
    (jobResult n per j).closes = true ↔ n / per ≤ j := jobResult_closes_iff n per j hp

/-- **the submit loop terminates for every completion oracle** with the exact
    count (see `PyndlProofs.Chunking.submit_loop_terminates`). -/
theorem submit_loop_terminates (n per burst : Nat) (hp : 1 ≤ per) (delay : Nat → Nat) :
    let H := tDone delay burst (n / per)
    let r := simulate n per burst delay H
    r.1 ≤ H ∧ n / per + 1 ≤ r.2.1 ∧ r.2.1 ≤ H + 1 ∧ r.2.2 = n :=
  Pyndl.submit_loop_terminates n per burst hp delay

/-- **the submit loop, pass by pass, ends for every completion oracle in the
    closed form's state**: running the step semantics `runLoop` from the initial
    state with `tDone (n / per) + 2` passes of fuel does not run out of fuel; the
    final state has submitted exactly the jobs `0 … K-1` for
    `K = (simulate …).2.1`, stands at tick `tSubmit K`, and the callbacks of the
    submitted jobs add up to `n` — exact multiples of `events_per_file`, every
    burst `≥ 1` (the proof does not even need `burst ≥ 1`) and every delay
    function included. -/
theorem submit_loop_step_semantics (n per burst : Nat) (hp : 1 ≤ per) (delay : Nat → Nat) :
    let H := tDone delay burst (n / per)
    let r := simulate n per burst delay H
    ∃ s, runLoop n per burst delay (H + 2) loopInit = some s ∧
      s.ii = r.2.1 ∧ s.now = tSubmit delay burst r.2.1 ∧
      s.subs.map Prod.fst = (List.range r.2.1).reverse ∧
      loopCount n per s = r.2.2 ∧ loopCount n per s = n :=
  runLoop_refines_simulate n per burst hp delay

/-- the fuel is only a bound on the passes looked at: once the loop has ended,
    any larger bound gives the same final state, and the final state is one in
    which the pool is closed (the `break` was taken, not the fuel exhausted) -/
theorem submit_loop_fuel_irrelevant (n per burst : Nat) (delay : Nat → Nat) (fuel extra : Nat)
    (s s' : LoopState) (h : runLoop n per burst delay fuel s = some s') :
    runLoop n per burst delay (fuel + extra) s = some s' ∧ poolClosed n per s' = true :=
  ⟨runLoop_fuel_mono n per burst delay fuel extra s s' h, runLoop_final_closed n per burst delay fuel s s' h⟩

/-- one pass of the loop: it breaks exactly when a submitted job whose result
    closes the pool completed strictly before this pass — in the invariant
    state of pass `k` (clock `tSubmit k`, jobs `0 … k-1` submitted) -/
theorem submit_loop_break_iff (n per burst k : Nat) (delay : Nat → Nat) (s : LoopState)
    (h : LoopInv delay burst k s) :
    loopStep n per burst delay s = none ↔
      ∃ j, j < k ∧ (jobResult n per j).closes = true ∧ tDone delay burst j < tSubmit delay burst k := by
  rw [← poolClosed_iff n per burst k delay s h]
  unfold loopStep
  cases poolClosed n per s <;> simp

/-- under the pinned tree's rule (F1) the step semantics never breaks when `per`
    divides `n`: no submitted job ever closes the pool, so every pass submits
    another job (the hang that was repaired) -/
theorem submit_loop_old_rule_never_breaks (n per : Nat) (hp : 1 ≤ per) (hdiv : per ∣ n)
    (subs : List (Nat × Nat)) (now : Nat) :
    subs.any (fun p => (jobResultOld n per p.1).closes && decide (p.2 < now)) = false := by
  simp [old_rule_never_closes n per hp hdiv]

/-- the pinned tree's rule (F1, repaired): if `per` divides `n` no job result
    ever closes the pool — the submit loop is unbounded. Witness replayed on the
    real code: 4 events, `events_per_temporary_file = 2`. -/
theorem submit_loop_diverges_on_multiple_old_rule (n per : Nat) (hp : 1 ≤ per) (hdiv : per ∣ n) (j : Nat) :
    (jobResultOld n per j).closes = false := old_rule_never_closes n per hp hdiv j

/-- **weights do not depend on the chunk size** (specification level; for the
    MODEL of `ndl.ndl` the same is C01 `ndl_call_eq_spec`, whose right-hand side
    does not mention `events_per_temporary_file`): learning chunk by chunk is
    learning the whole sequence -/
theorem learn_chunk_independent {R : Type} [CommRing R] {ι κ : Type} [DecidableEq ι] [DecidableEq κ]
    (α : ι → R) (β₁ β₂ lam : R) (W : κ → ι → R) (es : List (Event ι κ)) (per : Nat) (hp : 1 ≤ per) :
    ((List.range (nChunks es.length per)).map (chunkOf per es)).foldl (rwLearn α β₁ β₂ lam) W
      = rwLearn α β₁ β₂ lam W es := by
  have h := chunks_concat es per hp
  generalize (List.range (nChunks es.length per)).map (chunkOf per es) = chunks at h
  subst h
  induction chunks generalizing W with
  | nil => rfl
  | cons c cs ih => simp only [List.foldl_cons, List.flatten_cons, rwLearn_append, ih]

/-! non-vacuity: 4 events, 2 per file (the F1 witness): 3 jobs, the third writes
nothing and closes; every oracle ends with count 4. 23 events, 2 per file: 12
chunk files whose names sort numerically. -/
example : (jobResult 4 2 0, jobResult 4 2 1, jobResult 4 2 2) = (⟨2, false⟩, ⟨2, false⟩, ⟨0, true⟩) := by decide
example : (simulate 4 2 8 (fun j => if j = 2 then 7 else 0) 9).2.2 = 4 := by decide +kernel
/-- non-vacuity of `submit_loop_step_semantics`: the F1 witness (4 events, 2 per
    file, burst 8) with every closing job (2, 3, …) taking 7 ticks: the first burst
    of 8 jobs is submitted, the thread waits for job 7 (done at tick 14) and then
    finds the pool closed by job 2 (done at tick 9): 8 jobs submitted, count 4,
    the closed form agrees. -/
example : (runLoop 4 2 8 (fun j => if j ≥ 2 then 7 else 0) 11 loopInit).map (fun s => (s.ii, s.now, loopCount 4 2 s))
    = some (8, 14, 4) ∧ simulate 4 2 8 (fun j => if j ≥ 2 then 7 else 0) 9 = (9, 8, 4) := by decide +kernel
example : chunkKey (chunkName 10) = 10 ∧ chunkName 10 = "events_0_10.dat".toList := by decide +kernel

/-- non-vacuity of `conversion_files` / `writeEvents_window`: 5 events, 2 per
    file, policy `True` (a repeated cue is removed): three files, the last one
    partly filled -/
example :
    makeChunks Generated.pyMagic Generated.pyVersion .dedup
      [⟨[0, 0], [0]⟩, ⟨[1], []⟩, ⟨[2], [1]⟩, ⟨[0], [1]⟩, ⟨[3], [0]⟩] 2
      = .ok ([encodeChunk Generated.pyMagic Generated.pyVersion [⟨[0], [0]⟩, ⟨[1], []⟩],
              encodeChunk Generated.pyMagic Generated.pyVersion [⟨[2], [1]⟩, ⟨[0], [1]⟩],
              encodeChunk Generated.pyMagic Generated.pyVersion [⟨[3], [0]⟩]], 5) :=
  conversion_files .dedup _ [⟨[0], [0]⟩, ⟨[1], []⟩, ⟨[2], [1]⟩, ⟨[0], [1]⟩, ⟨[3], [0]⟩] (by decide +kernel) 2
    (by decide) (by decide)

/-- `writeEvents_window` ITSELF applied: job 1 of 3 events, 2 per file, policy
    `True` — the partly filled last file holds the de-duplicated third event and
    reads back as it -/
example : ∃ r, writeEvents Generated.pyMagic Generated.pyVersion .dedup [⟨[1, 1], [3]⟩, ⟨[4], []⟩, ⟨[5, 5], [6]⟩]
        (1 * 2) ((1 + 1) * 2)
      = (some (encodeChunk Generated.pyMagic Generated.pyVersion [⟨[5], [6]⟩]), r) ∧ (r = .ok 1 ∨ r = .stopped 1) ∧
    decodeChunkPy Generated.pyMagic Generated.pyVersion
      (encodeChunk Generated.pyMagic Generated.pyVersion [⟨[5], [6]⟩]) = .ok [⟨[5], [6]⟩] :=
  writeEvents_window .dedup [⟨[1, 1], [3]⟩, ⟨[4], []⟩, ⟨[5, 5], [6]⟩] [⟨[5], [6]⟩] 2 1 (by decide)
    (by decide +kernel) (by decide +kernel) (wf32_of_bound 100 (by decide) _ (by decide))

/-- `job_result_is_write_events` ITSELF applied to that file: job 0 (full window:
    `.ok 2`, does not close), job 1 (one event left: `StopIteration`, closes) -/
example :
    (writeEvents Generated.pyMagic Generated.pyVersion .dedup [⟨[1, 1], [3]⟩, ⟨[4], []⟩, ⟨[5, 5], [6]⟩] (0 * 2)
      ((0 + 1) * 2)).2 = .ok 2 ∧
    (writeEvents Generated.pyMagic Generated.pyVersion .dedup [⟨[1, 1], [3]⟩, ⟨[4], []⟩, ⟨[5, 5], [6]⟩] (1 * 2)
      ((1 + 1) * 2)).2 = .stopped 1 ∧
    (jobResult 3 2 1).closes = true := by
  have h0 := (job_result_is_write_events .dedup [⟨[1, 1], [3]⟩, ⟨[4], []⟩, ⟨[5, 5], [6]⟩] 2 0 (by decide) (by decide)
    (by decide +kernel)).1
  have h1 := job_result_is_write_events .dedup [⟨[1, 1], [3]⟩, ⟨[4], []⟩, ⟨[5, 5], [6]⟩] 2 1 (by decide) (by decide)
    (by decide +kernel)
  refine ⟨h0.trans (by decide), h1.1.trans (by decide), h1.2.mpr ?_⟩
  rw [h1.1]
  decide

/-- `chunk_size_overflow` ITSELF applied: `events_per_file = 2³²` — the conversion
    raises `OverflowError` and so does every single job, also on an empty file -/
example :
    makeChunks Generated.pyMagic Generated.pyVersion .keep [⟨[1], [2]⟩] 4294967296 = .error .other ∧
    writeEvents Generated.pyMagic Generated.pyVersion .keep [] (3 * 4294967296) ((3 + 1) * 4294967296)
      = (none, .overflow) :=
  ⟨(chunk_size_overflow .keep [⟨[1], [2]⟩] 4294967296 (by decide)).1,
   (chunk_size_overflow .keep [] 4294967296 (by decide)).2 3⟩

end Pyndl.C04
